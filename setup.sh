#!/bin/sh
# Build the framework from files on disk only (offline): translators, Lean library, native model driver.
set -e
cd "$(dirname "$0")"
export PYTHONPATH="$(pwd):${PYTHONPATH}"
/venv/bin/python -m harness.regen || true
cd lean
lake build 2>&1 | grep -v '^✔' | tail -40
test -x .lake/build/bin/twvdriver
printf 'search lower 1 0,1,2,3 -1,1/2,3,7/2\n' | .lake/build/bin/twvdriver | grep -q '^ok 0,0,3,3$'
echo "setup ok"
