import TWV.Model.Base
import TWV.Model.Search
import TWV.Model.Arrays
import TWV.Model.Match
import TWV.Model.Funfit
import TWV.Model.Rfa
import TWV.Driver.Ops
import TWV.Properties.C10
