import TWV.Model.Base
import TWV.Model.Search
import TWV.Model.Arrays
import TWV.Model.Match
import TWV.Driver.Ops
