import TWV.Tie.Funfit
import TWV.Lemmas.PowLike
import Mathlib.Order.Interval.Set.UnorderedInterval
import Mathlib.Tactic.Positivity
import Mathlib.Tactic.Linarith
import Mathlib.Tactic.Ring
import Mathlib.Tactic.FieldSimp

/-!
# The five elementary shape functions of `funfit.py`

Closed forms in the normalised abscissa `s = (x - x0) / (x1 - x0)`, end points, convexity
(`y0 + (y1 - y0) * θ` with `0 ≤ θ ≤ 1`) and monotonicity.  Importing `TWV.Tie.Funfit` makes every
property file that uses these lemmas depend on the equality of the regenerated definitions with
the hand model.
-/

set_option linter.unusedSectionVars false
set_option linter.unusedVariables false

namespace TWV

variable {K : Type} [Field K] [LinearOrder K] [IsStrictOrderedRing K]

/-! ### the normalised abscissa -/

/-- `s = (x - x0) / (x1 - x0)` -/
def sOf (x x0 x1 : K) : K := (x - x0) / (x1 - x0)

theorem sOf_left (x0 x1 : K) : sOf x0 x0 x1 = 0 := by simp [sOf]

theorem sOf_right {x0 x1 : K} (h : x0 ≠ x1) : sOf x1 x0 x1 = 1 := by
  unfold sOf; exact div_self (sub_ne_zero.mpr (Ne.symm h))

theorem sOf_nonneg {x x0 x1 : K} (h : x0 < x1) (h0 : x0 ≤ x) : 0 ≤ sOf x x0 x1 :=
  div_nonneg (sub_nonneg.mpr h0) (sub_nonneg.mpr h.le)

theorem sOf_le_one {x x0 x1 : K} (h : x0 < x1) (h1 : x ≤ x1) : sOf x x0 x1 ≤ 1 := by
  unfold sOf; rw [div_le_one (sub_pos.mpr h)]; linarith

theorem sOf_mono {x x' x0 x1 : K} (h : x0 < x1) (hx : x ≤ x') : sOf x x0 x1 ≤ sOf x' x0 x1 := by
  unfold sOf; exact div_le_div_of_nonneg_right (by linarith) (sub_pos.mpr h).le

/-- the mirrored abscissa of `exp_xy_fit` -/
theorem sOf_compl {x x0 x1 : K} (h : x0 ≠ x1) : (x1 - x) / (x1 - x0) = 1 - sOf x x0 x1 := by
  have hd : x1 - x0 ≠ 0 := sub_ne_zero.mpr (Ne.symm h)
  unfold sOf; field_simp; ring

/-! ### convex combinations -/

theorem convex_mem_uIcc (y0 y1 θ : K) (h0 : 0 ≤ θ) (h1 : θ ≤ 1) :
    y0 + (y1 - y0) * θ ∈ Set.uIcc y0 y1 := by
  rcases le_total y0 y1 with h | h
  · rw [Set.uIcc_of_le h]
    constructor <;> nlinarith [mul_nonneg (sub_nonneg.mpr h) h0,
      mul_nonneg (sub_nonneg.mpr h) (sub_nonneg.mpr h1)]
  · rw [Set.uIcc_of_ge h]
    constructor <;> nlinarith [mul_nonneg (sub_nonneg.mpr h) h0,
      mul_nonneg (sub_nonneg.mpr h) (sub_nonneg.mpr h1)]

theorem convex_mono_of_le {y0 y1 θ θ' : K} (hy : y0 ≤ y1) (h : θ ≤ θ') :
    y0 + (y1 - y0) * θ ≤ y0 + (y1 - y0) * θ' := by
  nlinarith [mul_nonneg (sub_nonneg.mpr hy) (sub_nonneg.mpr h)]

theorem convex_anti_of_ge {y0 y1 θ θ' : K} (hy : y1 ≤ y0) (h : θ ≤ θ') :
    y0 + (y1 - y0) * θ' ≤ y0 + (y1 - y0) * θ := by
  nlinarith [mul_nonneg (sub_nonneg.mpr hy) (sub_nonneg.mpr h)]

/-! ### the two blends -/

/-- `exp_lin_fit` in normalised form: `θ(s) = s² + s^α (1 - s)` -/
def blend (pw : K → K) (s : K) : K := s * s + pw s * (1 - s)

/-- `lin_exp_xy_fit` in normalised form: `θ(s) = s (1 - (1 - s)^α) + s (1 - s)` -/
def blendXY (pw : K → K) (s : K) : K := s * (1 - pw (1 - s)) + s * (1 - s)

theorem blendXY_eq (pw : K → K) (s : K) : blendXY pw s = 1 - blend pw (1 - s) := by
  unfold blendXY blend; ring

theorem blend_nonneg {pw : K → K} (hp : PowLike pw) {s : K} (h0 : 0 ≤ s) (h1 : s ≤ 1) :
    0 ≤ blend pw s := by
  unfold blend
  have := hp.nonneg s h0 h1
  nlinarith [mul_nonneg this (sub_nonneg.mpr h1), mul_nonneg h0 h0]

theorem blend_le_one {pw : K → K} (hp : PowLike pw) {s : K} (h0 : 0 ≤ s) (h1 : s ≤ 1) :
    blend pw s ≤ 1 := by
  unfold blend
  have := hp.le_one s h0 h1
  nlinarith [mul_nonneg (sub_nonneg.mpr this) (sub_nonneg.mpr h1), mul_nonneg h0 (sub_nonneg.mpr h1)]

theorem blendXY_nonneg {pw : K → K} (hp : PowLike pw) {s : K} (h0 : 0 ≤ s) (h1 : s ≤ 1) :
    0 ≤ blendXY pw s := by
  rw [blendXY_eq]; linarith [blend_le_one hp (s := 1 - s) (by linarith) (by linarith)]

theorem blendXY_le_one {pw : K → K} (hp : PowLike pw) {s : K} (h0 : 0 ≤ s) (h1 : s ≤ 1) :
    blendXY pw s ≤ 1 := by
  rw [blendXY_eq]; linarith [blend_nonneg hp (s := 1 - s) (by linarith) (by linarith)]

/-- the `exp_lin_fit` blend is non-decreasing **if** `s^α ≤ s` on `[0, 1]` (exponent `≥ 1`);
`θ(t) - θ(s) ≥ (t - s) (t + s - pw s)` -/
theorem blend_mono {pw : K → K} (hp : PowLike pw) (hsub : ∀ t, 0 ≤ t → t ≤ 1 → pw t ≤ t)
    {s t : K} (h0 : 0 ≤ s) (hst : s ≤ t) (h1 : t ≤ 1) : blend pw s ≤ blend pw t := by
  unfold blend
  have hm := hp.mono s t h0 hst h1
  have hs := hsub s h0 (le_trans hst h1)
  nlinarith [mul_nonneg (sub_nonneg.mpr hm) (sub_nonneg.mpr h1),
    mul_nonneg (sub_nonneg.mpr hst) (sub_nonneg.mpr hs), mul_nonneg (sub_nonneg.mpr hst) (le_trans h0 hst)]

theorem blendXY_mono {pw : K → K} (hp : PowLike pw) (hsub : ∀ t, 0 ≤ t → t ≤ 1 → pw t ≤ t)
    {s t : K} (h0 : 0 ≤ s) (hst : s ≤ t) (h1 : t ≤ 1) : blendXY pw s ≤ blendXY pw t := by
  rw [blendXY_eq, blendXY_eq]
  have := blend_mono hp hsub (s := 1 - t) (t := 1 - s) (by linarith) (by linarith) (by linarith)
  linarith

/-! ### closed forms -/

theorem linFit_closed (x x0 y0 x1 y1 : K) :
    linFit x (x0, y0) (x1, y1) = y0 + (y1 - y0) * sOf x x0 x1 := by
  simp only [linFit, sOf]; rw [mul_div_assoc]

theorem expFit_closed (pw : K → K) (x x0 y0 x1 y1 : K) :
    expFit pw x (x0, y0) (x1, y1) = y0 + (y1 - y0) * pw (sOf x x0 x1) := rfl

theorem expXYFit_closed (pw : K → K) {x x0 y0 x1 y1 : K} (h : x0 ≠ x1) :
    expXYFit pw x (x0, y0) (x1, y1) = y0 + (y1 - y0) * (1 - pw (1 - sOf x x0 x1)) := by
  simp only [expXYFit]; rw [sOf_compl h]

theorem expLinFit_closed (pw : K → K) {x x0 y0 x1 y1 : K} (h : x0 ≠ x1) :
    expLinFit pw x (x0, y0) (x1, y1) = y0 + (y1 - y0) * blend pw (sOf x x0 x1) := by
  have hd : x1 - x0 ≠ 0 := sub_ne_zero.mpr (Ne.symm h)
  simp only [expLinFit]
  rw [linFit_closed, expFit_closed, mul_div_assoc, mul_div_assoc, sOf_compl h]
  simp only [blend]
  have : (x - x0) / (x1 - x0) = sOf x x0 x1 := rfl
  rw [this]; ring

theorem linExpXYFit_closed (pw : K → K) {x x0 y0 x1 y1 : K} (h : x0 ≠ x1) :
    linExpXYFit pw x (x0, y0) (x1, y1) = y0 + (y1 - y0) * blendXY pw (sOf x x0 x1) := by
  have hd : x1 - x0 ≠ 0 := sub_ne_zero.mpr (Ne.symm h)
  simp only [linExpXYFit]
  rw [linFit_closed, expXYFit_closed pw h, mul_div_assoc, mul_div_assoc, sOf_compl h]
  simp only [blendXY]
  have : (x - x0) / (x1 - x0) = sOf x x0 x1 := rfl
  rw [this]; ring

/-! ### end points -/

theorem linFit_left (x0 y0 x1 y1 : K) : linFit x0 (x0, y0) (x1, y1) = y0 := by
  rw [linFit_closed, sOf_left]; ring

theorem linFit_right {x0 x1 : K} (y0 y1 : K) (h : x0 ≠ x1) : linFit x1 (x0, y0) (x1, y1) = y1 := by
  rw [linFit_closed, sOf_right h]; ring

theorem expFit_left {pw : K → K} (hp0 : pw 0 = 0) (x0 y0 x1 y1 : K) :
    expFit pw x0 (x0, y0) (x1, y1) = y0 := by
  rw [expFit_closed, sOf_left, hp0]; ring

theorem expFit_right {pw : K → K} (hp1 : pw 1 = 1) {x0 x1 : K} (y0 y1 : K) (h : x0 ≠ x1) :
    expFit pw x1 (x0, y0) (x1, y1) = y1 := by
  rw [expFit_closed, sOf_right h, hp1]; ring

theorem expXYFit_left {pw : K → K} (hp1 : pw 1 = 1) {x0 x1 : K} (y0 y1 : K) (h : x0 ≠ x1) :
    expXYFit pw x0 (x0, y0) (x1, y1) = y0 := by
  rw [expXYFit_closed pw h, sOf_left, sub_zero, hp1]; ring

theorem expXYFit_right {pw : K → K} (hp0 : pw 0 = 0) {x0 x1 : K} (y0 y1 : K) (h : x0 ≠ x1) :
    expXYFit pw x1 (x0, y0) (x1, y1) = y1 := by
  rw [expXYFit_closed pw h, sOf_right h, sub_self, hp0]; ring

theorem expLinFit_left {pw : K → K} (hp0 : pw 0 = 0) {x0 x1 : K} (y0 y1 : K) (h : x0 ≠ x1) :
    expLinFit pw x0 (x0, y0) (x1, y1) = y0 := by
  rw [expLinFit_closed pw h, sOf_left]; simp [blend, hp0]

theorem expLinFit_right (pw : K → K) {x0 x1 : K} (y0 y1 : K) (h : x0 ≠ x1) :
    expLinFit pw x1 (x0, y0) (x1, y1) = y1 := by
  rw [expLinFit_closed pw h, sOf_right h]; simp [blend]

theorem linExpXYFit_left (pw : K → K) {x0 x1 : K} (y0 y1 : K) (h : x0 ≠ x1) :
    linExpXYFit pw x0 (x0, y0) (x1, y1) = y0 := by
  rw [linExpXYFit_closed pw h, sOf_left]; simp [blendXY]

theorem linExpXYFit_right {pw : K → K} (hp0 : pw 0 = 0) {x0 x1 : K} (y0 y1 : K) (h : x0 ≠ x1) :
    linExpXYFit pw x1 (x0, y0) (x1, y1) = y1 := by
  rw [linExpXYFit_closed pw h, sOf_right h]; simp [blendXY, hp0]

/-! ### the same closed forms for the definitions regenerated from the Python source -/

theorem gen_lin_fit_closed {x x0 y0 x1 y1 : K} (h : x0 ≠ x1) :
    Gen.lin_fit x (x0, y0) (x1, y1) = y0 + (y1 - y0) * sOf x x0 x1 := by
  rw [tie_lin_fit x (x0, y0) (x1, y1) h, linFit_closed]

theorem gen_exp_fit_closed (pw : K → K) {x x0 y0 x1 y1 : K} (h : x0 ≠ x1) :
    Gen.exp_fit pw x (x0, y0) (x1, y1) = y0 + (y1 - y0) * pw (sOf x x0 x1) := by
  rw [tie_exp_fit pw x (x0, y0) (x1, y1) h, expFit_closed]

theorem gen_exp_xy_fit_closed (pw : K → K) {x x0 y0 x1 y1 : K} (h : x0 ≠ x1) :
    Gen.exp_xy_fit pw x (x0, y0) (x1, y1) = y0 + (y1 - y0) * (1 - pw (1 - sOf x x0 x1)) := by
  rw [tie_exp_xy_fit pw x (x0, y0) (x1, y1) h, expXYFit_closed pw h]

theorem gen_exp_lin_fit_closed (pw : K → K) {x x0 y0 x1 y1 : K} (h : x0 ≠ x1) :
    Gen.exp_lin_fit pw x (x0, y0) (x1, y1) = y0 + (y1 - y0) * blend pw (sOf x x0 x1) := by
  rw [tie_exp_lin_fit pw x (x0, y0) (x1, y1) h, expLinFit_closed pw h]

theorem gen_lin_exp_xy_fit_closed (pw : K → K) {x x0 y0 x1 y1 : K} (h : x0 ≠ x1) :
    Gen.lin_exp_xy_fit pw x (x0, y0) (x1, y1) = y0 + (y1 - y0) * blendXY pw (sOf x x0 x1) := by
  rw [tie_lin_exp_xy_fit pw x (x0, y0) (x1, y1) h, linExpXYFit_closed pw h]

/-! ### convexity: every value lies between the two ordinates -/

theorem linFit_mem_uIcc {x x0 x1 : K} (y0 y1 : K) (h : x0 < x1) (h0 : x0 ≤ x) (h1 : x ≤ x1) :
    linFit x (x0, y0) (x1, y1) ∈ Set.uIcc y0 y1 := by
  rw [linFit_closed]; exact convex_mem_uIcc _ _ _ (sOf_nonneg h h0) (sOf_le_one h h1)

theorem expLinFit_mem_uIcc {pw : K → K} (hp : PowLike pw) {x x0 x1 : K} (y0 y1 : K) (h : x0 < x1)
    (h0 : x0 ≤ x) (h1 : x ≤ x1) : expLinFit pw x (x0, y0) (x1, y1) ∈ Set.uIcc y0 y1 := by
  rw [expLinFit_closed pw h.ne]
  exact convex_mem_uIcc _ _ _ (blend_nonneg hp (sOf_nonneg h h0) (sOf_le_one h h1))
    (blend_le_one hp (sOf_nonneg h h0) (sOf_le_one h h1))

theorem linExpXYFit_mem_uIcc {pw : K → K} (hp : PowLike pw) {x x0 x1 : K} (y0 y1 : K) (h : x0 < x1)
    (h0 : x0 ≤ x) (h1 : x ≤ x1) : linExpXYFit pw x (x0, y0) (x1, y1) ∈ Set.uIcc y0 y1 := by
  rw [linExpXYFit_closed pw h.ne]
  exact convex_mem_uIcc _ _ _ (blendXY_nonneg hp (sOf_nonneg h h0) (sOf_le_one h h1))
    (blendXY_le_one hp (sOf_nonneg h h0) (sOf_le_one h h1))

/-! ### monotonicity in the abscissa -/

theorem linFit_mono {x x' x0 x1 y0 y1 : K} (h : x0 < x1) (hx : x ≤ x') (hy : y0 ≤ y1) :
    linFit x (x0, y0) (x1, y1) ≤ linFit x' (x0, y0) (x1, y1) := by
  rw [linFit_closed, linFit_closed]; exact convex_mono_of_le hy (sOf_mono h hx)

theorem linFit_anti {x x' x0 x1 y0 y1 : K} (h : x0 < x1) (hx : x ≤ x') (hy : y1 ≤ y0) :
    linFit x' (x0, y0) (x1, y1) ≤ linFit x (x0, y0) (x1, y1) := by
  rw [linFit_closed, linFit_closed]; exact convex_anti_of_ge hy (sOf_mono h hx)

theorem expLinFit_mono {pw : K → K} (hp : PowLike pw) (hsub : ∀ t, 0 ≤ t → t ≤ 1 → pw t ≤ t)
    {x x' x0 x1 y0 y1 : K} (h : x0 < x1) (h0 : x0 ≤ x) (hx : x ≤ x') (h1 : x' ≤ x1) (hy : y0 ≤ y1) :
    expLinFit pw x (x0, y0) (x1, y1) ≤ expLinFit pw x' (x0, y0) (x1, y1) := by
  rw [expLinFit_closed pw h.ne, expLinFit_closed pw h.ne]
  exact convex_mono_of_le hy (blend_mono hp hsub (sOf_nonneg h h0) (sOf_mono h hx) (sOf_le_one h h1))

theorem expLinFit_anti {pw : K → K} (hp : PowLike pw) (hsub : ∀ t, 0 ≤ t → t ≤ 1 → pw t ≤ t)
    {x x' x0 x1 y0 y1 : K} (h : x0 < x1) (h0 : x0 ≤ x) (hx : x ≤ x') (h1 : x' ≤ x1) (hy : y1 ≤ y0) :
    expLinFit pw x' (x0, y0) (x1, y1) ≤ expLinFit pw x (x0, y0) (x1, y1) := by
  rw [expLinFit_closed pw h.ne, expLinFit_closed pw h.ne]
  exact convex_anti_of_ge hy (blend_mono hp hsub (sOf_nonneg h h0) (sOf_mono h hx) (sOf_le_one h h1))

theorem linExpXYFit_mono {pw : K → K} (hp : PowLike pw) (hsub : ∀ t, 0 ≤ t → t ≤ 1 → pw t ≤ t)
    {x x' x0 x1 y0 y1 : K} (h : x0 < x1) (h0 : x0 ≤ x) (hx : x ≤ x') (h1 : x' ≤ x1) (hy : y0 ≤ y1) :
    linExpXYFit pw x (x0, y0) (x1, y1) ≤ linExpXYFit pw x' (x0, y0) (x1, y1) := by
  rw [linExpXYFit_closed pw h.ne, linExpXYFit_closed pw h.ne]
  exact convex_mono_of_le hy (blendXY_mono hp hsub (sOf_nonneg h h0) (sOf_mono h hx) (sOf_le_one h h1))

theorem linExpXYFit_anti {pw : K → K} (hp : PowLike pw) (hsub : ∀ t, 0 ≤ t → t ≤ 1 → pw t ≤ t)
    {x x' x0 x1 y0 y1 : K} (h : x0 < x1) (h0 : x0 ≤ x) (hx : x ≤ x') (h1 : x' ≤ x1) (hy : y1 ≤ y0) :
    linExpXYFit pw x' (x0, y0) (x1, y1) ≤ linExpXYFit pw x (x0, y0) (x1, y1) := by
  rw [linExpXYFit_closed pw h.ne, linExpXYFit_closed pw h.ne]
  exact convex_anti_of_ge hy (blendXY_mono hp hsub (sOf_nonneg h h0) (sOf_mono h hx) (sOf_le_one h h1))

/-! ### "moving from `p` towards `q`" -/

/-- `u` comes no later than `v` on a monotone way from `p` to `q`:
non-decreasing if `p ≤ q`, non-increasing if `q ≤ p` -/
def Toward (p q u v : K) : Prop := (p ≤ q → u ≤ v) ∧ (q ≤ p → v ≤ u)

theorem Toward.rfl' (p q u : K) : Toward p q u u := ⟨fun _ => le_rfl, fun _ => le_rfl⟩

/-- `u` before the intermediate point `r`, `v` after it -/
theorem toward_of_mem {p q r u v : K} (hr : r ∈ Set.uIcc p q) (hu : u ∈ Set.uIcc p r)
    (hv : v ∈ Set.uIcc r q) : Toward p q u v := by
  constructor
  · intro h
    rw [Set.uIcc_of_le h] at hr
    rw [Set.uIcc_of_le hr.1] at hu
    rw [Set.uIcc_of_le hr.2] at hv
    exact le_trans hu.2 hv.1
  · intro h
    rw [Set.uIcc_of_ge h] at hr
    rw [Set.uIcc_of_ge hr.2] at hu
    rw [Set.uIcc_of_ge hr.1] at hv
    exact le_trans hv.2 hu.1

theorem Toward.of_left {p q r u v : K} (hr : r ∈ Set.uIcc p q) (h : Toward p r u v) :
    Toward p q u v := by
  constructor
  · intro hpq; rw [Set.uIcc_of_le hpq] at hr; exact h.1 hr.1
  · intro hpq; rw [Set.uIcc_of_ge hpq] at hr; exact h.2 hr.2

theorem Toward.of_right {p q r u v : K} (hr : r ∈ Set.uIcc p q) (h : Toward r q u v) :
    Toward p q u v := by
  constructor
  · intro hpq; rw [Set.uIcc_of_le hpq] at hr; exact h.1 hr.2
  · intro hpq; rw [Set.uIcc_of_ge hpq] at hr; exact h.2 hr.1

theorem linFit_toward {x x' x0 x1 : K} (y0 y1 : K) (h : x0 < x1) (hx : x ≤ x') :
    Toward y0 y1 (linFit x (x0, y0) (x1, y1)) (linFit x' (x0, y0) (x1, y1)) :=
  ⟨linFit_mono h hx, linFit_anti h hx⟩

theorem expLinFit_toward {pw : K → K} (hp : PowLike pw) (hsub : ∀ t, 0 ≤ t → t ≤ 1 → pw t ≤ t)
    {x x' x0 x1 : K} (y0 y1 : K) (h : x0 < x1) (h0 : x0 ≤ x) (hx : x ≤ x') (h1 : x' ≤ x1) :
    Toward y0 y1 (expLinFit pw x (x0, y0) (x1, y1)) (expLinFit pw x' (x0, y0) (x1, y1)) :=
  ⟨expLinFit_mono hp hsub h h0 hx h1, expLinFit_anti hp hsub h h0 hx h1⟩

theorem linExpXYFit_toward {pw : K → K} (hp : PowLike pw) (hsub : ∀ t, 0 ≤ t → t ≤ 1 → pw t ≤ t)
    {x x' x0 x1 : K} (y0 y1 : K) (h : x0 < x1) (h0 : x0 ≤ x) (hx : x ≤ x') (h1 : x' ≤ x1) :
    Toward y0 y1 (linExpXYFit pw x (x0, y0) (x1, y1)) (linExpXYFit pw x' (x0, y0) (x1, y1)) :=
  ⟨linExpXYFit_mono hp hsub h h0 hx h1, linExpXYFit_anti hp hsub h h0 hx h1⟩

/-- a fit through two points of equal height is constant -/
theorem linFit_const {x x0 x1 : K} (y : K) (h : x0 ≠ x1) : linFit x (x0, y) (x1, y) = y := by
  rw [linFit_closed]; ring

theorem expLinFit_const (pw : K → K) {x x0 x1 : K} (y : K) (h : x0 ≠ x1) :
    expLinFit pw x (x0, y) (x1, y) = y := by
  rw [expLinFit_closed pw h]; ring

theorem linExpXYFit_const (pw : K → K) {x x0 x1 : K} (y : K) (h : x0 ≠ x1) :
    linExpXYFit pw x (x0, y) (x1, y) = y := by
  rw [linExpXYFit_closed pw h]; ring

end TWV
