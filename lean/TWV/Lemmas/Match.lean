import TWV.Model.Match
import TWV.Lemmas.Basic
import TWV.Lemmas.PowLike
import Mathlib.Algebra.BigOperators.Intervals
import Mathlib.Algebra.Order.Interval.Finset.Basic
import Mathlib.Order.Interval.Finset.Nat

/-!
# Helper lemmas for `match.py` (properties C01 and C03)

* the stretching kernel: weights, denominator, `integralSum (stretch …) = I`;
* the interval loop: `upd`, `loop`, `Chain`, `winIntegral`;
* the array-level loop `loopA`, `windows`, `sumOverIndices`;
* `fixedPoints` and `matchRef`.
-/

set_option linter.unusedSectionVars false

open Finset

namespace TWV

variable {K : Type} [Field K] [LinearOrder K] [IsStrictOrderedRing K]

/-! ### integrals are linear in `y` -/

theorem integralAt_add_smul (r : Rule) (x y w : ℕ → K) (c : K) (i : ℕ) :
    integralAt r x (fun i => y i + c * w i) i = integralAt r x y i + c * integralAt r x w i := by
  cases r <;> simp only [integralAt, two_eq] <;> ring

theorem integralSum_eq_sum (r : Rule) (N : ℕ) (x y : ℕ → K) :
    integralSum r N x y = ∑ i ∈ range N, integralAt r x y i := by
  unfold integralSum; exact sumTo_eq_sum _ _

theorem integralSum_add_smul (r : Rule) (N : ℕ) (x y w : ℕ → K) (c : K) :
    integralSum r N x (fun i => y i + c * w i) = integralSum r N x y + c * integralSum r N x w := by
  simp only [integralSum_eq_sum, integralAt_add_smul]
  rw [sum_add_distrib, mul_sum]

theorem integralAt_lin (r : Rule) (x y₁ y₂ : ℕ → K) (a b : K) (i : ℕ) :
    integralAt r x (fun i => a * y₁ i + b * y₂ i) i
      = a * integralAt r x y₁ i + b * integralAt r x y₂ i := by
  cases r <;> simp only [integralAt, two_eq] <;> ring

theorem integralSum_lin (r : Rule) (N : ℕ) (x y₁ y₂ : ℕ → K) (a b : K) :
    integralSum r N x (fun i => a * y₁ i + b * y₂ i)
      = a * integralSum r N x y₁ + b * integralSum r N x y₂ := by
  simp only [integralSum_eq_sum, integralAt_lin]
  rw [sum_add_distrib, mul_sum, mul_sum]

theorem integralAt_congr (r : Rule) (x y y' : ℕ → K) (i : ℕ) (h0 : y i = y' i)
    (h1 : y (i + 1) = y' (i + 1)) : integralAt r x y i = integralAt r x y' i := by
  cases r <;> simp only [integralAt, h0, h1]

theorem integralSum_congr (r : Rule) (N : ℕ) (x y y' : ℕ → K) (h : ∀ i, i ≤ N → y i = y' i) :
    integralSum r N x y = integralSum r N x y' := by
  simp only [integralSum_eq_sum]
  apply sum_congr rfl
  intro i hi
  have hi' := mem_range.mp hi
  exact integralAt_congr r x y y' i (h i (by omega)) (h (i + 1) (by omega))

/-! ### the weights -/

/-- the argument of `pw` in `weight`: `2 |x_{n/2} - x_i| / Δx` -/
def wArg (N : ℕ) (x : ℕ → K) (i : ℕ) : K := 2 * |(x N + x 0) / 2 - x i| / (x N - x 0)

theorem weight_eq (pw : K → K) (N : ℕ) (x : ℕ → K) (i : ℕ) (hN : N ≠ 1) :
    weight pw N x i = 1 - pw (2 * |(x N + x 0) / 2 - x i| / (x N - x 0)) := by
  unfold weight
  rw [if_neg hN, two_eq, absK_eq]

theorem weight_eq_wArg (pw : K → K) (N : ℕ) (x : ℕ → K) (i : ℕ) (hN : N ≠ 1) :
    weight pw N x i = 1 - pw (wArg N x i) := weight_eq pw N x i hN

theorem weight_one (pw : K → K) (x : ℕ → K) (i : ℕ) : weight pw 1 x i = 1 := by
  unfold weight; rw [if_pos rfl]

theorem wArg_nonneg (N : ℕ) (x : ℕ → K) (h : StrictIncr N x) (hN : 1 ≤ N) (i : ℕ) :
    0 ≤ wArg N x i := by
  have h0N : x 0 < x N := strictIncr_lt h 0 N (by omega) le_rfl
  have hd : 0 < x N - x 0 := sub_pos.mpr h0N
  unfold wArg; positivity

theorem wArg_le_one (N : ℕ) (x : ℕ → K) (h : StrictIncr N x) (hN : 1 ≤ N) (i : ℕ) (hi : i ≤ N) :
    wArg N x i ≤ 1 := by
  have h0N : x 0 < x N := strictIncr_lt h 0 N (by omega) le_rfl
  have hd : 0 < x N - x 0 := sub_pos.mpr h0N
  have hx0 : x 0 ≤ x i := strictIncr_le h 0 i (by omega) hi
  have hxN : x i ≤ x N := strictIncr_le h i N hi le_rfl
  unfold wArg
  rw [div_le_one hd]
  have : |(x N + x 0) / 2 - x i| ≤ (x N - x 0) / 2 := by
    rw [abs_le]; constructor <;> linarith
  linarith

theorem wArg_lt_one (N : ℕ) (x : ℕ → K) (h : StrictIncr N x) (i : ℕ) (hi0 : 0 < i) (hi : i < N) :
    wArg N x i < 1 := by
  have h0N : x 0 < x N := strictIncr_lt h 0 N (by omega) le_rfl
  have hd : 0 < x N - x 0 := sub_pos.mpr h0N
  have hx0 : x 0 < x i := strictIncr_lt h 0 i hi0 (by omega)
  have hxN : x i < x N := strictIncr_lt h i N hi le_rfl
  unfold wArg
  rw [div_lt_one hd]
  have : |(x N + x 0) / 2 - x i| < (x N - x 0) / 2 := by
    rw [abs_lt]; constructor <;> linarith
  linarith

theorem weight_nonneg (pw : K → K) (hp : PowLike pw) (N : ℕ) (x : ℕ → K) (h : StrictIncr N x)
    (hN : 1 ≤ N) (i : ℕ) (hi : i ≤ N) : 0 ≤ weight pw N x i := by
  by_cases h1 : N = 1
  · subst h1; rw [weight_one]; exact zero_le_one
  · rw [weight_eq_wArg pw N x i h1]
    have := PowLike.le_one hp _ (wArg_nonneg N x h hN i) (wArg_le_one N x h hN i hi)
    linarith

theorem weight_le_one (pw : K → K) (hp : PowLike pw) (N : ℕ) (x : ℕ → K) (h : StrictIncr N x)
    (hN : 1 ≤ N) (i : ℕ) (hi : i ≤ N) : weight pw N x i ≤ 1 := by
  by_cases h1 : N = 1
  · subst h1; rw [weight_one]
  · rw [weight_eq_wArg pw N x i h1]
    have := PowLike.nonneg hp _ (wArg_nonneg N x h hN i) (wArg_le_one N x h hN i hi)
    linarith

theorem weight_pos (pw : K → K) (hp : PowLike pw) (N : ℕ) (x : ℕ → K) (h : StrictIncr N x)
    (i : ℕ) (hi0 : 0 < i) (hi : i < N) : 0 < weight pw N x i := by
  by_cases h1 : N = 1
  · subst h1; rw [weight_one]; exact zero_lt_one
  · rw [weight_eq_wArg pw N x i h1]
    have := hp.lt_one _ (wArg_nonneg N x h (by omega) i) (wArg_lt_one N x h i hi0 hi)
    linarith

/-- end weights vanish when the window has an interior point -/
theorem weight_zero_left (pw : K → K) (hp : PowLike pw) (N : ℕ) (x : ℕ → K) (h : StrictIncr N x)
    (hN : 2 ≤ N) : weight pw N x 0 = 0 := by
  have h0N : x 0 < x N := strictIncr_lt h 0 N (by omega) le_rfl
  have hd : x N - x 0 ≠ 0 := ne_of_gt (sub_pos.mpr h0N)
  rw [weight_eq pw N x 0 (by omega)]
  have : 2 * |(x N + x 0) / 2 - x 0| / (x N - x 0) = 1 := by
    have e : (x N + x 0) / 2 - x 0 = (x N - x 0) / 2 := by ring
    rw [e, abs_of_pos (by linarith)]
    field_simp
  rw [this, hp.one]; ring

theorem weight_zero_right (pw : K → K) (hp : PowLike pw) (N : ℕ) (x : ℕ → K) (h : StrictIncr N x)
    (hN : 2 ≤ N) : weight pw N x N = 0 := by
  have h0N : x 0 < x N := strictIncr_lt h 0 N (by omega) le_rfl
  have hd : x N - x 0 ≠ 0 := ne_of_gt (sub_pos.mpr h0N)
  rw [weight_eq pw N x N (by omega)]
  have : 2 * |(x N + x 0) / 2 - x N| / (x N - x 0) = 1 := by
    have e : (x N + x 0) / 2 - x N = -((x N - x 0) / 2) := by ring
    rw [e, abs_neg, abs_of_pos (by linarith)]
    field_simp
  rw [this, hp.one]; ring

/-- samples at the same distance from the centre get the same weight -/
theorem weight_symm (pw : K → K) (N : ℕ) (x : ℕ → K) (i j : ℕ)
    (hij : |(x N + x 0) / 2 - x i| = |(x N + x 0) / 2 - x j|) :
    weight pw N x i = weight pw N x j := by
  unfold weight
  simp only [two_eq, absK_eq, hij]

/-- farther from the centre ⇒ the weight is not larger -/
theorem weight_antitone (pw : K → K) (hp : PowLike pw) (N : ℕ) (x : ℕ → K) (h : StrictIncr N x)
    (hN : 1 ≤ N) (i j : ℕ) (hj : j ≤ N)
    (hij : |(x N + x 0) / 2 - x i| ≤ |(x N + x 0) / 2 - x j|) :
    weight pw N x j ≤ weight pw N x i := by
  by_cases h1 : N = 1
  · subst h1; rw [weight_one, weight_one]
  · rw [weight_eq_wArg pw N x i h1, weight_eq_wArg pw N x j h1]
    have h0N : x 0 < x N := strictIncr_lt h 0 N (by omega) le_rfl
    have hd : 0 < x N - x 0 := sub_pos.mpr h0N
    have hle : wArg N x i ≤ wArg N x j := by
      unfold wArg
      apply div_le_div_of_nonneg_right _ hd.le
      linarith
    have := hp.mono _ _ (wArg_nonneg N x h hN i) hle (wArg_le_one N x h hN j hj)
    linarith

/-- a sample exactly at the centre has weight `1`, the maximum -/
theorem weight_centre (pw : K → K) (hp : PowLike pw) (N : ℕ) (x : ℕ → K) (i : ℕ)
    (hc : x i = (x N + x 0) / 2) : weight pw N x i = 1 := by
  by_cases h1 : N = 1
  · subst h1; rw [weight_one]
  · rw [weight_eq pw N x i h1, hc, sub_self, abs_zero, mul_zero, zero_div, hp.zero, sub_zero]

/-! ### the denominator -/

theorem stretchDenom_pos (r : Rule) (pw : K → K) (hp : PowLike pw) (N : ℕ) (x : ℕ → K)
    (h : StrictIncr N x) (hN : 1 ≤ N) : 0 < stretchDenom r pw N x := by
  rcases Nat.lt_or_ge 1 N with h2 | h2
  · have h1 := weight_pos pw hp N x h 1 (by omega) h2
    cases r
    · -- trapezoid: the term `j = 0` is positive
      simp only [stretchDenom, sumTo_eq_sum]
      apply sum_pos'
      · intro j hj
        have hj' : j < N := mem_range.mp hj
        have := weight_nonneg pw hp N x h hN j (by omega)
        have := weight_nonneg pw hp N x h hN (j + 1) (by omega)
        have := h j hj'
        apply mul_nonneg <;> linarith
      · refine ⟨0, mem_range.mpr (by omega), ?_⟩
        have h0 := weight_nonneg pw hp N x h hN 0 (by omega)
        have := h 0 (by omega)
        apply mul_pos <;> linarith
    · -- rectangle: the term `j = 1` is positive
      simp only [stretchDenom, sumTo_eq_sum]
      apply sum_pos'
      · intro j hj
        have hj' : j < N := mem_range.mp hj
        have := weight_nonneg pw hp N x h hN j (by omega)
        have := h j hj'
        apply mul_nonneg <;> linarith
      · refine ⟨1, mem_range.mpr (by omega), ?_⟩
        have := h 1 (by omega)
        apply mul_pos <;> linarith
  · have : N = 1 := by omega
    subst this
    have := h 0 (by omega)
    cases r <;> simp only [stretchDenom, sumTo, weight_one] <;> linarith

theorem integralSum_weight_trapezoid (pw : K → K) (N : ℕ) (x : ℕ → K) :
    integralSum .trapezoid N x (weight pw N x) = stretchDenom .trapezoid pw N x / 2 := by
  simp only [integralSum_eq_sum, stretchDenom, sumTo_eq_sum, integralAt, two_eq]
  rw [sum_div]
  apply sum_congr rfl
  intro i _; ring

theorem integralSum_weight_rectangle (pw : K → K) (N : ℕ) (x : ℕ → K) :
    integralSum .rectangle N x (weight pw N x) = stretchDenom .rectangle pw N x := by
  simp only [integralSum_eq_sum, stretchDenom, sumTo_eq_sum, integralAt]

/-- the kernel of C01: the stretched window has exactly the target integral -/
theorem stretch_integral' (r : Rule) (pw : K → K) (hp : PowLike pw) (N : ℕ) (x y : ℕ → K) (I : K)
    (hx : StrictIncr N x) (hN : 1 ≤ N) : integralSum r N x (stretch r pw N x y I) = I := by
  have hD := stretchDenom_pos r pw hp N x hx hN
  have hD' : stretchDenom r pw N x ≠ 0 := ne_of_gt hD
  have e : stretch r pw N x y I = fun i => y i + yhat r pw N x y I * weight pw N x i := rfl
  rw [e, integralSum_add_smul]
  cases r
  · rw [integralSum_weight_trapezoid]
    simp only [yhat, two_eq]
    field_simp
    ring
  · rw [integralSum_weight_rectangle]
    simp only [yhat]
    field_simp
    ring

/-! ### displacement profile -/

theorem stretch_sub (r : Rule) (pw : K → K) (N : ℕ) (x y : ℕ → K) (I : K) (i : ℕ) :
    stretch r pw N x y I i - y i = yhat r pw N x y I * weight pw N x i := by
  unfold stretch; ring

theorem yhat_eq_zero (r : Rule) (pw : K → K) (N : ℕ) (x y : ℕ → K) (I : K)
    (hD : stretchDenom r pw N x ≠ 0) (hI : integralSum r N x y = I) : yhat r pw N x y I = 0 := by
  cases r <;> simp only [yhat] <;> rw [div_eq_iff hD] <;> simp [hI]

theorem yhat_lin (r : Rule) (pw : K → K) (N : ℕ) (x y₁ y₂ : ℕ → K) (I₁ I₂ a b : K) :
    yhat r pw N x (fun i => a * y₁ i + b * y₂ i) (a * I₁ + b * I₂)
      = a * yhat r pw N x y₁ I₁ + b * yhat r pw N x y₂ I₂ := by
  cases r <;> simp only [yhat, integralSum_lin] <;> ring

/-! ### one iteration of the loop -/

/-- the integral of the global series over the closed index window `[s, e]` -/
def winIntegral (r : Rule) (x y : ℕ → K) (s e : ℕ) : K :=
  integralSum r (e - s) (win x s) (win y s)

theorem upd_outside (r : Rule) (pw : K → K) (hp : PowLike pw) (x y : ℕ → K) (s e : ℕ) (I : K)
    (hx : StrictIncr (e - s) (win x s)) (hse : s + 2 ≤ e) (j : ℕ) (hj : j ≤ s ∨ e ≤ j) :
    upd r pw x y s e I j = y j := by
  unfold upd
  split
  · rename_i hin
    rcases hj with hj | hj
    · have : j = s := by omega
      subst this
      simp only [Nat.sub_self, stretch]
      rw [weight_zero_left pw hp _ _ hx (by omega)]
      simp [win]
    · have : j = e := by omega
      subst this
      simp only [stretch]
      rw [weight_zero_right pw hp _ _ hx (by omega)]
      simp only [win, mul_zero, add_zero]
      congr 1; omega
  · rfl

theorem upd_integral (r : Rule) (pw : K → K) (hp : PowLike pw) (x y : ℕ → K) (s e : ℕ) (I : K)
    (hx : StrictIncr (e - s) (win x s)) (hse : s + 1 ≤ e) :
    winIntegral r x (upd r pw x y s e I) s e = I := by
  unfold winIntegral
  rw [integralSum_congr r (e - s) (win x s) (win (upd r pw x y s e I) s)
        (stretch r pw (e - s) (win x s) (win y s) I)]
  · exact stretch_integral' r pw hp _ _ _ _ hx (by omega)
  · intro i hi
    simp only [win, upd]
    rw [if_pos (by omega)]
    congr 1; omega

/-! ### the loop -/

/-- windows are ordered, have an interior sample, and consecutive ones may share an end sample -/
def Chain (x : ℕ → K) : ℕ → List (ℕ × ℕ × K) → Prop
  | _, [] => True
  | lo, (s, e, _) :: ws => lo ≤ s ∧ s + 2 ≤ e ∧ StrictIncr (e - s) (win x s) ∧ Chain x e ws

theorem Chain.mono {x : ℕ → K} : ∀ {ws : List (ℕ × ℕ × K)} {lo lo' : ℕ}, lo' ≤ lo →
    Chain x lo ws → Chain x lo' ws
  | [], _, _, _, _ => trivial
  | (_, _, _) :: _, _, _, h, ⟨h1, h2, h3, h4⟩ => ⟨le_trans h h1, h2, h3, h4⟩

/-- every window of a chain lies above `lo`, has an interior sample and a strictly increasing `x` -/
theorem Chain.mem {x : ℕ → K} : ∀ {ws : List (ℕ × ℕ × K)} {lo : ℕ}, Chain x lo ws →
    ∀ w ∈ ws, lo ≤ w.1 ∧ w.1 + 2 ≤ w.2.1 ∧ StrictIncr (w.2.1 - w.1) (win x w.1) := by
  intro ws
  induction ws with
  | nil => intro lo _ w hw; cases hw
  | cons w0 ws ih =>
    obtain ⟨s, e, I⟩ := w0
    intro lo hc w hw
    obtain ⟨h1, h2, h3, h4⟩ := hc
    rcases List.mem_cons.mp hw with hw | hw
    · subst hw; exact ⟨h1, h2, h3⟩
    · obtain ⟨a, b, c⟩ := ih h4 w hw
      exact ⟨by omega, b, c⟩

/-- a sample that is not strictly inside any window is left alone -/
theorem loop_unchanged (r : Rule) (pw : K → K) (hp : PowLike pw) (x : ℕ → K) :
    ∀ (ws : List (ℕ × ℕ × K)) (y : ℕ → K),
      (∀ w ∈ ws, w.1 + 2 ≤ w.2.1 ∧ StrictIncr (w.2.1 - w.1) (win x w.1)) →
      ∀ j, (∀ w ∈ ws, j ≤ w.1 ∨ w.2.1 ≤ j) → loop r pw x ws y j = y j := by
  intro ws
  induction ws with
  | nil => intro y _ j _; rfl
  | cons w0 ws ih =>
    obtain ⟨s, e, I⟩ := w0
    intro y hw j hj
    simp only [loop]
    rw [ih _ (fun w hm => hw w (List.mem_cons_of_mem _ hm)) j
          (fun w hm => hj w (List.mem_cons_of_mem _ hm))]
    have h0 := hw (s, e, I) List.mem_cons_self
    exact upd_outside r pw hp x y s e I h0.2 h0.1 j (hj (s, e, I) List.mem_cons_self)

theorem loop_outside' (r : Rule) (pw : K → K) (hp : PowLike pw) (x : ℕ → K)
    (ws : List (ℕ × ℕ × K)) (lo : ℕ) (y : ℕ → K) (hc : Chain x lo ws) (j : ℕ) (hj : j ≤ lo) :
    loop r pw x ws y j = y j := by
  apply loop_unchanged r pw hp x ws y
  · intro w hw; exact (hc.mem w hw).2
  · intro w hw; left; have := (hc.mem w hw).1; omega

/-- C01 core: after the loop every window carries its target integral -/
theorem loop_integrals' (r : Rule) (pw : K → K) (hp : PowLike pw) (x : ℕ → K) :
    ∀ (ws : List (ℕ × ℕ × K)) (lo : ℕ) (y : ℕ → K), Chain x lo ws →
      ∀ w ∈ ws, winIntegral r x (loop r pw x ws y) w.1 w.2.1 = w.2.2 := by
  intro ws
  induction ws with
  | nil => intro lo y _ w hw; cases hw
  | cons w0 ws ih =>
    obtain ⟨s, e, I⟩ := w0
    intro lo y hc w hw
    obtain ⟨h1, h2, h3, h4⟩ := hc
    simp only [loop]
    rcases List.mem_cons.mp hw with hw | hw
    · subst hw
      simp only
      have key : winIntegral r x (loop r pw x ws (upd r pw x y s e I)) s e
               = winIntegral r x (upd r pw x y s e I) s e := by
        unfold winIntegral
        apply integralSum_congr
        intro i hi
        simp only [win]
        exact loop_outside' r pw hp x ws e _ h4 (s + i) (by omega)
      rw [key]
      exact upd_integral r pw hp x y s e I h3 (by omega)
    · exact ih e _ h4 w hw

/-- the ends of the windows of a chain increase -/
theorem Chain.end_le {x : ℕ → K} : ∀ {ws : List (ℕ × ℕ × K)} {lo : ℕ}, Chain x lo ws →
    ∀ (h : ws ≠ []), ∀ w ∈ ws, w.2.1 ≤ (ws.getLast h).2.1 := by
  intro ws
  induction ws with
  | nil => intro lo _ h; exact absurd rfl h
  | cons w0 ws ih =>
    obtain ⟨s, e, I⟩ := w0
    intro lo hc h w hw
    obtain ⟨h1, h2, h3, h4⟩ := hc
    cases ws with
    | nil =>
      rcases List.mem_cons.mp hw with hw | hw
      · subst hw; simp
      · cases hw
    | cons w1 ws' =>
      rw [List.getLast_cons (by simp)]
      rcases List.mem_cons.mp hw with hw | hw
      · subst hw
        have ha := h4.mem w1 List.mem_cons_self
        have hb := ih h4 (by simp) w1 List.mem_cons_self
        simp only at ha hb ⊢
        omega
      · exact ih h4 (by simp) w hw

theorem upd_eq_self (r : Rule) (pw : K → K) (hp : PowLike pw) (x y : ℕ → K) (s e : ℕ) (I : K)
    (hx : StrictIncr (e - s) (win x s)) (hse : s + 1 ≤ e)
    (hI : winIntegral r x y s e = I) : upd r pw x y s e I = y := by
  have hD := ne_of_gt (stretchDenom_pos r pw hp _ _ hx (by omega))
  funext j
  unfold upd
  split
  · rename_i hin
    unfold stretch
    rw [yhat_eq_zero r pw _ _ _ _ hD hI, zero_mul, add_zero]
    simp only [win]
    congr 1; omega
  · rfl

theorem loop_eq_self (r : Rule) (pw : K → K) (hp : PowLike pw) (x : ℕ → K) :
    ∀ (ws : List (ℕ × ℕ × K)) (y : ℕ → K),
      (∀ w ∈ ws, w.1 + 1 ≤ w.2.1 ∧ StrictIncr (w.2.1 - w.1) (win x w.1)) →
      (∀ w ∈ ws, winIntegral r x y w.1 w.2.1 = w.2.2) → loop r pw x ws y = y := by
  intro ws
  induction ws with
  | nil => intro y _ _; rfl
  | cons w0 ws ih =>
    obtain ⟨s, e, I⟩ := w0
    intro y hw h
    simp only [loop]
    have h0 := hw (s, e, I) List.mem_cons_self
    rw [upd_eq_self r pw hp x y s e I h0.2 h0.1 (h (s, e, I) List.mem_cons_self)]
    exact ih y (fun w hm => hw w (List.mem_cons_of_mem _ hm))
      (fun w hm => h w (List.mem_cons_of_mem _ hm))

/-! ### the array-level loop computes `loop` -/

theorem arrFn_tab_upd (r : Rule) (pw : K → K) (x : ℕ → K) (y : Array K) (s e : ℕ) (I : K)
    (he : e < y.size) :
    arrFn (tab y.size (upd r pw x (arrFn y) s e I)) = upd r pw x (arrFn y) s e I := by
  funext j
  rw [arrFn_tab]
  split
  · rfl
  · rename_i hj
    unfold upd
    rw [if_neg (by omega), arrFn_of_size_le y j (by omega)]

theorem loopA_eq_loop' (r : Rule) (pw : K → K) (x : ℕ → K) :
    ∀ (ws : List (ℕ × ℕ × K)) (y : Array K), (∀ w ∈ ws, w.2.1 < y.size) →
      (∀ j, arrFn (loopA r pw x ws y) j = loop r pw x ws (arrFn y) j) ∧
        (loopA r pw x ws y).size = y.size := by
  intro ws
  induction ws with
  | nil => intro y _; exact ⟨fun _ => rfl, rfl⟩
  | cons w0 ws ih =>
    obtain ⟨s, e, I⟩ := w0
    intro y h
    have he : e < y.size := h (s, e, I) List.mem_cons_self
    simp only [loopA, loop, updWith_eq]
    have := ih (tab y.size (upd r pw x (arrFn y) s e I))
      (fun w hw => by rw [tab_size]; exact h w (List.mem_cons_of_mem _ hw))
    rw [arrFn_tab_upd r pw x y s e I he, tab_size] at this
    exact this

/-- the name the model file refers to -/
theorem loopA_get (r : Rule) (pw : K → K) (x : ℕ → K) (ws : List (ℕ × ℕ × K)) (y : Array K)
    (h : ∀ w ∈ ws, w.2.1 < y.size) (j : ℕ) :
    arrFn (loopA r pw x ws y) j = loop r pw x ws (arrFn y) j :=
  (loopA_eq_loop' r pw x ws y h).1 j

/-! ### `windows` -/

theorem windows_length : ∀ (F : List ℕ) (Is : List K),
    (windows Is F).length = min Is.length (F.length - 1)
  | [], Is => by cases Is <;> simp [windows]
  | [_], Is => by cases Is <;> simp [windows]
  | s :: e :: rest, [] => by simp [windows]
  | s :: e :: rest, I :: Is => by
    simp only [windows, List.length_cons, windows_length (e :: rest) Is]
    omega

theorem windows_getElem? : ∀ (F : List ℕ) (Is : List K) (k : ℕ) (h1 : k < Is.length)
    (h2 : k + 1 < F.length), (windows Is F)[k]? = some (F[k], F[k + 1], Is[k])
  | [], _, _, _, h2 => by simp at h2
  | [_], _, _, _, h2 => by simp at h2
  | s :: e :: rest, [], _, h1, _ => by simp at h1
  | s :: e :: rest, I :: Is, 0, _, _ => by simp [windows]
  | s :: e :: rest, I :: Is, k + 1, h1, h2 => by
    simp only [windows, List.getElem?_cons_succ, List.getElem_cons_succ]
    exact windows_getElem? (e :: rest) Is k (by simpa using h1) (by simpa using h2)

theorem windows_chain' (n : ℕ) (x : ℕ → K) (hx : StrictIncr n x) :
    ∀ (F : List ℕ) (Is : List K) (lo : ℕ), F.Pairwise (fun a b => a + 2 ≤ b) →
      (∀ f ∈ F, lo ≤ f ∧ f < n + 1) → Chain x lo (windows Is F)
  | [], Is, _, _, _ => by cases Is <;> simp [windows, Chain]
  | [_], Is, _, _, _ => by cases Is <;> simp [windows, Chain]
  | s :: e :: rest, [], _, _, _ => by simp [windows, Chain]
  | s :: e :: rest, I :: Is, lo, hp, hb => by
    simp only [windows, Chain]
    have hse : s + 2 ≤ e := (List.pairwise_cons.mp hp).1 e List.mem_cons_self
    have hp' := (List.pairwise_cons.mp hp).2
    have hs := hb s List.mem_cons_self
    have he := hb e (List.mem_cons_of_mem _ List.mem_cons_self)
    refine ⟨hs.1, hse, hx.win s (e - s) (by omega), ?_⟩
    apply windows_chain' n x hx (e :: rest) Is e hp'
    intro f hf
    refine ⟨?_, (hb f (List.mem_cons_of_mem _ hf)).2⟩
    rcases List.mem_cons.mp hf with h | h
    · omega
    · have := (List.pairwise_cons.mp hp').1 f h; omega

/-! ### `sumOverIndices`, `sumRange` -/

theorem sumOverIndices_length (a : ℕ → K) : ∀ (R : List ℕ), (sumOverIndices a R).length = R.length - 1
  | [] => rfl
  | [_] => rfl
  | s :: e :: rest => by
    simp only [sumOverIndices, List.length_cons, sumOverIndices_length a (e :: rest)]
    omega

theorem sumOverIndices_getElem (a : ℕ → K) : ∀ (R : List ℕ) (k : ℕ) (h : k + 1 < R.length),
    (sumOverIndices a R)[k]'(by rw [sumOverIndices_length]; omega) = sumRange a R[k] R[k + 1]
  | [], _, h => by simp at h
  | [_], _, h => by simp at h
  | s :: e :: rest, 0, _ => by simp [sumOverIndices]
  | s :: e :: rest, k + 1, h => by
    simp only [sumOverIndices, List.getElem_cons_succ]
    exact sumOverIndices_getElem a (e :: rest) k (by simpa using h)

theorem sumRange_eq_sum (a : ℕ → K) (s e : ℕ) : sumRange a s e = ∑ i ∈ Ico s e, a i := by
  unfold sumRange
  rw [sumTo_eq_sum, sum_Ico_eq_sum_range]
  rfl

theorem sumRange_add (a : ℕ → K) (s m e : ℕ) (h1 : s ≤ m) (h2 : m ≤ e) :
    sumRange a s m + sumRange a m e = sumRange a s e := by
  simp only [sumRange_eq_sum]
  exact sum_Ico_consecutive a h1 h2

theorem winIntegral_eq_sumRange (r : Rule) (x y : ℕ → K) (s e : ℕ) :
    winIntegral r x y s e = sumRange (integralAt r x y) s e := by
  unfold winIntegral sumRange integralSum
  congr 1

theorem winIntegral_add' (r : Rule) (x y : ℕ → K) (a b c : ℕ) (h1 : a ≤ b) (h2 : b ≤ c) :
    winIntegral r x y a b + winIntegral r x y b c = winIntegral r x y a c := by
  simp only [winIntegral_eq_sumRange]
  exact sumRange_add _ a b c h1 h2

theorem winIntegral_congr (r : Rule) (x y y' : ℕ → K) (s e : ℕ) (hse : s ≤ e)
    (h : ∀ j, s ≤ j → j ≤ e → y j = y' j) : winIntegral r x y s e = winIntegral r x y' s e := by
  unfold winIntegral
  apply integralSum_congr
  intro i hi
  simp only [win]
  exact h (s + i) (by omega) (by omega)

theorem fixedPoints_ok {x xref : List K} {fpx : Option (List K)} {fpi : Option (List ℕ)}
    {strategy : String} {fp : FixedPoints K} (h : fixedPoints x xref fpx fpi strategy = .ok fp) :
    fp.idxX.length = fp.inX.length ∧
    ((∃ ix ri inRef, fpi = some ix ∧ takeK x ((uniqueN ix).map Int.ofNat) = .ok fp.inX ∧
        Search.find "closest" true xref fp.inX = .ok ri ∧ takeK xref ri = .ok inRef ∧
        fp.idxX = uniqueN ix ∧ fp.idxRef = whereIsin xref inRef) ∨
     (∃ xi inX, fpi = none ∧ fpx = none ∧ Search.find strategy true x xref = .ok xi ∧
        takeK x xi = .ok inX ∧ fp.inX = uniqueK inX ∧ fp.idxX = whereIsin x (uniqueK inX) ∧
        fp.idxRef = List.range xref.length) ∨
     (∃ v ri inRef, fpi = none ∧ fpx = some v ∧ Search.find "closest" true xref (uniqueK v) = .ok ri ∧
        takeK xref ri = .ok inRef ∧ fp.inX = uniqueK v ∧ fp.idxX = whereIsin x (uniqueK v) ∧
        fp.idxRef = whereIsin xref inRef)) := by
  cases fpi <;> cases fpx <;>
    simp only [fixedPoints, bind, Except.bind, pure, Except.pure, throw, throwThe,
      MonadExceptOf.throw] at h <;>
    repeat' (split at h) 
  all_goals cases h
  all_goals rename_i hlen
  all_goals refine ⟨not_not.mp hlen, ?_⟩
  · exact Or.inr (Or.inl ⟨_, _, rfl, rfl, by assumption, by assumption, rfl, rfl, rfl⟩)
  · exact Or.inr (Or.inr ⟨_, _, _, rfl, rfl, by assumption, by assumption, rfl, rfl, rfl⟩)
  · exact Or.inl ⟨_, _, _, rfl, by assumption, by assumption, by assumption, rfl, rfl⟩
  · exact Or.inl ⟨_, _, _, rfl, by assumption, by assumption, by assumption, rfl, rfl⟩

/-! ### `whereIsin`, `takeK` -/

theorem whereIsin_lt (a v : List K) : ∀ i ∈ whereIsin a v, i < a.length := by
  intro i hi
  unfold whereIsin at hi
  exact List.mem_range.mp (List.mem_filter.mp hi).1

theorem whereIsin_sorted (a v : List K) : (whereIsin a v).Pairwise (· < ·) := by
  unfold whereIsin
  exact List.Pairwise.filter _ List.pairwise_lt_range

theorem mem_whereIsin (a v : List K) (i : ℕ) :
    i ∈ whereIsin a v ↔ ∃ h : i < a.length, a[i] ∈ v := by
  unfold whereIsin
  rw [List.mem_filter, List.mem_range]
  constructor
  · rintro ⟨h1, h2⟩
    refine ⟨h1, ?_⟩
    rw [List.getElem?_eq_getElem h1] at h2
    simpa using h2
  · rintro ⟨h1, h2⟩
    refine ⟨h1, ?_⟩
    rw [List.getElem?_eq_getElem h1]
    simpa using h2

theorem takeK_ofNat_lt (a : List K) : ∀ (l : List ℕ) (r : List K),
    takeK a (l.map Int.ofNat) = .ok r → ∀ i ∈ l, i < a.length := by
  intro l
  induction l with
  | nil => intro r _ i hi; cases hi
  | cons j l ih =>
    intro r h i hi
    simp only [List.map_cons, takeK] at h
    split at h
    · cases h
    · split at h
      · cases h
      · rename_i v hv
        cases hrec : takeK a (l.map Int.ofNat) with
        | error e => rw [hrec] at h; cases h
        | ok r' =>
          rcases List.mem_cons.mp hi with hi | hi
          · subst hi
            have : (Int.ofNat i).toNat = i := rfl
            rw [this] at hv
            exact (List.getElem?_eq_some_iff.mp hv).1
          · exact ih r' hrec i hi

theorem fixedPoints_idxX_lt {x xref : List K} {fpx : Option (List K)} {fpi : Option (List ℕ)}
    {strategy : String} {fp : FixedPoints K} (h : fixedPoints x xref fpx fpi strategy = .ok fp) :
    ∀ i ∈ fp.idxX, i < x.length := by
  obtain ⟨_, h1 | h1 | h1⟩ := fixedPoints_ok h
  · obtain ⟨ix, ri, inRef, _, ht, _, _, he, _⟩ := h1
    rw [he]
    exact takeK_ofNat_lt x _ _ ht
  · obtain ⟨xi, inX, _, _, _, _, _, he, _⟩ := h1
    rw [he]; exact whereIsin_lt _ _
  · obtain ⟨v, ri, inRef, _, _, _, _, _, he, _⟩ := h1
    rw [he]; exact whereIsin_lt _ _

theorem fixedPoints_idxRef_sorted' {x xref : List K} {fpx : Option (List K)} {fpi : Option (List ℕ)}
    {strategy : String} {fp : FixedPoints K} (h : fixedPoints x xref fpx fpi strategy = .ok fp) :
    fp.idxRef.Pairwise (· < ·) := by
  obtain ⟨_, h1 | h1 | h1⟩ := fixedPoints_ok h
  · obtain ⟨ix, ri, inRef, _, _, _, _, _, he⟩ := h1
    rw [he]; exact whereIsin_sorted _ _
  · obtain ⟨xi, inX, _, _, _, _, _, _, he⟩ := h1
    rw [he]; exact List.pairwise_lt_range
  · obtain ⟨v, ri, inRef, _, _, _, _, _, _, he⟩ := h1
    rw [he]; exact whereIsin_sorted _ _

/-! ### `matchRef` -/

theorem arrFn_toArray (l : List K) (i : ℕ) (h : i < l.length) : arrFn l.toArray i = l[i] := by
  unfold arrFn
  simp [Array.getD, h]

theorem strictIncr_of_pairwise (x : List K) (hx : x.Pairwise (· < ·)) :
    StrictIncr (x.length - 1) (arrFn x.toArray) := by
  intro i hi
  rw [arrFn_toArray x i (by omega), arrFn_toArray x (i + 1) (by omega)]
  exact List.pairwise_iff_getElem.mp hx i (i + 1) (by omega) (by omega) (by omega)

/-- the windows `matchRef` hands to the loop -/
def refWindows (rr : Rule) (xref yref : List K) (fp : FixedPoints K) : List (ℕ × ℕ × K) :=
  windows (sumOverIndices (integralAt rr (arrFn xref.toArray) (arrFn yref.toArray)) fp.idxRef) fp.idxX

theorem matchRef_eq (pw : K → K) (x y xref yref : List K) (fpx : Option (List K))
    (fpi : Option (List ℕ)) (strategy target refRule : String) (fp : FixedPoints K) (tr rr : Rule)
    (hfp : fixedPoints x xref fpx fpi strategy = .ok fp)
    (htr : Rule.ofString? target = some tr) (hrr : Rule.ofString? refRule = some rr) :
    matchRef pw x y xref yref fpx fpi strategy target refRule =
      if (refWindows rr xref yref fp).isEmpty then .ok (some y)
      else if loopDefined tr pw (arrFn x.toArray) (refWindows rr xref yref fp) then
        .ok (some (loopA tr pw (arrFn x.toArray) (refWindows rr xref yref fp) y.toArray).toList)
      else .ok none := by
  unfold matchRef refWindows
  simp only [hfp, htr, hrr, bind, Except.bind, pure, Except.pure]

theorem loopDefined_of_chain (r : Rule) (pw : K → K) (hp : PowLike pw) (x : ℕ → K)
    (ws : List (ℕ × ℕ × K)) (lo : ℕ) (hc : Chain x lo ws) : loopDefined r pw x ws = true := by
  unfold loopDefined
  rw [List.all_eq_true]
  intro w hw
  obtain ⟨_, h2, h3⟩ := hc.mem w hw
  have hD := stretchDenom_pos r pw hp _ _ h3 (by omega)
  have hlt := strictIncr_lt h3 0 (w.2.1 - w.1) (by omega) le_rfl
  simp only [win] at hlt
  rw [show w.1 + (w.2.1 - w.1) = w.2.1 by omega, Nat.add_zero] at hlt
  simp only [Bool.and_eq_true, decide_eq_true_eq]
  exact ⟨ne_of_gt hD, Or.inr (ne_of_gt (sub_pos.mpr hlt))⟩


/-- the hypotheses of the `matchRef` theorems (C01 theorem 6) -/
structure MatchHyp (x xref : List K) (fpx : Option (List K)) (fpi : Option (List ℕ))
    (strategy target refRule : String) (fp : FixedPoints K) (tr rr : Rule) : Prop where
  hx : x.Pairwise (· < ·)
  hfp : fixedPoints x xref fpx fpi strategy = .ok fp
  htr : Rule.ofString? target = some tr
  hrr : Rule.ofString? refRule = some rr
  hlen : fp.idxRef.length = fp.idxX.length
  hint : fp.idxX.Pairwise (fun a b => a + 2 ≤ b)
  h2 : 2 ≤ fp.idxX.length

section core
variable {x xref : List K} {fpx : Option (List K)} {fpi : Option (List ℕ)}
  {strategy target refRule : String} {fp : FixedPoints K} {tr rr : Rule}

theorem MatchHyp.chain (H : MatchHyp x xref fpx fpi strategy target refRule fp tr rr)
    (yref : List K) : Chain (arrFn x.toArray) 0 (refWindows rr xref yref fp) := by
  unfold refWindows
  apply windows_chain' (x.length - 1) _ (strictIncr_of_pairwise x H.hx) _ _ 0 H.hint
  intro f hf
  have := fixedPoints_idxX_lt H.hfp f hf
  omega

theorem MatchHyp.length (H : MatchHyp x xref fpx fpi strategy target refRule fp tr rr)
    (yref : List K) : (refWindows rr xref yref fp).length = fp.idxX.length - 1 := by
  unfold refWindows
  rw [windows_length, sumOverIndices_length, H.hlen, min_self]

theorem MatchHyp.getElem (H : MatchHyp x xref fpx fpi strategy target refRule fp tr rr)
    (yref : List K) (k : ℕ) (hk : k + 1 < fp.idxX.length) :
    (refWindows rr xref yref fp)[k]? = some (fp.idxX[k], fp.idxX[k + 1],
      sumRange (integralAt rr (arrFn xref.toArray) (arrFn yref.toArray))
        (fp.idxRef[k]'(by have := H.hlen; omega)) (fp.idxRef[k + 1]'(by have := H.hlen; omega))) := by
  unfold refWindows
  have hl := H.hlen
  rw [windows_getElem? _ _ k (by rw [sumOverIndices_length]; omega) hk,
    sumOverIndices_getElem _ _ k (by omega)]

theorem MatchHyp.mem (H : MatchHyp x xref fpx fpi strategy target refRule fp tr rr)
    (yref : List K) (k : ℕ) (hk : k + 1 < fp.idxX.length) :
    (fp.idxX[k], fp.idxX[k + 1],
      sumRange (integralAt rr (arrFn xref.toArray) (arrFn yref.toArray))
        (fp.idxRef[k]'(by have := H.hlen; omega)) (fp.idxRef[k + 1]'(by have := H.hlen; omega)))
      ∈ refWindows rr xref yref fp :=
  List.mem_of_getElem? (H.getElem yref k hk)

/-- every window is `(F[k], F[k+1], _)` for some `k` -/
theorem MatchHyp.mem_iff (H : MatchHyp x xref fpx fpi strategy target refRule fp tr rr)
    (yref : List K) (w : ℕ × ℕ × K) (hw : w ∈ refWindows rr xref yref fp) :
    ∃ k, ∃ hk : k + 1 < fp.idxX.length, w.1 = fp.idxX[k] ∧ w.2.1 = fp.idxX[k + 1] := by
  obtain ⟨k, hk, rfl⟩ := List.mem_iff_getElem.mp hw
  rw [H.length] at hk
  have hk' : k + 1 < fp.idxX.length := by have := H.h2; omega
  refine ⟨k, hk', ?_⟩
  have := H.getElem yref k hk'
  rw [List.getElem?_eq_getElem (by rw [H.length]; omega)] at this
  rw [Option.some.inj this]
  exact ⟨rfl, rfl⟩

theorem MatchHyp.result (H : MatchHyp x xref fpx fpi strategy target refRule fp tr rr)
    (pw : K → K) (hp : PowLike pw) (y yref : List K) (hy : y.length = x.length) :
    ∃ z, matchRef pw x y xref yref fpx fpi strategy target refRule = .ok (some z) ∧
      z.length = x.length ∧
      ∀ j, arrFn z.toArray j
        = loop tr pw (arrFn x.toArray) (refWindows rr xref yref fp) (arrFn y.toArray) j := by
  have hc := H.chain yref
  have hne : (refWindows rr xref yref fp).isEmpty = false := by
    rw [← Bool.not_eq_true, List.isEmpty_iff]
    intro h0
    have := H.length yref
    rw [h0] at this
    have := H.h2
    simp at *
    omega
  have hA := loopA_eq_loop' tr pw (arrFn x.toArray) (refWindows rr xref yref fp) y.toArray (by
    intro w hw
    obtain ⟨k, hk, _, h2⟩ := H.mem_iff yref w hw
    have := fixedPoints_idxX_lt H.hfp (fp.idxX[k + 1]) (List.getElem_mem _)
    simp only [List.size_toArray]
    omega)
  refine ⟨(loopA tr pw (arrFn x.toArray) (refWindows rr xref yref fp) y.toArray).toList, ?_, ?_, ?_⟩
  · rw [matchRef_eq pw x y xref yref fpx fpi strategy target refRule fp tr rr H.hfp H.htr H.hrr, hne,
      loopDefined_of_chain tr pw hp _ _ 0 hc]
    simp
  · rw [Array.length_toList, hA.2, List.size_toArray, hy]
  · intro j
    rw [Array.toArray_toList]
    exact hA.1 j

end core

/-! ### consequences for `matchRef` (C01 total, C03) -/

theorem getElem?_eq_of_arrFn (z y : List K) (hl : z.length = y.length) (j : ℕ)
    (h : arrFn z.toArray j = arrFn y.toArray j) : z[j]? = y[j]? := by
  by_cases hj : j < z.length
  · rw [List.getElem?_eq_getElem hj, List.getElem?_eq_getElem (by omega),
      ← arrFn_toArray z j hj, ← arrFn_toArray y j (by omega), h]
  · rw [List.getElem?_eq_none (by omega), List.getElem?_eq_none (by omega)]

theorem list_eq_of_arrFn (z y : List K) (hl : z.length = y.length)
    (h : ∀ j, arrFn z.toArray j = arrFn y.toArray j) : z = y :=
  List.ext_getElem? (fun j => getElem?_eq_of_arrFn z y hl j (h j))

theorem pairwise_add_two_le (F : List ℕ) (hF : F.Pairwise (fun a b => a + 2 ≤ b)) (a b : ℕ)
    (hab : a ≤ b) (hb : b < F.length) : F[a] ≤ F[b] := by
  rcases Nat.lt_or_ge a b with h | h
  · have := List.pairwise_iff_getElem.mp hF a b (by omega) hb h; omega
  · have : a = b := by omega
    subst this; exact le_rfl

theorem pairwise_lt_le (F : List ℕ) (hF : F.Pairwise (· < ·)) (a b : ℕ)
    (hab : a ≤ b) (hb : b < F.length) : F[a] ≤ F[b] := by
  rcases Nat.lt_or_ge a b with h | h
  · have := List.pairwise_iff_getElem.mp hF a b (by omega) hb h; omega
  · have : a = b := by omega
    subst this; exact le_rfl

section core
variable {x xref : List K} {fpx : Option (List K)} {fpi : Option (List ℕ)}
  {strategy target refRule : String} {fp : FixedPoints K} {tr rr : Rule}

/-- a sample that is not strictly between two consecutive fixed points is left alone -/
theorem MatchHyp.unchanged (H : MatchHyp x xref fpx fpi strategy target refRule fp tr rr)
    (pw : K → K) (hp : PowLike pw) (yref : List K) (y : ℕ → K) (j : ℕ)
    (hj : ∀ (k : ℕ) (hk : k + 1 < fp.idxX.length), j ≤ fp.idxX[k] ∨ fp.idxX[k + 1] ≤ j) :
    loop tr pw (arrFn x.toArray) (refWindows rr xref yref fp) y j = y j := by
  apply loop_unchanged tr pw hp
  · intro w hw; exact ((H.chain yref).mem w hw).2
  · intro w hw
    obtain ⟨k, hk, h1, h2⟩ := H.mem_iff yref w hw
    rw [h1, h2]; exact hj k hk

theorem MatchHyp.unchanged_of (H : MatchHyp x xref fpx fpi strategy target refRule fp tr rr)
    (j : ℕ) (hj : j ≤ fp.idxX[0]'(by have := H.h2; omega) ∨
      fp.idxX[fp.idxX.length - 1]'(by have := H.h2; omega) ≤ j ∨ j ∈ fp.idxX) :
    ∀ (k : ℕ) (hk : k + 1 < fp.idxX.length), j ≤ fp.idxX[k] ∨ fp.idxX[k + 1] ≤ j := by
  intro k hk
  have hs := pairwise_add_two_le fp.idxX H.hint
  rcases hj with hj | hj | hj
  · left; exact le_trans hj (hs 0 k (by omega) (by omega))
  · right; exact le_trans (hs (k + 1) (fp.idxX.length - 1) (by omega) (by omega)) hj
  · obtain ⟨m, hm, rfl⟩ := List.mem_iff_getElem.mp hj
    rcases Nat.lt_or_ge k m with h | h
    · right; exact hs (k + 1) m (by omega) hm
    · left; exact hs m k h (by omega)

/-- after the loop every window has its target integral -/
theorem MatchHyp.windows_integral (H : MatchHyp x xref fpx fpi strategy target refRule fp tr rr)
    (pw : K → K) (hp : PowLike pw) (yref : List K) (y z : ℕ → K)
    (hz : ∀ j, z j = loop tr pw (arrFn x.toArray) (refWindows rr xref yref fp) y j) :
    ∀ w ∈ refWindows rr xref yref fp, winIntegral tr (arrFn x.toArray) z w.1 w.2.1 = w.2.2 := by
  intro w hw
  have := ((H.chain yref).mem w hw).2.1
  rw [winIntegral_congr tr _ _ _ _ _ (by omega) (fun j _ _ => hz j)]
  exact loop_integrals' tr pw hp _ _ 0 _ (H.chain yref) w hw

theorem MatchHyp.idempotent (H : MatchHyp x xref fpx fpi strategy target refRule fp tr rr)
    (pw : K → K) (hp : PowLike pw) (y yref z : List K) (hy : y.length = x.length)
    (hz : matchRef pw x y xref yref fpx fpi strategy target refRule = .ok (some z)) :
    matchRef pw x z xref yref fpx fpi strategy target refRule = .ok (some z) := by
  obtain ⟨z', h1, h2, h3⟩ := H.result pw hp y yref hy
  rw [h1] at hz
  have : z' = z := by injection hz with hz; injection hz
  subst this
  obtain ⟨z'', g1, g2, g3⟩ := H.result pw hp z' yref h2
  have hself := loop_eq_self tr pw hp (arrFn x.toArray) (refWindows rr xref yref fp)
    (arrFn z'.toArray)
    (fun w hw => by have := ((H.chain yref).mem w hw).2; exact ⟨by omega, this.2⟩)
    (H.windows_integral pw hp yref _ _ h3)
  have : z'' = z' := list_eq_of_arrFn z'' z' (by omega) (fun j => by rw [g3 j, hself])
  rw [g1, this]

/-- the integral from the first fixed point to the `k`-th one -/
theorem MatchHyp.partial_sums (H : MatchHyp x xref fpx fpi strategy target refRule fp tr rr)
    (yref : List K) (z : ℕ → K)
    (hz : ∀ w ∈ refWindows rr xref yref fp, winIntegral tr (arrFn x.toArray) z w.1 w.2.1 = w.2.2) :
    ∀ (k : ℕ) (hk : k < fp.idxX.length),
      winIntegral tr (arrFn x.toArray) z (fp.idxX[0]'(by omega)) fp.idxX[k] =
        sumRange (integralAt rr (arrFn xref.toArray) (arrFn yref.toArray))
          (fp.idxRef[0]'(by have := H.hlen; omega)) (fp.idxRef[k]'(by have := H.hlen; omega)) := by
  have hl := H.hlen
  have hsX := pairwise_add_two_le fp.idxX H.hint
  have hsR := pairwise_lt_le fp.idxRef (fixedPoints_idxRef_sorted' H.hfp)
  intro k
  induction k with
  | zero =>
    intro hk
    simp [winIntegral_eq_sumRange, sumRange, sumTo]
  | succ k ih =>
    intro hk
    rw [← winIntegral_add' tr _ _ _ fp.idxX[k] _ (hsX 0 k (by omega) (by omega))
          (hsX k (k + 1) (by omega) hk), ih (by omega), hz _ (H.mem yref k hk)]
    exact sumRange_add _ _ _ _ (hsR 0 k (by omega) (by omega)) (hsR k (k + 1) (by omega) (by omega))

end core
/-! ### the default mode: the fixed points are the samples the search selected -/

theorem mem_dedupAdj {α : Type} [DecidableEq α] (a : α) : ∀ l : List α, a ∈ dedupAdj l ↔ a ∈ l
  | [] => by simp [dedupAdj]
  | [b] => by simp [dedupAdj]
  | b :: c :: rest => by
    have ih := mem_dedupAdj a (c :: rest)
    unfold dedupAdj
    split
    · rename_i h; subst h
      rw [ih]; simp
    · rw [List.mem_cons, ih, List.mem_cons (a := a) (b := b)]

theorem mem_uniqueK (a : K) (l : List K) : a ∈ uniqueK l ↔ a ∈ l := by
  unfold uniqueK
  rw [mem_dedupAdj, List.mem_mergeSort]

theorem takeK_spec (a : List K) : ∀ (idx : List ℤ) (r : List K), takeK a idx = .ok r →
    (∀ i ∈ idx, 0 ≤ i ∧ i.toNat < a.length) ∧
      ∀ v, v ∈ r ↔ ∃ i ∈ idx, a[i.toNat]? = some v := by
  intro idx
  induction idx with
  | nil =>
    intro r h
    simp only [takeK] at h
    cases h
    simp
  | cons j idx ih =>
    intro r h
    simp only [takeK] at h
    split at h
    · cases h
    · rename_i hj
      split at h
      · cases h
      · rename_i v hv
        cases hrec : takeK a idx with
        | error e => rw [hrec] at h; cases h
        | ok r' =>
          rw [hrec] at h
          have hr : r = v :: r' := by cases h; rfl
          obtain ⟨ih1, ih2⟩ := ih r' hrec
          constructor
          · intro i hi
            rcases List.mem_cons.mp hi with hi | hi
            · subst hi
              exact ⟨by omega, (List.getElem?_eq_some_iff.mp hv).1⟩
            · exact ih1 i hi
          · intro u
            rw [hr, List.mem_cons, ih2 u]
            constructor
            · rintro (h | ⟨i, hi, hiu⟩)
              · exact ⟨j, List.mem_cons_self, by rw [hv, h]⟩
              · exact ⟨i, List.mem_cons_of_mem _ hi, hiu⟩
            · rintro ⟨i, hi, hiu⟩
              rcases List.mem_cons.mp hi with hi | hi
              · subst hi
                left
                rw [hv] at hiu
                exact (Option.some.inj hiu).symm
              · exact Or.inr ⟨i, hi, hiu⟩

theorem getElem_inj_of_pairwise_lt (x : List K) (hx : x.Pairwise (· < ·)) (a b : ℕ)
    (ha : a < x.length) (hb : b < x.length) (h : x[a] = x[b]) : a = b := by
  rcases Nat.lt_trichotomy a b with h1 | h1 | h1
  · have := List.pairwise_iff_getElem.mp hx a b ha hb h1
    rw [h] at this; exact absurd this (lt_irrefl _)
  · exact h1
  · have := List.pairwise_iff_getElem.mp hx b a hb ha h1
    rw [h] at this; exact absurd this (lt_irrefl _)

theorem fixedPoints_default_mem' (x xref : List K) (strategy : String) (idx : List ℤ)
    (fp : FixedPoints K) (hx : x.Pairwise (· < ·))
    (hs : Search.find strategy true x xref = .ok idx)
    (hfp : fixedPoints x xref none none strategy = .ok fp) :
    (∀ i : ℕ, i ∈ fp.idxX ↔ (i : ℤ) ∈ idx) ∧ fp.idxRef = List.range xref.length := by
  obtain ⟨_, h1 | h1 | h1⟩ := fixedPoints_ok hfp
  · obtain ⟨ix, _, _, h, _⟩ := h1; cases h
  · obtain ⟨xi, inX, _, _, hfind, htake, _, heX, heR⟩ := h1
    rw [hs] at hfind
    have : idx = xi := by injection hfind
    subst this
    refine ⟨?_, heR⟩
    obtain ⟨hb, hm⟩ := takeK_spec x idx inX htake
    intro i
    rw [heX, mem_whereIsin]
    constructor
    · rintro ⟨hi, hmem⟩
      rw [mem_uniqueK, hm] at hmem
      obtain ⟨j, hj, hjv⟩ := hmem
      obtain ⟨hj0, hjl⟩ := hb j hj
      rw [List.getElem?_eq_getElem hjl] at hjv
      have := getElem_inj_of_pairwise_lt x hx _ _ hjl hi (Option.some.inj hjv)
      have : j = (i : ℤ) := by omega
      rw [← this]; exact hj
    · intro hi
      obtain ⟨_, hil⟩ := hb _ hi
      have e : ((i : ℤ)).toNat = i := by omega
      rw [e] at hil
      refine ⟨hil, ?_⟩
      rw [mem_uniqueK, hm]
      exact ⟨(i : ℤ), hi, by rw [e, List.getElem?_eq_getElem hil]⟩
  · obtain ⟨v, _, _, _, h, _⟩ := h1; cases h

/-- the default branch of `fixedPoints`, for evaluating examples -/
theorem fixedPoints_default_eq (x xref : List K) (strategy : String) (xi : List ℤ) (inX : List K)
    (hs : Search.find strategy true x xref = .ok xi) (ht : takeK x xi = .ok inX)
    (hl : (whereIsin x (uniqueK inX)).length = (uniqueK inX).length) :
    fixedPoints x xref none none strategy =
      .ok { inX := uniqueK inX, idxX := whereIsin x (uniqueK inX), idxRef := List.range xref.length } := by
  simp only [fixedPoints, hs, ht, bind, Except.bind, pure, Except.pure]
  simp [hl]

end TWV
