import TWV.Model.Weaver
import TWV.Lemmas.Basic
import TWV.Lemmas.Match
import TWV.Properties.C04
import TWV.Properties.C10
import TWV.Properties.C12
import TWV.Properties.C14
import TWV.Properties.C17

/-!
# Helper lemmas for the `Weaver` state machine (`TWV/Model/Weaver.lean`)

Bridges between the list view of the state machine and the `ℕ → K` view of the series-level
theorems, and one preservation lemma per series-level operation.
-/

set_option linter.unusedSectionVars false

namespace TWV.Weaver

open TWV

variable {K : Type} [Field K] [LinearOrder K] [IsStrictOrderedRing K]

/-! ## `ofFn` / `fnOf` -/

@[simp] theorem length_ofFn (n : ℕ) (f : ℕ → K) : (ofFn n f).length = n := by
  simp [ofFn]

@[simp] theorem getElem_ofFn (n : ℕ) (f : ℕ → K) (i : ℕ) (h : i < (ofFn n f).length) :
    (ofFn n f)[i] = f i := by
  simp [ofFn]

theorem getElem?_ofFn (n : ℕ) (f : ℕ → K) (i : ℕ) :
    (ofFn n f)[i]? = if i < n then some (f i) else none := by
  unfold ofFn
  split
  · rename_i h; simp [h]
  · rename_i h; simp [h]

theorem fnOf_of_lt (l : List K) (i : ℕ) (h : i < l.length) : fnOf l i = l[i] := by
  unfold fnOf; simp [List.getD, h]

theorem fnOf_of_le (l : List K) (i : ℕ) (h : l.length ≤ i) : fnOf l i = 0 := by
  unfold fnOf; simp [List.getD, h]

theorem fnOf_ofFn (n : ℕ) (f : ℕ → K) (i : ℕ) (h : i < n) : fnOf (ofFn n f) i = f i := by
  rw [fnOf_of_lt _ _ (by simpa using h), getElem_ofFn]

theorem fnOf_eq_arrFn (l : List K) : fnOf l = arrFn l.toArray := by
  funext i; unfold fnOf arrFn; simp [Array.getD, List.getD]
  split <;> simp_all

theorem ofFn_congr (n : ℕ) (f g : ℕ → K) (h : ∀ i, i < n → f i = g i) : ofFn n f = ofFn n g := by
  unfold ofFn
  apply List.map_congr_left
  intro i hi
  exact h i (List.mem_range.mp hi)

theorem ofFn_fnOf (l : List K) : ofFn l.length (fnOf l) = l := by
  apply List.ext_getElem (by simp)
  intro i h1 h2
  rw [getElem_ofFn, fnOf_of_lt]

/-- a tabulated series is strictly increasing as a list iff it is as a function -/
theorem pairwise_ofFn_iff (n : ℕ) (f : ℕ → K) :
    (ofFn n f).Pairwise (· < ·) ↔ StrictIncr (n - 1) f := by
  rw [List.pairwise_iff_getElem]
  constructor
  · intro h i hi
    have := h i (i + 1) (by simp; omega) (by simp; omega) (by omega)
    simpa using this
  · intro h i j hi hj hij
    simp only [getElem_ofFn]
    simp only [length_ofFn] at hi hj
    exact strictIncr_lt h i j hij (by omega)

theorem strictIncr_fnOf (l : List K) (h : l.Pairwise (· < ·)) : StrictIncr (l.length - 1) (fnOf l) := by
  rw [fnOf_eq_arrFn]; exact strictIncr_of_pairwise l h

theorem pairwise_of_strictIncr_fnOf (l : List K) (h : StrictIncr (l.length - 1) (fnOf l)) :
    l.Pairwise (· < ·) := by
  rw [← ofFn_fnOf l, pairwise_ofFn_iff]; exact h

theorem headD_eq_fnOf (l : List K) : l.headD 0 = fnOf l 0 := by
  cases l <;> simp [fnOf]

theorem getLastD_eq_fnOf (l : List K) : l.getLastD 0 = fnOf l (l.length - 1) := by
  rcases List.eq_nil_or_concat l with rfl | ⟨l', a, rfl⟩
  · simp [fnOf]
  · simp [fnOf, List.getD]

theorem head_lt_last (l : List K) (h : l.Pairwise (· < ·)) (hl : 2 ≤ l.length) :
    l.headD 0 < l.getLastD 0 := by
  rw [headD_eq_fnOf, getLastD_eq_fnOf]
  exact strictIncr_lt (strictIncr_fnOf l h) 0 (l.length - 1) (by omega) le_rfl

/-! ## A failing step leaves the state untouched (all operations but `appendOne`) -/

@[simp] theorem ok_err (s : State K) : (ok s).err = none := rfl
@[simp] theorem ok_state (s : State K) : (ok s).state = s := rfl
@[simp] theorem fail_err (s : State K) (e : Err) : (fail s e).err = some e := rfl
@[simp] theorem fail_state (s : State K) (e : Err) : (fail s e).state = s := rfl

theorem appendOne_err (x y : List K) (p : Bool) (e : Err) (h : appendOne x y p = .error e) :
    e = .indexError := by
  unfold appendOne at h
  split at h
  · cases h; rfl
  · cases h

/-- `append_one_sample` can only fail with `IndexError` -/
theorem step_appendOne_err (s : State K) (p : Bool) (e : Err)
    (h : (step s (.appendOne p)).err = some e) : e = .indexError := by
  simp only [step] at h
  split at h
  · rename_i e' he
    simp at h; subst h; exact appendOne_err _ _ _ _ he
  · split at h
    · rename_i e' he
      simp at h; subst h; exact appendOne_err _ _ _ _ he
    · simp at h

/-- if the reference series is long enough, a failing `appendOne` has not assigned anything -/
theorem step_appendOne_fail_state (s : State K) (p : Bool) (e : Err)
    (hr : 2 ≤ s.rx.length) (hy : s.ry ≠ []) (h : (step s (.appendOne p)).err = some e) :
    (step s (.appendOne p)).state = s := by
  have h2 : ∃ r, appendOne s.rx s.ry p = .ok r := by
    unfold appendOne
    rw [if_neg]
    · exact ⟨_, rfl⟩
    · intro hc
      rcases hc with hc | hc
      · omega
      · exact hy (List.isEmpty_iff.mp hc)
  obtain ⟨r, h2⟩ := h2
  revert h; simp only [step, h2]
  split <;> simp

theorem step_truncV_fail (s : State K) (l r : K) (lr rr : Bool) (e : Err)
    (h : (step s (.truncV l r lr rr)).err = some e) : (step s (.truncV l r lr rr)).state = s := by
  revert h; simp only [step]; repeat' split
  all_goals simp

theorem step_truncI_fail (s : State K) (a : ℤ) (b : Option ℤ) (e : Err)
    (h : (step s (.truncI a b)).err = some e) : (step s (.truncI a b)).state = s := by
  revert h; simp only [step]; repeat' split
  all_goals simp

theorem step_recreate_fail (s : State K) (st : String) (pw : K → K) (n : ℤ) (aL aR bL bR : List ℕ)
    (e : Err) (h : (step s (.recreate st pw n aL aR bL bR)).err = some e) :
    (step s (.recreate st pw n aL aR bL bR)).state = s := by
  revert h; simp only [step]; repeat' split
  all_goals simp

theorem step_recreateExt_fail (s : State K) (n : ℤ) (ys : List K)
    (e : Err) (h : (step s (.recreateExt n ys)).err = some e) :
    (step s (.recreateExt n ys)).state = s := by
  revert h; simp only [step]; repeat' split
  all_goals simp

theorem step_integralMatch_fail (s : State K) (pw : K → K) (fpx : Option (List K))
    (fpi : Option (List ℕ)) (st tg rf : String)
    (e : Err) (h : (step s (.integralMatch pw fpx fpi st tg rf)).err = some e) :
    (step s (.integralMatch pw fpx fpi st tg rf)).state = s := by
  revert h; simp only [step]; repeat' split
  all_goals simp

theorem step_interpN_fail (s : State K) (n : ℕ) (m : String) (ext : List K)
    (e : Err) (h : (step s (.interpN n m ext)).err = some e) :
    (step s (.interpN n m ext)).state = s := by
  revert h; simp only [step]; repeat' split
  all_goals simp

theorem step_interpX_fail (s : State K) (g : List K) (m : String) (ext : List K)
    (e : Err) (h : (step s (.interpX g m ext)).err = some e) :
    (step s (.interpX g m ext)).state = s := by
  revert h; simp only [step]; repeat' split
  all_goals simp

/-- for every operation other than `appendOne`, any error leaves the state unchanged -/
theorem step_fail_state (s : State K) (op : Op K) (hop : ∀ p, op ≠ .appendOne p) (e : Err)
    (h : (step s op).err = some e) : (step s op).state = s := by
  cases op with
  | appendOne p => exact absurd rfl (hop p)
  | truncV l r lr rr => exact step_truncV_fail s l r lr rr e h
  | truncI a b => exact step_truncI_fail s a b e h
  | recreate st pw n aL aR bL bR => exact step_recreate_fail s st pw n aL aR bL bR e h
  | recreateExt n ys => exact step_recreateExt_fail s n ys e h
  | integralMatch pw fpx fpi st tg rf => exact step_integralMatch_fail s pw fpx fpi st tg rf e h
  | interpN n m ext => exact step_interpN_fail s n m ext e h
  | interpX g m ext => exact step_interpX_fail s g m ext e h
  | _ => simp [step] at h

/-! ## Rejections: the code paths that raise `ValueError` -/

theorem truncateBounds_inverted (x : List K) (l r : K) (lr rr : Bool)
    (h : (if rr then r * (x.getLastD 0 - x.headD 0) + x.headD 0 else r) ≤
         (if lr then l * (x.getLastD 0 - x.headD 0) + x.headD 0 else l)) :
    Process.truncateBounds x l r lr rr = .error .valueError := by
  unfold Process.truncateBounds
  simp only [bind, Except.bind, pure, Except.pure, throw, throwThe, MonadExceptOf.throw]
  rw [if_pos h]

theorem truncateS_inverted (x y : List K) (l r : K) (lr rr : Bool)
    (h : (if rr then r * (x.getLastD 0 - x.headD 0) + x.headD 0 else r) ≤
         (if lr then l * (x.getLastD 0 - x.headD 0) + x.headD 0 else l)) :
    truncateS x y l r lr rr = .error .valueError := by
  unfold truncateS
  rw [truncateBounds_inverted x l r lr rr h]; rfl

theorem interpolate_unknown (x y g : List K) (m : String) (ext : List K)
    (h : Process.Method.ofString? m = none) :
    Process.interpolate x y g m ext = .error .valueError := by
  unfold Process.interpolate; rw [h]

theorem find_unknown_strategy (st : String) (fill : Bool) (x q : List K)
    (h : Search.Strategy.ofString? st = none) : Search.find st fill x q = .error .valueError := by
  unfold Search.find; rw [h]

theorem fixedPoints_unknown_strategy (x xref : List K) (st : String)
    (h : Search.Strategy.ofString? st = none) :
    fixedPoints x xref none none st = .error .valueError := by
  unfold fixedPoints
  simp only [find_unknown_strategy st true x xref h, bind, Except.bind]

theorem fixedPoints_too_many_x (x xref v : List K) (fpi : Option (List ℕ)) (st : String)
    (h : v.length > x.length) : fixedPoints x xref (some v) fpi st = .error .valueError := by
  unfold fixedPoints
  simp only [h, if_true, bind, Except.bind, throw, throwThe, MonadExceptOf.throw]

theorem fixedPoints_too_many_i (x xref : List K) (fpx : Option (List K)) (v : List ℕ) (st : String)
    (h : v.length > x.length) : fixedPoints x xref fpx (some v) st = .error .valueError := by
  cases fpx with
  | none =>
    unfold fixedPoints
    simp only [h, if_true, bind, Except.bind, pure, Except.pure, throw, throwThe, MonadExceptOf.throw]
  | some w =>
    by_cases hw : w.length > x.length
    · exact fixedPoints_too_many_x x xref w _ st hw
    · unfold fixedPoints
      simp only [h, hw, if_true, if_false, bind, Except.bind, pure, Except.pure, throw, throwThe,
        MonadExceptOf.throw]

theorem matchRef_fp_error (pw : K → K) (x y xref yref : List K) (fpx : Option (List K))
    (fpi : Option (List ℕ)) (st tg rf : String) (e : Err)
    (h : fixedPoints x xref fpx fpi st = .error e) :
    matchRef pw x y xref yref fpx fpi st tg rf = .error e := by
  unfold matchRef
  simp only [h, bind, Except.bind]

theorem matchRef_unknown_ref (pw : K → K) (x y xref yref : List K) (fpx : Option (List K))
    (fpi : Option (List ℕ)) (st tg rf : String) (fp : FixedPoints K)
    (hfp : fixedPoints x xref fpx fpi st = .ok fp) (h : Rule.ofString? rf = none) :
    matchRef pw x y xref yref fpx fpi st tg rf = .error .valueError := by
  unfold matchRef
  simp only [hfp, h, bind, Except.bind, throw, throwThe, MonadExceptOf.throw]

theorem matchRef_unknown_target (pw : K → K) (x y xref yref : List K) (fpx : Option (List K))
    (fpi : Option (List ℕ)) (st tg rf : String) (fp : FixedPoints K) (rr : Rule)
    (hfp : fixedPoints x xref fpx fpi st = .ok fp) (hrr : Rule.ofString? rf = some rr)
    (h : Rule.ofString? tg = none) (hw : refWindows rr xref yref fp ≠ []) :
    matchRef pw x y xref yref fpx fpi st tg rf = .error .valueError := by
  have hw' : (refWindows rr xref yref fp).isEmpty = false := by
    cases hq : refWindows rr xref yref fp with
    | nil => exact absurd hq hw
    | cons a b => rfl
  unfold refWindows at hw'
  unfold matchRef
  simp only [hfp, hrr, h, hw', bind, Except.bind, pure, Except.pure, throw, throwThe,
    MonadExceptOf.throw]
  rfl

/-! ## Frame lemmas -/

/-- operations that write the reference series -/
def IsRefWriter : Op K → Prop
  | .appendOne _ | .shiftX _ | .shiftY _ | .scaleX _ | .scaleY _ | .normX _ _ | .normY _ _
  | .repeat _ | .truncV _ _ _ _ | .truncI _ _ | .restore => True
  | _ => False

/-- split a goal about `step s op` projections conjunct by conjunct -/
macro "split_step" : tactic =>
  `(tactic| (repeat' constructor) <;> (simp only [step]; repeat' split) <;> simp)

theorem step_reshape_frame (s : State K) (op : Op K) (h : ¬ IsRefWriter op) :
    (step s op).state.rx = s.rx ∧ (step s op).state.ry = s.ry ∧
    (step s op).state.ox = s.ox ∧ (step s op).state.oy = s.oy := by
  cases op with
  | recreate st pw n aL aR bL bR => split_step
  | recreateExt n ys => split_step
  | integralMatch pw fpx fpi st tg rf => split_step
  | interpN n m ext => split_step
  | interpX g m ext => split_step
  | smooth ext => simp [step]
  | trendPoly cs nz => simp [step]
  | noise d => simp [step]
  | _ => exact absurd trivial h

theorem step_original_frame (s : State K) (op : Op K) (hx : ∀ lo hi, op ≠ .normX lo hi)
    (hy : ∀ lo hi, op ≠ .normY lo hi) :
    (step s op).state.ox = s.ox ∧ (step s op).state.oy = s.oy := by
  cases op with
  | normX lo hi => exact absurd rfl (hx lo hi)
  | normY lo hi => exact absurd rfl (hy lo hi)
  | appendOne p => split_step
  | truncV l r lr rr => split_step
  | truncI a b => split_step
  | recreate st pw n aL aR bL bR => split_step
  | recreateExt n ys => split_step
  | integralMatch pw fpx fpi st tg rf => split_step
  | interpN n m ext => split_step
  | interpX g m ext => split_step
  | _ => simp [step]

theorem step_caller (s : State K) (op : Op K) :
    (step s op).state.callerX = s.callerX ∧ (step s op).state.callerY = s.callerY := by
  cases op with
  | appendOne p => split_step
  | truncV l r lr rr => split_step
  | truncI a b => split_step
  | recreate st pw n aL aR bL bR => split_step
  | recreateExt n ys => split_step
  | integralMatch pw fpx fpi st tg rf => split_step
  | interpN n m ext => split_step
  | interpX g m ext => split_step
  | _ => simp [step]

theorem runOps_caller (s : State K) (ops : List (Op K)) :
    (runOps s ops).state.callerX = s.callerX ∧ (runOps s ops).state.callerY = s.callerY := by
  induction ops generalizing s with
  | nil => simp [runOps]
  | cons op ops ih =>
    simp only [runOps]
    split
    · exact step_caller s op
    · obtain ⟨h1, h2⟩ := ih (step s op).state
      obtain ⟨h3, h4⟩ := step_caller s op
      exact ⟨h1.trans h3, h2.trans h4⟩

/-! ## The constructor -/

theorem init_some_ok (x y : List K) (h : x.length = y.length) :
    init (some x) y = .ok { x := x, y := y, rx := x, ry := y, ox := x, oy := y,
                            callerX := x, callerY := y } := by
  simp [init, h]

theorem init_some_eq (x y : List K) (s₀ : State K) (h : init (some x) y = .ok s₀) :
    x.length = y.length ∧
    s₀ = { x := x, y := y, rx := x, ry := y, ox := x, oy := y, callerX := x, callerY := y } := by
  by_cases hl : x.length = y.length
  · rw [init_some_ok x y hl] at h
    cases h; exact ⟨hl, rfl⟩
  · simp [init, hl] at h

theorem init_none_eq (y : List K) (s₀ : State K) (h : init none y = .ok s₀) :
    s₀ = { x := ofFn y.length (fun i => (i : K)), y := y, rx := ofFn y.length (fun i => (i : K)),
           ry := y, ox := ofFn y.length (fun i => (i : K)), oy := y, callerX := [], callerY := y } := by
  simp only [init] at h
  cases h; rfl

/-! ## No step reads the caller's arrays -/

/-- replace the caller's arrays -/
@[reducible] def setCaller (s : State K) (cx cy : List K) : State K :=
  { s with callerX := cx, callerY := cy }

/-- `step` commutes with replacing the caller's arrays: no result depends on them -/
theorem step_setCaller (s : State K) (cx cy : List K) (op : Op K) :
    step (setCaller s cx cy) op = ⟨setCaller (step s op).state cx cy, (step s op).err⟩ := by
  cases op with
  | appendOne p =>
    simp only [step, setCaller]
    rcases appendOne s.x s.y p with e | ⟨x, y⟩
    · rfl
    · simp only []
      rcases appendOne s.rx s.ry p with e | ⟨rx, ry⟩ <;> rfl
  | truncV l r lr rr =>
    simp only [step, setCaller]
    rcases truncateS s.x s.y l r lr rr with e | ⟨x, y⟩
    · rfl
    · simp only []
      rcases truncateS s.rx s.ry l r lr rr with e | ⟨rx, ry⟩ <;> rfl
  | truncI a b =>
    simp only [step, setCaller]
    by_cases h1 : a < 0
    · simp only [if_pos h1]; rfl
    · simp only [if_neg h1]
      by_cases h2 : b.getD s.x.length > s.x.length
      · simp only [if_pos h2]; rfl
      · simp only [if_neg h2]; rfl
  | recreate st pw n aL aR bL bR =>
    simp only [step, setCaller]
    by_cases h1 : n < 2
    · simp only [if_pos h1]; rfl
    · simp only [if_neg h1]
      rcases Rfa.Strategy.ofString? st with _ | st'
      · rfl
      · simp only []
        rcases Rfa.run st' pw (fnOf s.x) (fnOf s.y) s.x.length n.toNat _ with e | ⟨fx, fy⟩ <;> rfl
  | recreateExt n ys =>
    simp only [step, setCaller]
    by_cases h1 : n < 2
    · simp only [if_pos h1]; rfl
    · simp only [if_neg h1]; rfl
  | integralMatch pw fpx fpi st tg rf =>
    simp only [step, setCaller]
    rcases matchRef pw s.x s.y s.rx s.ry fpx fpi st tg rf with e | _ | z <;> rfl
  | interpN n m ext =>
    simp only [step, setCaller]
    rcases Process.interpolate s.x s.y _ m ext with e | z <;> rfl
  | interpX g m ext =>
    simp only [step, setCaller]
    by_cases h1 : g.headD 0 ≠ s.x.headD 0 ∨ g.getLastD 0 ≠ s.x.getLastD 0
    · simp only [if_pos h1]; rfl
    · simp only [if_neg h1]
      rcases Process.interpolate s.x s.y g m ext with e | z <;> rfl
  | _ => rfl

/-! ## Preservation lemmas, one per series-level operation -/

theorem pairwise_map_add (x : List K) (d : K) (h : x.Pairwise (· < ·)) :
    (x.map (· + d)).Pairwise (· < ·) := by
  rw [List.pairwise_map]
  exact h.imp (fun hab => by linarith)

theorem pairwise_map_mul (x : List K) (c : K) (hc : 0 < c) (h : x.Pairwise (· < ·)) :
    (x.map (· * c)).Pairwise (· < ·) := by
  rw [List.pairwise_map]
  exact h.imp (fun hab => mul_lt_mul_of_pos_right hab hc)

/-- `append_one_sample` on a strictly increasing series of at least two samples -/
theorem appendOne_wf (x y : List K) (p : Bool) (hx : x.Pairwise (· < ·)) (hl : 2 ≤ x.length)
    (hxy : x.length = y.length) :
    ∃ x' y', appendOne x y p = .ok (x', y') ∧ x'.length = x.length + 1 ∧
      y'.length = y.length + 1 ∧ x'.Pairwise (· < ·) := by
  refine ⟨ofFn (x.length + 1) (appendOneX (fnOf x) x.length),
    ofFn (y.length + 1) (appendOneY (fnOf y) y.length p), ?_, ?_, ?_, ?_⟩
  · unfold appendOne
    rw [if_neg]
    intro hc
    rcases hc with hc | hc
    · omega
    · rw [List.isEmpty_iff] at hc; rw [hc, List.length_nil] at hxy; omega
  · simp
  · simp
  · rw [pairwise_ofFn_iff]
    exact C17.appendOne_strictIncr (fnOf x) x.length hl (strictIncr_fnOf x hx)

theorem normalizeS_length (a : List K) (lo hi : K) : (normalizeS a lo hi).length = a.length := by
  simp [normalizeS]

/-- normalising strictly increasing abscissae keeps them strictly increasing -/
theorem normalizeS_strictIncr (a : List K) (lo hi : K) (ha : a.Pairwise (· < ·))
    (hl : 2 ≤ a.length) (hlh : lo < hi) : (normalizeS a lo hi).Pairwise (· < ·) := by
  unfold normalizeS
  rw [pairwise_ofFn_iff]
  exact C14.normalize_strictIncr (fnOf a) a.length lo hi (strictIncr_fnOf a ha) hlh hl

/-- the denominator of `normalize` on strictly increasing abscissae is positive -/
theorem normalize_denom_pos (a : List K) (ha : a.Pairwise (· < ·)) (hl : 2 ≤ a.length) :
    0 < maxTo (fnOf a) (a.length - 1) - minTo (fnOf a) (a.length - 1) := by
  have h := strictIncr_fnOf a ha
  rw [C14.minTo_of_strictIncr _ _ h, C14.maxTo_of_strictIncr _ _ h]
  exact sub_pos.mpr (strictIncr_lt h 0 (a.length - 1) (by omega) le_rfl)

/-- … and on ordinates that are not all equal -/
theorem normalize_denom_pos_of_ne (a : List K) (i j : ℕ) (hi : i < a.length) (hj : j < a.length)
    (hne : a[i] ≠ a[j]) :
    0 < maxTo (fnOf a) (a.length - 1) - minTo (fnOf a) (a.length - 1) := by
  have := C14.minTo_lt_maxTo_of_ne (fnOf a) (a.length - 1) i j (by omega) (by omega)
    (by rw [fnOf_of_lt a i hi, fnOf_of_lt a j hj]; exact hne)
  exact sub_pos.mpr this

theorem repeatS_length (x y : List K) (r : ℕ) :
    (repeatS x y r).1.length = x.length * r ∧ (repeatS x y r).2.length = y.length * r := by
  simp [repeatS, Process.repeatLen]

theorem repeatS_wf (x y : List K) (r : ℕ) (hx : x.Pairwise (· < ·)) (hl : 2 ≤ x.length) :
    (repeatS x y r).1.Pairwise (· < ·) := by
  unfold repeatS
  simp only [Process.repeatLen]
  rw [pairwise_ofFn_iff]
  exact C12.repeat_strictIncr (fnOf x) x.length r hl (strictIncr_fnOf x hx)

/-- a contiguous part of a strictly increasing list is strictly increasing -/
theorem drop_take_pairwise (x : List K) (a n : ℕ) (hx : x.Pairwise (· < ·)) :
    ((x.drop a).take n).Pairwise (· < ·) :=
  hx.sublist (((List.take_sublist _ _).trans (List.drop_sublist _ _)))

theorem truncateS_eq (x y : List K) (l r : K) (lr rr : Bool) (a b : ℕ)
    (h : Process.truncateBounds x l r lr rr = .ok (a, b)) :
    truncateS x y l r lr rr = .ok ((x.drop a).take (b - a), (y.drop a).take (b - a)) := by
  unfold truncateS; rw [h]; rfl

theorem truncateS_ok (x y : List K) (l r : K) (lr rr : Bool) (x' y' : List K)
    (h : truncateS x y l r lr rr = .ok (x', y')) :
    ∃ a b, Process.truncateBounds x l r lr rr = .ok (a, b) ∧
      x' = (x.drop a).take (b - a) ∧ y' = (y.drop a).take (b - a) := by
  unfold truncateS at h
  cases hb : Process.truncateBounds x l r lr rr with
  | error e => rw [hb] at h; cases h
  | ok ab =>
    obtain ⟨a, b⟩ := ab
    rw [hb] at h
    simp only [bind, Except.bind, pure, Except.pure] at h
    cases h
    exact ⟨a, b, rfl, rfl, rfl⟩

theorem truncateS_sublist (x y : List K) (l r : K) (lr rr : Bool) (x' y' : List K)
    (hx : x.Pairwise (· < ·)) (h : truncateS x y l r lr rr = .ok (x', y')) :
    x'.Pairwise (· < ·) := by
  obtain ⟨a, b, _, rfl, _⟩ := truncateS_ok x y l r lr rr x' y' h
  exact drop_take_pairwise x a (b - a) hx

theorem length_drop_take (x : List K) (a n : ℕ) :
    ((x.drop a).take n).length = min n (x.length - a) := by
  simp

/-- `a[start:stop]` for in-range bounds -/
theorem pySlice_eq (a : List K) (start stop : ℤ) (h0 : 0 ≤ start) (h1 : start ≤ stop)
    (h2 : stop ≤ a.length) :
    pySlice a start stop = (a.drop start.toNat).take (stop.toNat - start.toNat) := by
  unfold pySlice
  simp only
  rw [if_neg (by omega), if_neg (by omega)]

theorem pySlice_sublist (a : List K) (start stop : ℤ) (ha : a.Pairwise (· < ·)) :
    (pySlice a start stop).Pairwise (· < ·) := by
  unfold pySlice
  exact drop_take_pairwise a _ _ ha

theorem pySlice_length (a : List K) (start stop : ℤ) (h0 : 0 ≤ start) (h1 : start ≤ stop)
    (h2 : stop ≤ a.length) : (pySlice a start stop).length = stop.toNat - start.toNat := by
  rw [pySlice_eq a start stop h0 h1 h2, length_drop_take]
  omega

/-! ### `np.linspace` -/

theorem linspaceAt_first (a b : K) (n : ℕ) (hn : 2 ≤ n) : Process.linspaceAt a b n 0 = a := by
  unfold Process.linspaceAt
  rw [if_neg (by omega)]
  simp

theorem linspaceAt_last (a b : K) (n : ℕ) (hn : 2 ≤ n) : Process.linspaceAt a b n (n - 1) = b := by
  unfold Process.linspaceAt
  rw [if_pos ⟨by omega, by omega⟩]

theorem linspaceAt_inner (a b : K) (n i : ℕ) (hi : i + 1 < n) :
    Process.linspaceAt a b n i = a + (i : K) * ((b - a) / ((n - 1 : ℕ) : K)) := by
  unfold Process.linspaceAt
  rw [if_neg (by omega)]

theorem linspace_strictIncr (a b : K) (n : ℕ) (hab : a < b) (hn : 2 ≤ n) :
    StrictIncr (n - 1) (Process.linspaceAt a b n) := by
  obtain ⟨k, rfl⟩ : ∃ k, n = k + 1 := ⟨n - 1, by omega⟩
  have hk : (0 : K) < (k : K) := by
    have : 0 < k := by omega
    exact_mod_cast this
  have hd : 0 < (b - a) / (k : K) := div_pos (sub_pos.mpr hab) hk
  intro i hi
  rw [linspaceAt_inner a b (k + 1) i (by omega)]
  simp only [Nat.add_sub_cancel] at hi ⊢
  rcases Nat.lt_or_ge (i + 1 + 1) (k + 1) with h1 | h1
  · rw [linspaceAt_inner a b (k + 1) (i + 1) h1]
    simp only [Nat.add_sub_cancel]
    push_cast
    nlinarith
  · have e : i + 1 = k + 1 - 1 := by omega
    rw [e, linspaceAt_last a b (k + 1) hn]
    have hik : (i : K) < (k : K) := by exact_mod_cast hi
    have : (i : K) * ((b - a) / (k : K)) < (k : K) * ((b - a) / (k : K)) :=
      mul_lt_mul_of_pos_right hik hd
    rw [mul_div_cancel₀ _ (ne_of_gt hk)] at this
    linarith

/-- `np.linspace(a, b, n)` for `a < b`, `2 ≤ n`: strictly increasing from `a` to `b` -/
theorem linspace_wf (a b : K) (n : ℕ) (hab : a < b) (hn : 2 ≤ n) :
    (ofFn n (Process.linspaceAt a b n)).Pairwise (· < ·) ∧
    (ofFn n (Process.linspaceAt a b n)).headD 0 = a ∧
    (ofFn n (Process.linspaceAt a b n)).getLastD 0 = b := by
  refine ⟨(pairwise_ofFn_iff _ _).mpr (linspace_strictIncr a b n hab hn), ?_, ?_⟩
  · rw [headD_eq_fnOf, fnOf_ofFn _ _ _ (by omega), linspaceAt_first a b n hn]
  · rw [getLastD_eq_fnOf, length_ofFn, fnOf_ofFn _ _ _ (by omega), linspaceAt_last a b n hn]

/-! ### recreate -/

/-- the abscissae every recreate strategy returns are strictly increasing (`C04.rfa_strictIncr`) -/
theorem recreate_wf (x : List K) (n : ℕ) (hx : x.Pairwise (· < ·)) (hl : 2 ≤ x.length) (hn : 2 ≤ n) :
    (ofFn (Rfa.outLen x.length n) (Rfa.outX (fnOf x) x.length n)).Pairwise (· < ·) ∧
    2 ≤ Rfa.outLen x.length n := by
  constructor
  · rw [pairwise_ofFn_iff]
    exact C04.rfa_strictIncr hn hl (strictIncr_fnOf x hx)
  · unfold Rfa.outLen
    have : 1 * 2 ≤ (x.length - 1) * n := Nat.mul_le_mul (by omega) hn
    omega

theorem rfa_run_ok (st : Rfa.Strategy) (pw : K → K) (x y : ℕ → K) (m n : ℕ) (w : Rfa.Windows)
    (hn : 2 ≤ n) : Rfa.run st pw x y m n w = .ok (Rfa.outX x m n, Rfa.outY st pw x y m n w) :=
  C04.rfa_accept st pw x y m n w hn

/-! ### integral matching -/

theorem loopA_size (r : Rule) (pw : K → K) (x : ℕ → K) :
    ∀ (ws : List (ℕ × ℕ × K)) (y : Array K), (loopA r pw x ws y).size = y.size := by
  intro ws
  induction ws with
  | nil => intro y; rfl
  | cons w ws ih =>
    intro y
    obtain ⟨s, e, I⟩ := w
    simp only [loopA, updWith_eq]
    rw [ih, tab_size]

/-- integral matching returns as many ordinates as it was given -/
theorem match_length (pw : K → K) (x y xref yref : List K) (fpx : Option (List K))
    (fpi : Option (List ℕ)) (st tg rf : String) (z : List K)
    (h : matchRef pw x y xref yref fpx fpi st tg rf = .ok (some z)) : z.length = y.length := by
  unfold matchRef at h
  simp only [bind, Except.bind, pure, Except.pure, throw, throwThe, MonadExceptOf.throw] at h
  generalize fixedPoints x xref fpx fpi st = q at h
  rcases q with e | fp
  · cases h
  · simp only [] at h
    generalize Rule.ofString? rf = q at h
    rcases q with _ | rr
    · cases h
    · simp only [] at h
      split at h
      · cases h; rfl
      · generalize Rule.ofString? tg = q at h
        rcases q with _ | tr
        · cases h
        · simp only [] at h
          split at h
          · cases h
            rw [Array.length_toList, loopA_size, List.size_toArray]
          · cases h

/-! ### interpolation -/

theorem interpConstant_length (x y g : List K) (left : Option K) (hx : x.Pairwise (· < ·))
    (hx0 : x ≠ []) (hg : g.Pairwise (· ≤ ·)) (hg0 : g ≠ []) :
    ∃ z, Process.interpConstant x y g left = .ok z ∧ z.length = g.length := by
  unfold Process.interpConstant
  rw [C10.findLower_spec true x g hx hg hx0 hg0]
  refine ⟨_, rfl, ?_⟩
  simp

/-- `interpolate` returns one ordinate per grid point (for `'cubic'`/`'spline'`: as many as the
external routine returned) -/
theorem interpolate_length (x y g : List K) (m : Process.Method) (ms : String) (ext : List K)
    (hm : Process.Method.ofString? ms = some m)
    (hx : x.Pairwise (· < ·)) (hx0 : x ≠ []) (hg : g.Pairwise (· < ·)) (hg0 : g ≠ [])
    (hext : m = .cubic ∨ m = .spline → ext.length = g.length) :
    ∃ z, Process.interpolate x y g ms ext = .ok z ∧ z.length = g.length := by
  unfold Process.interpolate
  rw [hm]
  cases m with
  | linear => exact ⟨_, rfl, by simp⟩
  | constant => exact interpConstant_length x y g none hx hx0 (hg.imp le_of_lt) hg0
  | cubic => exact ⟨_, rfl, hext (Or.inl rfl)⟩
  | spline => exact ⟨_, rfl, hext (Or.inr rfl)⟩

/-! ## Fixed points that are not samples of `x` -/

/-- if some value of `v` is not a sample of the strictly increasing `x`, fewer indices of `x` carry
a value of `v` than `v` has entries -/
theorem whereIsin_length_lt (x v : List K) (hx : x.Pairwise (· < ·)) (a : K) (ha : a ∈ v)
    (hax : a ∉ x) : (whereIsin x v).length < v.length := by
  have hnd : ((whereIsin x v).map (fnOf x)).Nodup := by
    apply List.Nodup.map_on
    · intro i hi j hj hij
      have hi' := whereIsin_lt x v i hi
      have hj' := whereIsin_lt x v j hj
      rw [fnOf_of_lt x i hi', fnOf_of_lt x j hj'] at hij
      exact getElem_inj_of_pairwise_lt x hx i j hi' hj' hij
    · exact (whereIsin_sorted x v).imp (fun h => ne_of_lt h)
  have hsub : (whereIsin x v).map (fnOf x) ⊆ v.erase a := by
    intro b hb
    obtain ⟨i, hi, rfl⟩ := List.mem_map.mp hb
    obtain ⟨hi', hm⟩ := (mem_whereIsin x v i).mp hi
    rw [fnOf_of_lt x i hi']
    have hne : x[i] ≠ a := fun e => hax (e ▸ List.getElem_mem hi')
    exact (List.mem_erase_of_ne hne).mpr hm
  have h1 := (List.subperm_of_subset hnd hsub).length_le
  rw [List.length_map, List.length_erase_of_mem ha] at h1
  have : 0 < v.length := List.length_pos_of_mem ha
  omega

/-- the final length check of the fixed-point preparation fails as soon as the two look-ups
succeed -/
theorem fixedPoints_not_samples_of_search (x xref v : List K) (st : String) (ri : List ℤ)
    (inRef : List K) (hx : x.Pairwise (· < ·)) (hv : v.length ≤ x.length) (a : K) (ha : a ∈ v)
    (hax : a ∉ x) (hs : Search.find "closest" true xref (uniqueK v) = .ok ri)
    (ht : takeK xref ri = .ok inRef) :
    fixedPoints x xref (some v) none st = .error .valueError := by
  have hlt := whereIsin_length_lt x (uniqueK v) hx a ((mem_uniqueK a v).mpr ha) hax
  unfold fixedPoints
  simp only [not_lt.mpr hv, hs, ht, if_false, bind, Except.bind, pure, Except.pure, throw, throwThe,
    MonadExceptOf.throw]
  rw [if_pos (ne_of_lt hlt)]

theorem dedupAdj_sublist {α : Type} [DecidableEq α] : ∀ l : List α, (dedupAdj l).Sublist l
  | [] => by simp [dedupAdj]
  | [b] => by simp [dedupAdj]
  | b :: c :: rest => by
    have ih := dedupAdj_sublist (c :: rest)
    unfold dedupAdj
    split
    · exact ih.trans (List.sublist_cons_self _ _)
    · exact ih.cons_cons b

/-- `np.unique` returns a sorted array -/
theorem uniqueK_sorted (l : List K) : (uniqueK l).Pairwise (· ≤ ·) := by
  unfold uniqueK
  apply List.Pairwise.sublist (dedupAdj_sublist _)
  have := List.pairwise_mergeSort (le := fun a b : K => decide (a ≤ b))
    (fun a b c hab hbc => by simp only [decide_eq_true_eq] at *; exact le_trans hab hbc)
    (fun a b => by simp only [Bool.or_eq_true, decide_eq_true_eq]; exact le_total a b) l
  exact this.imp (fun h => by simpa using h)

theorem takeK_ok (a : List K) : ∀ (idx : List ℤ), (∀ i ∈ idx, 0 ≤ i ∧ i.toNat < a.length) →
    ∃ r, takeK a idx = .ok r := by
  intro idx
  induction idx with
  | nil => intro _; exact ⟨[], rfl⟩
  | cons i is ih =>
    intro h
    obtain ⟨h0, h1⟩ := h i List.mem_cons_self
    obtain ⟨r, hr⟩ := ih (fun j hj => h j (List.mem_cons_of_mem _ hj))
    refine ⟨a[i.toNat] :: r, ?_⟩
    simp only [takeK, if_neg (not_lt.mpr h0), List.getElem?_eq_getElem h1, hr]
    rfl

/-- the nearest-element search and the take that follow `np.unique` succeed on a non-empty
strictly increasing reference -/
theorem closest_take_ok (xref q : List K) (hxr : xref.Pairwise (· < ·)) (hxr0 : xref ≠ [])
    (hq : q.Pairwise (· ≤ ·)) (hq0 : q ≠ []) :
    ∃ ri inRef, Search.find "closest" true xref q = .ok ri ∧ takeK xref ri = .ok inRef := by
  obtain ⟨r, hr, hlen, hspec⟩ := C10.findClosest_spec xref q hxr hq hxr0 hq0
  have hidx : ∀ i ∈ r, 0 ≤ i ∧ i.toNat < xref.length := by
    intro i hi
    obtain ⟨k, hk, rfl⟩ := List.getElem_of_mem hi
    obtain ⟨j, hj, hc⟩ := hspec k (by omega) hk
    obtain ⟨hjl, _⟩ := hc
    rw [hj]
    exact ⟨Int.natCast_nonneg j, by simpa using hjl⟩
  obtain ⟨inRef, ht⟩ := takeK_ok xref r hidx
  exact ⟨r, inRef, by rw [C10.find_closest]; exact hr, ht⟩

/-- fixed points that are not samples of `x` are rejected with `ValueError` -/
theorem fixedPoints_not_samples (x xref v : List K) (st : String) (hx : x.Pairwise (· < ·))
    (hxr : xref.Pairwise (· < ·)) (hxr0 : xref ≠ []) (hv : v.length ≤ x.length) (a : K)
    (ha : a ∈ v) (hax : a ∉ x) : fixedPoints x xref (some v) none st = .error .valueError := by
  have hq0 : uniqueK v ≠ [] := List.ne_nil_of_mem ((mem_uniqueK a v).mpr ha)
  obtain ⟨ri, inRef, hs, ht⟩ := closest_take_ok xref (uniqueK v) hxr hxr0 (uniqueK_sorted v) hq0
  exact fixedPoints_not_samples_of_search x xref v st ri inRef hx hv a ha hax hs ht

/-! ## `truncate`: the bounds in closed form -/

/-- a truncation bound as an abscissa of `x`: the ratio conversion `v * (x[-1] - x[0]) + x[0]` -/
def truncBound (x : List K) (v : K) (ratio : Bool) : K :=
  if ratio then v * (x.getLastD 0 - x.headD 0) + x.headD 0 else v

/-- for a non-inverted range on a non-empty strictly increasing series the two scans succeed and
the slice is `[lowerSpec l : higherSpec r + 1]` -/
theorem truncateBounds_eq (x : List K) (l r : K) (lr rr : Bool) (hx : x.Pairwise (· < ·))
    (hx0 : x ≠ []) (h1 : truncBound x l lr < truncBound x r rr) :
    Process.truncateBounds x l r lr rr =
      .ok ((C10.lowerSpec true x (truncBound x l lr)).toNat,
           (C10.higherSpec true x (truncBound x r rr)).toNat + 1) := by
  unfold truncBound at h1 ⊢
  unfold Process.truncateBounds
  simp only [bind, Except.bind, pure, Except.pure, if_neg (not_le.mpr h1)]
  rw [C10.findLower_spec true x [_] hx (List.pairwise_singleton _ _) hx0 (List.cons_ne_nil _ _),
    C10.findHigher_spec true x [_] hx (List.pairwise_singleton _ _) hx0 (List.cons_ne_nil _ _)]
  rfl

/-- `truncate` on a non-empty strictly increasing series fails only with `ValueError` -/
theorem truncateBounds_err (x : List K) (l r : K) (lr rr : Bool) (hx : x.Pairwise (· < ·))
    (hx0 : x ≠ []) (e : Err) (h : Process.truncateBounds x l r lr rr = .error e) :
    e = .valueError := by
  by_cases h1 : truncBound x r rr ≤ truncBound x l lr
  · rw [truncateBounds_inverted x l r lr rr h1] at h
    cases h; rfl
  · rw [truncateBounds_eq x l r lr rr hx hx0 (not_le.mp h1)] at h
    cases h

/-- the bounds `truncate` computes for a range that properly overlaps a strictly increasing series:
the slice keeps at least two samples and stays inside the series -/
theorem truncateBounds_ok (x : List K) (l r : K) (lr rr : Bool) (hx : x.Pairwise (· < ·))
    (hlen : 2 ≤ x.length) (h1 : truncBound x l lr < truncBound x r rr)
    (h2 : truncBound x l lr < x.getLastD 0) (h3 : x.headD 0 < truncBound x r rr) :
    ∃ a b, Process.truncateBounds x l r lr rr = .ok (a, b) ∧ a + 2 ≤ b ∧ b ≤ x.length := by
  have hx0 : x ≠ [] := by intro hc; rw [hc] at hlen; simp at hlen
  rw [truncateBounds_eq x l r lr rr hx hx0 h1]
  generalize truncBound x l lr = l' at h1 h2
  generalize truncBound x r rr = r' at h1 h3
  have hA : x.countP (· ≤ l') ≤ x.countP (· < r') := by
    apply List.countP_mono_left
    intro a _ ha
    simp only [decide_eq_true_eq] at ha ⊢
    exact lt_of_le_of_lt ha h1
  have hA2 : x.countP (· ≤ l') < x.length := by
    rw [lt_iff_le_and_ne]
    refine ⟨List.countP_le_length, ?_⟩
    intro hc
    rw [List.countP_eq_length] at hc
    have hm : x.getLastD 0 ∈ x := by
      rw [List.getLastD_eq_getLast?, List.getLast?_eq_getLast_of_ne_nil hx0]
      exact List.getLast_mem hx0
    have := hc _ hm
    simp only [decide_eq_true_eq] at this
    exact absurd h2 (not_lt.mpr this)
  have hB : 0 < x.countP (· < r') := by
    rw [List.countP_pos_iff]
    refine ⟨x.headD 0, ?_, by simpa using h3⟩
    obtain ⟨a, t, rfl⟩ := List.exists_cons_of_ne_nil hx0
    simp
  have hB2 : x.countP (· < r') ≤ x.length := List.countP_le_length
  refine ⟨_, _, rfl, ?_, ?_⟩
  · unfold C10.lowerSpec C10.higherSpec
    simp only [if_true]
    split_ifs <;> omega
  · unfold C10.higherSpec
    simp only [if_true]
    split_ifs <;> omega

/-- `truncate_by_value` on a state with non-empty strictly increasing working and reference
abscissae fails only with `ValueError` -/
theorem step_truncV_err (s : State K) (l r : K) (lr rr : Bool) (hx : s.x.Pairwise (· < ·))
    (hx0 : s.x ≠ []) (hrx : s.rx.Pairwise (· < ·)) (hrx0 : s.rx ≠ []) (e : Err)
    (h : (step s (.truncV l r lr rr)).err = some e) : e = .valueError := by
  simp only [step] at h
  cases h1 : Process.truncateBounds s.x l r lr rr with
  | error e1 =>
    have : truncateS s.x s.y l r lr rr = .error e1 := by unfold truncateS; rw [h1]; rfl
    rw [this] at h
    simp only [fail_err, Option.some.injEq] at h
    subst h
    exact truncateBounds_err s.x l r lr rr hx hx0 _ h1
  | ok ab =>
    obtain ⟨a, b⟩ := ab
    rw [truncateS_eq s.x s.y l r lr rr a b h1] at h
    simp only [] at h
    cases h2 : Process.truncateBounds s.rx l r lr rr with
    | error e2 =>
      have : truncateS s.rx s.ry l r lr rr = .error e2 := by unfold truncateS; rw [h2]; rfl
      rw [this] at h
      simp only [fail_err, Option.some.injEq] at h
      subst h
      exact truncateBounds_err s.rx l r lr rr hrx hrx0 _ h2
    | ok ab' =>
      obtain ⟨a', b'⟩ := ab'
      rw [truncateS_eq s.rx s.ry l r lr rr a' b' h2] at h
      simp at h

end TWV.Weaver
