import TWV.Model.Weaver
import TWV.Lemmas.Basic
import TWV.Lemmas.Match
import TWV.Properties.C04
import TWV.Properties.C10
import TWV.Properties.C12
import TWV.Properties.C14
import TWV.Properties.C17

/-!
# Helper lemmas for the `Weaver` state machine (`TWV/Model/Weaver.lean`)

Bridges between the list view of the state machine and the `ℕ → K` view of the series-level
theorems, and one preservation lemma per series-level operation.
-/

set_option linter.unusedSectionVars false

namespace TWV.Weaver

open TWV

variable {K : Type} [Field K] [LinearOrder K] [IsStrictOrderedRing K]

/-! ## `ofFn` / `fnOf` -/

@[simp] theorem length_ofFn (n : ℕ) (f : ℕ → K) : (ofFn n f).length = n := by
  simp [ofFn]

@[simp] theorem getElem_ofFn (n : ℕ) (f : ℕ → K) (i : ℕ) (h : i < (ofFn n f).length) :
    (ofFn n f)[i] = f i := by
  simp [ofFn]

theorem getElem?_ofFn (n : ℕ) (f : ℕ → K) (i : ℕ) :
    (ofFn n f)[i]? = if i < n then some (f i) else none := by
  unfold ofFn
  split
  · rename_i h; simp [h]
  · rename_i h; simp [h]

theorem fnOf_of_lt (l : List K) (i : ℕ) (h : i < l.length) : fnOf l i = l[i] := by
  unfold fnOf; simp [List.getD, h]

theorem fnOf_of_le (l : List K) (i : ℕ) (h : l.length ≤ i) : fnOf l i = 0 := by
  unfold fnOf; simp [List.getD, h]

theorem fnOf_ofFn (n : ℕ) (f : ℕ → K) (i : ℕ) (h : i < n) : fnOf (ofFn n f) i = f i := by
  rw [fnOf_of_lt _ _ (by simpa using h), getElem_ofFn]

theorem fnOf_eq_arrFn (l : List K) : fnOf l = arrFn l.toArray := by
  funext i; unfold fnOf arrFn; simp [Array.getD, List.getD]
  split <;> simp_all

theorem ofFn_congr (n : ℕ) (f g : ℕ → K) (h : ∀ i, i < n → f i = g i) : ofFn n f = ofFn n g := by
  unfold ofFn
  apply List.map_congr_left
  intro i hi
  exact h i (List.mem_range.mp hi)

theorem ofFn_fnOf (l : List K) : ofFn l.length (fnOf l) = l := by
  apply List.ext_getElem (by simp)
  intro i h1 h2
  rw [getElem_ofFn, fnOf_of_lt]

/-- a tabulated series is strictly increasing as a list iff it is as a function -/
theorem pairwise_ofFn_iff (n : ℕ) (f : ℕ → K) :
    (ofFn n f).Pairwise (· < ·) ↔ StrictIncr (n - 1) f := by
  rw [List.pairwise_iff_getElem]
  constructor
  · intro h i hi
    have := h i (i + 1) (by simp; omega) (by simp; omega) (by omega)
    simpa using this
  · intro h i j hi hj hij
    simp only [getElem_ofFn]
    simp only [length_ofFn] at hi hj
    exact strictIncr_lt h i j hij (by omega)

theorem strictIncr_fnOf (l : List K) (h : l.Pairwise (· < ·)) : StrictIncr (l.length - 1) (fnOf l) := by
  rw [fnOf_eq_arrFn]; exact strictIncr_of_pairwise l h

theorem pairwise_of_strictIncr_fnOf (l : List K) (h : StrictIncr (l.length - 1) (fnOf l)) :
    l.Pairwise (· < ·) := by
  rw [← ofFn_fnOf l, pairwise_ofFn_iff]; exact h

theorem headD_eq_fnOf (l : List K) : l.headD 0 = fnOf l 0 := by
  cases l <;> simp [fnOf]

theorem getLastD_eq_fnOf (l : List K) : l.getLastD 0 = fnOf l (l.length - 1) := by
  rcases List.eq_nil_or_concat l with rfl | ⟨l', a, rfl⟩
  · simp [fnOf]
  · simp [fnOf, List.getD]

theorem head_lt_last (l : List K) (h : l.Pairwise (· < ·)) (hl : 2 ≤ l.length) :
    l.headD 0 < l.getLastD 0 := by
  rw [headD_eq_fnOf, getLastD_eq_fnOf]
  exact strictIncr_lt (strictIncr_fnOf l h) 0 (l.length - 1) (by omega) le_rfl

/-! ## A failing step leaves the state untouched (all operations but `appendOne`) -/

@[simp] theorem ok_err (s : State K) : (ok s).err = none := rfl
@[simp] theorem ok_state (s : State K) : (ok s).state = s := rfl
@[simp] theorem fail_err (s : State K) (e : Err) : (fail s e).err = some e := rfl
@[simp] theorem fail_state (s : State K) (e : Err) : (fail s e).state = s := rfl

theorem appendOne_err (x y : List K) (p : Bool) (e : Err) (h : appendOne x y p = .error e) :
    e = .indexError := by
  unfold appendOne at h
  split at h
  · cases h; rfl
  · cases h

/-- `append_one_sample` can only fail with `IndexError` -/
theorem step_appendOne_err (s : State K) (p : Bool) (e : Err)
    (h : (step s (.appendOne p)).err = some e) : e = .indexError := by
  simp only [step] at h
  split at h
  · rename_i e' he
    simp at h; subst h; exact appendOne_err _ _ _ _ he
  · split at h
    · rename_i e' he
      simp at h; subst h; exact appendOne_err _ _ _ _ he
    · simp at h

theorem step_truncV_fail (s : State K) (l r : K) (lr rr : Bool) (e : Err)
    (h : (step s (.truncV l r lr rr)).err = some e) : (step s (.truncV l r lr rr)).state = s := by
  revert h; simp only [step]; repeat' split
  all_goals simp

theorem step_truncI_fail (s : State K) (a : ℤ) (b : Option ℤ) (e : Err)
    (h : (step s (.truncI a b)).err = some e) : (step s (.truncI a b)).state = s := by
  revert h; simp only [step]; repeat' split
  all_goals simp

theorem step_recreate_fail (s : State K) (st : String) (pw : K → K) (n : ℤ) (aL aR bL bR : List ℕ)
    (e : Err) (h : (step s (.recreate st pw n aL aR bL bR)).err = some e) :
    (step s (.recreate st pw n aL aR bL bR)).state = s := by
  revert h; simp only [step]; repeat' split
  all_goals simp

theorem step_recreateExt_fail (s : State K) (n : ℤ) (ys : List K)
    (e : Err) (h : (step s (.recreateExt n ys)).err = some e) :
    (step s (.recreateExt n ys)).state = s := by
  revert h; simp only [step]; repeat' split
  all_goals simp

theorem step_integralMatch_fail (s : State K) (pw : K → K) (fpx : Option (List K))
    (fpi : Option (List ℕ)) (st tg rf : String)
    (e : Err) (h : (step s (.integralMatch pw fpx fpi st tg rf)).err = some e) :
    (step s (.integralMatch pw fpx fpi st tg rf)).state = s := by
  revert h; simp only [step]; repeat' split
  all_goals simp

theorem step_interpN_fail (s : State K) (n : ℕ) (m : String) (ext : List K)
    (e : Err) (h : (step s (.interpN n m ext)).err = some e) :
    (step s (.interpN n m ext)).state = s := by
  revert h; simp only [step]; repeat' split
  all_goals simp

theorem step_interpX_fail (s : State K) (g : List K) (m : String) (ext : List K)
    (e : Err) (h : (step s (.interpX g m ext)).err = some e) :
    (step s (.interpX g m ext)).state = s := by
  revert h; simp only [step]; repeat' split
  all_goals simp

/-- for every operation other than `appendOne`, any error leaves the state unchanged -/
theorem step_fail_state (s : State K) (op : Op K) (hop : ∀ p, op ≠ .appendOne p) (e : Err)
    (h : (step s op).err = some e) : (step s op).state = s := by
  cases op with
  | appendOne p => exact absurd rfl (hop p)
  | truncV l r lr rr => exact step_truncV_fail s l r lr rr e h
  | truncI a b => exact step_truncI_fail s a b e h
  | recreate st pw n aL aR bL bR => exact step_recreate_fail s st pw n aL aR bL bR e h
  | recreateExt n ys => exact step_recreateExt_fail s n ys e h
  | integralMatch pw fpx fpi st tg rf => exact step_integralMatch_fail s pw fpx fpi st tg rf e h
  | interpN n m ext => exact step_interpN_fail s n m ext e h
  | interpX g m ext => exact step_interpX_fail s g m ext e h
  | _ => simp [step] at h

end TWV.Weaver
