import TWV.Model.Weaver
import TWV.Model.Interval
import TWV.Properties.C01
import TWV.Properties.C10
import TWV.Properties.C04
import TWV.Properties.C17

/-!
# Helper lemmas for the pipeline "recreate from average, then integral-match" (C02)

`gridL x n` is the abscissa list `oversample_linspace(x, n)` every recreate strategy returns.
On that grid the three sorted-array scans select, for the reference position `x[k]`, exactly the
knot `k * n`; hence the fixed points of `integral_matching_reference_stretch(xs, z, x, y)` are the
knots, the reference indices are `0, 1, …, m - 1`, and C01 applies to every original interval.
-/

set_option linter.unusedSectionVars false

open Finset

namespace TWV

variable {K : Type} [Field K] [LinearOrder K] [IsStrictOrderedRing K]

/-! ### the grid -/

/-- `oversample_linspace(x, n)` as a list (for `n ≥ 2`): length `(m - 1) * n + 1` -/
def gridL (x : List K) (n : ℕ) : List K :=
  (List.range ((x.length - 1) * n + 1)).map (oversampleLin (arrFn x.toArray) n)

/-- the knots `0, n, 2n, …, (m - 1) n` -/
def knots (m n : ℕ) : List ℕ := (List.range m).map (· * n)

@[simp] theorem gridL_length (x : List K) (n : ℕ) :
    (gridL x n).length = (x.length - 1) * n + 1 := by
  simp [gridL]

theorem gridL_getElem (x : List K) (n j : ℕ) (hj : j < (gridL x n).length) :
    (gridL x n)[j] = oversampleLin (arrFn x.toArray) n j := by
  simp [gridL]

theorem arrFn_gridL (x : List K) (n j : ℕ) (hj : j < (x.length - 1) * n + 1) :
    arrFn (gridL x n).toArray j = oversampleLin (arrFn x.toArray) n j := by
  rw [arrFn_toArray _ j (by simpa using hj), gridL_getElem]

theorem knot_lt {m n k : ℕ} (hk : k < m) : k * n < (m - 1) * n + 1 :=
  Nat.lt_succ_of_le (Nat.mul_le_mul_right n (by omega))

theorem pairwise_of_strictIncr (l : List K) (f : ℕ → K) (h : StrictIncr (l.length - 1) f)
    (hl : ∀ (i : ℕ) (hi : i < l.length), l[i] = f i) : l.Pairwise (· < ·) := by
  rw [List.pairwise_iff_getElem]
  intro i j hi hj hij
  rw [hl i hi, hl j hj]
  exact strictIncr_lt h i j hij (by omega)

/-- the grid is strictly increasing -/
theorem gridL_strictIncr (x : List K) (n : ℕ) (hx : x.Pairwise (· < ·)) (hn : 2 ≤ n)
    (hm : 1 ≤ x.length) : (gridL x n).Pairwise (· < ·) := by
  apply pairwise_of_strictIncr _ (oversampleLin (arrFn x.toArray) n)
  · rw [gridL_length, Nat.add_sub_cancel]
    exact C17.oversampleLin_strictIncr _ x.length n (strictIncr_of_pairwise x hx) hn hm
  · intro i hi; exact gridL_getElem x n i hi

/-- every `n`-th sample of the grid *is* the original abscissa -/
theorem gridL_knot (x : List K) (n k : ℕ) (hn : 2 ≤ n) (hk : k < x.length) :
    (gridL x n)[k * n]'(by rw [gridL_length]; exact knot_lt hk) = x[k] := by
  rw [gridL_getElem, C17.oversampleLin_knot _ n k hn, arrFn_toArray x k hk]

/-- a sample of the grid occurs among the originals iff it is a knot -/
theorem gridL_mem_iff (x : List K) (n j : ℕ) (hx : x.Pairwise (· < ·)) (hn : 2 ≤ n)
    (hj : j < (gridL x n).length) :
    (gridL x n)[j] ∈ x ↔ ∃ k, k < x.length ∧ j = k * n := by
  constructor
  · intro h
    obtain ⟨k, hk, he⟩ := List.getElem_of_mem h
    refine ⟨k, hk, ?_⟩
    rw [← gridL_knot x n k hn hk] at he
    exact (getElem_inj_of_pairwise_lt _ (gridL_strictIncr x n hx hn (by omega)) _ _ _ hj he).symm
  · rintro ⟨k, hk, rfl⟩
    rw [gridL_knot x n k hn hk]
    exact List.getElem_mem hk

/-! ### the three scans on the grid -/

theorem knots_length (m n : ℕ) : (knots m n).length = m := by simp [knots]

theorem knots_getElem (m n k : ℕ) (hk : k < (knots m n).length) : (knots m n)[k] = k * n := by
  simp [knots]

/-- the expected output of every scan: the knot `k * n` for the query `x[k]` -/
def knotsInt (m n : ℕ) : List ℤ := (List.range m).map (fun k => ((k * n : ℕ) : ℤ))

theorem knotsInt_eq (m n : ℕ) : knotsInt m n = (knots m n).map Int.ofNat := by
  simp [knotsInt, knots, List.map_map, Function.comp_def]

private theorem map_eq_knotsInt (x : List K) (n : ℕ) (f : K → ℤ)
    (h : ∀ (k : ℕ) (hk : k < x.length), f x[k] = ((k * n : ℕ) : ℤ)) :
    x.map f = knotsInt x.length n := by
  apply List.ext_getElem
  · simp [knotsInt]
  · intro k h1 h2
    simp only [List.length_map] at h1
    simp [knotsInt, h k h1]

section scans
variable (x : List K) (n : ℕ) (hx : x.Pairwise (· < ·)) (hn : 2 ≤ n) (hm : 1 ≤ x.length)
include hx hn hm

theorem gridL_lt_iff (i j : ℕ) (hi : i < (gridL x n).length) (hj : j < (gridL x n).length) :
    (gridL x n)[i] < (gridL x n)[j] ↔ i < j := by
  have hs := gridL_strictIncr x n hx hn hm
  constructor
  · intro h
    by_contra hc
    have := Search.getElem_le_of_le hs hi (Nat.le_of_not_lt hc)
    exact absurd h (not_lt.mpr this)
  · intro h; exact List.pairwise_iff_getElem.mp hs i j hi hj h

theorem gridL_le_iff (i j : ℕ) (hi : i < (gridL x n).length) (hj : j < (gridL x n).length) :
    (gridL x n)[i] ≤ (gridL x n)[j] ↔ i ≤ j := by
  rw [← not_lt, gridL_lt_iff x n hx hn hm j i hj hi, Nat.not_lt]

theorem gridL_ne_nil : gridL x n ≠ [] := by
  intro h
  have := gridL_length x n
  rw [h] at this
  simp at this

theorem lowerSpec_gridL (k : ℕ) (hk : k < x.length) :
    C10.lowerSpec true (gridL x n) x[k] = ((k * n : ℕ) : ℤ) := by
  have hkl : k * n < (gridL x n).length := by rw [gridL_length]; exact knot_lt hk
  have hkn := gridL_knot x n k hn hk
  obtain ⟨i, hi, he, hle, hmax⟩ :=
    (C10.lowerSpec_char true (gridL x n) (gridL_strictIncr x n hx hn hm) x[k]).1
      ⟨_, List.getElem_mem hkl, le_of_eq hkn⟩
  have h1 : k * n ≤ i := hmax (k * n) hkl (le_of_eq hkn)
  have h2 : i ≤ k * n := by
    rw [← hkn] at hle
    exact (gridL_le_iff x n hx hn hm i (k * n) hi hkl).mp hle
  rw [he, Nat.le_antisymm h2 h1]

theorem higherSpec_gridL (k : ℕ) (hk : k < x.length) :
    C10.higherSpec true (gridL x n) x[k] = ((k * n : ℕ) : ℤ) := by
  have hkl : k * n < (gridL x n).length := by rw [gridL_length]; exact knot_lt hk
  have hkn := gridL_knot x n k hn hk
  obtain ⟨i, hi, he, hle, hmin⟩ :=
    (C10.higherSpec_char true (gridL x n) (gridL_strictIncr x n hx hn hm) x[k]).1
      ⟨_, List.getElem_mem hkl, le_of_eq hkn.symm⟩
  have h1 : i ≤ k * n := hmin (k * n) hkl (le_of_eq hkn.symm)
  have h2 : k * n ≤ i := by
    rw [← hkn] at hle
    exact (gridL_le_iff x n hx hn hm (k * n) i hkl hi).mp hle
  rw [he, Nat.le_antisymm h1 h2]

theorem isClosest_gridL (k : ℕ) (hk : k < x.length) :
    C10.IsClosest (gridL x n) x[k] (k * n) := by
  have hkl : k * n < (gridL x n).length := by rw [gridL_length]; exact knot_lt hk
  have hkn := gridL_knot x n k hn hk
  refine ⟨hkl, ?_, ?_⟩
  · intro j hj
    rw [hkn, sub_self, abs_zero]
    exact abs_nonneg _
  · intro j hj
    rw [hkn, sub_self, abs_zero, abs_pos, sub_ne_zero, ← hkn]
    exact ne_of_lt ((gridL_lt_iff x n hx hn hm j (k * n) (by omega) hkl).mpr hj)

/-- **`lower`** on the grid: the sample selected for `x[k]` is the knot `k * n` -/
theorem search_on_grid_lower :
    Search.find "lower" true (gridL x n) x = .ok (knotsInt x.length n) := by
  rw [C10.find_lower, C10.findLower_spec true (gridL x n) x (gridL_strictIncr x n hx hn hm)
    (hx.imp le_of_lt) (gridL_ne_nil x n hx hn hm) (by rintro rfl; simp at hm),
    map_eq_knotsInt x n _ (lowerSpec_gridL x n hx hn hm)]

/-- **`higher`** on the grid -/
theorem search_on_grid_higher :
    Search.find "higher" true (gridL x n) x = .ok (knotsInt x.length n) := by
  rw [C10.find_higher, C10.findHigher_spec true (gridL x n) x (gridL_strictIncr x n hx hn hm)
    (hx.imp le_of_lt) (gridL_ne_nil x n hx hn hm) (by rintro rfl; simp at hm),
    map_eq_knotsInt x n _ (higherSpec_gridL x n hx hn hm)]

/-- **`closest`** on the grid -/
theorem search_on_grid_closest :
    Search.find "closest" true (gridL x n) x = .ok (knotsInt x.length n) := by
  obtain ⟨r, hr, hlen, hcl⟩ := C10.findClosest_spec (gridL x n) x
    (gridL_strictIncr x n hx hn hm) (hx.imp le_of_lt) (gridL_ne_nil x n hx hn hm)
    (by rintro rfl; simp at hm)
  rw [C10.find_closest, hr]
  congr 1
  apply List.ext_getElem
  · simp [knotsInt, hlen]
  · intro k h1 h2
    obtain ⟨i, hi, hic⟩ := hcl k (by omega) h1
    rw [hi, hic.unique (isClosest_gridL x n hx hn hm k (by omega))]
    simp [knotsInt]

/-- the three strategies of `find_closest_element_indices_to_values` -/
def IsStrategy (s : String) : Prop := s = "closest" ∨ s = "lower" ∨ s = "higher"

theorem search_on_grid (s : String) (hs : IsStrategy s) :
    Search.find s true (gridL x n) x = .ok (knotsInt x.length n) := by
  rcases hs with rfl | rfl | rfl
  · exact search_on_grid_closest x n hx hn hm
  · exact search_on_grid_lower x n hx hn hm
  · exact search_on_grid_higher x n hx hn hm

end scans

/-! ### the fixed points on the grid -/

theorem dedupAdj_of_pairwise_lt : ∀ (l : List K), l.Pairwise (· < ·) → dedupAdj l = l
  | [], _ => rfl
  | [_], _ => rfl
  | a :: b :: rest, h => by
    have h' := List.pairwise_cons.mp h
    have hab : a ≠ b := ne_of_lt (h'.1 b List.mem_cons_self)
    unfold dedupAdj
    rw [if_neg hab, dedupAdj_of_pairwise_lt (b :: rest) h'.2]

/-- `np.unique` of a strictly increasing array is the array -/
theorem uniqueK_of_pairwise_lt (l : List K) (h : l.Pairwise (· < ·)) : uniqueK l = l := by
  unfold uniqueK
  rw [List.mergeSort_of_pairwise (h.imp (fun hab => by simpa using le_of_lt hab)),
    dedupAdj_of_pairwise_lt l h]

theorem takeK_ofNat_ok (a : List K) : ∀ (l : List ℕ) (r : List K), r.length = l.length →
    (∀ (k : ℕ) (hk : k < l.length) (hr : k < r.length), a[l[k]]? = some r[k]) →
    takeK a (l.map Int.ofNat) = .ok r
  | [], r, hl, _ => by
    have : r = [] := List.eq_nil_of_length_eq_zero (by simpa using hl)
    subst this; rfl
  | i :: l, [], hl, _ => by simp at hl
  | i :: l, v :: r, hl, h => by
    have h0 := h 0 (by simp) (by simp)
    simp only [List.getElem_cons_zero] at h0
    have ih := takeK_ofNat_ok a l r (by simpa using hl) (fun k hk hr => by
      have := h (k + 1) (by simpa using hk) (by simpa using hr)
      simpa using this)
    have hneg : ¬ (Int.ofNat i < 0) := by simp
    have hnat : (Int.ofNat i).toNat = i := rfl
    simp only [List.map_cons, takeK, if_neg hneg, hnat, h0, ih]
    rfl

section fixed
variable (x : List K) (n : ℕ) (hx : x.Pairwise (· < ·)) (hn : 2 ≤ n) (hm : 1 ≤ x.length)
include hx hn hm

theorem takeK_gridL : takeK (gridL x n) (knotsInt x.length n) = .ok x := by
  rw [knotsInt_eq]
  apply takeK_ofNat_ok
  · rw [knots_length]
  · intro k hk hr
    rw [knots_length] at hk
    have hkl : k * n < (gridL x n).length := by rw [gridL_length]; exact knot_lt hk
    simp only [knots_getElem]
    rw [List.getElem?_eq_getElem hkl, gridL_knot x n k hn hk]

theorem whereIsin_gridL : whereIsin (gridL x n) x = knots x.length n := by
  apply List.Pairwise.eq_of_mem_iff (r := (· < ·)) (whereIsin_sorted _ _)
  · unfold knots
    rw [List.pairwise_map]
    exact List.pairwise_lt_range.imp (fun hab => Nat.mul_lt_mul_of_pos_right hab (by omega))
  · intro j
    rw [mem_whereIsin]
    constructor
    · rintro ⟨hj, hmem⟩
      obtain ⟨k, hk, rfl⟩ := (gridL_mem_iff x n j hx hn hj).mp hmem
      exact List.mem_map.mpr ⟨k, List.mem_range.mpr hk, rfl⟩
    · intro hj
      obtain ⟨k, hk, rfl⟩ := List.mem_map.mp hj
      have hk' := List.mem_range.mp hk
      have hkl : k * n < (gridL x n).length := by rw [gridL_length]; exact knot_lt hk'
      exact ⟨hkl, (gridL_mem_iff x n _ hx hn hkl).mpr ⟨k, hk', rfl⟩⟩

/-- the fixed points `integral_matching_reference_stretch` determines in its default mode on the
recreated grid: the samples are the originals, their indices the knots, the reference indices
`0 … m - 1` -/
theorem fixedPoints_on_grid (s : String) (hs : IsStrategy s) :
    fixedPoints (gridL x n) x none none s
      = .ok { inX := x, idxX := knots x.length n, idxRef := List.range x.length } := by
  have hu := uniqueK_of_pairwise_lt x hx
  have := fixedPoints_default_eq (gridL x n) x s _ x (search_on_grid x n hx hn hm s hs)
    (takeK_gridL x n hx hn hm)
    (by rw [hu, whereIsin_gridL x n hx hn hm, knots_length])
  rw [this, hu, whereIsin_gridL x n hx hn hm]

end fixed

theorem knots_pairwise (m n : ℕ) (hn : 2 ≤ n) : (knots m n).Pairwise (fun a b => a + 2 ≤ b) := by
  unfold knots
  rw [List.pairwise_map]
  refine List.pairwise_lt_range.imp (fun {a b} hab => ?_)
  have : (a + 1) * n ≤ b * n := Nat.mul_le_mul_right n hab
  rw [Nat.succ_mul] at this
  omega

/-! ### the match on the grid -/

theorem sumRange_succ_self (a : ℕ → K) (k : ℕ) : sumRange a k (k + 1) = a k := by
  rw [sumRange_eq_sum, Nat.Ico_succ_singleton, Finset.sum_singleton]

/-- C01 on the recreated grid: whatever values `z` the recreate strategy produced, matching them
against the original `(x, y)` succeeds and gives every original interval `k` the reference's
integral `integralAt rr x y k` -/
theorem matchRef_on_grid (pw : K → K) (hp : PowLike pw) (x y z : List K) (n : ℕ)
    (s target refRule : String) (tr rr : Rule)
    (hx : x.Pairwise (· < ·)) (hn : 2 ≤ n) (hm : 2 ≤ x.length)
    (hz : z.length = (x.length - 1) * n + 1) (hs : IsStrategy s)
    (htr : Rule.ofString? target = some tr) (hrr : Rule.ofString? refRule = some rr) :
    ∃ z', matchRef pw (gridL x n) z x y none none s target refRule = .ok (some z') ∧
      z'.length = (x.length - 1) * n + 1 ∧
      ∀ k, k + 1 < x.length →
        winIntegral tr (arrFn (gridL x n).toArray) (arrFn z'.toArray) (k * n) ((k + 1) * n)
          = integralAt rr (arrFn x.toArray) (arrFn y.toArray) k := by
  obtain ⟨z', h1, h2, h3⟩ := C01.matchRef_intervals pw hp (gridL x n) z x y none none s target
    refRule { inX := x, idxX := knots x.length n, idxRef := List.range x.length } tr rr
    (gridL_strictIncr x n hx hn (by omega)) (by rw [hz, gridL_length])
    (fixedPoints_on_grid x n hx hn (by omega) s hs) htr hrr
    (by simp [knots_length]) (knots_pairwise _ n hn) (by simpa [knots_length] using hm)
  refine ⟨z', h1, by rw [h2, gridL_length], ?_⟩
  intro k hk
  have := h3 k (by simpa [knots_length] using hk)
  simp only [knots_getElem, List.getElem_range] at this
  rw [this, sumRange_succ_self]

/-- the knots are fixed points: the match does not move them -/
theorem matchRef_on_grid_knots (pw : K → K) (hp : PowLike pw) (x y z z' : List K) (n : ℕ)
    (s target refRule : String) (tr rr : Rule)
    (hx : x.Pairwise (· < ·)) (hn : 2 ≤ n) (hm : 2 ≤ x.length)
    (hz : z.length = (x.length - 1) * n + 1) (hs : IsStrategy s)
    (htr : Rule.ofString? target = some tr) (hrr : Rule.ofString? refRule = some rr)
    (h : matchRef pw (gridL x n) z x y none none s target refRule = .ok (some z')) :
    ∀ k, k < x.length → arrFn z'.toArray (k * n) = arrFn z.toArray (k * n) := by
  have H : MatchHyp (gridL x n) x none none s target refRule
      { inX := x, idxX := knots x.length n, idxRef := List.range x.length } tr rr :=
    ⟨gridL_strictIncr x n hx hn (by omega), fixedPoints_on_grid x n hx hn (by omega) s hs, htr, hrr,
      by simp [knots_length], knots_pairwise _ n hn, by simpa [knots_length] using hm⟩
  obtain ⟨z'', h1, _, h3⟩ := H.result pw hp z y (by rw [hz, gridL_length])
  rw [h1] at h
  have : z'' = z' := by injection h with h; injection h
  subst this
  intro k hk
  rw [h3]
  apply H.unchanged pw hp y
  apply H.unchanged_of
  right; right
  exact List.mem_map.mpr ⟨k, List.mem_range.mpr hk, rfl⟩

/-- inside original interval `k` the grid is uniform, so the rectangle integral over the interval
is the plain sum of the `n` samples times the step `(x[k+1] - x[k]) / n` -/
theorem winIntegral_rect_block (x : List K) (n k : ℕ) (hn : 2 ≤ n) (hk : k + 1 < x.length)
    (zf : ℕ → K) :
    winIntegral .rectangle (arrFn (gridL x n).toArray) zf (k * n) ((k + 1) * n)
      = (∑ j ∈ range n, zf (k * n + j)) * ((x[k + 1] - x[k]) / (n : K)) := by
  have hlen : (k + 1) * n - k * n = n := by rw [Nat.succ_mul]; omega
  have hle : (k + 1) * n ≤ (x.length - 1) * n := Nat.mul_le_mul_right n (by omega)
  rw [C01.winIntegral_eq, Finset.sum_Ico_eq_sum_range, hlen, Finset.sum_mul]
  apply Finset.sum_congr rfl
  intro j hj
  have hj' : j < n := Finset.mem_range.mp hj
  rw [Nat.succ_mul] at hle
  simp only [integralAt]
  rw [arrFn_gridL x n (k * n + j + 1) (by omega), arrFn_gridL x n (k * n + j) (by omega),
    oversampleLin_succ_sub _ k hn hj', arrFn_toArray x (k + 1) hk, arrFn_toArray x k (by omega)]

/-- block averaging: if the `n` samples of interval `k` carry the rectangle integral `c * (x[k+1] -
x[k])`, their plain mean is `c` (the step `(x[k+1] - x[k]) / n` is not zero) -/
theorem averageY_of_block (x : List K) (n k : ℕ) (hx : x.Pairwise (· < ·)) (hn : 2 ≤ n)
    (hk : k + 1 < x.length) (zf : ℕ → K) (c : K)
    (h : winIntegral .rectangle (arrFn (gridL x n).toArray) zf (k * n) ((k + 1) * n)
      = c * (x[k + 1] - x[k])) :
    Interval.averageY zf ((x.length - 1) * n + 1) n k = c := by
  have hn0 : (n : K) ≠ 0 := natCast_ne_zero_of_two_le hn
  have hd : x[k + 1] - x[k] ≠ 0 :=
    ne_of_gt (sub_pos.mpr (List.pairwise_iff_getElem.mp hx k (k + 1) (by omega) hk (by omega)))
  have hle : (k + 1) * n ≤ (x.length - 1) * n := Nat.mul_le_mul_right n (by omega)
  have hc : Interval.rowCount ((x.length - 1) * n + 1) n k = n :=
    C17.Interval.rowCount_full _ n k (by omega)
  rw [winIntegral_rect_block x n k hn hk zf] at h
  unfold Interval.averageY
  rw [hc, sumTo_eq_sum]
  simp only [win_apply]
  field_simp
  field_simp at h
  linarith

/-! ### `append_one_sample` -/

theorem fnOf_eq_arrFn (l : List K) : Weaver.fnOf l = arrFn l.toArray := by
  funext i
  simp [Weaver.fnOf, arrFn]

@[simp] theorem ofFn_length (n : ℕ) (f : ℕ → K) : (Weaver.ofFn n f).length = n := by
  simp [Weaver.ofFn]

theorem ofFn_getElem (n : ℕ) (f : ℕ → K) (i : ℕ) (hi : i < (Weaver.ofFn n f).length) :
    (Weaver.ofFn n f)[i] = f i := by
  simp [Weaver.ofFn]

/-- `append_one_sample` succeeds on a series with at least two samples, adds one sample to each
array and keeps the abscissae strictly increasing -/
theorem appendOne_ok (x y : List K) (p : Bool) (hx : x.Pairwise (· < ·)) (hm : 2 ≤ x.length)
    (hy : y.length = x.length) :
    ∃ x' y', Weaver.appendOne x y p = .ok (x', y') ∧ x'.length = x.length + 1 ∧
      y'.length = x.length + 1 ∧ x'.Pairwise (· < ·) ∧
      (∀ (i : ℕ) (hi : i < x.length), x'[i]? = some x[i]) ∧
      (∀ (i : ℕ) (hi : i < y.length), y'[i]? = some y[i]) := by
  have hne : ¬ (x.length < 2 ∨ y.isEmpty = true) := by
    rw [List.isEmpty_iff]
    rintro (h | rfl)
    · omega
    · simp at hy; omega
  refine ⟨_, _, by rw [Weaver.appendOne, if_neg hne], by simp, by simp [hy], ?_, ?_, ?_⟩
  · apply pairwise_of_strictIncr _ (appendOneX (Weaver.fnOf x) x.length)
    · rw [ofFn_length, Nat.add_sub_cancel, fnOf_eq_arrFn]
      exact C17.appendOne_strictIncr _ x.length hm (strictIncr_of_pairwise x hx)
    · intro i hi; exact ofFn_getElem _ _ i hi
  · intro i hi
    rw [List.getElem?_eq_getElem (by simp; omega), ofFn_getElem,
      C17.appendOneX_old _ _ i hi, fnOf_eq_arrFn, arrFn_toArray x i hi]
  · intro i hi
    rw [List.getElem?_eq_getElem (by simp; omega), ofFn_getElem,
      C17.appendOneY_old _ _ i p hi, fnOf_eq_arrFn, arrFn_toArray y i hi]

/-! ### the `Weaver` steps -/

/-- the abscissae every recreate strategy returns are the oversampled grid -/
theorem ofFn_outX_eq_gridL (x : List K) (n : ℕ) (hn : 2 ≤ n) (hm : 2 ≤ x.length) :
    Weaver.ofFn (Rfa.outLen x.length n) (Rfa.outX (Weaver.fnOf x) x.length n) = gridL x n := by
  unfold Weaver.ofFn gridL
  rw [C04.rfa_length]
  apply List.map_congr_left
  intro j hj
  rw [fnOf_eq_arrFn]
  exact C04.rfa_grid_eq_oversample _ hn hm (by rw [C04.rfa_length]; exact List.mem_range.mp hj)

/-- `recreate_from_average` with one of the five window strategies: the working series becomes
the grid together with *some* values of the grid's length; the reference is not touched -/
theorem step_recreate (s : Weaver.State K) (st : String) (stt : Rfa.Strategy)
    (hst : Rfa.Strategy.ofString? st = some stt) (pw' : K → K) (n : ℤ) (hn : 2 ≤ n)
    (aL aR bL bR : List ℕ) (hm : 2 ≤ s.x.length) :
    ∃ z : List K, z.length = (s.x.length - 1) * n.toNat + 1 ∧
      Weaver.step s (.recreate st pw' n aL aR bL bR)
        = Weaver.ok { s with x := gridL s.x n.toNat, y := z } := by
  have hn' : 2 ≤ n.toNat := by omega
  refine ⟨Weaver.ofFn (Rfa.outLen s.x.length n.toNat) (Rfa.outY stt pw' (Weaver.fnOf s.x)
    (Weaver.fnOf s.y) s.x.length n.toNat
    { aL := fun k => aL.getD k 0, aR := fun k => aR.getD k 0,
      bL := fun k => bL.getD k 0, bR := fun k => bR.getD k 0 }), by simp [C04.rfa_length], ?_⟩
  rw [← ofFn_outX_eq_gridL s.x n.toNat hn' hm]
  simp only [Weaver.step, if_neg (not_lt.mpr hn), hst, Rfa.run, if_neg (not_lt.mpr hn')]

/-- `recreate_from_average` with an external sampling function (cubic spline, user function) -/
theorem step_recreateExt (s : Weaver.State K) (n : ℤ) (hn : 2 ≤ n) (ys : List K)
    (hm : 2 ≤ s.x.length) :
    Weaver.step s (.recreateExt n ys) = Weaver.ok { s with x := gridL s.x n.toNat, y := ys } := by
  have hn' : 2 ≤ n.toNat := by omega
  rw [← ofFn_outX_eq_gridL s.x n.toNat hn' hm]
  simp only [Weaver.step, if_neg (not_lt.mpr hn)]

theorem step_integralMatch (s : Weaver.State K) (pw : K → K) (fpx : Option (List K))
    (fpi : Option (List ℕ)) (strategy target refRule : String) (z' : List K)
    (h : matchRef pw s.x s.y s.rx s.ry fpx fpi strategy target refRule = .ok (some z')) :
    Weaver.step s (.integralMatch pw fpx fpi strategy target refRule)
      = Weaver.ok { s with y := z' } := by
  simp only [Weaver.step, h]

end TWV
