import TWV.Lemmas.PowLike
import Mathlib.Analysis.SpecialFunctions.Pow.Real

/-! # Every real exponent `α > 0` is `PowLike` -/

namespace TWV

theorem powLike_rpow (α : ℝ) (hα : 0 < α) : PowLike (fun t : ℝ => t ^ α) := by
  refine ⟨by simp [Real.zero_rpow hα.ne'], by simp, ?_, ?_⟩
  · intro s t hs hst _
    exact Real.rpow_le_rpow hs hst hα.le
  · intro t h0 h1
    exact Real.rpow_lt_one h0 h1 hα

end TWV
