import TWV.Model.Cache
import Mathlib.Logic.Function.Basic
import Mathlib.Tactic.Cases

/-!
# Lemmas about the protocol model of the remote-dataset cache (`TWV/Model/Cache.lean`)

* world algebra (`setPC`, `writeEntry`) and one `step_…` equation per program counter,
* frame lemmas (what a step of `p` can change),
* the invariant `CacheInv` and its preservation (`inv_step`, `inv_crash`, `cache_inv_reachable`),
* the solo runner `runSolo`: unfolding equations, the retry loop, the straight-line tail after a
  download, cache hits, locality (`runSolo_frame`, `runSolo_congr`).
-/

set_option linter.unusedSectionVars false
set_option linter.unusedVariables false

namespace TWV
namespace Cache

/-! ## World algebra -/

/-- the cache write of `os.rename`: slot `s` now holds the complete pickle of `x` -/
def writeEntry (w : World) (s : Nat) (x : Data) : World :=
  { w with entry := fun s' => if s' = s then some x else w.entry s' }

@[simp] theorem setPC_entry (w : World) (p : Nat) (q : PC) : (setPC w p q).entry = w.entry := rfl
@[simp] theorem setPC_ds (w : World) (p : Nat) (q : PC) : (setPC w p q).ds = w.ds := rfl
@[simp] theorem setPC_pc_self (w : World) (p : Nat) (q : PC) : (setPC w p q).pc p = q := by
  simp [setPC]
theorem setPC_pc_other (w : World) {p r : Nat} (q : PC) (h : r ≠ p) :
    (setPC w p q).pc r = w.pc r := by
  simp [setPC, h]
theorem setPC_pc (w : World) (p r : Nat) (q : PC) :
    (setPC w p q).pc r = if r = p then q else w.pc r := rfl

@[simp] theorem setPC_setPC (w : World) (p : Nat) (a b : PC) :
    setPC (setPC w p a) p b = setPC w p b := by
  unfold setPC
  congr 1
  funext r
  by_cases h : r = p <;> simp [h]

theorem setPC_eq_self (w : World) (p : Nat) (q : PC) (h : w.pc p = q) : setPC w p q = w := by
  cases w with
  | mk e d pc =>
    unfold setPC
    congr 1
    funext r
    by_cases hr : r = p
    · subst hr; simpa using h.symm
    · simp [hr]

@[simp] theorem writeEntry_ds (w : World) (s : Nat) (x : Data) : (writeEntry w s x).ds = w.ds := rfl
@[simp] theorem writeEntry_pc (w : World) (s : Nat) (x : Data) : (writeEntry w s x).pc = w.pc := rfl
theorem writeEntry_entry (w : World) (s s' : Nat) (x : Data) :
    (writeEntry w s x).entry s' = if s' = s then some x else w.entry s' := rfl
@[simp] theorem writeEntry_entry_self (w : World) (s : Nat) (x : Data) :
    (writeEntry w s x).entry s = some x := by simp [writeEntry]
theorem writeEntry_entry_other (w : World) {s s' : Nat} (x : Data) (h : s' ≠ s) :
    (writeEntry w s x).entry s' = w.entry s' := by simp [writeEntry, h]
@[simp] theorem writeEntry_setPC (w : World) (p : Nat) (q : PC) (s : Nat) (x : Data) :
    writeEntry (setPC w p q) s x = setPC (writeEntry w s x) p q := rfl

/-! ## One equation per program counter -/

section StepEqs
variable (c : Cfg) (w : World) (p : Nat) (net : Net)

theorem step_init_fetch {dl even : Bool} {r : Nat} (h : w.pc p = .init dl even r)
    (hc : ((dl && !(w.entry (c.slotOf (w.ds p))).isSome)
      || (dl && even && (w.entry (c.slotOf (w.ds p))).isSome)) = true) :
    step c w p net = setPC w p (.fetching r) := by
  unfold step; simp only [h]; rw [if_pos hc]

theorem step_init_missing {dl even : Bool} {r : Nat} (h : w.pc p = .init dl even r)
    (hc : ((dl && !(w.entry (c.slotOf (w.ds p))).isSome)
      || (dl && even && (w.entry (c.slotOf (w.ds p))).isSome)) = false)
    (hm : (!(w.entry (c.slotOf (w.ds p))).isSome && !dl) = true) :
    step c w p net = setPC w p (.failed .osError) := by
  unfold step; simp only [h]; rw [if_neg (Bool.eq_false_iff.mp hc), if_pos hm]

theorem step_init_read {dl even : Bool} {r : Nat} (h : w.pc p = .init dl even r)
    (hc : ((dl && !(w.entry (c.slotOf (w.ds p))).isSome)
      || (dl && even && (w.entry (c.slotOf (w.ds p))).isSome)) = false)
    (hm : (!(w.entry (c.slotOf (w.ds p))).isSome && !dl) = false) :
    step c w p net = setPC w p .readCache := by
  unfold step; simp only [h]; rw [if_neg (Bool.eq_false_iff.mp hc), if_neg (Bool.eq_false_iff.mp hm)]

theorem step_fetching_payload {left : Nat} {b : Bytes} (h : w.pc p = .fetching left) :
    step c w p (.payload b) = setPC w p (.fetched b) := by
  unfold step; simp only [h]

theorem step_fetching_other {left : Nat} (h : w.pc p = .fetching left) :
    step c w p .other = setPC w p (.failed .typeError) := by
  unfold step; simp only [h]

theorem step_fetching_urlError {left : Nat} (h : w.pc p = .fetching left) :
    step c w p .urlError
      = if left = 0 then setPC w p (.failed .urlError) else setPC w p (.fetching (left - 1)) := by
  unfold step; simp only [h]

theorem step_fetching_timeout {left : Nat} (h : w.pc p = .fetching left) :
    step c w p .timeout
      = if left = 0 then setPC w p (.failed .timeoutError) else setPC w p (.fetching (left - 1)) := by
  unfold step; simp only [h]

theorem step_fetched {b : Bytes} (h : w.pc p = .fetched b) :
    step c w p net
      = if b = c.good (w.ds p) then setPC w p (.verified b) else setPC w p (.failed .osError) := by
  unfold step; simp only [h]

theorem step_verified {b : Bytes} (h : w.pc p = .verified b) :
    step c w p net = setPC w p (.parsed (c.parse b)) := by
  unfold step; simp only [h]

theorem step_parsed {x : Data} (h : w.pc p = .parsed x) :
    step c w p net = setPC w p (.dumping x) := by
  unfold step; simp only [h]

theorem step_dumping {x : Data} (h : w.pc p = .dumping x) :
    step c w p net = setPC w p (.dumped x) := by
  unfold step; simp only [h]

theorem step_dumped {x : Data} (h : w.pc p = .dumped x) :
    step c w p net = setPC (writeEntry w (c.slotOf (w.ds p)) x) p (.renamed x) := by
  unfold step; simp only [h]; rfl

theorem step_renamed {x : Data} (h : w.pc p = .renamed x) :
    step c w p net = setPC w p (.cleaned x) := by
  unfold step; simp only [h]

theorem step_cleaned {x : Data} (h : w.pc p = .cleaned x) :
    step c w p net = setPC w p (.done x) := by
  unfold step; simp only [h]

theorem step_readCache_some {x : Data} (h : w.pc p = .readCache)
    (he : w.entry (c.slotOf (w.ds p)) = some x) :
    step c w p net = setPC w p (.done x) := by
  unfold step; simp only [h, he]

theorem step_readCache_none (h : w.pc p = .readCache)
    (he : w.entry (c.slotOf (w.ds p)) = none) :
    step c w p net = setPC w p (.failed .osError) := by
  unfold step; simp only [h, he]

theorem step_done {x : Data} (h : w.pc p = .done x) : step c w p net = w := by
  unfold step; simp only [h]

theorem step_failed {e : Err} (h : w.pc p = .failed e) : step c w p net = w := by
  unfold step; simp only [h]

theorem step_crashed (h : w.pc p = .crashed) : step c w p net = w := by
  unfold step; simp only [h]

/-- shape of a step: either only `pc p` changes, or it is the rename -/
theorem step_shape :
    (∃ q, step c w p net = setPC w p q) ∨
    (∃ x, w.pc p = .dumped x ∧
      step c w p net = setPC (writeEntry w (c.slotOf (w.ds p)) x) p (.renamed x)) := by
  cases h : w.pc p with
  | init dl even r =>
    left
    cases hc : ((dl && !(w.entry (c.slotOf (w.ds p))).isSome)
      || (dl && even && (w.entry (c.slotOf (w.ds p))).isSome))
    · cases hm : (!(w.entry (c.slotOf (w.ds p))).isSome && !dl)
      · exact ⟨_, step_init_read c w p net h hc hm⟩
      · exact ⟨_, step_init_missing c w p net h hc hm⟩
    · exact ⟨_, step_init_fetch c w p net h hc⟩
  | fetching left =>
    left
    cases net with
    | payload b => exact ⟨_, step_fetching_payload c w p h⟩
    | other => exact ⟨_, step_fetching_other c w p h⟩
    | urlError =>
      rw [step_fetching_urlError c w p h]; split <;> exact ⟨_, rfl⟩
    | timeout =>
      rw [step_fetching_timeout c w p h]; split <;> exact ⟨_, rfl⟩
  | fetched b => left; rw [step_fetched c w p net h]; split <;> exact ⟨_, rfl⟩
  | verified b => exact .inl ⟨_, step_verified c w p net h⟩
  | parsed x => exact .inl ⟨_, step_parsed c w p net h⟩
  | dumping x => exact .inl ⟨_, step_dumping c w p net h⟩
  | dumped x => exact .inr ⟨x, rfl, step_dumped c w p net h⟩
  | renamed x => exact .inl ⟨_, step_renamed c w p net h⟩
  | cleaned x => exact .inl ⟨_, step_cleaned c w p net h⟩
  | readCache =>
    left
    cases he : w.entry (c.slotOf (w.ds p)) with
    | none => exact ⟨_, step_readCache_none c w p net h he⟩
    | some x => exact ⟨_, step_readCache_some c w p net h he⟩
  | done x => exact .inl ⟨.done x, by rw [step_done c w p net h, setPC_eq_self w p _ h]⟩
  | failed e => exact .inl ⟨.failed e, by rw [step_failed c w p net h, setPC_eq_self w p _ h]⟩
  | crashed => exact .inl ⟨.crashed, by rw [step_crashed c w p net h, setPC_eq_self w p _ h]⟩

end StepEqs

/-! ## Frame lemmas -/

section Frame
variable (c : Cfg) (w : World) (p : Nat) (net : Net)

@[simp] theorem step_ds : (step c w p net).ds = w.ds := by
  rcases step_shape c w p net with ⟨q, h⟩ | ⟨x, _, h⟩ <;> rw [h] <;> rfl

theorem step_pc_other {r : Nat} (hr : r ≠ p) : (step c w p net).pc r = w.pc r := by
  rcases step_shape c w p net with ⟨q, h⟩ | ⟨x, _, h⟩ <;> rw [h, setPC_pc_other _ _ hr]
  rfl

/-- "complete copy" is built into the model: the cache changes only at the rename of a complete
pickle (`dumped`); a partial pickle (`dumping`) lives in the temporary directory only -/
theorem entry_changes_only_at_rename (h : (step c w p net).entry ≠ w.entry) :
    ∃ x, w.pc p = .dumped x := by
  rcases step_shape c w p net with ⟨q, hq⟩ | ⟨x, hx, _⟩
  · exact absurd (by rw [hq]; rfl) h
  · exact ⟨x, hx⟩

/-- a step of `p` writes at most the slot of `p`'s own dataset -/
theorem step_entry_other {s : Nat} (hs : s ≠ c.slotOf (w.ds p)) :
    (step c w p net).entry s = w.entry s := by
  rcases step_shape c w p net with ⟨q, h⟩ | ⟨x, _, h⟩ <;> rw [h]
  · rfl
  · rw [setPC_entry, writeEntry_entry_other _ _ hs]

/-- entries are only ever written, never removed -/
theorem step_entry_mono {s : Nat} (hs : (w.entry s).isSome) : ((step c w p net).entry s).isSome := by
  rcases step_shape c w p net with ⟨q, h⟩ | ⟨x, _, h⟩ <;> rw [h]
  · exact hs
  · rw [setPC_entry, writeEntry_entry]; split
    · rfl
    · exact hs

theorem entry_mono (e : Event) {s : Nat} (hs : (w.entry s).isSome) :
    ((apply c w e).entry s).isSome := by
  cases e with
  | run p net => exact step_entry_mono c w p net hs
  | kill p => exact hs

@[simp] theorem crash_entry : (crash w p).entry = w.entry := rfl
@[simp] theorem crash_ds : (crash w p).ds = w.ds := rfl

@[simp] theorem apply_ds (e : Event) : (apply c w e).ds = w.ds := by
  cases e with
  | run p net => exact step_ds c w p net
  | kill p => rfl

@[simp] theorem runEvents_nil : runEvents c w [] = w := rfl
@[simp] theorem runEvents_cons (e : Event) (es : List Event) :
    runEvents c w (e :: es) = runEvents c (apply c w e) es := rfl

theorem runEvents_append (es₁ es₂ : List Event) :
    runEvents c w (es₁ ++ es₂) = runEvents c (runEvents c w es₁) es₂ := by
  simp [runEvents, List.foldl_append]

@[simp] theorem runEvents_ds (es : List Event) : (runEvents c w es).ds = w.ds := by
  induction es generalizing w with
  | nil => rfl
  | cons e es ih => rw [runEvents_cons, ih, apply_ds]

theorem runEvents_entry_mono (es : List Event) {s : Nat} (hs : (w.entry s).isSome) :
    ((runEvents c w es).entry s).isSome := by
  induction es generalizing w with
  | nil => exact hs
  | cons e es ih => rw [runEvents_cons]; exact ih _ (entry_mono c w e hs)

end Frame

/-! ## The invariant -/

/-- what the program counter of a loader of dataset `d` may hold -/
def pcOkAt (c : Cfg) (entry : Nat → Option Data) (d : Nat) : PC → Prop
  | .verified b => b = c.good d
  | .parsed x | .dumping x | .dumped x | .renamed x | .cleaned x | .done x =>
      x = c.parse (c.good d)
  | .readCache => (entry (c.slotOf d)).isSome
  | _ => True

/-- by cases on `w.pc p` with `d := w.ds p` -/
def pcOk (c : Cfg) (w : World) (p : Nat) : Prop := pcOkAt c w.entry (w.ds p) (w.pc p)

/-- every cache entry is absent or the complete pickle of the verified data of a dataset that owns
the slot; every loader only holds verified data -/
def CacheInv (c : Cfg) (w : World) : Prop :=
  (∀ s, w.entry s = none ∨ ∃ d, c.slotOf d = s ∧ w.entry s = some (c.parse (c.good d))) ∧
  ∀ p, pcOk c w p

/-- a fresh world: empty cache, nobody has started -/
def Init (w : World) : Prop :=
  (∀ s, w.entry s = none) ∧ ∀ p, ∃ dl even r, w.pc p = .init dl even r

section Inv
variable (c : Cfg)

theorem pcOkAt_mono {e e' : Nat → Option Data} (d : Nat) (q : PC)
    (hm : ∀ s, (e s).isSome → (e' s).isSome) (h : pcOkAt c e d q) : pcOkAt c e' d q := by
  cases q <;> simp_all [pcOkAt]

theorem inv_init {w : World} (h : Init w) : CacheInv c w := by
  refine ⟨fun s => .inl (h.1 s), fun p => ?_⟩
  obtain ⟨dl, even, r, hp⟩ := h.2 p
  simp [pcOk, hp, pcOkAt]

theorem inv_setPC {w : World} {p : Nat} {q : PC} (h : CacheInv c w)
    (hq : pcOkAt c w.entry (w.ds p) q) : CacheInv c (setPC w p q) := by
  refine ⟨h.1, fun r => ?_⟩
  by_cases hr : r = p
  · subst hr; simpa [pcOk] using hq
  · simpa [pcOk, setPC_pc_other _ _ hr] using h.2 r

/-- with distinct slots for distinct datasets, the slot of `d` can only hold `d`'s verified data -/
theorem inv_owner (hinj : Function.Injective c.slotOf) {w : World} (h : CacheInv c w) {d : Nat}
    {x : Data} (hx : w.entry (c.slotOf d) = some x) : x = c.parse (c.good d) := by
  rcases h.1 (c.slotOf d) with hn | ⟨d', hd', he⟩
  · rw [hn] at hx; cases hx
  · rw [hinj hd'] at he; rw [he] at hx; exact (Option.some.inj hx).symm

theorem inv_step (hinj : Function.Injective c.slotOf) (w : World) (p : Nat) (net : Net)
    (h : CacheInv c w) : CacheInv c (step c w p net) := by
  have hpp : pcOkAt c w.entry (w.ds p) (w.pc p) := h.2 p
  cases hpc : w.pc p with
  | init dl even r =>
    cases hc : ((dl && !(w.entry (c.slotOf (w.ds p))).isSome)
      || (dl && even && (w.entry (c.slotOf (w.ds p))).isSome))
    · cases hm : (!(w.entry (c.slotOf (w.ds p))).isSome && !dl)
      · rw [step_init_read c w p net hpc hc hm]
        apply inv_setPC c h
        cases hE : w.entry (c.slotOf (w.ds p)) <;> simp_all [pcOkAt]
      · rw [step_init_missing c w p net hpc hc hm]; exact inv_setPC c h trivial
    · rw [step_init_fetch c w p net hpc hc]; exact inv_setPC c h trivial
  | fetching left =>
    cases net with
    | payload b => rw [step_fetching_payload c w p hpc]; exact inv_setPC c h trivial
    | other => rw [step_fetching_other c w p hpc]; exact inv_setPC c h trivial
    | urlError => rw [step_fetching_urlError c w p hpc]; split <;> exact inv_setPC c h trivial
    | timeout => rw [step_fetching_timeout c w p hpc]; split <;> exact inv_setPC c h trivial
  | fetched b =>
    rw [step_fetched c w p net hpc]; split
    · rename_i hb; exact inv_setPC c h hb
    · exact inv_setPC c h trivial
  | verified b =>
    rw [hpc] at hpp
    rw [step_verified c w p net hpc]
    exact inv_setPC c h (by simp only [pcOkAt] at hpp ⊢; rw [hpp])
  | parsed x => rw [hpc] at hpp; rw [step_parsed c w p net hpc]; exact inv_setPC c h hpp
  | dumping x => rw [hpc] at hpp; rw [step_dumping c w p net hpc]; exact inv_setPC c h hpp
  | dumped x =>
    rw [hpc] at hpp
    have hx : x = c.parse (c.good (w.ds p)) := hpp
    rw [step_dumped c w p net hpc]
    refine ⟨fun s => ?_, fun r => ?_⟩
    · rw [setPC_entry, writeEntry_entry]
      split
      · rename_i hs; exact .inr ⟨w.ds p, hs.symm, by rw [hx]⟩
      · exact h.1 s
    · have hmono : pcOkAt c (writeEntry w (c.slotOf (w.ds p)) x).entry (w.ds r) (w.pc r) := by
        refine pcOkAt_mono c _ _ (fun s hs => ?_) (h.2 r)
        rw [writeEntry_entry]; split
        · rfl
        · exact hs
      by_cases hr : r = p
      · subst hr; simpa [pcOk, pcOkAt] using hx
      · simpa [pcOk, setPC_pc_other _ _ hr] using hmono
  | renamed x => rw [hpc] at hpp; rw [step_renamed c w p net hpc]; exact inv_setPC c h hpp
  | cleaned x => rw [hpc] at hpp; rw [step_cleaned c w p net hpc]; exact inv_setPC c h hpp
  | readCache =>
    cases hE : w.entry (c.slotOf (w.ds p)) with
    | none => rw [step_readCache_none c w p net hpc hE]; exact inv_setPC c h trivial
    | some x =>
      rw [step_readCache_some c w p net hpc hE]
      exact inv_setPC c h (inv_owner c hinj h hE)
  | done x => rw [step_done c w p net hpc]; exact h
  | failed e => rw [step_failed c w p net hpc]; exact h
  | crashed => rw [step_crashed c w p net hpc]; exact h

theorem inv_crash (w : World) (p : Nat) (h : CacheInv c w) : CacheInv c (crash w p) :=
  inv_setPC c h trivial

theorem inv_apply (hinj : Function.Injective c.slotOf) (w : World) (e : Event)
    (h : CacheInv c w) : CacheInv c (apply c w e) := by
  cases e with
  | run p net => exact inv_step c hinj w p net h
  | kill p => exact inv_crash c w p h

/-- any number of loaders, any interleaving, any network answers, any kill points -/
theorem cache_inv_reachable (hinj : Function.Injective c.slotOf) (w : World) (es : List Event)
    (h : CacheInv c w) : CacheInv c (runEvents c w es) := by
  induction es generalizing w with
  | nil => exact h
  | cons e es ih => rw [runEvents_cons]; exact ih _ (inv_apply c hinj w e h)

/-! ### The part of the invariant that does not need distinct slots -/

/-- before the rename a loader only holds verified data -/
def pcPre (c : Cfg) (d : Nat) : PC → Prop
  | .verified b => b = c.good d
  | .parsed x | .dumping x | .dumped x => x = c.parse (c.good d)
  | _ => True

/-- every entry is the verified data of SOME dataset owning the slot (also with shared slots) -/
def WeakInv (c : Cfg) (w : World) : Prop :=
  (∀ s, w.entry s = none ∨ ∃ d, c.slotOf d = s ∧ w.entry s = some (c.parse (c.good d))) ∧
  ∀ p, pcPre c (w.ds p) (w.pc p)

theorem weak_init {w : World} (h : Init w) : WeakInv c w := by
  refine ⟨fun s => .inl (h.1 s), fun p => ?_⟩
  obtain ⟨dl, even, r, hp⟩ := h.2 p
  simp [hp, pcPre]

theorem weak_setPC {w : World} {p : Nat} {q : PC} (h : WeakInv c w)
    (hq : pcPre c (w.ds p) q) : WeakInv c (setPC w p q) := by
  refine ⟨h.1, fun r => ?_⟩
  by_cases hr : r = p
  · subst hr; simpa using hq
  · simpa [setPC_pc_other _ _ hr] using h.2 r

theorem weak_step (w : World) (p : Nat) (net : Net) (h : WeakInv c w) :
    WeakInv c (step c w p net) := by
  have hpp : pcPre c (w.ds p) (w.pc p) := h.2 p
  cases hpc : w.pc p with
  | init dl even r =>
    cases hc : ((dl && !(w.entry (c.slotOf (w.ds p))).isSome)
      || (dl && even && (w.entry (c.slotOf (w.ds p))).isSome))
    · cases hm : (!(w.entry (c.slotOf (w.ds p))).isSome && !dl)
      · rw [step_init_read c w p net hpc hc hm]; exact weak_setPC c h trivial
      · rw [step_init_missing c w p net hpc hc hm]; exact weak_setPC c h trivial
    · rw [step_init_fetch c w p net hpc hc]; exact weak_setPC c h trivial
  | fetching left =>
    cases net with
    | payload b => rw [step_fetching_payload c w p hpc]; exact weak_setPC c h trivial
    | other => rw [step_fetching_other c w p hpc]; exact weak_setPC c h trivial
    | urlError => rw [step_fetching_urlError c w p hpc]; split <;> exact weak_setPC c h trivial
    | timeout => rw [step_fetching_timeout c w p hpc]; split <;> exact weak_setPC c h trivial
  | fetched b =>
    rw [step_fetched c w p net hpc]; split
    · rename_i hb; exact weak_setPC c h hb
    · exact weak_setPC c h trivial
  | verified b =>
    rw [hpc] at hpp
    rw [step_verified c w p net hpc]
    exact weak_setPC c h (by simp only [pcPre] at hpp ⊢; rw [hpp])
  | parsed x => rw [hpc] at hpp; rw [step_parsed c w p net hpc]; exact weak_setPC c h hpp
  | dumping x => rw [hpc] at hpp; rw [step_dumping c w p net hpc]; exact weak_setPC c h hpp
  | dumped x =>
    rw [hpc] at hpp
    have hx : x = c.parse (c.good (w.ds p)) := hpp
    rw [step_dumped c w p net hpc]
    refine ⟨fun s => ?_, fun r => ?_⟩
    · rw [setPC_entry, writeEntry_entry]
      split
      · rename_i hs; exact .inr ⟨w.ds p, hs.symm, by rw [hx]⟩
      · exact h.1 s
    · by_cases hr : r = p
      · subst hr; simp [pcPre]
      · simpa [setPC_pc_other _ _ hr] using h.2 r
  | renamed x => rw [step_renamed c w p net hpc]; exact weak_setPC c h trivial
  | cleaned x => rw [step_cleaned c w p net hpc]; exact weak_setPC c h trivial
  | readCache =>
    cases hE : w.entry (c.slotOf (w.ds p)) with
    | none => rw [step_readCache_none c w p net hpc hE]; exact weak_setPC c h trivial
    | some x => rw [step_readCache_some c w p net hpc hE]; exact weak_setPC c h trivial
  | done x => rw [step_done c w p net hpc]; exact h
  | failed e => rw [step_failed c w p net hpc]; exact h
  | crashed => rw [step_crashed c w p net hpc]; exact h

theorem weak_reachable (w : World) (es : List Event) (h : WeakInv c w) :
    WeakInv c (runEvents c w es) := by
  induction es generalizing w with
  | nil => exact h
  | cons e es ih =>
    rw [runEvents_cons]
    apply ih
    cases e with
    | run p net => exact weak_step c w p net h
    | kill p => exact weak_setPC c h trivial

end Inv

/-! ## The solo runner -/

/-- the loader has stopped: returned, raised, or was killed -/
def PC.terminal : PC → Bool
  | .done _ | .failed _ | .crashed => true
  | _ => false

/-- the next step is a download attempt -/
def PC.isFetching : PC → Bool
  | .fetching _ => true
  | _ => false

section Solo
variable (c : Cfg)

theorem runSolo_zero (w : World) (p : Nat) (s : List Net) : runSolo c 0 w p s = (w, []) := rfl

/-- one unfolding of `runSolo` -/
theorem runSolo_succ (f : Nat) (w : World) (p : Nat) (s : List Net) :
    runSolo c (f + 1) w p s =
      if (w.pc p).terminal then (w, [])
      else if (w.pc p).isFetching then
        match s with
        | [] => (w, [])
        | a :: rest =>
          ((runSolo c f (step c w p a) p rest).1,
            (step c w p a).pc p :: (runSolo c f (step c w p a) p rest).2)
      else
        ((runSolo c f (step c w p .other) p s).1,
          (step c w p .other).pc p :: (runSolo c f (step c w p .other) p s).2) := by
  cases h : w.pc p <;> simp only [runSolo, h, PC.terminal, PC.isFetching] <;> rfl

theorem runSolo_terminal (f : Nat) {w : World} {p : Nat} (s : List Net)
    (h : (w.pc p).terminal = true) : runSolo c f w p s = (w, []) := by
  cases f with
  | zero => rfl
  | succ f => rw [runSolo_succ, if_pos h]

theorem runSolo_local {f : Nat} {w : World} {p : Nat} (s : List Net) (hf : 0 < f)
    (ht : (w.pc p).terminal = false) (hn : (w.pc p).isFetching = false) :
    runSolo c f w p s =
      ((runSolo c (f - 1) (step c w p .other) p s).1,
        (step c w p .other).pc p :: (runSolo c (f - 1) (step c w p .other) p s).2) := by
  obtain ⟨f, rfl⟩ : ∃ g, f = g + 1 := ⟨f - 1, by omega⟩
  rw [runSolo_succ, if_neg (by simp [ht]), if_neg (by simp [hn])]; rfl

theorem runSolo_fetch_cons {f : Nat} {w : World} {p left : Nat} (a : Net) (s : List Net)
    (hf : 0 < f) (h : w.pc p = .fetching left) :
    runSolo c f w p (a :: s) =
      ((runSolo c (f - 1) (step c w p a) p s).1,
        (step c w p a).pc p :: (runSolo c (f - 1) (step c w p a) p s).2) := by
  obtain ⟨f, rfl⟩ : ∃ g, f = g + 1 := ⟨f - 1, by omega⟩
  rw [runSolo_succ, if_neg (by simp [h, PC.terminal]), if_pos (by simp [h, PC.isFetching])]; rfl

theorem runSolo_fetch_nil (f : Nat) {w : World} {p left : Nat} (h : w.pc p = .fetching left) :
    runSolo c f w p [] = (w, []) := by
  cases f with
  | zero => rfl
  | succ f =>
    rw [runSolo_succ, if_neg (by simp [h, PC.terminal]), if_pos (by simp [h, PC.isFetching])]

/-! ### The straight-line tail after a download -/

/-- the world after a successful download-and-cache of `x` by `p` -/
def commit (c : Cfg) (w : World) (p : Nat) (x : Data) : World :=
  setPC (writeEntry w (c.slotOf (w.ds p)) x) p (.done x)

@[simp] theorem commit_setPC (w : World) (p : Nat) (q : PC) (x : Data) :
    commit c (setPC w p q) p x = commit c w p x := by
  simp [commit]

@[simp] theorem commit_pc_self (w : World) (p : Nat) (x : Data) : (commit c w p x).pc p = .done x := by
  simp [commit]
@[simp] theorem commit_ds (w : World) (p : Nat) (x : Data) : (commit c w p x).ds = w.ds := rfl
@[simp] theorem commit_entry_self (w : World) (p : Nat) (x : Data) :
    (commit c w p x).entry (c.slotOf (w.ds p)) = some x := by
  simp [commit]
theorem commit_entry_other (w : World) (p : Nat) (x : Data) {s : Nat}
    (hs : s ≠ c.slotOf (w.ds p)) : (commit c w p x).entry s = w.entry s := by
  simp [commit, writeEntry_entry_other _ _ hs]

variable {w : World} {p : Nat} {f : Nat} (s : List Net)

theorem solo_cleaned {x : Data} (h : w.pc p = .cleaned x) (hf : 1 ≤ f) :
    runSolo c f w p s = (setPC w p (.done x), [.done x]) := by
  rw [runSolo_local c s (by omega) (by simp [h, PC.terminal]) (by simp [h, PC.isFetching]),
    step_cleaned c w p _ h, runSolo_terminal c _ s (by simp [PC.terminal])]
  simp

theorem solo_renamed {x : Data} (h : w.pc p = .renamed x) (hf : 2 ≤ f) :
    runSolo c f w p s = (setPC w p (.done x), [.cleaned x, .done x]) := by
  rw [runSolo_local c s (by omega) (by simp [h, PC.terminal]) (by simp [h, PC.isFetching]),
    step_renamed c w p _ h, solo_cleaned c s (x := x) (by simp) (by omega)]
  simp

theorem solo_dumped {x : Data} (h : w.pc p = .dumped x) (hf : 3 ≤ f) :
    runSolo c f w p s = (commit c w p x, [.renamed x, .cleaned x, .done x]) := by
  rw [runSolo_local c s (by omega) (by simp [h, PC.terminal]) (by simp [h, PC.isFetching]),
    step_dumped c w p _ h, solo_renamed c s (x := x) (by simp) (by omega)]
  simp [commit]

theorem solo_dumping {x : Data} (h : w.pc p = .dumping x) (hf : 4 ≤ f) :
    runSolo c f w p s = (commit c w p x, [.dumped x, .renamed x, .cleaned x, .done x]) := by
  rw [runSolo_local c s (by omega) (by simp [h, PC.terminal]) (by simp [h, PC.isFetching]),
    step_dumping c w p _ h, solo_dumped c s (x := x) (by simp) (by omega)]
  simp

theorem solo_parsed {x : Data} (h : w.pc p = .parsed x) (hf : 5 ≤ f) :
    runSolo c f w p s =
      (commit c w p x, [.dumping x, .dumped x, .renamed x, .cleaned x, .done x]) := by
  rw [runSolo_local c s (by omega) (by simp [h, PC.terminal]) (by simp [h, PC.isFetching]),
    step_parsed c w p _ h, solo_dumping c s (x := x) (by simp) (by omega)]
  simp

theorem solo_verified {b : Bytes} (h : w.pc p = .verified b) (hf : 6 ≤ f) :
    runSolo c f w p s =
      (commit c w p (c.parse b),
        [.parsed (c.parse b), .dumping (c.parse b), .dumped (c.parse b), .renamed (c.parse b),
          .cleaned (c.parse b), .done (c.parse b)]) := by
  rw [runSolo_local c s (by omega) (by simp [h, PC.terminal]) (by simp [h, PC.isFetching]),
    step_verified c w p _ h, solo_parsed c s (x := c.parse b) (by simp) (by omega)]
  simp

/-- the trace after the archive `good d` has been downloaded -/
def goodTail (c : Cfg) (d : Nat) : List PC :=
  [.verified (c.good d), .parsed (c.parse (c.good d)), .dumping (c.parse (c.good d)),
    .dumped (c.parse (c.good d)), .renamed (c.parse (c.good d)), .cleaned (c.parse (c.good d)),
    .done (c.parse (c.good d))]

theorem solo_fetched_good (h : w.pc p = .fetched (c.good (w.ds p))) (hf : 7 ≤ f) :
    runSolo c f w p s = (commit c w p (c.parse (c.good (w.ds p))), goodTail c (w.ds p)) := by
  rw [runSolo_local c s (by omega) (by simp [h, PC.terminal]) (by simp [h, PC.isFetching]),
    step_fetched c w p _ h, if_pos rfl,
    solo_verified c s (b := c.good (w.ds p)) (by simp) (by omega)]
  simp [goodTail]

theorem solo_fetched_bad {b : Bytes} (h : w.pc p = .fetched b) (hb : b ≠ c.good (w.ds p))
    (hf : 1 ≤ f) :
    runSolo c f w p s = (setPC w p (.failed .osError), [.failed .osError]) := by
  rw [runSolo_local c s (by omega) (by simp [h, PC.terminal]) (by simp [h, PC.isFetching]),
    step_fetched c w p _ h, if_neg hb, runSolo_terminal c _ s (by simp [PC.terminal])]
  simp

theorem solo_readCache_some {x : Data} (h : w.pc p = .readCache)
    (he : w.entry (c.slotOf (w.ds p)) = some x) (hf : 1 ≤ f) :
    runSolo c f w p s = (setPC w p (.done x), [.done x]) := by
  rw [runSolo_local c s (by omega) (by simp [h, PC.terminal]) (by simp [h, PC.isFetching]),
    step_readCache_some c w p _ h he, runSolo_terminal c _ s (by simp [PC.terminal])]
  simp

/-! ### The first step -/

theorem solo_init_fetch {dl even : Bool} {r : Nat} (h : w.pc p = .init dl even r)
    (hc : ((dl && !(w.entry (c.slotOf (w.ds p))).isSome)
      || (dl && even && (w.entry (c.slotOf (w.ds p))).isSome)) = true) (hf : 1 ≤ f) :
    runSolo c f w p s =
      ((runSolo c (f - 1) (setPC w p (.fetching r)) p s).1,
        .fetching r :: (runSolo c (f - 1) (setPC w p (.fetching r)) p s).2) := by
  rw [runSolo_local c s (by omega) (by simp [h, PC.terminal]) (by simp [h, PC.isFetching]),
    step_init_fetch c w p _ h hc]
  simp

/-- a cache hit: two local steps, no download attempt -/
theorem solo_hit {dl : Bool} {r : Nat} {x : Data} (h : w.pc p = .init dl false r)
    (he : w.entry (c.slotOf (w.ds p)) = some x) (hf : 2 ≤ f) :
    runSolo c f w p s = (setPC w p (.done x), [.readCache, .done x]) := by
  rw [runSolo_local c s (by omega) (by simp [h, PC.terminal]) (by simp [h, PC.isFetching]),
    step_init_read c w p _ h (by simp [he]) (by simp [he]),
    solo_readCache_some c s (x := x) (by simp) (by simpa using he) (by omega)]
  simp

/-! ### The retry loop -/

/-- the two exception kinds `_fetch_remote` catches -/
def isFail : Net → Bool
  | .urlError | .timeout => true
  | _ => false

/-- the exception a network answer raises -/
def errOf : Net → Err
  | .urlError => .urlError
  | .timeout => .timeoutError
  | _ => .typeError

/-- the trace of `k` absorbed failures starting with `left` retries -/
def retryTrace : Nat → Nat → List PC
  | 0, _ => []
  | k + 1, left => .fetching (left - 1) :: retryTrace k (left - 1)

@[simp] theorem retryTrace_length (k left : Nat) : (retryTrace k left).length = k := by
  induction k generalizing left with
  | zero => rfl
  | succ k ih => simp [retryTrace, ih]

theorem retryTrace_fetching (k left : Nat) : ∀ q ∈ retryTrace k left, q.isFetching = true := by
  induction k generalizing left with
  | zero => simp [retryTrace]
  | succ k ih =>
    intro q hq
    simp only [retryTrace, List.mem_cons] at hq
    rcases hq with rfl | hq
    · rfl
    · exact ih _ q hq

theorem step_fetching_fail_pos {left : Nat} {a : Net} (h : w.pc p = .fetching left)
    (ha : isFail a = true) (hl : 0 < left) : step c w p a = setPC w p (.fetching (left - 1)) := by
  cases a with
  | urlError => rw [step_fetching_urlError c w p h, if_neg (by omega)]
  | timeout => rw [step_fetching_timeout c w p h, if_neg (by omega)]
  | other => cases ha
  | payload b => cases ha

theorem step_fetching_fail_zero {a : Net} (h : w.pc p = .fetching 0)
    (ha : isFail a = true) : step c w p a = setPC w p (.failed (errOf a)) := by
  cases a with
  | urlError => rw [step_fetching_urlError c w p h, if_pos rfl]; rfl
  | timeout => rw [step_fetching_timeout c w p h, if_pos rfl]; rfl
  | other => cases ha
  | payload b => cases ha

/-- `fs.length ≤ left` failures are absorbed: each consumes one answer and one retry -/
theorem solo_retries (fs : List Net) : ∀ (left f : Nat) (w : World),
    (∀ a ∈ fs, isFail a = true) → w.pc p = .fetching left → fs.length ≤ left → fs.length ≤ f →
    runSolo c f w p (fs ++ s) =
      ((runSolo c (f - fs.length) (setPC w p (.fetching (left - fs.length))) p s).1,
        retryTrace fs.length left
          ++ (runSolo c (f - fs.length) (setPC w p (.fetching (left - fs.length))) p s).2) := by
  induction fs with
  | nil =>
    intro left f w _ h _ _
    simp [retryTrace, setPC_eq_self w p _ h]
  | cons a fs ih =>
    intro left f w hfs h hl hf
    simp only [List.length_cons] at hl hf
    have ha : isFail a = true := hfs a (by simp)
    have hfs' : ∀ b ∈ fs, isFail b = true := fun b hb => hfs b (by simp [hb])
    rw [List.cons_append, runSolo_fetch_cons c a _ (by omega) h,
      step_fetching_fail_pos c h ha (by omega),
      ih (left - 1) (f - 1) (setPC w p (.fetching (left - 1))) hfs' (by simp) (by omega)
        (by omega)]
    have e1 : f - 1 - fs.length = f - (fs.length + 1) := by omega
    have e2 : left - 1 - fs.length = left - (fs.length + 1) := by omega
    simp [retryTrace, e1, e2]

/-! ### Complete download runs from `fetching left` -/

/-- `k ≤ left` failures, then the pinned archive: downloaded, verified, parsed, cached, returned -/
theorem solo_fetch_good {left : Nat} (fs rest : List Net) (hpc : w.pc p = .fetching left)
    (hfs : ∀ a ∈ fs, isFail a = true) (hk : fs.length ≤ left) (hf : fs.length + 8 ≤ f) :
    runSolo c f w p (fs ++ .payload (c.good (w.ds p)) :: rest) =
      (commit c w p (c.parse (c.good (w.ds p))),
        retryTrace fs.length left ++ .fetched (c.good (w.ds p)) :: goodTail c (w.ds p)) := by
  rw [solo_retries c _ fs left f w hfs hpc hk (by omega),
    runSolo_fetch_cons c _ _ (by omega) (setPC_pc_self _ _ _),
    step_fetching_payload c _ p (setPC_pc_self _ _ _),
    solo_fetched_good c rest (by simp) (by omega)]
  simp

/-- `k ≤ left` failures, then an archive with a different SHA-256: `OSError`, nothing cached -/
theorem solo_fetch_bad {left : Nat} {b : Bytes} (fs rest : List Net)
    (hpc : w.pc p = .fetching left) (hb : b ≠ c.good (w.ds p))
    (hfs : ∀ a ∈ fs, isFail a = true) (hk : fs.length ≤ left) (hf : fs.length + 2 ≤ f) :
    runSolo c f w p (fs ++ .payload b :: rest) =
      (setPC w p (.failed .osError),
        retryTrace fs.length left ++ [.fetched b, .failed .osError]) := by
  rw [solo_retries c _ fs left f w hfs hpc hk (by omega),
    runSolo_fetch_cons c _ _ (by omega) (setPC_pc_self _ _ _),
    step_fetching_payload c _ p (setPC_pc_self _ _ _),
    solo_fetched_bad c rest (b := b) (by simp) (by simpa using hb) (by omega)]
  simp

/-- `left + 1` failures: the last one is re-raised -/
theorem solo_fetch_exhausted {left : Nat} {a : Net} (fs rest : List Net)
    (hpc : w.pc p = .fetching left) (hfs : ∀ a ∈ fs, isFail a = true) (ha : isFail a = true)
    (hk : fs.length = left) (hf : left + 1 ≤ f) :
    runSolo c f w p (fs ++ a :: rest) =
      (setPC w p (.failed (errOf a)), retryTrace left left ++ [.failed (errOf a)]) := by
  subst hk
  rw [solo_retries c _ fs _ f w hfs hpc (Nat.le_refl _) (by omega),
    runSolo_fetch_cons c _ _ (by omega) (setPC_pc_self _ _ _), Nat.sub_self,
    step_fetching_fail_zero c (setPC_pc_self _ _ _) ha,
    runSolo_terminal c _ rest (by simp [PC.terminal])]
  simp

/-- an exception that is not caught propagates at once, whatever retries remain -/
theorem solo_fetch_other {left : Nat} (fs rest : List Net) (hpc : w.pc p = .fetching left)
    (hfs : ∀ a ∈ fs, isFail a = true) (hk : fs.length ≤ left) (hf : fs.length + 1 ≤ f) :
    runSolo c f w p (fs ++ .other :: rest) =
      (setPC w p (.failed .typeError), retryTrace fs.length left ++ [.failed .typeError]) := by
  rw [solo_retries c _ fs left f w hfs hpc hk (by omega),
    runSolo_fetch_cons c _ _ (by omega) (setPC_pc_self _ _ _),
    step_fetching_other c _ p (setPC_pc_self _ _ _),
    runSolo_terminal c _ rest (by simp [PC.terminal])]
  simp

/-! ### Counting download attempts -/

/-- number of download attempts of a run that started at `start`, produced `trace` and has
stopped: the number of program counters at which the next step is a download -/
def downloads (start : PC) (trace : List PC) : Nat := (start :: trace).countP PC.isFetching

theorem countP_retryTrace (k left : Nat) : (retryTrace k left).countP PC.isFetching = k := by
  rw [List.countP_eq_length.mpr (retryTrace_fetching k left), retryTrace_length]

theorem countP_goodTail (d : Nat) : (goodTail c d).countP PC.isFetching = 0 := by
  simp [goodTail, PC.isFetching]

/-- a run from `fetching left` whose trace is `k` absorbed failures followed by download-free
steps made exactly `k + 1` download attempts -/
theorem downloads_retry (k left : Nat) (t : List PC) (ht : t.countP PC.isFetching = 0) :
    downloads (.fetching left) (retryTrace k left ++ t) = k + 1 := by
  unfold downloads
  rw [List.countP_cons, List.countP_append, countP_retryTrace, ht]
  simp [PC.isFetching]

end Solo

/-! ## Locality of the solo runner -/

/-- `w₁` and `w₂` agree on everything loader `q` can read -/
def Sim (c : Cfg) (q : Nat) (w₁ w₂ : World) : Prop :=
  w₁.pc q = w₂.pc q ∧ w₁.ds q = w₂.ds q ∧
    w₁.entry (c.slotOf (w₁.ds q)) = w₂.entry (c.slotOf (w₂.ds q))

section Local
variable (c : Cfg)

/-- the transition of one loader as a function of what it can read: its dataset `d`, the cache
entry `e` of that dataset's slot, its program counter; returns the new counter and slot entry -/
def localStep (c : Cfg) (d : Nat) (e : Option Data) (pc : PC) (net : Net) : PC × Option Data :=
  match pc with
  | .init dl even r =>
      if (dl && !e.isSome) || (dl && even && e.isSome) then (.fetching r, e)
      else if !e.isSome && !dl then (.failed .osError, e)
      else (.readCache, e)
  | .fetching left =>
      match net with
      | .payload b => (.fetched b, e)
      | .urlError => if left = 0 then (.failed .urlError, e) else (.fetching (left - 1), e)
      | .timeout => if left = 0 then (.failed .timeoutError, e) else (.fetching (left - 1), e)
      | .other => (.failed .typeError, e)
  | .fetched b => if b = c.good d then (.verified b, e) else (.failed .osError, e)
  | .verified b => (.parsed (c.parse b), e)
  | .parsed x => (.dumping x, e)
  | .dumping x => (.dumped x, e)
  | .dumped x => (.renamed x, some x)
  | .renamed x => (.cleaned x, e)
  | .cleaned x => (.done x, e)
  | .readCache =>
      match e with
      | some x => (.done x, e)
      | none => (.failed .osError, e)
  | .done x => (.done x, e)
  | .failed er => (.failed er, e)
  | .crashed => (.crashed, e)

/-- a step of `p` reads and writes only `ds p`, `pc p` and the entry of `p`'s own slot -/
theorem step_local (w : World) (p : Nat) (net : Net) :
    ((step c w p net).pc p, (step c w p net).entry (c.slotOf (w.ds p)))
      = localStep c (w.ds p) (w.entry (c.slotOf (w.ds p))) (w.pc p) net := by
  cases h : w.pc p with
  | init dl even r =>
    cases hc : ((dl && !(w.entry (c.slotOf (w.ds p))).isSome)
      || (dl && even && (w.entry (c.slotOf (w.ds p))).isSome))
    · cases hm : (!(w.entry (c.slotOf (w.ds p))).isSome && !dl)
      · rw [step_init_read c w p net h hc hm]
        simp only [localStep, hc, hm, Bool.false_eq_true, ↓reduceIte, setPC_entry, setPC_pc_self]
      · rw [step_init_missing c w p net h hc hm]
        simp only [localStep, hc, hm, Bool.false_eq_true, ↓reduceIte, setPC_entry, setPC_pc_self]
    · rw [step_init_fetch c w p net h hc]
      simp only [localStep, hc, ↓reduceIte, setPC_entry, setPC_pc_self]
  | fetching left =>
    cases net with
    | payload b => rw [step_fetching_payload c w p h]; simp [localStep]
    | other => rw [step_fetching_other c w p h]; simp [localStep]
    | urlError => rw [step_fetching_urlError c w p h]; simp only [localStep]; split <;> simp
    | timeout => rw [step_fetching_timeout c w p h]; simp only [localStep]; split <;> simp
  | fetched b => rw [step_fetched c w p net h]; simp only [localStep]; split <;> simp
  | verified b => rw [step_verified c w p net h]; simp [localStep]
  | parsed x => rw [step_parsed c w p net h]; simp [localStep]
  | dumping x => rw [step_dumping c w p net h]; simp [localStep]
  | dumped x => rw [step_dumped c w p net h]; simp [localStep]
  | renamed x => rw [step_renamed c w p net h]; simp [localStep]
  | cleaned x => rw [step_cleaned c w p net h]; simp [localStep]
  | readCache =>
    cases he : w.entry (c.slotOf (w.ds p)) with
    | none => rw [step_readCache_none c w p net h he]; simp [localStep, he]
    | some x => rw [step_readCache_some c w p net h he]; simp [localStep, he]
  | done x => rw [step_done c w p net h]; simp [localStep, h]
  | failed e => rw [step_failed c w p net h]; simp [localStep, h]
  | crashed => rw [step_crashed c w p net h]; simp [localStep, h]

theorem step_sim {q : Nat} {w₁ w₂ : World} (net : Net) (h : Sim c q w₁ w₂) :
    Sim c q (step c w₁ q net) (step c w₂ q net) := by
  obtain ⟨hpc, hds, he⟩ := h
  have h₁ := step_local c w₁ q net
  have h₂ := step_local c w₂ q net
  rw [hds] at he
  rw [hpc, hds, he, ← h₂] at h₁
  have h₃ := Prod.mk.inj h₁
  refine ⟨h₃.1, by simp [hds], ?_⟩
  simp only [step_ds]
  rw [hds]
  exact h₃.2

/-- the solo run of `q` reads only `pc q`, `ds q` and the entry of `q`'s own slot -/
theorem runSolo_congr {q : Nat} (f : Nat) : ∀ (w₁ w₂ : World) (s : List Net), Sim c q w₁ w₂ →
    Sim c q (runSolo c f w₁ q s).1 (runSolo c f w₂ q s).1 ∧
      (runSolo c f w₁ q s).2 = (runSolo c f w₂ q s).2 := by
  induction f with
  | zero => intro w₁ w₂ s h; exact ⟨h, rfl⟩
  | succ f ih =>
    intro w₁ w₂ s h
    rw [runSolo_succ, runSolo_succ, ← h.1]
    split
    · exact ⟨h, rfl⟩
    · split
      · cases s with
        | nil => exact ⟨h, rfl⟩
        | cons a rest =>
          have hs := step_sim c a h
          have := ih _ _ rest hs
          exact ⟨this.1, by simp only; rw [hs.1, this.2]⟩
      · have hs := step_sim c .other h
        have := ih _ _ s hs
        exact ⟨this.1, by simp only; rw [hs.1, this.2]⟩

/-- the solo run of `p` changes nothing but `pc p` and the entry of `p`'s own slot -/
theorem runSolo_frame {p : Nat} (f : Nat) : ∀ (w : World) (s : List Net),
    (runSolo c f w p s).1.ds = w.ds ∧
    (∀ r, r ≠ p → (runSolo c f w p s).1.pc r = w.pc r) ∧
    (∀ t, t ≠ c.slotOf (w.ds p) → (runSolo c f w p s).1.entry t = w.entry t) := by
  induction f with
  | zero => intro w s; exact ⟨rfl, fun _ _ => rfl, fun _ _ => rfl⟩
  | succ f ih =>
    intro w s
    have key : ∀ (a : Net) (s' : List Net),
        (runSolo c f (step c w p a) p s').1.ds = w.ds ∧
        (∀ r, r ≠ p → (runSolo c f (step c w p a) p s').1.pc r = w.pc r) ∧
        (∀ t, t ≠ c.slotOf (w.ds p) →
          (runSolo c f (step c w p a) p s').1.entry t = w.entry t) := by
      intro a s'
      obtain ⟨h1, h2, h3⟩ := ih (step c w p a) s'
      refine ⟨by rw [h1, step_ds], fun r hr => by rw [h2 r hr, step_pc_other c w p a hr],
        fun t ht => ?_⟩
      rw [h3 t (by rw [step_ds]; exact ht), step_entry_other c w p a ht]
    rw [runSolo_succ]
    split
    · exact ⟨rfl, fun _ _ => rfl, fun _ _ => rfl⟩
    · split
      · cases s with
        | nil => exact ⟨rfl, fun _ _ => rfl, fun _ _ => rfl⟩
        | cons a rest => exact key a rest
      · exact key .other s

end Local

end Cache
end TWV
