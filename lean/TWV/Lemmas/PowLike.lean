import TWV.Lemmas.Basic

/-!
# `PowLike`: what the proofs need of `t ↦ t ^ α` on `[0, 1]`

The real exponents of the code (`** alpha` in `match.py` and `funfit.py`) are an abstract
parameter `pw : K → K` of the model.  `TWV/Lemmas/PowInstances.lean` shows that natural powers
`t ^ k` (`k ≥ 1`, any ordered field) and real powers `t ^ α` (`α > 0`, over `ℝ`) are `PowLike`.
-/

namespace TWV

variable {K : Type} [Field K] [LinearOrder K] [IsStrictOrderedRing K]

structure PowLike (pw : K → K) : Prop where
  zero : pw 0 = 0
  one : pw 1 = 1
  mono : ∀ s t, 0 ≤ s → s ≤ t → t ≤ 1 → pw s ≤ pw t
  lt_one : ∀ t, 0 ≤ t → t < 1 → pw t < 1

namespace PowLike

variable {pw : K → K}

theorem nonneg (hp : PowLike pw) (t : K) (h0 : 0 ≤ t) (h1 : t ≤ 1) : 0 ≤ pw t := by
  have := hp.mono 0 t le_rfl h0 h1
  rwa [hp.zero] at this

theorem le_one (hp : PowLike pw) (t : K) (h0 : 0 ≤ t) (h1 : t ≤ 1) : pw t ≤ 1 := by
  have := hp.mono t 1 h0 h1 le_rfl
  rwa [hp.one] at this

end PowLike

/-- natural powers, as the driver computes them for integer exponents -/
theorem powLike_powN (k : ℕ) (hk : 1 ≤ k) : PowLike (fun t : K => powN t k) := by
  have hk0 : k ≠ 0 := by omega
  refine ⟨by simp [zero_pow hk0], by simp, ?_, ?_⟩
  · intro s t hs hst _
    simp only [powN_eq_pow]
    exact pow_le_pow_left₀ hs hst k
  · intro t h0 h1
    simp only [powN_eq_pow]
    exact pow_lt_one₀ h0 h1 hk0

end TWV
