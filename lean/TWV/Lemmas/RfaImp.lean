import TWV.Model.RfaImp
import TWV.Lemmas.RfaGrid
import TWV.Lemmas.RfaBounds

/-!
# The loops of `rfa.py` compute the closed form

`TWV/Model/RfaImp.lean` runs the loops of the window strategies on an array, in program order;
`TWV/Model/Rfa.lean` states every returned sample in closed form.  This file proves the steps of
the refinement:

* `writeRange_apply`: a `for i in range(lo, hi): z[base + i] = f i` loop leaves `f (q - base)` at
  the positions `base + lo ≤ q < base + hi` and nothing else changes;
* `linIter_apply`, `expIter_apply`: what one iteration of the `for k` loop leaves at position
  `k * n + r`; `linIter_frame`, `expIter_frame`: it changes no position outside
  `[k * n, k * n + n]` resp. `[k * n, k * n + n)`;
* `linFold_inv`, `expFold_inv`: the array after the iterations `k = 1 … t`;
* `linFold_eq_linOut`, `expFold_eq_expOut`: after the last iteration the cut `[n : -n]` is the
  closed form, for an abstract extended grid `X`, abstract averages `Y` and an initial array that
  is constant `Y k` on every extended interval;
* `Rep`, `rep_set` … `linRunA_rep`, `expRunA_rep`: the same loops on a real array
  (`Array.setIfInBounds`) hold the first `extLen m n` values of the function-valued state.

Nothing here is algebra: the lemmas are stated for an ordered field only so that the instances
are the ones every other proof file uses.
-/

set_option linter.unusedSectionVars false
set_option linter.unusedVariables false

namespace TWV
namespace RfaImp

open Rfa

variable {K : Type} [Field K] [LinearOrder K] [IsStrictOrderedRing K]

/-! ### single loops -/

theorem foldl_setAt_range' (base : ℕ) (f : ℕ → K) (len : ℕ) : ∀ (lo : ℕ) (z : ℕ → K) (q : ℕ),
    (List.range' lo len).foldl (fun z i => setAt z (base + i) (f i)) z q
      = if base + lo ≤ q ∧ q < base + lo + len then f (q - base) else z q := by
  induction len with
  | zero =>
    intro lo z q
    rw [List.range'_zero, List.foldl_nil, if_neg (by omega)]
  | succ len ih =>
    intro lo z q
    rw [List.range'_succ, List.foldl_cons, ih]
    by_cases h1 : base + (lo + 1) ≤ q ∧ q < base + (lo + 1) + len
    · rw [if_pos h1, if_pos (by omega)]
    · rw [if_neg h1]
      unfold setAt
      by_cases h2 : q = base + lo
      · rw [if_pos h2, if_pos (by omega)]
        subst h2
        rw [Nat.add_sub_cancel_left]
      · rw [if_neg h2, if_neg (by omega)]

/-- last writer of `for i in range(lo, hi): z[base + i] = f i` -/
theorem writeRange_apply (z : ℕ → K) (base lo hi : ℕ) (f : ℕ → K) (q : ℕ) :
    writeRange z base lo hi f q
      = if base + lo ≤ q ∧ q < base + hi then f (q - base) else z q := by
  unfold writeRange
  rw [foldl_setAt_range']
  by_cases h : base + lo ≤ q ∧ q < base + hi
  · rw [if_pos h, if_pos (by omega)]
  · rw [if_neg h, if_neg (by omega)]

/-- the same, for a position given as `base + r` -/
theorem writeRange_apply_add (z : ℕ → K) (base lo hi : ℕ) (f : ℕ → K) (r : ℕ) :
    writeRange z base lo hi f (base + r)
      = if lo ≤ r ∧ r < hi then f r else z (base + r) := by
  rw [writeRange_apply, Nat.add_sub_cancel_left]
  by_cases h : lo ≤ r ∧ r < hi
  · rw [if_pos h, if_pos (by omega)]
  · rw [if_neg h, if_neg (by omega)]

/-- the generic form: the last writer among injective positions -/
theorem writeRange_apply_of_mem (z : ℕ → K) (base lo hi : ℕ) (f : ℕ → K) (q : ℕ)
    (h : ∃ i, lo ≤ i ∧ i < hi ∧ q = base + i) : writeRange z base lo hi f q = f (q - base) := by
  obtain ⟨i, h1, h2, rfl⟩ := h
  rw [writeRange_apply, if_pos ⟨by omega, by omega⟩]

theorem writeRange_apply_of_not_mem (z : ℕ → K) (base lo hi : ℕ) (f : ℕ → K) (q : ℕ)
    (h : ¬ ∃ i, lo ≤ i ∧ i < hi ∧ q = base + i) : writeRange z base lo hi f q = z q := by
  rw [writeRange_apply, if_neg]
  intro hc
  exact h ⟨q - base, by omega, by omega, by omega⟩

theorem writeRange_frame (z : ℕ → K) (base lo hi : ℕ) (f : ℕ → K) (q : ℕ)
    (h : q < base + lo ∨ base + hi ≤ q) : writeRange z base lo hi f q = z q := by
  rw [writeRange_apply, if_neg (by omega)]

/-! ### one interval of the linear strategies -/

/-- what the left loop of interval `k` writes at `(k, r)` -/
def linL (X Y : ℕ → K) (n : ℕ) (w : Windows) (ad : Bool) (k r : ℕ) : K :=
  linFit (X (k * n + r)) (X (k * n), z0c X Y n w ad k) (X (k * n + w.aL k), Y k)

/-- what the right loop of interval `k` writes at `(k, r)`, `r ≤ n` -/
def linR (X Y YE0 : ℕ → K) (n : ℕ) (w : Windows) (ad : Bool) (k r : ℕ) : K :=
  linFit (X (k * n + r)) (X (k * n + n - w.aR k), Y k) (X (k * n + n), z1c X Y YE0 n w ad k)

theorem linIter_apply (X Y YE0 : ℕ → K) (n : ℕ) (w : Windows) (ad : Bool) (z : ℕ → K) (k r : ℕ) :
    linIter X Y YE0 n w ad z k (k * n + r)
      = if n - w.aR k + 1 ≤ r ∧ r < n + 1 then linR X Y YE0 n w ad k r
        else if r < w.aL k then linL X Y n w ad k r
        else z (k * n + r) := by
  simp only [linIter, writeRange_apply_add, linL, linR, Nat.zero_le, true_and]

/-- an iteration changes nothing outside `[k * n, k * n + n]` -/
theorem linIter_frame (X Y YE0 : ℕ → K) (n : ℕ) (w : Windows) (ad : Bool) (z : ℕ → K) (k q : ℕ)
    (ha : w.aL k ≤ n) (h : q < k * n ∨ k * n + n < q) :
    linIter X Y YE0 n w ad z k q = z q := by
  simp only [linIter]
  rw [writeRange_frame _ _ _ _ _ _ (by omega), writeRange_frame _ _ _ _ _ _ (by omega)]

/-- an iteration reads the array only at the position it is about to leave alone -/
theorem linIter_congr (X Y YE0 : ℕ → K) (n : ℕ) (w : Windows) (ad : Bool) (z z' : ℕ → K) (k q : ℕ)
    (h : z q = z' q) : linIter X Y YE0 n w ad z k q = linIter X Y YE0 n w ad z' k q := by
  simp only [linIter, writeRange_apply, h]

/-! ### the `for k` loop of the linear strategies -/

/-- the array after the iterations `k = 1 … t`, at position `(k, i)`, `i < n`: position `(k, 0)`
is first written by interval `k - 1` (right loop, `i = n`), then possibly by interval `k` -/
def linAfter (X Y YE0 : ℕ → K) (n : ℕ) (w : Windows) (ad : Bool) (t k i : ℕ) : K :=
  if 1 ≤ k ∧ k ≤ t ∧ i < w.aL k then linL X Y n w ad k i
  else if 1 ≤ k ∧ k ≤ t ∧ n - w.aR k < i then linR X Y YE0 n w ad k i
  else if i = 0 ∧ 2 ≤ k ∧ k ≤ t + 1 ∧ 1 ≤ w.aR (k - 1) then linR X Y YE0 n w ad (k - 1) n
  else YE0 (k * n + i)

theorem succ_mul_eq (k n : ℕ) : (k + 1) * n = k * n + n := by
  rw [Nat.add_mul, Nat.one_mul]

theorem linFold_inv (X Y YE0 : ℕ → K) (n : ℕ) (w : Windows) (ad : Bool) (hn : 1 ≤ n) :
    ∀ t, (∀ k, 1 ≤ k → k ≤ t → w.aL k + w.aR k ≤ n) → ∀ k i, i < n →
      (List.range' 1 t).foldl (linIter X Y YE0 n w ad) YE0 (k * n + i)
        = linAfter X Y YE0 n w ad t k i := by
  intro t
  induction t with
  | zero =>
    intro _ k i hi
    rw [List.range'_zero, List.foldl_nil]
    unfold linAfter
    rw [if_neg (by omega), if_neg (by omega), if_neg (by omega)]
  | succ t ih =>
    intro hw k i hi
    have ih' := ih (fun k h1 h2 => hw k h1 (by omega))
    have hwt := hw (t + 1) (by omega) (by omega)
    rw [List.range'_1_concat, List.foldl_append, List.foldl_cons, List.foldl_nil, Nat.add_comm 1 t]
    rcases Nat.lt_trichotomy k (t + 1) with hk | hk | hk
    · -- an earlier interval: untouched
      have h1 : (k + 1) * n ≤ (t + 1) * n := Nat.mul_le_mul_right n (by omega)
      rw [succ_mul_eq k n] at h1
      rw [linIter_frame _ _ _ _ _ _ _ _ _ (by omega) (Or.inl (by omega)), ih' k i hi]
      unfold linAfter
      split_ifs <;> first | rfl | omega
    · -- the interval itself
      subst hk
      rw [linIter_apply, ih' (t + 1) i hi]
      unfold linAfter
      split_ifs <;> first | rfl | omega
    · rcases Nat.lt_or_ge (t + 2) k with hk2 | hk2
      · -- a later interval, not the next one: untouched
        have h1 : (t + 1 + 1 + 1) * n ≤ k * n := Nat.mul_le_mul_right n (by omega)
        rw [succ_mul_eq, succ_mul_eq] at h1
        rw [linIter_frame _ _ _ _ _ _ _ _ _ (by omega) (Or.inr (by omega)), ih' k i hi]
        unfold linAfter
        split_ifs <;> first | rfl | omega
      · -- the next interval: its first sample is the last one of the right loop
        have hk3 : k = t + 1 + 1 := by omega
        subst hk3
        have e : (t + 1 + 1) * n + i = (t + 1) * n + (n + i) := by rw [succ_mul_eq (t + 1) n]; omega
        rw [e, linIter_apply, ← e, ih' (t + 1 + 1) i hi]
        unfold linAfter
        simp only [Nat.add_sub_cancel]
        split_ifs <;> first | rfl | omega | (rw [show i = 0 by omega]; rfl)

/-! ### the values the loops write are the closed-form values -/

/-- outside the dead case `z_1` of interval `k` is `z_0` of interval `k + 1` -/
theorem z1c_eq_z0 (X Y YE0 : ℕ → K) (n : ℕ) (w : Windows) (ad : Bool) (k : ℕ)
    (h : ¬ (ad = true ∧ w.aR k = 0 ∧ w.aL (k + 1) = 0)) :
    z1c X Y YE0 n w ad k = z0 X Y n w ad (k + 1) := by
  unfold z1c z0
  simp only [Nat.add_sub_cancel]
  rw [if_neg h, if_neg h, succ_mul_eq]

theorem z0c_eq_z0 (X Y : ℕ → K) (n : ℕ) (w : Windows) (ad : Bool) (k : ℕ) :
    z0c X Y n w ad k = z0 X Y n w ad k := rfl

theorem linR_eq_linRight (X Y YE0 : ℕ → K) (n : ℕ) (w : Windows) (ad : Bool) (k r : ℕ)
    (h : 1 ≤ w.aR k) : linR X Y YE0 n w ad k r = linRight X Y n w ad k r := by
  unfold linR linRight
  rw [z1c_eq_z0 _ _ _ _ _ _ _ (by omega)]

theorem div_succ_le {m n j : ℕ} (hm : 1 ≤ m) (hj : j < outLen m n) : j / n + 1 ≤ m := by
  unfold outLen at hj
  have h1 : j ≤ n * (m - 1) := by rw [Nat.mul_comm]; omega
  have := Nat.div_le_of_le_mul h1
  omega

theorem cut_index (n j : ℕ) : n + j = (j / n + 1) * n + j % n := by
  have := Nat.div_add_mod j n
  rw [succ_mul_eq, Nat.mul_comm]
  omega

/-- the array after the last iteration, in the form of `linOut` -/
theorem linAfter_last (X Y YE0 : ℕ → K) (m n : ℕ) (w : Windows) (ad : Bool) (k i : ℕ)
    (hm : 1 ≤ m) (hk1 : 1 ≤ k) (hk : k ≤ m) (hi : i < n) (hwk : w.aL k + w.aR k ≤ n)
    (hY : YE0 (k * n + i) = Y k) :
    linAfter X Y YE0 n w ad (m - 1) k i =
      if k ≤ m - 1 ∧ i < w.aL k then
        linFit (X (k * n + i)) (X (k * n), z0 X Y n w ad k) (X (k * n + w.aL k), Y k)
      else if k ≤ m - 1 ∧ n - w.aR k < i then linRight X Y n w ad k i
      else if i = 0 ∧ 2 ≤ k ∧ 1 ≤ w.aR (k - 1) then linRight X Y n w ad (k - 1) n
      else Y k := by
  unfold linAfter
  by_cases c1 : k ≤ m - 1 ∧ i < w.aL k
  · rw [if_pos (by omega), if_pos c1]; rfl
  · rw [if_neg (by omega), if_neg c1]
    by_cases c2 : k ≤ m - 1 ∧ n - w.aR k < i
    · rw [if_pos (by omega), if_pos c2, linR_eq_linRight _ _ _ _ _ _ _ _ (by omega)]
    · rw [if_neg (by omega), if_neg c2]
      by_cases c3 : i = 0 ∧ 2 ≤ k ∧ 1 ≤ w.aR (k - 1)
      · rw [if_pos (by omega), if_pos c3, linR_eq_linRight _ _ _ _ _ _ _ _ (by omega)]
      · rw [if_neg (by omega), if_neg c3, hY]

/-- **the linear loops compute the closed form**, for an abstract grid, abstract averages and an
initial array that is constant on every extended interval -/
theorem linFold_eq_linOut (X Y YE0 : ℕ → K) (m n : ℕ) (w : Windows) (ad : Bool)
    (hn : 1 ≤ n) (hm : 1 ≤ m) (hw : ∀ k, k ≤ m → w.aL k + w.aR k ≤ n)
    (hY : ∀ k, k ≤ m → ∀ i, i < n → YE0 (k * n + i) = Y k)
    (j : ℕ) (hj : j < outLen m n) :
    (List.range' 1 (m - 1)).foldl (linIter X Y YE0 n w ad) YE0 (n + j)
      = linOut X Y m n w ad j := by
  have hi : j % n < n := Nat.mod_lt _ (by omega)
  have hk : j / n + 1 ≤ m := div_succ_le hm hj
  rw [cut_index n j, linFold_inv X Y YE0 n w ad hn (m - 1) (fun k _ _ => hw k (by omega)) _ _ hi,
    linAfter_last X Y YE0 m n w ad _ _ hm (Nat.le_add_left 1 _) hk hi (hw _ hk) (hY _ hk _ hi)]
  rfl

/-! ### one interval of the exponential strategies -/

/-- `z_0_lb` as the code computes it -/
def zlbc (X Y : ℕ → K) (n : ℕ) (w : Windows) (ad : Bool) (k : ℕ) : K :=
  if ad ∧ w.bL k = 0 then z0c X Y n w ad k
  else linFit (X (k * n + w.bL k)) (X (k * n), z0c X Y n w ad k) (X (k * n + w.aL k), Y k)

/-- `z_0_rb` as the code computes it -/
def zrbc (X Y YE0 : ℕ → K) (n : ℕ) (w : Windows) (ad : Bool) (k : ℕ) : K :=
  if ad ∧ w.bR k = 0 then z1c X Y YE0 n w ad k
  else linFit (X (k * n + n - w.bR k)) (X (k * n + n - w.aR k), Y k)
    (X ((k + 1) * n), z1c X Y YE0 n w ad k)

/-- what the four loops of interval `k` write at `(k, r)` -/
def expA (X Y : ℕ → K) (n : ℕ) (w : Windows) (ad : Bool) (k r : ℕ) : K :=
  linFit (X (k * n + r)) (X (k * n), z0c X Y n w ad k) (X (k * n + w.bL k), zlbc X Y n w ad k)

def expB (pw : K → K) (X Y : ℕ → K) (n : ℕ) (w : Windows) (ad : Bool) (k r : ℕ) : K :=
  linExpXYFit pw (X (k * n + r)) (X (k * n + w.bL k), zlbc X Y n w ad k) (X (k * n + w.aL k), Y k)

def expC (pw : K → K) (X Y YE0 : ℕ → K) (n : ℕ) (w : Windows) (ad : Bool) (k r : ℕ) : K :=
  expLinFit pw (X (k * n + r)) (X (k * n + n - w.aR k), Y k)
    (X (k * n + n - w.bR k), zrbc X Y YE0 n w ad k)

def expD (X Y YE0 : ℕ → K) (n : ℕ) (w : Windows) (ad : Bool) (k r : ℕ) : K :=
  linFit (X (k * n + r)) (X (k * n + n - w.bR k), zrbc X Y YE0 n w ad k)
    (X (k * n + n), z1c X Y YE0 n w ad k)

theorem expIter_apply (pw : K → K) (X Y YE0 : ℕ → K) (n : ℕ) (w : Windows) (ad : Bool)
    (z : ℕ → K) (k r : ℕ) :
    expIter pw X Y YE0 n w ad z k (k * n + r)
      = if n - w.bR k ≤ r ∧ r < n then expD X Y YE0 n w ad k r
        else if n - w.aR k ≤ r ∧ r < n - w.bR k then expC pw X Y YE0 n w ad k r
        else if w.bL k ≤ r ∧ r < w.aL k then expB pw X Y n w ad k r
        else if r < w.bL k then expA X Y n w ad k r
        else z (k * n + r) := by
  simp only [expIter, writeRange_apply_add, expA, expB, expC, expD, zlbc, zrbc, Nat.zero_le,
    true_and]

/-- an iteration changes nothing outside `[k * n, k * n + n)` -/
theorem expIter_frame (pw : K → K) (X Y YE0 : ℕ → K) (n : ℕ) (w : Windows) (ad : Bool)
    (z : ℕ → K) (k q : ℕ) (ha : w.aL k ≤ n) (hb : w.bL k ≤ n) (h : q < k * n ∨ k * n + n ≤ q) :
    expIter pw X Y YE0 n w ad z k q = z q := by
  simp only [expIter]
  rw [writeRange_frame _ _ _ _ _ _ (by omega), writeRange_frame _ _ _ _ _ _ (by omega),
    writeRange_frame _ _ _ _ _ _ (by omega), writeRange_frame _ _ _ _ _ _ (by omega)]

theorem expIter_congr (pw : K → K) (X Y YE0 : ℕ → K) (n : ℕ) (w : Windows) (ad : Bool)
    (z z' : ℕ → K) (k q : ℕ) (h : z q = z' q) :
    expIter pw X Y YE0 n w ad z k q = expIter pw X Y YE0 n w ad z' k q := by
  simp only [expIter, writeRange_apply, h]

/-! ### the `for k` loop of the exponential strategies -/

/-- the array after the iterations `k = 1 … t`, at position `(k, i)`, `i < n` -/
def expAfter (pw : K → K) (X Y YE0 : ℕ → K) (n : ℕ) (w : Windows) (ad : Bool) (t k i : ℕ) : K :=
  if 1 ≤ k ∧ k ≤ t then
    if n - w.bR k ≤ i ∧ i < n then expD X Y YE0 n w ad k i
    else if n - w.aR k ≤ i ∧ i < n - w.bR k then expC pw X Y YE0 n w ad k i
    else if w.bL k ≤ i ∧ i < w.aL k then expB pw X Y n w ad k i
    else if i < w.bL k then expA X Y n w ad k i
    else YE0 (k * n + i)
  else YE0 (k * n + i)

theorem expFold_inv (pw : K → K) (X Y YE0 : ℕ → K) (n : ℕ) (w : Windows) (ad : Bool) (hn : 1 ≤ n) :
    ∀ t, (∀ k, 1 ≤ k → k ≤ t → w.aL k ≤ n ∧ w.bL k ≤ n) → ∀ k i, i < n →
      (List.range' 1 t).foldl (expIter pw X Y YE0 n w ad) YE0 (k * n + i)
        = expAfter pw X Y YE0 n w ad t k i := by
  intro t
  induction t with
  | zero =>
    intro _ k i hi
    rw [List.range'_zero, List.foldl_nil]
    unfold expAfter
    rw [if_neg (by omega)]
  | succ t ih =>
    intro hw k i hi
    have ih' := ih (fun k h1 h2 => hw k h1 (by omega))
    have hwt := hw (t + 1) (by omega) (by omega)
    rw [List.range'_1_concat, List.foldl_append, List.foldl_cons, List.foldl_nil, Nat.add_comm 1 t]
    rcases Nat.lt_trichotomy k (t + 1) with hk | hk | hk
    · have h1 : (k + 1) * n ≤ (t + 1) * n := Nat.mul_le_mul_right n (by omega)
      rw [succ_mul_eq k n] at h1
      rw [expIter_frame _ _ _ _ _ _ _ _ _ _ hwt.1 hwt.2 (Or.inl (by omega)), ih' k i hi]
      unfold expAfter
      split_ifs <;> first | rfl | omega
    · subst hk
      rw [expIter_apply, ih' (t + 1) i hi]
      unfold expAfter
      split_ifs <;> first | rfl | omega
    · have h1 : (t + 1 + 1) * n ≤ k * n := Nat.mul_le_mul_right n (by omega)
      rw [succ_mul_eq] at h1
      rw [expIter_frame _ _ _ _ _ _ _ _ _ _ hwt.1 hwt.2 (Or.inr (by omega)), ih' k i hi]
      unfold expAfter
      split_ifs <;> first | rfl | omega

/-! ### the exponential loops write the closed-form values -/

theorem zlbc_eq_z0lb (X Y : ℕ → K) (n : ℕ) (w : Windows) (ad : Bool) (k : ℕ) :
    zlbc X Y n w ad k = z0lb X Y n w ad k := rfl

theorem zrbc_eq_z0rb (X Y YE0 : ℕ → K) (n : ℕ) (w : Windows) (ad : Bool) (k : ℕ)
    (h : 1 ≤ w.aR k) : zrbc X Y YE0 n w ad k = z0rb X Y n w ad k := by
  unfold zrbc z0rb
  rw [z1c_eq_z0 _ _ _ _ _ _ _ (by omega)]

/-- the array after the last iteration, in the form of `expOut` -/
theorem expAfter_last (pw : K → K) (X Y YE0 : ℕ → K) (m n : ℕ) (w : Windows) (ad : Bool) (k i : ℕ)
    (hm : 1 ≤ m) (hk1 : 1 ≤ k) (hk : k ≤ m) (hi : i < n) (hwk : w.aL k + w.aR k ≤ n)
    (hbL : w.bL k ≤ w.aL k) (hbR : w.bR k ≤ w.aR k) (hY : YE0 (k * n + i) = Y k) :
    expAfter pw X Y YE0 n w ad (m - 1) k i =
      if k ≤ m - 1 then
        if i < w.bL k then
          linFit (X (k * n + i)) (X (k * n), z0 X Y n w ad k)
            (X (k * n + w.bL k), z0lb X Y n w ad k)
        else if i < w.aL k then
          linExpXYFit pw (X (k * n + i)) (X (k * n + w.bL k), z0lb X Y n w ad k)
            (X (k * n + w.aL k), Y k)
        else if n - w.aR k ≤ i ∧ i < n - w.bR k then
          expLinFit pw (X (k * n + i)) (X (k * n + n - w.aR k), Y k)
            (X (k * n + n - w.bR k), z0rb X Y n w ad k)
        else if n - w.bR k ≤ i then
          linFit (X (k * n + i)) (X (k * n + n - w.bR k), z0rb X Y n w ad k)
            (X (k * n + n), z0 X Y n w ad (k + 1))
        else Y k
      else Y k := by
  unfold expAfter
  split_ifs <;> first
    | rfl
    | omega
    | exact hY
    | (unfold expC; rw [zrbc_eq_z0rb _ _ _ _ _ _ _ (by omega)])
    | (unfold expD; rw [zrbc_eq_z0rb _ _ _ _ _ _ _ (by omega), z1c_eq_z0 _ _ _ _ _ _ _ (by omega)])

/-- **the exponential loops compute the closed form**, for an abstract grid, abstract averages
and an initial array that is constant on every extended interval -/
theorem expFold_eq_expOut (pw : K → K) (X Y YE0 : ℕ → K) (m n : ℕ) (w : Windows) (ad : Bool)
    (hn : 1 ≤ n) (hm : 1 ≤ m) (hw : ∀ k, k ≤ m → w.aL k + w.aR k ≤ n)
    (hb : ∀ k, k ≤ m → w.bL k ≤ w.aL k ∧ w.bR k ≤ w.aR k)
    (hY : ∀ k, k ≤ m → ∀ i, i < n → YE0 (k * n + i) = Y k)
    (j : ℕ) (hj : j < outLen m n) :
    (List.range' 1 (m - 1)).foldl (expIter pw X Y YE0 n w ad) YE0 (n + j)
      = expOut pw X Y m n w ad j := by
  have hi : j % n < n := Nat.mod_lt _ (by omega)
  have hk : j / n + 1 ≤ m := div_succ_le hm hj
  rw [cut_index n j,
    expFold_inv pw X Y YE0 n w ad hn (m - 1)
      (fun k _ _ => by have := hw k (by omega); have := hb k (by omega); omega) _ _ hi,
    expAfter_last pw X Y YE0 m n w ad _ _ hm (Nat.le_add_left 1 _) hk hi (hw _ hk) (hb _ hk).1
      (hb _ hk).2 (hY _ hk _ hi)]
  rfl

/-! ### the extended arrays of `rfa.py` -/

/-- `y` is constant on every extended interval (also for `n = 1`, where there is nothing to say) -/
theorem YE_const' (y : ℕ → K) {m n : ℕ} (hn : 1 ≤ n) (hm : 1 ≤ m) {k i : ℕ} (hk : k ≤ m)
    (hi : i < n) : YE y m n (k * n + i) = Yk y m n k := by
  rcases Nat.lt_or_ge n 2 with h | h
  · have : i = 0 := by omega
    subst this
    rfl
  · exact YE_const y h hm hk hi

/-- the array the `for k` loop of the linear strategies leaves behind -/
def linState (x y : ℕ → K) (m n : ℕ) (w : Windows) (ad : Bool) : ℕ → K :=
  (List.range' 1 (m - 1)).foldl (linIter (XE x m n) (Yk y m n) (YE y m n) n w ad) (YE y m n)

/-- the array the `for k` loop of the exponential strategies leaves behind -/
def expState (pw : K → K) (x y : ℕ → K) (m n : ℕ) (w : Windows) (ad : Bool) : ℕ → K :=
  (List.range' 1 (m - 1)).foldl (expIter pw (XE x m n) (Yk y m n) (YE y m n) n w ad) (YE y m n)

theorem linRun_eq_state (x y : ℕ → K) (m n : ℕ) (w : Windows) (ad : Bool) (j : ℕ) :
    linRun x y m n w ad j = linState x y m n w ad (n + j) := rfl

theorem expRun_eq_state (pw : K → K) (x y : ℕ → K) (m n : ℕ) (w : Windows) (ad : Bool) (j : ℕ) :
    expRun pw x y m n w ad j = expState pw x y m n w ad (n + j) := rfl

/-- `windowsOk` is the Boolean form of `ValidWindows` -/
theorem windowsOk_iff (w : Windows) (m n : ℕ) : windowsOk w m n = true ↔ ValidWindows w m n := by
  unfold windowsOk ValidWindows
  simp only [List.all_eq_true, List.mem_range, Bool.and_eq_true, decide_eq_true_eq]
  constructor
  · intro h k hk
    have := h k (by omega)
    exact ⟨this.1.1, this.1.2, this.2⟩
  · intro h k hk
    have := h k (by omega)
    exact ⟨⟨this.1, this.2.1⟩, this.2.2⟩

/-! ### the loops on a real array -/

theorem tab_congr (N : ℕ) (f g : ℕ → K) (h : ∀ i, i < N → f i = g i) : tab N f = tab N g := by
  unfold tab
  congr 1
  funext i
  exact h i.val i.isLt

/-- the array `a` holds the first `L` values of `z` -/
def Rep (L : ℕ) (a : Array K) (z : ℕ → K) : Prop := a.size = L ∧ ∀ q, q < L → arrFn a q = z q

theorem rep_tab (L : ℕ) (z : ℕ → K) : Rep L (tab L z) z :=
  ⟨tab_size L z, fun q hq => arrFn_tab_lt L z q hq⟩

/-- one assignment: an out-of-bounds write is dropped by `setIfInBounds`, and the function
model's write at such a position is never read below `L` -/
theorem rep_set {L : ℕ} {a : Array K} {z : ℕ → K} (h : Rep L a z) (p : ℕ) (v : K) :
    Rep L (a.setIfInBounds p v) (setAt z p v) := by
  obtain ⟨hs, hv⟩ := h
  refine ⟨by rw [Array.size_setIfInBounds, hs], fun q hq => ?_⟩
  have hq' : q < a.size := by omega
  have h1 := hv q hq
  unfold arrFn at h1 ⊢
  unfold setAt
  rw [Array.getD_eq_getD_getElem?, Array.getElem?_setIfInBounds]
  rw [Array.getD_eq_getD_getElem?] at h1
  by_cases hpq : q = p
  · subst hpq
    rw [if_pos rfl, if_pos rfl, if_pos hq']
    rfl
  · rw [if_neg (fun h => hpq h.symm), if_neg hpq]
    exact h1

theorem rep_writeRange {L : ℕ} (base : ℕ) (f : ℕ → K) (lo hi : ℕ) {a : Array K} {z : ℕ → K}
    (h : Rep L a z) : Rep L (writeRangeA a base lo hi f) (writeRange z base lo hi f) := by
  unfold writeRangeA writeRange
  generalize List.range' lo (hi - lo) = l
  induction l generalizing a z with
  | nil => exact h
  | cons i l ih =>
    rw [List.foldl_cons, List.foldl_cons]
    exact ih (rep_set h _ _)

theorem rep_linIter {L : ℕ} (X Y YE0 : ℕ → K) (n : ℕ) (w : Windows) (ad : Bool) (k : ℕ)
    {a : Array K} {z : ℕ → K} (h : Rep L a z) :
    Rep L (linIterA X Y YE0 n w ad a k) (linIter X Y YE0 n w ad z k) := by
  unfold linIterA linIter
  exact rep_writeRange _ _ _ _ (rep_writeRange _ _ _ _ h)

theorem rep_expIter {L : ℕ} (pw : K → K) (X Y YE0 : ℕ → K) (n : ℕ) (w : Windows) (ad : Bool)
    (k : ℕ) {a : Array K} {z : ℕ → K} (h : Rep L a z) :
    Rep L (expIterA pw X Y YE0 n w ad a k) (expIter pw X Y YE0 n w ad z k) := by
  unfold expIterA expIter
  exact rep_writeRange _ _ _ _ (rep_writeRange _ _ _ _ (rep_writeRange _ _ _ _
    (rep_writeRange _ _ _ _ h)))

theorem rep_foldl {L : ℕ} (iterA : Array K → ℕ → Array K) (iter : (ℕ → K) → ℕ → ℕ → K)
    (hstep : ∀ a z k, Rep L a z → Rep L (iterA a k) (iter z k)) :
    ∀ (l : List ℕ) (a : Array K) (z : ℕ → K), Rep L a z → Rep L (l.foldl iterA a) (l.foldl iter z) := by
  intro l
  induction l with
  | nil => intro a z h; exact h
  | cons k l ih =>
    intro a z h
    rw [List.foldl_cons, List.foldl_cons]
    exact ih _ _ (hstep a z k h)

theorem linRunA_rep (x y : ℕ → K) (m n : ℕ) (w : Windows) (ad : Bool) :
    Rep (extLen m n) (linRunA x y m n w ad) (linState x y m n w ad) := by
  unfold linRunA linState
  exact rep_foldl _ _ (fun a z k h => rep_linIter _ _ _ _ _ _ k h) _ _ _ (rep_tab _ _)

theorem expRunA_rep (pw : K → K) (x y : ℕ → K) (m n : ℕ) (w : Windows) (ad : Bool) :
    Rep (extLen m n) (expRunA pw x y m n w ad) (expState pw x y m n w ad) := by
  unfold expRunA expState
  exact rep_foldl _ _ (fun a z k h => rep_expIter _ _ _ _ _ _ _ k h) _ _ _ (rep_tab _ _)

theorem linRunA_apply (x y : ℕ → K) (m n : ℕ) (w : Windows) (ad : Bool) (q : ℕ)
    (hq : q < extLen m n) : arrFn (linRunA x y m n w ad) q = linState x y m n w ad q :=
  (linRunA_rep x y m n w ad).2 q hq

theorem expRunA_apply (pw : K → K) (x y : ℕ → K) (m n : ℕ) (w : Windows) (ad : Bool) (q : ℕ)
    (hq : q < extLen m n) : arrFn (expRunA pw x y m n w ad) q = expState pw x y m n w ad q :=
  (expRunA_rep pw x y m n w ad).2 q hq

/-- every returned position lies inside the extended arrays -/
theorem cut_lt_extLen {m n j : ℕ} (hm : 1 ≤ m) (hj : j < outLen m n) : n + j < extLen m n := by
  unfold outLen at hj
  unfold extLen
  obtain ⟨m', rfl⟩ : ∃ m', m = m' + 1 := ⟨m - 1, by omega⟩
  rw [Nat.add_sub_cancel] at hj
  rw [succ_mul_eq, succ_mul_eq]
  omega

end RfaImp
end TWV
