import TWV.Model.Rfa
import TWV.Lemmas.Basic

/-!
# Closed forms of the extended grids of `rfa.py`

`XE x m n` is the abscissa array after `_initial_x_oversample` and
`extend_linspace(direction='both')`, `YE y m n` the value array after `_initial_y_oversample` and
`extend_constant(direction='both')`.  With the *virtual abscissae*

  `xv x m 0 = 2 x 0 - x 1`,  `xv x m k = x (k - 1)` (`1 ≤ k ≤ m`),  `xv x m (m+1) = 2 x (m-1) - x (m-2)`

extended interval `k` (`k ≤ m`) runs linearly from `xv k` to `xv (k + 1)` in `n` equal steps; the
linear continuation of the last interval describes all later indices as well.

Used by `TWV/Properties/C04.lean` and `C07.lean` (and available to `C05`, `C06`).
-/

set_option linter.unusedSectionVars false

namespace TWV
namespace Rfa

variable {K : Type} [Field K] [LinearOrder K] [IsStrictOrderedRing K]

/-! ### division with remainder by a variable -/

theorem div_of_decomp {n j : ℕ} (k : ℕ) (hj : j < n) : (k * n + j) / n = k := by
  have hn : 0 < n := by omega
  rw [Nat.mul_comm, Nat.mul_add_div hn, Nat.div_eq_of_lt hj, Nat.add_zero]

theorem mod_of_decomp {n j : ℕ} (k : ℕ) (hj : j < n) : (k * n + j) % n = j := by
  rw [Nat.mul_comm, Nat.mul_add_mod, Nat.mod_eq_of_lt hj]

theorem decomp (p n : ℕ) : p = p / n * n + p % n := by
  have := Nat.div_add_mod p n
  rw [Nat.mul_comm] at this
  exact this.symm

theorem natCast_ne_zero_of_two_le {n : ℕ} (hn : 2 ≤ n) : (n : K) ≠ 0 := by
  have : (0 : K) < (n : K) := by exact_mod_cast (by omega : 0 < n)
  exact ne_of_gt this

theorem natCast_pos_of_two_le {n : ℕ} (hn : 2 ≤ n) : (0 : K) < (n : K) := by
  exact_mod_cast (by omega : 0 < n)

/-! ### the oversampled arrays -/

theorem oversampleLen_eq {m n : ℕ} (hn : 2 ≤ n) : oversampleLen m n = (m - 1) * n + 1 := by
  unfold oversampleLen; rw [if_neg (by omega)]

theorem oversampleLin_decomp (x : ℕ → K) {n : ℕ} (hn : 2 ≤ n) (k j : ℕ) (hj : j < n) :
    oversampleLin x n (k * n + j) = x k + (j : K) * ((x (k + 1) - x k) / (n : K)) := by
  unfold oversampleLin
  rw [if_neg (by omega), div_of_decomp k hj, mod_of_decomp k hj]

theorem oversampleLin_knot (x : ℕ → K) {n : ℕ} (hn : 2 ≤ n) (k : ℕ) :
    oversampleLin x n (k * n) = x k := by
  have := oversampleLin_decomp x hn k 0 (by omega)
  simpa using this

theorem oversamplePC_eq (y : ℕ → K) {n : ℕ} (hn : 2 ≤ n) (i : ℕ) :
    oversamplePC y n i = y (i / n) := by
  unfold oversamplePC; rw [if_neg (by omega)]

/-! ### `XE` as a three-piece function -/

theorem extendLin_both (a : ℕ → K) (m n : ℕ) :
    extendLin a m n .both none none
      = extendLinRight (extendLinLeft a n none) (m + n) n none := rfl

theorem extendConst_both (a : ℕ → K) (m n : ℕ) :
    extendConst a m n .both
      = fun i => if i < m + n then (if i < n then a 0 else a (i - n))
                 else (if m + n - 1 < n then a 0 else a (m + n - 1 - n)) := rfl

/-- `extend_linspace(direction='both')` around the oversampled grid: the left virtual interval,
the oversampled grid itself, the (linearly continued) right virtual interval -/
theorem XE_eq (x : ℕ → K) {m n : ℕ} (hn : 2 ≤ n) (hm : 2 ≤ m) (p : ℕ) :
    XE x m n p =
      if p < n then (2 * x 0 - x 1) + (p : K) * ((x 0 - (2 * x 0 - x 1)) / (n : K))
      else if p < m * n + 1 then oversampleLin x n (p - n)
      else x (m - 1) + ((p - m * n : ℕ) : K) * (((2 * x (m - 1) - x (m - 2)) - x (m - 1)) / (n : K)) := by
  have hlen : oversampleLen m n + n = m * n + 1 := by
    rw [oversampleLen_eq hn]
    obtain ⟨m', rfl⟩ : ∃ m', m = m' + 1 := ⟨m - 1, by omega⟩
    simp only [Nat.add_sub_cancel, Nat.add_mul, Nat.one_mul]; omega
  have h0 : oversampleLin x n 0 = x 0 := by simpa using oversampleLin_knot x hn 0
  have h1 : oversampleLin x n n = x 1 := by simpa using oversampleLin_knot x hn 1
  have hA : m * n + 1 - 1 - n = (m - 1) * n := by
    obtain ⟨m', rfl⟩ : ∃ m', m = m' + 1 := ⟨m - 1, by omega⟩
    simp only [Nat.add_sub_cancel, Nat.add_mul, Nat.one_mul]
  have hB : (m - 1) * n - n = (m - 2) * n := by
    obtain ⟨m', rfl⟩ : ∃ m', m = m' + 2 := ⟨m - 2, by omega⟩
    have : m' + 2 - 1 = m' + 1 := by omega
    rw [this, Nat.add_sub_cancel, Nat.add_mul, Nat.one_mul, Nat.add_sub_cancel]
  have hmn : n ≤ m * n := Nat.le_mul_of_pos_left n (by omega)
  have h2n : 2 * n ≤ m * n := Nat.mul_le_mul_right n hm
  simp only [XE, extendLin_both, extendLinRight,
    extendLinLeft, Option.getD_none, hlen, two_eq, h0, h1]
  by_cases hp1 : p < n
  · rw [if_pos (by omega), if_pos hp1, if_pos hp1]
  · by_cases hp2 : p < m * n + 1
    · rw [if_pos hp2, if_neg hp1, if_neg hp1, if_pos hp2]
    · rw [if_neg hp2, if_neg hp1, if_neg hp2]
      rw [if_neg (by omega : ¬ m * n + 1 - 1 < n), if_neg (by omega : ¬ m * n + 1 - 1 - n < n),
        hA, hB, oversampleLin_knot x hn, oversampleLin_knot x hn]
      have : p - (m * n + 1) + 1 = p - m * n := by omega
      rw [this]

/-! ### closed forms -/

/-- interior intervals: extended interval `k` spans the original abscissae `x (k-1) … x k` -/
theorem XE_mid (x : ℕ → K) {m n : ℕ} (hn : 2 ≤ n) (hm : 2 ≤ m) {k j : ℕ} (hk1 : 1 ≤ k)
    (hk : k ≤ m - 1) (hj : j < n) :
    XE x m n (k * n + j) = x (k - 1) + (j : K) * ((x k - x (k - 1)) / (n : K)) := by
  obtain ⟨k', rfl⟩ : ∃ k', k = k' + 1 := ⟨k - 1, by omega⟩
  have hlt : (k' + 1) * n + j < m * n + 1 := by
    have : (k' + 1) * n + n ≤ m * n := by
      have h := Nat.mul_le_mul_right n (by omega : k' + 1 + 1 ≤ m)
      rwa [Nat.add_mul (k' + 1) 1 n, Nat.one_mul] at h
    omega
  have hge : ¬ (k' + 1) * n + j < n := by
    have : n ≤ (k' + 1) * n := Nat.le_mul_of_pos_left n (by omega)
    omega
  rw [XE_eq x hn hm, if_neg hge, if_pos hlt]
  have : (k' + 1) * n + j - n = k' * n + j := by
    simp only [Nat.add_mul, Nat.one_mul]; omega
  rw [this, oversampleLin_decomp x hn k' j hj, Nat.add_sub_cancel]

theorem XE_last (x : ℕ → K) {m n : ℕ} (hn : 2 ≤ n) (hm : 2 ≤ m) :
    XE x m n (m * n) = x (m - 1) := by
  have hmn : n ≤ m * n := Nat.le_mul_of_pos_left n (by omega)
  rw [XE_eq x hn hm, if_neg (by omega), if_pos (by omega)]
  have : m * n - n = (m - 1) * n := by
    obtain ⟨m', rfl⟩ : ∃ m', m = m' + 1 := ⟨m - 1, by omega⟩
    simp only [Nat.add_sub_cancel, Nat.add_mul, Nat.one_mul]
  rw [this, oversampleLin_knot x hn]

/-- the left virtual interval spans `2 x 0 - x 1 … x 0` -/
theorem XE_left (x : ℕ → K) {m n : ℕ} (hn : 2 ≤ n) (hm : 2 ≤ m) {j : ℕ} (hj : j < n) :
    XE x m n j = (2 * x 0 - x 1) + (j : K) * ((x 0 - (2 * x 0 - x 1)) / (n : K)) := by
  rw [XE_eq x hn hm, if_pos hj]

/-- the right virtual interval spans `x (m-1) … 2 x (m-1) - x (m-2)`; the formula also describes
every later index (and `j = 0`) -/
theorem XE_right' (x : ℕ → K) {m n : ℕ} (hn : 2 ≤ n) (hm : 2 ≤ m) (j : ℕ) :
    XE x m n (m * n + j) =
      x (m - 1) + (j : K) * (((2 * x (m - 1) - x (m - 2)) - x (m - 1)) / (n : K)) := by
  rcases Nat.eq_zero_or_pos j with rfl | hj
  · rw [Nat.add_zero, XE_last x hn hm]; simp
  · have hmn : n ≤ m * n := Nat.le_mul_of_pos_left n (by omega)
    rw [XE_eq x hn hm, if_neg (by omega), if_neg (by omega), Nat.add_sub_cancel_left]

theorem XE_right (x : ℕ → K) {m n : ℕ} (hn : 2 ≤ n) (hm : 2 ≤ m) {j : ℕ} (_hj1 : 1 ≤ j)
    (_hj : j ≤ n) :
    XE x m n (m * n + j) =
      x (m - 1) + (j : K) * (((2 * x (m - 1) - x (m - 2)) - x (m - 1)) / (n : K)) :=
  XE_right' x hn hm j

/-! ### the virtual abscissae: one formula for all extended intervals -/

/-- start of extended interval `k` (`k ≤ m + 1`) -/
def xv (x : ℕ → K) (m : ℕ) (k : ℕ) : K :=
  if k = 0 then 2 * x 0 - x 1 else if k ≤ m then x (k - 1) else 2 * x (m - 1) - x (m - 2)

theorem XE_interval (x : ℕ → K) {m n : ℕ} (hn : 2 ≤ n) (hm : 2 ≤ m) {k j : ℕ} (hk : k ≤ m)
    (hj : j < n) :
    XE x m n (k * n + j) = xv x m k + (j : K) * ((xv x m (k + 1) - xv x m k) / (n : K)) := by
  rcases Nat.eq_zero_or_pos k with rfl | hk0
  · rw [Nat.zero_mul, Nat.zero_add, XE_left x hn hm hj]
    simp [xv, show 1 ≤ m by omega]
  · rcases Nat.lt_or_ge k m with hkm | hkm
    · rw [XE_mid x hn hm hk0 (by omega) hj]
      simp [xv, show k ≠ 0 by omega, show k ≤ m by omega, show k + 1 ≤ m by omega]
    · have : k = m := by omega
      subst this
      rw [XE_right' x hn hm j]
      simp [xv, show k ≠ 0 by omega]

/-- the same with the right end point included -/
theorem XE_interval_le (x : ℕ → K) {m n : ℕ} (hn : 2 ≤ n) (hm : 2 ≤ m) {k j : ℕ} (hk : k ≤ m)
    (hj : j ≤ n) :
    XE x m n (k * n + j) = xv x m k + (j : K) * ((xv x m (k + 1) - xv x m k) / (n : K)) := by
  rcases Nat.lt_or_ge j n with h | h
  · exact XE_interval x hn hm hk h
  · have hjn : j = n := by omega
    subst hjn
    have hn0 : (j : K) ≠ 0 := natCast_ne_zero_of_two_le hn
    rw [mul_div_cancel₀ _ hn0, add_sub_cancel]
    rcases Nat.lt_or_ge k m with hkm | hkm
    · have := XE_interval x hn hm (show k + 1 ≤ m by omega) (show 0 < j by omega)
      simpa [Nat.add_mul] using this
    · have : k = m := by omega
      subst this
      rw [XE_right' x hn hm j, mul_div_cancel₀ _ hn0]
      simp [xv, show k ≠ 0 by omega]

theorem xv_strictIncr {x : ℕ → K} {m : ℕ} (hm : 2 ≤ m) (hx : StrictIncr (m - 1) x) :
    StrictIncr (m + 1) (xv x m) := by
  intro k hk
  unfold xv
  rcases Nat.eq_zero_or_pos k with rfl | hk0
  · have := hx 0 (by omega)
    simp only [if_true, Nat.zero_add, one_ne_zero, if_false, show 1 ≤ m by omega, Nat.sub_self]
    linarith
  · rw [if_neg (show ¬ k = 0 by omega), if_neg (show ¬ k + 1 = 0 by omega),
      if_pos (show k ≤ m by omega), Nat.add_sub_cancel]
    rcases Nat.lt_or_ge k m with hkm | hkm
    · rw [if_pos (show k + 1 ≤ m by omega)]
      have := hx (k - 1) (by omega)
      rwa [show k - 1 + 1 = k by omega] at this
    · rw [if_neg (show ¬ k + 1 ≤ m by omega)]
      have hk' : k = m := by omega
      subst hk'
      have := hx (k - 2) (by omega)
      rw [show k - 2 + 1 = k - 1 by omega] at this
      linarith

/-! ### monotonicity -/

/-- every step of the extended grid is positive (also beyond the right virtual interval) -/
theorem XE_lt_succ {x : ℕ → K} {m n : ℕ} (hn : 2 ≤ n) (hm : 2 ≤ m) (hx : StrictIncr (m - 1) x)
    (p : ℕ) : XE x m n p < XE x m n (p + 1) := by
  have hn0 : (0 : K) < (n : K) := natCast_pos_of_two_le hn
  rcases Nat.lt_or_ge p (m * n) with hp | hp
  · -- inside extended interval `k = p / n ≤ m - 1`
    have hj : p % n < n := Nat.mod_lt _ (by omega)
    have hk : p / n ≤ m := by
      by_contra h
      have : m * n ≤ p / n * n := Nat.mul_le_mul_right n (by omega)
      have := decomp p n
      omega
    have hdec := decomp p n
    have e1 := XE_interval_le x hn hm hk (le_of_lt hj)
    have e2 := XE_interval_le x hn hm hk (show p % n + 1 ≤ n by omega)
    rw [← hdec] at e1
    rw [← Nat.add_assoc, ← hdec] at e2
    rw [e1, e2]
    have hd : 0 < (xv x m (p / n + 1) - xv x m (p / n)) / (n : K) :=
      div_pos (sub_pos.mpr (xv_strictIncr hm hx _ (by omega))) hn0
    push_cast
    nlinarith
  · obtain ⟨j, rfl⟩ : ∃ j, p = m * n + j := ⟨p - m * n, by omega⟩
    rw [Nat.add_assoc, XE_right' x hn hm j, XE_right' x hn hm (j + 1)]
    have := hx (m - 2) (by omega)
    rw [show m - 2 + 1 = m - 1 by omega] at this
    have hd : 0 < ((2 * x (m - 1) - x (m - 2)) - x (m - 1)) / (n : K) :=
      div_pos (by linarith) hn0
    push_cast
    nlinarith

theorem XE_strictMono {x : ℕ → K} {m n : ℕ} (hn : 2 ≤ n) (hm : 2 ≤ m)
    (hx : StrictIncr (m - 1) x) : StrictMono (XE x m n) :=
  strictMono_nat_of_lt_succ (XE_lt_succ hn hm hx)

theorem XE_strictIncr {x : ℕ → K} {m n : ℕ} (hn : 2 ≤ n) (hm : 2 ≤ m)
    (hx : StrictIncr (m - 1) x) : StrictIncr ((m + 1) * n) (XE x m n) :=
  fun p _ => XE_lt_succ hn hm hx p

theorem XE_injective {x : ℕ → K} {m n : ℕ} (hn : 2 ≤ n) (hm : 2 ≤ m)
    (hx : StrictIncr (m - 1) x) {p q : ℕ} (h : p ≠ q) : XE x m n p ≠ XE x m n q :=
  fun he => h ((XE_strictMono hn hm hx).injective he)

/-! ### `YE`, `Yk` -/

theorem YE_eq (y : ℕ → K) {m n : ℕ} (hn : 2 ≤ n) (hm : 1 ≤ m) (p : ℕ) :
    YE y m n p = if p < n then y 0 else if p < m * n + 1 then y ((p - n) / n) else y (m - 1) := by
  have hlen : oversampleLen m n + n = m * n + 1 := by
    rw [oversampleLen_eq hn]
    obtain ⟨m', rfl⟩ : ∃ m', m = m' + 1 := ⟨m - 1, by omega⟩
    simp only [Nat.add_sub_cancel, Nat.add_mul, Nat.one_mul]; omega
  have hmn : n ≤ m * n := Nat.le_mul_of_pos_left n (by omega)
  have hA : (m * n + 1 - 1 - n) / n = m - 1 := by
    obtain ⟨m', rfl⟩ : ∃ m', m = m' + 1 := ⟨m - 1, by omega⟩
    have : (m' + 1) * n + 1 - 1 - n = m' * n + 0 := by
      simp only [Nat.add_mul, Nat.one_mul]; omega
    rw [this, div_of_decomp m' (by omega), Nat.add_sub_cancel]
  simp only [YE, extendConst_both, hlen, oversamplePC_eq y hn, Nat.zero_div]
  by_cases hp1 : p < n
  · rw [if_pos (by omega), if_pos hp1, if_pos hp1]
  · by_cases hp2 : p < m * n + 1
    · rw [if_pos hp2, if_neg hp1, if_neg hp1, if_pos hp2]
    · rw [if_neg hp2, if_neg hp1, if_neg hp2, if_neg (by omega : ¬ m * n + 1 - 1 < n), hA]

theorem Yk_zero (y : ℕ → K) {m n : ℕ} (hn : 2 ≤ n) (hm : 1 ≤ m) : Yk y m n 0 = y 0 := by
  unfold Yk
  rw [YE_eq y hn hm, if_pos (by omega)]

theorem Yk_mid (y : ℕ → K) {m n : ℕ} (hn : 2 ≤ n) {k : ℕ} (hk1 : 1 ≤ k) (hk : k ≤ m) :
    Yk y m n k = y (k - 1) := by
  unfold Yk
  obtain ⟨k', rfl⟩ : ∃ k', k = k' + 1 := ⟨k - 1, by omega⟩
  have h1 : n ≤ (k' + 1) * n := Nat.le_mul_of_pos_left n (by omega)
  have h2 : (k' + 1) * n ≤ m * n := Nat.mul_le_mul_right n hk
  rw [YE_eq y hn (by omega), if_neg (by omega), if_pos (by omega)]
  have : (k' + 1) * n - n = k' * n + 0 := by simp only [Nat.add_mul, Nat.one_mul]; omega
  rw [this, div_of_decomp k' (by omega), Nat.add_sub_cancel]

/-- beyond the right virtual interval the constant extension repeats the last value -/
theorem Yk_beyond (y : ℕ → K) {m n : ℕ} (hn : 2 ≤ n) (hm : 1 ≤ m) {k : ℕ} (hk : m < k) :
    Yk y m n k = y (m - 1) := by
  unfold Yk
  have h1 : n ≤ m * n := Nat.le_mul_of_pos_left n (by omega)
  have h2 : (m + 1) * n ≤ k * n := Nat.mul_le_mul_right n hk
  have h3 : (m + 1) * n = m * n + n := by simp only [Nat.add_mul, Nat.one_mul]
  rw [YE_eq y hn hm, if_neg (by omega), if_neg (by omega)]

/-- `y` is constant on every extended interval -/
theorem YE_const (y : ℕ → K) {m n : ℕ} (hn : 2 ≤ n) (hm : 1 ≤ m) {k j : ℕ} (hk : k ≤ m)
    (hj : j < n) : YE y m n (k * n + j) = Yk y m n k := by
  rcases Nat.eq_zero_or_pos k with rfl | hk0
  · rw [Yk_zero y hn hm, Nat.zero_mul, Nat.zero_add, YE_eq y hn hm, if_pos hj]
  · rw [Yk_mid y hn hk0 hk]
    obtain ⟨k', rfl⟩ : ∃ k', k = k' + 1 := ⟨k - 1, by omega⟩
    have h1 : n ≤ (k' + 1) * n := Nat.le_mul_of_pos_left n (by omega)
    have h2 : (k' + 1) * n ≤ m * n := Nat.mul_le_mul_right n hk
    rw [YE_eq y hn hm, if_neg (by omega), Nat.add_sub_cancel]
    by_cases hp : (k' + 1) * n + j < m * n + 1
    · rw [if_pos hp]
      have : (k' + 1) * n + j - n = k' * n + j := by
        simp only [Nat.add_mul, Nat.one_mul]; omega
      rw [this, div_of_decomp k' hj]
    · rw [if_neg hp]
      have : k' + 1 = m := by
        by_contra hne
        have : (k' + 2) * n ≤ m * n := Nat.mul_le_mul_right n (by omega)
        simp only [Nat.add_mul, Nat.one_mul] at this h1 h2 hp
        omega
      rw [← this, Nat.add_sub_cancel]

/-! ### equivariance of the grids under affine maps -/

theorem XE_affine (x : ℕ → K) (c d : K) (m n p : ℕ) :
    XE (fun i => c * x i + d) m n p = c * XE x m n p + d := by
  simp only [XE, extendLin_both, extendLinRight,
    extendLinLeft, Option.getD_none, two_eq, oversampleLin]
  split_ifs <;> ring

theorem outX_affine (x : ℕ → K) (c d : K) (m n j : ℕ) :
    outX (fun i => c * x i + d) m n j = c * outX x m n j + d :=
  XE_affine x c d m n (n + j)

theorem YE_affine (y : ℕ → K) (a b : K) (m n p : ℕ) :
    YE (fun i => a * y i + b) m n p = a * YE y m n p + b := by
  simp only [YE, extendConst_both, oversamplePC]
  split_ifs <;> rfl

theorem Yk_affine (y : ℕ → K) (a b : K) (m n k : ℕ) :
    Yk (fun i => a * y i + b) m n k = a * Yk y m n k + b :=
  YE_affine y a b m n (k * n)

end Rfa
end TWV
