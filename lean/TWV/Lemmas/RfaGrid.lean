import TWV.Model.Rfa
import TWV.Lemmas.Basic
import TWV.Lemmas.PowLike

/-!
# Closed forms of the extended grids of `rfa.py`

`XE x m n` is the abscissa array after `_initial_x_oversample` and
`extend_linspace(direction='both')`, `YE y m n` the value array after `_initial_y_oversample` and
`extend_constant(direction='both')`.  With the *virtual abscissae*

  `xv x m 0 = 2 x 0 - x 1`,  `xv x m k = x (k - 1)` (`1 ≤ k ≤ m`),  `xv x m (m+1) = 2 x (m-1) - x (m-2)`

extended interval `k` (`k ≤ m`) runs linearly from `xv k` to `xv (k + 1)` in `n` equal steps; the
linear continuation of the last interval describes all later indices as well.

The second half of the file (from "The shape functions under …" on) is stated for an *abstract*
extended grid `X : ℕ → K` and abstract extended averages `Y : ℕ → K`: equivariance of the shape
functions and transition values under affine maps, the neighbours each transition value reads,
and the affine-combination (`Comb3`) form of every recreated value for given windows.

Used by `TWV/Properties/C04.lean` and `C07.lean` (and available to `C05`, `C06`).
-/

set_option linter.unusedSectionVars false

namespace TWV
namespace Rfa

variable {K : Type} [Field K] [LinearOrder K] [IsStrictOrderedRing K]

/-! ### division with remainder by a variable -/

theorem div_of_decomp {n j : ℕ} (k : ℕ) (hj : j < n) : (k * n + j) / n = k := by
  have hn : 0 < n := by omega
  rw [Nat.mul_comm, Nat.mul_add_div hn, Nat.div_eq_of_lt hj, Nat.add_zero]

theorem mod_of_decomp {n j : ℕ} (k : ℕ) (hj : j < n) : (k * n + j) % n = j := by
  rw [Nat.mul_comm, Nat.mul_add_mod, Nat.mod_eq_of_lt hj]

theorem decomp (p n : ℕ) : p = p / n * n + p % n := by
  have := Nat.div_add_mod p n
  rw [Nat.mul_comm] at this
  exact this.symm

/-- a result index `j < outLen m n` lies in extended interval `j / n + 1 ≤ m` -/
theorem interval_le {m n j : ℕ} (hn : 2 ≤ n) (hm : 2 ≤ m) (hj : j < outLen m n) :
    j / n + 1 ≤ m := by
  have h1 : j ≤ (m - 1) * n := Nat.le_of_lt_succ hj
  have h2 : j / n ≤ (m - 1) * n / n := Nat.div_le_div_right h1
  rw [Nat.mul_div_cancel _ (by omega : 0 < n)] at h2
  omega

theorem natCast_ne_zero_of_two_le {n : ℕ} (hn : 2 ≤ n) : (n : K) ≠ 0 := by
  have : (0 : K) < (n : K) := by exact_mod_cast (by omega : 0 < n)
  exact ne_of_gt this

theorem natCast_pos_of_two_le {n : ℕ} (hn : 2 ≤ n) : (0 : K) < (n : K) := by
  exact_mod_cast (by omega : 0 < n)

/-! ### the oversampled arrays -/

theorem oversampleLen_eq {m n : ℕ} (hn : 2 ≤ n) : oversampleLen m n = (m - 1) * n + 1 := by
  unfold oversampleLen; rw [if_neg (by omega)]

theorem oversampleLin_decomp (x : ℕ → K) {n : ℕ} (hn : 2 ≤ n) (k j : ℕ) (hj : j < n) :
    oversampleLin x n (k * n + j) = x k + (j : K) * ((x (k + 1) - x k) / (n : K)) := by
  unfold oversampleLin
  rw [if_neg (by omega), div_of_decomp k hj, mod_of_decomp k hj]

theorem oversampleLin_knot (x : ℕ → K) {n : ℕ} (hn : 2 ≤ n) (k : ℕ) :
    oversampleLin x n (k * n) = x k := by
  have := oversampleLin_decomp x hn k 0 (by omega)
  simpa using this

theorem oversamplePC_eq (y : ℕ → K) {n : ℕ} (hn : 2 ≤ n) (i : ℕ) :
    oversamplePC y n i = y (i / n) := by
  unfold oversamplePC; rw [if_neg (by omega)]

/-! ### `XE` as a three-piece function -/

theorem extendLin_both (a : ℕ → K) (m n : ℕ) :
    extendLin a m n .both none none
      = extendLinRight (extendLinLeft a n none) (m + n) n none := rfl

theorem extendConst_both (a : ℕ → K) (m n : ℕ) :
    extendConst a m n .both
      = fun i => if i < m + n then (if i < n then a 0 else a (i - n))
                 else (if m + n - 1 < n then a 0 else a (m + n - 1 - n)) := rfl

/-- `extend_linspace(direction='both')` around the oversampled grid: the left virtual interval,
the oversampled grid itself, the (linearly continued) right virtual interval -/
theorem XE_eq (x : ℕ → K) {m n : ℕ} (hn : 2 ≤ n) (hm : 2 ≤ m) (p : ℕ) :
    XE x m n p =
      if p < n then (2 * x 0 - x 1) + (p : K) * ((x 0 - (2 * x 0 - x 1)) / (n : K))
      else if p < m * n + 1 then oversampleLin x n (p - n)
      else x (m - 1) + ((p - m * n : ℕ) : K) * (((2 * x (m - 1) - x (m - 2)) - x (m - 1)) / (n : K)) := by
  have hlen : oversampleLen m n + n = m * n + 1 := by
    rw [oversampleLen_eq hn]
    obtain ⟨m', rfl⟩ : ∃ m', m = m' + 1 := ⟨m - 1, by omega⟩
    simp only [Nat.add_sub_cancel, Nat.add_mul, Nat.one_mul]; omega
  have h0 : oversampleLin x n 0 = x 0 := by simpa using oversampleLin_knot x hn 0
  have h1 : oversampleLin x n n = x 1 := by simpa using oversampleLin_knot x hn 1
  have hA : m * n + 1 - 1 - n = (m - 1) * n := by
    obtain ⟨m', rfl⟩ : ∃ m', m = m' + 1 := ⟨m - 1, by omega⟩
    simp only [Nat.add_sub_cancel, Nat.add_mul, Nat.one_mul]
  have hB : (m - 1) * n - n = (m - 2) * n := by
    obtain ⟨m', rfl⟩ : ∃ m', m = m' + 2 := ⟨m - 2, by omega⟩
    have : m' + 2 - 1 = m' + 1 := by omega
    rw [this, Nat.add_sub_cancel, Nat.add_mul, Nat.one_mul, Nat.add_sub_cancel]
  have hmn : n ≤ m * n := Nat.le_mul_of_pos_left n (by omega)
  have h2n : 2 * n ≤ m * n := Nat.mul_le_mul_right n hm
  simp only [XE, extendLin_both, extendLinRight,
    extendLinLeft, Option.getD_none, hlen, two_eq, h0, h1]
  by_cases hp1 : p < n
  · rw [if_pos (by omega), if_pos hp1, if_pos hp1]
  · by_cases hp2 : p < m * n + 1
    · rw [if_pos hp2, if_neg hp1, if_neg hp1, if_pos hp2]
    · rw [if_neg hp2, if_neg hp1, if_neg hp2]
      rw [if_neg (by omega : ¬ m * n + 1 - 1 < n), if_neg (by omega : ¬ m * n + 1 - 1 - n < n),
        hA, hB, oversampleLin_knot x hn, oversampleLin_knot x hn]
      have : p - (m * n + 1) + 1 = p - m * n := by omega
      rw [this]

/-! ### closed forms -/

/-- interior intervals: extended interval `k` spans the original abscissae `x (k-1) … x k` -/
theorem XE_mid (x : ℕ → K) {m n : ℕ} (hn : 2 ≤ n) (hm : 2 ≤ m) {k j : ℕ} (hk1 : 1 ≤ k)
    (hk : k ≤ m - 1) (hj : j < n) :
    XE x m n (k * n + j) = x (k - 1) + (j : K) * ((x k - x (k - 1)) / (n : K)) := by
  obtain ⟨k', rfl⟩ : ∃ k', k = k' + 1 := ⟨k - 1, by omega⟩
  have hlt : (k' + 1) * n + j < m * n + 1 := by
    have : (k' + 1) * n + n ≤ m * n := by
      have h := Nat.mul_le_mul_right n (by omega : k' + 1 + 1 ≤ m)
      rwa [Nat.add_mul (k' + 1) 1 n, Nat.one_mul] at h
    omega
  have hge : ¬ (k' + 1) * n + j < n := by
    have : n ≤ (k' + 1) * n := Nat.le_mul_of_pos_left n (by omega)
    omega
  rw [XE_eq x hn hm, if_neg hge, if_pos hlt]
  have : (k' + 1) * n + j - n = k' * n + j := by
    simp only [Nat.add_mul, Nat.one_mul]; omega
  rw [this, oversampleLin_decomp x hn k' j hj, Nat.add_sub_cancel]

theorem XE_last (x : ℕ → K) {m n : ℕ} (hn : 2 ≤ n) (hm : 2 ≤ m) :
    XE x m n (m * n) = x (m - 1) := by
  have hmn : n ≤ m * n := Nat.le_mul_of_pos_left n (by omega)
  rw [XE_eq x hn hm, if_neg (by omega), if_pos (by omega)]
  have : m * n - n = (m - 1) * n := by
    obtain ⟨m', rfl⟩ : ∃ m', m = m' + 1 := ⟨m - 1, by omega⟩
    simp only [Nat.add_sub_cancel, Nat.add_mul, Nat.one_mul]
  rw [this, oversampleLin_knot x hn]

/-- the left virtual interval spans `2 x 0 - x 1 … x 0` -/
theorem XE_left (x : ℕ → K) {m n : ℕ} (hn : 2 ≤ n) (hm : 2 ≤ m) {j : ℕ} (hj : j < n) :
    XE x m n j = (2 * x 0 - x 1) + (j : K) * ((x 0 - (2 * x 0 - x 1)) / (n : K)) := by
  rw [XE_eq x hn hm, if_pos hj]

/-- the right virtual interval spans `x (m-1) … 2 x (m-1) - x (m-2)`; the formula also describes
every later index (and `j = 0`) -/
theorem XE_right' (x : ℕ → K) {m n : ℕ} (hn : 2 ≤ n) (hm : 2 ≤ m) (j : ℕ) :
    XE x m n (m * n + j) =
      x (m - 1) + (j : K) * (((2 * x (m - 1) - x (m - 2)) - x (m - 1)) / (n : K)) := by
  rcases Nat.eq_zero_or_pos j with rfl | hj
  · rw [Nat.add_zero, XE_last x hn hm]; simp
  · have hmn : n ≤ m * n := Nat.le_mul_of_pos_left n (by omega)
    rw [XE_eq x hn hm, if_neg (by omega), if_neg (by omega), Nat.add_sub_cancel_left]

theorem XE_right (x : ℕ → K) {m n : ℕ} (hn : 2 ≤ n) (hm : 2 ≤ m) {j : ℕ} (_hj1 : 1 ≤ j)
    (_hj : j ≤ n) :
    XE x m n (m * n + j) =
      x (m - 1) + (j : K) * (((2 * x (m - 1) - x (m - 2)) - x (m - 1)) / (n : K)) :=
  XE_right' x hn hm j

/-! ### the virtual abscissae: one formula for all extended intervals -/

/-- start of extended interval `k` (`k ≤ m + 1`) -/
def xv (x : ℕ → K) (m : ℕ) (k : ℕ) : K :=
  if k = 0 then 2 * x 0 - x 1 else if k ≤ m then x (k - 1) else 2 * x (m - 1) - x (m - 2)

theorem XE_interval (x : ℕ → K) {m n : ℕ} (hn : 2 ≤ n) (hm : 2 ≤ m) {k j : ℕ} (hk : k ≤ m)
    (hj : j < n) :
    XE x m n (k * n + j) = xv x m k + (j : K) * ((xv x m (k + 1) - xv x m k) / (n : K)) := by
  rcases Nat.eq_zero_or_pos k with rfl | hk0
  · rw [Nat.zero_mul, Nat.zero_add, XE_left x hn hm hj]
    simp [xv, show 1 ≤ m by omega]
  · rcases Nat.lt_or_ge k m with hkm | hkm
    · rw [XE_mid x hn hm hk0 (by omega) hj]
      simp [xv, show k ≠ 0 by omega, show k ≤ m by omega, show k + 1 ≤ m by omega]
    · have : k = m := by omega
      subst this
      rw [XE_right' x hn hm j]
      simp [xv, show k ≠ 0 by omega]

/-- the same with the right end point included -/
theorem XE_interval_le (x : ℕ → K) {m n : ℕ} (hn : 2 ≤ n) (hm : 2 ≤ m) {k j : ℕ} (hk : k ≤ m)
    (hj : j ≤ n) :
    XE x m n (k * n + j) = xv x m k + (j : K) * ((xv x m (k + 1) - xv x m k) / (n : K)) := by
  rcases Nat.lt_or_ge j n with h | h
  · exact XE_interval x hn hm hk h
  · have hjn : j = n := by omega
    subst hjn
    have hn0 : (j : K) ≠ 0 := natCast_ne_zero_of_two_le hn
    rw [mul_div_cancel₀ _ hn0, add_sub_cancel]
    rcases Nat.lt_or_ge k m with hkm | hkm
    · have := XE_interval x hn hm (show k + 1 ≤ m by omega) (show 0 < j by omega)
      simpa [Nat.add_mul] using this
    · have : k = m := by omega
      subst this
      rw [XE_right' x hn hm j, mul_div_cancel₀ _ hn0]
      simp [xv, show k ≠ 0 by omega]

theorem xv_strictIncr {x : ℕ → K} {m : ℕ} (hm : 2 ≤ m) (hx : StrictIncr (m - 1) x) :
    StrictIncr (m + 1) (xv x m) := by
  intro k hk
  unfold xv
  rcases Nat.eq_zero_or_pos k with rfl | hk0
  · have := hx 0 (by omega)
    simp only [if_true, Nat.zero_add, one_ne_zero, if_false, show 1 ≤ m by omega, Nat.sub_self]
    linarith
  · rw [if_neg (show ¬ k = 0 by omega), if_neg (show ¬ k + 1 = 0 by omega),
      if_pos (show k ≤ m by omega), Nat.add_sub_cancel]
    rcases Nat.lt_or_ge k m with hkm | hkm
    · rw [if_pos (show k + 1 ≤ m by omega)]
      have := hx (k - 1) (by omega)
      rwa [show k - 1 + 1 = k by omega] at this
    · rw [if_neg (show ¬ k + 1 ≤ m by omega)]
      have hk' : k = m := by omega
      subst hk'
      have := hx (k - 2) (by omega)
      rw [show k - 2 + 1 = k - 1 by omega] at this
      linarith

/-! ### monotonicity -/

/-- every step of the extended grid is positive (also beyond the right virtual interval) -/
theorem XE_lt_succ {x : ℕ → K} {m n : ℕ} (hn : 2 ≤ n) (hm : 2 ≤ m) (hx : StrictIncr (m - 1) x)
    (p : ℕ) : XE x m n p < XE x m n (p + 1) := by
  have hn0 : (0 : K) < (n : K) := natCast_pos_of_two_le hn
  rcases Nat.lt_or_ge p (m * n) with hp | hp
  · -- inside extended interval `k = p / n ≤ m - 1`
    have hj : p % n < n := Nat.mod_lt _ (by omega)
    have hk : p / n ≤ m := by
      by_contra h
      have : m * n ≤ p / n * n := Nat.mul_le_mul_right n (by omega)
      have := decomp p n
      omega
    have hdec := decomp p n
    have e1 := XE_interval_le x hn hm hk (le_of_lt hj)
    have e2 := XE_interval_le x hn hm hk (show p % n + 1 ≤ n by omega)
    rw [← hdec] at e1
    rw [← Nat.add_assoc, ← hdec] at e2
    rw [e1, e2]
    have hd : 0 < (xv x m (p / n + 1) - xv x m (p / n)) / (n : K) :=
      div_pos (sub_pos.mpr (xv_strictIncr hm hx _ (by omega))) hn0
    push_cast
    nlinarith
  · obtain ⟨j, rfl⟩ : ∃ j, p = m * n + j := ⟨p - m * n, by omega⟩
    rw [Nat.add_assoc, XE_right' x hn hm j, XE_right' x hn hm (j + 1)]
    have := hx (m - 2) (by omega)
    rw [show m - 2 + 1 = m - 1 by omega] at this
    have hd : 0 < ((2 * x (m - 1) - x (m - 2)) - x (m - 1)) / (n : K) :=
      div_pos (by linarith) hn0
    push_cast
    nlinarith

theorem XE_strictMono {x : ℕ → K} {m n : ℕ} (hn : 2 ≤ n) (hm : 2 ≤ m)
    (hx : StrictIncr (m - 1) x) : StrictMono (XE x m n) :=
  strictMono_nat_of_lt_succ (XE_lt_succ hn hm hx)

theorem XE_strictIncr {x : ℕ → K} {m n : ℕ} (hn : 2 ≤ n) (hm : 2 ≤ m)
    (hx : StrictIncr (m - 1) x) : StrictIncr ((m + 1) * n) (XE x m n) :=
  fun p _ => XE_lt_succ hn hm hx p

theorem XE_injective {x : ℕ → K} {m n : ℕ} (hn : 2 ≤ n) (hm : 2 ≤ m)
    (hx : StrictIncr (m - 1) x) {p q : ℕ} (h : p ≠ q) : XE x m n p ≠ XE x m n q :=
  fun he => h ((XE_strictMono hn hm hx).injective he)

/-! ### `YE`, `Yk` -/

theorem YE_eq (y : ℕ → K) {m n : ℕ} (hn : 2 ≤ n) (hm : 1 ≤ m) (p : ℕ) :
    YE y m n p = if p < n then y 0 else if p < m * n + 1 then y ((p - n) / n) else y (m - 1) := by
  have hlen : oversampleLen m n + n = m * n + 1 := by
    rw [oversampleLen_eq hn]
    obtain ⟨m', rfl⟩ : ∃ m', m = m' + 1 := ⟨m - 1, by omega⟩
    simp only [Nat.add_sub_cancel, Nat.add_mul, Nat.one_mul]; omega
  have hmn : n ≤ m * n := Nat.le_mul_of_pos_left n (by omega)
  have hA : (m * n + 1 - 1 - n) / n = m - 1 := by
    obtain ⟨m', rfl⟩ : ∃ m', m = m' + 1 := ⟨m - 1, by omega⟩
    have : (m' + 1) * n + 1 - 1 - n = m' * n + 0 := by
      simp only [Nat.add_mul, Nat.one_mul]; omega
    rw [this, div_of_decomp m' (by omega), Nat.add_sub_cancel]
  simp only [YE, extendConst_both, hlen, oversamplePC_eq y hn, Nat.zero_div]
  by_cases hp1 : p < n
  · rw [if_pos (by omega), if_pos hp1, if_pos hp1]
  · by_cases hp2 : p < m * n + 1
    · rw [if_pos hp2, if_neg hp1, if_neg hp1, if_pos hp2]
    · rw [if_neg hp2, if_neg hp1, if_neg hp2, if_neg (by omega : ¬ m * n + 1 - 1 < n), hA]

theorem Yk_zero (y : ℕ → K) {m n : ℕ} (hn : 2 ≤ n) (hm : 1 ≤ m) : Yk y m n 0 = y 0 := by
  unfold Yk
  rw [YE_eq y hn hm, if_pos (by omega)]

theorem Yk_mid (y : ℕ → K) {m n : ℕ} (hn : 2 ≤ n) {k : ℕ} (hk1 : 1 ≤ k) (hk : k ≤ m) :
    Yk y m n k = y (k - 1) := by
  unfold Yk
  obtain ⟨k', rfl⟩ : ∃ k', k = k' + 1 := ⟨k - 1, by omega⟩
  have h1 : n ≤ (k' + 1) * n := Nat.le_mul_of_pos_left n (by omega)
  have h2 : (k' + 1) * n ≤ m * n := Nat.mul_le_mul_right n hk
  rw [YE_eq y hn (by omega), if_neg (by omega), if_pos (by omega)]
  have : (k' + 1) * n - n = k' * n + 0 := by simp only [Nat.add_mul, Nat.one_mul]; omega
  rw [this, div_of_decomp k' (by omega), Nat.add_sub_cancel]

/-- beyond the right virtual interval the constant extension repeats the last value -/
theorem Yk_beyond (y : ℕ → K) {m n : ℕ} (hn : 2 ≤ n) (hm : 1 ≤ m) {k : ℕ} (hk : m < k) :
    Yk y m n k = y (m - 1) := by
  unfold Yk
  have h1 : n ≤ m * n := Nat.le_mul_of_pos_left n (by omega)
  have h2 : (m + 1) * n ≤ k * n := Nat.mul_le_mul_right n hk
  have h3 : (m + 1) * n = m * n + n := by simp only [Nat.add_mul, Nat.one_mul]
  rw [YE_eq y hn hm, if_neg (by omega), if_neg (by omega)]

/-- `y` is constant on every extended interval -/
theorem YE_const (y : ℕ → K) {m n : ℕ} (hn : 2 ≤ n) (hm : 1 ≤ m) {k j : ℕ} (hk : k ≤ m)
    (hj : j < n) : YE y m n (k * n + j) = Yk y m n k := by
  rcases Nat.eq_zero_or_pos k with rfl | hk0
  · rw [Yk_zero y hn hm, Nat.zero_mul, Nat.zero_add, YE_eq y hn hm, if_pos hj]
  · rw [Yk_mid y hn hk0 hk]
    obtain ⟨k', rfl⟩ : ∃ k', k = k' + 1 := ⟨k - 1, by omega⟩
    have h1 : n ≤ (k' + 1) * n := Nat.le_mul_of_pos_left n (by omega)
    have h2 : (k' + 1) * n ≤ m * n := Nat.mul_le_mul_right n hk
    rw [YE_eq y hn hm, if_neg (by omega), Nat.add_sub_cancel]
    by_cases hp : (k' + 1) * n + j < m * n + 1
    · rw [if_pos hp]
      have : (k' + 1) * n + j - n = k' * n + j := by
        simp only [Nat.add_mul, Nat.one_mul]; omega
      rw [this, div_of_decomp k' hj]
    · rw [if_neg hp]
      have : k' + 1 = m := by
        by_contra hne
        have : (k' + 2) * n ≤ m * n := Nat.mul_le_mul_right n (by omega)
        simp only [Nat.add_mul, Nat.one_mul] at this h1 h2 hp
        omega
      rw [← this, Nat.add_sub_cancel]

/-! ### equivariance of the grids under affine maps -/

theorem XE_affine (x : ℕ → K) (c d : K) (m n p : ℕ) :
    XE (fun i => c * x i + d) m n p = c * XE x m n p + d := by
  simp only [XE, extendLin_both, extendLinRight,
    extendLinLeft, Option.getD_none, two_eq, oversampleLin]
  split_ifs <;> ring

theorem outX_affine (x : ℕ → K) (c d : K) (m n j : ℕ) :
    outX (fun i => c * x i + d) m n j = c * outX x m n j + d :=
  XE_affine x c d m n (n + j)

theorem YE_affine (y : ℕ → K) (a b : K) (m n p : ℕ) :
    YE (fun i => a * y i + b) m n p = a * YE y m n p + b := by
  simp only [YE, extendConst_both, oversamplePC]
  split_ifs <;> rfl

theorem Yk_affine (y : ℕ → K) (a b : K) (m n k : ℕ) :
    Yk (fun i => a * y i + b) m n k = a * Yk y m n k + b :=
  YE_affine y a b m n (k * n)

/-! ## The shape functions under `y ↦ a y + b` -/

theorem linFit_affine_y (t x0 x1 y0 y1 a b : K) :
    linFit t (x0, a * y0 + b) (x1, a * y1 + b) = a * linFit t (x0, y0) (x1, y1) + b := by
  simp only [linFit]; ring

theorem expFit_affine_y (pw : K → K) (t x0 x1 y0 y1 a b : K) :
    expFit pw t (x0, a * y0 + b) (x1, a * y1 + b) = a * expFit pw t (x0, y0) (x1, y1) + b := by
  simp only [expFit]; ring

theorem expXYFit_affine_y (pw : K → K) (t x0 x1 y0 y1 a b : K) :
    expXYFit pw t (x0, a * y0 + b) (x1, a * y1 + b) = a * expXYFit pw t (x0, y0) (x1, y1) + b := by
  simp only [expXYFit]; ring

/-- the two blends are affine-equivariant because their two weights `(t - x0)/(x1 - x0)` and
`(x1 - t)/(x1 - x0)` sum to one — which needs `x0 ≠ x1` (for `x0 = x1` both weights are `0` in
Lean and the code divides by zero) -/
theorem expLinFit_affine_y (pw : K → K) (t x0 x1 y0 y1 a b : K) (h : x0 ≠ x1) :
    expLinFit pw t (x0, a * y0 + b) (x1, a * y1 + b)
      = a * expLinFit pw t (x0, y0) (x1, y1) + b := by
  have hd : x1 - x0 ≠ 0 := sub_ne_zero.mpr (Ne.symm h)
  simp only [expLinFit, linFit_affine_y, expFit_affine_y]
  generalize linFit t (x0, y0) (x1, y1) = L
  generalize expFit pw t (x0, y0) (x1, y1) = E
  field_simp
  ring

theorem linExpXYFit_affine_y (pw : K → K) (t x0 x1 y0 y1 a b : K) (h : x0 ≠ x1) :
    linExpXYFit pw t (x0, a * y0 + b) (x1, a * y1 + b)
      = a * linExpXYFit pw t (x0, y0) (x1, y1) + b := by
  have hd : x1 - x0 ≠ 0 := sub_ne_zero.mpr (Ne.symm h)
  simp only [linExpXYFit, linFit_affine_y, expXYFit_affine_y]
  generalize linFit t (x0, y0) (x1, y1) = L
  generalize expXYFit pw t (x0, y0) (x1, y1) = E
  field_simp
  ring

/-- pure rescaling needs no hypothesis -/
theorem expLinFit_scale_y (pw : K → K) (t x0 x1 y0 y1 a : K) :
    expLinFit pw t (x0, a * y0) (x1, a * y1) = a * expLinFit pw t (x0, y0) (x1, y1) := by
  simp only [expLinFit, linFit, expFit]; ring

theorem linExpXYFit_scale_y (pw : K → K) (t x0 x1 y0 y1 a : K) :
    linExpXYFit pw t (x0, a * y0) (x1, a * y1) = a * linExpXYFit pw t (x0, y0) (x1, y1) := by
  simp only [linExpXYFit, linFit, expXYFit]; ring

/-! ## The shape functions under `x ↦ c x + d` -/

theorem ratio_affine (c d s t u v : K) (hc : c ≠ 0) :
    (c * s + d - (c * t + d)) / (c * u + d - (c * v + d)) = (s - t) / (u - v) := by
  rw [show c * s + d - (c * t + d) = c * (s - t) by ring,
    show c * u + d - (c * v + d) = c * (u - v) by ring, mul_div_mul_left _ _ hc]

theorem linFit_ratio (t : K) (p0 p1 : K × K) :
    linFit t p0 p1 = p0.2 + (p1.2 - p0.2) * ((t - p0.1) / (p1.1 - p0.1)) := by
  simp only [linFit, mul_div_assoc]

theorem expLinFit_ratio (pw : K → K) (t : K) (p0 p1 : K × K) :
    expLinFit pw t p0 p1 = linFit t p0 p1 * ((t - p0.1) / (p1.1 - p0.1))
      + expFit pw t p0 p1 * ((p1.1 - t) / (p1.1 - p0.1)) := by
  simp only [expLinFit, mul_div_assoc]

theorem linExpXYFit_ratio (pw : K → K) (t : K) (p0 p1 : K × K) :
    linExpXYFit pw t p0 p1 = expXYFit pw t p0 p1 * ((t - p0.1) / (p1.1 - p0.1))
      + linFit t p0 p1 * ((p1.1 - t) / (p1.1 - p0.1)) := by
  simp only [linExpXYFit, mul_div_assoc]

theorem linFit_affine_x (t x0 x1 y0 y1 c d : K) (hc : c ≠ 0) :
    linFit (c * t + d) (c * x0 + d, y0) (c * x1 + d, y1) = linFit t (x0, y0) (x1, y1) := by
  simp only [linFit_ratio, ratio_affine _ _ _ _ _ _ hc]

theorem expFit_affine_x (pw : K → K) (t x0 x1 y0 y1 c d : K) (hc : c ≠ 0) :
    expFit pw (c * t + d) (c * x0 + d, y0) (c * x1 + d, y1) = expFit pw t (x0, y0) (x1, y1) := by
  simp only [expFit, ratio_affine _ _ _ _ _ _ hc]

theorem expXYFit_affine_x (pw : K → K) (t x0 x1 y0 y1 c d : K) (hc : c ≠ 0) :
    expXYFit pw (c * t + d) (c * x0 + d, y0) (c * x1 + d, y1)
      = expXYFit pw t (x0, y0) (x1, y1) := by
  simp only [expXYFit, ratio_affine _ _ _ _ _ _ hc]

theorem expLinFit_affine_x (pw : K → K) (t x0 x1 y0 y1 c d : K) (hc : c ≠ 0) :
    expLinFit pw (c * t + d) (c * x0 + d, y0) (c * x1 + d, y1)
      = expLinFit pw t (x0, y0) (x1, y1) := by
  simp only [expLinFit_ratio, linFit_affine_x _ _ _ _ _ _ _ hc, expFit_affine_x _ _ _ _ _ _ _ _ hc,
    ratio_affine _ _ _ _ _ _ hc]

theorem linExpXYFit_affine_x (pw : K → K) (t x0 x1 y0 y1 c d : K) (hc : c ≠ 0) :
    linExpXYFit pw (c * t + d) (c * x0 + d, y0) (c * x1 + d, y1)
      = linExpXYFit pw t (x0, y0) (x1, y1) := by
  simp only [linExpXYFit_ratio, linFit_affine_x _ _ _ _ _ _ _ hc,
    expXYFit_affine_x _ _ _ _ _ _ _ _ hc, ratio_affine _ _ _ _ _ _ hc]

/-! ## Transition values under `Y ↦ a Y + b` (abstract grid) -/

section AffineY

variable (X Y : ℕ → K) (n : ℕ) (w : Windows) (ad : Bool) (a b : K)

theorem z0_affine_y (k : ℕ) :
    z0 X (fun q => a * Y q + b) n w ad k = a * z0 X Y n w ad k + b := by
  unfold z0
  split_ifs
  · rfl
  · exact linFit_affine_y ..

theorem z0lb_affine_y (k : ℕ) :
    z0lb X (fun q => a * Y q + b) n w ad k = a * z0lb X Y n w ad k + b := by
  unfold z0lb
  simp only [z0_affine_y]
  split_ifs
  · rfl
  · exact linFit_affine_y ..

theorem z0rb_affine_y (k : ℕ) :
    z0rb X (fun q => a * Y q + b) n w ad k = a * z0rb X Y n w ad k + b := by
  unfold z0rb
  simp only [z0_affine_y]
  split_ifs
  · rfl
  · exact linFit_affine_y ..

theorem linRight_affine_y (k i : ℕ) :
    linRight X (fun q => a * Y q + b) n w ad k i = a * linRight X Y n w ad k i + b := by
  unfold linRight
  simp only [z0_affine_y]
  exact linFit_affine_y ..

theorem linOut_affine_y (m j : ℕ) :
    linOut X (fun q => a * Y q + b) m n w ad j = a * linOut X Y m n w ad j + b := by
  unfold linOut
  simp only [z0_affine_y, linRight_affine_y]
  split_ifs
  · exact linFit_affine_y ..
  · rfl
  · rfl
  · rfl

/-- the exponential strategies: the two blended pieces need distinct fit abscissae, which the
branch conditions give on an injective grid -/
theorem expOut_affine_y (pw : K → K) (hX : Function.Injective X) (m j : ℕ) :
    expOut pw X (fun q => a * Y q + b) m n w ad j = a * expOut pw X Y m n w ad j + b := by
  unfold expOut
  simp only [z0_affine_y, z0lb_affine_y, z0rb_affine_y]
  split_ifs with h1 h2 h3 h4 h5
  · exact linFit_affine_y ..
  · apply linExpXYFit_affine_y
    intro he
    have := hX he
    omega
  · apply expLinFit_affine_y
    intro he
    have := hX he
    omega
  · exact linFit_affine_y ..
  · rfl
  · rfl

/-- pure rescaling (`b = 0`) needs no hypothesis on the grid -/
theorem expOut_scale_y (pw : K → K) (m j : ℕ) :
    expOut pw X (fun q => a * Y q) m n w ad j = a * expOut pw X Y m n w ad j := by
  have e : (fun q => a * Y q) = (fun q => a * Y q + 0) := by funext q; rw [add_zero]
  have l0 : ∀ t x0 x1 y0 y1 : K, linFit t (x0, a * y0) (x1, a * y1)
      = a * linFit t (x0, y0) (x1, y1) := by
    intro t x0 x1 y0 y1
    have := linFit_affine_y t x0 x1 y0 y1 a 0
    simpa using this
  unfold expOut
  simp only [e, z0_affine_y, z0lb_affine_y, z0rb_affine_y, add_zero]
  split_ifs
  · exact l0 ..
  · exact linExpXYFit_scale_y ..
  · exact expLinFit_scale_y ..
  · exact l0 ..
  · rfl
  · rfl

end AffineY

/-! ## Transition values under `X ↦ c X + d` -/

section AffineX

variable (X Y : ℕ → K) (n : ℕ) (w : Windows) (ad : Bool) (c d : K) (hc : c ≠ 0)
include hc

theorem z0_affine_x (k : ℕ) :
    z0 (fun p => c * X p + d) Y n w ad k = z0 X Y n w ad k := by
  unfold z0
  simp only [linFit_affine_x _ _ _ _ _ _ _ hc]

theorem z0lb_affine_x (k : ℕ) :
    z0lb (fun p => c * X p + d) Y n w ad k = z0lb X Y n w ad k := by
  unfold z0lb
  simp only [z0_affine_x X Y n w ad c d hc, linFit_affine_x _ _ _ _ _ _ _ hc]

theorem z0rb_affine_x (k : ℕ) :
    z0rb (fun p => c * X p + d) Y n w ad k = z0rb X Y n w ad k := by
  unfold z0rb
  simp only [z0_affine_x X Y n w ad c d hc, linFit_affine_x _ _ _ _ _ _ _ hc]

theorem linRight_affine_x (k i : ℕ) :
    linRight (fun p => c * X p + d) Y n w ad k i = linRight X Y n w ad k i := by
  unfold linRight
  simp only [z0_affine_x X Y n w ad c d hc, linFit_affine_x _ _ _ _ _ _ _ hc]

theorem linOut_affine_x (m j : ℕ) :
    linOut (fun p => c * X p + d) Y m n w ad j = linOut X Y m n w ad j := by
  unfold linOut
  simp only [z0_affine_x X Y n w ad c d hc, linRight_affine_x X Y n w ad c d hc,
    linFit_affine_x _ _ _ _ _ _ _ hc]

theorem expOut_affine_x (pw : K → K) (m j : ℕ) :
    expOut pw (fun p => c * X p + d) Y m n w ad j = expOut pw X Y m n w ad j := by
  unfold expOut
  simp only [z0_affine_x X Y n w ad c d hc, z0lb_affine_x X Y n w ad c d hc,
    z0rb_affine_x X Y n w ad c d hc, linFit_affine_x _ _ _ _ _ _ _ hc,
    expLinFit_affine_x _ _ _ _ _ _ _ _ hc, linExpXYFit_affine_x _ _ _ _ _ _ _ _ hc]

end AffineX

/-! ## The adaptive windows only read ratios of absolute jumps -/

theorem adaptiveAt_affine_y (gpow : K → K) (A : ℕ) (Y : ℕ → K) (a b : K) (ha : a ≠ 0) (k : ℕ) :
    adaptiveAt gpow A (fun q => a * Y q + b) k = adaptiveAt gpow A Y k := by
  have ha' : |a| ≠ 0 := abs_ne_zero.mpr ha
  have e : ∀ s t : K, |a * s + b - (a * t + b)| = |a| * |s - t| := by
    intro s t
    rw [show a * s + b - (a * t + b) = a * (s - t) by ring, abs_mul]
  unfold adaptiveAt
  simp only [absK_eq, e, mul_eq_zero, ha', false_or, mul_div_mul_left _ _ ha']

theorem windowsAdaptive_affine_y (gpow : K → K) (A m : ℕ) (Y : ℕ → K) (bOf : ℕ → ℕ) (a b : K)
    (ha : a ≠ 0) :
    windowsAdaptive gpow A m (fun q => a * Y q + b) bOf = windowsAdaptive gpow A m Y bOf := by
  unfold windowsAdaptive
  simp only [adaptiveAt_affine_y gpow A Y a b ha]

/-- `adaptiveAt … k` only reads `Y (k-1)`, `Y k`, `Y (k+1)` -/
theorem adaptiveAt_local (gpow : K → K) (A : ℕ) (Y Y' : ℕ → K) (k : ℕ)
    (h0 : Y (k - 1) = Y' (k - 1)) (h1 : Y k = Y' k) (h2 : Y (k + 1) = Y' (k + 1)) :
    adaptiveAt gpow A Y k = adaptiveAt gpow A Y' k := by
  unfold adaptiveAt
  rw [h0, h1, h2]

/-! ## Locality: which neighbours each transition value reads -/

/-- averages and windows agree at extended interval `k` -/
def AgreeAt (Y Y' : ℕ → K) (w w' : Windows) (k : ℕ) : Prop :=
  Y k = Y' k ∧ w.aL k = w'.aL k ∧ w.aR k = w'.aR k ∧ w.bL k = w'.bL k ∧ w.bR k = w'.bR k

section Local

variable (X : ℕ → K) {Y Y' : ℕ → K} (n : ℕ) {w w' : Windows} (ad : Bool)

/-- `z0 (q+1)` reads intervals `q` and `q+1` -/
theorem z0_congr {q : ℕ} (h0 : AgreeAt Y Y' w w' q) (h1 : AgreeAt Y Y' w w' (q + 1)) :
    z0 X Y n w ad (q + 1) = z0 X Y' n w' ad (q + 1) := by
  obtain ⟨hY0, -, hR0, -, -⟩ := h0
  obtain ⟨hY1, hL1, -, -, -⟩ := h1
  unfold z0
  simp only [Nat.add_sub_cancel]
  rw [hY0, hR0, hY1, hL1]

theorem z0lb_congr {q : ℕ} (h0 : AgreeAt Y Y' w w' q) (h1 : AgreeAt Y Y' w w' (q + 1)) :
    z0lb X Y n w ad (q + 1) = z0lb X Y' n w' ad (q + 1) := by
  have hz := z0_congr X n ad h0 h1
  obtain ⟨hY1, hL1, -, hbL1, -⟩ := h1
  unfold z0lb
  rw [hz, hY1, hL1, hbL1]

theorem z0rb_congr {q : ℕ} (h1 : AgreeAt Y Y' w w' (q + 1)) (h2 : AgreeAt Y Y' w w' (q + 1 + 1)) :
    z0rb X Y n w ad (q + 1) = z0rb X Y' n w' ad (q + 1) := by
  have hz := z0_congr X n ad h1 h2
  obtain ⟨hY1, -, hR1, -, hbR1⟩ := h1
  unfold z0rb
  rw [hz, hY1, hR1, hbR1]

theorem linRight_congr {q : ℕ} (h0 : AgreeAt Y Y' w w' q) (h1 : AgreeAt Y Y' w w' (q + 1))
    (i : ℕ) : linRight X Y n w ad q i = linRight X Y' n w' ad q i := by
  have hz := z0_congr X n ad h0 h1
  obtain ⟨hY0, -, hR0, -, -⟩ := h0
  unfold linRight
  rw [hz, hY0, hR0]

/-- the linear strategies at result index `j` (extended interval `j / n + 1`) read the averages
and windows of extended intervals `j / n`, `j / n + 1`, `j / n + 2` only -/
theorem linOut_congr (m j : ℕ) (h0 : AgreeAt Y Y' w w' (j / n))
    (h1 : AgreeAt Y Y' w w' (j / n + 1)) (h2 : AgreeAt Y Y' w w' (j / n + 1 + 1)) :
    linOut X Y m n w ad j = linOut X Y' m n w' ad j := by
  have hz1 := z0_congr X n ad h0 h1
  have hr0 := linRight_congr X n ad h0 h1 n
  have hr1 := linRight_congr X n ad h1 h2 (j % n)
  obtain ⟨-, -, hR0, -, -⟩ := h0
  obtain ⟨hY1, hL1, hR1, -, -⟩ := h1
  unfold linOut
  simp only [Nat.add_sub_cancel]
  rw [hz1, hr0, hr1, hY1, hL1, hR1, hR0]

theorem expOut_congr (pw : K → K) (m j : ℕ) (h0 : AgreeAt Y Y' w w' (j / n))
    (h1 : AgreeAt Y Y' w w' (j / n + 1)) (h2 : AgreeAt Y Y' w w' (j / n + 1 + 1)) :
    expOut pw X Y m n w ad j = expOut pw X Y' m n w' ad j := by
  have hz1 := z0_congr X n ad h0 h1
  have hz2 := z0_congr X n ad h1 h2
  have hlb := z0lb_congr X n ad h0 h1
  have hrb := z0rb_congr X n ad h1 h2
  obtain ⟨hY1, hL1, hR1, hbL1, hbR1⟩ := h1
  unfold expOut
  simp only []
  rw [hz1, hz2, hlb, hrb, hY1, hL1, hR1, hbL1, hbR1]

end Local

/-! ## For given windows every recreated value is an affine combination of three averages

`Comb3 S q f`: there are weights `c₀ c₁ c₂`, **independent of `Y`**, with `c₀ + c₁ + c₂ = 1` and
`f Y = c₀ Y q + c₁ Y (q+1) + c₂ Y (q+2)`; if the side condition `S` holds the weights are
non-negative.  (`S := False` gives the bare affine statement, `S := True` the convex one.) -/

def Comb3 (S : Prop) (q : ℕ) (f : (ℕ → K) → K) : Prop :=
  ∃ c0 c1 c2 : K, c0 + c1 + c2 = 1 ∧ (S → 0 ≤ c0 ∧ 0 ≤ c1 ∧ 0 ≤ c2) ∧
    ∀ Y : ℕ → K, f Y = c0 * Y q + c1 * Y (q + 1) + c2 * Y (q + 2)

namespace Comb3

variable {S : Prop} {q : ℕ}

theorem proj0 : Comb3 (K := K) S q (fun Y => Y q) :=
  ⟨1, 0, 0, by ring, fun _ => ⟨zero_le_one, le_rfl, le_rfl⟩, fun Y => by ring⟩

theorem proj1 : Comb3 (K := K) S q (fun Y => Y (q + 1)) :=
  ⟨0, 1, 0, by ring, fun _ => ⟨le_rfl, zero_le_one, le_rfl⟩, fun Y => by ring⟩

theorem proj2 : Comb3 (K := K) S q (fun Y => Y (q + 2)) :=
  ⟨0, 0, 1, by ring, fun _ => ⟨le_rfl, le_rfl, zero_le_one⟩, fun Y => by ring⟩

/-- mixing two combinations with a fixed weight `μ` (in `[0,1]` under `S`) -/
theorem mix {f g : (ℕ → K) → K} (hf : Comb3 S q f) (hg : Comb3 S q g) (μ : K)
    (hμ : S → 0 ≤ μ ∧ μ ≤ 1) : Comb3 S q (fun Y => f Y + (g Y - f Y) * μ) := by
  obtain ⟨a0, a1, a2, ha, hsa, hfa⟩ := hf
  obtain ⟨b0, b1, b2, hb, hsb, hgb⟩ := hg
  refine ⟨(1 - μ) * a0 + μ * b0, (1 - μ) * a1 + μ * b1, (1 - μ) * a2 + μ * b2, ?_, ?_, ?_⟩
  · have : (1 - μ) * a0 + μ * b0 + ((1 - μ) * a1 + μ * b1) + ((1 - μ) * a2 + μ * b2)
        = (1 - μ) * (a0 + a1 + a2) + μ * (b0 + b1 + b2) := by ring
    rw [this, ha, hb]; ring
  · intro s
    obtain ⟨h0, h1⟩ := hμ s
    obtain ⟨p0, p1, p2⟩ := hsa s
    obtain ⟨r0, r1, r2⟩ := hsb s
    have h1' : 0 ≤ 1 - μ := sub_nonneg.mpr h1
    exact ⟨add_nonneg (mul_nonneg h1' p0) (mul_nonneg h0 r0),
      add_nonneg (mul_nonneg h1' p1) (mul_nonneg h0 r1),
      add_nonneg (mul_nonneg h1' p2) (mul_nonneg h0 r2)⟩
  · intro Y
    simp only [hfa, hgb]; ring

theorem congr {f g : (ℕ → K) → K} (hf : Comb3 S q f) (h : ∀ Y, g Y = f Y) : Comb3 S q g := by
  have : g = f := funext h
  rwa [this]

/-- the weight of a linear fit lies in `[0,1]` when the argument lies between the abscissae
(also in the degenerate case `x0 = x1`, where Lean's quotient is `0`) -/
theorem ratio_mem {t x0 x1 : K} (h0 : x0 ≤ t) (h1 : t ≤ x1) :
    0 ≤ (t - x0) / (x1 - x0) ∧ (t - x0) / (x1 - x0) ≤ 1 := by
  have hd : 0 ≤ x1 - x0 := by linarith
  refine ⟨div_nonneg (by linarith) hd, ?_⟩
  rcases hd.eq_or_lt with h | h
  · rw [← h, div_zero]; exact zero_le_one
  · rw [div_le_one h]; linarith

theorem linFit {f g : (ℕ → K) → K} (hf : Comb3 S q f) (hg : Comb3 S q g) (t x0 x1 : K)
    (ht : S → x0 ≤ t ∧ t ≤ x1) :
    Comb3 S q (fun Y => TWV.linFit t (x0, f Y) (x1, g Y)) :=
  (mix hf hg ((t - x0) / (x1 - x0)) (fun s => ratio_mem (ht s).1 (ht s).2)).congr
    (fun _ => linFit_ratio _ _ _)

/-- `exp_lin_fit` is a mix with weight `s² + pw(s)·(1 - s)`, `s = (t - x0)/(x1 - x0)` -/
theorem expLinFit_eq_mix (pw : K → K) (t x0 x1 A B : K) (h : x0 ≠ x1) :
    TWV.expLinFit pw t (x0, A) (x1, B)
      = A + (B - A) * ((t - x0) / (x1 - x0) * ((t - x0) / (x1 - x0))
          + pw ((t - x0) / (x1 - x0)) * (1 - (t - x0) / (x1 - x0))) := by
  have hd : x1 - x0 ≠ 0 := sub_ne_zero.mpr (Ne.symm h)
  have h1 : (x1 - t) / (x1 - x0) = 1 - (t - x0) / (x1 - x0) := by
    rw [eq_sub_iff_add_eq, ← add_div, div_eq_one_iff_eq hd]; ring
  rw [expLinFit_ratio, linFit_ratio]
  simp only [TWV.expFit, h1]
  ring

/-- `lin_exp_xy_fit` is a mix with weight `(1 - pw(1 - s))·s + s·(1 - s)` -/
theorem linExpXYFit_eq_mix (pw : K → K) (t x0 x1 A B : K) (h : x0 ≠ x1) :
    TWV.linExpXYFit pw t (x0, A) (x1, B)
      = A + (B - A) * ((1 - pw (1 - (t - x0) / (x1 - x0))) * ((t - x0) / (x1 - x0))
          + (t - x0) / (x1 - x0) * (1 - (t - x0) / (x1 - x0))) := by
  have hd : x1 - x0 ≠ 0 := sub_ne_zero.mpr (Ne.symm h)
  have h1 : (x1 - t) / (x1 - x0) = 1 - (t - x0) / (x1 - x0) := by
    rw [eq_sub_iff_add_eq, ← add_div, div_eq_one_iff_eq hd]; ring
  rw [linExpXYFit_ratio, linFit_ratio]
  simp only [TWV.expXYFit, h1]
  ring

theorem expLinFit {f g : (ℕ → K) → K} (hf : Comb3 S q f) (hg : Comb3 S q g) (pw : K → K)
    (t x0 x1 : K) (hne : x0 ≠ x1) (ht : S → PowLike pw ∧ x0 ≤ t ∧ t ≤ x1) :
    Comb3 S q (fun Y => TWV.expLinFit pw t (x0, f Y) (x1, g Y)) := by
  refine (mix hf hg _ ?_).congr (fun Y => expLinFit_eq_mix pw t x0 x1 _ _ hne)
  intro s
  obtain ⟨hp, h0, h1⟩ := ht s
  obtain ⟨r0, r1⟩ := ratio_mem h0 h1
  have p0 := hp.nonneg _ r0 r1
  have p1 := hp.le_one _ r0 r1
  constructor
  · nlinarith [mul_nonneg r0 r0, mul_nonneg p0 (sub_nonneg.mpr r1)]
  · nlinarith [mul_nonneg r0 (sub_nonneg.mpr r1), mul_nonneg (sub_nonneg.mpr p1) (sub_nonneg.mpr r1)]

theorem linExpXYFit {f g : (ℕ → K) → K} (hf : Comb3 S q f) (hg : Comb3 S q g) (pw : K → K)
    (t x0 x1 : K) (hne : x0 ≠ x1) (ht : S → PowLike pw ∧ x0 ≤ t ∧ t ≤ x1) :
    Comb3 S q (fun Y => TWV.linExpXYFit pw t (x0, f Y) (x1, g Y)) := by
  refine (mix hf hg _ ?_).congr (fun Y => linExpXYFit_eq_mix pw t x0 x1 _ _ hne)
  intro s
  obtain ⟨hp, h0, h1⟩ := ht s
  obtain ⟨r0, r1⟩ := ratio_mem h0 h1
  have r1' : 0 ≤ 1 - (t - x0) / (x1 - x0) := sub_nonneg.mpr r1
  have r1'' : 1 - (t - x0) / (x1 - x0) ≤ 1 := by linarith
  have p0 := hp.nonneg _ r1' r1''
  have p1 := hp.le_one _ r1' r1''
  constructor
  · nlinarith [mul_nonneg (sub_nonneg.mpr p1) r0, mul_nonneg r0 r1']
  · nlinarith [mul_nonneg p0 r0, mul_nonneg r0 r1', mul_nonneg r1' r1']

end Comb3

section Weights

variable {S : Prop} (X : ℕ → K) (n : ℕ) (w : Windows) (ad : Bool)

/-- the border value `z0 (k+1)` from combinations for `Y k` and `Y (k+1)` -/
theorem z0_comb3 {q k : ℕ} (hA : Comb3 S q (fun Y : ℕ → K => Y k))
    (hB : Comb3 S q (fun Y : ℕ → K => Y (k + 1))) (hS : S → Monotone X) :
    Comb3 S q (fun Y => z0 X Y n w ad (k + 1)) := by
  unfold z0
  simp only [Nat.add_sub_cancel]
  split_ifs
  · exact hA
  · exact Comb3.linFit hA hB _ _ _
      (fun s => ⟨hS s (Nat.sub_le _ _), hS s (Nat.le_add_right _ _)⟩)

theorem z0lb_comb3 {q k : ℕ} (hA : Comb3 S q (fun Y : ℕ → K => Y k))
    (hB : Comb3 S q (fun Y : ℕ → K => Y (k + 1))) (hS : S → Monotone X ∧ w.bL (k + 1) ≤ w.aL (k + 1)) :
    Comb3 S q (fun Y => z0lb X Y n w ad (k + 1)) := by
  have hz := z0_comb3 X n w ad hA hB (fun s => (hS s).1)
  unfold z0lb
  split_ifs
  · exact hz
  · exact Comb3.linFit hz hB _ _ _
      (fun s => ⟨(hS s).1 (Nat.le_add_right _ _), (hS s).1 (Nat.add_le_add_left (hS s).2 _)⟩)

theorem z0rb_comb3 {q k : ℕ} (hB : Comb3 S q (fun Y : ℕ → K => Y (k + 1)))
    (hC : Comb3 S q (fun Y : ℕ → K => Y (k + 1 + 1)))
    (hS : S → Monotone X ∧ w.bR (k + 1) ≤ w.aR (k + 1)) :
    Comb3 S q (fun Y => z0rb X Y n w ad (k + 1)) := by
  have hz := z0_comb3 X n w ad hB hC (fun s => (hS s).1)
  unfold z0rb
  split_ifs
  · exact hz
  · refine Comb3.linFit hB hz _ _ _ (fun s => ⟨(hS s).1 ?_, (hS s).1 ?_⟩)
    · have := (hS s).2; omega
    · rw [Nat.add_mul (k + 1) 1 n, Nat.one_mul]; omega

theorem linRight_comb3 {q k : ℕ} (i : ℕ) (hA : Comb3 S q (fun Y : ℕ → K => Y k))
    (hB : Comb3 S q (fun Y : ℕ → K => Y (k + 1)))
    (hS : S → Monotone X ∧ n - w.aR k ≤ i ∧ i ≤ n) :
    Comb3 S q (fun Y => linRight X Y n w ad k i) := by
  have hz := z0_comb3 X n w ad hA hB (fun s => (hS s).1)
  unfold linRight
  refine Comb3.linFit hA hz _ _ _ (fun s => ⟨(hS s).1 ?_, (hS s).1 ?_⟩)
  · have := (hS s).2; omega
  · have := (hS s).2; omega

/-- **linear strategies, windows given**: the value at result index `j` is an affine combination
of the averages of extended intervals `j/n`, `j/n+1`, `j/n+2` — convex on a monotone grid -/
theorem linOut_comb3 (m j : ℕ) (hn : 0 < n) (hS : S → Monotone X) :
    Comb3 S (j / n) (fun Y => linOut X Y m n w ad j) := by
  have hi : j % n < n := Nat.mod_lt _ hn
  have hz1 := z0_comb3 X n w ad (q := j / n) Comb3.proj0 Comb3.proj1 hS
  unfold linOut
  simp only [Nat.add_sub_cancel]
  split_ifs with h1 h2 h3
  · exact Comb3.linFit hz1 Comb3.proj1 _ _ _
      (fun s => ⟨hS s (Nat.le_add_right _ _), hS s (Nat.add_le_add_left (le_of_lt h1.2) _)⟩)
  · exact linRight_comb3 X n w ad _ Comb3.proj1 Comb3.proj2
      (fun s => ⟨hS s, by omega, by omega⟩)
  · exact linRight_comb3 X n w ad _ Comb3.proj0 Comb3.proj1
      (fun s => ⟨hS s, by omega, le_rfl⟩)
  · exact Comb3.proj1

/-- **exponential strategies, windows given** -/
theorem expOut_comb3 (pw : K → K) (m j : ℕ) (hn : 0 < n) (hX : StrictMono X)
    (hS : S → PowLike pw ∧ w.bL (j / n + 1) ≤ w.aL (j / n + 1)
      ∧ w.bR (j / n + 1) ≤ w.aR (j / n + 1)) :
    Comb3 S (j / n) (fun Y => expOut pw X Y m n w ad j) := by
  have hi : j % n < n := Nat.mod_lt _ hn
  have hmono : Monotone X := hX.monotone
  have hz1 := z0_comb3 X n w ad (S := S) (q := j / n) Comb3.proj0 Comb3.proj1 (fun _ => hmono)
  have hz2 := z0_comb3 X n w ad (S := S) (q := j / n) Comb3.proj1 Comb3.proj2 (fun _ => hmono)
  have hlb := z0lb_comb3 X n w ad (S := S) (q := j / n) Comb3.proj0 Comb3.proj1
    (fun s => ⟨hmono, (hS s).2.1⟩)
  have hrb := z0rb_comb3 X n w ad (S := S) (q := j / n) Comb3.proj1 Comb3.proj2
    (fun s => ⟨hmono, (hS s).2.2⟩)
  unfold expOut
  simp only []
  split_ifs with h1 h2 h3 h4 h5
  · exact Comb3.linFit hz1 hlb _ _ _ (fun _ => ⟨hmono (by omega), hmono (by omega)⟩)
  · refine Comb3.linExpXYFit hlb Comb3.proj1 pw _ _ _ (hX.injective.ne (by omega))
      (fun s => ⟨(hS s).1, hmono (by omega), hmono (by omega)⟩)
  · refine Comb3.expLinFit Comb3.proj1 hrb pw _ _ _ (hX.injective.ne (by omega))
      (fun s => ⟨(hS s).1, hmono (by omega), hmono (by omega)⟩)
  · exact Comb3.linFit hrb hz2 _ _ _ (fun _ => ⟨hmono (by omega), hmono (by omega)⟩)
  · exact Comb3.proj1
  · exact Comb3.proj1

end Weights

end Rfa
end TWV
