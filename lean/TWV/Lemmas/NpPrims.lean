import TWV.Model.NpPrims
import TWV.Lemmas.Basic
import Mathlib.Tactic.SplitIfs

/-!
# `get` / `len` lemmas of the NumPy primitives (`TWV/Model/NpPrims.lean`)

* `rfl` lemmas that push `.get i`, `.len`, `.rows`, `.cols` through every primitive (the simp set
  `np_norm [...]`);
* Python's index arithmetic (`normIdx`, `clamp`, `loB`, `hiB`) unfolded to `Int.toNat` terms that
  `omega` decides;
* division with remainder by a variable block length (`(n * i - k) / n`, …) for `process.repeat`;
* the loop rule `forRange_induction`;
* `idx_unify`: identify `v.get i` on the left with `v.get j` on the right when `omega` proves
  `i = j` (index expressions are never syntactically equal: one side went through `Int.toNat`).
-/

set_option linter.unusedSectionVars false
set_option linter.unusedVariables false

namespace TWV
namespace Np

/-! ### index arithmetic -/

theorem normIdx_eq (len : ℕ) (k : ℤ) :
    normIdx len k = if k < 0 then ((len : ℤ) + k).toNat else k.toNat := by rfl

theorem clamp_eq (len : ℕ) (k : ℤ) :
    clamp len k = if k < 0 then ((len : ℤ) + k).toNat else min k.toNat len := by rfl

@[simp] theorem loB_none (len : ℕ) : loB len none = 0 := by rfl
@[simp] theorem loB_some (len : ℕ) (k : ℤ) : loB len (some k) = clamp len k := by rfl
@[simp] theorem hiB_none (len : ℕ) : hiB len none = len := by rfl
@[simp] theorem hiB_some (len : ℕ) (k : ℤ) : hiB len (some k) = clamp len k := by rfl

@[simp] theorem normIdx_zero (len : ℕ) : normIdx len 0 = 0 := by simp [normIdx]
@[simp] theorem normIdx_natCast (len n : ℕ) : normIdx len (n : ℤ) = n := by
  simp [normIdx]
@[simp] theorem normIdx_neg_one (len : ℕ) : normIdx len (-1) = len - 1 := by
  simp only [normIdx]; split_ifs <;> omega
@[simp] theorem normIdx_neg_two (len : ℕ) : normIdx len (-2) = len - 2 := by
  simp only [normIdx]; split_ifs <;> omega
@[simp] theorem clamp_zero (len : ℕ) : clamp len 0 = 0 := by simp [clamp]
@[simp] theorem clamp_one (len : ℕ) : clamp len 1 = min 1 len := by simp [clamp]
@[simp] theorem clamp_neg_one (len : ℕ) : clamp len (-1) = len - 1 := by
  simp only [clamp]; split_ifs <;> omega
@[simp] theorem clamp_natCast (len n : ℕ) : clamp len (n : ℤ) = min n len := by
  simp [clamp]

section lemmas

variable {K : Type} (a b u v : Vec K) (m : Mat K) (c s t : K) (k n i j : ℕ) (p : ℤ)
  (lo hi : Option ℤ) (f : K → K) (e : Bool)

/-! ### `rfl` lemmas: lengths and elements -/

theorem idx_eq : idx a p = a.get (normIdx a.len p) := by rfl

theorem ite_len (q : Prop) [Decidable q] : (if q then a else b).len = if q then a.len else b.len := by
  split <;> rfl
theorem ite_get (q : Prop) [Decidable q] :
    (if q then a else b).get i = if q then a.get i else b.get i := by
  split <;> rfl

@[simp] theorem slice_len : (slice a lo hi).len = hiB a.len hi - loB a.len lo := by rfl
@[simp] theorem slice_get : (slice a lo hi).get i = a.get (loB a.len lo + i) := by rfl
@[simp] theorem repeatEach_len : (repeatEach a k).len = a.len * k := by rfl
@[simp] theorem repeatEach_get : (repeatEach a k).get i = a.get (i / k) := by rfl
@[simp] theorem tile_len : (tile a k).len = a.len * k := by rfl
@[simp] theorem tile_get : (tile a k).get i = a.get (i % a.len) := by rfl
@[simp] theorem full_len : (full k c).len = k := by rfl
@[simp] theorem full_get : (full k c).get i = c := by rfl
@[simp] theorem arange_len [NatCast K] : (arange k : Vec K).len = k := by rfl
@[simp] theorem arange_get [NatCast K] : (arange k : Vec K).get i = ((i : ℕ) : K) := by rfl
@[simp] theorem append1_len : (append1 a c).len = a.len + 1 := by rfl
@[simp] theorem append1_get : (append1 a c).get i = if i < a.len then a.get i else c := by rfl
@[simp] theorem concat_len : (concat a b).len = a.len + b.len := by rfl
@[simp] theorem concat_get :
    (concat a b).get i = if i < a.len then a.get i else b.get (i - a.len) := by rfl
@[simp] theorem insertAt_len : (insertAt a p b).len = a.len + b.len := by rfl
@[simp] theorem insertAt_get : (insertAt a p b).get i =
    if i < normIdx a.len p then a.get i
    else if i < normIdx a.len p + b.len then b.get (i - normIdx a.len p)
    else a.get (i - b.len) := by rfl
@[simp] theorem insert1_len : (insert1 a p c).len = a.len + 1 := by rfl
@[simp] theorem insert1_get : (insert1 a p c).get i =
    if i < normIdx a.len p then a.get i
    else if i < normIdx a.len p + 1 then c
    else a.get (i - 1) := by rfl

@[simp] theorem linspace_len [Add K] [Sub K] [Mul K] [Div K] [NatCast K] :
    (linspace s t k e).len = k := by rfl
@[simp] theorem linspace_get [Add K] [Sub K] [Mul K] [Div K] [NatCast K] :
    (linspace s t k e).get i =
      if e = true ∧ i + 1 = k ∧ 1 < k then t
      else s + ((i : ℕ) : K) * ((t - s) / (((if e then k - 1 else k) : ℕ) : K)) := by rfl

@[simp] theorem linspaceRows_rows [Add K] [Sub K] [Mul K] [Div K] [NatCast K] :
    (linspaceRows u v k e).rows = k := by rfl
@[simp] theorem linspaceRows_cols [Add K] [Sub K] [Mul K] [Div K] [NatCast K] :
    (linspaceRows u v k e).cols = min u.len v.len := by rfl
@[simp] theorem linspaceRows_get [Add K] [Sub K] [Mul K] [Div K] [NatCast K] :
    (linspaceRows u v k e).get i j =
      if e = true ∧ i + 1 = k ∧ 1 < k then v.get j
      else u.get j + ((i : ℕ) : K) * ((v.get j - u.get j) / (((if e then k - 1 else k) : ℕ) : K)) := by
  rfl
@[simp] theorem sliceRows_rows : (sliceRows m lo hi).rows = hiB m.rows hi - loB m.rows lo := by rfl
@[simp] theorem sliceRows_cols : (sliceRows m lo hi).cols = m.cols := by rfl
@[simp] theorem sliceRows_get : (sliceRows m lo hi).get i j = m.get (loB m.rows lo + i) j := by rfl
@[simp] theorem transpose_rows : (transpose m).rows = m.cols := by rfl
@[simp] theorem transpose_cols : (transpose m).cols = m.rows := by rfl
@[simp] theorem transpose_get : (transpose m).get i j = m.get j i := by rfl
@[simp] theorem flatten_len : (flatten m).len = m.rows * m.cols := by rfl
@[simp] theorem flatten_get : (flatten m).get i = m.get (i / m.cols) (i % m.cols) := by rfl
@[simp] theorem flattenF_len : (flattenF m).len = m.rows * m.cols := by rfl
@[simp] theorem flattenF_get : (flattenF m).get i = m.get (i % m.rows) (i / m.rows) := by rfl

@[simp] theorem sliceMap_len : (sliceMap a lo hi f).len = a.len := by rfl
@[simp] theorem sliceMap_get : (sliceMap a lo hi f).get i =
    if loB a.len lo ≤ i ∧ i < hiB a.len hi then f (a.get i) else a.get i := by rfl

end lemmas

/-! ### lengths of the `Vec` operations, restated

The lemmas of `TWV/Model/Vec.lean` are `rfl` lemmas; `simp` applies such lemmas by definitional
unfolding, which rewrites the *proposition* of an `if i < v.len then …` but leaves the old term in
its `Decidable` instance, and `split_ifs` / `rw [if_pos h]` then no longer match.  Lengths occur
inside conditions, so they are restated here with `by rfl` proofs (not tagged as definitional). -/

section veclen

variable {K : Type} (f : K → K) (g : K → K → K) (pw : K → K) (a b v : Vec K) (c : K) (n : ℕ)
  (h : ℕ → K) (l : List K)

theorem vlen_ofFn : (Vec.ofFn n h).len = n := by rfl
theorem vlen_ofList [Zero K] : (Vec.ofList l).len = l.length := by rfl
theorem vlen_const : (Vec.const n c).len = n := by rfl
theorem vlen_init : v.init.len = v.len - 1 := by rfl
theorem vlen_tail : v.tail.len = v.len - 1 := by rfl
theorem vlen_diff [Sub K] : v.diff.len = v.len - 1 := by rfl
theorem vlen_map : (Vec.map f v).len = v.len := by rfl
theorem vlen_zipWith : (Vec.zipWith g a b).len = min a.len b.len := by rfl
theorem vlen_neg [Neg K] : v.neg.len = v.len := by rfl
theorem vlen_add [Add K] : (Vec.add a b).len = min a.len b.len := by rfl
theorem vlen_sub [Sub K] : (Vec.sub a b).len = min a.len b.len := by rfl
theorem vlen_mul [Mul K] : (Vec.mul a b).len = min a.len b.len := by rfl
theorem vlen_div [Div K] : (Vec.div a b).len = min a.len b.len := by rfl
theorem vlen_adds [Add K] : (Vec.adds v c).len = v.len := by rfl
theorem vlen_subs [Sub K] : (Vec.subs v c).len = v.len := by rfl
theorem vlen_muls [Mul K] : (Vec.muls v c).len = v.len := by rfl
theorem vlen_divs [Div K] : (Vec.divs v c).len = v.len := by rfl
theorem vlen_sadd [Add K] : (Vec.sadd c v).len = v.len := by rfl
theorem vlen_ssub [Sub K] : (Vec.ssub c v).len = v.len := by rfl
theorem vlen_smul [Mul K] : (Vec.smul c v).len = v.len := by rfl
theorem vlen_sdiv [Div K] : (Vec.sdiv c v).len = v.len := by rfl

end veclen

/-! ### loops -/

theorem forRange_zero {σ : Type} (lo hi : ℕ) (s : σ) (f : ℕ → σ → σ) (h : hi ≤ lo) :
    forRange lo hi s f = s := by
  simp [forRange, Nat.sub_eq_zero_of_le h]

theorem forRange_succ {σ : Type} (lo hi : ℕ) (s : σ) (f : ℕ → σ → σ) (h : lo ≤ hi) :
    forRange lo (hi + 1) s f = f hi (forRange lo hi s f) := by
  unfold forRange
  have : hi + 1 - lo = (hi - lo) + 1 := by omega
  rw [this, List.range'_concat, List.foldl_append]
  simp only [List.foldl_cons, List.foldl_nil]
  congr 2
  omega

/-- the loop rule: an invariant `P i s` ("the state before iteration `i`") that holds at `lo` and is
preserved by every iteration holds at `hi` after the loop -/
theorem forRange_induction {σ : Type} (P : ℕ → σ → Prop) (lo hi : ℕ) (s : σ) (f : ℕ → σ → σ)
    (h : lo ≤ hi) (h0 : P lo s) (hstep : ∀ i t, lo ≤ i → i < hi → P i t → P (i + 1) (f i t)) :
    P hi (forRange lo hi s f) := by
  induction hi with
  | zero =>
    have : lo = 0 := by omega
    subst this
    rw [forRange_zero _ _ _ _ (Nat.le_refl _)]; exact h0
  | succ hi ih =>
    by_cases hle : lo ≤ hi
    · rw [forRange_succ _ _ _ _ hle]
      exact hstep hi _ hle (Nat.lt_succ_self _) (ih hle (fun i t h1 h2 => hstep i t h1 (by omega)))
    · have : lo = hi + 1 := by omega
      subst this
      rw [forRange_zero _ _ _ _ (Nat.le_refl _)]; exact h0

/-! ### division with remainder by a variable block length -/

/-- position `n * i - k` (`1 ≤ k ≤ n`, `1 ≤ i`) lies in block `i - 1` at offset `n - k` -/
theorem block_sub_div {n i k : ℕ} (hk : 1 ≤ k) (hkn : k ≤ n) (hi : 1 ≤ i) :
    (n * i - k) / n = i - 1 := by
  obtain ⟨i, rfl⟩ : ∃ j, i = j + 1 := ⟨i - 1, by omega⟩
  have h : n * (i + 1) - k = n * i + (n - k) := by rw [Nat.mul_succ]; omega
  have hn : 0 < n := by omega
  rw [h, Nat.mul_add_div hn, Nat.div_eq_of_lt (by omega)]
  omega

theorem block_sub_mod {n i k : ℕ} (hk : 1 ≤ k) (hkn : k ≤ n) (hi : 1 ≤ i) :
    (n * i - k) % n = n - k := by
  obtain ⟨i, rfl⟩ : ∃ j, i = j + 1 := ⟨i - 1, by omega⟩
  have h : n * (i + 1) - k = n * i + (n - k) := by rw [Nat.mul_succ]; omega
  rw [h, Nat.mul_add_mod, Nat.mod_eq_of_lt (by omega)]

/-- `j` lies in block `i` iff `n * i ≤ j < n * (i + 1)` -/
theorem div_eq_iff_block {n i j : ℕ} (hn : 0 < n) : j / n = i ↔ n * i ≤ j ∧ j < n * (i + 1) := by
  rw [Nat.div_eq_iff hn]
  constructor
  · rintro ⟨h1, h2⟩
    refine ⟨by rw [Nat.mul_comm]; exact h1, ?_⟩
    rw [Nat.mul_succ]; rw [Nat.mul_comm] at h2 ⊢; rw [Nat.mul_comm] at h2; omega
  · rintro ⟨h1, h2⟩
    rw [Nat.mul_succ] at h2
    refine ⟨by rw [Nat.mul_comm]; exact h1, ?_⟩
    rw [Nat.mul_comm]; omega

theorem div_lt_of_lt_mul' {n r j : ℕ} (h : j < n * r) : j / n < r :=
  Nat.div_lt_of_lt_mul h

/-! ### tactics -/

open Lean Meta Elab Tactic in
/-- all closed subterms `Vec.get v i` and `((t : ℕ) : K)` of `e` (applications whose last argument
is a natural number that `omega` can reason about) -/
partial def getAtoms (e : Expr) (acc : Array Expr) : Array Expr :=
  let e := e.consumeMData
  let acc :=
    if (e.isAppOfArity ``TWV.Vec.get 3 || e.isAppOfArity ``Nat.cast 3) && !e.hasLooseBVars
        && !acc.contains e then acc.push e else acc
  match e with
  | .app f a => getAtoms a (getAtoms f acc)
  | .lam _ t b _ => getAtoms b (getAtoms t acc)
  | .forallE _ t b _ => getAtoms b (getAtoms t acc)
  | .letE _ t v b _ => getAtoms b (getAtoms v (getAtoms t acc))
  | .proj _ _ s => getAtoms s acc
  | _ => acc

open Lean Meta Elab Tactic in
/-- try to rewrite the atom `l` of the goal to `r` (same head, last arguments equal by `omega`) -/
def unifyPair (l r : Expr) : TacticM Bool := withMainContext do
  if l == r then return false
  unless l.appFn! == r.appFn! do return false
  let g ← getMainGoal
  let tgt ← instantiateMVars (← g.getType)
  unless (tgt.find? (· == l)).isSome do return false
  let mv ← mkFreshExprSyntheticOpaqueMVar (← mkEq l.appArg! r.appArg!)
  let s ← Tactic.saveState
  let ok ← try
      let gs ← Tactic.run mv.mvarId! (withoutRecover (evalTactic (← `(tactic| omega))))
      pure gs.isEmpty
    catch _ => pure false
  if ok then
    let prf ← mkCongrArg l.appFn! (← instantiateMVars mv)
    let res ← g.rewrite tgt prf
    let g' ← g.replaceTargetEq res.eNew res.eqProof
    replaceMainGoal (g' :: res.mvarIds)
    return true
  else
    s.restore
    return false

open Lean Meta Elab Tactic in
/-- `idx_unify`: identify `v.get i` with `v.get j`, and `((s : ℕ) : K)` with `((t : ℕ) : K)`, when
`omega` proves the natural-number arguments equal — first every atom of the left-hand side with
one of the right-hand side, then the remaining atoms among themselves (a later one is rewritten
to an earlier one).  Index expressions are never syntactically equal (one side went through
`Int.toNat`).  Never fails. -/
elab "idx_unify" : tactic => withMainContext do
  let g ← getMainGoal
  let tgt ← whnfR (← instantiateMVars (← g.getType))
  let some (_, lhs, rhs) := tgt.eq? | return
  let la := getAtoms lhs #[]
  let ra := getAtoms rhs #[]
  for l in la do
    for r in ra do
      if ← unifyPair l r then break
  let tgt ← instantiateMVars (← (← getMainGoal).getType)
  let all := getAtoms tgt #[]
  for a in [0:all.size] do
    for b in [0:a] do
      if ← unifyPair all[a]! all[b]! then break

open Lean Meta Elab Tactic in
/-- `idx_canon t`: rewrite every `v.get s` of the goal with `s = t` (by `omega`) to `v.get t`.
Never fails. -/
elab "idx_canon " t:term : tactic => withMainContext do
  let t ← Tactic.elabTermEnsuringType t (mkConst ``Nat)
  let t ← instantiateMVars t
  let tgt ← instantiateMVars (← (← getMainGoal).getType)
  for l in getAtoms tgt #[] do
    if l.isAppOfArity ``TWV.Vec.get 3 then
      let _ ← unifyPair l (mkApp l.appFn! t)

/-- push `.get i`, `.len`, `.rows`, `.cols` through the primitives of `Np` and `Vec`, and unfold
Python's index arithmetic to `Int.toNat` terms -/
macro "np_norm" "[" ts:Lean.Parser.Tactic.simpLemma,* "]" : tactic => `(tactic| simp only [
  idx_eq, slice_len, slice_get, repeatEach_len, repeatEach_get, tile_len, tile_get,
  full_len, full_get, arange_len, arange_get, append1_len, append1_get, concat_len, concat_get,
  insertAt_len, insertAt_get, insert1_len, insert1_get, linspace_len, linspace_get,
  linspaceRows_rows, linspaceRows_cols, linspaceRows_get, sliceRows_rows, sliceRows_cols,
  sliceRows_get, transpose_rows, transpose_cols, transpose_get, flatten_len, flatten_get,
  flattenF_len, flattenF_get, sliceMap_len, sliceMap_get,
  loB_none, loB_some, hiB_none, hiB_some,
  normIdx_zero, normIdx_natCast, normIdx_neg_one, normIdx_neg_two,
  clamp_zero, clamp_one, clamp_neg_one, clamp_natCast, ite_len, ite_get,
  Vec.first_eq, Vec.last_eq,
  vlen_ofFn, vlen_ofList, vlen_const, vlen_init, vlen_tail, vlen_diff, vlen_map, vlen_zipWith,
  vlen_neg, vlen_add, vlen_sub, vlen_mul, vlen_div, vlen_adds, vlen_subs, vlen_muls, vlen_divs,
  vlen_sadd, vlen_ssub, vlen_smul, vlen_sdiv,
  Vec.ofFn_get, Vec.ofList_get, Vec.const_get, Vec.init_get, Vec.tail_get, Vec.diff_get,
  Vec.map_get, Vec.zipWith_get, Vec.neg_get, Vec.add_get, Vec.sub_get, Vec.mul_get, Vec.div_get,
  Vec.adds_get, Vec.subs_get, Vec.muls_get, Vec.divs_get,
  Vec.sadd_get, Vec.ssub_get, Vec.smul_get, Vec.sdiv_get,
  two_eq, Nat.cast_ofNat, Nat.cast_one, Nat.cast_zero,
  Nat.add_sub_cancel, Nat.sub_zero, Nat.zero_add, Nat.add_zero, Nat.mod_one,
  List.length_cons, List.length_nil, List.getD_cons_zero, List.getD_cons_succ, List.getD_nil,
  if_true, if_false, true_and, and_true, false_and, and_false, Bool.false_eq_true,
  not_true_eq_false, not_false_eq_true, eq_self, reduceCtorEq, ↓reduceIte, ite_true, ite_false,
  Nat.one_mul, Nat.mul_one, Nat.not_lt_zero,
  $ts,*] <;> try simp only [normIdx_eq, clamp_eq])

end Np
end TWV
