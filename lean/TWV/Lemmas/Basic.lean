import TWV.Model.Base
import Mathlib.Algebra.Order.Field.Basic
import Mathlib.Algebra.Order.Group.Abs
import Mathlib.Algebra.BigOperators.Group.Finset.Basic
import Mathlib.Algebra.BigOperators.Ring.Finset
import Mathlib.Algebra.BigOperators.Field
import Mathlib.Algebra.Order.BigOperators.Ring.Finset
import Mathlib.Algebra.Order.BigOperators.Group.Finset
import Mathlib.Tactic.Ring
import Mathlib.Tactic.FieldSimp
import Mathlib.Tactic.Positivity
import Mathlib.Tactic.Linarith
import Mathlib.Tactic.NormNum

/-!
# Bridge lemmas: the Mathlib-free model vocabulary in an ordered field

The model (`TWV/Model`) only uses core operation classes.  Instantiated with an ordered field its
helpers are the usual Mathlib notions; these lemmas rewrite them (simp-normal form: the Mathlib
notion on the right).
-/

set_option linter.unusedSectionVars false

open Finset

namespace TWV

variable {K : Type} [Field K] [LinearOrder K] [IsStrictOrderedRing K]

@[simp] theorem two_eq : (two : K) = 2 := by unfold two; norm_num

@[simp] theorem absK_eq (x : K) : absK x = |x| := by
  unfold absK; split
  · rw [abs_of_neg ‹_›]
  · rw [abs_of_nonneg (not_lt.mp ‹_›)]

@[simp] theorem maxK_eq (a b : K) : maxK a b = max a b := by
  unfold maxK; split
  · rw [max_eq_right ‹_›]
  · rw [max_eq_left (le_of_lt (not_le.mp ‹_›))]

@[simp] theorem minK_eq (a b : K) : minK a b = min a b := by
  unfold minK; split
  · rw [min_eq_left ‹_›]
  · rw [min_eq_right (le_of_lt (not_le.mp ‹_›))]

theorem sumTo_eq_sum (n : ℕ) (f : ℕ → K) : sumTo n f = ∑ i ∈ range n, f i := by
  induction n with
  | zero => simp [sumTo]
  | succ n ih => simp [sumTo, ih, sum_range_succ]

@[simp] theorem powN_eq_pow (t : K) (k : ℕ) : powN t k = t ^ k := by
  induction k with
  | zero => simp [powN]
  | succ k ih => simp [powN, ih, pow_succ]

@[simp] theorem win_apply (f : ℕ → K) (s i : ℕ) : win f s i = f (s + i) := rfl

/-! ### arrays -/

@[simp] theorem tab_size (n : ℕ) (f : ℕ → K) : (tab n f).size = n := by simp [tab]

theorem arrFn_tab (n : ℕ) (f : ℕ → K) (i : ℕ) : arrFn (tab n f) i = if i < n then f i else 0 := by
  unfold arrFn tab
  split
  · rename_i h; simp [Array.getD, h]
  · rename_i h; simp [Array.getD, h]

theorem arrFn_tab_lt (n : ℕ) (f : ℕ → K) (i : ℕ) (h : i < n) : arrFn (tab n f) i = f i := by
  rw [arrFn_tab, if_pos h]

theorem arrFn_of_size_le (a : Array K) (i : ℕ) (h : a.size ≤ i) : arrFn a i = 0 := by
  unfold arrFn; simp [Array.getD, Nat.not_lt.mpr h]

/-! ### strictly increasing series -/

/-- `x 0 < x 1 < … < x N` -/
def StrictIncr (N : ℕ) (x : ℕ → K) : Prop := ∀ i, i < N → x i < x (i + 1)

theorem strictIncr_lt {N : ℕ} {x : ℕ → K} (h : StrictIncr N x) :
    ∀ i j, i < j → j ≤ N → x i < x j := by
  intro i j hij
  induction j with
  | zero => omega
  | succ j ih =>
    intro hj
    rcases Nat.lt_succ_iff_lt_or_eq.mp hij with h1 | h1
    · exact lt_trans (ih h1 (by omega)) (h j (by omega))
    · subst h1; exact h i (by omega)

theorem strictIncr_le {N : ℕ} {x : ℕ → K} (h : StrictIncr N x) (i j : ℕ) (hij : i ≤ j) (hj : j ≤ N) :
    x i ≤ x j := by
  rcases Nat.lt_or_ge i j with h1 | h1
  · exact le_of_lt (strictIncr_lt h i j h1 hj)
  · have : i = j := by omega
    subst this; exact le_rfl

theorem StrictIncr.win {N : ℕ} {x : ℕ → K} (h : StrictIncr N x) (s M : ℕ) (hs : s + M ≤ N) :
    StrictIncr M (TWV.win x s) := by
  intro i hi
  simp only [win_apply]
  exact h (s + i) (by omega)

/-! ### `natFloorUpTo` -/

theorem natFloorUpTo_le (B : ℕ) (x : K) : natFloorUpTo B x ≤ B := by
  unfold natFloorUpTo
  calc _ ≤ (List.range B).length := List.countP_le_length
    _ = B := List.length_range

/-- `natFloorUpTo B x = m` as soon as `m ≤ x < m + 1` and `m ≤ B` -/
theorem natFloorUpTo_eq (B m : ℕ) (x : K) (hm : m ≤ B) (h1 : (m : K) ≤ x) (h2 : x < (m : K) + 1) :
    natFloorUpTo B x = m := by
  unfold natFloorUpTo
  have hsplit : List.range B = List.range m ++ (List.range (B - m)).map (· + m) := by
    have : B = m + (B - m) := by omega
    conv_lhs => rw [this, List.range_add]
    simp [Nat.add_comm]
  rw [hsplit, List.countP_append]
  have ha : (List.range m).countP (fun j => decide (((j + 1 : ℕ) : K) ≤ x)) = m := by
    rw [List.countP_eq_length.mpr, List.length_range]
    intro j hj
    have hj' : j < m := List.mem_range.mp hj
    have : ((j + 1 : ℕ) : K) ≤ (m : K) := by exact_mod_cast hj'
    simpa using le_trans this h1
  have hb : ((List.range (B - m)).map (· + m)).countP (fun j => decide (((j + 1 : ℕ) : K) ≤ x)) = 0 := by
    rw [List.countP_eq_zero]
    intro j hj
    obtain ⟨i, _, rfl⟩ := List.mem_map.mp hj
    have : (m : K) + 1 ≤ ((i + m + 1 : ℕ) : K) := by
      have : m + 1 ≤ i + m + 1 := by omega
      exact_mod_cast this
    simpa using lt_of_lt_of_le h2 this
  rw [ha, hb, Nat.add_zero]

theorem natFloorUpTo_cast_le (B : ℕ) (x : K) (hx : 0 ≤ x) : (natFloorUpTo B x : K) ≤ x := by
  unfold natFloorUpTo
  induction B with
  | zero => simpa using hx
  | succ B ih =>
    rw [List.range_succ, List.countP_append]
    simp only [List.countP_cons, List.countP_nil, zero_add]
    split
    · rename_i h
      have h' : ((B + 1 : ℕ) : K) ≤ x := by simpa using h
      have : (List.range B).countP (fun j => decide (((j + 1 : ℕ) : K) ≤ x)) ≤ B := by
        calc _ ≤ (List.range B).length := List.countP_le_length
          _ = B := List.length_range
      have hc : (((List.range B).countP (fun j => decide (((j + 1 : ℕ) : K) ≤ x)) + 1 : ℕ) : K)
          ≤ ((B + 1 : ℕ) : K) := by exact_mod_cast Nat.succ_le_succ this
      exact le_trans hc h'
    · simpa using ih

end TWV
