import TWV.Model.Weaver
import TWV.Properties.C10
import TWV.Lemmas.Basic

/-!
# Helper lemmas for `process.py` / the `Weaver` façade (properties C11, C13, C15, C16)

* `truncate`: the converted bounds `cvt`, the two indices `leftIdx` / `rightIdx` (the `lower` and
  `higher` scans of C10 with filling) and their characterisations;
* Python slices: `pySlice`, `sliceStep` in closed form; `slice_by_index`, `slice_by_value`;
* `interpolate`: `'constant'` in closed form, NumPy's `interp` (`interpLinearAt`) on knots, inside an
  interval, outside the data, on affine data; `np.linspace`;
* one-step lemmas for the `Weaver` operations used by the four properties;
* `noise_gauss` / `spline_smooth`: signal power, mean, default smoothing condition.
-/

set_option linter.unusedSectionVars false

namespace TWV.Process
open TWV TWV.Search TWV.Weaver Finset

variable {K : Type} [Field K] [LinearOrder K] [IsStrictOrderedRing K]

/-! ## `truncate` -/

/-- the bound actually used by `truncate` -/
def cvt (x : List K) (v : K) (ratio : Bool) : K :=
  if ratio then v * (x.getLastD 0 - x.headD 0) + x.headD 0 else v

theorem truncateBounds_spec (x : List K) (l r : K) (lr rr : Bool) (hx : x.Pairwise (· < ·))
    (hx0 : x ≠ []) (h : cvt x l lr < cvt x r rr) :
    truncateBounds x l r lr rr
      = .ok ((C10.lowerSpec true x (cvt x l lr)).toNat,
             (C10.higherSpec true x (cvt x r rr)).toNat + 1) := by
  unfold truncateBounds
  simp only [cvt] at h
  simp only [bind, Except.bind, pure, Except.pure]
  rw [if_neg (not_le.mpr h)]
  simp [C10.findLower_spec true x _ hx (List.pairwise_singleton _ _) hx0,
    C10.findHigher_spec true x _ hx (List.pairwise_singleton _ _) hx0, cvt]

/-- left index kept by `truncate` for the (converted) left bound `l'` -/
def leftIdx (x : List K) (l' : K) : ℕ := (C10.lowerSpec true x l').toNat
/-- last index kept by `truncate` for the (converted) right bound `r'` -/
def rightIdx (x : List K) (r' : K) : ℕ := (C10.higherSpec true x r').toNat

theorem leftIdx_char (x : List K) (hx : x.Pairwise (· < ·)) (l' : K) :
    (∃ h : leftIdx x l' < x.length, x[leftIdx x l'] ≤ l' ∧
        ∀ j (hj : j < x.length), x[j] ≤ l' → j ≤ leftIdx x l') ∨
    ((∀ a ∈ x, l' < a) ∧ leftIdx x l' = 0) := by
  by_cases hex : ∃ a ∈ x, a ≤ l'
  · left
    obtain ⟨i, hi, he, h1, h2⟩ := (C10.lowerSpec_char true x hx l').1 hex
    have : leftIdx x l' = i := by simp [leftIdx, he]
    rw [this]
    exact ⟨hi, h1, h2⟩
  · right
    push Not at hex
    refine ⟨hex, ?_⟩
    simp [leftIdx, (C10.lowerSpec_char true x hx l').2 hex]

theorem rightIdx_char (x : List K) (hx : x.Pairwise (· < ·)) (r' : K) :
    (∃ h : rightIdx x r' < x.length, r' ≤ x[rightIdx x r'] ∧
        ∀ j (hj : j < x.length), r' ≤ x[j] → rightIdx x r' ≤ j) ∨
    ((∀ a ∈ x, a < r') ∧ rightIdx x r' = x.length - 1) := by
  by_cases hex : ∃ a ∈ x, r' ≤ a
  · left
    obtain ⟨i, hi, he, h1, h2⟩ := (C10.higherSpec_char true x hx r').1 hex
    have : rightIdx x r' = i := by simp [rightIdx, he]
    rw [this]
    exact ⟨hi, h1, h2⟩
  · right
    push Not at hex
    refine ⟨hex, ?_⟩
    simp only [rightIdx, (C10.higherSpec_char true x hx r').2 hex, if_true]
    omega

theorem leftIdx_lt (x : List K) (hx0 : x ≠ []) (l' : K) : leftIdx x l' < x.length := by
  have hpos : 0 < x.length := List.length_pos_iff.mpr hx0
  have hle : x.countP (· ≤ l') ≤ x.length := List.countP_le_length
  unfold leftIdx C10.lowerSpec
  split
  · simpa using hpos
  · omega

theorem rightIdx_lt (x : List K) (hx0 : x ≠ []) (r' : K) : rightIdx x r' < x.length := by
  have hpos : 0 < x.length := List.length_pos_iff.mpr hx0
  have hle : x.countP (· < r') ≤ x.length := List.countP_le_length
  unfold rightIdx C10.higherSpec
  split
  · simp only [if_true]; omega
  · omega

theorem leftIdx_le_rightIdx (x : List K) (hx0 : x ≠ []) (l' r' : K) (h : l' < r') :
    leftIdx x l' ≤ rightIdx x r' := by
  have hpos : 0 < x.length := List.length_pos_iff.mpr hx0
  have hmono : x.countP (· ≤ l') ≤ x.countP (· < r') := by
    apply List.countP_mono_left
    intro a _ ha
    simp only [decide_eq_true_eq] at *
    exact lt_of_le_of_lt ha h
  have hle : x.countP (· < r') ≤ x.length := List.countP_le_length
  unfold leftIdx rightIdx C10.lowerSpec C10.higherSpec
  split <;> split <;> omega

/-! ## Python slices -/

theorem pySlice_nat (a : List K) (start stop : ℕ) (h : stop ≤ a.length) :
    pySlice a (start : ℤ) (stop : ℤ) = (a.drop start).take (stop - start) := by
  unfold pySlice
  have h1 : ¬ ((stop : ℤ) < 0) := by omega
  have h2 : ¬ ((stop : ℤ) > (a.length : ℤ)) := by omega
  simp [h1, h2]

theorem pySlice_clamp (a : List K) (start stop : ℕ) (h : a.length ≤ stop) :
    pySlice a (start : ℤ) (stop : ℤ) = a.drop start := by
  unfold pySlice
  have h1 : ¬ ((stop : ℤ) < 0) := by omega
  simp only [h1, if_false]
  split
  · simp
  · have : stop = a.length := by omega
    subst this; simp

theorem pySlice_neg (a : List K) (start : ℕ) (stop : ℤ) (h : stop < 0) (h2 : -stop ≤ a.length) :
    pySlice a (start : ℤ) stop = (a.drop start).take (((a.length : ℤ) + stop).toNat - start) := by
  unfold pySlice
  have h1 : ¬ ((a.length : ℤ) + stop < 0) := by omega
  simp [h, h1]

theorem length_drop_take (a : List K) (start stop : ℕ) (h : stop ≤ a.length) :
    ((a.drop start).take (stop - start)).length = stop - start := by
  simp; omega

theorem getElem?_drop_take (a : List K) (start stop k : ℕ) (hk : k < stop - start) :
    ((a.drop start).take (stop - start))[k]? = a[start + k]? := by
  simp [hk]

/-- closed form of the index list of `a[start:stop:step]` -/
theorem sliceStep_eq_map (a : List K) (start stop step : ℕ) (hs : 1 ≤ step) (h : stop ≤ a.length) :
    sliceStep a start stop step
      = (List.range ((stop - start + step - 1) / step)).map (fun k => a.getD (start + k * step) 0) := by
  unfold sliceStep
  rw [List.filterMap_map]
  rw [← List.filterMap_eq_map]
  apply List.filterMap_congr
  intro k hk
  have hk' : k < (stop - start + step - 1) / step := List.mem_range.mp hk
  have hlt : k * step < stop - start := by
    have h1 : (k + 1) * step ≤ stop - start + step - 1 :=
      (Nat.le_div_iff_mul_le (by omega : 0 < step)).mp hk'
    rw [Nat.succ_mul] at h1
    omega
  have hi : start + k * step < stop := by omega
  simp [hi, List.getD_eq_getElem?_getD, (by omega : start + k * step < a.length)]

theorem map_getD_eq_drop_take (a : List K) (start stop : ℕ) (h : stop ≤ a.length) :
    (List.range (stop - start)).map (fun k => a.getD (start + k) 0)
      = (a.drop start).take (stop - start) := by
  apply List.ext_getElem
  · simp; omega
  · intro k h1 h2
    simp only [List.length_map, List.length_range] at h1
    simp [List.getD_eq_getElem?_getD, (by omega : start + k < a.length)]

/-- the number of indices of `a[start:stop:step]`: `k` is used iff `start + k * step < stop` -/
theorem ceil_lt_iff (d step k : ℕ) (hs : 1 ≤ step) : k < (d + step - 1) / step ↔ k * step < d := by
  rw [Nat.lt_iff_add_one_le, Nat.le_div_iff_mul_le (by omega : 0 < step), Nat.succ_mul]
  omega

/-- `a[start:stop]` (step 1) through the stepping slice -/
theorem sliceStep_one (a : List K) (start stop : ℕ) (h : stop ≤ a.length) :
    sliceStep a start stop 1 = (a.drop start).take (stop - start) := by
  rw [sliceStep_eq_map a start stop 1 le_rfl h, ← map_getD_eq_drop_take a start stop h]
  simp

theorem findIdx?_getElem (x : List K) (hx : x.Pairwise (· < ·)) (i : ℕ) (hi : i < x.length) :
    x.findIdx? (· = x[i]) = some i := by
  rw [List.findIdx?_eq_some_iff_getElem]
  refine ⟨hi, by simp, ?_⟩
  intro j hj
  have := getElem_lt_of_lt hx hi hj
  simpa using this.ne

theorem findIdx?_absent (x : List K) (v : K) (hv : v ∉ x) : x.findIdx? (· = v) = none := by
  rw [List.findIdx?_eq_none_iff]
  intro a ha
  simpa using fun h : a = v => hv (h ▸ ha)

/-- the samples with `x[i] ≤ v ≤ x[j]` are the contiguous run `x[i..j]` -/
theorem filter_between_aux (x : List K) (hx : x.Pairwise (· < ·)) (i j : ℕ) (hij : i ≤ j)
    (hj : j < x.length) (lo hi : K) (hlo : x[i] = lo) (hhi : x[j] = hi) :
    x.filter (fun v => decide (lo ≤ v ∧ v ≤ hi)) = (x.drop i).take (j + 1 - i) := by
  have hsplit : x = x.take i ++ ((x.drop i).take (j + 1 - i) ++ (x.drop i).drop (j + 1 - i)) := by
    rw [List.take_append_drop, List.take_append_drop]
  conv_lhs => rw [hsplit]
  rw [List.filter_append, List.filter_append]
  have h1 : (x.take i).filter (fun v => decide (lo ≤ v ∧ v ≤ hi)) = [] := by
    rw [List.filter_eq_nil_iff]
    intro a ha
    obtain ⟨k, hk, rfl⟩ := List.getElem_of_mem ha
    simp only [List.length_take] at hk
    have : x[k] < x[i] := getElem_lt_of_lt hx (by omega) (by omega)
    rw [hlo] at this
    simp [List.getElem_take, not_le.mpr this]
  have h2 : ((x.drop i).take (j + 1 - i)).filter (fun v => decide (lo ≤ v ∧ v ≤ hi))
      = (x.drop i).take (j + 1 - i) := by
    rw [List.filter_eq_self]
    intro a ha
    obtain ⟨k, hk, rfl⟩ := List.getElem_of_mem ha
    simp only [List.length_take, List.length_drop] at hk
    have a1 : x[i] ≤ x[i + k] := getElem_le_of_le hx (by omega) (by omega)
    have a2 : x[i + k] ≤ x[j] := getElem_le_of_le hx (by omega) (by omega)
    rw [hlo] at a1; rw [hhi] at a2
    simp [List.getElem_take, List.getElem_drop, a1, a2]
  have h3 : ((x.drop i).drop (j + 1 - i)).filter (fun v => decide (lo ≤ v ∧ v ≤ hi)) = [] := by
    rw [List.filter_eq_nil_iff]
    intro a ha
    obtain ⟨k, hk, rfl⟩ := List.getElem_of_mem ha
    simp only [List.length_drop] at hk
    have : x[j] < x[i + (j + 1 - i + k)] := getElem_lt_of_lt hx (by omega) (by omega)
    rw [hhi] at this
    simp only [List.getElem_drop, decide_eq_true_eq, not_and, not_le]
    intro _; exact this
  rw [h1, h2, h3]; simp

theorem filter_between (x : List K) (hx : x.Pairwise (· < ·)) (i j : ℕ) (hij : i ≤ j)
    (hj : j < x.length) :
    x.filter (fun v => decide (x[i] ≤ v ∧ v ≤ x[j])) = (x.drop i).take (j + 1 - i) :=
  filter_between_aux x hx i j hij hj _ _ rfl rfl

theorem sliceByIndex_nat (s : State K) (start stop step : ℕ) (h : stop ≤ s.x.length)
    (hs : 1 ≤ step) :
    sliceByIndex s (start : ℤ) (some (stop : ℤ)) step
      = .ok (sliceStep s.x start stop step, sliceStep s.y start stop step) := by
  unfold sliceByIndex
  have h0 : ¬ ((start : ℤ) < 0) := by omega
  have h1 : ¬ ((stop : ℤ) > (s.x.length : ℤ)) := by omega
  have h2 : ¬ ((stop : ℤ) < 0) := by omega
  have h3 : step ≠ 0 := by omega
  simp [h0, h1, h2, h3]

theorem sliceByIndex_none (s : State K) (start step : ℕ) (hs : 1 ≤ step) :
    sliceByIndex s (start : ℤ) none step
      = .ok (sliceStep s.x start s.x.length step, sliceStep s.y start s.x.length step) := by
  unfold sliceByIndex
  have h0 : ¬ ((start : ℤ) < 0) := by omega
  have h3 : step ≠ 0 := by omega
  have h4 : ¬ ((s.x.length : ℤ) < 0) := by omega
  simp [h0, h3, h4]

theorem sliceByIndex_neg_stop (s : State K) (start : ℕ) (stop : ℤ) (step : ℕ) (hs : 1 ≤ step)
    (h : stop < 0) (h2 : -stop ≤ s.x.length) :
    sliceByIndex s (start : ℤ) (some stop) step
      = .ok (sliceStep s.x start ((s.x.length : ℤ) + stop).toNat step,
             sliceStep s.y start ((s.x.length : ℤ) + stop).toNat step) := by
  unfold sliceByIndex
  have h0 : ¬ ((start : ℤ) < 0) := by omega
  have h1 : ¬ (stop > (s.x.length : ℤ)) := by omega
  have h3 : step ≠ 0 := by omega
  have h4 : ¬ ((s.x.length : ℤ) + stop < 0) := by omega
  simp [h0, h1, h3, h4, h]

theorem sliceByIndex_neg_start (s : State K) (start : ℤ) (stop : Option ℤ) (step : ℕ)
    (h : start < 0) : sliceByIndex s start stop step = .error .valueError := by
  simp [sliceByIndex, h]

theorem sliceByIndex_stop_gt (s : State K) (start stop : ℤ) (step : ℕ)
    (h : (s.x.length : ℤ) < stop) : sliceByIndex s start (some stop) step = .error .valueError := by
  unfold sliceByIndex
  by_cases h0 : start < 0 <;> simp [h0, h]

theorem sliceByValue_some_some (s : State K) (hx : s.x.Pairwise (· < ·)) (i j step : ℕ)
    (hi : i < s.x.length) (hj : j < s.x.length) :
    sliceByValue s (some s.x[i]) (some s.x[j]) step
      = sliceByIndex s (i : ℤ) (some ((j + 1 : ℕ) : ℤ)) step := by
  simp [sliceByValue, findIdx?_getElem s.x hx, bind, Except.bind, pure, Except.pure]

theorem sliceByValue_none_some (s : State K) (hx : s.x.Pairwise (· < ·)) (j step : ℕ)
    (hj : j < s.x.length) :
    sliceByValue s none (some s.x[j]) step
      = sliceByIndex s ((0 : ℕ) : ℤ) (some ((j + 1 : ℕ) : ℤ)) step := by
  simp [sliceByValue, findIdx?_getElem s.x hx, bind, Except.bind, pure, Except.pure]

theorem sliceByValue_some_none (s : State K) (hx : s.x.Pairwise (· < ·)) (i step : ℕ)
    (hi : i < s.x.length) :
    sliceByValue s (some s.x[i]) none step
      = sliceByIndex s (i : ℤ) (some ((s.x.length : ℕ) : ℤ)) step := by
  simp [sliceByValue, findIdx?_getElem s.x hx, bind, Except.bind, pure, Except.pure]

theorem sliceByValue_none_none (s : State K) (step : ℕ) :
    sliceByValue s none none step
      = sliceByIndex s ((0 : ℕ) : ℤ) (some ((s.x.length : ℕ) : ℤ)) step := by
  simp [sliceByValue, bind, Except.bind, pure, Except.pure]

theorem sliceByValue_start_absent (s : State K) (v : K) (stop : Option K) (step : ℕ)
    (hv : v ∉ s.x) : sliceByValue s (some v) stop step = .error .valueError := by
  simp [sliceByValue, findIdx?_absent s.x v hv, bind, Except.bind, throw, throwThe,
    MonadExceptOf.throw]

theorem sliceByValue_stop_absent (s : State K) (start : Option K) (v : K) (step : ℕ)
    (hstart : start = none ∨ ∃ a ∈ s.x, start = some a)
    (hv : v ∉ s.x) : sliceByValue s start (some v) step = .error .valueError := by
  rcases hstart with rfl | ⟨a, ha, rfl⟩
  · simp [sliceByValue, findIdx?_absent s.x v hv, bind, Except.bind, throw, throwThe,
      MonadExceptOf.throw, pure, Except.pure]
  · obtain ⟨k, hk⟩ : ∃ k, s.x.findIdx? (· = a) = some k := by
      cases h : s.x.findIdx? (· = a) with
      | some k => exact ⟨k, rfl⟩
      | none =>
        rw [List.findIdx?_eq_none_iff] at h
        simpa using h a ha
    simp [sliceByValue, hk, findIdx?_absent s.x v hv, bind, Except.bind, throw, throwThe,
      MonadExceptOf.throw, pure, Except.pure]

/-! ## `interpolate` -/

theorem zip_map_eq (newX : List K) (f : K → ℤ) (g : K → ℤ → K) :
    (newX.zip (newX.map f)).map (fun p => g p.1 p.2) = newX.map (fun t => g t (f t)) := by
  induction newX with
  | nil => rfl
  | cons a l ih => simp [ih]

/-- `_piecewise_constant_interpolate` in closed form (values read with the total `getD`) -/
theorem interpConstant_eq (x y newX : List K) (left : Option K) (hx : x.Pairwise (· < ·))
    (hx0 : x ≠ []) (hq : newX.Pairwise (· ≤ ·)) (hq0 : newX ≠ []) :
    interpConstant x y newX left
      = .ok (newX.map (fun t => if t < x.headD 0 then left.getD (y.headD 0)
                                 else y.getD (leftIdx x t) 0)) := by
  unfold interpConstant
  rw [C10.findLower_spec true x newX hx hq hx0 hq0]
  simp only [bind, Except.bind, pure, Except.pure]
  congr 1
  exact zip_map_eq newX (C10.lowerSpec true x)
    (fun t i => if t < x.headD 0 then left.getD (y.headD 0) else y.getD i.toNat 0)

/-- the index found for a knot is the knot's own index -/
theorem leftIdx_knot (x : List K) (hx : x.Pairwise (· < ·)) (k : ℕ) (hk : k < x.length) :
    leftIdx x x[k] = k := by
  obtain ⟨i, hi, he, h1, h2⟩ :=
    (C10.lowerSpec_char true x hx x[k]).1 ⟨x[k], List.getElem_mem hk, le_rfl⟩
  have hik : k ≤ i := h2 k hk le_rfl
  have : leftIdx x x[k] = i := by simp [leftIdx, he]
  rw [this]
  by_contra hne
  have hlt : k < i := by omega
  exact absurd (getElem_lt_of_lt hx hi hlt) (not_lt.mpr h1)

theorem constant_knots (x y : List K) (hx : x.Pairwise (· < ·)) (hx0 : x ≠ [])
    (hy : y.length = x.length) : interpConstant x y x none = .ok y := by
  rw [interpConstant_eq x y x none hx hx0 (hx.imp le_of_lt) hx0]
  congr 1
  apply List.ext_getElem
  · simp [hy]
  · intro k h1 h2
    simp only [List.length_map] at h1
    have h0 : x.headD 0 = x[0]'(by omega) := by
      cases x with
      | nil => exact absurd rfl hx0
      | cons a l => rfl
    have hge : ¬ (x[k] < x.headD 0) := by
      rw [h0]; exact not_lt.mpr (getElem_le_of_le hx h1 (Nat.zero_le k))
    rw [List.getElem_map, if_neg hge, leftIdx_knot x hx k h1]
    simp [List.getD_eq_getElem?_getD, h2]

/-- the interval index computed by counting: `j` when `x j ≤ t < x (j+1)` -/
theorem countP_interval (x : ℕ → K) (n j : ℕ) (t : K) (hx : StrictIncr (n - 1) x)
    (hj : j + 1 < n) (h1 : x j ≤ t) (h2 : t < x (j + 1)) :
    (List.range (n - 1)).countP (fun i => decide (x (i + 1) ≤ t)) = j := by
  have hsplit : List.range (n - 1) = List.range j ++ (List.range (n - 1 - j)).map (· + j) := by
    have : n - 1 = j + (n - 1 - j) := by omega
    conv_lhs => rw [this, List.range_add]
    simp [Nat.add_comm]
  rw [hsplit, List.countP_append]
  have ha : (List.range j).countP (fun i => decide (x (i + 1) ≤ t)) = j := by
    rw [List.countP_eq_length.mpr, List.length_range]
    intro i hi
    have hi' : i < j := List.mem_range.mp hi
    have : x (i + 1) ≤ x j := strictIncr_le hx (i + 1) j (by omega) (by omega)
    simpa using le_trans this h1
  have hb : ((List.range (n - 1 - j)).map (· + j)).countP (fun i => decide (x (i + 1) ≤ t)) = 0 := by
    rw [List.countP_eq_zero]
    intro i hi
    obtain ⟨m, hm, rfl⟩ := List.mem_map.mp hi
    have hm' : m < n - 1 - j := List.mem_range.mp hm
    have : x (j + 1) ≤ x (m + j + 1) := strictIncr_le hx (j + 1) (m + j + 1) (by omega) (by omega)
    simpa using lt_of_lt_of_le h2 this
  rw [ha, hb, Nat.add_zero]

theorem interpLinearAt_clamp_left (x y : ℕ → K) (n : ℕ) (t : K) (h : t ≤ x 0) :
    interpLinearAt x y n t = y 0 := by
  simp [interpLinearAt, h]

theorem interpLinearAt_clamp_right (x y : ℕ → K) (n : ℕ) (t : K) (hx : StrictIncr (n - 1) x)
    (h : x (n - 1) ≤ t) : interpLinearAt x y n t = y (n - 1) := by
  unfold interpLinearAt
  by_cases h0 : t ≤ x 0
  · rw [if_pos h0]
    -- `x (n-1) ≤ t ≤ x 0` forces `n - 1 = 0`
    by_cases hn : n - 1 = 0
    · rw [hn]
    · have := strictIncr_lt hx 0 (n - 1) (by omega) le_rfl
      exact absurd (le_trans h h0) (not_le.mpr this)
  · rw [if_neg h0, if_pos h]

theorem interpLinearAt_between (x y : ℕ → K) (n j : ℕ) (t : K) (hx : StrictIncr (n - 1) x)
    (hj : j + 1 < n) (h1 : x j ≤ t) (h2 : t < x (j + 1)) :
    interpLinearAt x y n t = y j + (y (j + 1) - y j) / (x (j + 1) - x j) * (t - x j) := by
  unfold interpLinearAt
  by_cases h0 : t ≤ x 0
  · rw [if_pos h0]
    have hj0 : j = 0 := by
      by_contra hne
      have := strictIncr_lt hx 0 j (by omega) (by omega)
      exact absurd (le_trans h1 h0) (not_le.mpr this)
    subst hj0
    have : t = x 0 := le_antisymm h0 h1
    rw [this]; simp
  · rw [if_neg h0]
    have hlast : ¬ (x (n - 1) ≤ t) := by
      have := strictIncr_le hx (j + 1) (n - 1) (by omega) le_rfl
      exact not_le.mpr (lt_of_lt_of_le h2 this)
    rw [if_neg hlast]
    simp only [countP_interval x n j t hx hj h1 h2]
    ring

theorem interpLinearAt_knot (x y : ℕ → K) (n i : ℕ) (hx : StrictIncr (n - 1) x) (hi : i < n) :
    interpLinearAt x y n (x i) = y i := by
  by_cases hl : i + 1 < n
  · rw [interpLinearAt_between x y n i (x i) hx hl le_rfl (hx i (by omega))]
    simp
  · have : i = n - 1 := by omega
    subst this
    exact interpLinearAt_clamp_right x y n _ hx le_rfl

/-- every point of `[x 0, x (n-1))` lies in exactly one sample interval -/
theorem exists_interval (x : ℕ → K) (n : ℕ) (t : K) (h0 : x 0 ≤ t) (h1 : t < x (n - 1)) :
    ∃ j, j + 1 < n ∧ x j ≤ t ∧ t < x (j + 1) := by
  induction n with
  | zero => exact absurd (lt_of_le_of_lt h0 h1) (lt_irrefl _)
  | succ m ih =>
    cases m with
    | zero => exact absurd (lt_of_le_of_lt h0 h1) (lt_irrefl _)
    | succ m =>
      simp only [Nat.add_sub_cancel] at h1 ih
      by_cases h : t < x m
      · obtain ⟨j, hj, a, b⟩ := ih h
        exact ⟨j, by omega, a, b⟩
      · exact ⟨m, by omega, not_lt.mp h, h1⟩

theorem linear_affine (x y : ℕ → K) (n : ℕ) (a b t : K) (hn : 1 ≤ n) (hx : StrictIncr (n - 1) x)
    (hy : ∀ i, i < n → y i = a * x i + b) (h0 : x 0 ≤ t) (h1 : t ≤ x (n - 1)) :
    interpLinearAt x y n t = a * t + b := by
  rcases lt_or_eq_of_le h1 with h1 | h1
  · obtain ⟨j, hj, ha, hb⟩ := exists_interval x n t h0 h1
    rw [interpLinearAt_between x y n j t hx hj ha hb, hy j (by omega), hy (j + 1) hj]
    have hne : x (j + 1) - x j ≠ 0 := sub_ne_zero.mpr (ne_of_gt (hx j (by omega)))
    field_simp
    ring
  · rw [h1, interpLinearAt_knot x y n (n - 1) hx (by omega), hy (n - 1) (by omega)]

theorem linear_between_bounds (x y : ℕ → K) (n j : ℕ) (t : K) (hx : StrictIncr (n - 1) x)
    (hj : j + 1 < n) (h1 : x j ≤ t) (h2 : t < x (j + 1)) :
    min (y j) (y (j + 1)) ≤ interpLinearAt x y n t ∧
      interpLinearAt x y n t ≤ max (y j) (y (j + 1)) := by
  rw [interpLinearAt_between x y n j t hx hj h1 h2]
  have hpos : 0 < x (j + 1) - x j := sub_pos.mpr (hx j (by omega))
  set s := (t - x j) / (x (j + 1) - x j) with hs
  have hs0 : 0 ≤ s := div_nonneg (sub_nonneg.mpr h1) hpos.le
  have hs1 : s ≤ 1 := by
    rw [hs, div_le_one hpos]; linarith
  have hval : y j + (y (j + 1) - y j) / (x (j + 1) - x j) * (t - x j)
      = y j + s * (y (j + 1) - y j) := by
    rw [hs]; field_simp
  rw [hval]
  rcases le_total (y j) (y (j + 1)) with h | h
  · rw [min_eq_left h, max_eq_right h]
    constructor
    · nlinarith [mul_nonneg hs0 (sub_nonneg.mpr h)]
    · nlinarith [mul_nonneg (sub_nonneg.mpr hs1) (sub_nonneg.mpr h)]
  · rw [min_eq_right h, max_eq_left h]
    constructor
    · nlinarith [mul_nonneg (sub_nonneg.mpr hs1) (sub_nonneg.mpr h)]
    · nlinarith [mul_nonneg hs0 (sub_nonneg.mpr h)]


theorem linspaceAt_first (a b : K) (n : ℕ) : linspaceAt a b n 0 = a := by
  unfold linspaceAt
  have : ¬ (0 + 1 = n ∧ 1 < n) := by omega
  rw [if_neg this]; simp

theorem linspaceAt_last (a b : K) (n : ℕ) (hn : 2 ≤ n) : linspaceAt a b n (n - 1) = b := by
  unfold linspaceAt
  rw [if_pos ⟨by omega, by omega⟩]

theorem linspaceAt_inner (a b : K) (n i : ℕ) (hi : i + 1 < n) :
    linspaceAt a b n i = a + (i : K) * ((b - a) / ((n - 1 : ℕ) : K)) := by
  unfold linspaceAt
  rw [if_neg (by omega)]

theorem linspaceAt_step (a b : K) (n i : ℕ) (hi : i + 1 < n) :
    linspaceAt a b n (i + 1) - linspaceAt a b n i = (b - a) / ((n - 1 : ℕ) : K) := by
  have hne : ((n - 1 : ℕ) : K) ≠ 0 := by
    have : n - 1 ≠ 0 := by omega
    exact_mod_cast this
  rw [linspaceAt_inner a b n i hi]
  by_cases hl : i + 2 = n
  · have h1 : i + 1 = n - 1 := by omega
    rw [h1, linspaceAt_last a b n (by omega)]
    have hc : ((n - 1 : ℕ) : K) = (i : K) + 1 := by rw [← h1]; push_cast; ring
    rw [hc] at hne ⊢
    field_simp
    ring
  · rw [linspaceAt_inner a b n (i + 1) (by omega)]
    push_cast; ring

theorem linspace_strictIncr (a b : K) (n : ℕ) (hab : a < b) (hn : 2 ≤ n) :
    StrictIncr (n - 1) (linspaceAt a b n) := by
  intro i hi
  have hstep := linspaceAt_step a b n i (by omega)
  have hpos : (0 : K) < ((n - 1 : ℕ) : K) := by
    have : 0 < n - 1 := by omega
    exact_mod_cast this
  have : 0 < (b - a) / ((n - 1 : ℕ) : K) := div_pos (sub_pos.mpr hab) hpos
  linarith

theorem arrFn_toArray (l : List K) : arrFn l.toArray = fnOf l := by
  funext i
  simp [arrFn, fnOf, Array.getD, List.getD_eq_getElem?_getD]
  split <;> simp_all

theorem interpolate_unknown_method (x y newX ext : List K) (m : String)
    (h : Method.ofString? m = none) : interpolate x y newX m ext = .error .valueError := by
  simp [interpolate, h]

theorem interpolate_linear_eq (x y newX ext : List K) :
    interpolate x y newX "linear" ext
      = .ok (newX.map (interpLinearAt (fnOf x) (fnOf y) x.length)) := by
  rw [← arrFn_toArray, ← arrFn_toArray]; rfl

theorem interpolate_constant_eq (x y newX ext : List K) :
    interpolate x y newX "constant" ext = interpConstant x y newX none := rfl

theorem interpolate_external (x y newX ext : List K) :
    interpolate x y newX "cubic" ext = .ok ext ∧ interpolate x y newX "spline" ext = .ok ext :=
  ⟨rfl, rfl⟩

theorem fnOf_strictIncr (x : List K) (hx : x.Pairwise (· < ·)) :
    StrictIncr (x.length - 1) (fnOf x) := by
  intro i hi
  have h1 : i + 1 < x.length := by omega
  simp only [fnOf, List.getD_eq_getElem?_getD, List.getElem?_eq_getElem h1,
    List.getElem?_eq_getElem (by omega : i < x.length), Option.getD_some]
  exact getElem_lt_of_lt hx h1 (by omega)

theorem fnOf_getElem (x : List K) (i : ℕ) (hi : i < x.length) : fnOf x i = x[i] := by
  simp [fnOf, List.getD_eq_getElem?_getD, hi]

/-- 'linear' at the original abscissae returns the original values -/
theorem linear_knots (x y ext : List K) (hx : x.Pairwise (· < ·)) (hy : y.length = x.length) :
    interpolate x y x "linear" ext = .ok y := by
  rw [interpolate_linear_eq]
  congr 1
  apply List.ext_getElem
  · simp [hy]
  · intro k h1 h2
    simp only [List.length_map] at h1
    rw [List.getElem_map, ← fnOf_getElem x k h1,
      interpLinearAt_knot (fnOf x) (fnOf y) x.length k (fnOf_strictIncr x hx) h1,
      fnOf_getElem y k h2]

/-! ## one step of the `Weaver` -/

theorem truncateS_eq_map (x y : List K) (l r : K) (lr rr : Bool) :
    truncateS x y l r lr rr
      = (truncateBounds x l r lr rr).map
          (fun p => ((x.drop p.1).take (p.2 - p.1), (y.drop p.1).take (p.2 - p.1))) := by
  unfold truncateS
  cases truncateBounds x l r lr rr <;> rfl

/-- `truncate_by_value`: on success both pairs are cut by `truncateS` with the same arguments;
on failure nothing is assigned -/
theorem step_truncV (s : State K) (l r : K) (lr rr : Bool) :
    (∃ x y rx ry, truncateS s.x s.y l r lr rr = .ok (x, y) ∧
        truncateS s.rx s.ry l r lr rr = .ok (rx, ry) ∧
        step s (.truncV l r lr rr) = ok { s with x := x, y := y, rx := rx, ry := ry }) ∨
    (∃ e, (truncateS s.x s.y l r lr rr = .error e ∨
            ((∃ p, truncateS s.x s.y l r lr rr = .ok p) ∧
              truncateS s.rx s.ry l r lr rr = .error e)) ∧
        step s (.truncV l r lr rr) = fail s e) := by
  simp only [step]
  cases h1 : truncateS s.x s.y l r lr rr with
  | error e => right; exact ⟨e, Or.inl rfl, rfl⟩
  | ok p =>
    obtain ⟨x, y⟩ := p
    cases h2 : truncateS s.rx s.ry l r lr rr with
    | error e => right; exact ⟨e, Or.inr ⟨⟨_, rfl⟩, rfl⟩, rfl⟩
    | ok q =>
      obtain ⟨rx, ry⟩ := q
      left; exact ⟨x, y, rx, ry, rfl, rfl, rfl⟩

theorem step_truncI_ok (s : State K) (start : ℤ) (stop : Option ℤ) (h0 : 0 ≤ start)
    (h1 : stop.getD s.x.length ≤ s.x.length) :
    step s (.truncI start stop)
      = ok { s with x := pySlice s.x start (stop.getD s.x.length),
                    y := pySlice s.y start (stop.getD s.x.length),
                    rx := pySlice s.rx start (stop.getD s.x.length),
                    ry := pySlice s.ry start (stop.getD s.x.length) } := by
  simp only [step]
  rw [if_neg (by omega), if_neg (by omega)]

theorem step_truncI_neg_start (s : State K) (start : ℤ) (stop : Option ℤ) (h : start < 0) :
    step s (.truncI start stop) = fail s .valueError := by
  simp only [step]; rw [if_pos h]

theorem step_truncI_stop_gt (s : State K) (start stop : ℤ) (h : (s.x.length : ℤ) < stop) :
    step s (.truncI start (some stop)) = fail s .valueError := by
  simp only [step]
  by_cases h0 : start < 0
  · rw [if_pos h0]
  · rw [if_neg h0, if_pos (by simpa using h)]

theorem step_interpN (s : State K) (n : ℕ) (m : String) (ext : List K) :
    (∃ y, interpolate s.x s.y (ofFn n (linspaceAt (s.x.headD 0) (s.x.getLastD 0) n)) m ext = .ok y ∧
        step s (.interpN n m ext)
          = ok { s with y := y, x := ofFn n (linspaceAt (s.x.headD 0) (s.x.getLastD 0) n) }) ∨
    (∃ e, interpolate s.x s.y (ofFn n (linspaceAt (s.x.headD 0) (s.x.getLastD 0) n)) m ext
          = .error e ∧ step s (.interpN n m ext) = fail s e) := by
  simp only [step]
  cases h : interpolate s.x s.y (ofFn n (linspaceAt (s.x.headD 0) (s.x.getLastD 0) n)) m ext with
  | error e => right; exact ⟨e, rfl, rfl⟩
  | ok y => left; exact ⟨y, rfl, rfl⟩

theorem step_interpX_mismatch (s : State K) (newX : List K) (m : String) (ext : List K)
    (h : newX.headD 0 ≠ s.x.headD 0 ∨ newX.getLastD 0 ≠ s.x.getLastD 0) :
    step s (.interpX newX m ext) = fail s .valueError := by
  simp only [step]; rw [if_pos h]

theorem step_interpX_ok (s : State K) (newX : List K) (m : String) (ext y : List K)
    (h1 : newX.headD 0 = s.x.headD 0) (h2 : newX.getLastD 0 = s.x.getLastD 0)
    (hy : interpolate s.x s.y newX m ext = .ok y) :
    step s (.interpX newX m ext) = ok { s with y := y, x := newX } := by
  simp only [step]
  rw [if_neg (by rintro (h | h); exacts [h h1, h h2]), hy]

theorem step_noise (s : State K) (draw : List K) :
    step s (.noise draw) = ok { s with y := ofFn s.y.length (noiseAdd (fnOf s.y) (fnOf draw)) } :=
  rfl

theorem step_smooth (s : State K) (ext : List K) : step s (.smooth ext) = ok { s with y := ext } :=
  rfl

theorem ofFn_length (n : ℕ) (f : ℕ → K) : (ofFn n f).length = n := by simp [ofFn]

theorem ofFn_getElem (n : ℕ) (f : ℕ → K) (i : ℕ) (hi : i < (ofFn n f).length) :
    (ofFn n f)[i] = f i := by simp [ofFn]

theorem ofFn_headD (n : ℕ) (f : ℕ → K) (hn : 1 ≤ n) : (ofFn n f).headD 0 = f 0 := by
  obtain ⟨m, rfl⟩ : ∃ m, n = m + 1 := ⟨n - 1, by omega⟩
  simp [ofFn, List.range_succ_eq_map]

theorem ofFn_getLastD (n : ℕ) (f : ℕ → K) (hn : 1 ≤ n) : (ofFn n f).getLastD 0 = f (n - 1) := by
  obtain ⟨m, rfl⟩ : ∃ m, n = m + 1 := ⟨n - 1, by omega⟩
  simp [ofFn, List.range_succ]

/-! ## `noise_gauss`, `spline_smooth` -/

theorem signalPower_eq (a : ℕ → K) (n : ℕ) :
    signalPower a n = (∑ i ∈ range n, a i ^ 2) / (n : K) := by
  unfold signalPower
  rw [sumTo_eq_sum]
  congr 1
  apply sum_congr rfl
  intro i _; ring

theorem signalPower_nonneg (a : ℕ → K) (n : ℕ) : 0 ≤ signalPower a n := by
  rw [signalPower_eq]
  exact div_nonneg (sum_nonneg fun i _ => sq_nonneg _) (Nat.cast_nonneg n)

theorem mean_eq (y : ℕ → K) (n : ℕ) : mean y n = (∑ i ∈ range n, y i) / (n : K) := by
  unfold mean; rw [sumTo_eq_sum]

theorem defaultS_eq (y : ℕ → K) (n : ℕ) (hn : n ≠ 0) :
    defaultS y n = ∑ i ∈ range n, (y i - mean y n) ^ 2 := by
  have hne : (n : K) ≠ 0 := by exact_mod_cast hn
  unfold defaultS
  rw [sumTo_eq_sum, mul_div_cancel₀ _ hne]
  apply sum_congr rfl
  intro i _; ring

/-- a sum of squares that is `≤ 0` forces every term to vanish -/
theorem sq_sum_le_zero (f : ℕ → K) (n : ℕ) (h : ∑ i ∈ range n, (f i) ^ 2 ≤ 0) :
    ∀ i, i < n → f i = 0 := by
  intro i hi
  have hnn : ∀ j ∈ range n, 0 ≤ (f j) ^ 2 := fun j _ => sq_nonneg _
  have hz : ∑ j ∈ range n, (f j) ^ 2 = 0 := le_antisymm h (sum_nonneg hnn)
  have := (sum_eq_zero_iff_of_nonneg hnn).mp hz i (mem_range.mpr hi)
  exact pow_eq_zero_iff (two_ne_zero) |>.mp this

end TWV.Process
