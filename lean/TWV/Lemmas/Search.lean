import TWV.Model.Search
import Mathlib.Algebra.Order.Field.Basic
import Mathlib.Algebra.Order.Group.Abs
import Mathlib.Algebra.Order.Ring.Int
import Mathlib.Tactic.Linarith
import Mathlib.Tactic.Ring
import Mathlib.Tactic.Push
import Mathlib.Tactic.NormNum
import Mathlib.Tactic.IntervalCases

/-!
# Helper lemmas for the three sorted-array scans (property C10)

* counting lemmas for a *downward closed* Boolean predicate on a strictly increasing list
  (`fun a => a ≤ t` and `fun a => a < t` are the two instances used);
* the inner `while` loops (`advLower`, `advHigher`, `advClosest`) in closed form;
* the second outer loops in closed form (`lowerPhase2_spec`, `higherPhase2_spec`,
  `closestPhase2_spec`);
* the first outer loops glued to an arbitrary continuation (`lowerPhase1_glue`,
  `higherPhase1_glue`);
* the geometric argument for the `closest` variant (`closestFrom_isClosest`).
-/

namespace TWV
namespace Search

/-! ### counting with a downward closed predicate -/

section Counting
variable {K : Type} [LinearOrder K]

/-- `p` is downward closed: if it holds for `b` it holds for everything below `b` -/
def DownClosed (p : K → Bool) : Prop := ∀ a b : K, a < b → p b = true → p a = true

theorem downClosed_le (l : K) : DownClosed (fun a : K => decide (a ≤ l)) := by
  intro a b hab hb
  simp only [decide_eq_true_eq] at *
  exact hab.le.trans hb

theorem downClosed_lt (l : K) : DownClosed (fun a : K => decide (a < l)) := by
  intro a b hab hb
  simp only [decide_eq_true_eq] at *
  exact hab.trans hb

/-- if the head of a strictly increasing list fails `p`, nothing in the tail satisfies it -/
theorem countP_tail_eq_zero {p : K → Bool} (hp : DownClosed p) {a : K} {rest : List K}
    (hs : (a :: rest).Pairwise (· < ·)) (ha : p a = false) : rest.countP p = 0 := by
  rw [List.countP_eq_zero]
  intro b hb hpb
  have := hp a b ((List.pairwise_cons.mp hs).1 b hb) hpb
  rw [ha] at this
  exact Bool.noConfusion this

/-- in a strictly increasing list the elements satisfying a downward closed predicate are exactly
the first `countP p` ones -/
theorem getElem_iff_lt_countP {p : K → Bool} (hp : DownClosed p) :
    ∀ (x : List K), x.Pairwise (· < ·) →
      ∀ j (hj : j < x.length), p x[j] = true ↔ j < x.countP p := by
  intro x
  induction x with
  | nil => intro _ j hj; simp at hj
  | cons a x ih =>
    intro hs j hj
    have hs' := List.pairwise_cons.mp hs
    cases hpa : p a with
    | true =>
      cases j with
      | zero => simp [hpa]
      | succ j =>
        have hj' : j < x.length := by simpa using hj
        have := ih hs'.2 j hj'
        simp only [List.getElem_cons_succ, List.countP_cons, hpa, if_true]
        rw [this]; omega
    | false =>
      have hz := countP_tail_eq_zero hp hs hpa
      cases j with
      | zero => simp [hpa, hz]
      | succ j =>
        have hj' : j < x.length := by simpa using hj
        have hf : ¬ (p x[j] = true) := List.countP_eq_zero.mp hz x[j] (List.getElem_mem hj')
        simp [hpa, hz, hf]

/-- counting a weaker predicate `p'` splits at the `p`-prefix -/
theorem countP_split {p p' : K → Bool} (hp : DownClosed p) (hpp : ∀ a, p a = true → p' a = true) :
    ∀ rest : List K, rest.Pairwise (· < ·) →
      rest.countP p' = rest.countP p + (rest.drop (rest.countP p)).countP p' := by
  intro rest
  induction rest with
  | nil => intro _; simp
  | cons a rest ih =>
    intro hs
    have hs' := List.pairwise_cons.mp hs
    cases hpa : p a with
    | true =>
      have hpa' := hpp a hpa
      have := ih hs'.2
      simp only [List.countP_cons, hpa, hpa', if_true, List.drop_succ_cons]
      omega
    | false =>
      have hz := countP_tail_eq_zero hp hs hpa
      simp [hpa, hz]

theorem countP_le_mono {q t : K} (hqt : q ≤ t) (rest : List K) (hs : rest.Pairwise (· < ·)) :
    rest.countP (· ≤ t)
      = rest.countP (· ≤ q) + (rest.drop (rest.countP (· ≤ q))).countP (· ≤ t) :=
  countP_split (downClosed_le q)
    (by intro a ha; simp only [decide_eq_true_eq] at *; exact ha.trans hqt) rest hs

theorem countP_lt_mono {q t : K} (hqt : q ≤ t) (rest : List K) (hs : rest.Pairwise (· < ·)) :
    rest.countP (· < t)
      = rest.countP (· < q) + (rest.drop (rest.countP (· < q))).countP (· < t) :=
  countP_split (downClosed_lt q)
    (by intro a ha; simp only [decide_eq_true_eq] at *; exact lt_of_lt_of_le ha hqt) rest hs

end Counting

variable {K : Type} [Field K] [LinearOrder K] [IsStrictOrderedRing K]

-- several lemmas below only need the order structure; the full set of instances is kept so that
-- the model functions (which also ask for `Add K`, `Sub K`) elaborate uniformly
set_option linter.unusedSectionVars false

/-! ### `lower` -/

theorem advLower_spec (l : K) : ∀ (rest : List K) (idx : ℕ), rest.Pairwise (· < ·) →
    advLower l idx rest = (idx + rest.countP (· ≤ l), rest.drop (rest.countP (· ≤ l))) := by
  intro rest
  induction rest with
  | nil => intro idx _; simp [advLower]
  | cons nx rest ih =>
    intro idx hs
    have hs' := List.pairwise_cons.mp hs
    unfold advLower
    split
    · rename_i h
      rw [ih (idx + 1) hs'.2]
      simp only [List.countP_cons, h, decide_true, if_true, List.drop_succ_cons, Prod.mk.injEq,
        and_true]
      omega
    · rename_i h
      have hz := countP_tail_eq_zero (downClosed_le l) hs (by simp [h])
      simp [h, hz]

theorem lowerPhase2_spec : ∀ (qs : List K) (idx : ℕ) (rest : List K),
    rest.Pairwise (· < ·) → qs.Pairwise (· ≤ ·) →
    lowerPhase2 idx rest qs = qs.map (fun t => (idx : ℤ) + (rest.countP (· ≤ t) : ℤ)) := by
  intro qs
  induction qs with
  | nil => intro _ _ _ _; rfl
  | cons q qs ih =>
    intro idx rest hr hq
    have hq' := List.pairwise_cons.mp hq
    simp only [lowerPhase2, List.map_cons]
    rw [advLower_spec q rest idx hr]
    simp only
    rw [ih _ _ (hr.sublist (List.drop_sublist _ _)) hq'.2]
    refine List.cons_eq_cons.mpr ⟨by push_cast; rfl, ?_⟩
    apply List.map_congr_left
    intro t ht
    rw [countP_le_mono (hq'.1 t ht) rest hr]
    push_cast; ring

/-- first loop of `lower`, glued to any continuation `g` that agrees with `f` on sorted query
lists lying at or above `x0` -/
theorem lowerPhase1_glue (fill : Bool) (x0 : K) (f : K → ℤ) (g : List K → List ℤ)
    (hf : ∀ t, t < x0 → f t = if fill then 0 else -1)
    (hg : ∀ qs : List K, qs.Pairwise (· ≤ ·) → (∀ t ∈ qs, x0 ≤ t) → g qs = qs.map f) :
    ∀ qs : List K, qs.Pairwise (· ≤ ·) →
      (lowerPhase1 fill x0 qs).1 ++ g (lowerPhase1 fill x0 qs).2 = qs.map f := by
  intro qs
  induction qs with
  | nil => intro h; simpa [lowerPhase1] using hg [] h (by simp)
  | cons l ls ih =>
    intro hq
    have hq' := List.pairwise_cons.mp hq
    unfold lowerPhase1
    split
    · rename_i h
      simp only [List.cons_append, List.map_cons]
      rw [ih hq'.2, hf l h]
    · rename_i h
      have hl : x0 ≤ l := not_lt.mp h
      simp only [List.nil_append]
      apply hg _ hq
      intro t ht
      rcases List.mem_cons.mp ht with rfl | ht
      · exact hl
      · exact hl.trans (hq'.1 t ht)

/-! ### `higher` -/

theorem advHigher_spec (l : K) : ∀ (rest : List K) (idx : ℕ), rest.Pairwise (· < ·) →
    advHigher l idx rest = (idx + rest.countP (· < l), rest.drop (rest.countP (· < l))) := by
  intro rest
  induction rest with
  | nil => intro idx _; simp [advHigher]
  | cons nx rest ih =>
    intro idx hs
    have hs' := List.pairwise_cons.mp hs
    unfold advHigher
    split
    · rename_i h
      rw [ih (idx + 1) hs'.2]
      simp only [List.countP_cons, h, decide_true, if_true, List.drop_succ_cons, Prod.mk.injEq,
        and_true]
      omega
    · rename_i h
      have hz := countP_tail_eq_zero (downClosed_lt l) hs (by simp [h])
      simp [h, hz]

/-- value written by the second loop of `higher` for the query `t`, when the array pointer is at
`idx` and `rest` is what lies to the right of it -/
def higherVal (fill : Bool) (len idx : ℕ) (rest : List K) (t : K) : ℤ :=
  if rest.countP (· < t) = rest.length then
    (if fill then (idx : ℤ) + rest.length else len)
  else (idx : ℤ) + rest.countP (· < t) + 1

theorem higherPhase2_spec (fill : Bool) (len : ℕ) : ∀ (qs : List K) (idx : ℕ) (rest : List K),
    rest.Pairwise (· < ·) → qs.Pairwise (· ≤ ·) →
    higherPhase2 fill len idx rest qs = qs.map (higherVal fill len idx rest) := by
  intro qs
  induction qs with
  | nil => intro _ _ _ _; rfl
  | cons q qs ih =>
    intro idx rest hr hq
    have hq' := List.pairwise_cons.mp hq
    simp only [higherPhase2, List.map_cons]
    rw [advHigher_spec q rest idx hr]
    simp only
    rw [ih _ _ (hr.sublist (List.drop_sublist _ _)) hq'.2]
    have hcl : rest.countP (· < q) ≤ rest.length := List.countP_le_length
    refine List.cons_eq_cons.mpr ⟨?_, ?_⟩
    · unfold higherVal
      by_cases hc : rest.countP (· < q) = rest.length
      · have hd : rest.drop (rest.countP (· < q)) = [] := by
          rw [List.drop_eq_nil_iff]; omega
        rw [hd, if_pos hc]
        simp only
        rw [hc]; push_cast; rfl
      · have hlt : rest.countP (· < q) < rest.length := lt_of_le_of_ne hcl hc
        rw [List.drop_eq_getElem_cons hlt, if_neg hc]
        simp only
        push_cast; rfl
    · apply List.map_congr_left
      intro t ht
      have hsplit := countP_lt_mono (hq'.1 t ht) rest hr
      have hct : rest.countP (· < t) ≤ rest.length := List.countP_le_length
      unfold higherVal
      rw [List.length_drop]
      by_cases hc : rest.countP (· < t) = rest.length
      · rw [if_pos hc, if_pos (by omega)]
        cases fill
        · rfl
        · simp only [if_true]
          push_cast [Nat.cast_sub hcl]; ring
      · rw [if_neg hc, if_neg (by omega), hsplit]
        push_cast; ring

/-- first loop of `higher` / `closest`, glued to any continuation `g` that agrees with `f` on
sorted query lists lying strictly above `x0` -/
theorem higherPhase1_glue (x0 : K) (f : K → ℤ) (g : List K → List ℤ)
    (hf : ∀ t, t ≤ x0 → f t = 0)
    (hg : ∀ qs : List K, qs.Pairwise (· ≤ ·) → (∀ t ∈ qs, x0 < t) → g qs = qs.map f) :
    ∀ qs : List K, qs.Pairwise (· ≤ ·) →
      (higherPhase1 x0 qs).1 ++ g (higherPhase1 x0 qs).2 = qs.map f := by
  intro qs
  induction qs with
  | nil => intro h; simpa [higherPhase1] using hg [] h (by simp)
  | cons l ls ih =>
    intro hq
    have hq' := List.pairwise_cons.mp hq
    unfold higherPhase1
    split
    · rename_i h
      simp only [List.cons_append, List.map_cons]
      rw [ih hq'.2, hf l h]
    · rename_i h
      have hl : x0 < l := not_le.mp h
      simp only [List.nil_append]
      apply hg _ hq
      intro t ht
      rcases List.mem_cons.mp ht with rfl | ht
      · exact hl
      · exact lt_of_lt_of_le hl (hq'.1 t ht)

/-! ### `closest` -/

/-- what the second loop of `closest` writes for a single query `t` when started from the state
`(idx, xv, rest)`: walk right while the next element is `< t`, then compare the two neighbours -/
def closestFrom (t : K) : ℕ → K → List K → ℤ
  | idx, _, [] => (idx : ℤ)
  | idx, xv, nx :: rest =>
      if nx < t then closestFrom t (idx + 1) nx rest
      else if t - xv ≤ nx - t then (idx : ℤ) else (idx : ℤ) + 1

/-- the comparison of the two neighbours made after the inner loop (lines 500-508) -/
def closestPick (l : K) : ℕ × K × List K → ℤ
  | (i, _, []) => (i : ℤ)
  | (i, xv, nx :: _) => if l - xv ≤ nx - l then (i : ℤ) else (i : ℤ) + 1

theorem closestPhase2_cons (idx : ℕ) (xv : K) (rest : List K) (l : K) (ls : List K) :
    closestPhase2 idx xv rest (l :: ls)
      = closestPick l (advClosest l idx xv rest) ::
          closestPhase2 (advClosest l idx xv rest).1 (advClosest l idx xv rest).2.1
            (advClosest l idx xv rest).2.2 ls := by
  simp only [closestPhase2]
  generalize advClosest l idx xv rest = r
  obtain ⟨i, v, r⟩ := r
  cases r <;> rfl

/-- the value written for the query `l` itself -/
theorem closestPick_adv (l : K) : ∀ (rest : List K) (idx : ℕ) (xv : K),
    closestPick l (advClosest l idx xv rest) = closestFrom l idx xv rest := by
  intro rest
  induction rest with
  | nil => intro idx xv; simp [advClosest, closestFrom, closestPick]
  | cons nx rest ih =>
    intro idx xv
    unfold advClosest closestFrom
    by_cases h : nx < l
    · rw [if_pos h, if_pos h]; exact ih (idx + 1) nx
    · rw [if_neg h, if_neg h]; rfl

/-- moving the pointer for an earlier query does not change what a later query gets -/
theorem closestFrom_adv_mono {l t : K} (hlt : l ≤ t) : ∀ (rest : List K) (idx : ℕ) (xv : K),
    closestFrom t (advClosest l idx xv rest).1 (advClosest l idx xv rest).2.1
        (advClosest l idx xv rest).2.2 = closestFrom t idx xv rest := by
  intro rest
  induction rest with
  | nil => intro idx xv; simp [advClosest]
  | cons nx rest ih =>
    intro idx xv
    unfold advClosest
    split
    · rename_i h
      rw [ih (idx + 1) nx]
      conv_rhs => unfold closestFrom
      rw [if_pos (lt_of_lt_of_le h hlt)]
    · rfl

theorem closestPhase2_spec : ∀ (qs : List K) (idx : ℕ) (xv : K) (rest : List K),
    qs.Pairwise (· ≤ ·) →
    closestPhase2 idx xv rest qs = qs.map (fun t => closestFrom t idx xv rest) := by
  intro qs
  induction qs with
  | nil => intro _ _ _ _; rfl
  | cons q qs ih =>
    intro idx xv rest hq
    have hq' := List.pairwise_cons.mp hq
    rw [closestPhase2_cons, List.map_cons, closestPick_adv q rest idx xv, ih _ _ _ hq'.2]
    refine List.cons_eq_cons.mpr ⟨rfl, ?_⟩
    apply List.map_congr_left
    intro t ht
    exact closestFrom_adv_mono (hq'.1 t ht) rest idx xv

/-- `i` is the index of the element of `x` nearest to `t`, the lower one in case of a tie -/
def Nearest (x : List K) (t : K) (i : ℕ) : Prop :=
  ∃ h : i < x.length, (∀ j (hj : j < x.length), |x[i] - t| ≤ |x[j] - t|) ∧
                      (∀ j (hj : j < i), |x[i] - t| < |x[j]'(by omega) - t|)

theorem Nearest.unique {x : List K} {t : K} {i j : ℕ} (hi : Nearest x t i)
    (hj : Nearest x t j) : i = j := by
  obtain ⟨hi0, hi1, hi2⟩ := hi
  obtain ⟨hj0, hj1, hj2⟩ := hj
  rcases lt_trichotomy i j with h | h | h
  · exact absurd (hi1 j hj0) (not_le.mpr (hj2 i h))
  · exact h
  · exact absurd (hj1 i hi0) (not_le.mpr (hi2 j h))

/-- strictly increasing, in index form -/
theorem getElem_lt_of_lt {x : List K} (hx : x.Pairwise (· < ·)) {i j : ℕ} (hj : j < x.length)
    (hij : i < j) : x[i]'(by omega) < x[j] :=
  List.pairwise_iff_getElem.mp hx i j (by omega) hj hij

theorem getElem_le_of_le {x : List K} (hx : x.Pairwise (· < ·)) {i j : ℕ} (hj : j < x.length)
    (hij : i ≤ j) : x[i]'(by omega) ≤ x[j] := by
  rcases Nat.lt_or_eq_of_le hij with h | h
  · exact (getElem_lt_of_lt hx hj h).le
  · subst h; exact le_rfl

/-- a query at or below the first element: index 0 is the closest -/
theorem isClosest_zero_of_le_head {x : List K} (hx : x.Pairwise (· < ·)) (h0 : 0 < x.length)
    {t : K} (ht : t ≤ x[0]) : Nearest x t 0 := by
  refine ⟨h0, ?_, ?_⟩
  · intro j hj
    have h1 : x[0] ≤ x[j] := getElem_le_of_le hx hj (Nat.zero_le j)
    rw [abs_of_nonneg (by linarith), abs_of_nonneg (by linarith)]
    linarith
  · intro j hj; omega

/-- a query at or above the last element: the last index is the closest -/
theorem isClosest_last_of_last_le {x : List K} (hx : x.Pairwise (· < ·)) (h0 : 0 < x.length)
    {t : K} (ht : x[x.length - 1] ≤ t) : Nearest x t (x.length - 1) := by
  refine ⟨by omega, ?_, ?_⟩
  · intro j hj
    have h1 : x[j] ≤ x[x.length - 1] := getElem_le_of_le hx (by omega) (by omega)
    rw [abs_of_nonpos (by linarith), abs_of_nonpos (by linarith)]
    linarith
  · intro j hj
    have h1 : x[j] < x[x.length - 1] := getElem_lt_of_lt hx (by omega) hj
    rw [abs_of_nonpos (by linarith), abs_of_nonpos (by linarith)]
    linarith

/-- the geometric content of the `closest` scan: started at an element `xv = x[idx] < t`, with
`rest` the part of `x` right of `idx`, `closestFrom` returns the index of the nearest element
(lower one on ties) -/
theorem closestFrom_isClosest {x : List K} (hx : x.Pairwise (· < ·)) (t : K) :
    ∀ (rest : List K) (idx : ℕ) (xv : K) (h : idx < x.length), x[idx] = xv →
      x.drop (idx + 1) = rest → xv < t →
      ∃ i : ℕ, closestFrom t idx xv rest = (i : ℤ) ∧ Nearest x t i := by
  intro rest
  induction rest with
  | nil =>
    intro idx xv h hxv hdrop hlt
    have hlen : x.length ≤ idx + 1 := List.drop_eq_nil_iff.mp hdrop
    have hidx : idx = x.length - 1 := by omega
    refine ⟨idx, by simp [closestFrom], ?_⟩
    subst hidx
    exact isClosest_last_of_last_le hx (by omega) (by rw [hxv]; exact hlt.le)
  | cons nx rest ih =>
    intro idx xv h hxv hdrop hlt
    have h1 : idx + 1 < x.length := by
      by_contra hc
      have : x.drop (idx + 1) = [] := List.drop_eq_nil_iff.mpr (by omega)
      rw [this] at hdrop
      exact absurd hdrop (by simp)
    rw [List.drop_eq_getElem_cons h1] at hdrop
    obtain ⟨hnx, hrest⟩ := List.cons_eq_cons.mp hdrop
    unfold closestFrom
    split
    · rename_i hn
      exact ih (idx + 1) nx h1 hnx hrest hn
    · rename_i hn
      have hn' : t ≤ nx := not_lt.mp hn
      -- everything left of `idx` is `≤ xv < t`, everything right of `idx + 1` is `≥ nx ≥ t`
      have hleft : ∀ j (hj : j < x.length), j ≤ idx → x[j] ≤ xv := by
        intro j hj hji; rw [← hxv]; exact getElem_le_of_le hx h hji
      have hleft' : ∀ j (hj : j < x.length), j < idx → x[j] < xv := by
        intro j hj hji; rw [← hxv]; exact getElem_lt_of_lt hx h hji
      have hright : ∀ j (hj : j < x.length), idx + 1 ≤ j → nx ≤ x[j] := by
        intro j hj hji; rw [← hnx]; exact getElem_le_of_le hx hj hji
      split
      · rename_i hc
        refine ⟨idx, rfl, h, ?_, ?_⟩
        · intro j hj
          rw [hxv, abs_of_neg (by linarith)]
          rcases Nat.lt_or_ge idx j with hji | hji
          · have := hright j hj hji
            rw [abs_of_nonneg (by linarith)]; linarith
          · have := hleft j hj hji
            rw [abs_of_neg (by linarith)]; linarith
        · intro j hj
          have := hleft' j (by omega) hj
          rw [hxv, abs_of_neg (by linarith), abs_of_neg (by linarith)]; linarith
      · rename_i hc
        have hc' : nx - t < t - xv := not_le.mp hc
        refine ⟨idx + 1, by push_cast; rfl, h1, ?_, ?_⟩
        · intro j hj
          rw [hnx, abs_of_nonneg (by linarith)]
          rcases Nat.lt_or_ge idx j with hji | hji
          · have := hright j hj hji
            rw [abs_of_nonneg (by linarith)]; linarith
          · have := hleft j hj hji
            rw [abs_of_neg (by linarith)]; linarith
        · intro j hj
          have := hleft j (by omega) (by omega)
          rw [hnx, abs_of_nonneg (by linarith), abs_of_neg (by linarith)]; linarith

/-- the value the `closest` scan writes for the query `t` (array `x0 :: xs`) -/
def closestVal (x0 : K) (xs : List K) (t : K) : ℤ :=
  if t ≤ x0 then 0 else closestFrom t 0 x0 xs

/-- the `closest` scan in closed form (no assumption on the array is needed for this step) -/
theorem findClosest_eq_map (x0 : K) (xs q : List K) (hq : q.Pairwise (· ≤ ·)) (hq0 : q ≠ []) :
    findClosest (x0 :: xs) q = .ok (q.map (closestVal x0 xs)) := by
  obtain ⟨q0, qs, rfl⟩ := List.exists_cons_of_ne_nil hq0
  simp only [findClosest]
  congr 1
  apply higherPhase1_glue x0 (closestVal x0 xs) (fun qs => closestPhase2 0 x0 xs qs)
  · intro t ht; simp [closestVal, ht]
  · intro qs hqs hgt
    show closestPhase2 0 x0 xs qs = _
    rw [closestPhase2_spec qs 0 x0 xs hqs]
    apply List.map_congr_left
    intro t ht
    simp [closestVal, not_le.mpr (hgt t ht)]
  · exact hq

theorem closestVal_nearest {x0 : K} {xs : List K} (hx : (x0 :: xs).Pairwise (· < ·)) (t : K) :
    ∃ i : ℕ, closestVal x0 xs t = (i : ℤ) ∧ Nearest (x0 :: xs) t i := by
  unfold closestVal
  split
  · rename_i h
    exact ⟨0, rfl, isClosest_zero_of_le_head hx (by simp) (by simpa using h)⟩
  · rename_i h
    exact closestFrom_isClosest hx t xs 0 x0 (by simp) (by simp) (by simp) (not_le.mp h)

end Search
end TWV
