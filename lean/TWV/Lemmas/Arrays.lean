import TWV.Model.Arrays
import TWV.Model.Interval
import TWV.Model.Process
import TWV.Lemmas.Basic
import Mathlib.Algebra.BigOperators.Intervals
import Mathlib.Order.Interval.Finset.Nat

/-!
# Helper lemmas for the array helpers, the interval view, `repeat` and `normalize`

Used by `TWV/Properties/C17.lean`, `C12.lean`, `C14.lean`.  (Independent of `TWV/Lemmas/Match.lean`;
the names are chosen so that both files can be imported together.)
-/

set_option linter.unusedSectionVars false

open Finset

namespace TWV

/-! ### division with remainder by a variable -/

theorem mul_add_div_of_lt {n j : ℕ} (k : ℕ) (hj : j < n) : (k * n + j) / n = k := by
  have hn : 0 < n := by omega
  rw [Nat.mul_comm, Nat.mul_add_div hn, Nat.div_eq_of_lt hj, Nat.add_zero]

theorem mul_add_mod_of_lt {n j : ℕ} (k : ℕ) (hj : j < n) : (k * n + j) % n = j := by
  rw [Nat.mul_comm, Nat.mul_add_mod, Nat.mod_eq_of_lt hj]

/-- every index is `k * n + j` with `j < n` -/
theorem exists_decomp (i n : ℕ) (hn : 0 < n) : ∃ k j, j < n ∧ i = k * n + j :=
  ⟨i / n, i % n, Nat.mod_lt _ hn, by
    have := Nat.div_add_mod i n
    rw [Nat.mul_comm] at this
    exact this.symm⟩

theorem decomp_lt {k j n M : ℕ} (h : k * n + j < M * n) : k < M := by
  by_contra hk
  have hk' : M ≤ k := Nat.le_of_not_lt hk
  have : M * n ≤ k * n := Nat.mul_le_mul_right n hk'
  omega

variable {K : Type} [Field K] [LinearOrder K] [IsStrictOrderedRing K]

/-! ### oversampling -/

theorem oversampleLin_apply (a : ℕ → K) {n j : ℕ} (k : ℕ) (hn : 2 ≤ n) (hj : j < n) :
    oversampleLin a n (k * n + j) = a k + (j : K) * ((a (k + 1) - a k) / (n : K)) := by
  simp only [oversampleLin, if_neg (show ¬ n < 2 by omega), mul_add_div_of_lt k hj,
    mul_add_mod_of_lt k hj]

theorem oversamplePC_apply (a : ℕ → K) {n j : ℕ} (k : ℕ) (hn : 2 ≤ n) (hj : j < n) :
    oversamplePC a n (k * n + j) = a k := by
  simp only [oversamplePC, if_neg (show ¬ n < 2 by omega), mul_add_div_of_lt k hj]

theorem natCast_ne_zero_of_two_le {n : ℕ} (hn : 2 ≤ n) : (n : K) ≠ 0 := by
  have : n ≠ 0 := by omega
  exact_mod_cast this

theorem natCast_pos_of_two_le {n : ℕ} (hn : 2 ≤ n) : (0 : K) < (n : K) := by
  have : 0 < n := by omega
  exact_mod_cast this

/-- the step from sample `k * n + j` to the next one (also across the knot) -/
theorem oversampleLin_succ_sub (a : ℕ → K) {n j : ℕ} (k : ℕ) (hn : 2 ≤ n) (hj : j < n) :
    oversampleLin a n (k * n + j + 1) - oversampleLin a n (k * n + j)
      = (a (k + 1) - a k) / (n : K) := by
  have hn0 : (n : K) ≠ 0 := natCast_ne_zero_of_two_le hn
  rw [oversampleLin_apply a k hn hj]
  rcases Nat.lt_or_ge (j + 1) n with h | h
  · rw [Nat.add_assoc, oversampleLin_apply a k hn h]
    push_cast; ring
  · have hj' : j + 1 = n := by omega
    have e : k * n + j + 1 = (k + 1) * n + 0 := by rw [Nat.add_assoc, hj', Nat.succ_mul]; rfl
    rw [e, oversampleLin_apply a (k + 1) hn (by omega)]
    have hjK : (j : K) = (n : K) - 1 := by
      have : ((j + 1 : ℕ) : K) = (n : K) := by rw [hj']
      push_cast at this; linarith
    rw [hjK]; push_cast; field_simp; ring

/-! ### `sum_over_indices` -/

theorem sumOverIndices_len (a : ℕ → K) :
    ∀ (R : List ℕ), (sumOverIndices a R).length = R.length - 1
  | [] => rfl
  | [_] => rfl
  | s :: e :: rest => by
      simp only [sumOverIndices, List.length_cons, sumOverIndices_len a (e :: rest)]
      omega

theorem sumOverIndices_get (a : ℕ → K) : ∀ (R : List ℕ) (k : ℕ) (h : k + 1 < R.length),
    (sumOverIndices a R)[k]? = some (sumRange a (R[k]'(by omega)) (R[k + 1]'h))
  | [], k, h => by simp at h
  | [_], k, h => by simp at h
  | s :: e :: rest, 0, h => by simp [sumOverIndices]
  | s :: e :: rest, k + 1, h => by
      simp only [sumOverIndices, List.getElem?_cons_succ, List.getElem_cons_succ]
      exact sumOverIndices_get a (e :: rest) k (by simpa using h)

theorem sumRange_eq_sum_Ico (a : ℕ → K) (s e : ℕ) : sumRange a s e = ∑ i ∈ Ico s e, a i := by
  unfold sumRange
  rw [sumTo_eq_sum, Finset.sum_Ico_eq_sum_range]
  rfl

/-! ### `IntervalArray` indexing -/

namespace Interval

theorem pyIndex_natCast {len p : ℕ} (h : p < len) : pyIndex len (p : ℤ) = .ok p := by
  simp [pyIndex, h]

theorem pyIndex_natCast_ge {len p : ℕ} (h : len ≤ p) :
    pyIndex len (p : ℤ) = .error .indexError := by
  simp [pyIndex, Nat.not_lt.mpr h]

theorem pyIndex_neg {len p : ℕ} (hp : 0 < p) (h : p ≤ len) :
    pyIndex len (-(p : ℤ)) = .ok (len - p) := by
  have h0 : ¬ (0 : ℤ) ≤ -(p : ℤ) := by omega
  rw [pyIndex, if_neg h0]
  simp [h]

theorem pyIndex_neg_lt {len p : ℕ} (h : len < p) :
    pyIndex len (-(p : ℤ)) = .error .indexError := by
  have h0 : ¬ (0 : ℤ) ≤ -(p : ℤ) := by omega
  rw [pyIndex, if_neg h0]
  simp [Nat.not_le.mpr h]

/-- a successful index normalisation lands inside the array -/
theorem pyIndex_ok_lt {len : ℕ} {k : ℤ} {p : ℕ} (h : pyIndex len k = .ok p) : p < len := by
  unfold pyIndex at h
  split at h
  · split at h
    · cases h; assumption
    · cases h
  · split at h
    · cases h; omega
    · cases h

theorem flat_natCast (n i j : ℕ) : flat n (i : ℤ) (j : ℤ) = ((i * n + j : ℕ) : ℤ) := by
  unfold flat; push_cast; rfl

theorem flat_natCast_neg (n i j : ℕ) (h : j ≤ i * n) :
    flat n (i : ℤ) (-(j : ℤ)) = ((i * n - j : ℕ) : ℤ) := by
  unfold flat; rw [Nat.cast_sub h]; push_cast; ring

/-- rows × interval size covers the array, and the last row is not empty -/
theorem rows_spec (len n : ℕ) (hn : 0 < n) :
    len ≤ rows len n * n ∧ (∀ r, r < rows len n → r * n < len) := by
  have h := Nat.div_add_mod len n
  have hm := Nat.mod_lt len hn
  rw [Nat.mul_comm] at h
  unfold rows
  split
  · rename_i h0
    refine ⟨by omega, fun r hr => ?_⟩
    have : (r + 1) * n ≤ len / n * n := Nat.mul_le_mul_right n hr
    rw [Nat.succ_mul] at this
    omega
  · rename_i h0
    refine ⟨by rw [Nat.succ_mul]; omega, fun r hr => ?_⟩
    have : r * n ≤ len / n * n := Nat.mul_le_mul_right n (by omega)
    omega

end Interval

/-! ### `repeat` -/

open Process in
theorem repeatOffset_eq (x : ℕ → K) (n c : ℕ) :
    repeatOffset x n c = (c : K) * ((x (n - 1) - x 0) + (x (n - 1) - x (n - 2))) := by
  induction c with
  | zero => simp [repeatOffset]
  | succ c ih => simp only [repeatOffset, ih]; push_cast; ring

open Process in
theorem repeatX_apply (x : ℕ → K) {n t : ℕ} (c : ℕ) (ht : t < n) :
    repeatX x n (c * n + t)
      = x t + (c : K) * ((x (n - 1) - x 0) + (x (n - 1) - x (n - 2))) := by
  simp only [repeatX, mul_add_div_of_lt c ht, mul_add_mod_of_lt c ht, repeatOffset_eq]

open Process in
theorem repeatY_apply (y : ℕ → K) {n t : ℕ} (c : ℕ) (ht : t < n) :
    repeatY y n (c * n + t) = y t := by
  simp only [repeatY, mul_add_mod_of_lt c ht]

/-! ### running minimum / maximum -/

theorem minTo_le_apply (a : ℕ → K) : ∀ n i, i ≤ n → minTo a n ≤ a i := by
  intro n
  induction n with
  | zero => intro i hi; have : i = 0 := by omega
            subst this; exact le_rfl
  | succ n ih =>
    intro i hi
    simp only [minTo, minK_eq]
    rcases Nat.lt_or_ge i (n + 1) with h | h
    · exact le_trans (min_le_left _ _) (ih i (by omega))
    · have : i = n + 1 := by omega
      subst this; exact min_le_right _ _

theorem minTo_attained (a : ℕ → K) : ∀ n, ∃ i, i ≤ n ∧ minTo a n = a i := by
  intro n
  induction n with
  | zero => exact ⟨0, le_rfl, rfl⟩
  | succ n ih =>
    obtain ⟨i, hi, he⟩ := ih
    simp only [minTo, minK_eq]
    rcases le_total (minTo a n) (a (n + 1)) with h | h
    · exact ⟨i, by omega, by rw [min_eq_left h, he]⟩
    · exact ⟨n + 1, le_rfl, by rw [min_eq_right h]⟩

theorem apply_le_maxTo (a : ℕ → K) : ∀ n i, i ≤ n → a i ≤ maxTo a n := by
  intro n
  induction n with
  | zero => intro i hi; have : i = 0 := by omega
            subst this; exact le_rfl
  | succ n ih =>
    intro i hi
    simp only [maxTo, maxK_eq]
    rcases Nat.lt_or_ge i (n + 1) with h | h
    · exact le_trans (ih i (by omega)) (le_max_left _ _)
    · have : i = n + 1 := by omega
      subst this; exact le_max_right _ _

theorem maxTo_attained (a : ℕ → K) : ∀ n, ∃ i, i ≤ n ∧ maxTo a n = a i := by
  intro n
  induction n with
  | zero => exact ⟨0, le_rfl, rfl⟩
  | succ n ih =>
    obtain ⟨i, hi, he⟩ := ih
    simp only [maxTo, maxK_eq]
    rcases le_total (maxTo a n) (a (n + 1)) with h | h
    · exact ⟨n + 1, le_rfl, by rw [max_eq_right h]⟩
    · exact ⟨i, by omega, by rw [max_eq_left h, he]⟩

end TWV
