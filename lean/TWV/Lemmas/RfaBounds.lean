import TWV.Lemmas.Funfit
import TWV.Model.Rfa
import Mathlib.Tactic.Ring
import Mathlib.Tactic.Linarith
import Mathlib.Tactic.FieldSimp
import Mathlib.Tactic.Positivity
import Mathlib.Order.Interval.Finset.Nat

/-!
# The window strategies of `rfa.py`: window validity, border values, one lemma per branch

Everything is stated for an arbitrary strictly increasing extended grid `X`
(`StrictIncr ((m + 1) * n) X`) and arbitrary extended averages `Y`.  Extended interval `k`
(`1 ≤ k ≤ m - 1`), sample `i < n` of it is result index `(k - 1) * n + i`.
-/

set_option linter.unusedSectionVars false
set_option linter.unusedVariables false

namespace TWV
namespace Rfa

variable {K : Type} [Field K] [LinearOrder K] [IsStrictOrderedRing K]

/-! ### windows -/

/-- the windows with which no loop of the code overwrites what another one wrote:
`a_l + a_r ≤ n`, `b ≤ a` on both sides, for every extended interval `0 … m` -/
def ValidWindows (w : Windows) (m n : ℕ) : Prop :=
  ∀ k, k ≤ m → w.aL k + w.aR k ≤ n ∧ w.bL k ≤ w.aL k ∧ w.bR k ≤ w.aR k

theorem windowsFixed_valid {a b n : ℕ} (m : ℕ) (ha : a ≤ n) (hb : b ≤ a / 2) :
    ValidWindows (windowsFixed a b) m n := by
  intro k _
  simp only [windowsFixed]
  omega

theorem windowsFixed_aL_pos {a : ℕ} (b k : ℕ) (ha : 2 ≤ a) : 1 ≤ (windowsFixed a b).aL k := by
  simp only [windowsFixed]; omega

theorem windowsFixed_aR_pos {a : ℕ} (b k : ℕ) (ha : 2 ≤ a) : 1 ≤ (windowsFixed a b).aR k := by
  simp only [windowsFixed]; omega

theorem natFloorUpTo_mono (B : ℕ) {x y : K} (h : x ≤ y) : natFloorUpTo B x ≤ natFloorUpTo B y := by
  unfold natFloorUpTo
  apply List.countP_mono_left
  intro j _ hj
  simp only [decide_eq_true_eq] at hj ⊢
  exact le_trans hj h

theorem natFloorUpTo_one {B : ℕ} (hB : 1 ≤ B) : natFloorUpTo B (1 : K) = 1 :=
  natFloorUpTo_eq B 1 (1 : K) hB (by simp) (by simp)

/-- `b = int(beta * a_l) ≤ a_l` for `0 ≤ beta ≤ 1` (whatever the bound `B`) -/
theorem deriveB_le (B : ℕ) {beta : K} (h0 : 0 ≤ beta) (h1 : beta ≤ 1) (aL : ℕ) :
    deriveB B beta aL ≤ aL := by
  unfold deriveB
  have hx : 0 ≤ beta * (aL : K) := mul_nonneg h0 (Nat.cast_nonneg aL)
  have h := natFloorUpTo_cast_le B (beta * (aL : K)) hx
  have h2 : beta * (aL : K) ≤ (aL : K) := by
    have : (0 : K) ≤ (aL : K) := Nat.cast_nonneg aL
    nlinarith
  exact_mod_cast le_trans h h2

/-! ### `get_adaptive_transition_points` -/

section adaptive

variable (gpow : K → K) (a : ℕ) (Y : ℕ → K) (k : ℕ)

theorem adaptiveAt_both_zero (h1 : |Y (k + 1) - Y k| = 0) (h2 : |Y k - Y (k - 1)| = 0) :
    adaptiveAt gpow a Y k = (0, 0) := by
  simp [adaptiveAt, h1, h2]

theorem adaptiveAt_right_zero (h1 : |Y (k + 1) - Y k| = 0) (h2 : |Y k - Y (k - 1)| ≠ 0) :
    adaptiveAt gpow a Y k = (a / 2, 0) := by
  simp [adaptiveAt, h1, h2]

theorem adaptiveAt_left_zero (h1 : |Y (k + 1) - Y k| ≠ 0) (h2 : |Y k - Y (k - 1)| = 0) :
    adaptiveAt gpow a Y k = (0, a / 2) := by
  simp [adaptiveAt, h1, h2]

/-- the general branch -/
theorem adaptiveAt_general (h1 : |Y (k + 1) - Y k| ≠ 0) (h2 : |Y k - Y (k - 1)| ≠ 0) :
    adaptiveAt gpow a Y k =
      (natFloorUpTo a (min (max (gpow (|Y (k + 1) - Y k| / |Y k - Y (k - 1)|) * (a : K) /
          (1 + gpow (|Y (k + 1) - Y k| / |Y k - Y (k - 1)|))) 1) (a : K)),
       natFloorUpTo a (min (max ((a : K) /
          (1 + gpow (|Y (k + 1) - Y k| / |Y k - Y (k - 1)|))) 1) (a : K))) := by
  simp [adaptiveAt, h1, h2]

end adaptive

/-- the two un-floored shares sum to `a` -/
theorem shares_sum {g : K} (hg : 0 < g) (a : K) : g * a / (1 + g) + a / (1 + g) = a := by
  have : 1 + g ≠ 0 := by positivity
  field_simp
  ring

/-- floors of the two clamped shares: never more than `a` in total -/
theorem floor_shares_le {a : ℕ} (ha : 2 ≤ a) {al ar : K} (hal : 0 < al) (har : 0 < ar)
    (hsum : al + ar = (a : K)) :
    natFloorUpTo a (min (max al 1) (a : K)) + natFloorUpTo a (min (max ar 1) (a : K)) ≤ a := by
  have ha2 : (2 : K) ≤ (a : K) := by exact_mod_cast ha
  have hfl : ∀ x : K, 0 ≤ x → (natFloorUpTo a x : K) ≤ x := fun x hx => natFloorUpTo_cast_le a x hx
  -- a share below 1 is clamped to 1 and leaves strictly less than `a` to the other side
  have key : ∀ p q : K, 0 < p → 0 < q → p + q = (a : K) → p < 1 →
      natFloorUpTo a (min (max p 1) (a : K)) + natFloorUpTo a (min (max q 1) (a : K)) ≤ a := by
    intro p q hp hq hpq hp1
    have e1 : min (max p 1) (a : K) = 1 := by
      rw [max_eq_right hp1.le, min_eq_left (by linarith)]
    have e2 : min (max q 1) (a : K) = q := by
      rw [max_eq_left (by linarith), min_eq_left (by linarith)]
    rw [e1, e2, natFloorUpTo_one (by omega)]
    have h := hfl q hq.le
    have : (natFloorUpTo a q : K) < (a : K) := by linarith
    have : natFloorUpTo a q < a := by exact_mod_cast this
    omega
  rcases lt_or_ge al 1 with h1 | h1
  · exact key al ar hal har hsum h1
  rcases lt_or_ge ar 1 with h2 | h2
  · have := key ar al har hal (by linarith) h2
    omega
  · have e1 : min (max al 1) (a : K) = al := by
      rw [max_eq_left h1, min_eq_left (by linarith)]
    have e2 : min (max ar 1) (a : K) = ar := by
      rw [max_eq_left h2, min_eq_left (by linarith)]
    rw [e1, e2]
    have := hfl al hal.le
    have := hfl ar har.le
    have h : ((natFloorUpTo a al + natFloorUpTo a ar : ℕ) : K) ≤ (a : K) := by
      push_cast; linarith
    exact_mod_cast h

/-- both clamped shares are at least one sample -/
theorem floor_share_pos {a : ℕ} (ha : 1 ≤ a) (x : K) :
    1 ≤ natFloorUpTo a (min (max x 1) (a : K)) := by
  have ha1 : (1 : K) ≤ (a : K) := by exact_mod_cast ha
  have : (1 : K) ≤ min (max x 1) (a : K) := le_min (le_max_right _ _) ha1
  calc 1 = natFloorUpTo a (1 : K) := (natFloorUpTo_one ha).symm
    _ ≤ _ := natFloorUpTo_mono a this

theorem adaptiveAt_sum_le (gpow : K → K) (hg : ∀ t, 0 < t → 0 < gpow t) {a : ℕ} (ha : 2 ≤ a)
    (Y : ℕ → K) (k : ℕ) : (adaptiveAt gpow a Y k).1 + (adaptiveAt gpow a Y k).2 ≤ a := by
  by_cases h1 : |Y (k + 1) - Y k| = 0 <;> by_cases h2 : |Y k - Y (k - 1)| = 0
  · rw [adaptiveAt_both_zero gpow a Y k h1 h2]; simp
  · rw [adaptiveAt_right_zero gpow a Y k h1 h2]; simp; omega
  · rw [adaptiveAt_left_zero gpow a Y k h1 h2]; simp; omega
  · rw [adaptiveAt_general gpow a Y k h1 h2]
    have hpos : 0 < |Y (k + 1) - Y k| / |Y k - Y (k - 1)| :=
      div_pos (abs_pos.mpr (abs_ne_zero.mp h1)) (abs_pos.mpr (abs_ne_zero.mp h2))
    have hgp := hg _ hpos
    have hap : (0 : K) < (a : K) := by exact_mod_cast (by omega : 0 < a)
    exact floor_shares_le ha (by positivity) (by positivity) (shares_sum hgp _)

/-- off-plateau count bound of the adaptive windows: `a_l + (a_r - 1) ≤ a - 1` -/
theorem adaptiveAt_count_le (gpow : K → K) (hg : ∀ t, 0 < t → 0 < gpow t) {a : ℕ} (ha : 2 ≤ a)
    (Y : ℕ → K) (k : ℕ) : (adaptiveAt gpow a Y k).1 + ((adaptiveAt gpow a Y k).2 - 1) ≤ a - 1 := by
  have hs := adaptiveAt_sum_le gpow hg ha Y k
  by_cases h1 : |Y (k + 1) - Y k| = 0 <;> by_cases h2 : |Y k - Y (k - 1)| = 0
  · rw [adaptiveAt_both_zero gpow a Y k h1 h2]; simp
  · rw [adaptiveAt_right_zero gpow a Y k h1 h2]; simp; omega
  · rw [adaptiveAt_left_zero gpow a Y k h1 h2]; simp; omega
  · rw [adaptiveAt_general gpow a Y k h1 h2] at hs ⊢
    have := floor_share_pos (K := K) (a := a) (by omega)
      ((a : K) / (1 + gpow (|Y (k + 1) - Y k| / |Y k - Y (k - 1)|)))
    simp only at hs ⊢
    omega

theorem windowsAdaptive_valid (gpow : K → K) (hg : ∀ t, 0 < t → 0 < gpow t) {a n : ℕ} (m : ℕ)
    (ha : 2 ≤ a) (han : a ≤ n) (Y : ℕ → K) (bOf : ℕ → ℕ) (hb : ∀ v, bOf v ≤ v) :
    ValidWindows (windowsAdaptive gpow a m Y bOf) m n := by
  intro k _
  simp only [windowsAdaptive]
  refine ⟨?_, hb _, hb _⟩
  split_ifs
  · omega
  · have := adaptiveAt_sum_le gpow hg ha Y k; omega

/-! ### indices -/

theorem idx_div {n : ℕ} (q i : ℕ) (hi : i < n) : (q * n + i) / n = q := by
  rw [Nat.mul_comm, Nat.mul_add_div (by omega), Nat.div_eq_of_lt hi, Nat.add_zero]

theorem idx_mod {n : ℕ} (q i : ℕ) (hi : i < n) : (q * n + i) % n = i := by
  rw [Nat.mul_comm, Nat.mul_add_mod, Nat.mod_eq_of_lt hi]

theorem idx_bound {k m : ℕ} (n : ℕ) (h : k ≤ m) : k * n + n ≤ (m + 1) * n := by
  calc k * n + n = (k + 1) * n := by ring
    _ ≤ (m + 1) * n := Nat.mul_le_mul_right n (by omega)

theorem X_lt {N : ℕ} {X : ℕ → K} (hX : StrictIncr N X) {a b : ℕ} (h : a < b) (hb : b ≤ N) :
    X a < X b := strictIncr_lt hX a b h hb

theorem X_le {N : ℕ} {X : ℕ → K} (hX : StrictIncr N X) {a b : ℕ} (h : a ≤ b) (hb : b ≤ N) :
    X a ≤ X b := strictIncr_le hX a b h hb

/-! ### fits on the grid -/

section grid
variable {N : ℕ} {X : ℕ → K} (hX : StrictIncr N X) {a b c c' : ℕ}
include hX

theorem linFit_grid_mem (y0 y1 : K) (hac : a ≤ c) (hcb : c ≤ b) (hab : a < b) (hb : b ≤ N) :
    linFit (X c) (X a, y0) (X b, y1) ∈ Set.uIcc y0 y1 :=
  linFit_mem_uIcc y0 y1 (X_lt hX hab hb) (X_le hX hac (by omega)) (X_le hX hcb hb)

theorem expLinFit_grid_mem {pw : K → K} (hp : PowLike pw) (y0 y1 : K) (hac : a ≤ c) (hcb : c ≤ b)
    (hab : a < b) (hb : b ≤ N) : expLinFit pw (X c) (X a, y0) (X b, y1) ∈ Set.uIcc y0 y1 :=
  expLinFit_mem_uIcc hp y0 y1 (X_lt hX hab hb) (X_le hX hac (by omega)) (X_le hX hcb hb)

theorem linExpXYFit_grid_mem {pw : K → K} (hp : PowLike pw) (y0 y1 : K) (hac : a ≤ c) (hcb : c ≤ b)
    (hab : a < b) (hb : b ≤ N) : linExpXYFit pw (X c) (X a, y0) (X b, y1) ∈ Set.uIcc y0 y1 :=
  linExpXYFit_mem_uIcc hp y0 y1 (X_lt hX hab hb) (X_le hX hac (by omega)) (X_le hX hcb hb)

theorem linFit_grid_toward (y0 y1 : K) (hcc : c ≤ c') (hc' : c' ≤ N) (hab : a < b) (hb : b ≤ N) :
    Toward y0 y1 (linFit (X c) (X a, y0) (X b, y1)) (linFit (X c') (X a, y0) (X b, y1)) :=
  linFit_toward y0 y1 (X_lt hX hab hb) (X_le hX hcc hc')

theorem expLinFit_grid_toward {pw : K → K} (hp : PowLike pw)
    (hsub : ∀ t, 0 ≤ t → t ≤ 1 → pw t ≤ t) (y0 y1 : K) (hac : a ≤ c) (hcc : c ≤ c') (hcb : c' ≤ b)
    (hab : a < b) (hb : b ≤ N) :
    Toward y0 y1 (expLinFit pw (X c) (X a, y0) (X b, y1)) (expLinFit pw (X c') (X a, y0) (X b, y1)) :=
  expLinFit_toward hp hsub y0 y1 (X_lt hX hab hb) (X_le hX hac (by omega)) (X_le hX hcc (by omega))
    (X_le hX hcb hb)

theorem linExpXYFit_grid_toward {pw : K → K} (hp : PowLike pw)
    (hsub : ∀ t, 0 ≤ t → t ≤ 1 → pw t ≤ t) (y0 y1 : K) (hac : a ≤ c) (hcc : c ≤ c') (hcb : c' ≤ b)
    (hab : a < b) (hb : b ≤ N) :
    Toward y0 y1 (linExpXYFit pw (X c) (X a, y0) (X b, y1))
      (linExpXYFit pw (X c') (X a, y0) (X b, y1)) :=
  linExpXYFit_toward hp hsub y0 y1 (X_lt hX hab hb) (X_le hX hac (by omega))
    (X_le hX hcc (by omega)) (X_le hX hcb hb)

end grid

/-! ### the border value and the two intermediate values -/

section border
variable {X Y : ℕ → K} {m n : ℕ} {w : Windows} {ad : Bool} {k : ℕ}

/-- the fixed strategies: `z_0` is the linear interpolation, at the border, between the plateau
ends of the two adjacent intervals (definitional) -/
theorem z0_fixed (X Y : ℕ → K) (n : ℕ) (w : Windows) (k : ℕ) :
    z0 X Y n w false k =
      linFit (X (k * n)) (X (k * n - w.aR (k - 1)), Y (k - 1)) (X (k * n + w.aL k), Y k) := by
  simp [z0]

/-- `z_0` lies between the two averages.  `hnd` excludes the division by zero of the fixed
strategies with both windows empty (the adaptive ones test for it). -/
theorem z0_mem_uIcc (hX : StrictIncr ((m + 1) * n) X) (hk1 : 1 ≤ k) (hkm : k ≤ m)
    (hL : w.aL k ≤ n) (hR : w.aR (k - 1) ≤ n) (hnd : ad = false → 1 ≤ w.aR (k - 1) + w.aL k) :
    z0 X Y n w ad k ∈ Set.uIcc (Y (k - 1)) (Y k) := by
  unfold z0
  split_ifs with h
  · exact Set.left_mem_uIcc
  · have hpos : 1 ≤ w.aR (k - 1) + w.aL k := by
      cases ad
      · exact hnd rfl
      · simp only [true_and] at h; omega
    have hkn : n ≤ k * n := Nat.le_mul_of_pos_left n hk1
    have hN := idx_bound n hkm
    exact linFit_grid_mem hX _ _ (by omega) (by omega) (by omega) (by omega)

/-- with an empty left window (and a non-empty right window of the predecessor) the border value
is the average itself -/
theorem z0_of_aL_zero (hX : StrictIncr ((m + 1) * n) X) (hk1 : 1 ≤ k) (hkm : k ≤ m)
    (hL : w.aL k = 0) (hR1 : 1 ≤ w.aR (k - 1)) (hR : w.aR (k - 1) ≤ n) :
    z0 X Y n w ad k = Y k := by
  unfold z0
  rw [if_neg (by omega), hL, Nat.add_zero]
  have hkn : n ≤ k * n := Nat.le_mul_of_pos_left n hk1
  have hN := idx_bound n hkm
  exact linFit_right _ _ (X_lt hX (by omega) (by omega)).ne

theorem z0lb_mem_uIcc (hX : StrictIncr ((m + 1) * n) X) (hkm : k ≤ m)
    (hb : w.bL k ≤ w.aL k) (hL1 : 1 ≤ w.aL k) (hL : w.aL k ≤ n) :
    z0lb X Y n w ad k ∈ Set.uIcc (z0 X Y n w ad k) (Y k) := by
  unfold z0lb
  have hN := idx_bound n hkm
  split_ifs with h
  · exact Set.left_mem_uIcc
  · exact linFit_grid_mem hX _ _ (by omega) (by omega) (by omega) (by omega)

theorem z0rb_mem_uIcc (hX : StrictIncr ((m + 1) * n) X) (hkm : k + 1 ≤ m)
    (hb : w.bR k ≤ w.aR k) (hR1 : 1 ≤ w.aR k) (hR : w.aR k ≤ n) :
    z0rb X Y n w ad k ∈ Set.uIcc (Y k) (z0 X Y n w ad (k + 1)) := by
  unfold z0rb
  have hN := idx_bound n (show k ≤ m by omega)
  have e : (k + 1) * n = k * n + n := by ring
  split_ifs with h
  · exact Set.right_mem_uIcc
  · rw [e]
    exact linFit_grid_mem hX _ _ (by omega) (by omega) (by omega) (by omega)

end border

/-! ### the linear strategies, one lemma per branch -/

section lin
variable {X Y : ℕ → K} {m n : ℕ} {w : Windows} {ad : Bool} {k i : ℕ}

/-- `linOut` at sample `i` of extended interval `k` -/
theorem linOut_idx (X Y : ℕ → K) (m : ℕ) (w : Windows) (ad : Bool) (hk : 1 ≤ k) (hi : i < n) :
    linOut X Y m n w ad ((k - 1) * n + i) =
      if k ≤ m - 1 ∧ i < w.aL k then
        linFit (X (k * n + i)) (X (k * n), z0 X Y n w ad k) (X (k * n + w.aL k), Y k)
      else if k ≤ m - 1 ∧ n - w.aR k < i then linRight X Y n w ad k i
      else if i = 0 ∧ 2 ≤ k ∧ 1 ≤ w.aR (k - 1) then linRight X Y n w ad (k - 1) n
      else Y k := by
  have h1 : ((k - 1) * n + i) / n + 1 = k := by rw [idx_div _ _ hi]; omega
  have h2 : ((k - 1) * n + i) % n = i := idx_mod _ _ hi
  simp only [linOut, h1, h2]

theorem linOut_left_eq (hk : 1 ≤ k) (hkm : k ≤ m - 1) (hi : i < w.aL k) (hin : i < n) :
    linOut X Y m n w ad ((k - 1) * n + i) =
      linFit (X (k * n + i)) (X (k * n), z0 X Y n w ad k) (X (k * n + w.aL k), Y k) := by
  rw [linOut_idx X Y m w ad hk hin, if_pos ⟨hkm, hi⟩]

theorem linOut_right_eq (hk : 1 ≤ k) (hkm : k ≤ m - 1) (hi : w.aL k ≤ i) (hr : n - w.aR k < i)
    (hin : i < n) :
    linOut X Y m n w ad ((k - 1) * n + i) =
      linFit (X (k * n + i)) (X (k * n + n - w.aR k), Y k)
        (X (k * n + n), z0 X Y n w ad (k + 1)) := by
  rw [linOut_idx X Y m w ad hk hin, if_neg (by omega), if_pos ⟨hkm, hr⟩]; rfl

/-- the right loop ends at the border value of the next interval -/
theorem linRight_end (hX : StrictIncr ((m + 1) * n) X) (hkm : k ≤ m) (hR1 : 1 ≤ w.aR k)
    (hR : w.aR k ≤ n) : linRight X Y n w ad k n = z0 X Y n w ad (k + 1) := by
  unfold linRight
  have hN := idx_bound n hkm
  exact linFit_right _ _ (X_lt hX (by omega) hN).ne

/-- the sample at the border between extended intervals `k - 1` and `k` carries `z_0` of `k`
(`1 ≤ k ≤ m`; the last sample of the result is `k = m`) -/
theorem linOut_border (hX : StrictIncr ((m + 1) * n) X) (hn : 0 < n) (hk : 1 ≤ k) (hkm : k ≤ m)
    (hL : w.aL k ≤ n) (hR : w.aR (k - 1) ≤ n)
    (h : (k ≤ m - 1 ∧ 1 ≤ w.aL k) ∨ (2 ≤ k ∧ 1 ≤ w.aR (k - 1))) :
    linOut X Y m n w ad ((k - 1) * n) = z0 X Y n w ad k := by
  have := linOut_idx X Y m w ad hk hn
  rw [Nat.add_zero] at this
  rw [this]
  have hN := idx_bound n hkm
  by_cases h1 : k ≤ m - 1 ∧ 0 < w.aL k
  · rw [if_pos h1, Nat.add_zero]
    exact linFit_left _ _ _ _
  · rw [if_neg h1, if_neg (by omega)]
    have h2 : 2 ≤ k ∧ 1 ≤ w.aR (k - 1) := by omega
    rw [if_pos ⟨rfl, h2⟩, linRight_end hX (by omega) h2.2 hR, Nat.sub_add_cancel hk]

/-- without any window at the border the sample is the average -/
theorem linOut_border_none (hn : 0 < n) (hk : 1 ≤ k) (hL : w.aL k = 0)
    (hR : k = 1 ∨ w.aR (k - 1) = 0) : linOut X Y m n w ad ((k - 1) * n) = Y k := by
  have := linOut_idx X Y m w ad hk hn
  rw [Nat.add_zero] at this
  rw [this, if_neg (by omega), if_neg (by omega), if_neg (by omega)]

theorem linOut_plateau (hX : StrictIncr ((m + 1) * n) X) (hk : 1 ≤ k) (hkm : k ≤ m - 1)
    (hRp : w.aR (k - 1) ≤ n) (hL : w.aL k ≤ i) (hR : i ≤ n - w.aR k) (hin : i < n) :
    linOut X Y m n w ad ((k - 1) * n + i) = Y k := by
  rcases Nat.eq_zero_or_pos i with rfl | hi
  · have hL0 : w.aL k = 0 := by omega
    by_cases h : 2 ≤ k ∧ 1 ≤ w.aR (k - 1)
    · rw [Nat.add_zero, linOut_border hX hin hk (by omega) (by omega) hRp (Or.inr h)]
      exact z0_of_aL_zero hX hk (by omega) hL0 h.2 hRp
    · rw [Nat.add_zero]; exact linOut_border_none hin hk hL0 (by omega)
  · rw [linOut_idx X Y m w ad hk hin, if_neg (by omega), if_neg (by omega), if_neg (by omega)]

/-- left transition: between the border value and the average -/
theorem linOut_left_mem (hX : StrictIncr ((m + 1) * n) X) (hk : 1 ≤ k) (hkm : k ≤ m - 1)
    (hL : w.aL k ≤ n) (hi : i < w.aL k) :
    linOut X Y m n w ad ((k - 1) * n + i) ∈ Set.uIcc (z0 X Y n w ad k) (Y k) := by
  rw [linOut_left_eq hk hkm hi (by omega)]
  have hN := idx_bound n (show k ≤ m by omega)
  exact linFit_grid_mem hX _ _ (by omega) (by omega) (by omega) (by omega)

theorem linOut_right_mem (hX : StrictIncr ((m + 1) * n) X) (hk : 1 ≤ k) (hkm : k ≤ m - 1)
    (hw : w.aL k + w.aR k ≤ n) (hr : n - w.aR k < i) (hin : i < n) :
    linOut X Y m n w ad ((k - 1) * n + i) ∈ Set.uIcc (Y k) (z0 X Y n w ad (k + 1)) := by
  rw [linOut_right_eq hk hkm (by omega) hr hin]
  have hN := idx_bound n (show k ≤ m by omega)
  exact linFit_grid_mem hX _ _ (by omega) (by omega) (by omega) (by omega)

/-- along the left transition the values move monotonically from `z_0` to the average
(`i' = a_l` is the first plateau sample) -/
theorem linOut_left_toward (hX : StrictIncr ((m + 1) * n) X) (hk : 1 ≤ k) (hkm : k ≤ m - 1)
    (hRp : w.aR (k - 1) ≤ n) (hw : w.aL k + w.aR k ≤ n) {i' : ℕ} (hii : i ≤ i')
    (hi' : i' ≤ w.aL k) (hin : i' < n) :
    Toward (z0 X Y n w ad k) (Y k) (linOut X Y m n w ad ((k - 1) * n + i))
      (linOut X Y m n w ad ((k - 1) * n + i')) := by
  have hN := idx_bound n (show k ≤ m by omega)
  rcases Nat.lt_or_ge i' (w.aL k) with h | h
  · rw [linOut_left_eq hk hkm (by omega) (by omega), linOut_left_eq hk hkm h hin]
    exact linFit_grid_toward hX _ _ (by omega) (by omega) (by omega) (by omega)
  · rcases Nat.lt_or_ge i (w.aL k) with h2 | h2
    · rw [linOut_plateau hX hk hkm hRp h (by omega) hin]
      exact toward_of_mem Set.right_mem_uIcc (linOut_left_mem hX hk hkm (by omega) h2)
        Set.left_mem_uIcc
    · have : i = i' := by omega
      subst this; exact Toward.rfl' _ _ _

/-- along the right transition the values move monotonically from the average to `z_0` of the next
interval (`i = n - a_r` is the last plateau sample) -/
theorem linOut_right_toward (hX : StrictIncr ((m + 1) * n) X) (hk : 1 ≤ k) (hkm : k ≤ m - 1)
    (hRp : w.aR (k - 1) ≤ n) (hw : w.aL k + w.aR k ≤ n) {i' : ℕ} (hi : n - w.aR k ≤ i)
    (hii : i ≤ i') (hin : i' < n) :
    Toward (Y k) (z0 X Y n w ad (k + 1)) (linOut X Y m n w ad ((k - 1) * n + i))
      (linOut X Y m n w ad ((k - 1) * n + i')) := by
  have hN := idx_bound n (show k ≤ m by omega)
  rcases Nat.lt_or_ge (n - w.aR k) i with h | h
  · rw [linOut_right_eq hk hkm (by omega) h (by omega),
      linOut_right_eq hk hkm (by omega) (by omega) hin]
    exact linFit_grid_toward hX _ _ (by omega) (by omega) (by omega) (by omega)
  · rcases Nat.lt_or_ge (n - w.aR k) i' with h2 | h2
    · rw [linOut_plateau hX hk hkm hRp (by omega) (by omega) (by omega)]
      exact toward_of_mem Set.left_mem_uIcc Set.right_mem_uIcc
        (linOut_right_mem hX hk hkm hw h2 hin)
    · have : i = i' := by omega
      subst this; exact Toward.rfl' _ _ _

end lin

/-! ### the exponential strategies, one lemma per branch -/

section exp
variable {pw : K → K} {X Y : ℕ → K} {m n : ℕ} {w : Windows} {ad : Bool} {k i : ℕ}

/-- `expOut` at sample `i` of extended interval `k ≤ m - 1` -/
theorem expOut_idx (pw : K → K) (X Y : ℕ → K) (w : Windows) (ad : Bool) (hk : 1 ≤ k)
    (hkm : k ≤ m - 1) (hi : i < n) :
    expOut pw X Y m n w ad ((k - 1) * n + i) =
      if i < w.bL k then
        linFit (X (k * n + i)) (X (k * n), z0 X Y n w ad k)
          (X (k * n + w.bL k), z0lb X Y n w ad k)
      else if i < w.aL k then
        linExpXYFit pw (X (k * n + i)) (X (k * n + w.bL k), z0lb X Y n w ad k)
          (X (k * n + w.aL k), Y k)
      else if n - w.aR k ≤ i ∧ i < n - w.bR k then
        expLinFit pw (X (k * n + i)) (X (k * n + n - w.aR k), Y k)
          (X (k * n + n - w.bR k), z0rb X Y n w ad k)
      else if n - w.bR k ≤ i then
        linFit (X (k * n + i)) (X (k * n + n - w.bR k), z0rb X Y n w ad k)
          (X (k * n + n), z0 X Y n w ad (k + 1))
      else Y k := by
  have h1 : ((k - 1) * n + i) / n + 1 = k := by rw [idx_div _ _ hi]; omega
  have h2 : ((k - 1) * n + i) % n = i := idx_mod _ _ hi
  simp only [expOut, h1, h2, if_pos hkm]

/-- the last sample of the result is never written by the exponential strategies -/
theorem expOut_last (pw : K → K) (X Y : ℕ → K) (w : Windows) (ad : Bool) (hn : 0 < n)
    (hm : 1 ≤ m) : expOut pw X Y m n w ad ((m - 1) * n) = Y m := by
  have h1 : ((m - 1) * n) / n + 1 = m := by
    have := idx_div (n := n) (m - 1) 0 hn
    rw [Nat.add_zero] at this; rw [this]; omega
  simp only [expOut, h1]
  rw [if_neg (by omega)]

theorem expOut_linL_eq (hk : 1 ≤ k) (hkm : k ≤ m - 1) (hi : i < w.bL k) (hin : i < n) :
    expOut pw X Y m n w ad ((k - 1) * n + i) =
      linFit (X (k * n + i)) (X (k * n), z0 X Y n w ad k)
        (X (k * n + w.bL k), z0lb X Y n w ad k) := by
  rw [expOut_idx pw X Y w ad hk hkm hin, if_pos hi]

theorem expOut_blendL_eq (hk : 1 ≤ k) (hkm : k ≤ m - 1) (hb : w.bL k ≤ i) (hi : i < w.aL k)
    (hin : i < n) :
    expOut pw X Y m n w ad ((k - 1) * n + i) =
      linExpXYFit pw (X (k * n + i)) (X (k * n + w.bL k), z0lb X Y n w ad k)
        (X (k * n + w.aL k), Y k) := by
  rw [expOut_idx pw X Y w ad hk hkm hin, if_neg (by omega), if_pos hi]

theorem expOut_blendR_eq (hk : 1 ≤ k) (hkm : k ≤ m - 1) (hbL : w.bL k ≤ w.aL k) (hL : w.aL k ≤ i)
    (ha : n - w.aR k ≤ i) (hi : i < n - w.bR k) :
    expOut pw X Y m n w ad ((k - 1) * n + i) =
      expLinFit pw (X (k * n + i)) (X (k * n + n - w.aR k), Y k)
        (X (k * n + n - w.bR k), z0rb X Y n w ad k) := by
  rw [expOut_idx pw X Y w ad hk hkm (by omega), if_neg (by omega), if_neg (by omega),
    if_pos ⟨ha, hi⟩]

theorem expOut_linR_eq (hk : 1 ≤ k) (hkm : k ≤ m - 1) (hbL : w.bL k ≤ w.aL k) (hL : w.aL k ≤ i)
    (hb : n - w.bR k ≤ i) (hin : i < n) :
    expOut pw X Y m n w ad ((k - 1) * n + i) =
      linFit (X (k * n + i)) (X (k * n + n - w.bR k), z0rb X Y n w ad k)
        (X (k * n + n), z0 X Y n w ad (k + 1)) := by
  rw [expOut_idx pw X Y w ad hk hkm hin, if_neg (by omega), if_neg (by omega),
    if_neg (by omega), if_pos hb]

/-- hypotheses on the windows of one interval -/
structure WinOk (w : Windows) (n k : ℕ) : Prop where
  sum : w.aL k + w.aR k ≤ n
  bL : w.bL k ≤ w.aL k
  bR : w.bR k ≤ w.aR k

theorem ValidWindows.ok {w : Windows} {m n : ℕ} (h : ValidWindows w m n) {k : ℕ} (hk : k ≤ m) :
    WinOk w n k := ⟨(h k hk).1, (h k hk).2.1, (h k hk).2.2⟩

/-- the sample at an interior border carries `z_0` (no condition on `pw`:
`lin_exp_xy_fit` hits its left end point for every exponent) -/
theorem expOut_border (hX : StrictIncr ((m + 1) * n) X) (hn : 0 < n) (hk : 1 ≤ k) (hkm : k ≤ m - 1)
    (ho : WinOk w n k) (hL1 : 1 ≤ w.aL k) :
    expOut pw X Y m n w ad ((k - 1) * n) = z0 X Y n w ad k := by
  have hN := idx_bound n (show k ≤ m by omega)
  have hoL := ho.bL
  have hoS := ho.sum
  rcases Nat.eq_zero_or_pos (w.bL k) with hb | hb
  · have := expOut_blendL_eq (pw := pw) (X := X) (Y := Y) (ad := ad) (i := 0) hk hkm (by omega)
      hL1 hn
    rw [Nat.add_zero] at this
    rw [this, hb, Nat.add_zero]
    rw [linExpXYFit_left pw _ _ (X_lt hX (by omega) (by omega)).ne]
    unfold z0lb
    split_ifs with h
    · rfl
    · rw [hb, Nat.add_zero]; exact linFit_left _ _ _ _
  · have := expOut_linL_eq (pw := pw) (X := X) (Y := Y) (ad := ad) (i := 0) hk hkm hb hn
    rw [Nat.add_zero] at this
    rw [this, Nat.add_zero]
    exact linFit_left _ _ _ _

theorem expOut_plateau (hp0 : pw 0 = 0) (hX : StrictIncr ((m + 1) * n) X) (hk : 1 ≤ k)
    (hkm : k ≤ m - 1) (ho : WinOk w n k) (hL : w.aL k ≤ i) (hR : i ≤ n - w.aR k) (hin : i < n) :
    expOut pw X Y m n w ad ((k - 1) * n + i) = Y k := by
  have hN := idx_bound n (show k ≤ m by omega)
  have hoL := ho.bL
  have hoR := ho.bR
  have hoS := ho.sum
  rcases Nat.lt_or_ge i (n - w.aR k) with h | h
  · rw [expOut_idx pw X Y w ad hk hkm hin, if_neg (by omega), if_neg (by omega),
      if_neg (by omega), if_neg (by omega)]
  · have hi : i = n - w.aR k := by omega
    have e : k * n + i = k * n + n - w.aR k := by omega
    rcases Nat.lt_or_ge (w.bR k) (w.aR k) with hb | hb
    · rw [expOut_blendR_eq hk hkm hoL hL h (by omega), e]
      exact expLinFit_left hp0 _ _ (X_lt hX (by omega) (by omega)).ne
    · have hb' : w.bR k = w.aR k := by omega
      rw [expOut_linR_eq hk hkm hoL hL (by omega) hin, e, hb']
      rw [linFit_left]
      unfold z0rb
      rw [if_neg (by omega), hb']
      exact linFit_left _ _ _ _

theorem expOut_left_mem (hp : PowLike pw) (hX : StrictIncr ((m + 1) * n) X) (hk : 1 ≤ k)
    (hkm : k ≤ m - 1) (ho : WinOk w n k) (hi : i < w.aL k) :
    expOut pw X Y m n w ad ((k - 1) * n + i) ∈ Set.uIcc (z0 X Y n w ad k) (Y k) := by
  have hN := idx_bound n (show k ≤ m by omega)
  have hoL := ho.bL
  have hoS := ho.sum
  have hz : z0lb X Y n w ad k ∈ Set.uIcc (z0 X Y n w ad k) (Y k) :=
    z0lb_mem_uIcc hX (by omega) hoL (by omega) (by omega)
  rcases Nat.lt_or_ge i (w.bL k) with h | h
  · rw [expOut_linL_eq hk hkm h (by omega)]
    exact Set.uIcc_subset_uIcc Set.left_mem_uIcc hz
      (linFit_grid_mem hX _ _ (by omega) (by omega) (by omega) (by omega))
  · rw [expOut_blendL_eq hk hkm h hi (by omega)]
    exact Set.uIcc_subset_uIcc hz Set.right_mem_uIcc
      (linExpXYFit_grid_mem hX hp _ _ (by omega) (by omega) (by omega) (by omega))

theorem expOut_right_mem (hp : PowLike pw) (hX : StrictIncr ((m + 1) * n) X) (hk : 1 ≤ k)
    (hkm : k ≤ m - 1) (ho : WinOk w n k) (hR1 : 1 ≤ w.aR k) (hr : n - w.aR k ≤ i) (hin : i < n) :
    expOut pw X Y m n w ad ((k - 1) * n + i) ∈ Set.uIcc (Y k) (z0 X Y n w ad (k + 1)) := by
  have hN := idx_bound n (show k ≤ m by omega)
  have hoL := ho.bL
  have hoR := ho.bR
  have hoS := ho.sum
  have hz : z0rb X Y n w ad k ∈ Set.uIcc (Y k) (z0 X Y n w ad (k + 1)) :=
    z0rb_mem_uIcc hX (by omega) hoR hR1 (by omega)
  rcases Nat.lt_or_ge i (n - w.bR k) with h | h
  · rw [expOut_blendR_eq hk hkm hoL (by omega) hr h]
    exact Set.uIcc_subset_uIcc Set.left_mem_uIcc hz
      (expLinFit_grid_mem hX hp _ _ (by omega) (by omega) (by omega) (by omega))
  · rw [expOut_linR_eq hk hkm hoL (by omega) h hin]
    exact Set.uIcc_subset_uIcc hz Set.right_mem_uIcc
      (linFit_grid_mem hX _ _ (by omega) (by omega) (by omega) (by omega))

/-- along the left transition the values move monotonically from `z_0` to the average, **provided**
`s ^ α ≤ s` on `[0, 1]` (exponent at least one) -/
theorem expOut_left_toward (hp : PowLike pw) (hsub : ∀ t, 0 ≤ t → t ≤ 1 → pw t ≤ t)
    (hX : StrictIncr ((m + 1) * n) X) (hk : 1 ≤ k) (hkm : k ≤ m - 1) (ho : WinOk w n k) {i' : ℕ}
    (hii : i ≤ i') (hi' : i' ≤ w.aL k) (hin : i' < n) :
    Toward (z0 X Y n w ad k) (Y k) (expOut pw X Y m n w ad ((k - 1) * n + i))
      (expOut pw X Y m n w ad ((k - 1) * n + i')) := by
  have hN := idx_bound n (show k ≤ m by omega)
  have hoL := ho.bL
  have hoS := ho.sum
  rcases Nat.lt_or_ge i (w.aL k) with hia | hia
  swap
  · have : i = i' := by omega
    subst this; exact Toward.rfl' _ _ _
  have hz : z0lb X Y n w ad k ∈ Set.uIcc (z0 X Y n w ad k) (Y k) :=
    z0lb_mem_uIcc hX (by omega) hoL (by omega) (by omega)
  rcases Nat.lt_or_ge i' (w.aL k) with h | h
  · rcases Nat.lt_or_ge i' (w.bL k) with h1 | h1
    · rw [expOut_linL_eq hk hkm (by omega) (by omega), expOut_linL_eq hk hkm h1 hin]
      exact (linFit_grid_toward hX _ _ (by omega) (by omega) (by omega) (by omega)).of_left hz
    · rcases Nat.lt_or_ge i (w.bL k) with h2 | h2
      · rw [expOut_linL_eq hk hkm h2 (by omega), expOut_blendL_eq hk hkm h1 h hin]
        exact toward_of_mem hz
          (linFit_grid_mem hX _ _ (by omega) (by omega) (by omega) (by omega))
          (linExpXYFit_grid_mem hX hp _ _ (by omega) (by omega) (by omega) (by omega))
      · rw [expOut_blendL_eq hk hkm h2 (by omega) (by omega), expOut_blendL_eq hk hkm h1 h hin]
        exact (linExpXYFit_grid_toward hX hp hsub _ _ (by omega) (by omega) (by omega) (by omega)
          (by omega)).of_right hz
  · rw [expOut_plateau hp.zero hX hk hkm ho h (by omega) hin]
    exact toward_of_mem Set.right_mem_uIcc (expOut_left_mem hp hX hk hkm ho hia) Set.left_mem_uIcc

/-- along the right transition the values move monotonically from the average to `z_0` of the next
interval, **provided** `s ^ α ≤ s` on `[0, 1]` -/
theorem expOut_right_toward (hp : PowLike pw) (hsub : ∀ t, 0 ≤ t → t ≤ 1 → pw t ≤ t)
    (hX : StrictIncr ((m + 1) * n) X) (hk : 1 ≤ k) (hkm : k ≤ m - 1) (ho : WinOk w n k) {i' : ℕ}
    (hi : n - w.aR k ≤ i) (hii : i ≤ i') (hin : i' < n) :
    Toward (Y k) (z0 X Y n w ad (k + 1)) (expOut pw X Y m n w ad ((k - 1) * n + i))
      (expOut pw X Y m n w ad ((k - 1) * n + i')) := by
  have hN := idx_bound n (show k ≤ m by omega)
  have hoL := ho.bL
  have hoR := ho.bR
  have hoS := ho.sum
  have hR1 : 1 ≤ w.aR k := by omega
  have hz : z0rb X Y n w ad k ∈ Set.uIcc (Y k) (z0 X Y n w ad (k + 1)) :=
    z0rb_mem_uIcc hX (by omega) hoR hR1 (by omega)
  rcases Nat.lt_or_ge i' (n - w.bR k) with h1 | h1
  · rw [expOut_blendR_eq hk hkm hoL (by omega) hi (by omega),
      expOut_blendR_eq hk hkm hoL (by omega) (by omega) h1]
    exact (expLinFit_grid_toward hX hp hsub _ _ (by omega) (by omega) (by omega) (by omega)
      (by omega)).of_left hz
  · rcases Nat.lt_or_ge i (n - w.bR k) with h2 | h2
    · rw [expOut_blendR_eq hk hkm hoL (by omega) hi h2,
        expOut_linR_eq hk hkm hoL (by omega) h1 hin]
      exact toward_of_mem hz
        (expLinFit_grid_mem hX hp _ _ (by omega) (by omega) (by omega) (by omega))
        (linFit_grid_mem hX _ _ (by omega) (by omega) (by omega) (by omega))
    · rw [expOut_linR_eq hk hkm hoL (by omega) h2 (by omega),
        expOut_linR_eq hk hkm hoL (by omega) h1 hin]
      exact (linFit_grid_toward hX _ _ (by omega) (by omega) (by omega) (by omega)).of_right hz

end exp

/-! ### from "between border value and average" to "between the two averages" -/

section between
variable {X Y : ℕ → K} {m n : ℕ} {w : Windows} {ad : Bool} {k : ℕ}

theorem uIcc_z0_left_subset (hX : StrictIncr ((m + 1) * n) X) (hk1 : 1 ≤ k) (hkm : k ≤ m)
    (hL : w.aL k ≤ n) (hRp : w.aR (k - 1) ≤ n) (hL1 : 1 ≤ w.aL k) :
    Set.uIcc (z0 X Y n w ad k) (Y k) ⊆ Set.uIcc (Y (k - 1)) (Y k) :=
  Set.uIcc_subset_uIcc (z0_mem_uIcc hX hk1 hkm hL hRp (fun _ => by omega)) Set.right_mem_uIcc

theorem uIcc_z0_right_subset (hX : StrictIncr ((m + 1) * n) X) (hkm : k + 1 ≤ m)
    (hR : w.aR k ≤ n) (hLn : w.aL (k + 1) ≤ n) (hR1 : 1 ≤ w.aR k) :
    Set.uIcc (Y k) (z0 X Y n w ad (k + 1)) ⊆ Set.uIcc (Y k) (Y (k + 1)) := by
  have h := z0_mem_uIcc (Y := Y) (ad := ad) (k := k + 1) hX (by omega) hkm hLn
    (by rw [Nat.add_sub_cancel]; exact hR) (fun _ => by rw [Nat.add_sub_cancel]; omega)
  rw [Nat.add_sub_cancel] at h
  exact Set.uIcc_subset_uIcc Set.left_mem_uIcc h

/-- the last sample of the linear strategies -/
theorem linOut_last (X Y : ℕ → K) (w : Windows) (ad : Bool) (hn : 0 < n) (hm : 1 ≤ m) :
    linOut X Y m n w ad ((m - 1) * n) =
      if 2 ≤ m ∧ 1 ≤ w.aR (m - 1) then linRight X Y n w ad (m - 1) n else Y m := by
  have := linOut_idx X Y m w ad hm hn
  rw [Nat.add_zero] at this
  rw [this, if_neg (by omega), if_neg (by omega)]
  by_cases h : 2 ≤ m ∧ 1 ≤ w.aR (m - 1)
  · rw [if_pos ⟨rfl, h⟩, if_pos h]
  · rw [if_neg (fun h' => h h'.2), if_neg h]

theorem linOut_last_mem (hX : StrictIncr ((m + 1) * n) X) (hn : 0 < n) (hm : 1 ≤ m)
    (hL : w.aL m ≤ n) (hR : w.aR (m - 1) ≤ n) :
    linOut X Y m n w ad ((m - 1) * n) ∈ Set.uIcc (Y (m - 1)) (Y m) := by
  rw [linOut_last X Y w ad hn hm]
  split_ifs with h
  · rw [linRight_end hX (by omega) h.2 hR, Nat.sub_add_cancel hm]
    exact z0_mem_uIcc hX hm le_rfl hL hR (fun _ => by omega)
  · exact Set.right_mem_uIcc

end between

/-! ### counting the samples off the plateau -/

theorem card_off_le {f : ℕ → K} {c : K} {n aL aR : ℕ}
    (h : ∀ i, i < n → aL ≤ i → i ≤ n - aR → f i = c) :
    ((Finset.range n).filter (fun i => f i ≠ c)).card ≤ aL + (aR - 1) := by
  have hsub : (Finset.range n).filter (fun i => f i ≠ c) ⊆
      Finset.range aL ∪ Finset.Ico (n - aR + 1) n := by
    intro i hi
    rw [Finset.mem_filter, Finset.mem_range] at hi
    rw [Finset.mem_union, Finset.mem_range, Finset.mem_Ico]
    by_contra hc
    exact hi.2 (h i hi.1 (by omega) (by omega))
  calc _ ≤ (Finset.range aL ∪ Finset.Ico (n - aR + 1) n).card := Finset.card_le_card hsub
    _ ≤ (Finset.range aL).card + (Finset.Ico (n - aR + 1) n).card := Finset.card_union_le _ _
    _ ≤ aL + (aR - 1) := by rw [Finset.card_range, Nat.card_Ico]; omega

/-! ### the adaptive split with `adaptive_smooth = 1` -/

/-- with `γ = nom / denom` the un-floored shares are `a·nom/(nom+denom)` and `a·denom/(nom+denom)` -/
theorem shares_id {nom denom : K} (hn : 0 < nom) (hd : 0 < denom) (a : K) :
    id (nom / denom) * a / (1 + id (nom / denom)) = a * nom / (nom + denom) ∧
      a / (1 + id (nom / denom)) = a * denom / (nom + denom) := by
  have h1 : nom + denom ≠ 0 := by positivity
  have h2 : 1 + nom / denom ≠ 0 := by positivity
  have h3 : denom ≠ 0 := hd.ne'
  simp only [id]
  constructor <;> (field_simp; ring)

theorem adaptiveAt_id (a : ℕ) (Y : ℕ → K) (k : ℕ) (h1 : |Y (k + 1) - Y k| ≠ 0)
    (h2 : |Y k - Y (k - 1)| ≠ 0) :
    adaptiveAt id a Y k =
      (natFloorUpTo a (min (max ((a : K) * |Y (k + 1) - Y k| /
          (|Y (k + 1) - Y k| + |Y k - Y (k - 1)|)) 1) (a : K)),
       natFloorUpTo a (min (max ((a : K) * |Y k - Y (k - 1)| /
          (|Y (k + 1) - Y k| + |Y k - Y (k - 1)|)) 1) (a : K))) := by
  have hn : 0 < |Y (k + 1) - Y k| := abs_pos.mpr (abs_ne_zero.mp h1)
  have hd : 0 < |Y k - Y (k - 1)| := abs_pos.mpr (abs_ne_zero.mp h2)
  rw [adaptiveAt_general id a Y k h1 h2, (shares_id hn hd (a : K)).1, (shares_id hn hd (a : K)).2]

/-- floor after clamp is monotone -/
theorem floor_clamp_mono (a : ℕ) {x y : K} (h : x ≤ y) :
    natFloorUpTo a (min (max x 1) (a : K)) ≤ natFloorUpTo a (min (max y 1) (a : K)) :=
  natFloorUpTo_mono a (min_le_min_right _ (max_le_max_right _ h))

end Rfa
end TWV
