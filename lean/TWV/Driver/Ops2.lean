import TWV.Driver.Proto
import TWV.Model.Arrays
import TWV.Model.Interval
import TWV.Model.Process
import TWV.Model.Datasets

/-! # Driver operations for the array helpers, the interval view and `process.py` -/

namespace TWV.Driver
open TWV

private def bad2 : String := "ERR BadRequest"

def fmtOptRat : Option Rat → String
  | some r => fmtRat r
  | none => "nan"

def opOversample : List String → String
  | [kind, n, a] =>
    match n.toNat?, rats? a with
    | some n, some a =>
      if a.isEmpty then "unmodelled" else
      let f := arrFn a.toArray
      let L := oversampleLen a.length n
      match kind with
      | "lin" => "ok " ++ fmtRats (tab L (oversampleLin f n)).toList
      | "pc" => "ok " ++ fmtRats (tab L (oversamplePC f n)).toList
      | _ => bad2
    | _, _ => bad2
  | _ => bad2

def opExtendLin : List String → String
  | [n, dir, lstart, rstop, a] =>
    match n.toNat?, Direction.ofString? dir, parseOpt? parseRat? lstart, parseOpt? parseRat? rstop, rats? a with
    | some n, some d, some ls, some rs, some a =>
      let m := a.length
      -- the defaults read a[n] / a[-n-1]: Python raises IndexError when they do not exist
      if (d.hasLeft ∧ ls.isNone ∧ m ≤ n) ∨ (d.hasRight ∧ rs.isNone ∧ (if d.hasLeft then m + n else m) < n + 1)
          ∨ m = 0 then "ERR IndexError"
      else "ok " ++ fmtRats (tab (extendLen m n d) (extendLin (arrFn a.toArray) m n d ls rs)).toList
    | _, _, _, _, _ => bad2
  | _ => bad2

def opExtendConst : List String → String
  | [n, dir, a] =>
    match n.toNat?, Direction.ofString? dir, rats? a with
    | some n, some d, some a =>
      let m := a.length
      if m = 0 then "ERR IndexError"
      else "ok " ++ fmtRats (tab (extendLen m n d) (extendConst (arrFn a.toArray) m n d)).toList
    | _, _, _ => bad2
  | _ => bad2

def opAppendOne : List String → String
  | [periodic, x, y] =>
    match parseBool? periodic, rats? x, rats? y with
    | some p, some x, some y =>
      if x.length < 2 ∨ y.isEmpty then "ERR IndexError"
      else
        let m := x.length
        s!"ok {fmtRats (tab (m + 1) (appendOneX (arrFn x.toArray) m)).toList} {fmtRats (tab (y.length + 1) (appendOneY (arrFn y.toArray) y.length p)).toList}"
    | _, _, _ => bad2
  | _ => bad2

def opIntegral : List String → String
  | [rule, x, y] =>
    match rats? x, rats? y with
    | some x, some y =>
      match Rule.ofString? rule with
      | none => "ERR ValueError"
      | some r =>
        if x.length ≠ y.length then "unmodelled" else
        "ok " ++ fmtRats (tab (x.length - 1) (integralAt r (arrFn x.toArray) (arrFn y.toArray))).toList
    | _, _ => bad2
  | _ => bad2

def opSumIdx : List String → String
  | [a, idx] =>
    match rats? a, nats? idx with
    | some a, some idx => "ok " ++ fmtRats (sumOverIndices (arrFn a.toArray) idx)
    | _, _ => bad2
  | _ => bad2

def opIaGet : List String → String
  | [n, i, j, a] =>
    match n.toNat?, parseInt? i, parseInt? j, rats? a with
    | some n, some i, some j, some a =>
      fmtExcept fmtRat (Interval.get (arrFn a.toArray) a.length n i j)
    | _, _, _, _ => bad2
  | _ => bad2

def opIaSet : List String → String
  | [n, i, j, v, a] =>
    match n.toNat?, parseInt? i, parseInt? j, parseRat? v, rats? a with
    | some n, some i, some j, some v, some a =>
      fmtExcept (fun f => fmtRats (tab a.length f).toList) (Interval.set (arrFn a.toArray) a.length n i j v)
    | _, _, _, _, _ => bad2
  | _ => bad2

def opTo2d : List String → String
  | [n, a] =>
    match n.toNat?, rats? a with
    | some n, some a =>
      if n = 0 then "ERR ZeroDivisionError" else
      let len := a.length
      let f := arrFn a.toArray
      let R := Interval.rows len n
      let rowsS := (List.range R).map (fun r => fmtList fmtOptRat ((List.range n).map (fun c => Interval.to2d f len n r c)))
      s!"ok {Interval.nrFull len n} {R} " ++ (if rowsS.isEmpty then "-" else ";".intercalate rowsS)
    | _, _ => bad2
  | _ => bad2

def opTo2dClosed : List String → String
  | [n, drop, a] =>
    match n.toNat?, parseBool? drop, rats? a with
    | some n, some drop, some a =>
      if n = 0 then "ERR ZeroDivisionError" else
      let len := a.length
      let f := arrFn a.toArray
      let R := Interval.rowsClosed len n drop
      let rowsS := (List.range R).map (fun r => fmtList fmtOptRat ((List.range (n + 1)).map (fun c => Interval.to2dClosed f len n r c)))
      s!"ok {R} " ++ (if rowsS.isEmpty then "-" else ";".intercalate rowsS)
    | _, _, _ => bad2
  | _ => bad2

def opAverage : List String → String
  | [n, x, y] =>
    match n.toNat?, rats? x, rats? y with
    | some n, some x, some y =>
      if n = 0 then "ERR ZeroDivisionError" else
      let Rx := Interval.rows x.length n
      let Ry := Interval.rows y.length n
      s!"ok {fmtRats (tab Rx (Interval.averageX (arrFn x.toArray) n)).toList} {fmtRats (tab Ry (Interval.averageY (arrFn y.toArray) y.length n)).toList}"
    | _, _, _ => bad2
  | _ => bad2

def opRepeat : List String → String
  | [r, x, y] =>
    match r.toNat?, rats? x, rats? y with
    | some r, some x, some y =>
      let n := x.length
      if n < 2 ∨ y.length ≠ n ∨ r < 1 then "unmodelled" else
      s!"ok {fmtRats (tab (Process.repeatLen n r) (Process.repeatX (arrFn x.toArray) n)).toList} {fmtRats (tab (Process.repeatLen n r) (Process.repeatY (arrFn y.toArray) n)).toList}"
    | _, _, _ => bad2
  | _ => bad2

/-- a trend callable from the polynomial family: coefficients `c0,c1,c2,…` -/
def polyFn (cs : List Rat) : Rat → Rat := fun t => cs.foldr (fun c acc => c + t * acc) 0

def opTrend : List String → String
  | [normalized, coeffs, x, y] =>
    match parseBool? normalized, rats? coeffs, rats? x, rats? y with
    | some nz, some cs, some x, some y =>
      let n := x.length
      if n = 0 ∨ y.length ≠ n then "unmodelled"
      else if nz ∧ arrFn x.toArray (n - 1) - arrFn x.toArray 0 = 0 then "nan"
      else "ok " ++ fmtRats (tab n (Process.trendY (polyFn cs) nz (arrFn x.toArray) (arrFn y.toArray) n)).toList
    | _, _, _, _ => bad2
  | _ => bad2

def opNormalize : List String → String
  | [lo, hi, a] =>
    match parseRat? lo, parseRat? hi, rats? a with
    | some lo, some hi, some a =>
      let n := a.length
      let f := arrFn a.toArray
      if n = 0 then "ERR ValueError"
      else if maxTo f (n - 1) - minTo f (n - 1) = 0 then "nan"
      else "ok " ++ fmtRats (tab n (Process.normalize f n lo hi)).toList
    | _, _, _ => bad2
  | _ => bad2

def opTruncate : List String → String
  | [l, r, lr, rr, x, y] =>
    match parseRat? l, parseRat? r, parseBool? lr, parseBool? rr, rats? x, rats? y with
    | some l, some r, some lr, some rr, some x, some y =>
      match Process.truncateBounds x l r lr rr with
      | .error e => "ERR " ++ toString e
      | .ok (a, b) => s!"ok {a} {b} {fmtRats ((x.drop a).take (b - a))} {fmtRats ((y.drop a).take (b - a))}"
    | _, _, _, _, _, _ => bad2
  | _ => bad2

def opInterp : List String → String
  | [method, x, y, newX, ext] =>
    match rats? x, rats? y, rats? newX, rats? ext with
    | some x, some y, some nx, some ext => fmtExcept fmtRats (Process.interpolate x y nx method ext)
    | _, _, _, _ => bad2
  | _ => bad2

def opLinspace : List String → String
  | [a, b, num] =>
    match parseRat? a, parseRat? b, num.toNat? with
    | some a, some b, some num => "ok " ++ fmtRats ((List.range num).map (Process.linspaceAt a b num))
    | _, _, _ => bad2
  | _ => bad2

def opNoiseVar : List String → String
  | [a, snr] =>
    match rats? a, rats? snr with
    | some a, some snr =>
      let n := a.length
      if n = 0 then "unmodelled" else
      let s : Nat → Rat := if snr.length = 1 then (fun _ => snr.headD 1) else arrFn snr.toArray
      -- `Process.noiseVariance a n s i` is by definition `Process.signalPower a n / s i`: the power is computed once
      let p := Process.signalPower (arrFn a.toArray) n
      "ok " ++ fmtRats (tab n (fun i => p / s i)).toList
    | _, _ => bad2
  | _ => bad2

def opDefaultS : List String → String
  | [y] =>
    match rats? y with
    | some y => if y.isEmpty then "unmodelled" else "ok " ++ fmtRat (Process.defaultS (arrFn y.toArray) y.length)
    | _ => bad2
  | _ => bad2

def opResolve : List String → String
  | [name, registry] =>
    let reg := (registry.splitOn ",").map Datasets.ofString
    match Datasets.resolve reg (Datasets.ofString name) with
    | .ok f => "ok " ++ Datasets.toString f
    | .error e => "ERR " ++ toString e
  | _ => bad2

def optStr (s : String) : Option Datasets.Str := if s = "none" then none else some (Datasets.ofString s)

def opDataHome : List String → String
  | [arg, env, dflt] => "ok " ++ Datasets.toString (Datasets.dataHome (optStr arg) (optStr env) (Datasets.ofString dflt))
  | _ => bad2

def dispatch2 (op : String) (args : List String) : Option String :=
  match op with
  | "oversample" => some (opOversample args)
  | "extendlin" => some (opExtendLin args)
  | "extendconst" => some (opExtendConst args)
  | "appendone" => some (opAppendOne args)
  | "integral" => some (opIntegral args)
  | "sumidx" => some (opSumIdx args)
  | "iaget" => some (opIaGet args)
  | "iaset" => some (opIaSet args)
  | "to2d" => some (opTo2d args)
  | "to2dclosed" => some (opTo2dClosed args)
  | "average" => some (opAverage args)
  | "repeat" => some (opRepeat args)
  | "trend" => some (opTrend args)
  | "normalize" => some (opNormalize args)
  | "truncate" => some (opTruncate args)
  | "interp" => some (opInterp args)
  | "linspace" => some (opLinspace args)
  | "noisevar" => some (opNoiseVar args)
  | "defaults" => some (opDefaultS args)
  | "resolve" => some (opResolve args)
  | "datahome" => some (opDataHome args)
  | _ => none

end TWV.Driver
