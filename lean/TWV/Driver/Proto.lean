import TWV.Model.Base

/-!
# Line protocol of the model driver

One request per line: an operation name followed by space-separated fields.
A field is a scalar (`p/q`, `p`, a word) or a comma-separated list (`-` is the empty list);
`none` is Python's `None`.  One answer per line: `ok <fields…>`, `nan`, or `ERR <Kind>`.
-/

namespace TWV.Driver

def parseInt? (s : String) : Option Int := s.toInt?

def parseRat? (s : String) : Option Rat :=
  match s.splitOn "/" with
  | [p] => (parseInt? p).map (fun n => (n : Rat))
  | [p, q] => do
      let n ← parseInt? p
      let d ← q.toNat?
      if d = 0 then none else some (mkRat n d)
  | _ => none

def fmtRat (r : Rat) : String :=
  if r.den = 1 then toString r.num else s!"{r.num}/{r.den}"

def parseList? {α : Type} (f : String → Option α) (s : String) : Option (List α) :=
  if s = "-" then some [] else (s.splitOn ",").mapM f

def fmtList {α : Type} (f : α → String) (l : List α) : String :=
  if l.isEmpty then "-" else ",".intercalate (l.map f)

def parseOpt? {α : Type} (f : String → Option α) (s : String) : Option (Option α) :=
  if s = "none" then some none else (f s).map some

def parseBool? (s : String) : Option Bool :=
  match s with
  | "1" => some true | "0" => some false | "True" => some true | "False" => some false
  | _ => none

def rats? := parseList? parseRat?
def nats? := parseList? String.toNat?
def ints? := parseList? parseInt?
def fmtRats := fmtList fmtRat
def fmtNats := fmtList (fun (n : Nat) => toString n)
def fmtInts := fmtList (fun (n : Int) => toString n)

/-- the power function selected by a field: `k` (natural exponent), or a lookup table
`t1:v1;t2:v2;…` of values the harness obtained from Python's `**` (a miss yields a sentinel) -/
def parsePw? (s : String) : Option (Rat → Rat) :=
  match s.toNat? with
  | some k => some (fun t => powN t k)
  | none => do
      let pairs ← (s.splitOn ";").mapM (fun p =>
        match p.splitOn ":" with
        | [a, b] => do pure ((← parseRat? a), (← parseRat? b))
        | _ => none)
      some (fun t => match pairs.find? (fun p => p.1 = t) with
                     | some p => p.2
                     | none => 1000000007)

def fmtExcept {α : Type} (f : α → String) : Except Err α → String
  | .ok a => "ok " ++ f a
  | .error e => "ERR " ++ toString e

end TWV.Driver
