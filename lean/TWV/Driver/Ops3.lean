import TWV.Driver.Proto
import TWV.Model.Cache

/-! # Driver operations for the cache protocol model (C19) -/

namespace TWV.Driver
open TWV TWV.Cache

private def bad3 : String := "ERR BadRequest"

/-- payload identities used on the wire: `g` = the payload with the pinned checksum of dataset `d`
(`1000 + d`), `c` = corrupted (`1`), `x` = truncated (`2`); `parse b = b + 100000` -/
def goodOf (d : Nat) : Nat := 1000 + d
def parseB (b : Nat) : Nat := b + 100000

def netOf? (d : Nat) : String → Option Net
  | "u" => some .urlError | "t" => some .timeout | "o" => some .other
  | "g" => some (.payload (goodOf d)) | "c" => some (.payload 1) | "x" => some (.payload 2)
  | _ => none

def pcName : PC → String
  | .init .. => "init" | .fetching l => s!"fetching:{l}" | .fetched b => s!"fetched:{b}"
  | .verified _ => "verified" | .parsed _ => "parsed" | .dumping _ => "dumping" | .dumped _ => "dumped"
  | .renamed _ => "renamed" | .cleaned _ => "cleaned" | .readCache => "readcache"
  | .done r => s!"done:{r}" | .failed e => s!"failed:{e}" | .crashed => "crashed"

def entryName (o : Option Data) : String := match o with | none => "absent" | some d => s!"complete:{d}"

def mkCfg (slots : List Nat) : Cfg :=
  { slotOf := fun d => slots.getD d d, good := goodOf, parse := parseB }

/-- `cachesolo <dl> <even> <retries> <entry> <script> <kill>`: one loader of dataset 0 from a fresh
world whose entry is `none` / `good`; answers are consumed by download attempts only; if
`kill = k ≥ 0` the process is killed after `k` steps and a second, fault-free loader runs.
Answer: `ok <trace> <entry> [<trace2> <entry2>]`. -/
def opCacheSolo : List String → String
  | [dl, even, retries, entry, script, kill] =>
    match parseBool? dl, parseBool? even, retries.toNat?, parseInt? kill,
          (parseList? (netOf? 0) script) with
    | some dl, some even, some retries, some kill, some script =>
      let c := mkCfg [0]
      let e0 : Option Data := if entry = "good" then some (parseB (goodOf 0)) else none
      let w0 : World := { entry := fun s => if s = 0 then e0 else none, ds := fun _ => 0,
                          pc := fun p => if p = 0 then .init dl even retries else .init true false retries }
      let fuel := if kill < 0 then script.length + 20 else kill.toNat
      let r := runSolo c fuel w0 0 script
      let tr := fmtList pcName r.2
      if kill < 0 then s!"ok {tr} {entryName (r.1.entry 0)}"
      else
        let w1 := crash r.1 0
        let r2 := runSolo c 40 w1 1 (List.replicate (retries + 1) (.payload (goodOf 0)))
        s!"ok {tr} {entryName (w1.entry 0)} {fmtList pcName r2.2} {entryName (r2.1.entry 0)}"
    | _, _, _, _, _ => bad3
  | _ => bad3

/-- `cacherun <slots> <datasets per process> <flags per process: dl/even/retries;…> <entries> <events>`
events: `r<p>:<net>` or `k<p>`; answer: final pc per process and final entry per slot -/
def opCacheRun : List String → String
  | [slots, dss, flags, entries, events] =>
    match nats? slots, nats? dss, nats? entries with
    | some slots, some dss, some entries =>
      let c := mkCfg slots
      let fl := (flags.splitOn ";").map (fun f => match f.splitOn "/" with
        | [a, b, r] => (a = "1", b = "1", r.toNat?.getD 3)
        | _ => (true, false, 3))
      let w0 : World := {
        entry := fun s => if entries.contains s then
            -- an entry present at the start belongs to the dataset owning the slot
            some (parseB (goodOf (slots.idxOf s))) else none,
        ds := fun p => dss.getD p 0,
        pc := fun p => let f := fl.getD p (true, false, 3); .init f.1 f.2.1 f.2.2 }
      let evs := (if events = "-" then [] else events.splitOn ",").filterMap (fun e =>
        if e.startsWith "k" then (e.drop 1).toString.toNat?.map Event.kill
        else if e.startsWith "r" then
          match (e.drop 1).toString.splitOn ":" with
          | [p, n] => do
              let p ← p.toNat?
              let a ← netOf? (dss.getD p 0) n
              pure (Event.run p a)
          | _ => none
        else none)
      let w := runEvents c w0 evs
      let np := dss.length
      let ns := (slots.foldl max 0) + 1
      s!"ok {fmtList pcName ((List.range np).map w.pc)} {fmtList entryName ((List.range ns).map w.entry)}"
    | _, _, _ => bad3
  | _ => bad3

def dispatch3 (op : String) (args : List String) : Option String :=
  match op with
  | "cachesolo" => some (opCacheSolo args)
  | "cacherun" => some (opCacheRun args)
  | _ => none

end TWV.Driver
