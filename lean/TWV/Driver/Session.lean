import TWV.Driver.Dispatch
import TWV.Model.Weaver

/-! # Stateful driver operations: a `Weaver` session -/

namespace TWV.Driver
open TWV

structure DState where
  weaver : Option (Weaver.State Rat) := none

def dumpState (s : Weaver.State Rat) : String :=
  s!"{fmtRats s.x} {fmtRats s.y} {fmtRats s.rx} {fmtRats s.ry} {fmtRats s.ox} {fmtRats s.oy} {fmtRats s.callerX} {fmtRats s.callerY}"

def parseRows? (s : String) : Option (List (List Rat)) :=
  if s = "-" then some [] else (s.splitOn ";").mapM rats?

/-- a scalar field that may refer to a sample of the model's current `x`: `@i` (`@-1` = last).
The harness uses it where the code compares a bound with a *computed* sample for equality, so
that both sides use their own value of that sample. -/
def ratS? (s : Weaver.State Rat) (tok : String) : Option Rat :=
  if tok.startsWith "@" then
    match (tok.drop 1).toString.toInt? with
    | some k =>
      let len : Int := s.x.length
      let i := if k < 0 then len + k else k
      if i < 0 then none else s.x[i.toNat]?
    | none => none
  else parseRat? tok

def ratsS? (s : Weaver.State Rat) : String → Option (List Rat) := parseList? (ratS? s)

def parseOp? (s : Weaver.State Rat) : List String → Option (Weaver.Op Rat)
  | ["append", p] => (parseBool? p).map .appendOne
  | ["shiftx", v] => (parseRat? v).map .shiftX
  | ["shifty", v] => (parseRat? v).map .shiftY
  | ["scalex", v] => (parseRat? v).map .scaleX
  | ["scaley", v] => (parseRat? v).map .scaleY
  | ["normx", lo, hi] => do pure (.normX (← parseRat? lo) (← parseRat? hi))
  | ["normy", lo, hi] => do pure (.normY (← parseRat? lo) (← parseRat? hi))
  | ["repeat", r] => r.toNat?.map .repeat
  | ["truncv", l, r, lr, rr] => do
      pure (.truncV (← ratS? s l) (← ratS? s r) (← parseBool? lr) (← parseBool? rr))
  | ["trunci", a, b] => do pure (.truncI (← parseInt? a) (← parseOpt? parseInt? b))
  | ["recreate", strategy, pw, n, aL, aR, bL, bR] => do
      pure (.recreate strategy (← parsePw? pw) (← parseInt? n) (← nats? aL) (← nats? aR) (← nats? bL) (← nats? bR))
  | ["recreateext", n, ys] => do pure (.recreateExt (← parseInt? n) (← rats? ys))
  | ["match", pw, fpx, fpi, strategy, target, refRule] => do
      pure (.integralMatch (← parsePw? pw) (← parseOpt? rats? fpx) (← parseOpt? nats? fpi) strategy target refRule)
  | ["interpn", n, method, ext] => do pure (.interpN (← n.toNat?) method (← rats? ext))
  | ["interpx", nx, method, ext] => do pure (.interpX (← ratsS? s nx) method (← rats? ext))
  | ["smooth", ext] => (rats? ext).map .smooth
  | ["trend", cs, nz] => do pure (.trendPoly (← rats? cs) (← parseBool? nz))
  | ["noise", d] => (rats? d).map .noise
  | ["restore"] => some .restore
  | _ => none

def sessionOp (st : DState) (op : String) (args : List String) : Option (DState × String) :=
  match op, args with
  | "winit", [x, y] =>
    match parseOpt? rats? x, rats? y with
    | some x, some y =>
      match Weaver.init x y with
      | .ok s => some ({ st with weaver := some s }, "ok " ++ dumpState s)
      | .error e => some ({ st with weaver := none }, "ERR " ++ toString e)
    | _, _ => some (st, bad)
  | "wfrom2d", [rows] =>
    match parseRows? rows with
    | some rows =>
      match Weaver.from2d rows with
      | .ok s => some ({ st with weaver := some s }, "ok " ++ dumpState s)
      | .error e => some ({ st with weaver := none }, "ERR " ++ toString e)
    | none => some (st, bad)
  | "wop", args =>
    match st.weaver with
    | none => some (st, bad)
    | some s =>
    match parseOp? s args with
    | none => some (st, bad)
    | some o =>
      -- windows that make the loops of a strategy overwrite each other (a_l + a_r > n: only reachable through
      -- floating-point artefacts of the adaptive split) are outside the closed-form model
      let unmodelled : Bool := match o with
        | .recreate strategy _ n aL aR bL bR =>
          let w : Rfa.Windows := { aL := fun k => aL.getD k 0, aR := fun k => aR.getD k 0,
                                   bL := fun k => bL.getD k 0, bR := fun k => bR.getD k 0 }
          strategy != "pc" && 2 ≤ n && !Rfa.windowsOk w s.x.length n.toNat
        | _ => false
      if unmodelled then some (st, "unmodelled") else
      let r := Weaver.step s o
      let out := match r.err with
        | none => "ok " ++ dumpState r.state
        | some e => "ERR " ++ toString e ++ " " ++ dumpState r.state
      some ({ st with weaver := some r.state }, out)
  | "wpoke", [dx, dy] =>
    match st.weaver, parseRat? dx, parseRat? dy with
    | some s, some dx, some dy =>
      let s' := s.poke dx dy
      some ({ st with weaver := some s' }, "ok " ++ dumpState s')
    | _, _, _ => some (st, bad)
  | "wslicei", [a, b, step] =>
    match st.weaver, parseInt? a, parseOpt? parseInt? b, step.toNat? with
    | some s, some a, some b, some step =>
      some (st, fmtExcept (fun (p : List Rat × List Rat) => s!"{fmtRats p.1} {fmtRats p.2}") (Weaver.sliceByIndex s a b step))
    | _, _, _, _ => some (st, bad)
  | "wslicev", [a, b, step] =>
    match st.weaver with
    | none => some (st, bad)
    | some s =>
    match parseOpt? (ratS? s) a, parseOpt? (ratS? s) b, step.toNat? with
    | some a, some b, some step =>
      some (st, fmtExcept (fun (p : List Rat × List Rat) => s!"{fmtRats p.1} {fmtRats p.2}") (Weaver.sliceByValue s a b step))
    | _, _, _ => some (st, bad)
  | _, _ => none

def dispatchS (st : DState) (line : String) : DState × String :=
  match (line.trimAscii.toString.splitOn " ").filter (· ≠ "") with
  | [] => (st, bad)
  | op :: args =>
    match sessionOp st op args with
    | some r => r
    | none => (st, dispatch line)

end TWV.Driver
