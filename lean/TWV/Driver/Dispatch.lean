import TWV.Driver.Ops
import TWV.Driver.Ops2
import TWV.Driver.Ops3

namespace TWV.Driver

def dispatch (line : String) : String :=
  match (line.trimAscii.toString.splitOn " ").filter (· ≠ "") with
  | [] => bad
  | op :: args =>
    match dispatch1 op args with
    | some r => r
    | none =>
      match dispatch2 op args with
      | some r => r
      | none =>
        match dispatch3 op args with
        | some r => r
        | none => bad

end TWV.Driver
