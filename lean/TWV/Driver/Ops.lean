import TWV.Driver.Proto
import TWV.Model.Search
import TWV.Model.Arrays
import TWV.Model.Match
import TWV.Model.Rfa
import TWV.Model.RfaImp
import TWV.Model.Funfit

/-! # Operation dispatch of the model driver (one function per protocol operation) -/

namespace TWV.Driver
open TWV

def bad : String := "ERR BadRequest"

def opSearch : List String → String
  | [strategy, fill, x, q] =>
    match parseBool? fill, rats? x, rats? q with
    | some fill, some x, some q => fmtExcept fmtInts (Search.find strategy fill x q)
    | _, _, _ => bad
  | _ => bad

def ruleOf? (s : String) : Option Rule := Rule.ofString? s

def opStretch : List String → String
  | [rule, pw, x, y, I] =>
    match ruleOf? rule, parsePw? pw, rats? x, rats? y, parseRat? I with
    | some r, some pw, some x, some y, some I =>
      let N := x.length - 1
      let xf := arrFn x.toArray
      let yf := arrFn y.toArray
      if stretchDenom r pw N xf = 0 ∨ (N ≠ 1 ∧ xf N - xf 0 = 0) then "nan"
      else "ok " ++ fmtRats ((tab x.length (stretch r pw N xf yf I)).toList)
    | _, _, _, _, _ => bad
  | _ => bad

def opLoop : List String → String
  | [rule, pw, x, y, F, Is] =>
    match ruleOf? rule, parsePw? pw, rats? x, rats? y, nats? F, rats? Is with
    | some r, some pw, some x, some y, some F, some Is =>
      let xf := arrFn x.toArray
      let ws := windows Is F
      if loopDefined r pw xf ws then "ok " ++ fmtRats (loopA r pw xf ws y.toArray).toList
      else "nan"
    | _, _, _, _, _, _ => bad
  | _ => bad

def opFixed : List String → String
  | [x, xref, fpx, fpi, strategy] =>
    match rats? x, rats? xref, parseOpt? rats? fpx, parseOpt? nats? fpi with
    | some x, some xref, some fpx, some fpi =>
      fmtExcept (fun (fp : FixedPoints Rat) => s!"{fmtNats fp.idxX} {fmtNats fp.idxRef} {fmtRats fp.inX}")
        (fixedPoints x xref fpx fpi strategy)
    | _, _, _, _ => bad
  | _ => bad

def opMatchRef : List String → String
  | [pw, x, y, xref, yref, fpx, fpi, strategy, target, refRule] =>
    match parsePw? pw, rats? x, rats? y, rats? xref, rats? yref, parseOpt? rats? fpx,
          parseOpt? nats? fpi with
    | some pw, some x, some y, some xref, some yref, some fpx, some fpi =>
      match matchRef pw x y xref yref fpx fpi strategy target refRule with
      | .ok (some l) => "ok " ++ fmtRats l
      | .ok none => "nan"
      | .error e => "ERR " ++ toString e
    | _, _, _, _, _, _, _ => bad
  | _ => bad


/-! ### rfa.py -/

def listFn (l : List Nat) : Nat → Nat := fun k => l.getD k 0

def opRfaParams : List String → String
  | [B, n, alpha, a, beta] =>
    match B.toNat?, n.toNat?, parseRat? alpha, parseOpt? String.toNat? a, parseRat? beta with
    | some B, some n, some alpha, some a, some beta =>
      let av := Rfa.deriveA B n alpha a
      let al := av / 2
      s!"ok {av} {al} {Rfa.deriveB B beta al}"
    | _, _, _, _, _ => bad
  | _ => bad

def opRfaWin : List String → String
  | [gpow, a, n, y] =>
    match parsePw? gpow, a.toNat?, n.toNat?, rats? y with
    | some gpow, some a, some n, some y =>
      let m := y.length
      let Y := Rfa.Yk (arrFn y.toArray) m n
      let w := Rfa.windowsAdaptive gpow a m Y (fun v => v)
      let ks := List.range (m + 1)
      let sh := ks.map (fun k => if k = 0 ∨ m ≤ k then none else Rfa.adaptiveShares gpow a Y k)
      let shL := sh.map (fun o => match o with | some p => p.1 | none => 0)
      let shR := sh.map (fun o => match o with | some p => p.2 | none => 0)
      s!"ok {fmtNats (ks.map w.aL)} {fmtNats (ks.map w.aR)} {fmtRats shL} {fmtRats shR}"
    | _, _, _, _ => bad
  | _ => bad

def opRfa : List String → String
  | [strategy, pw, n, x, y, aL, aR, bL, bR] =>
    match Rfa.Strategy.ofString? strategy, parsePw? pw, n.toNat?, rats? x, rats? y,
          nats? aL, nats? aR, nats? bL, nats? bR with
    | some s, some pw, some n, some x, some y, some aL, some aR, some bL, some bR =>
      let m := x.length
      let w : Rfa.Windows := { aL := listFn aL, aR := listFn aR, bL := listFn bL, bR := listFn bR }
      let xf := arrFn x.toArray
      let yf := arrFn y.toArray
      match Rfa.run s pw xf yf m n w with
      | .error e => "ERR " ++ toString e
      | .ok (ox, oy) =>
        if m < 2 ∨ y.length ≠ m then "unmodelled"
        else if s ≠ .pc ∧ !Rfa.windowsOk w m n then "unmodelled"
        else
          let L := Rfa.outLen m n
          s!"ok {fmtRats (tab L ox).toList} {fmtRats (tab L oy).toList}"
    | _, _, _, _, _, _, _, _, _ => bad
  | _ => bad

/-- the imperative model of the same call: the loops of the code run in program order -/
def opRfaImp : List String → String
  | [strategy, pw, n, x, y, aL, aR, bL, bR] =>
    match Rfa.Strategy.ofString? strategy, parsePw? pw, n.toNat?, rats? x, rats? y,
          nats? aL, nats? aR, nats? bL, nats? bR with
    | some s, some pw, some n, some x, some y, some aL, some aR, some bL, some bR =>
      let m := x.length
      let w : Rfa.Windows := { aL := listFn aL, aR := listFn aR, bL := listFn bL, bR := listFn bR }
      let xf := arrFn x.toArray
      let yf := arrFn y.toArray
      if n < 2 then "ERR " ++ toString Err.valueError
      else if m < 2 ∨ y.length ≠ m then "unmodelled"
      else if s ≠ .pc ∧ !RfaImp.windowsFit w m n then "unmodelled"
      else
        let L := Rfa.outLen m n
        s!"ok {fmtRats (tab L (Rfa.outX xf m n)).toList} {fmtRats (RfaImp.outYImpA s pw xf yf m n w)}"
    | _, _, _, _, _, _, _, _, _ => bad
  | _ => bad

def opFunfit : List String → String
  | [name, pw, x, x0, y0, x1, y1] =>
    match parsePw? pw, parseRat? x, parseRat? x0, parseRat? y0, parseRat? x1, parseRat? y1 with
    | some pw, some x, some x0, some y0, some x1, some y1 =>
      if x1 - x0 = 0 then "nan" else
      match name with
      | "lin_fit" => "ok " ++ fmtRat (linFit x (x0, y0) (x1, y1))
      | "exp_fit" => "ok " ++ fmtRat (expFit pw x (x0, y0) (x1, y1))
      | "exp_xy_fit" => "ok " ++ fmtRat (expXYFit pw x (x0, y0) (x1, y1))
      | "exp_lin_fit" => "ok " ++ fmtRat (expLinFit pw x (x0, y0) (x1, y1))
      | "lin_exp_xy_fit" => "ok " ++ fmtRat (linExpXYFit pw x (x0, y0) (x1, y1))
      | _ => bad
    | _, _, _, _, _, _ => bad
  | _ => bad

def dispatch1 (op : String) (args : List String) : Option String :=
    match op with
    | "search" => some (opSearch args)
    | "stretch" => some (opStretch args)
    | "loop" => some (opLoop args)
    | "fixed" => some (opFixed args)
    | "matchref" => some (opMatchRef args)
    | "rfaparams" => some (opRfaParams args)
    | "rfawin" => some (opRfaWin args)
    | "rfa" => some (opRfa args)
    | "rfaimp" => some (opRfaImp args)
    | "funfit" => some (opFunfit args)
    | _ => none

end TWV.Driver
