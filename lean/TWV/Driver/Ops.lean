import TWV.Driver.Proto
import TWV.Model.Search
import TWV.Model.Arrays
import TWV.Model.Match

/-! # Operation dispatch of the model driver (one function per protocol operation) -/

namespace TWV.Driver
open TWV

def bad : String := "ERR BadRequest"

def opSearch : List String → String
  | [strategy, fill, x, q] =>
    match parseBool? fill, rats? x, rats? q with
    | some fill, some x, some q => fmtExcept fmtInts (Search.find strategy fill x q)
    | _, _, _ => bad
  | _ => bad

def ruleOf? (s : String) : Option Rule := Rule.ofString? s

def opStretch : List String → String
  | [rule, pw, x, y, I] =>
    match ruleOf? rule, parsePw? pw, rats? x, rats? y, parseRat? I with
    | some r, some pw, some x, some y, some I =>
      let N := x.length - 1
      let xf := arrFn x.toArray
      let yf := arrFn y.toArray
      if stretchDenom r pw N xf = 0 ∨ (N ≠ 1 ∧ xf N - xf 0 = 0) then "nan"
      else "ok " ++ fmtRats ((tab x.length (stretch r pw N xf yf I)).toList)
    | _, _, _, _, _ => bad
  | _ => bad

def opLoop : List String → String
  | [rule, pw, x, y, F, Is] =>
    match ruleOf? rule, parsePw? pw, rats? x, rats? y, nats? F, rats? Is with
    | some r, some pw, some x, some y, some F, some Is =>
      let xf := arrFn x.toArray
      let ws := windows Is F
      if loopDefined r pw xf ws then "ok " ++ fmtRats (loopA r pw xf ws y.toArray).toList
      else "nan"
    | _, _, _, _, _, _ => bad
  | _ => bad

def opFixed : List String → String
  | [x, xref, fpx, fpi, strategy] =>
    match rats? x, rats? xref, parseOpt? rats? fpx, parseOpt? nats? fpi with
    | some x, some xref, some fpx, some fpi =>
      fmtExcept (fun (fp : FixedPoints Rat) => s!"{fmtNats fp.idxX} {fmtNats fp.idxRef} {fmtRats fp.inX}")
        (fixedPoints x xref fpx fpi strategy)
    | _, _, _, _ => bad
  | _ => bad

def opMatchRef : List String → String
  | [pw, x, y, xref, yref, fpx, fpi, strategy, target, refRule] =>
    match parsePw? pw, rats? x, rats? y, rats? xref, rats? yref, parseOpt? rats? fpx,
          parseOpt? nats? fpi with
    | some pw, some x, some y, some xref, some yref, some fpx, some fpi =>
      match matchRef pw x y xref yref fpx fpi strategy target refRule with
      | .ok (some l) => "ok " ++ fmtRats l
      | .ok none => "nan"
      | .error e => "ERR " ++ toString e
    | _, _, _, _, _, _, _ => bad
  | _ => bad

def dispatch (line : String) : String :=
  match (line.trimAscii.toString.splitOn " ").filter (· ≠ "") with
  | [] => bad
  | op :: args =>
    match op with
    | "search" => opSearch args
    | "stretch" => opStretch args
    | "loop" => opLoop args
    | "fixed" => opFixed args
    | "matchref" => opMatchRef args
    | _ => bad

end TWV.Driver
