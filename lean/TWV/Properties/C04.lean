import TWV.Lemmas.RfaGrid

/-!
# C04 — the recreated series has an exact n-fold grid structure

"Every recreate-from-average strategy turns m >= 2 samples into exactly (m-1)*n+1 samples, returned
as two equal-length one-dimensional NumPy arrays with finite values: every n-th abscissa is an
original abscissa bit for bit, the abscissae between two originals are equally spaced and strictly
increasing.  An oversampling factor below 2 is rejected with ValueError."

Model: `TWV/Model/Rfa.lean` (`Rfa.run`, `Rfa.outX`, `Rfa.outY`, `Rfa.outLen`); helper lemmas:
`TWV/Lemmas/RfaGrid.lean`.  A series is a total function `ℕ → K` with its length passed
separately: `m` original samples, oversampling factor `n`; both returned series have length
`Rfa.outLen m n`.  (Array kind / finiteness of the floats is checked by the harness, not here.)
-/

set_option linter.unusedSectionVars false

namespace TWV.C04
open TWV TWV.Rfa

variable {K : Type} [Field K] [LinearOrder K] [IsStrictOrderedRing K]

/-! ## Rejection and acceptance -/

/-- an oversampling factor below 2 is rejected with `ValueError`, for every strategy -/
theorem rfa_reject (s : Strategy) (pw : K → K) (x y : ℕ → K) (m n : ℕ) (w : Windows)
    (hn : n < 2) : run s pw x y m n w = .error .valueError := by
  unfold run; rw [if_pos hn]

/-- nothing else is rejected: the result is the pair of the two output series -/
theorem rfa_accept (s : Strategy) (pw : K → K) (x y : ℕ → K) (m n : ℕ) (w : Windows)
    (hn : 2 ≤ n) : run s pw x y m n w = .ok (outX x m n, outY s pw x y m n w) := by
  unfold run; rw [if_neg (by omega)]

/-- rejection happens exactly for `n < 2` -/
theorem rfa_reject_iff (s : Strategy) (pw : K → K) (x y : ℕ → K) (m n : ℕ) (w : Windows) :
    run s pw x y m n w = .error .valueError ↔ n < 2 := by
  constructor
  · intro h
    by_contra hn
    rw [rfa_accept s pw x y m n w (by omega)] at h
    cases h
  · exact rfa_reject s pw x y m n w

/-! ## Length -/

/-- `m` samples become `(m-1)*n+1` samples; `outLen` is by definition the common length of both
returned series (the abscissae `outX` and the values `outY` of every strategy) -/
theorem rfa_length (m n : ℕ) : outLen m n = (m - 1) * n + 1 := rfl

/-- the last result index is `(m-1)*n`, i.e. the knot of the last original sample -/
theorem rfa_length_pos (m n : ℕ) : (m - 1) * n < outLen m n := Nat.lt_succ_self _

/-- the length is that of the oversampled input (`extension_cut`: one virtual interval is added on
each side and cut off again) -/
theorem rfa_length_eq_oversampleLen {m n : ℕ} (hn : 2 ≤ n) : outLen m n = oversampleLen m n := by
  rw [oversampleLen_eq hn]; rfl

/-! ## The abscissae -/

/-- extending by one virtual interval on each side and cutting `[n:-n]` returns the oversampled
grid -/
theorem rfa_grid_eq_oversample (x : ℕ → K) {m n : ℕ} (hn : 2 ≤ n) (hm : 2 ≤ m) {j : ℕ}
    (hj : j < outLen m n) : outX x m n j = oversampleLin x n j := by
  unfold outX
  have hlen : (m - 1) * n + n = m * n := by
    obtain ⟨m', rfl⟩ : ∃ m', m = m' + 1 := ⟨m - 1, by omega⟩
    simp only [Nat.add_sub_cancel, Nat.add_mul, Nat.one_mul]
  rw [rfa_length] at hj
  rw [XE_eq x hn hm, if_neg (by omega), if_pos (by omega), Nat.add_sub_cancel_left]

/-- every `n`-th abscissa *is* the original abscissa (an identity of elements: no arithmetic
residue) -/
theorem rfa_knots (x : ℕ → K) {m n : ℕ} (hn : 2 ≤ n) (hm : 2 ≤ m) {k : ℕ} (hk : k ≤ m - 1) :
    outX x m n (k * n) = x k := by
  have hj : k * n < outLen m n := by
    rw [rfa_length]
    exact Nat.lt_succ_of_le (Nat.mul_le_mul_right n hk)
  rw [rfa_grid_eq_oversample x hn hm hj, oversampleLin_knot x hn]

/-- between two originals: `n` equal steps -/
theorem rfa_between (x : ℕ → K) {m n : ℕ} (hn : 2 ≤ n) (hm : 2 ≤ m) {k j : ℕ} (hk : k < m - 1)
    (hj : j < n) :
    outX x m n (k * n + j) = x k + (j : K) * ((x (k + 1) - x k) / (n : K)) := by
  have hlt : k * n + j < outLen m n := by
    rw [rfa_length]
    have : (k + 1) * n ≤ (m - 1) * n := Nat.mul_le_mul_right n hk
    rw [Nat.add_mul, Nat.one_mul] at this
    omega
  rw [rfa_grid_eq_oversample x hn hm hlt, oversampleLin_decomp x hn k j hj]

/-- consecutive abscissae inside original interval `k` differ by `(x (k+1) - x k) / n`,
including the step to the next knot -/
theorem rfa_equal_spacing (x : ℕ → K) {m n : ℕ} (hn : 2 ≤ n) (hm : 2 ≤ m) {k j : ℕ}
    (hk : k < m - 1) (hj : j < n) :
    outX x m n (k * n + j + 1) - outX x m n (k * n + j) = (x (k + 1) - x k) / (n : K) := by
  have hn0 : (n : K) ≠ 0 := natCast_ne_zero_of_two_le hn
  rw [rfa_between x hn hm hk hj]
  rcases Nat.lt_or_ge (j + 1) n with h | h
  · rw [Nat.add_assoc, rfa_between x hn hm hk h]
    push_cast; ring
  · have hjn : j + 1 = n := by omega
    have : k * n + j + 1 = (k + 1) * n := by rw [Nat.add_assoc, hjn, Nat.add_mul, Nat.one_mul]
    rw [this, rfa_knots x hn hm (show k + 1 ≤ m - 1 by omega)]
    have hj' : (j : K) = (n : K) - 1 := by
      rw [← hjn]; push_cast; ring
    rw [hj']
    field_simp
    ring

/-- the returned abscissae are strictly increasing -/
theorem rfa_strictIncr {x : ℕ → K} {m n : ℕ} (hn : 2 ≤ n) (hm : 2 ≤ m)
    (hx : StrictIncr (m - 1) x) : StrictIncr ((m - 1) * n) (outX x m n) := by
  intro j _
  unfold outX
  exact XE_lt_succ hn hm hx (n + j)

/-- the knots keep the order of the originals and every abscissa of interval `k` lies between its
two knots -/
theorem rfa_between_bounds {x : ℕ → K} {m n : ℕ} (hn : 2 ≤ n) (hm : 2 ≤ m)
    (hx : StrictIncr (m - 1) x) {k j : ℕ} (hk : k < m - 1) (hj : j < n) :
    x k ≤ outX x m n (k * n + j) ∧ outX x m n (k * n + j) < x (k + 1) := by
  have hmono := XE_strictMono hn hm hx
  rw [← rfa_knots x hn hm (show k ≤ m - 1 by omega),
    ← rfa_knots x hn hm (show k + 1 ≤ m - 1 by omega)]
  unfold outX
  constructor
  · exact hmono.monotone (by omega)
  · apply hmono
    rw [Nat.add_mul, Nat.one_mul]; omega

/-! ## The values -/

/-- the piecewise-constant strategy repeats every average `n` times -/
theorem rfa_pc_values (pw : K → K) (x y : ℕ → K) {m n : ℕ} (w : Windows) (hn : 2 ≤ n) (j : ℕ) :
    outY .pc pw x y m n w j = y (j / n) := by
  show oversamplePC y n j = y (j / n)
  exact oversamplePC_eq y hn j

private theorem last_index {m n : ℕ} (hn : 2 ≤ n) (hm : 2 ≤ m) :
    (m - 1) * n / n + 1 = m ∧ (m - 1) * n % n = 0 := by
  have h1 := div_of_decomp (n := n) (j := 0) (m - 1) (by omega)
  have h2 := mod_of_decomp (n := n) (j := 0) (m - 1) (by omega)
  rw [Nat.add_zero] at h1 h2
  rw [h1, h2]
  exact ⟨by omega, rfl⟩

/-- the exponential strategies return the last sample unchanged -/
theorem rfa_last_sample_exp (pw : K → K) (x y : ℕ → K) {m n : ℕ} (w : Windows) (hn : 2 ≤ n)
    (hm : 2 ≤ m) (adaptive : Bool) :
    expOut pw (XE x m n) (Yk y m n) m n w adaptive ((m - 1) * n) = y (m - 1) := by
  unfold expOut
  simp only [(last_index hn hm).1]
  rw [if_neg (by omega), Yk_mid y hn (by omega) le_rfl]

theorem rfa_last_sample (s : Strategy) (pw : K → K) (x y : ℕ → K) {m n : ℕ} (w : Windows)
    (hn : 2 ≤ n) (hm : 2 ≤ m) (hs : s = .pc ∨ s = .expFixed ∨ s = .expAdaptive) :
    outY s pw x y m n w ((m - 1) * n) = y (m - 1) := by
  rcases hs with rfl | rfl | rfl
  · rw [rfa_pc_values pw x y w hn, (by have := (last_index hn hm).1; omega :
      (m - 1) * n / n = m - 1)]
  · exact rfa_last_sample_exp pw x y w hn hm false
  · exact rfa_last_sample_exp pw x y w hn hm true

/-- the linear strategies return the last sample unchanged when the last interval has no right
transition window (otherwise the last value is the border value `z0 m`, see `C05`) -/
theorem rfa_last_sample_lin (pw : K → K) (x y : ℕ → K) {m n : ℕ} (w : Windows) (hn : 2 ≤ n)
    (hm : 2 ≤ m) (s : Strategy) (hs : s = .linFixed ∨ s = .linAdaptive)
    (hw : w.aR (m - 1) = 0) :
    outY s pw x y m n w ((m - 1) * n) = y (m - 1) := by
  have key : ∀ adaptive, linOut (XE x m n) (Yk y m n) m n w adaptive ((m - 1) * n) = y (m - 1) := by
    intro adaptive
    unfold linOut
    simp only [(last_index hn hm).1, (last_index hn hm).2]
    rw [if_neg (by omega), if_neg (by omega), if_neg (by omega), Yk_mid y hn (by omega) le_rfl]
  rcases hs with rfl | rfl
  · exact key false
  · exact key true

/-- in general the last value of a linear strategy is the value the right loop of interval `m-1`
writes at its end point -/
theorem rfa_last_sample_lin_general (x y : ℕ → K) {m n : ℕ} (w : Windows)
    (hn : 2 ≤ n) (hm : 3 ≤ m) (adaptive : Bool) (hw : 1 ≤ w.aR (m - 1)) :
    linOut (XE x m n) (Yk y m n) m n w adaptive ((m - 1) * n)
      = linRight (XE x m n) (Yk y m n) n w adaptive (m - 1) n := by
  unfold linOut
  simp only [(last_index hn (by omega : 2 ≤ m)).1, (last_index hn (by omega : 2 ≤ m)).2]
  rw [if_neg (by omega), if_neg (by omega), if_pos ⟨trivial, by omega, hw⟩]

/-! ## Non-vacuity -/

section Example

/-- `x = [5,6,7,8]`, `y = [10,12,14,16]`, `n = 5`, `LinearFixedRFA` with `a = 4` -/
private def ex : ℕ → ℚ := fun i => (5 + i : ℚ)
private def ey : ℕ → ℚ := fun i => (10 + 2 * i : ℚ)

example : run .linFixed (fun t => t) ex ey 4 5 (windowsFixed 4 1)
    = .ok (outX ex 4 5, outY .linFixed (fun t => t) ex ey 4 5 (windowsFixed 4 1)) :=
  rfa_accept _ _ _ _ _ _ _ (by norm_num)

example : outX ex 4 5 5 = 6 := by
  have := rfa_knots ex (m := 4) (n := 5) (by norm_num) (by norm_num) (k := 1) (by norm_num)
  norm_num [ex] at this ⊢
  linarith

example : outX ex 4 5 7 = 32 / 5 := by
  have := rfa_between ex (m := 4) (n := 5) (by norm_num) (by norm_num) (k := 1) (j := 2)
    (by norm_num) (by norm_num)
  norm_num [ex] at this ⊢
  linarith

example : StrictIncr (4 - 1) ex := by
  intro i _; simp [ex]

example : outY .linFixed (fun t => t) ex ey 4 5 (windowsFixed 4 1) 4 = 21 / 2 := by
  have hn : (2 : ℕ) ≤ 5 := by norm_num
  have hm : (2 : ℕ) ≤ 4 := by norm_num
  show linOut (XE ex 4 5) (Yk ey 4 5) 4 5 (windowsFixed 4 1) false 4 = 21 / 2
  have hY1 : Yk ey 4 5 1 = 10 := by rw [Yk_mid ey hn (by norm_num) (by norm_num)]; norm_num [ey]
  have hY2 : Yk ey 4 5 2 = 12 := by rw [Yk_mid ey hn (by norm_num) (by norm_num)]; norm_num [ey]
  have hX8 : XE ex 4 5 8 = 28 / 5 := by
    have := XE_mid ex hn hm (k := 1) (j := 3) (by norm_num) (by norm_num) (by norm_num)
    norm_num [ex] at this ⊢; linarith
  have hX9 : XE ex 4 5 9 = 29 / 5 := by
    have := XE_mid ex hn hm (k := 1) (j := 4) (by norm_num) (by norm_num) (by norm_num)
    norm_num [ex] at this ⊢; linarith
  have hX10 : XE ex 4 5 10 = 6 := by
    have := XE_mid ex hn hm (k := 2) (j := 0) (by norm_num) (by norm_num) (by norm_num)
    norm_num [ex] at this ⊢; linarith
  have hX12 : XE ex 4 5 12 = 32 / 5 := by
    have := XE_mid ex hn hm (k := 2) (j := 2) (by norm_num) (by norm_num) (by norm_num)
    norm_num [ex] at this ⊢; linarith
  norm_num [linOut, linRight, z0, linFit, windowsFixed, hY1, hY2, hX8, hX9, hX10, hX12]

end Example

end TWV.C04
