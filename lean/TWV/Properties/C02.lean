import TWV.Lemmas.Pipeline

/-!
# C02 — recreate + match preserves every original average (averaging round trip)

"For any averaged series, any of the six recreate-from-average strategies and any oversampling
factor n >= 2, recreating and then integral-matching against the (piecewise-constant) original
yields a finer series whose mean over every original interval, under the chosen target integration
rule, equals that interval's original average.  With the rectangle target rule, averaging the
result over blocks of n samples returns the original abscissae exactly and, for every original
interval, its average up to rounding."

The code path is `Weaver(x, y).recreate_from_average(n, rfa_class=C).integral_match(target,
'rectangle').get()`:

* `recreate_from_average` replaces the working series by `(xs, z)` where
  `xs = oversample_linspace(x, n) = gridL x n` has `L = (m - 1) * n + 1` samples and `z` are
  strategy-specific values of the same length.  **The theorems quantify over every `z` of length
  `L`**, so they cover the six strategies (and any other);
* `integral_match` calls `integral_matching_reference_stretch(xs, z, x_ref = x, y_ref = y, …)`
  (`matchRef`) in its default mode (no explicit fixed points), with the untouched original
  `(x, y)` as reference and `'rectangle'` as reference rule.

Notation: `m = x.length ≥ 2`, `y.length = m`, `x` strictly increasing, `n ≥ 2`.
The exact field `K` stands for the reals; "up to rounding" of the prose is exact equality here.
Helper lemmas: `TWV/Lemmas/Pipeline.lean`; the proofs rest on C01 (`matchRef_intervals`),
C10 (the three scans), C04 (the recreate grid) and C17 (oversampling, block averaging).
-/

set_option linter.unusedSectionVars false

namespace TWV.C02
open TWV

variable {K : Type} [Field K] [LinearOrder K] [IsStrictOrderedRing K]

/-! ## 1. The recreated grid -/

/-- the grid is `oversample_linspace(x, n)` tabulated on `L = (m - 1) * n + 1` indices -/
theorem grid_def (x : List K) (n : ℕ) :
    gridL x n = (List.range ((x.length - 1) * n + 1)).map (oversampleLin (arrFn x.toArray) n) := rfl

/-- it is also what `Weaver.ofFn` tabulates -/
theorem grid_ofFn (x : List K) (n : ℕ) :
    gridL x n = Weaver.ofFn ((x.length - 1) * n + 1) (oversampleLin (arrFn x.toArray) n) := rfl

theorem grid_length (x : List K) (n : ℕ) : (gridL x n).length = (x.length - 1) * n + 1 :=
  gridL_length x n

/-- the recreated abscissae are strictly increasing -/
theorem grid_strictIncr (x : List K) (n : ℕ) (hx : x.Pairwise (· < ·)) (hn : 2 ≤ n)
    (hm : 2 ≤ x.length) : (gridL x n).Pairwise (· < ·) :=
  gridL_strictIncr x n hx hn (by omega)

/-- every `n`-th recreated abscissa *is* the original one (an identity with the input element) -/
theorem grid_knot (x : List K) (n k : ℕ) (hn : 2 ≤ n) (hk : k < x.length) :
    (gridL x n)[k * n]'(by rw [gridL_length]; exact knot_lt hk) = x[k] :=
  gridL_knot x n k hn hk

/-- between two originals the grid advances by the constant step `(x[k+1] - x[k]) / n` -/
theorem grid_step (x : List K) (n k j : ℕ) (hn : 2 ≤ n) (hk : k < x.length - 1) (hj : j < n) :
    arrFn (gridL x n).toArray (k * n + j + 1) - arrFn (gridL x n).toArray (k * n + j)
      = (x[k + 1]'(by omega) - x[k]'(by omega)) / (n : K) := by
  have hle : (k + 1) * n ≤ (x.length - 1) * n := Nat.mul_le_mul_right n (by omega)
  rw [Nat.succ_mul] at hle
  rw [arrFn_gridL x n _ (by omega), arrFn_gridL x n _ (by omega),
    oversampleLin_succ_sub _ k hn hj, arrFn_toArray x (k + 1) (by omega),
    arrFn_toArray x k (by omega)]

/-! ## 2. The scans select the knots

For each of the three strategies of `find_closest_element_indices_to_values`, the sample of the
grid selected for the reference position `x[k]` is the knot `k * n`: the knot is an element equal
to the query, hence the largest element `≤`, the smallest element `≥` and the nearest one. -/

theorem search_on_grid (x : List K) (n : ℕ) (s : String) (hx : x.Pairwise (· < ·)) (hn : 2 ≤ n)
    (hm : 2 ≤ x.length) (hs : s = "closest" ∨ s = "lower" ∨ s = "higher") :
    Search.find s true (gridL x n) x
      = .ok ((List.range x.length).map (fun k => ((k * n : ℕ) : ℤ))) :=
  TWV.search_on_grid x n hx hn (by omega) s hs

/-! ## 3. The fixed points are the knots

In the default mode of `integral_matching_reference_stretch` the fixed points are the selected
samples: here exactly the originals, sitting at the knots, and the reference indices are
`0, 1, …, m - 1`. -/

theorem fixedPoints_on_grid (x : List K) (n : ℕ) (s : String) (hx : x.Pairwise (· < ·))
    (hn : 2 ≤ n) (hm : 2 ≤ x.length) (hs : s = "closest" ∨ s = "lower" ∨ s = "higher") :
    fixedPoints (gridL x n) x none none s
      = .ok { inX := x, idxX := (List.range x.length).map (· * n),
              idxRef := List.range x.length } :=
  TWV.fixedPoints_on_grid x n hx hn (by omega) s hs

/-- a sample of the grid is one of the originals iff its index is a multiple of `n` (a knot) -/
theorem grid_mem_iff (x : List K) (n j : ℕ) (hx : x.Pairwise (· < ·)) (hn : 2 ≤ n)
    (hj : j < (gridL x n).length) :
    (gridL x n)[j] ∈ x ↔ ∃ k, k < x.length ∧ j = k * n :=
  gridL_mem_iff x n j hx hn hj

/-! ## 4. The property: every original interval keeps its average -/

/-- **C02**, reference rule `'rectangle'` (what `Weaver.integral_match` passes).  Whatever values
`z` the recreate strategy produced on the grid, matching against the original succeeds, returns a
series `z'` on the same grid, and over every original interval `k` the integral of `z'` under the
target rule is `y[k] * (x[k+1] - x[k])`. -/
theorem recreate_match_means (pw : K → K) (hp : PowLike pw) (x y z : List K) (n : ℕ)
    (s target : String) (tr : Rule)
    (hx : x.Pairwise (· < ·)) (hy : y.length = x.length) (hm : 2 ≤ x.length) (hn : 2 ≤ n)
    (hz : z.length = (x.length - 1) * n + 1)
    (hs : s = "closest" ∨ s = "lower" ∨ s = "higher")
    (htr : Rule.ofString? target = some tr) :
    ∃ z', matchRef pw (gridL x n) z x y none none s target "rectangle" = .ok (some z') ∧
      z'.length = (x.length - 1) * n + 1 ∧
      ∀ (k : ℕ) (hk : k < x.length - 1),
        winIntegral tr (arrFn (gridL x n).toArray) (arrFn z'.toArray) (k * n) ((k + 1) * n)
          = y[k]'(by omega) * (x[k + 1]'(by omega) - x[k]'(by omega)) := by
  obtain ⟨z', h1, h2, h3⟩ := matchRef_on_grid pw hp x y z n s target "rectangle" tr .rectangle
    hx hn hm hz hs htr rfl
  refine ⟨z', h1, h2, fun k hk => ?_⟩
  rw [h3 k (by omega)]
  simp only [integralAt]
  rw [arrFn_toArray y k (by omega), arrFn_toArray x (k + 1) (by omega),
    arrFn_toArray x k (by omega)]

/-- the same as a statement about **means**: the integral over original interval `k` divided by
the interval's length — which is positive, so the division is a genuine one — is the original
average `y[k]` -/
theorem recreate_match_mean_div (pw : K → K) (hp : PowLike pw) (x y z : List K) (n : ℕ)
    (s target : String) (tr : Rule)
    (hx : x.Pairwise (· < ·)) (hy : y.length = x.length) (hm : 2 ≤ x.length) (hn : 2 ≤ n)
    (hz : z.length = (x.length - 1) * n + 1)
    (hs : s = "closest" ∨ s = "lower" ∨ s = "higher")
    (htr : Rule.ofString? target = some tr) :
    ∃ z', matchRef pw (gridL x n) z x y none none s target "rectangle" = .ok (some z') ∧
      z'.length = (x.length - 1) * n + 1 ∧
      ∀ (k : ℕ) (hk : k < x.length - 1),
        0 < x[k + 1]'(by omega) - x[k]'(by omega) ∧
        arrFn (gridL x n).toArray ((k + 1) * n) - arrFn (gridL x n).toArray (k * n)
          = x[k + 1]'(by omega) - x[k]'(by omega) ∧
        winIntegral tr (arrFn (gridL x n).toArray) (arrFn z'.toArray) (k * n) ((k + 1) * n)
            / (x[k + 1]'(by omega) - x[k]'(by omega)) = y[k]'(by omega) := by
  obtain ⟨z', h1, h2, h3⟩ := recreate_match_means pw hp x y z n s target tr hx hy hm hn hz hs htr
  refine ⟨z', h1, h2, fun k hk => ?_⟩
  have hpos : 0 < x[k + 1]'(by omega) - x[k]'(by omega) :=
    sub_pos.mpr (List.pairwise_iff_getElem.mp hx k (k + 1) (by omega) (by omega) (by omega))
  refine ⟨hpos, ?_, ?_⟩
  · rw [arrFn_toArray _ _ (by rw [gridL_length]; exact knot_lt (by omega)),
      arrFn_toArray _ _ (by rw [gridL_length]; exact knot_lt (by omega)),
      gridL_knot x n (k + 1) hn (by omega), gridL_knot x n k hn (by omega)]
  · rw [h3 k hk, mul_div_assoc, div_self (ne_of_gt hpos), mul_one]

/-- variant with the reference rule `'trapezoid'` (not reachable through `Weaver.integral_match`,
which fixes `'rectangle'`, but through `integral_matching_reference_stretch` itself): the interval
then carries the trapezoid area of the reference -/
theorem recreate_match_means_trapezoid (pw : K → K) (hp : PowLike pw) (x y z : List K) (n : ℕ)
    (s target : String) (tr : Rule)
    (hx : x.Pairwise (· < ·)) (hy : y.length = x.length) (hm : 2 ≤ x.length) (hn : 2 ≤ n)
    (hz : z.length = (x.length - 1) * n + 1)
    (hs : s = "closest" ∨ s = "lower" ∨ s = "higher")
    (htr : Rule.ofString? target = some tr) :
    ∃ z', matchRef pw (gridL x n) z x y none none s target "trapezoid" = .ok (some z') ∧
      z'.length = (x.length - 1) * n + 1 ∧
      ∀ (k : ℕ) (hk : k < x.length - 1),
        winIntegral tr (arrFn (gridL x n).toArray) (arrFn z'.toArray) (k * n) ((k + 1) * n)
          = (y[k]'(by omega) + y[k + 1]'(by omega)) / 2
              * (x[k + 1]'(by omega) - x[k]'(by omega)) := by
  obtain ⟨z', h1, h2, h3⟩ := matchRef_on_grid pw hp x y z n s target "trapezoid" tr .trapezoid
    hx hn hm hz hs htr rfl
  refine ⟨z', h1, h2, fun k hk => ?_⟩
  rw [h3 k (by omega)]
  simp only [integralAt, two_eq]
  rw [arrFn_toArray y k (by omega), arrFn_toArray y (k + 1) (by omega),
    arrFn_toArray x (k + 1) (by omega), arrFn_toArray x k (by omega)]

/-- the instance the code runs: `K = ℝ`, stretch exponent `α > 0` -/
theorem recreate_match_means_real (α : ℝ) (hα : 0 < α) (x y z : List ℝ) (n : ℕ)
    (s target : String) (tr : Rule)
    (hx : x.Pairwise (· < ·)) (hy : y.length = x.length) (hm : 2 ≤ x.length) (hn : 2 ≤ n)
    (hz : z.length = (x.length - 1) * n + 1)
    (hs : s = "closest" ∨ s = "lower" ∨ s = "higher")
    (htr : Rule.ofString? target = some tr) :
    ∃ z', matchRef (fun t : ℝ => t ^ α) (gridL x n) z x y none none s target "rectangle"
        = .ok (some z') ∧
      z'.length = (x.length - 1) * n + 1 ∧
      ∀ (k : ℕ) (hk : k < x.length - 1),
        winIntegral tr (arrFn (gridL x n).toArray) (arrFn z'.toArray) (k * n) ((k + 1) * n)
          = y[k]'(by omega) * (x[k + 1]'(by omega) - x[k]'(by omega)) :=
  recreate_match_means _ (powLike_rpow α hα) x y z n s target tr hx hy hm hn hz hs htr

/-! ## 5. Rectangle target: block averaging undoes the pipeline -/

/-- with the rectangle target rule, `process.average` over blocks of `n` samples returns, for every
original interval, its average, and for every original sample, its abscissa.  (The `n` samples of
interval `k` are equally spaced with the non-zero step `(x[k+1] - x[k]) / n`, so their rectangle
integral is their plain sum times the step; the block has exactly `n` present entries, so the
divisor of `nanmean` is `n ≠ 0`.) -/
theorem block_average_rect (pw : K → K) (hp : PowLike pw) (x y z : List K) (n : ℕ) (s : String)
    (hx : x.Pairwise (· < ·)) (hy : y.length = x.length) (hm : 2 ≤ x.length) (hn : 2 ≤ n)
    (hz : z.length = (x.length - 1) * n + 1)
    (hs : s = "closest" ∨ s = "lower" ∨ s = "higher") :
    ∃ z', matchRef pw (gridL x n) z x y none none s "rectangle" "rectangle" = .ok (some z') ∧
      z'.length = (x.length - 1) * n + 1 ∧
      (∀ (k : ℕ) (hk : k < x.length - 1),
        Interval.rowCount z'.length n k = n ∧
        Interval.averageY (arrFn z'.toArray) z'.length n k = y[k]'(by omega)) ∧
      (∀ (k : ℕ) (hk : k < x.length),
        Interval.averageX (arrFn (gridL x n).toArray) n k = x[k]) := by
  obtain ⟨z', h1, h2, h3⟩ :=
    recreate_match_means pw hp x y z n s "rectangle" .rectangle hx hy hm hn hz hs rfl
  refine ⟨z', h1, h2, fun k hk => ⟨?_, ?_⟩, fun k hk => ?_⟩
  · have hle : (k + 1) * n ≤ (x.length - 1) * n := Nat.mul_le_mul_right n (by omega)
    rw [h2]
    exact C17.Interval.rowCount_full _ n k (by omega)
  · rw [h2]
    exact averageY_of_block x n k hx hn (by omega) _ _ (h3 k hk)
  · unfold Interval.averageX
    rw [arrFn_toArray _ _ (by rw [gridL_length]; exact knot_lt hk), gridL_knot x n k hn hk]

/-- the last block of the averaging holds the single final sample, which is a fixed point of the
match: it is whatever the recreate strategy left there (`z[L - 1]`; the piecewise-constant strategy
leaves `y[m - 1]`).  This is why the prose speaks of the original *intervals*: the last average has
no interval unless `append_one_sample` is applied first (section 6). -/
theorem block_average_last (pw : K → K) (hp : PowLike pw) (x y z : List K) (n : ℕ)
    (s target : String) (tr : Rule)
    (hx : x.Pairwise (· < ·)) (hm : 2 ≤ x.length) (hn : 2 ≤ n)
    (hz : z.length = (x.length - 1) * n + 1)
    (hs : s = "closest" ∨ s = "lower" ∨ s = "higher")
    (htr : Rule.ofString? target = some tr) (z' : List K)
    (h : matchRef pw (gridL x n) z x y none none s target "rectangle" = .ok (some z')) :
    (∀ k, k < x.length → arrFn z'.toArray (k * n) = arrFn z.toArray (k * n)) ∧
    Interval.rowCount ((x.length - 1) * n + 1) n (x.length - 1) = 1 ∧
    Interval.averageY (arrFn z'.toArray) ((x.length - 1) * n + 1) n (x.length - 1)
      = z[(x.length - 1) * n]'(by omega) := by
  have hk := matchRef_on_grid_knots pw hp x y z z' n s target "rectangle" tr .rectangle hx hn hm hz
    hs htr rfl h
  have hc : Interval.rowCount ((x.length - 1) * n + 1) n (x.length - 1) = 1 := by
    unfold Interval.rowCount; omega
  refine ⟨hk, hc, ?_⟩
  unfold Interval.averageY
  rw [hc]
  simp only [sumTo, win_apply, Nat.add_zero, zero_add, Nat.cast_one, div_one]
  rw [hk (x.length - 1) (by omega), arrFn_toArray z _ (by omega)]

/-! ## 6. After `append_one_sample`

`append_one_sample` gives the last average an interval of its own.  The statement holds verbatim
for the appended series because it is quantified over every `(x, y)`: the appended abscissae are
still strictly increasing.  Now the `m` intervals `k < m` of `(x', y')` are the `m` averages of the
input (`y'[k] = y[k]`, `x'[k] = x[k]` for `k < m`). -/

theorem with_appended_sample (pw : K → K) (hp : PowLike pw) (x y : List K) (periodic : Bool)
    (n : ℕ) (s target : String) (tr : Rule)
    (hx : x.Pairwise (· < ·)) (hy : y.length = x.length) (hm : 2 ≤ x.length) (hn : 2 ≤ n)
    (hs : s = "closest" ∨ s = "lower" ∨ s = "higher")
    (htr : Rule.ofString? target = some tr) :
    ∃ (x' y' : List K) (hx' : x'.length = x.length + 1) (hy' : y'.length = x.length + 1),
      Weaver.appendOne x y periodic = .ok (x', y') ∧ x'.Pairwise (· < ·) ∧
      (∀ (i : ℕ) (hi : i < x.length), x'[i] = x[i] ∧ y'[i] = y[i]'(by omega)) ∧
      ∀ z : List K, z.length = x.length * n + 1 →
        ∃ z', matchRef pw (gridL x' n) z x' y' none none s target "rectangle" = .ok (some z') ∧
          z'.length = x.length * n + 1 ∧
          ∀ (k : ℕ) (hk : k < x.length),
            winIntegral tr (arrFn (gridL x' n).toArray) (arrFn z'.toArray) (k * n) ((k + 1) * n)
              = y'[k] * (x'[k + 1] - x'[k]) := by
  obtain ⟨x', y', h0, hx', hy', hinc, hxo, hyo⟩ := appendOne_ok x y periodic hx hm hy
  refine ⟨x', y', hx', hy', h0, hinc, ?_, ?_⟩
  · intro i hi
    have h1 := hxo i hi
    have h2 := hyo i (by omega)
    rw [List.getElem?_eq_getElem (by omega)] at h1 h2
    exact ⟨Option.some.inj h1, Option.some.inj h2⟩
  · intro z hz
    have hL : (x'.length - 1) * n + 1 = x.length * n + 1 := by rw [hx', Nat.add_sub_cancel]
    obtain ⟨z', h1, h2, h3⟩ := recreate_match_means pw hp x' y' z n s target tr hinc
      (by omega) (by omega) hn (by rw [hL]; exact hz) hs htr
    exact ⟨z', h1, by rw [h2, hL], fun k hk => h3 k (by omega)⟩

/-! ## 7. The `Weaver` state machine

For a `Weaver` whose reference is its working series (as after construction), running
`recreate_from_average` and then `integral_match(…, reference rule 'rectangle')` succeeds, leaves
the reference alone, and the final working series satisfies the statement of theorem 4 with
respect to the series the object started from. -/

/-- the six strategies: the five window strategies of the model … -/
theorem weaver_pipeline (pw : K → K) (hp : PowLike pw) (s : Weaver.State K)
    (strategy : String) (hst : Rfa.Strategy.ofString? strategy ≠ none) (pw' : K → K) (n : ℤ)
    (aL aR bL bR : List ℕ) (sname target : String) (tr : Rule)
    (hrx : s.rx = s.x) (hry : s.ry = s.y)
    (hx : s.x.Pairwise (· < ·)) (hy : s.y.length = s.x.length) (hm : 2 ≤ s.x.length)
    (hn : 2 ≤ n) (hs : sname = "closest" ∨ sname = "lower" ∨ sname = "higher")
    (htr : Rule.ofString? target = some tr) :
    ∃ s1 s2 : Weaver.State K,
      Weaver.step s (.recreate strategy pw' n aL aR bL bR) = Weaver.ok s1 ∧
      Weaver.step s1 (.integralMatch pw none none sname target "rectangle") = Weaver.ok s2 ∧
      Weaver.runOps s [.recreate strategy pw' n aL aR bL bR,
        .integralMatch pw none none sname target "rectangle"] = Weaver.ok s2 ∧
      s2.x = gridL s.x n.toNat ∧ s2.rx = s.x ∧ s2.ry = s.y ∧
      s2.y.length = (s.x.length - 1) * n.toNat + 1 ∧
      ∀ (k : ℕ) (hk : k < s.x.length - 1),
        winIntegral tr (arrFn s2.x.toArray) (arrFn s2.y.toArray) (k * n.toNat) ((k + 1) * n.toNat)
          = s.y[k]'(by omega) * (s.x[k + 1]'(by omega) - s.x[k]'(by omega)) := by
  obtain ⟨stt, hstt⟩ := Option.ne_none_iff_exists'.mp hst
  obtain ⟨z, hz, h1⟩ := step_recreate s strategy stt hstt pw' n hn aL aR bL bR hm
  obtain ⟨z', g1, g2, g3⟩ := recreate_match_means pw hp s.x s.y z n.toNat sname target tr hx hy hm
    (by omega) hz hs htr
  have h2 := step_integralMatch { s with x := gridL s.x n.toNat, y := z } pw none none sname
    target "rectangle" z' (by simpa [hrx, hry] using g1)
  refine ⟨_, _, h1, h2, ?_, rfl, hrx, hry, g2, g3⟩
  simp only [Weaver.runOps, h1, h2, Weaver.ok]

/-- … and the sixth one (cubic spline / any sampling function): the recreated values `ys` are
data carried by the operation -/
theorem weaver_pipeline_ext (pw : K → K) (hp : PowLike pw) (s : Weaver.State K)
    (n : ℤ) (ys : List K) (sname target : String) (tr : Rule)
    (hrx : s.rx = s.x) (hry : s.ry = s.y)
    (hx : s.x.Pairwise (· < ·)) (hy : s.y.length = s.x.length) (hm : 2 ≤ s.x.length)
    (hn : 2 ≤ n) (hys : ys.length = (s.x.length - 1) * n.toNat + 1)
    (hs : sname = "closest" ∨ sname = "lower" ∨ sname = "higher")
    (htr : Rule.ofString? target = some tr) :
    ∃ s1 s2 : Weaver.State K,
      Weaver.step s (.recreateExt n ys) = Weaver.ok s1 ∧
      Weaver.step s1 (.integralMatch pw none none sname target "rectangle") = Weaver.ok s2 ∧
      Weaver.runOps s [.recreateExt n ys,
        .integralMatch pw none none sname target "rectangle"] = Weaver.ok s2 ∧
      s2.x = gridL s.x n.toNat ∧ s2.rx = s.x ∧ s2.ry = s.y ∧
      s2.y.length = (s.x.length - 1) * n.toNat + 1 ∧
      ∀ (k : ℕ) (hk : k < s.x.length - 1),
        winIntegral tr (arrFn s2.x.toArray) (arrFn s2.y.toArray) (k * n.toNat) ((k + 1) * n.toNat)
          = s.y[k]'(by omega) * (s.x[k + 1]'(by omega) - s.x[k]'(by omega)) := by
  have h1 := step_recreateExt s n hn ys hm
  obtain ⟨z', g1, g2, g3⟩ := recreate_match_means pw hp s.x s.y ys n.toNat sname target tr hx hy
    hm (by omega) hys hs htr
  have h2 := step_integralMatch { s with x := gridL s.x n.toNat, y := ys } pw none none sname
    target "rectangle" z' (by simpa [hrx, hry] using g1)
  refine ⟨_, _, h1, h2, ?_, rfl, hrx, hry, g2, g3⟩
  simp only [Weaver.runOps, h1, h2, Weaver.ok]

/-- a freshly constructed `Weaver(x, y)` satisfies the hypotheses on the reference -/
theorem init_reference (x y : List K) (s : Weaver.State K) (h : Weaver.init (some x) y = .ok s) :
    s.x = x ∧ s.y = y ∧ s.rx = s.x ∧ s.ry = s.y := by
  simp only [Weaver.init] at h
  split at h
  · cases h
  · cases h; exact ⟨rfl, rfl, rfl, rfl⟩

/-! ## Non-vacuity: a concrete instance over `ℚ`

`x = [0, 1, 2, 3]`, averages `y = [2, 5, 3, 4]`, `n = 2`, and arbitrary recreated values
`z = [1, 2, 3, 4, 5, 6, 7]` on the grid `[0, 1/2, 1, 3/2, 2, 5/2, 3]`. -/

section examples

private def exX : List ℚ := [0, 1, 2, 3]
private def exY : List ℚ := [2, 5, 3, 4]
private def exZ : List ℚ := [1, 2, 3, 4, 5, 6, 7]
private def exG : List ℚ := [0, 1/2, 1, 3/2, 2, 5/2, 3]

private theorem exG_eq : gridL exX 2 = exG := by decide +kernel

/-- the hypotheses of `recreate_match_means` hold for the instance -/
example : PowLike (fun t : ℚ => powN t 1) ∧ exX.Pairwise (· < ·) ∧ exY.length = exX.length ∧
    2 ≤ exX.length ∧ exZ.length = (exX.length - 1) * 2 + 1 ∧
    Rule.ofString? "rectangle" = some .rectangle ∧ Rule.ofString? "trapezoid" = some .trapezoid :=
  ⟨powLike_powN 1 le_rfl, by decide +kernel, by decide +kernel, by decide +kernel,
    by decide +kernel, by decide +kernel, by decide +kernel⟩

/-- the scans return the knots `0, 2, 4, 6` on it (evaluated, not deduced) -/
example : Search.find "closest" true exG exX = .ok [0, 2, 4, 6] ∧
    Search.find "lower" true exG exX = .ok [0, 2, 4, 6] ∧
    Search.find "higher" true exG exX = .ok [0, 2, 4, 6] := by
  refine ⟨?_, ?_, ?_⟩ <;> decide +kernel

private theorem exFp_ok (s : String) (hs : s = "closest" ∨ s = "lower" ∨ s = "higher") :
    fixedPoints exG exX none none s
      = .ok { inX := exX, idxX := [0, 2, 4, 6], idxRef := [0, 1, 2, 3] } := by
  rw [← exG_eq]
  exact fixedPoints_on_grid exX 2 s (by decide +kernel) le_rfl (by decide +kernel) hs

/-- the model's result for the rectangle target: only the interior sample of each interval moves,
`[1, 3, 3, 7, 5, 1, 7]` -/
example : matchRef (fun t : ℚ => powN t 1) (gridL exX 2) exZ exX exY none none "closest"
    "rectangle" "rectangle" = .ok (some [1, 3, 3, 7, 5, 1, 7]) := by
  rw [exG_eq, matchRef_eq _ _ _ _ _ _ _ _ _ _ _ .rectangle .rectangle (exFp_ok _ (Or.inl rfl))
    (by decide +kernel) (by decide +kernel)]
  decide +kernel

/-- its interval integrals are `y[k] * (x[k+1] - x[k]) = 2, 5, 3` … -/
example : [0, 1, 2].map (fun k => winIntegral .rectangle (arrFn exG.toArray)
    (arrFn ([1, 3, 3, 7, 5, 1, 7] : List ℚ).toArray) (k * 2) ((k + 1) * 2)) = [2, 5, 3] := by
  decide +kernel

/-- … and block averaging over `n = 2` samples returns the original averages and abscissae -/
example : [0, 1, 2].map (Interval.averageY (arrFn ([1, 3, 3, 7, 5, 1, 7] : List ℚ).toArray) 7 2)
      = [2, 5, 3] ∧
    [0, 1, 2, 3].map (Interval.averageX (arrFn exG.toArray) 2) = exX := by
  decide +kernel

/-- the trapezoid target on the same input: `[1, 2, 3, 6, 5, 0, 7]`, with the same interval
integrals under the trapezoid rule -/
example : matchRef (fun t : ℚ => powN t 1) (gridL exX 2) exZ exX exY none none "closest"
    "trapezoid" "rectangle" = .ok (some [1, 2, 3, 6, 5, 0, 7]) ∧
    [0, 1, 2].map (fun k => winIntegral .trapezoid (arrFn exG.toArray)
      (arrFn ([1, 2, 3, 6, 5, 0, 7] : List ℚ).toArray) (k * 2) ((k + 1) * 2)) = [2, 5, 3] := by
  constructor
  · rw [exG_eq, matchRef_eq _ _ _ _ _ _ _ _ _ _ _ .trapezoid .rectangle (exFp_ok _ (Or.inl rfl))
      (by decide +kernel) (by decide +kernel)]
    decide +kernel
  · decide +kernel

/-- the `Weaver` pipeline applies to the freshly constructed object -/
example : ∃ s : Weaver.State ℚ, Weaver.init (some exX) exY = .ok s ∧ s.rx = s.x ∧ s.ry = s.y ∧
    s.x.Pairwise (· < ·) ∧ s.y.length = s.x.length ∧ 2 ≤ s.x.length :=
  ⟨_, rfl, rfl, rfl, by decide +kernel, by decide +kernel, by decide +kernel⟩

/-- … and `weaver_pipeline` gives the run of the two public methods on it (here: the
piecewise-constant strategy, default search strategy, trapezoid target) -/
example : ∃ s2 : Weaver.State ℚ,
    Weaver.runOps
      { x := exX, y := exY, rx := exX, ry := exY, ox := exX, oy := exY, callerX := exX,
        callerY := exY }
      [.recreate "pc" (fun t => powN t 1) 2 [] [] [] [],
       .integralMatch (fun t => powN t 1) none none "closest" "trapezoid" "rectangle"]
      = Weaver.ok s2 ∧ s2.x = gridL exX 2 ∧ s2.y.length = 7 ∧
    ∀ (k : ℕ) (hk : k < 3),
      winIntegral .trapezoid (arrFn s2.x.toArray) (arrFn s2.y.toArray) (k * 2) ((k + 1) * 2)
        = exY[k]'(by simp [exY]; omega) * (exX[k + 1]'(by simp [exX]; omega)
            - exX[k]'(by simp [exX]; omega)) := by
  obtain ⟨_, s2, _, _, h, hx2, _, _, hl, hint⟩ := weaver_pipeline (fun t : ℚ => powN t 1)
    (powLike_powN 1 le_rfl)
    { x := exX, y := exY, rx := exX, ry := exY, ox := exX, oy := exY, callerX := exX,
      callerY := exY }
    "pc" (by decide) (fun t => powN t 1) 2 [] [] [] [] "closest" "trapezoid" .trapezoid rfl rfl
    (by decide +kernel) (by decide +kernel) (by decide +kernel) le_rfl (Or.inl rfl) rfl
  exact ⟨s2, h, hx2, hl, fun k hk => hint k hk⟩

end examples

end TWV.C02
