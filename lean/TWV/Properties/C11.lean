import TWV.Lemmas.Process

/-!
# C11 — truncation and slicing select exactly the requested range

"Truncating to [left, right] (absolute values or ratios of the span) keeps the smallest contiguous
run of samples that covers the requested range - from the last sample <= left (or the first sample)
to the first sample >= right (or the last sample) - with x and y cut identically and, in the Weaver,
the reference cut with the same bounds.  Slicing by value returns precisely the samples with
start <= x <= stop, where an omitted bound means the respective end of the series; slicing and
truncating by index agree with Python slice semantics."

Model: `TWV/Model/Process.lean` (`truncateBounds`), `TWV/Model/Weaver.lean` (`truncateS`, `pySlice`,
`sliceStep`, `sliceByIndex`, `sliceByValue`, the steps `.truncV`, `.truncI`).
Helper lemmas: `TWV/Lemmas/Process.lean`; the two scans are those of C10
(`C10.lowerSpec true`, `C10.higherSpec true`: the `fill_not_valid=True` variants).

Throughout, `l'` / `r'` are the bounds after the optional ratio conversion
`v * (x[-1] - x[0]) + x[0]`; the left index is `i0 = (C10.lowerSpec true x l').toNat`, the last kept
index is `j0 = (C10.higherSpec true x r').toNat`, and the result is `x[i0 : j0 + 1]`.
-/

set_option linter.unusedSectionVars false

namespace TWV.C11
open TWV TWV.Process TWV.Weaver

variable {K : Type} [Field K] [LinearOrder K] [IsStrictOrderedRing K]

/-! ## `truncate`: the slice bounds -/

/-- for a valid request (`l' < r'` after conversion) the bounds are those of the two scans -/
theorem truncateBounds_spec (x : List K) (l r : K) (lr rr : Bool) (hx : x.Pairwise (· < ·))
    (hx0 : x ≠ []) (l' r' : K)
    (hl : l' = if lr then l * (x.getLastD 0 - x.headD 0) + x.headD 0 else l)
    (hr : r' = if rr then r * (x.getLastD 0 - x.headD 0) + x.headD 0 else r)
    (h : l' < r') :
    truncateBounds x l r lr rr
      = .ok ((C10.lowerSpec true x l').toNat, (C10.higherSpec true x r').toNat + 1) := by
  subst hl hr
  exact Process.truncateBounds_spec x l r lr rr hx hx0 h

/-- an empty or inverted request is rejected with `ValueError` -/
theorem truncateBounds_inverted (x : List K) (l r : K) (lr rr : Bool) (l' r' : K)
    (hl : l' = if lr then l * (x.getLastD 0 - x.headD 0) + x.headD 0 else l)
    (hr : r' = if rr then r * (x.getLastD 0 - x.headD 0) + x.headD 0 else r)
    (h : r' ≤ l') :
    truncateBounds x l r lr rr = .error .valueError := by
  subst hl hr
  unfold truncateBounds
  simp only [bind, Except.bind]
  rw [if_pos h]; rfl

/-- the left index is the last sample `≤ left`, or the first sample if there is none -/
theorem truncate_left_char (x : List K) (hx : x.Pairwise (· < ·)) (l' : K) :
    (∃ h : (C10.lowerSpec true x l').toNat < x.length,
        x[(C10.lowerSpec true x l').toNat] ≤ l' ∧
        ∀ j (hj : j < x.length), x[j] ≤ l' → j ≤ (C10.lowerSpec true x l').toNat) ∨
    ((∀ a ∈ x, l' < a) ∧ (C10.lowerSpec true x l').toNat = 0) :=
  leftIdx_char x hx l'

/-- the last kept index is the first sample `≥ right`, or the last sample if there is none -/
theorem truncate_right_char (x : List K) (hx : x.Pairwise (· < ·)) (r' : K) :
    (∃ h : (C10.higherSpec true x r').toNat < x.length,
        r' ≤ x[(C10.higherSpec true x r').toNat] ∧
        ∀ j (hj : j < x.length), r' ≤ x[j] → (C10.higherSpec true x r').toNat ≤ j) ∨
    ((∀ a ∈ x, a < r') ∧ (C10.higherSpec true x r').toNat = x.length - 1) :=
  rightIdx_char x hx r'

/-- at least one sample is kept, and both indices are indices of `x` -/
theorem truncate_nonempty (x : List K) (hx0 : x ≠ []) (l' r' : K) (h : l' < r') :
    (C10.lowerSpec true x l').toNat ≤ (C10.higherSpec true x r').toNat ∧
      (C10.higherSpec true x r').toNat < x.length :=
  ⟨leftIdx_le_rightIdx x hx0 l' r' h, rightIdx_lt x hx0 r'⟩

/-- the kept run covers the requested range: it starts at or before `left` (or at the first
sample), ends at or after `right` (or at the last sample), and contains every sample of
`[left, right]` -/
theorem truncate_covers (x : List K) (hx : x.Pairwise (· < ·)) (hx0 : x ≠ []) (l' r' : K) :
    (x[(C10.lowerSpec true x l').toNat]'(leftIdx_lt x hx0 l') ≤ l' ∨
        (C10.lowerSpec true x l').toNat = 0) ∧
    (r' ≤ x[(C10.higherSpec true x r').toNat]'(rightIdx_lt x hx0 r') ∨
        (C10.higherSpec true x r').toNat = x.length - 1) ∧
    ∀ k (hk : k < x.length), l' ≤ x[k] → x[k] ≤ r' →
      (C10.lowerSpec true x l').toNat ≤ k ∧ k ≤ (C10.higherSpec true x r').toNat := by
  have hL := leftIdx_char x hx l'
  have hR := rightIdx_char x hx r'
  refine ⟨?_, ?_, ?_⟩
  · rcases hL with ⟨_, h1, _⟩ | ⟨_, h0⟩
    · exact Or.inl h1
    · exact Or.inr h0
  · rcases hR with ⟨_, h1, _⟩ | ⟨_, h0⟩
    · exact Or.inl h1
    · exact Or.inr h0
  · intro k hk hlk hkr
    constructor
    · rcases hL with ⟨hi, h1, _⟩ | ⟨_, h0⟩
      · by_contra hc
        have : x[k] < x[leftIdx x l'] := Search.getElem_lt_of_lt hx hi (by unfold leftIdx; omega)
        exact absurd (lt_of_lt_of_le this h1) (not_lt.mpr hlk)
      · unfold leftIdx at h0; omega
    · rcases hR with ⟨hi, h1, _⟩ | ⟨_, h0⟩
      · by_contra hc
        have : x[rightIdx x r'] < x[k] := Search.getElem_lt_of_lt hx hk (by unfold rightIdx; omega)
        exact absurd (lt_of_le_of_lt h1 this) (not_lt.mpr hkr)
      · unfold rightIdx at h0; omega

/-- the kept run is the smallest contiguous run covering the requested range: every index range
`[a, b]` that starts at or before `left` (or at the first sample) and ends at or after `right`
(or at the last sample) contains `[i0, j0]` -/
theorem truncate_minimal (x : List K) (hx : x.Pairwise (· < ·)) (l' r' : K) (a b : ℕ)
    (hab : a ≤ b) (hb : b < x.length)
    (ha : x[a] ≤ l' ∨ a = 0) (hb' : r' ≤ x[b] ∨ b = x.length - 1) :
    a ≤ (C10.lowerSpec true x l').toNat ∧ (C10.higherSpec true x r').toNat ≤ b := by
  have hx0 : x ≠ [] := by rintro rfl; simp at hb
  constructor
  · rcases ha with ha | ha
    · rcases leftIdx_char x hx l' with ⟨_, _, h2⟩ | ⟨h1, _⟩
      · exact h2 a (by omega) ha
      · exact absurd ha (not_le.mpr (h1 _ (List.getElem_mem _)))
    · omega
  · rcases hb' with hb' | hb'
    · rcases rightIdx_char x hx r' with ⟨_, _, h2⟩ | ⟨h1, _⟩
      · exact h2 b hb hb'
      · exact absurd hb' (not_le.mpr (h1 _ (List.getElem_mem _)))
    · have := rightIdx_lt x hx0 r'
      unfold rightIdx at this
      omega

/-! ## `truncate`: `x` and `y` are cut identically; the Weaver cuts the reference alike -/

/-- one pair of bounds, computed from `x` alone, cuts both `x` and `y` -/
theorem truncateS_same_cut_general (x y : List K) (l r : K) (lr rr : Bool) :
    truncateS x y l r lr rr
      = (truncateBounds x l r lr rr).map
          (fun p => ((x.drop p.1).take (p.2 - p.1), (y.drop p.1).take (p.2 - p.1))) :=
  truncateS_eq_map x y l r lr rr

/-- `x[i0 : j0 + 1]`, `y[i0 : j0 + 1]` -/
theorem truncateS_same_cut (x y : List K) (l r : K) (lr rr : Bool) (hx : x.Pairwise (· < ·))
    (hx0 : x ≠ []) (l' r' : K)
    (hl : l' = if lr then l * (x.getLastD 0 - x.headD 0) + x.headD 0 else l)
    (hr : r' = if rr then r * (x.getLastD 0 - x.headD 0) + x.headD 0 else r)
    (h : l' < r') :
    truncateS x y l r lr rr
      = .ok ((x.drop (C10.lowerSpec true x l').toNat).take
                ((C10.higherSpec true x r').toNat + 1 - (C10.lowerSpec true x l').toNat),
             (y.drop (C10.lowerSpec true x l').toNat).take
                ((C10.higherSpec true x r').toNat + 1 - (C10.lowerSpec true x l').toNat)) := by
  rw [truncateS_eq_map, truncateBounds_spec x l r lr rr hx hx0 l' r' hl hr h]
  rfl

/-- element `k` of the truncated series is sample `i0 + k`, and there are `j0 + 1 - i0 ≥ 1` of them
(for `y` of the same length as `x`) -/
theorem truncateS_elements (x y : List K) (hx0 : x ≠ []) (hy : y.length = x.length) (l' r' : K)
    (h : l' < r') :
    let i0 := (C10.lowerSpec true x l').toNat
    let j0 := (C10.higherSpec true x r').toNat
    ((x.drop i0).take (j0 + 1 - i0)).length = j0 + 1 - i0 ∧
    ((y.drop i0).take (j0 + 1 - i0)).length = j0 + 1 - i0 ∧ 1 ≤ j0 + 1 - i0 ∧
    ∀ k, k < j0 + 1 - i0 →
      ((x.drop i0).take (j0 + 1 - i0))[k]? = x[i0 + k]? ∧
      ((y.drop i0).take (j0 + 1 - i0))[k]? = y[i0 + k]? := by
  intro i0 j0
  have h1 : i0 ≤ j0 := leftIdx_le_rightIdx x hx0 l' r' h
  have h2 : j0 < x.length := rightIdx_lt x hx0 r'
  refine ⟨length_drop_take x i0 (j0 + 1) (by omega), length_drop_take y i0 (j0 + 1) (by omega),
    by omega, ?_⟩
  intro k hk
  exact ⟨getElem?_drop_take x i0 (j0 + 1) k hk, getElem?_drop_take y i0 (j0 + 1) k hk⟩

/-- `Weaver.truncate_by_value`: on success the working pair and the reference pair are both the
result of `truncate` with the same four arguments (absolute bounds: the same values; ratio bounds:
the same ratios, each of its own span), the original pair is untouched -/
theorem truncV_reference_same_bounds (s : State K) (l r : K) (lr rr : Bool)
    (hok : (step s (.truncV l r lr rr)).err = none) :
    truncateS s.x s.y l r lr rr
        = .ok ((step s (.truncV l r lr rr)).state.x, (step s (.truncV l r lr rr)).state.y) ∧
    truncateS s.rx s.ry l r lr rr
        = .ok ((step s (.truncV l r lr rr)).state.rx, (step s (.truncV l r lr rr)).state.ry) ∧
    (step s (.truncV l r lr rr)).state.ox = s.ox ∧ (step s (.truncV l r lr rr)).state.oy = s.oy := by
  rcases step_truncV s l r lr rr with ⟨x, y, rx, ry, h1, h2, h3⟩ | ⟨e, _, h3⟩
  · rw [h3, h1, h2]; exact ⟨rfl, rfl, rfl, rfl⟩
  · rw [h3] at hok; simp [fail] at hok

/-- a rejected `truncate_by_value` (either of the two truncations fails) assigns nothing -/
theorem truncV_failure_untouched (s : State K) (l r : K) (lr rr : Bool) (e : Err)
    (herr : (step s (.truncV l r lr rr)).err = some e) :
    (step s (.truncV l r lr rr)).state = s := by
  rcases step_truncV s l r lr rr with ⟨x, y, rx, ry, _, _, h3⟩ | ⟨e, _, h3⟩
  · rw [h3] at herr; simp [ok] at herr
  · rw [h3]; rfl

/-! ## Python slices -/

/-- `a[start:stop]` for `0 ≤ start`, `stop ≤ len(a)`: the elements `a[start + k]`,
`stop - start` of them; a negative `stop ≥ -len(a)` means `len(a) + stop`; a `stop` beyond the end
is clamped -/
theorem pySlice_spec (a : List K) (start : ℕ) :
    (∀ stop : ℕ, stop ≤ a.length →
        pySlice a (start : ℤ) (stop : ℤ) = (a.drop start).take (stop - start) ∧
        (pySlice a (start : ℤ) (stop : ℤ)).length = stop - start ∧
        ∀ k, k < stop - start → (pySlice a (start : ℤ) (stop : ℤ))[k]? = a[start + k]?) ∧
    (∀ stop : ℤ, stop < 0 → -stop ≤ a.length →
        pySlice a (start : ℤ) stop = pySlice a (start : ℤ) (((a.length : ℤ) + stop).toNat : ℤ) ∧
        ((a.length : ℤ) + stop).toNat ≤ a.length) ∧
    (∀ stop : ℕ, a.length ≤ stop → pySlice a (start : ℤ) (stop : ℤ) = a.drop start) := by
  refine ⟨?_, ?_, ?_⟩
  · intro stop h
    rw [pySlice_nat a start stop h]
    exact ⟨rfl, length_drop_take a start stop h, fun k hk => getElem?_drop_take a start stop k hk⟩
  · intro stop h h2
    have hle : ((a.length : ℤ) + stop).toNat ≤ a.length := by omega
    rw [pySlice_neg a start stop h h2, pySlice_nat a start _ hle]
    exact ⟨rfl, hle⟩
  · intro stop h
    exact pySlice_clamp a start stop h

/-- `a[start:stop:step]` for `step ≥ 1`, `stop ≤ len(a)`: index `k` is used exactly when
`start + k * step < stop`, there are `⌈(stop - start) / step⌉` of them, and element `k` is
`a[start + k * step]` -/
theorem sliceStep_spec (a : List K) (start stop step : ℕ) (hs : 1 ≤ step) (h : stop ≤ a.length) :
    (sliceStep a start stop step).length = (stop - start + step - 1) / step ∧
    (∀ k, k < (stop - start + step - 1) / step ↔ k * step < stop - start) ∧
    ∀ k, k < (stop - start + step - 1) / step →
      start + k * step < stop ∧ (sliceStep a start stop step)[k]? = a[start + k * step]? := by
  rw [sliceStep_eq_map a start stop step hs h]
  refine ⟨by simp, fun k => ceil_lt_iff _ _ k hs, ?_⟩
  intro k hk
  have hlt : k * step < stop - start := (ceil_lt_iff _ _ k hs).mp hk
  have hi : start + k * step < stop := by omega
  refine ⟨hi, ?_⟩
  simp [hk, List.getD_eq_getElem?_getD, (by omega : start + k * step < a.length)]

/-- with step 1 the stepping slice is the plain slice -/
theorem sliceStep_one_eq (a : List K) (start stop : ℕ) (h : stop ≤ a.length) :
    sliceStep a start stop 1 = (a.drop start).take (stop - start) :=
  sliceStep_one a start stop h

/-- `truncate_by_index(start, stop)`: all four working / reference series become
`series[start:stop]`; `start < 0` and `stop > len(x)` are rejected with `ValueError` and nothing is
assigned -/
theorem truncI_spec (s : State K) (start : ℤ) (stop : Option ℤ) :
    (0 ≤ start → stop.getD s.x.length ≤ s.x.length →
      step s (.truncI start stop)
        = ok { s with x := pySlice s.x start (stop.getD s.x.length),
                      y := pySlice s.y start (stop.getD s.x.length),
                      rx := pySlice s.rx start (stop.getD s.x.length),
                      ry := pySlice s.ry start (stop.getD s.x.length) }) ∧
    (start < 0 → step s (.truncI start stop) = fail s .valueError) ∧
    (∀ b : ℤ, stop = some b → (s.x.length : ℤ) < b →
      step s (.truncI start stop) = fail s .valueError) := by
  refine ⟨step_truncI_ok s start stop, step_truncI_neg_start s start stop, ?_⟩
  rintro b rfl hb
  exact step_truncI_stop_gt s start b hb

/-- `slice_by_index(start, stop, step)` is `(x[start:stop:step], y[start:stop:step])` (a negative
`stop` counts from the end);
`start < 0` and `stop > len(x)` are rejected with `ValueError` -/
theorem sliceByIndex_spec (s : State K) (start stop step : ℕ) (hs : 1 ≤ step)
    (h : stop ≤ s.x.length) :
    sliceByIndex s (start : ℤ) (some (stop : ℤ)) step
        = .ok (sliceStep s.x start stop step, sliceStep s.y start stop step) ∧
    sliceByIndex s (start : ℤ) none step
        = .ok (sliceStep s.x start s.x.length step, sliceStep s.y start s.x.length step) ∧
    (∀ b : ℤ, b < 0 → -b ≤ s.x.length →
      sliceByIndex s (start : ℤ) (some b) step
        = .ok (sliceStep s.x start ((s.x.length : ℤ) + b).toNat step,
               sliceStep s.y start ((s.x.length : ℤ) + b).toNat step)) ∧
    (∀ (a : ℤ) (b : Option ℤ), a < 0 → sliceByIndex s a b step = .error .valueError) ∧
    (∀ (a b : ℤ), (s.x.length : ℤ) < b → sliceByIndex s a (some b) step = .error .valueError) :=
  ⟨sliceByIndex_nat s start stop step h hs, sliceByIndex_none s start step hs,
    fun b hb hb2 => sliceByIndex_neg_stop s start b step hs hb hb2,
    fun a b ha => sliceByIndex_neg_start s a b step ha,
    fun a b hb => sliceByIndex_stop_gt s a b step hb⟩

/-! ## `slice_by_value` -/

/-- slicing by value returns precisely the samples with `start ≤ x ≤ stop` (and the `y` values at
the same positions); an omitted `start` is the first sample, an omitted `stop` the last one -/
theorem sliceByValue_spec (s : State K) (hx : s.x.Pairwise (· < ·)) (hy : s.y.length = s.x.length)
    (start stop : Option K) (i j : ℕ) (hij : i ≤ j) (hj : j < s.x.length)
    (hstart : start = some (s.x[i]) ∨ (start = none ∧ i = 0))
    (hstop : stop = some (s.x[j]) ∨ (stop = none ∧ j = s.x.length - 1)) :
    sliceByValue s start stop 1
        = .ok (s.x.filter (fun v => decide (s.x[i] ≤ v ∧ v ≤ s.x[j])),
               (s.y.drop i).take (j + 1 - i)) ∧
    s.x.filter (fun v => decide (s.x[i] ≤ v ∧ v ≤ s.x[j])) = (s.x.drop i).take (j + 1 - i) := by
  have hf := filter_between s.x hx i j hij hj
  refine ⟨?_, hf⟩
  have hidx : sliceByValue s start stop 1 = sliceByIndex s (i : ℤ) (some ((j + 1 : ℕ) : ℤ)) 1 := by
    rcases hstart with rfl | ⟨rfl, rfl⟩ <;> rcases hstop with rfl | ⟨rfl, hjl⟩
    · exact sliceByValue_some_some s hx i j 1 (by omega) hj
    · rw [sliceByValue_some_none s hx i 1 (by omega)]
      congr 3; omega
    · exact sliceByValue_none_some s hx j 1 hj
    · rw [sliceByValue_none_none s 1]
      congr 3; omega
  rw [hidx, sliceByIndex_nat s i (j + 1) 1 (by omega) le_rfl, hf,
    sliceStep_one s.x i (j + 1) (by omega), sliceStep_one s.y i (j + 1) (by omega)]

/-- a bound that is not a sample is rejected with `ValueError` -/
theorem sliceByValue_absent (s : State K) (v : K) (hv : v ∉ s.x) (step : ℕ) :
    (∀ stop, sliceByValue s (some v) stop step = .error .valueError) ∧
    (∀ start, (start = none ∨ ∃ a ∈ s.x, start = some a) →
        sliceByValue s start (some v) step = .error .valueError) :=
  ⟨fun stop => sliceByValue_start_absent s v stop step hv,
    fun start hs => sliceByValue_stop_absent s start v step hs hv⟩

/-- the first sample is a valid start (index `0` is not mistaken for "not found") -/
theorem sliceByValue_first (s : State K) (hx : s.x.Pairwise (· < ·)) (hy : s.y.length = s.x.length)
    (h0 : 0 < s.x.length) : sliceByValue s (some (s.x[0])) none 1 = .ok (s.x, s.y) := by
  have := (sliceByValue_spec s hx hy (some s.x[0]) none 0 (s.x.length - 1) (by omega) (by omega)
    (Or.inl rfl) (Or.inr ⟨rfl, rfl⟩))
  rw [this.1, this.2]
  have e : s.x.length - 1 + 1 - 0 = s.x.length := by omega
  rw [e]
  congr 2
  · simp
  · simp [← hy]

/-! ## Non-vacuity (ℚ): `x = 0, 1, 2, 4`, `y = 10, 11, 12, 14` -/

section Examples

private def xs : List ℚ := [0, 1, 2, 4]
private def ys : List ℚ := [10, 11, 12, 14]
private def st : State ℚ :=
  { x := xs, y := ys, rx := xs, ry := ys, ox := xs, oy := ys, callerX := xs, callerY := ys }

example : xs.Pairwise (· < ·) ∧ xs ≠ [] ∧ ys.length = xs.length :=
  ⟨by norm_num [xs], by simp [xs], rfl⟩

/-- `truncate(x, y, 1/2, 3/2)`: from the last sample `≤ 1/2` (index 0) to the first `≥ 3/2`
(index 2) -/
example : truncateS xs ys (1/2) (3/2) false false = .ok ([0, 1, 2], [10, 11, 12]) := by
  decide +kernel

/-- ratios of the span `4`: `[1/4, 1/2]` is `[1, 2]`: the samples `1, 2` -/
example : truncateS xs ys (1/4) (1/2) true true = .ok ([1, 2], [11, 12]) := by
  decide +kernel

/-- bounds outside the data: the whole series -/
example : truncateS xs ys (-3) 9 false false = .ok (xs, ys) := by decide +kernel

example : truncateS xs ys 2 2 false false = .error .valueError := by decide +kernel

/-- the hypotheses of `truncateBounds_spec` hold for the first instance -/
example : truncateBounds xs (1/2) (3/2) false false
    = .ok ((C10.lowerSpec true xs (1/2)).toNat, (C10.higherSpec true xs (3/2)).toNat + 1) :=
  truncateBounds_spec xs (1/2) (3/2) false false (by norm_num [xs]) (by simp [xs]) _ _ rfl rfl
    (by norm_num)

example : sliceByValue st (some 1) (some 2) 1 = .ok ([1, 2], [11, 12]) := by decide +kernel
example : sliceByValue st none (some 2) 1 = .ok ([0, 1, 2], [10, 11, 12]) := by decide +kernel
example : sliceByValue st (some 0) none 2 = .ok ([0, 2], [10, 12]) := by decide +kernel
example : sliceByValue st (some (1/2)) none 1 = .error .valueError := by decide +kernel
example : sliceByIndex st 1 (some (-1)) 1 = .ok ([1, 2], [11, 12]) := by decide +kernel
example : sliceByIndex st (-1) none 1 = .error .valueError := by decide +kernel
example : sliceByIndex st 0 (some 5) 1 = .error .valueError := by decide +kernel
example : (step st (.truncI 1 (some 3))).state.x = [1, 2] ∧
    (step st (.truncI 1 (some 3))).state.ry = [11, 12] ∧
    (step st (.truncI 1 (some 3))).err = none := by decide +kernel
example : (step st (.truncV (1/2) (3/2) false false)).state.rx = [0, 1, 2] ∧
    (step st (.truncV (1/2) (3/2) false false)).err = none := by decide +kernel

end Examples

end TWV.C11
