import TWV.Lemmas.Process

/-!
# C13 — interpolation honours the data and the requested grid

"For every method, interpolating at the original abscissae returns the original values (exactly for
'linear' and 'constant' …); 'constant' returns at each new point the value of the last sample at or
before it (the first value to the left of the data), 'linear' the straight-line value between the
two neighbouring samples, and every method except 'constant' reproduces affine data.  Through the
Weaver, interpolate(n) produces exactly n equally spaced points spanning the same range, and a grid
given explicitly must share both end points."

Model: `TWV/Model/Process.lean` (`interpConstant`, `interpLinearAt` = NumPy's `interp`,
`interpolate`, `linspaceAt`), `TWV/Model/Weaver.lean` (steps `.interpN`, `.interpX`).
Helper lemmas: `TWV/Lemmas/Process.lean`.

The SciPy methods `'cubic'` (`CubicSpline`) and `'spline'` (`BSpline(*splrep(...))`) are external:
the model receives their values as data (`ext`), so that the clauses "returns the original values at
the knots" and "reproduces affine data" are *assumed* for them, not proved; what is proved for them
is that the dispatcher hands the external result through unchanged (`interpolate_external`).
-/

set_option linter.unusedSectionVars false

namespace TWV.C13
open TWV TWV.Process TWV.Weaver

variable {K : Type} [Field K] [LinearOrder K] [IsStrictOrderedRing K]

/-! ## `'constant'` -/

/-- at each new point `t`: the value of the sample with index `C10.lowerSpec true x t` (the last
sample at or before `t`, see `constant_last_sample`), and `left` (default: the first value) to the
left of the data -/
theorem interpConstant_spec (x y newX : List K) (left : Option K) (hx : x.Pairwise (· < ·))
    (hx0 : x ≠ []) (hq : newX.Pairwise (· ≤ ·)) (hq0 : newX ≠ []) (hy : y.length = x.length) :
    interpConstant x y newX left
      = .ok (newX.map (fun t =>
          if t < x.head hx0 then left.getD (y[0]'(by rw [hy]; exact List.length_pos_iff.mpr hx0))
          else y[(C10.lowerSpec true x t).toNat]'(by rw [hy]; exact leftIdx_lt x hx0 t))) := by
  rw [interpConstant_eq x y newX left hx hx0 hq hq0]
  congr 1
  apply List.map_congr_left
  intro t _
  have hh : x.headD 0 = x.head hx0 := by
    cases x with
    | nil => exact absurd rfl hx0
    | cons a l => rfl
  have hy0 : y.headD 0 = y[0]'(by rw [hy]; exact List.length_pos_iff.mpr hx0) := by
    cases y with
    | nil => exact absurd (List.length_pos_iff.mpr hx0) (by rw [← hy]; simp)
    | cons a l => rfl
  have hi : leftIdx x t < y.length := by rw [hy]; exact leftIdx_lt x hx0 t
  rw [hh, hy0]
  congr 1
  unfold leftIdx at hi ⊢
  rw [List.getD_eq_getElem?_getD, List.getElem?_eq_getElem hi, Option.getD_some]

/-- what the index means: for `t` at or right of the first sample it is the index `i` of the last
sample with `x[i] ≤ t` -/
theorem constant_last_sample (x : List K) (hx : x.Pairwise (· < ·)) (hx0 : x ≠ []) (t : K)
    (ht : x.head hx0 ≤ t) :
    ∃ h : (C10.lowerSpec true x t).toNat < x.length,
      x[(C10.lowerSpec true x t).toNat] ≤ t ∧
      ∀ j (hj : j < x.length), x[j] ≤ t → j ≤ (C10.lowerSpec true x t).toNat := by
  rcases leftIdx_char x hx t with h | ⟨h, _⟩
  · exact h
  · exact absurd (h _ (List.head_mem hx0)) (not_lt.mpr ht)

/-- `'constant'` at the original abscissae returns the original values -/
theorem constant_knots (x y : List K) (hx : x.Pairwise (· < ·)) (hx0 : x ≠ [])
    (hy : y.length = x.length) : interpConstant x y x none = .ok y :=
  Process.constant_knots x y hx hx0 hy

/-! ## `'linear'` (NumPy's `interp`) -/

/-- at a sample point: the sample value -/
theorem interpLinearAt_knot (x y : ℕ → K) (n i : ℕ) (hx : StrictIncr (n - 1) x) (hi : i < n) :
    interpLinearAt x y n (x i) = y i :=
  Process.interpLinearAt_knot x y n i hx hi

/-- between two neighbouring samples: the value of the straight line through them -/
theorem interpLinearAt_between (x y : ℕ → K) (n j : ℕ) (t : K) (hx : StrictIncr (n - 1) x)
    (hj : j + 1 < n) (h1 : x j ≤ t) (h2 : t < x (j + 1)) :
    interpLinearAt x y n t = y j + (y (j + 1) - y j) / (x (j + 1) - x j) * (t - x j) :=
  Process.interpLinearAt_between x y n j t hx hj h1 h2

/-- left of the data: the first value -/
theorem interpLinearAt_clamp_left (x y : ℕ → K) (n : ℕ) (t : K) (h : t ≤ x 0) :
    interpLinearAt x y n t = y 0 :=
  Process.interpLinearAt_clamp_left x y n t h

/-- right of the data: the last value -/
theorem interpLinearAt_clamp_right (x y : ℕ → K) (n : ℕ) (t : K) (hx : StrictIncr (n - 1) x)
    (h : x (n - 1) ≤ t) : interpLinearAt x y n t = y (n - 1) :=
  Process.interpLinearAt_clamp_right x y n t hx h

/-- the interpolated value lies between the two neighbouring sample values -/
theorem linear_between_bounds (x y : ℕ → K) (n j : ℕ) (t : K) (hx : StrictIncr (n - 1) x)
    (hj : j + 1 < n) (h1 : x j ≤ t) (h2 : t < x (j + 1)) :
    min (y j) (y (j + 1)) ≤ interpLinearAt x y n t ∧
      interpLinearAt x y n t ≤ max (y j) (y (j + 1)) :=
  Process.linear_between_bounds x y n j t hx hj h1 h2

/-- `'linear'` reproduces affine data on the range of the data -/
theorem linear_affine (x y : ℕ → K) (n : ℕ) (a b t : K) (hn : 1 ≤ n) (hx : StrictIncr (n - 1) x)
    (hy : ∀ i, i < n → y i = a * x i + b) (h0 : x 0 ≤ t) (h1 : t ≤ x (n - 1)) :
    interpLinearAt x y n t = a * t + b :=
  Process.linear_affine x y n a b t hn hx hy h0 h1

/-- `'linear'` at the original abscissae returns the original values (on the lists the public
function works with) -/
theorem linear_knots (x y ext : List K) (hx : x.Pairwise (· < ·)) (hy : y.length = x.length) :
    interpolate x y x "linear" ext = .ok y :=
  Process.linear_knots x y ext hx hy

/-- `'linear'` on affine data, any grid inside the range of the data -/
theorem linear_affine_list (x y newX ext : List K) (a b : K) (hx : x.Pairwise (· < ·))
    (hx0 : x ≠ []) (hy : y.length = x.length)
    (haff : ∀ i (hi : i < x.length), y[i]'(by omega) = a * x[i] + b)
    (hrange : ∀ t ∈ newX, x.head hx0 ≤ t ∧ t ≤ x.getLast hx0) :
    interpolate x y newX "linear" ext = .ok (newX.map (fun t => a * t + b)) := by
  rw [interpolate_linear_eq]
  congr 1
  apply List.map_congr_left
  intro t ht
  have hpos : 0 < x.length := List.length_pos_iff.mpr hx0
  have h0 : fnOf x 0 = x.head hx0 := by
    rw [fnOf_getElem x 0 hpos, List.head_eq_getElem]
  have h1 : fnOf x (x.length - 1) = x.getLast hx0 := by
    rw [fnOf_getElem x _ (by omega), List.getLast_eq_getElem]
  apply Process.linear_affine (fnOf x) (fnOf y) x.length a b t hpos (fnOf_strictIncr x hx)
  · intro i hi
    rw [fnOf_getElem x i hi, fnOf_getElem y i (by omega)]
    exact haff i hi
  · rw [h0]; exact (hrange t ht).1
  · rw [h1]; exact (hrange t ht).2

/-! ## the dispatcher -/

theorem interpolate_unknown_method (x y newX ext : List K) (m : String)
    (h : Method.ofString? m = none) : interpolate x y newX m ext = .error .valueError :=
  Process.interpolate_unknown_method x y newX ext m h

/-- the four method names are the only ones recognised -/
theorem method_names (m : String) (h1 : m ≠ "linear") (h2 : m ≠ "constant") (h3 : m ≠ "cubic")
    (h4 : m ≠ "spline") : Method.ofString? m = none := by
  unfold Method.ofString?
  split <;> first | rfl | contradiction

theorem interpolate_linear_eq (x y newX ext : List K) :
    interpolate x y newX "linear" ext
      = .ok (newX.map (interpLinearAt (fnOf x) (fnOf y) x.length)) :=
  Process.interpolate_linear_eq x y newX ext

theorem interpolate_constant_eq (x y newX ext : List K) :
    interpolate x y newX "constant" ext = interpConstant x y newX none := rfl

/-- `'cubic'` and `'spline'` return what SciPy returns (external: the clauses of the property about
these two methods are assumptions on `ext`) -/
theorem interpolate_external (x y newX ext : List K) :
    interpolate x y newX "cubic" ext = .ok ext ∧ interpolate x y newX "spline" ext = .ok ext :=
  ⟨rfl, rfl⟩

/-! ## `np.linspace` and `Weaver.interpolate` -/

theorem linspaceAt_first (a b : K) (n : ℕ) : linspaceAt a b n 0 = a :=
  Process.linspaceAt_first a b n

theorem linspaceAt_last (a b : K) (n : ℕ) (hn : 2 ≤ n) : linspaceAt a b n (n - 1) = b :=
  Process.linspaceAt_last a b n hn

/-- consecutive points differ by `(b - a) / (n - 1)` (`i + 1 < n` makes `n - 1 ≠ 0`) -/
theorem linspaceAt_step (a b : K) (n i : ℕ) (hi : i + 1 < n) :
    linspaceAt a b n (i + 1) - linspaceAt a b n i = (b - a) / ((n - 1 : ℕ) : K) :=
  Process.linspaceAt_step a b n i hi

theorem linspace_strictIncr (a b : K) (n : ℕ) (hab : a < b) (hn : 2 ≤ n) :
    StrictIncr (n - 1) (linspaceAt a b n) :=
  Process.linspace_strictIncr a b n hab hn

/-- `interpolate(n=…)`: the new abscissae are `np.linspace(x[0], x[-1], n)` - exactly `n` points,
point `i` being `linspaceAt first last n i` (equally spaced with the same end points by the four
lemmas above) - and the new ordinates are `process.interpolate` on that grid -/
theorem interpN_grid (s : State K) (n : ℕ) (m : String) (ext : List K)
    (hok : (step s (.interpN n m ext)).err = none) :
    (step s (.interpN n m ext)).state.x = ofFn n (linspaceAt (s.x.headD 0) (s.x.getLastD 0) n) ∧
    (step s (.interpN n m ext)).state.x.length = n ∧
    (∀ i, i < n → (step s (.interpN n m ext)).state.x[i]?
        = some (linspaceAt (s.x.headD 0) (s.x.getLastD 0) n i)) ∧
    interpolate s.x s.y (ofFn n (linspaceAt (s.x.headD 0) (s.x.getLastD 0) n)) m ext
        = .ok (step s (.interpN n m ext)).state.y := by
  rcases step_interpN s n m ext with ⟨y, h1, h2⟩ | ⟨e, _, h2⟩
  · rw [h2, h1]
    refine ⟨rfl, ofFn_length _ _, ?_, rfl⟩
    intro i hi
    simp [ok, ofFn, hi]
  · rw [h2] at hok; simp [fail] at hok

/-- for `n ≥ 2` the new grid spans the same range: same first and last point -/
theorem interpN_endpoints (s : State K) (n : ℕ) (m : String) (ext : List K) (hn : 2 ≤ n)
    (hok : (step s (.interpN n m ext)).err = none) :
    (step s (.interpN n m ext)).state.x.headD 0 = s.x.headD 0 ∧
    (step s (.interpN n m ext)).state.x.getLastD 0 = s.x.getLastD 0 := by
  rw [(interpN_grid s n m ext hok).1, ofFn_headD _ _ (by omega), ofFn_getLastD _ _ (by omega),
    Process.linspaceAt_first, Process.linspaceAt_last _ _ n hn]
  exact ⟨rfl, rfl⟩

/-- `interpolate(new_x=…)`: a grid with a different first or last point is rejected with
`ValueError` and the state is left unchanged -/
theorem interpX_grid_mismatch (s : State K) (newX : List K) (m : String) (ext : List K)
    (h : newX.headD 0 ≠ s.x.headD 0 ∨ newX.getLastD 0 ≠ s.x.getLastD 0) :
    step s (.interpX newX m ext) = fail s .valueError ∧
      (step s (.interpX newX m ext)).state = s ∧
      (step s (.interpX newX m ext)).err = some .valueError := by
  rw [step_interpX_mismatch s newX m ext h]
  exact ⟨rfl, rfl, rfl⟩

/-- an accepted explicit grid becomes the new `x` as it is -/
theorem interpX_grid (s : State K) (newX : List K) (m : String) (ext : List K)
    (hok : (step s (.interpX newX m ext)).err = none) :
    newX.headD 0 = s.x.headD 0 ∧ newX.getLastD 0 = s.x.getLastD 0 ∧
    (step s (.interpX newX m ext)).state.x = newX ∧
    interpolate s.x s.y newX m ext = .ok (step s (.interpX newX m ext)).state.y := by
  by_cases h : newX.headD 0 ≠ s.x.headD 0 ∨ newX.getLastD 0 ≠ s.x.getLastD 0
  · rw [step_interpX_mismatch s newX m ext h] at hok; simp [fail] at hok
  · have h1 : newX.headD 0 = s.x.headD 0 := by
      by_contra hc; exact h (Or.inl hc)
    have h2 : newX.getLastD 0 = s.x.getLastD 0 := by
      by_contra hc; exact h (Or.inr hc)
    refine ⟨h1, h2, ?_⟩
    cases hy : interpolate s.x s.y newX m ext with
    | error e =>
      have : step s (.interpX newX m ext) = fail s e := by
        simp only [step]; rw [if_neg h, hy]
      rw [this] at hok; simp [fail] at hok
    | ok y =>
      rw [step_interpX_ok s newX m ext y h1 h2 hy]
      exact ⟨rfl, rfl⟩

/-! ## Non-vacuity (ℚ): `x = 0, 1, 2, 4`, `y = 10, 12, 11, 15` -/

section Examples

private def xs : List ℚ := [0, 1, 2, 4]
private def ys : List ℚ := [10, 12, 11, 15]
private def st : State ℚ :=
  { x := xs, y := ys, rx := xs, ry := ys, ox := xs, oy := ys, callerX := xs, callerY := ys }

example : xs.Pairwise (· < ·) ∧ xs ≠ [] ∧ ys.length = xs.length :=
  ⟨by norm_num [xs], by simp [xs], rfl⟩

/-- below the data, on a knot, inside intervals, on the last knot, beyond the data -/
example : interpConstant xs ys [-1, 0, 1/2, 1, 3, 4, 5] none = .ok [10, 10, 10, 12, 11, 15, 15] := by
  decide +kernel
example : interpConstant xs ys [-1, 0, 3] (some 7) = .ok [7, 10, 11] := by decide +kernel
example : interpolate xs ys [-1, 0, 1/2, 1, 3, 4, 5] "linear" [] = .ok [10, 10, 11, 12, 13, 15, 15] := by
  decide +kernel
example : interpolate xs ys xs "linear" [] = .ok ys ∧ interpolate xs ys xs "constant" [] = .ok ys := by
  decide +kernel
example : interpolate xs ys [0, 4] "quadratic" [] = .error .valueError := by decide +kernel
example : interpolate xs ys [0, 4] "cubic" [3, 5] = .ok [3, 5] := by decide +kernel
/-- affine data `y = 2 x + 1` -/
example : interpolate xs [1, 3, 5, 9] [0, 1/3, 3/2, 7/2, 4] "linear" [] = .ok [1, 5/3, 4, 8, 9] := by
  decide +kernel
/-- `np.linspace(0, 4, 5)` -/
example : ofFn 5 (linspaceAt (0 : ℚ) 4 5) = [0, 1, 2, 3, 4] := by decide +kernel
example : (step st (.interpN 5 "linear" [])).state.x = [0, 1, 2, 3, 4] ∧
    (step st (.interpN 5 "linear" [])).state.y = [10, 12, 11, 13, 15] ∧
    (step st (.interpN 5 "linear" [])).err = none := by decide +kernel
example : (step st (.interpX [0, 3] "linear" [])).err = some .valueError := by decide +kernel
example : (step st (.interpX [0, 3, 4] "linear" [])).state.y = [10, 13, 15] := by decide +kernel

end Examples

end TWV.C13
