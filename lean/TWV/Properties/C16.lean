import TWV.Lemmas.Process

/-!
# C16 — smoothing and the spline function respect the smoothing condition

"Smoothing replaces y by the values of a smoothing spline at the unchanged abscissae; the spline
obeys `sum((fit_i - y_i)²) ≤ s` up to FITPACK's tolerance, so `s = 0` interpolates the samples; the
default smoothing condition is `len(y) · var(y)`."

Model: `TWV/Model/Process.lean` (`mean`, `defaultS` = `len(y) * np.std(y) ** 2`),
`TWV/Model/Weaver.lean` (step `.smooth ext`).  Helper lemmas: `TWV/Lemmas/Process.lean`.

FITPACK (`splrep` / `BSpline`) is external: its values at the abscissae are data (`ext`, resp.
`fit : ℕ → K`).  Its recorded contract - the weighted residual sum of squares does not exceed the
smoothing condition `s`, relative tolerance `tol ≥ 0` (`0.001` in FITPACK) - is a *hypothesis* of
the theorems of the last section, not something proved here.
-/

set_option linter.unusedSectionVars false

namespace TWV.C16
open TWV TWV.Process TWV.Weaver Finset

variable {K : Type} [Field K] [LinearOrder K] [IsStrictOrderedRing K]

/-! ## the default smoothing condition -/

/-- `len(y) * std(y)²` is the sum of squared deviations from the mean -/
theorem defaultS_eq (y : ℕ → K) (n : ℕ) (hn : n ≠ 0) :
    defaultS y n = ∑ i ∈ range n, (y i - mean y n) ^ 2 :=
  Process.defaultS_eq y n hn

/-- the mean is the arithmetic mean -/
theorem mean_eq (y : ℕ → K) (n : ℕ) : mean y n = (∑ i ∈ range n, y i) / (n : K) :=
  Process.mean_eq y n

theorem defaultS_nonneg (y : ℕ → K) (n : ℕ) (hn : n ≠ 0) : 0 ≤ defaultS y n := by
  rw [Process.defaultS_eq y n hn]
  exact sum_nonneg fun i _ => sq_nonneg _

/-- constant data has smoothing condition `0` -/
theorem defaultS_const (y : ℕ → K) (n : ℕ) (c : K) (hn : n ≠ 0) (hy : ∀ i, i < n → y i = c) :
    defaultS y n = 0 := by
  have hne : (n : K) ≠ 0 := by exact_mod_cast hn
  have hm : mean y n = c := by
    rw [Process.mean_eq, sum_congr rfl (fun i hi => hy i (mem_range.mp hi))]
    simp [mul_div_cancel_left₀ _ hne]
  rw [Process.defaultS_eq y n hn, hm]
  apply sum_eq_zero
  intro i hi
  rw [hy i (mem_range.mp hi)]; simp

/-- conversely, a zero smoothing condition means constant data -/
theorem defaultS_eq_zero_iff (y : ℕ → K) (n : ℕ) (hn : n ≠ 0) :
    defaultS y n = 0 ↔ ∀ i, i < n → y i = mean y n := by
  rw [Process.defaultS_eq y n hn]
  constructor
  · intro h i hi
    have := sq_sum_le_zero (fun i => y i - mean y n) n h.le i hi
    exact sub_eq_zero.mp this
  · intro h
    apply sum_eq_zero
    intro i hi
    rw [h i (mem_range.mp hi)]; simp

/-! ## `Weaver.smooth` -/

/-- `x`, the reference and the original are untouched; `y` becomes the spline's values at `x`;
the step never fails -/
theorem smooth_frame (s : State K) (ext : List K) :
    (step s (.smooth ext)).err = none ∧
    (step s (.smooth ext)).state.y = ext ∧
    (step s (.smooth ext)).state.x = s.x ∧
    (step s (.smooth ext)).state.rx = s.rx ∧ (step s (.smooth ext)).state.ry = s.ry ∧
    (step s (.smooth ext)).state.ox = s.ox ∧ (step s (.smooth ext)).state.oy = s.oy := by
  rw [step_smooth]
  exact ⟨rfl, rfl, rfl, rfl, rfl, rfl, rfl⟩

/-! ## consequences of the FITPACK contract (hypothesis `hfit`) -/

/-- the smoothing condition bounds the squared deviation from the samples -/
theorem smooth_dev_le (fit y : ℕ → K) (n : ℕ) (s tol : K) (_htol : 0 ≤ tol)
    (hfit : ∑ i ∈ range n, (fit i - y i) ^ 2 ≤ s * (1 + tol)) :
    ∑ i ∈ range n, (fit i - y i) ^ 2 ≤ s * (1 + tol) := hfit

/-- hence every single deviation is bounded: `(fit_i - y_i)² ≤ s (1 + tol)` -/
theorem smooth_pointwise_le (fit y : ℕ → K) (n : ℕ) (s tol : K)
    (hfit : ∑ i ∈ range n, (fit i - y i) ^ 2 ≤ s * (1 + tol)) (i : ℕ) (hi : i < n) :
    (fit i - y i) ^ 2 ≤ s * (1 + tol) :=
  le_trans (single_le_sum (f := fun j => (fit j - y j) ^ 2) (fun _ _ => sq_nonneg _)
    (mem_range.mpr hi)) hfit

/-- `s = 0` (the default of `to_function`): the spline passes through every sample -/
theorem smooth_zero_identity (fit y : ℕ → K) (n : ℕ) (tol : K)
    (hfit : ∑ i ∈ range n, (fit i - y i) ^ 2 ≤ 0 * (1 + tol)) :
    ∀ i, i < n → fit i = y i := by
  intro i hi
  rw [zero_mul] at hfit
  exact sub_eq_zero.mp (sq_sum_le_zero (fun i => fit i - y i) n hfit i hi)

/-- with the default smoothing condition the bound is the variance bound
`sum((fit_i - y_i)²) ≤ sum((y_i - mean)²) (1 + tol)` -/
theorem smooth_default_uses_variance (fit y : ℕ → K) (n : ℕ) (tol : K) (hn : n ≠ 0)
    (hfit : ∑ i ∈ range n, (fit i - y i) ^ 2 ≤ defaultS y n * (1 + tol)) :
    ∑ i ∈ range n, (fit i - y i) ^ 2 ≤ (∑ i ∈ range n, (y i - mean y n) ^ 2) * (1 + tol) := by
  rw [← Process.defaultS_eq y n hn]; exact hfit

/-- with the default condition, constant data is reproduced exactly -/
theorem smooth_default_const (fit y : ℕ → K) (n : ℕ) (tol c : K) (hn : n ≠ 0)
    (hy : ∀ i, i < n → y i = c)
    (hfit : ∑ i ∈ range n, (fit i - y i) ^ 2 ≤ defaultS y n * (1 + tol)) :
    ∀ i, i < n → fit i = c := by
  intro i hi
  rw [defaultS_const y n c hn hy] at hfit
  rw [← hy i hi]
  exact smooth_zero_identity fit y n tol hfit i hi

/-! ## Non-vacuity (ℚ) -/

section Examples

private def ys : ℕ → ℚ := fun i => [1, 3, 2, 6].getD i 0
private def st : State ℚ :=
  { x := [0, 1, 2], y := [5, 6, 7], rx := [0, 1, 2], ry := [5, 6, 7], ox := [0, 1, 2],
    oy := [5, 6, 7], callerX := [0, 1, 2], callerY := [5, 6, 7] }

/-- mean `3`, squared deviations `4 + 0 + 1 + 9` -/
example : mean ys 4 = 3 ∧ defaultS ys 4 = 14 := by decide +kernel
example : defaultS (fun _ => (5 : ℚ)) 3 = 0 := by decide +kernel
example : (step st (.smooth [5, 6, 8])).state.y = [5, 6, 8] ∧
    (step st (.smooth [5, 6, 8])).state.x = [0, 1, 2] := by decide +kernel
/-- the contract is satisfiable with `s = 1`, `tol = 1/1000`: deviations `1/2, -1/2, 0, 1/2` -/
example : ∑ i ∈ range 4, ((fun i => ys i + [1/2, -1/2, 0, 1/2].getD i 0) i - ys i) ^ 2
    ≤ (1 : ℚ) * (1 + 1 / 1000) := by decide +kernel

end Examples

end TWV.C16

/-! ## Added with translator T15: how the default smoothing condition behaves under changes of the data

`Gen.spline_smooth` (tied in `TWV/Tie/SmoothGlue.lean`) hands `defaultS y` to FITPACK when `s` is not given.
The condition does not depend on the level of the data, scales with the square of its unit, and agrees in
exact arithmetic with the raw-moment formula `sum(y²) - n · mean²`. -/

namespace TWV.C16
open TWV TWV.Process Finset

variable {K : Type} [Field K] [LinearOrder K] [IsStrictOrderedRing K]

theorem mean_shift (y : ℕ → K) (n : ℕ) (c : K) (hn : n ≠ 0) :
    mean (fun i => y i + c) n = mean y n + c := by
  have hne : (n : K) ≠ 0 := by exact_mod_cast hn
  rw [Process.mean_eq, Process.mean_eq, sum_add_distrib, sum_const, card_range, nsmul_eq_mul, add_div,
    mul_div_cancel_left₀ _ hne]

theorem mean_scale (y : ℕ → K) (n : ℕ) (c : K) : mean (fun i => c * y i) n = c * mean y n := by
  rw [Process.mean_eq, Process.mean_eq, ← mul_sum, mul_div_assoc]

/-- shift invariance: adding a constant to every sample leaves the default smoothing condition unchanged -/
theorem defaultS_shift (y : ℕ → K) (n : ℕ) (c : K) (hn : n ≠ 0) :
    defaultS (fun i => y i + c) n = defaultS y n := by
  rw [Process.defaultS_eq _ n hn, Process.defaultS_eq _ n hn, mean_shift y n c hn]
  apply sum_congr rfl
  intro i _; ring

/-- a change of unit `y ↦ c · y` multiplies the default smoothing condition by `c²` -/
theorem defaultS_scale (y : ℕ → K) (n : ℕ) (c : K) :
    defaultS (fun i => c * y i) n = c ^ 2 * defaultS y n := by
  by_cases hn : n = 0
  · subst hn; simp [defaultS]
  · rw [Process.defaultS_eq _ n hn, Process.defaultS_eq _ n hn, mean_scale, mul_sum]
    apply sum_congr rfl
    intro i _; ring

/-- the raw-moment form: `len(y) · var(y) = sum(y²) - n · mean²` (the two formulae agree exactly) -/
theorem defaultS_raw_moment (y : ℕ → K) (n : ℕ) (hn : n ≠ 0) :
    defaultS y n = ∑ i ∈ range n, y i ^ 2 - (n : K) * mean y n ^ 2 := by
  have hne : (n : K) ≠ 0 := by exact_mod_cast hn
  have hs : ∑ i ∈ range n, y i = (n : K) * mean y n := by
    rw [Process.mean_eq, mul_div_cancel₀ _ hne]
  rw [Process.defaultS_eq y n hn]
  have h : ∀ i, (y i - mean y n) ^ 2 = y i ^ 2 - 2 * mean y n * y i + mean y n ^ 2 := fun i => by ring
  simp only [h]
  rw [sum_add_distrib, sum_sub_distrib, ← mul_sum, hs, sum_const, card_range, nsmul_eq_mul]
  ring

/-- hence the bound FITPACK works with under the default is the same for `y` and `y + c` -/
theorem smooth_default_shift (fit y : ℕ → K) (n : ℕ) (tol c : K) (hn : n ≠ 0)
    (hfit : ∑ i ∈ range n, (fit i - (y i + c)) ^ 2 ≤ defaultS (fun i => y i + c) n * (1 + tol)) :
    ∑ i ∈ range n, ((fit i - c) - y i) ^ 2 ≤ defaultS y n * (1 + tol) := by
  rw [defaultS_shift y n c hn] at hfit
  have h : ∀ i, ((fit i - c) - y i) ^ 2 = (fit i - (y i + c)) ^ 2 := fun i => by ring
  simp only [h]; exact hfit

section Examples2

/-- `ys = 1, 3, 2, 6`: `defaultS = 14`; shifted by 10 still `14`; in units of a third, `9 · 14`;
raw moments `50 - 4 · 3²` -/
example : defaultS (fun i => ys i + 10) 4 = 14 := by decide +kernel
example : defaultS (fun i => 3 * ys i) 4 = 3 ^ 2 * 14 := by decide +kernel
example : ∑ i ∈ range 4, ys i ^ 2 - ((4 : ℕ) : ℚ) * mean ys 4 ^ 2 = 14 ∧ defaultS ys 4 = 14 := by
  decide +kernel

end Examples2

end TWV.C16
