import TWV.Generated.DatasetTables
import Mathlib.Data.List.Nodup
import Mathlib.Order.Basic

/-!
# C18 — every documented dataset is reachable by name and well-formed

"Every dataset name listed in the descriptions shipped with the package can be requested through
load_dataset: bundled ones load as finite (samples, 2) float arrays with strictly increasing first
column (and as the two columns when unpacking is requested), remote ones trigger a download of
their own distinct file, and no two datasets share a remote file, checksum or cache slot. Unknown
names raise ValueError, and the cache lives under the directory named by TRAFFIC_WEAVER_DATA when
it is set."

The tables (`TWV.Gen.Data`) are regenerated from the working tree by translator T2 on every run;
the finite statements below are re-decided by the kernel (`decide +kernel`, no axioms).
Model: `TWV/Model/Datasets.lean` (`funName`, `resolve`, `variants`, `dataHome`, `unpack`).
-/

set_option maxRecDepth 16384

namespace TWV.C18
open TWV TWV.Datasets TWV.Gen.Data

/-! ## the shipped tables -/

theorem documented_counts : documentedBundled.length = 19 ∧ documentedRemote.length = 76 := by
  decide +kernel

/-- every documented name, in each of its `-`/`_` spellings, resolves to an exported loader -/
theorem all_documented_resolve :
    (documentedBundled ++ documentedRemote).all
      (fun n => (variants n).all (fun v => registry.contains (funName v))) = true := by
  decide +kernel

/-- every documented bundled name is served by exactly the bundled loader of that name -/
theorem documented_bundled_have_loader :
    documentedBundled.all (fun n => bundled.any (fun b => b.fn == funName n)) = true := by
  decide +kernel

/-- every documented remote name is served by a remote loader of that name -/
theorem documented_remote_have_record :
    documentedRemote.all (fun n => remotes.any (fun r => r.fn == funName n)) = true := by
  decide +kernel

theorem remote_fns_nodup : (remotes.map (·.fn)).Nodup := by decide +kernel
theorem remote_urls_nodup : (remotes.map (·.url)).Nodup := by decide +kernel
theorem remote_checksums_nodup : (remotes.map (·.checksum)).Nodup := by decide +kernel
theorem remote_files_nodup : (remotes.map (·.filename)).Nodup := by decide +kernel
/-- no two remote datasets share a cache slot `<folder>/<slot>` -/
theorem cache_slots_nodup : (remotes.map (fun r => (r.folder, r.slot))).Nodup := by decide +kernel
/-- every remote loader validates the pinned checksum -/
theorem remote_all_validate : remotes.all (·.validate) = true := by decide +kernel

theorem bundled_files_nodup : (bundled.map (·.file)).Nodup := by decide +kernel
/-- every row of every bundled CSV has exactly two fields -/
theorem bundled_shape : bundled.all (fun b => b.rows.all (fun r => r.length == 2)) = true := by
  decide +kernel
theorem bundled_nonempty : bundled.all (fun b => !b.rows.isEmpty && decide (0 < b.scale)) = true := by
  decide +kernel
/-- the first column of every bundled CSV is strictly increasing -/
theorem bundled_strictly_increasing :
    bundled.all (fun b => decide ((b.rows.map (fun r => r.getD 0 0)).Pairwise (· < ·))) = true := by
  decide +kernel

/-! ## general facts about name resolution (all names, not only the shipped ones) -/

theorem unknown_rejected (registry : List Str) (name : Str) (h : funName name ∉ registry) :
    resolve registry name = .error .valueError := by
  unfold resolve
  rw [if_neg]
  simpa using h

theorem known_resolves (registry : List Str) (name : Str) (h : funName name ∈ registry) :
    resolve registry name = .ok (funName name) := by
  unfold resolve
  rw [if_pos]
  simpa using h

theorem replaceHyphen_idem (s : Str) : replaceHyphen (replaceHyphen s) = replaceHyphen s := by
  unfold replaceHyphen
  rw [List.map_map]
  apply List.map_congr_left
  intro c _
  simp only [Function.comp]
  split <;> simp [hyphen, underscore] <;> omega

/-- unpacking returns the two columns -/
theorem unpack_columns (rows : List (List Int)) :
    (unpack rows).1 = rows.map (fun r => r.getD 0 0) ∧ (unpack rows).2 = rows.map (fun r => r.getD 1 0) :=
  ⟨rfl, rfl⟩

theorem unpack_lengths (rows : List (List Int)) :
    (unpack rows).1.length = rows.length ∧ (unpack rows).2.length = rows.length := by
  simp [unpack]

/-- the cache lives under the directory named by the environment variable when it is set and no
explicit directory is given -/
theorem dataHome_env (e dflt : Str) : dataHome none (some e) dflt = e := rfl
theorem dataHome_arg (a : Str) (env : Option Str) (dflt : Str) : dataHome (some a) env dflt = a := rfl
theorem dataHome_default (dflt : Str) : dataHome none none dflt = dflt := rfl

/-! ## non-vacuity -/

example : funName (ofString "ams-ix-grx_weekly") = ofString "fetch_ams_ix_grx_weekly" := by decide +kernel
example : funName (ofString "sandvine-audio") = ofString "load_sandvine_audio" := by decide +kernel
example : resolve registry (ofString "no-such-dataset") = .error .valueError := by decide +kernel
example : (resolve registry (ofString "mix-it-milan_daily")).toOption.isSome = true := by decide +kernel

end TWV.C18
