import TWV.Lemmas.Arrays

/-!
# C17 — array helpers, interval view and block averaging keep their contracts

"Oversampling an array n-fold keeps every original element at every n-th position and fills the
gaps linearly (or with the left value); extending adds exactly n elements per requested side,
continuing linearly or constantly, and leaves the original elements in the middle; appending one
sample continues x by its last step and y by its last (or, if periodic, first) value.  The interval
view maps [i, j] to flat index i*n+j for reads and writes, lays the array out row by row with NaN
padding, and block averaging returns each row's mean ignoring the padding together with each row's
first abscissa, so that averaging an n-fold piecewise-constant oversampling returns the input."

Model: `TWV/Model/Arrays.lean`, `TWV/Model/Interval.lean`.  Helper lemmas: `TWV/Lemmas/Arrays.lean`.
A series is a total function `ℕ → K` together with its length `m`; `K` is an arbitrary linearly
ordered field.
-/

set_option linter.unusedSectionVars false

namespace TWV.C17
open TWV Finset

variable {K : Type} [Field K] [LinearOrder K] [IsStrictOrderedRing K]

/-! ## `oversample_linspace`, `oversample_piecewise_constant` -/

/-- every original element sits, unchanged, at every `n`-th position -/
theorem oversampleLin_knot (a : ℕ → K) (n k : ℕ) (hn : 2 ≤ n) :
    oversampleLin a n (k * n) = a k := by
  have h := oversampleLin_apply a (j := 0) k hn (by omega)
  simpa using h

/-- the gaps are filled linearly: `j` steps of size `(a (k+1) - a k) / n` after `a k` -/
theorem oversampleLin_fill (a : ℕ → K) (n k j : ℕ) (hn : 2 ≤ n) (hj : j < n) :
    oversampleLin a n (k * n + j) = a k + (j : K) * ((a (k + 1) - a k) / (n : K)) :=
  oversampleLin_apply a k hn hj

/-- consecutive samples inside an interval differ by `(a (k+1) - a k) / n` -/
theorem oversampleLin_step (a : ℕ → K) (n k j : ℕ) (hn : 2 ≤ n) (hj : j + 1 < n) :
    oversampleLin a n (k * n + (j + 1)) - oversampleLin a n (k * n + j)
      = (a (k + 1) - a k) / (n : K) := by
  rw [← Nat.add_assoc]
  exact oversampleLin_succ_sub a k hn (by omega)

/-- … and so does the step from the last filled sample to the next original element -/
theorem oversampleLin_step_knot (a : ℕ → K) (n k : ℕ) (hn : 2 ≤ n) :
    oversampleLin a n ((k + 1) * n) - oversampleLin a n (k * n + (n - 1))
      = (a (k + 1) - a k) / (n : K) := by
  have h := oversampleLin_succ_sub a (j := n - 1) k hn (by omega)
  have e : k * n + (n - 1) + 1 = (k + 1) * n := by rw [Nat.succ_mul]; omega
  rwa [e] at h

/-- the last element of the oversampled array is the last original element -/
theorem oversampleLin_last (a : ℕ → K) (m n : ℕ) (hn : 2 ≤ n) :
    oversampleLin a n (oversampleLen m n - 1) = a (m - 1) := by
  have e : oversampleLen m n - 1 = (m - 1) * n := by
    unfold oversampleLen; rw [if_neg (by omega)]; omega
  rw [e, oversampleLin_knot a n (m - 1) hn]

/-- oversampling a strictly increasing array gives a strictly increasing array -/
theorem oversampleLin_strictIncr (a : ℕ → K) (m n : ℕ) (h : StrictIncr (m - 1) a) (hn : 2 ≤ n)
    (_hm : 1 ≤ m) : StrictIncr ((m - 1) * n) (oversampleLin a n) := by
  intro i hi
  obtain ⟨k, j, hj, rfl⟩ := exists_decomp i n (by omega)
  have hk : k < m - 1 := decomp_lt hi
  have hs := oversampleLin_succ_sub a k hn hj
  have hpos : 0 < (a (k + 1) - a k) / (n : K) :=
    div_pos (sub_pos.mpr (h k hk)) (natCast_pos_of_two_le hn)
  linarith

theorem oversamplePC_knot (a : ℕ → K) (n k : ℕ) (hn : 2 ≤ n) :
    oversamplePC a n (k * n) = a k := by
  have h := oversamplePC_apply a (j := 0) k hn (by omega)
  simpa using h

/-- the gaps are filled with the left value -/
theorem oversamplePC_fill (a : ℕ → K) (n k j : ℕ) (hn : 2 ≤ n) (hj : j < n) :
    oversamplePC a n (k * n + j) = a k :=
  oversamplePC_apply a k hn hj

/-- `num < 2`: the input is returned -/
theorem oversample_small_n (a : ℕ → K) (m n : ℕ) (hn : n < 2) :
    oversampleLin a n = a ∧ oversamplePC a n = a ∧ oversampleLen m n = m := by
  refine ⟨?_, ?_, ?_⟩
  · funext i; simp [oversampleLin, hn]
  · funext i; simp [oversamplePC, hn]
  · simp [oversampleLen, hn]

theorem oversampleLen_eq (m n : ℕ) (hn : 2 ≤ n) : oversampleLen m n = (m - 1) * n + 1 := by
  unfold oversampleLen; rw [if_neg (by omega)]

/-! ## `extend_linspace`, `extend_constant` -/

/-- exactly `n` new elements per requested side -/
theorem extendLen_eq (m n : ℕ) :
    extendLen m n .both = m + n + n ∧ extendLen m n .left = m + n ∧
      extendLen m n .right = m + n := by
  simp [extendLen, Direction.hasLeft, Direction.hasRight]

/-- the original elements sit unchanged behind the `n` new left elements (at offset 0 for
direction `right`) -/
theorem extendLin_middle (a : ℕ → K) (m n : ℕ) (ls rs : Option K) (i : ℕ) (hi : i < m) :
    extendLin a m n .both ls rs (n + i) = a i ∧ extendLin a m n .left ls rs (n + i) = a i ∧
      extendLin a m n .right ls rs i = a i := by
  have h1 : n + i < m + n := by omega
  have h2 : ¬ n + i < n := by omega
  refine ⟨?_, ?_, ?_⟩ <;>
    simp [extendLin, extendLinLeft, extendLinRight, Direction.hasLeft, Direction.hasRight, hi, h1]

/-- the left extension is `np.linspace(lstart', a[0], n + 1)[:-1]` -/
theorem extendLin_left (a : ℕ → K) (m n : ℕ) (d : Direction) (hd : d.hasLeft = true)
    (ls rs : Option K) (i : ℕ) (hi : i < n) :
    extendLin a m n d ls rs i
      = ls.getD (2 * a 0 - a n) + (i : K) * ((a 0 - ls.getD (2 * a 0 - a n)) / (n : K)) := by
  have h1 : i < m + n := by omega
  cases d <;>
    simp_all [extendLin, extendLinLeft, extendLinRight, Direction.hasLeft, Direction.hasRight]

/-- in particular the new first element is `lstart'` -/
theorem extendLin_left_zero (a : ℕ → K) (m n : ℕ) (d : Direction) (hd : d.hasLeft = true)
    (ls rs : Option K) (hn : 0 < n) :
    extendLin a m n d ls rs 0 = ls.getD (2 * a 0 - a n) := by
  rw [extendLin_left a m n d hd ls rs 0 hn]; simp

/-- direction `right`: the right extension is `np.linspace(a[-1], rstop', n + 1)[1:]` -/
theorem extendLin_right (a : ℕ → K) (m n : ℕ) (ls rs : Option K) (i : ℕ) :
    extendLin a m n .right ls rs (m + i)
      = a (m - 1) + ((i : K) + 1)
          * ((rs.getD (2 * a (m - 1) - a (m - 1 - n)) - a (m - 1)) / (n : K)) := by
  simp [extendLin, extendLinRight, Direction.hasLeft, Direction.hasRight]

/-- direction `both` (the right part is computed on the already left-extended array), in terms of
the original array of length `m ≥ n + 1` -/
theorem extendLin_right_both (a : ℕ → K) (m n : ℕ) (ls rs : Option K) (i : ℕ) (hm : n + 1 ≤ m) :
    extendLin a m n .both ls rs (m + n + i)
      = a (m - 1) + ((i : K) + 1)
          * ((rs.getD (2 * a (m - 1) - a (m - 1 - n)) - a (m - 1)) / (n : K)) := by
  have e1 : extendLinLeft a n ls (m + n - 1) = a (m - 1) := by
    have h : ¬ m + n - 1 < n := by omega
    have h' : m + n - 1 - n = m - 1 := by omega
    simp [extendLinLeft, h, h']
  have e2 : extendLinLeft a n ls (m + n - 1 - n) = a (m - 1 - n) := by
    have h : ¬ m + n - 1 - n < n := by omega
    have h' : m + n - 1 - n - n = m - 1 - n := by omega
    simp [extendLinLeft, h, h']
  simp [extendLin, extendLinRight, Direction.hasLeft, Direction.hasRight, e1, e2]

/-- direction `both` for any `m ≥ 1`, in terms of the left-extended array `A` (what the Python code
literally computes: the default `rstop` is `2 * A[-1] - A[-n-1]`) -/
theorem extendLin_right_both_general (a : ℕ → K) (m n : ℕ) (ls rs : Option K) (i : ℕ) (hm : 1 ≤ m) :
    extendLin a m n .both ls rs (m + n + i)
      = a (m - 1) + ((i : K) + 1)
          * ((rs.getD (2 * a (m - 1) - extendLin a m n .left ls none (m - 1)) - a (m - 1))
              / (n : K)) := by
  have e1 : extendLinLeft a n ls (m + n - 1) = a (m - 1) := by
    have h : ¬ m + n - 1 < n := by omega
    have h' : m + n - 1 - n = m - 1 := by omega
    simp [extendLinLeft, h, h']
  have e2 : m + n - 1 - n = m - 1 := by omega
  simp [extendLin, extendLinRight, Direction.hasLeft, Direction.hasRight, e1, e2]

/-- the very last element is `rstop'` -/
theorem extendLin_right_last (a : ℕ → K) (m n : ℕ) (ls rs : Option K) (hn : n ≠ 0) :
    extendLin a m n .right ls rs (m + (n - 1)) = rs.getD (2 * a (m - 1) - a (m - 1 - n)) := by
  have hn0 : (n : K) ≠ 0 := by exact_mod_cast hn
  have hc : ((n - 1 : ℕ) : K) + 1 = (n : K) := by
    have : ((n - 1 + 1 : ℕ) : K) = (n : K) := by congr 1; omega
    simpa using this
  rw [extendLin_right, hc]; field_simp; ring

theorem extendLin_right_both_last (a : ℕ → K) (m n : ℕ) (ls rs : Option K) (hn : n ≠ 0)
    (hm : n + 1 ≤ m) :
    extendLin a m n .both ls rs (m + n + (n - 1))
      = rs.getD (2 * a (m - 1) - a (m - 1 - n)) := by
  have hn0 : (n : K) ≠ 0 := by exact_mod_cast hn
  have hc : ((n - 1 : ℕ) : K) + 1 = (n : K) := by
    have : ((n - 1 + 1 : ℕ) : K) = (n : K) := by congr 1; omega
    simpa using this
  rw [extendLin_right_both a m n ls rs _ hm, hc]; field_simp; ring

theorem extendConst_left (a : ℕ → K) (m n : ℕ) (d : Direction) (hd : d.hasLeft = true)
    (i : ℕ) (hi : i < n) : extendConst a m n d i = a 0 := by
  have h1 : i < m + n := by omega
  cases d <;> simp_all [extendConst, Direction.hasLeft, Direction.hasRight]

theorem extendConst_middle (a : ℕ → K) (m n : ℕ) (i : ℕ) (hi : i < m) :
    extendConst a m n .both (n + i) = a i ∧ extendConst a m n .left (n + i) = a i ∧
      extendConst a m n .right i = a i := by
  have h1 : n + i < m + n := by omega
  have h2 : ¬ n + i < n := by omega
  refine ⟨?_, ?_, ?_⟩ <;>
    simp [extendConst, Direction.hasLeft, Direction.hasRight, hi, h1]

theorem extendConst_right (a : ℕ → K) (m n : ℕ) (i : ℕ) (hm : 1 ≤ m) :
    extendConst a m n .right (m + i) = a (m - 1) ∧
      extendConst a m n .both (m + n + i) = a (m - 1) := by
  have h1 : ¬ m + n - 1 < n := by omega
  have h2 : m + n - 1 - n = m - 1 := by omega
  have h3 : m + n - 1 < m + n := by omega
  refine ⟨?_, ?_⟩ <;>
    simp [extendConst, Direction.hasLeft, Direction.hasRight, h1, h2]

/-! ## `append_one_sample` -/

theorem appendOneX_old (x : ℕ → K) (m i : ℕ) (hi : i < m) : appendOneX x m i = x i := by
  simp [appendOneX, hi]

/-- `x` is continued by its last step -/
theorem appendOneX_new (x : ℕ → K) (m : ℕ) :
    appendOneX x m m = x (m - 1) + (x (m - 1) - x (m - 2)) := by
  simp [appendOneX]; ring

theorem appendOneY_old (y : ℕ → K) (m i : ℕ) (p : Bool) (hi : i < m) :
    appendOneY y m p i = y i := by
  simp [appendOneY, hi]

/-- `y` is continued by its last value, or by its first one if periodic -/
theorem appendOneY_new (y : ℕ → K) (m : ℕ) :
    appendOneY y m false m = y (m - 1) ∧ appendOneY y m true m = y 0 := by
  simp [appendOneY]

theorem appendOne_strictIncr (x : ℕ → K) (m : ℕ) (hm : 2 ≤ m) (h : StrictIncr (m - 1) x) :
    StrictIncr m (appendOneX x m) := by
  intro i hi
  rcases Nat.lt_or_ge (i + 1) m with h1 | h1
  · rw [appendOneX_old x m i hi, appendOneX_old x m (i + 1) h1]
    exact h i (by omega)
  · have e : i + 1 = m := by omega
    rw [e, appendOneX_old x m i hi, appendOneX_new]
    have hi' : i = m - 1 := by omega
    have := h (m - 2) (by omega)
    have e2 : m - 2 + 1 = m - 1 := by omega
    rw [e2] at this
    rw [hi']; linarith

/-! ## `IntervalArray.__getitem__`, `__setitem__` -/

/-- `a[i, j]` reads flat index `i * n + j` -/
theorem Interval.get_ok (a : ℕ → K) (len n i j : ℕ) (h : i * n + j < len) :
    Interval.get a len n (i : ℤ) (j : ℤ) = .ok (a (i * n + j)) := by
  rw [Interval.get, Interval.flat_natCast, Interval.pyIndex_natCast h]; rfl

/-- the same with integer indices `0 ≤ i`, `0 ≤ j` -/
theorem Interval.get_ok_int (a : ℕ → K) (len n : ℕ) (i j : ℤ) (hi : 0 ≤ i) (hj : 0 ≤ j)
    (h : i.toNat * n + j.toNat < len) :
    Interval.get a len n i j = .ok (a (i.toNat * n + j.toNat)) := by
  obtain ⟨i', rfl⟩ := Int.eq_ofNat_of_zero_le hi
  obtain ⟨j', rfl⟩ := Int.eq_ofNat_of_zero_le hj
  exact Interval.get_ok a len n i' j' h

/-- the negative second index the strategies use: `a[i, -j]` reads flat index `i * n - j` -/
theorem Interval.get_ok_neg (a : ℕ → K) (len n i j : ℕ) (hj : j ≤ i * n) (h : i * n - j < len) :
    Interval.get a len n (i : ℤ) (-(j : ℤ)) = .ok (a (i * n - j)) := by
  rw [Interval.get, Interval.flat_natCast_neg n i j hj, Interval.pyIndex_natCast h]; rfl

/-- a negative flat index `-p` counts from the end -/
theorem Interval.get_wrap (a : ℕ → K) (len n : ℕ) (i j : ℤ) (p : ℕ) (hf : Interval.flat n i j = -(p : ℤ))
    (hp : 0 < p) (h : p ≤ len) : Interval.get a len n i j = .ok (a (len - p)) := by
  rw [Interval.get, hf, Interval.pyIndex_neg hp h]; rfl

/-- an index beyond the end is an `IndexError`, for reads and for writes -/
theorem Interval.get_out_of_range (a : ℕ → K) (len n i j : ℕ) (v : K) (h : len ≤ i * n + j) :
    Interval.get a len n (i : ℤ) (j : ℤ) = .error .indexError ∧
      Interval.set a len n (i : ℤ) (j : ℤ) v = .error .indexError := by
  constructor
  · rw [Interval.get, Interval.flat_natCast, Interval.pyIndex_natCast_ge h]; rfl
  · rw [Interval.set, Interval.flat_natCast, Interval.pyIndex_natCast_ge h]; rfl

/-- a write in range replaces exactly the addressed flat entry -/
theorem Interval.set_ok (a : ℕ → K) (len n i j : ℕ) (v : K) (h : i * n + j < len) :
    Interval.set a len n (i : ℤ) (j : ℤ) v
      = .ok (fun q => if q = i * n + j then v else a q) := by
  rw [Interval.set, Interval.flat_natCast, Interval.pyIndex_natCast h]; rfl

/-- write, then read the same index -/
theorem Interval.set_get_same (a a' : ℕ → K) (len n : ℕ) (i j : ℤ) (v : K)
    (h : Interval.set a len n i j v = .ok a') : Interval.get a' len n i j = .ok v := by
  unfold Interval.set at h
  unfold Interval.get
  cases hp : Interval.pyIndex len (Interval.flat n i j) with
  | error e => rw [hp] at h; cases h
  | ok p =>
    rw [hp] at h
    injection h with h
    subst h
    simp [Except.map]

/-- write, then read another index: untouched (whether that read succeeds or fails) -/
theorem Interval.set_get_other (a a' : ℕ → K) (len n : ℕ) (i j i' j' : ℤ) (v : K)
    (h : Interval.set a len n i j v = .ok a')
    (hne : Interval.pyIndex len (Interval.flat n i' j') ≠ Interval.pyIndex len (Interval.flat n i j)) :
    Interval.get a' len n i' j' = Interval.get a len n i' j' := by
  unfold Interval.set at h
  unfold Interval.get
  cases hp : Interval.pyIndex len (Interval.flat n i j) with
  | error e => rw [hp] at h; cases h
  | ok p =>
    rw [hp] at h hne
    injection h with h
    subst h
    cases hq : Interval.pyIndex len (Interval.flat n i' j') with
    | error e => rfl
    | ok q =>
      have : q ≠ p := by
        intro e; rw [hq, e] at hne; exact hne rfl
      simp [Except.map, this]

/-- the same for natural indices: after `a[i, j] = v`, `a[i, j]` is `v` and every other in-range
`a[i', j']` is what it was -/
theorem Interval.set_get_nat (a : ℕ → K) (len n i j i' j' : ℕ) (v : K) (h : i * n + j < len)
    (h' : i' * n + j' < len) (hne : i' * n + j' ≠ i * n + j) :
    ∃ a', Interval.set a len n (i : ℤ) (j : ℤ) v = .ok a' ∧
      Interval.get a' len n (i : ℤ) (j : ℤ) = .ok v ∧
      Interval.get a' len n (i' : ℤ) (j' : ℤ) = .ok (a (i' * n + j')) ∧
      (∀ q, q ≠ i * n + j → a' q = a q) := by
  refine ⟨_, Interval.set_ok a len n i j v h, ?_, ?_, ?_⟩
  · rw [Interval.get_ok _ len n i j h]; simp
  · rw [Interval.get_ok _ len n i' j' h']; simp [hne]
  · intro q hq; simp [hq]

/-! ## `to_2d_array`, `to_2d_array_closed_intervals` -/

/-- number of rows: `⌈len / n⌉` -/
theorem Interval.rows_eq_ceil (len n : ℕ) (hn : 0 < n) :
    Interval.rows len n = (len + n - 1) / n := by
  have h := Nat.div_add_mod len n
  have hm := Nat.mod_lt len hn
  unfold Interval.rows
  split
  · symm; apply Nat.div_eq_of_lt_le
    · rw [Nat.mul_comm]; omega
    · rw [Nat.succ_mul, Nat.mul_comm]; omega
  · symm; apply Nat.div_eq_of_lt_le
    · rw [Nat.succ_mul, Nat.mul_comm]; omega
    · rw [Nat.succ_mul, Nat.succ_mul, Nat.mul_comm]; omega

/-- entry `(r, c)` is flat element `r * n + c`; it is padding iff that index is beyond the end -/
theorem Interval.to2d_entry (a : ℕ → K) (len n r c : ℕ) :
    (r * n + c < len → Interval.to2d a len n r c = some (a (r * n + c))) ∧
      (Interval.to2d a len n r c = none ↔ len ≤ r * n + c) := by
  unfold Interval.to2d
  constructor
  · intro h; rw [if_pos h]
  · split <;> simp <;> omega

/-- row by row: flat element `p` is entry `(p / n, p % n)`, a valid position of the 2-D array -/
theorem Interval.to2d_of_flat (a : ℕ → K) (len n p : ℕ) (hn : 0 < n) (hp : p < len) :
    Interval.to2d a len n (p / n) (p % n) = some (a p) ∧ p / n < Interval.rows len n ∧ p % n < n := by
  have h := Nat.div_add_mod p n
  rw [Nat.mul_comm] at h
  refine ⟨?_, ?_, Nat.mod_lt _ hn⟩
  · unfold Interval.to2d; rw [h, if_pos hp]
  · by_contra hc
    have h1 : Interval.rows len n * n ≤ p / n * n := Nat.mul_le_mul_right n (Nat.le_of_not_lt hc)
    have h2 := (Interval.rows_spec len n hn).1
    omega

/-- padding only occurs in the last row, and the last row is not empty -/
theorem Interval.to2d_present (a : ℕ → K) (len n r c : ℕ) (hn : 0 < n) (hc : c < n) :
    (r + 1 < Interval.rows len n → Interval.to2d a len n r c = some (a (r * n + c))) ∧
      (r < Interval.rows len n → Interval.to2d a len n r 0 = some (a (r * n))) := by
  constructor
  · intro hr
    have := (Interval.rows_spec len n hn).2 (r + 1) hr
    rw [Nat.succ_mul] at this
    exact (Interval.to2d_entry a len n r c).1 (by omega)
  · intro hr
    have := (Interval.rows_spec len n hn).2 r hr
    exact (Interval.to2d_entry a len n r 0).1 (by omega)

/-- closed intervals: the first `n` columns are those of `to_2d_array`; column `n` of row `r` is the
first entry of row `r + 1`, and padding in the last row -/
theorem Interval.to2dClosed_entry (a : ℕ → K) (len n r : ℕ) (hn : 0 < n) :
    (∀ c, c < n → Interval.to2dClosed a len n r c = Interval.to2d a len n r c) ∧
      (r + 1 < Interval.rows len n →
        Interval.to2dClosed a len n r n = some (a ((r + 1) * n))) ∧
      (Interval.rows len n ≤ r + 1 → Interval.to2dClosed a len n r n = none) := by
  refine ⟨?_, ?_, ?_⟩
  · intro c hc; simp [Interval.to2dClosed, hc]
  · intro hr
    have := (Interval.to2d_present a len n (r + 1) 0 hn hn).2 hr
    simp [Interval.to2dClosed, hr, this]
  · intro hr
    have : ¬ r + 1 < Interval.rows len n := by omega
    simp [Interval.to2dClosed, this]

/-- `drop_last` removes the last row -/
theorem Interval.rowsClosed_eq (len n : ℕ) :
    Interval.rowsClosed len n true = Interval.rows len n - 1 ∧
      Interval.rowsClosed len n false = Interval.rows len n := by
  simp [Interval.rowsClosed]

/-- a full row has `n` present entries -/
theorem Interval.rowCount_full (len n r : ℕ) (h : (r + 1) * n ≤ len) :
    Interval.rowCount len n r = n := by
  unfold Interval.rowCount; rw [Nat.succ_mul] at h; omega

/-- the last (possibly partial) row has the remaining `len - r * n` entries -/
theorem Interval.rowCount_last (len n r : ℕ) (h : len ≤ (r + 1) * n) :
    Interval.rowCount len n r = len - r * n := by
  unfold Interval.rowCount; rw [Nat.succ_mul] at h; omega

/-- `rowCount` counts exactly the non-padding entries of row `r`, which form a prefix of the row -/
theorem Interval.rowCount_spec (a : ℕ → K) (len n r c : ℕ) (hc : c < n) :
    c < Interval.rowCount len n r ↔ (Interval.to2d a len n r c).isSome = true := by
  unfold Interval.rowCount Interval.to2d
  split <;> simp <;> omega

/-- every row of the 2-D array has at least one present entry (`nanmean` never sees an empty row) -/
theorem Interval.rowCount_pos (len n r : ℕ) (hn : 0 < n) (hr : r < Interval.rows len n) :
    Interval.rowCount len n r ≠ 0 := by
  have := (Interval.rows_spec len n hn).2 r hr
  unfold Interval.rowCount; omega

/-! ## `process.average` -/

/-- the block average of row `r` is the mean of its present entries -/
theorem Interval.averageY_eq (y : ℕ → K) (len n r : ℕ) (h : Interval.rowCount len n r ≠ 0) :
    Interval.averageY y len n r * (Interval.rowCount len n r : K)
      = ∑ i ∈ range (Interval.rowCount len n r), y (r * n + i) := by
  have h0 : ((Interval.rowCount len n r : ℕ) : K) ≠ 0 := by exact_mod_cast h
  unfold Interval.averageY
  rw [sumTo_eq_sum, div_mul_cancel₀ _ h0]
  rfl

/-- the abscissa of row `r` is the row's first entry -/
theorem Interval.averageX_eq (x : ℕ → K) (len n r : ℕ) (h : r * n < len) :
    Interval.averageX x n r = x (r * n) ∧
      Interval.to2d x len n r 0 = some (Interval.averageX x n r) := by
  refine ⟨rfl, ?_⟩
  simpa [Interval.averageX] using (Interval.to2d_entry x len n r 0).1 (by omega)

/-- the 2-D view of an `n`-fold oversampling of `m` points has `m` rows -/
theorem rows_oversampleLen (m n : ℕ) (hn : 2 ≤ n) (hm : 1 ≤ m) :
    Interval.rows (oversampleLen m n) n = m := by
  rw [oversampleLen_eq m n hn]
  have h1 : ((m - 1) * n + 1) % n = 1 := by
    rw [mul_add_mod_of_lt (m - 1) (by omega : 1 < n)]
  have h2 : ((m - 1) * n + 1) / n = m - 1 := mul_add_div_of_lt (m - 1) (by omega : 1 < n)
  unfold Interval.rows
  rw [h1, h2, if_neg (by omega)]; omega

/-- averaging an `n`-fold piecewise-constant oversampling over blocks of `n` returns the input:
full rows -/
theorem average_oversamplePC_roundtrip (y : ℕ → K) (m n k : ℕ) (hn : 2 ≤ n) (hk : k < m - 1) :
    Interval.averageY (oversamplePC y n) (oversampleLen m n) n k = y k := by
  have hn0 : (n : K) ≠ 0 := natCast_ne_zero_of_two_le hn
  have hc : Interval.rowCount (oversampleLen m n) n k = n := by
    apply Interval.rowCount_full
    rw [oversampleLen_eq m n hn]
    have : (k + 1) * n ≤ (m - 1) * n := Nat.mul_le_mul_right n hk
    omega
  unfold Interval.averageY
  rw [hc, sumTo_eq_sum]
  have : ∀ i ∈ range n, win (oversamplePC y n) (k * n) i = y k := by
    intro i hi
    rw [win_apply]
    exact oversamplePC_apply y k hn (mem_range.mp hi)
  rw [sum_congr rfl this, sum_const, card_range, nsmul_eq_mul, mul_div_cancel_left₀ _ hn0]

/-- … and the last row, which holds the single final sample -/
theorem average_oversamplePC_roundtrip_last (y : ℕ → K) (m n : ℕ) (hn : 2 ≤ n) (_hm : 1 ≤ m) :
    Interval.averageY (oversamplePC y n) (oversampleLen m n) n (m - 1) = y (m - 1) := by
  have hc : Interval.rowCount (oversampleLen m n) n (m - 1) = 1 := by
    rw [oversampleLen_eq m n hn]; unfold Interval.rowCount; omega
  unfold Interval.averageY
  rw [hc]
  have := oversamplePC_apply y (j := 0) (m - 1) hn (by omega)
  simp only [Nat.add_zero] at this
  simp [sumTo, this]

/-- the abscissae come back as well -/
theorem average_oversampleLin_x (x : ℕ → K) (n k : ℕ) (hn : 2 ≤ n) :
    Interval.averageX (oversampleLin x n) n k = x k :=
  oversampleLin_knot x n k hn

/-! ## integrals, `sum_over_indices` -/

theorem integralAt_trapezoid (x y : ℕ → K) (i : ℕ) :
    integralAt .trapezoid x y i = (y i + y (i + 1)) / 2 * (x (i + 1) - x i) := by
  simp [integralAt]

theorem integralAt_rectangle (x y : ℕ → K) (i : ℕ) :
    integralAt .rectangle x y i = y i * (x (i + 1) - x i) := rfl

theorem integralSum_eq (r : Rule) (N : ℕ) (x y : ℕ → K) :
    integralSum r N x y = ∑ i ∈ range N, integralAt r x y i :=
  sumTo_eq_sum _ _

theorem sumRange_eq_sum_Ico (a : ℕ → K) (s e : ℕ) : sumRange a s e = ∑ i ∈ Ico s e, a i :=
  TWV.sumRange_eq_sum_Ico a s e

theorem sumOverIndices_length (a : ℕ → K) (R : List ℕ) :
    (sumOverIndices a R).length = R.length - 1 :=
  sumOverIndices_len a R

/-- entry `k` is the sum of `a` over `R[k] ≤ i < R[k+1]` -/
theorem sumOverIndices_getElem (a : ℕ → K) (R : List ℕ) (k : ℕ) (h : k + 1 < R.length) :
    (sumOverIndices a R)[k]'(by rw [sumOverIndices_len]; omega)
      = sumRange a (R[k]'(by omega)) (R[k + 1]'h) := by
  rw [List.getElem_eq_iff]
  exact sumOverIndices_get a R k h

/-! ## Non-vacuity: the docstring examples of the Python sources, over `ℚ` -/

/-- the array `[1, 2, 3, …]` -/
private def ex : ℕ → ℚ := fun i => (i : ℚ) + 1

-- `oversample_linspace([1, 2, 3], 4) = [1, 1.25, 1.5, 1.75, 2, 2.25, …, 3]`
example : oversampleLin ex 4 5 = 9 / 4 ∧ oversampleLin ex 4 8 = 3 ∧ oversampleLen 3 4 = 9 := by
  norm_num [oversampleLin, oversampleLen, ex]
example : oversamplePC ex 4 7 = 2 ∧ oversamplePC ex 4 8 = 3 := by
  norm_num [oversamplePC, ex]
example : StrictIncr (3 - 1) ex := by intro i _; simp [ex]
example : StrictIncr ((3 - 1) * 4) (oversampleLin ex 4) :=
  oversampleLin_strictIncr ex 3 4 (by intro i _; simp [ex]) (by norm_num) (by norm_num)
-- `extend_linspace([1, 2, 3], 2, 'both') = [-1, 0, 1, 2, 3, 4, 5]`
example : (List.range 7).map (extendLin ex 3 2 .both none none) = [-1, 0, 1, 2, 3, 4, 5] := by
  simp [List.range, List.range.loop, extendLin, extendLinLeft, extendLinRight,
    Direction.hasLeft, Direction.hasRight, ex]
  norm_num
-- `extend_linspace([1, 2, 3], 4, 'right', rstop=4) = [1, 2, 3, 3.25, 3.5, 3.75, 4]`
example : extendLin ex 3 4 .right none (some 4) (3 + 1) = 7 / 2 ∧
    extendLin ex 3 4 .right none (some 4) (3 + (4 - 1)) = 4 := by
  simp [extendLin, extendLinRight, Direction.hasLeft, Direction.hasRight, ex]
  norm_num
-- `extend_constant([1, 2, 3], 2, 'both') = [1, 1, 1, 2, 3, 3, 3]`
example : (List.range 7).map (extendConst ex 3 2 .both) = [1, 1, 1, 2, 3, 3, 3] := by
  simp [List.range, List.range.loop, extendConst, Direction.hasLeft, Direction.hasRight, ex]
  norm_num
example : appendOneX ex 3 3 = 4 ∧ appendOneY ex 3 true 3 = 1 ∧ appendOneY ex 3 false 3 = 3 := by
  norm_num [appendOneX, appendOneY, ex]
-- `IntervalArray(arange(9), 5)[1, 2] = 7`
example : Interval.get (fun i => (i : ℚ)) 9 5 1 2 = .ok 7 := by
  have := Interval.get_ok (fun i => (i : ℚ)) 9 5 1 2 (by norm_num)
  simpa using this
example : Interval.get (fun i => (i : ℚ)) 9 5 1 (-2) = .ok 3 := by
  have := Interval.get_ok_neg (fun i => (i : ℚ)) 9 5 1 2 (by norm_num) (by norm_num)
  simpa using this
example : Interval.get (fun i => (i : ℚ)) 9 5 1 4 = .error .indexError := by
  have := (Interval.get_out_of_range (fun i => (i : ℚ)) 9 5 1 4 0 (by norm_num)).1
  simpa using this
-- `IntervalArray(arange(10), 4).to_2d_array()` has 3 rows, last row `[8, 9, nan, nan]`
example : Interval.rows 10 4 = 3 ∧ Interval.to2d (fun i => (i : ℚ)) 10 4 2 1 = some 9 ∧
    Interval.to2d (fun i => (i : ℚ)) 10 4 2 2 = none ∧
    Interval.to2dClosed (fun i => (i : ℚ)) 10 4 1 4 = some 8 ∧
    Interval.to2dClosed (fun i => (i : ℚ)) 10 4 2 4 = none ∧
    Interval.rowCount 10 4 2 = 2 := by
  norm_num [Interval.rows, Interval.to2d, Interval.to2dClosed, Interval.rowCount]
example : Interval.averageY (fun i => (i : ℚ)) 10 4 2 = 17 / 2 := by
  norm_num [Interval.averageY, Interval.rowCount, sumTo, win]
example : Interval.averageY (oversamplePC ex 4) (oversampleLen 3 4) 4 1 = 2 :=
  (average_oversamplePC_roundtrip ex 3 4 1 (by norm_num) (by norm_num)).trans (by norm_num [ex])
-- `sum_over_indices(arange(11), [0, 3, 6, 10]) = [3, 12, 30]`
example : sumOverIndices (fun i => (i : ℚ)) [0, 3, 6, 10] = [3, 12, 30] := by
  norm_num [sumOverIndices, sumRange, sumTo, win]

end TWV.C17
