import TWV.Lemmas.Match
import TWV.Lemmas.PowInstances

/-!
# C01 — integral matching reproduces the reference integrals

"When a sampled function is integral-matched against a reference function, the integral of the
result between each pair of consecutive fixed points equals the integral of the reference over the
corresponding reference interval, whichever of the two integration rules (trapezoid, rectangle) is
chosen for either side and for any positive stretch exponent.  Consequently the integral between
the first and the last fixed point equals the reference's total."

`r : Rule` ranges over both rules, `pw` over every `PowLike` function (every `t ↦ t ^ α`, `α > 0`,
see `matchRef_real_alpha`), the three ways of designating fixed points are the arguments
`fpx`, `fpi` of `fixedPoints`.
-/

set_option linter.unusedSectionVars false

namespace TWV.C01

variable {K : Type} [Field K] [LinearOrder K] [IsStrictOrderedRing K]

/-- 1. the stretched window has exactly the target integral (both rules) -/
theorem stretch_integral (r : Rule) (pw : K → K) (hp : PowLike pw) (N : ℕ) (x y : ℕ → K) (I : K)
    (hx : StrictIncr N x) (hN : 1 ≤ N) : integralSum r N x (stretch r pw N x y I) = I :=
  stretch_integral' r pw hp N x y I hx hN

/-- the denominator of `y_hat` is positive, in particular non-zero -/
theorem stretchDenom_pos (r : Rule) (pw : K → K) (hp : PowLike pw) (N : ℕ) (x : ℕ → K)
    (hx : StrictIncr N x) (hN : 1 ≤ N) : 0 < stretchDenom r pw N x :=
  TWV.stretchDenom_pos r pw hp N x hx hN

/-- 2. after the loop every window of a chain carries its target integral -/
theorem loop_integrals (r : Rule) (pw : K → K) (hp : PowLike pw) (x y : ℕ → K)
    (ws : List (ℕ × ℕ × K)) (lo : ℕ) (hc : Chain x lo ws) :
    ∀ w ∈ ws, winIntegral r x (loop r pw x ws y) w.1 w.2.1 = w.2.2 :=
  loop_integrals' r pw hp x ws lo y hc

/-- 3. the array-level loop the driver runs computes `loop` -/
theorem loopA_eq_loop (r : Rule) (pw : K → K) (x : ℕ → K) (ws : List (ℕ × ℕ × K)) (y : Array K)
    (h : ∀ w ∈ ws, w.2.1 < y.size) :
    (∀ j, arrFn (loopA r pw x ws y) j = loop r pw x ws (arrFn y) j) ∧
      (loopA r pw x ws y).size = y.size :=
  loopA_eq_loop' r pw x ws y h

/-- 4. `zip(integral_values, F[:-1], F[1:])` is a chain, and its `k`-th entry is what it should be -/
theorem windows_chain (n : ℕ) (x : ℕ → K) (hx : StrictIncr n x) (F : List ℕ) (Is : List K)
    (hF : F.Pairwise (fun a b => a + 2 ≤ b)) (hb : ∀ f ∈ F, f < n + 1) :
    Chain x 0 (windows Is F) ∧ (windows Is F).length = min Is.length (F.length - 1) ∧
      ∀ (k : ℕ) (h1 : k < Is.length) (h2 : k + 1 < F.length),
        (windows Is F)[k]? = some (F[k], F[k + 1], Is[k]) :=
  ⟨windows_chain' n x hx F Is 0 hF (fun f hf => ⟨Nat.zero_le _, hb f hf⟩), windows_length F Is,
    windows_getElem? F Is⟩

/-- 5a. `sum_over_indices` -/
theorem sumOverIndices_get (a : ℕ → K) (R : List ℕ) :
    (sumOverIndices a R).length = R.length - 1 ∧
      ∀ (k : ℕ) (h : k + 1 < R.length),
        (sumOverIndices a R)[k]'(by rw [sumOverIndices_length]; omega) = sumRange a R[k] R[k + 1] :=
  ⟨sumOverIndices_length a R, sumOverIndices_getElem a R⟩

/-- 5b. the reference integral between the reference points `s` and `e` -/
theorem sumRange_integral (rr : Rule) (xr yr : ℕ → K) (s e : ℕ) (_hse : s ≤ e) :
    sumRange (integralAt rr xr yr) s e = ∑ i ∈ Finset.Ico s e, integralAt rr xr yr i :=
  sumRange_eq_sum _ s e

/-- the integral of the target over the window `[s, e]` is the same kind of sum -/
theorem winIntegral_eq (r : Rule) (x y : ℕ → K) (s e : ℕ) :
    winIntegral r x y s e = ∑ i ∈ Finset.Ico s e, integralAt r x y i := by
  rw [winIntegral_eq_sumRange, sumRange_eq_sum]

/-- 6. **the property**: between consecutive fixed points the result has the reference's integral -/
theorem matchRef_intervals (pw : K → K) (hp : PowLike pw) (x y xref yref : List K)
    (fpx : Option (List K)) (fpi : Option (List ℕ)) (strategy target refRule : String)
    (fp : FixedPoints K) (tr rr : Rule)
    (hx : x.Pairwise (· < ·)) (hy : y.length = x.length)
    (hfp : fixedPoints x xref fpx fpi strategy = .ok fp)
    (htr : Rule.ofString? target = some tr) (hrr : Rule.ofString? refRule = some rr)
    (hlen : fp.idxRef.length = fp.idxX.length)
    (hint : fp.idxX.Pairwise (fun a b => a + 2 ≤ b)) (h2 : 2 ≤ fp.idxX.length) :
    ∃ z, matchRef pw x y xref yref fpx fpi strategy target refRule = .ok (some z) ∧
      z.length = x.length ∧
      ∀ (k : ℕ) (hk : k + 1 < fp.idxX.length),
        winIntegral tr (arrFn x.toArray) (arrFn z.toArray) fp.idxX[k] fp.idxX[k + 1] =
          sumRange (integralAt rr (arrFn xref.toArray) (arrFn yref.toArray))
            (fp.idxRef[k]'(by omega)) (fp.idxRef[k + 1]'(by omega)) := by
  have H : MatchHyp x xref fpx fpi strategy target refRule fp tr rr :=
    ⟨hx, hfp, htr, hrr, hlen, hint, h2⟩
  obtain ⟨z, hz, hzl, hzj⟩ := H.result pw hp y yref hy
  refine ⟨z, hz, hzl, ?_⟩
  intro k hk
  have hsort := List.pairwise_iff_getElem.mp hint k (k + 1) (by omega) hk (by omega)
  rw [winIntegral_congr tr _ _ _ _ _ (by omega) (fun j _ _ => hzj j)]
  exact loop_integrals' tr pw hp _ _ 0 _ (H.chain yref) _ (H.mem yref k hk)

/-- 8. the instance the code runs: `K = ℝ`, `pw t = t ^ α` for a real `α > 0` -/
theorem matchRef_real_alpha (α : ℝ) (hα : 0 < α) (x y xref yref : List ℝ)
    (fpx : Option (List ℝ)) (fpi : Option (List ℕ)) (strategy target refRule : String)
    (fp : FixedPoints ℝ) (tr rr : Rule)
    (hx : x.Pairwise (· < ·)) (hy : y.length = x.length)
    (hfp : fixedPoints x xref fpx fpi strategy = .ok fp)
    (htr : Rule.ofString? target = some tr) (hrr : Rule.ofString? refRule = some rr)
    (hlen : fp.idxRef.length = fp.idxX.length)
    (hint : fp.idxX.Pairwise (fun a b => a + 2 ≤ b)) (h2 : 2 ≤ fp.idxX.length) :
    ∃ z, matchRef (fun t : ℝ => t ^ α) x y xref yref fpx fpi strategy target refRule = .ok (some z) ∧
      z.length = x.length ∧
      ∀ (k : ℕ) (hk : k + 1 < fp.idxX.length),
        winIntegral tr (arrFn x.toArray) (arrFn z.toArray) fp.idxX[k] fp.idxX[k + 1] =
          sumRange (integralAt rr (arrFn xref.toArray) (arrFn yref.toArray))
            (fp.idxRef[k]'(by omega)) (fp.idxRef[k + 1]'(by omega)) :=
  matchRef_intervals _ (powLike_rpow α hα) x y xref yref fpx fpi strategy target refRule fp tr rr
    hx hy hfp htr hrr hlen hint h2

/-! ### 7. the total -/

/-- window integrals are additive over consecutive windows -/
theorem winIntegral_add (r : Rule) (x y : ℕ → K) (a b c : ℕ) (h1 : a ≤ b) (h2 : b ≤ c) :
    winIntegral r x y a b + winIntegral r x y b c = winIntegral r x y a c :=
  winIntegral_add' r x y a b c h1 h2

/-- the selected reference indices are strictly increasing (in all three modes) -/
theorem fixedPoints_idxRef_sorted (x xref : List K) (fpx : Option (List K)) (fpi : Option (List ℕ))
    (strategy : String) (fp : FixedPoints K) (h : fixedPoints x xref fpx fpi strategy = .ok fp) :
    fp.idxRef.Pairwise (· < ·) := fixedPoints_idxRef_sorted' h

/-- the fixed indices are indices of `x` (in all three modes) -/
theorem fixedPoints_idxX_lt (x xref : List K) (fpx : Option (List K)) (fpi : Option (List ℕ))
    (strategy : String) (fp : FixedPoints K) (h : fixedPoints x xref fpx fpi strategy = .ok fp) :
    ∀ i ∈ fp.idxX, i < x.length := TWV.fixedPoints_idxX_lt h

theorem whereIsin_lt (a v : List K) : ∀ i ∈ whereIsin a v, i < a.length := TWV.whereIsin_lt a v

theorem whereIsin_sorted (a v : List K) : (whereIsin a v).Pairwise (· < ·) :=
  TWV.whereIsin_sorted a v

/-- 7. the integral between the first and the last fixed point equals the reference's integral
between the first and the last selected reference point -/
theorem matchRef_total (pw : K → K) (hp : PowLike pw) (x y xref yref : List K)
    (fpx : Option (List K)) (fpi : Option (List ℕ)) (strategy target refRule : String)
    (fp : FixedPoints K) (tr rr : Rule)
    (hx : x.Pairwise (· < ·)) (hy : y.length = x.length)
    (hfp : fixedPoints x xref fpx fpi strategy = .ok fp)
    (htr : Rule.ofString? target = some tr) (hrr : Rule.ofString? refRule = some rr)
    (hlen : fp.idxRef.length = fp.idxX.length)
    (hint : fp.idxX.Pairwise (fun a b => a + 2 ≤ b)) (h2 : 2 ≤ fp.idxX.length) :
    ∃ z, matchRef pw x y xref yref fpx fpi strategy target refRule = .ok (some z) ∧
      ∀ (hX : fp.idxX ≠ []) (hR : fp.idxRef ≠ []),
        winIntegral tr (arrFn x.toArray) (arrFn z.toArray) (fp.idxX.head hX) (fp.idxX.getLast hX) =
          sumRange (integralAt rr (arrFn xref.toArray) (arrFn yref.toArray))
            (fp.idxRef.head hR) (fp.idxRef.getLast hR) := by
  have H : MatchHyp x xref fpx fpi strategy target refRule fp tr rr :=
    ⟨hx, hfp, htr, hrr, hlen, hint, h2⟩
  obtain ⟨z, hz, _, hzj⟩ := H.result pw hp y yref hy
  refine ⟨z, hz, ?_⟩
  intro hX hR
  rw [List.head_eq_getElem, List.getLast_eq_getElem, List.head_eq_getElem, List.getLast_eq_getElem]
  have := H.partial_sums yref (arrFn z.toArray)
    (H.windows_integral pw hp yref (arrFn y.toArray) _ hzj) (fp.idxX.length - 1) (by omega)
  simp only [hlen]
  exact this

/-! ### 9. default mode: the fixed points are exactly the samples the search selected -/

theorem fixedPoints_default_mem (x xref : List K) (strategy : String) (idx : List ℤ)
    (fp : FixedPoints K) (hx : x.Pairwise (· < ·))
    (hs : Search.find strategy true x xref = .ok idx)
    (hfp : fixedPoints x xref none none strategy = .ok fp) :
    (∀ i : ℕ, i ∈ fp.idxX ↔ (i : ℤ) ∈ idx) ∧ fp.idxRef = List.range xref.length :=
  fixedPoints_default_mem' x xref strategy idx fp hx hs hfp

/-! ### non-vacuity: the docstring example of `integral_matching_reference_stretch` over `ℚ` -/

section examples

private def exX : List ℚ := [0, 1/2, 1, 3/2, 2, 5/2, 3]
private def exY : List ℚ := [1, 3/2, 2, 5/2, 3, 7/2, 4]
private def exXr : List ℚ := [0, 1, 2, 3]
private def exYr : List ℚ := [5/2, 5/2, 4, 7/2]
private def exFp : FixedPoints ℚ :=
  { inX := [0, 1, 2, 3], idxX := [0, 2, 4, 6], idxRef := [0, 1, 2, 3] }

private theorem exFp_ok : fixedPoints exX exXr none none "closest" = .ok exFp := by
  have hu : uniqueK ([0, 1, 2, 3] : List ℚ) = [0, 1, 2, 3] := by
    unfold uniqueK
    rw [List.mergeSort_of_pairwise (by decide +kernel)]
    decide +kernel
  rw [fixedPoints_default_eq exX exXr "closest" [0, 2, 4, 6] [0, 1, 2, 3] (by decide +kernel)
    (by decide +kernel) (by rw [hu]; decide +kernel), hu,
    show whereIsin exX [0, 1, 2, 3] = [0, 2, 4, 6] by decide +kernel]
  rfl

/-- the model reproduces the documented output `[1, 3.5, 2, 4, 3, 4, 4]` -/
example : matchRef (fun t : ℚ => powN t 1) exX exY exXr exYr none none "closest" "trapezoid"
    "trapezoid" = .ok (some [1, 7/2, 2, 4, 3, 4, 4]) := by
  rw [matchRef_eq _ _ _ _ _ _ _ _ _ _ exFp .trapezoid .trapezoid exFp_ok (by decide +kernel)
    (by decide +kernel)]
  decide +kernel

/-- the hypotheses of `matchRef_intervals` hold for it -/
example : PowLike (fun t : ℚ => powN t 1) ∧ exX.Pairwise (· < ·) ∧ exY.length = exX.length ∧
    fixedPoints exX exXr none none "closest" = .ok exFp ∧
    Rule.ofString? "trapezoid" = some .trapezoid ∧
    exFp.idxRef.length = exFp.idxX.length ∧
    exFp.idxX.Pairwise (fun a b => a + 2 ≤ b) ∧ 2 ≤ exFp.idxX.length :=
  ⟨powLike_powN 1 le_rfl, by decide +kernel, by decide +kernel, exFp_ok, by decide +kernel,
    by decide +kernel, by decide +kernel, by decide +kernel⟩

/-- and so does its conclusion: e.g. the second interval `[x₂, x₄] = [1, 2]` carries the reference's
trapezoid integral `(5/2 + 4)/2 · 1 = 13/4` -/
example : winIntegral .trapezoid (arrFn exX.toArray)
    (arrFn ([1, 7/2, 2, 4, 3, 4, 4] : List ℚ).toArray) 2 4 = 13 / 4 ∧
    sumRange (integralAt .trapezoid (arrFn exXr.toArray) (arrFn exYr.toArray)) 1 2 = 13 / 4 := by
  decide +kernel

end examples

end TWV.C01
