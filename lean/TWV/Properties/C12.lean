import TWV.Lemmas.Arrays

/-!
# C12 — repeat is a periodic extension with the original spacing

"Repeating a series r times yields r*len samples whose values are the original values tiled r times
and whose abscissae are strictly increasing, reproduce the original spacing pattern inside every
copy, and continue across each junction with the series' last step; the first copy equals the
input.  Repeating once is the identity and repeating a times then b times equals repeating a*b
times."  (series of at least two points)

Model: `TWV/Model/Process.lean` (`repeatOffset`, `repeatX`, `repeatY`, `repeatLen`); `repeatOffset`
is the in-place recurrence of the Python loop (copy `c` is shifted by the span of the already
shifted copy `c - 1`).  The series has `n` samples, `period x n` below is the amount by which
consecutive copies are apart.
-/

set_option linter.unusedSectionVars false

namespace TWV.C12
open TWV TWV.Process Finset

variable {K : Type} [Field K] [LinearOrder K] [IsStrictOrderedRing K]

/-- the span of the series plus its last step -/
def period (x : ℕ → K) (n : ℕ) : K := (x (n - 1) - x 0) + (x (n - 1) - x (n - 2))

/-- the recurrence of the Python loop adds `c` periods to copy `c` -/
theorem repeatOffset_closed (x : ℕ → K) (n c : ℕ) :
    repeatOffset x n c = (c : K) * period x n :=
  repeatOffset_eq x n c

/-- sample `t` of copy `c`: the abscissa is shifted by `c` periods, the value is tiled; the result
has `n * r` samples -/
theorem repeat_closed (x y : ℕ → K) (n r c t : ℕ) (ht : t < n) :
    repeatX x n (c * n + t) = x t + (c : K) * period x n ∧
      repeatY y n (c * n + t) = y t ∧ repeatLen n r = n * r :=
  ⟨repeatX_apply x c ht, repeatY_apply y c ht, rfl⟩

/-- the first copy equals the input -/
theorem repeat_first_copy (x y : ℕ → K) (n j : ℕ) (hj : j < n) :
    repeatX x n j = x j ∧ repeatY y n j = y j := by
  have h1 := repeatX_apply x 0 hj
  have h2 := repeatY_apply y 0 hj
  simp only [Nat.zero_mul, Nat.zero_add] at h1 h2
  exact ⟨by simpa using h1, h2⟩

/-- inside every copy the original spacing pattern is reproduced -/
theorem repeat_spacing_inside (x : ℕ → K) (n c t : ℕ) (ht : t + 1 < n) :
    repeatX x n (c * n + (t + 1)) - repeatX x n (c * n + t) = x (t + 1) - x t := by
  rw [repeatX_apply x c ht, repeatX_apply x c (by omega : t < n)]; ring

/-- from the last sample of copy `c` to the first of copy `c + 1` the step is the series' last
step -/
theorem repeat_spacing_junction (x : ℕ → K) (n c : ℕ) (hn : 2 ≤ n) :
    repeatX x n ((c + 1) * n) - repeatX x n (c * n + (n - 1)) = x (n - 1) - x (n - 2) := by
  have h1 := repeatX_apply x (c + 1) (by omega : 0 < n)
  rw [Nat.add_zero] at h1
  rw [h1, repeatX_apply x c (by omega : n - 1 < n)]
  push_cast; ring

/-- the step from any sample to the next one -/
theorem repeat_step (x : ℕ → K) (n c t : ℕ) (hn : 2 ≤ n) (ht : t < n) :
    repeatX x n (c * n + t + 1) - repeatX x n (c * n + t)
      = if t + 1 < n then x (t + 1) - x t else x (n - 1) - x (n - 2) := by
  split
  · rename_i h
    rw [Nat.add_assoc]; exact repeat_spacing_inside x n c t h
  · rename_i h
    have e : t = n - 1 := by omega
    subst e
    have e' : c * n + (n - 1) + 1 = (c + 1) * n := by rw [Nat.succ_mul]; omega
    rw [e']; exact repeat_spacing_junction x n c hn

/-- the abscissae of the repeated series are strictly increasing -/
theorem repeat_strictIncr (x : ℕ → K) (n r : ℕ) (hn : 2 ≤ n) (h : StrictIncr (n - 1) x) :
    StrictIncr (n * r - 1) (repeatX x n) := by
  intro j _
  obtain ⟨c, t, ht, rfl⟩ := exists_decomp j n (by omega)
  have hs := repeat_step x n c t hn ht
  have hpos : 0 < repeatX x n (c * n + t + 1) - repeatX x n (c * n + t) := by
    rw [hs]
    split
    · exact sub_pos.mpr (h t (by omega))
    · have := h (n - 2) (by omega)
      have e : n - 2 + 1 = n - 1 := by omega
      rw [e] at this
      exact sub_pos.mpr this
  linarith

/-- repeating once is the identity -/
theorem repeat_one (x y : ℕ → K) (n j : ℕ) (hj : j < repeatLen n 1) :
    repeatLen n 1 = n ∧ repeatX x n j = x j ∧ repeatY y n j = y j := by
  have e : repeatLen n 1 = n := by simp [repeatLen]
  rw [e] at hj
  exact ⟨e, repeat_first_copy x y n j hj⟩

/-- the period of the `a`-fold repetition is `a` periods -/
theorem period_repeat (x : ℕ → K) (n a : ℕ) (hn : 2 ≤ n) (ha : 1 ≤ a) :
    period (repeatX x n) (n * a) = (a : K) * period x n := by
  have e1 : n * a - 1 = (a - 1) * n + (n - 1) := by
    have : n * a = (a - 1 + 1) * n := by rw [Nat.mul_comm]; congr 1; omega
    rw [this, Nat.succ_mul]; omega
  have e2 : n * a - 2 = (a - 1) * n + (n - 2) := by
    have : n * a = (a - 1 + 1) * n := by rw [Nat.mul_comm]; congr 1; omega
    rw [this, Nat.succ_mul]; omega
  have e0 : repeatX x n 0 = x 0 := (repeat_first_copy x x n 0 (by omega)).1
  have hc : ((a - 1 : ℕ) : K) = (a : K) - 1 := by
    rw [Nat.cast_sub ha]; simp
  unfold period
  rw [e1, e2, e0, repeatX_apply x (a - 1) (by omega : n - 1 < n),
    repeatX_apply x (a - 1) (by omega : n - 2 < n), hc]
  ring

/-- repeating `a` times and then `b` times equals repeating `a * b` times: same samples … -/
theorem repeat_mul (x y : ℕ → K) (n a : ℕ) (hn : 2 ≤ n) (ha : 1 ≤ a) (j : ℕ) :
    repeatX (repeatX x n) (n * a) j = repeatX x n j ∧
      repeatY (repeatY y n) (n * a) j = repeatY y n j := by
  constructor
  · have hna : 0 < n * a := Nat.mul_pos (by omega) ha
    obtain ⟨q, s, hs, rfl⟩ := exists_decomp j (n * a) hna
    obtain ⟨c, t, ht, rfl⟩ := exists_decomp s n (by omega)
    have e : q * (n * a) + (c * n + t) = (q * a + c) * n + t := by ring
    rw [repeatX_apply (repeatX x n) q hs, repeatX_apply x c ht, e,
      repeatX_apply x (q * a + c) ht]
    have hp := period_repeat x n a hn ha
    unfold period at hp
    rw [hp]; push_cast; ring
  · unfold repeatY
    rw [Nat.mod_mul_right_mod]

/-- … and same length -/
theorem repeatLen_mul (n a b : ℕ) : repeatLen (repeatLen n a) b = repeatLen n (a * b) := by
  unfold repeatLen; rw [Nat.mul_assoc]

/-! ## Non-vacuity, over `ℚ`: the series `x = [0, 1, 3]`, `y = [5, 6, 7]` -/

private def xs : ℕ → ℚ := fun i => if i = 0 then 0 else if i = 1 then 1 else 3
private def ys : ℕ → ℚ := fun i => (i : ℚ) + 5

example : StrictIncr (3 - 1) xs := by
  intro i hi
  have : i = 0 ∨ i = 1 := by omega
  rcases this with rfl | rfl <;> norm_num [xs]
example : period xs 3 = 5 := by norm_num [period, xs]
-- three copies: `[0, 1, 3, 5, 6, 8, 10, 11, 13]`
example : (List.range 9).map (repeatX xs 3) = [0, 1, 3, 5, 6, 8, 10, 11, 13] := by
  simp [List.range, List.range.loop, repeatX, repeatOffset, xs]
  norm_num
example : repeatY ys 3 7 = 6 ∧ repeatLen 3 3 = 9 := by norm_num [repeatY, repeatLen, ys]
example : StrictIncr (3 * 3 - 1) (repeatX xs 3) :=
  repeat_strictIncr xs 3 3 (by norm_num) (by
    intro i hi
    have : i = 0 ∨ i = 1 := by omega
    rcases this with rfl | rfl <;> norm_num [xs])

end TWV.C12
