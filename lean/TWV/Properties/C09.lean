import TWV.Lemmas.Weaver
import Mathlib.Algebra.Order.Field.Rat

/-!
# C09 — the Weaver state stays well-formed; caller data and the original are never corrupted

"After any sequence of valid operations the processed series is a pair of equal-length
one-dimensional NumPy arrays with finite values and strictly increasing abscissae.  Arrays handed in
by the caller are never modified, and the stored original never changes (except under normalisation,
which by design renormalises it).  After restore_original the object behaves, for every subsequent
operation, exactly like a newly constructed one on the data get_original() returns."

Model: `TWV/Model/Weaver.lean`.  Helper lemmas: `TWV/Lemmas/Weaver.lean`.

* The invariant `WF` speaks about all three series (working, reference, original), each with at
  least two samples: this is what is inductive (`restore` copies the original into the other two,
  `normX` renormalises all three, `appendOne`/`repeat` need two samples).
* "finite values" has no meaning over a field; its content here is that the only division this
  file's own code performs in a step, the one of `normalize`, has a positive denominator
  (`normX_defined`, `normY_defined`).  (Array kind is checked by the harness.)
-/

set_option linter.unusedSectionVars false

namespace TWV.C09
open TWV TWV.Weaver

variable {K : Type} [Field K] [LinearOrder K] [IsStrictOrderedRing K]

/-! ## The invariant and the valid operations -/

/-- well-formed state: the working, the reference and the original series are pairs of
equal-length lists with strictly increasing abscissae and at least two samples -/
def WF (s : State K) : Prop :=
  s.x.length = s.y.length ∧ s.x.Pairwise (· < ·) ∧
  s.rx.length = s.ry.length ∧ s.rx.Pairwise (· < ·) ∧
  s.ox.length = s.oy.length ∧ s.ox.Pairwise (· < ·) ∧
  2 ≤ s.x.length ∧ 2 ≤ s.rx.length ∧ 2 ≤ s.ox.length

theorem wf_mk {x y rx ry ox oy cx cy : List K} :
    WF { x := x, y := y, rx := rx, ry := ry, ox := ox, oy := oy, callerX := cx, callerY := cy } ↔
      (x.length = y.length ∧ x.Pairwise (· < ·) ∧ rx.length = ry.length ∧ rx.Pairwise (· < ·) ∧
       ox.length = oy.length ∧ ox.Pairwise (· < ·) ∧ 2 ≤ x.length ∧ 2 ≤ rx.length ∧ 2 ≤ ox.length) :=
  Iff.rfl

/-- the documented preconditions of every operation, in the state it is applied to -/
def Valid (s : State K) : Op K → Prop
  | .appendOne _ => True
  | .shiftX _ => True
  | .shiftY _ => True
  | .scaleX c => 0 < c
  | .scaleY _ => True
  | .normX lo hi => lo < hi
  | .normY lo hi => lo < hi
  | .repeat r => 1 ≤ r
  /- the range is accepted for the working and for the reference series and keeps at least two
  samples of each: the slices are `[a:b]` and `[a':b']` -/
  | .truncV l r lr rr => ∃ a b a' b',
      Process.truncateBounds s.x l r lr rr = .ok (a, b) ∧
      Process.truncateBounds s.rx l r lr rr = .ok (a', b') ∧
      a + 2 ≤ b ∧ a + 2 ≤ s.x.length ∧ a' + 2 ≤ b' ∧ a' + 2 ≤ s.rx.length
  | .truncI start stop =>
      0 ≤ start ∧ start + 2 ≤ stop.getD s.x.length ∧
      stop.getD s.x.length ≤ s.x.length ∧ stop.getD s.x.length ≤ s.rx.length
  | .recreate strategy _ n _ _ _ _ => 2 ≤ n ∧ (Rfa.Strategy.ofString? strategy).isSome
  | .recreateExt n ys => 2 ≤ n ∧ ys.length = Rfa.outLen s.x.length n.toNat
  /- the call succeeds with a defined result (C01/C03 say when) -/
  | .integralMatch pw fpx fpi st tg rf =>
      ∃ z, matchRef pw s.x s.y s.rx s.ry fpx fpi st tg rf = .ok (some z)
  | .interpN n method ext =>
      2 ≤ n ∧ ∃ m, Process.Method.ofString? method = some m ∧
        (m = .cubic ∨ m = .spline → ext.length = n)
  | .interpX g method ext =>
      g.Pairwise (· < ·) ∧ 2 ≤ g.length ∧ g.headD 0 = s.x.headD 0 ∧
      g.getLastD 0 = s.x.getLastD 0 ∧ ∃ m, Process.Method.ofString? method = some m ∧
        (m = .cubic ∨ m = .spline → ext.length = g.length)
  | .smooth ext => ext.length = s.y.length
  | .trendPoly _ _ => True
  | .noise draw => draw.length = s.y.length
  | .restore => True

/-- every operation of the program is valid in the state it is applied to -/
def ValidProgram (s : State K) : List (Op K) → Prop
  | [] => True
  | op :: ops => Valid s op ∧ ValidProgram (step s op).state ops

/-- a freshly constructed Weaver on strictly increasing abscissae is well-formed -/
theorem wf_init (x y : List K) (s₀ : State K) (h : init (some x) y = .ok s₀)
    (hx : x.Pairwise (· < ·)) (hl : 2 ≤ x.length) : WF s₀ := by
  obtain ⟨he, rfl⟩ := init_some_eq x y s₀ h
  exact ⟨he, hx, he, hx, he, hx, hl, hl, hl⟩

/-- `Weaver(None, y)`: the abscissae `0, 1, …` are strictly increasing -/
theorem wf_init_arange (y : List K) (s₀ : State K) (h : init none y = .ok s₀) (hl : 2 ≤ y.length) :
    WF s₀ := by
  obtain rfl := init_none_eq y s₀ h
  have hp : (ofFn y.length (fun i => (i : K))).Pairwise (· < ·) := by
    rw [pairwise_ofFn_iff]
    intro i _
    push_cast; linarith
  have hlen : (ofFn y.length (fun i => (i : K))).length = y.length := length_ofFn _ _
  exact wf_mk.mpr ⟨hlen, hp, hlen, hp, hlen, hp, by omega, by omega, by omega⟩

/-! ## One step, operation by operation -/

theorem wf_appendOne (s : State K) (p : Bool) (h : WF s) :
    (step s (.appendOne p)).err = none ∧ WF (step s (.appendOne p)).state := by
  obtain ⟨h1, h2, h3, h4, h5, h6, h7, h8, h9⟩ := h
  obtain ⟨x', y', e1, l1, l2, p1⟩ := appendOne_wf s.x s.y p h2 h7 h1
  obtain ⟨rx', ry', e2, l3, l4, p2⟩ := appendOne_wf s.rx s.ry p h4 h8 h3
  simp only [step, e1, e2]
  exact ⟨rfl, wf_mk.mpr ⟨by omega, p1, by omega, p2, h5, h6, by omega, by omega, h9⟩⟩

theorem wf_shiftX (s : State K) (d : K) (h : WF s) :
    (step s (.shiftX d)).err = none ∧ WF (step s (.shiftX d)).state := by
  obtain ⟨h1, h2, h3, h4, h5, h6, h7, h8, h9⟩ := h
  simp only [step]
  exact ⟨rfl, wf_mk.mpr ⟨by simpa using h1, pairwise_map_add _ d h2, by simpa using h3,
    pairwise_map_add _ d h4, h5, h6, by simpa using h7, by simpa using h8, h9⟩⟩

theorem wf_shiftY (s : State K) (d : K) (h : WF s) :
    (step s (.shiftY d)).err = none ∧ WF (step s (.shiftY d)).state := by
  obtain ⟨h1, h2, h3, h4, h5, h6, h7, h8, h9⟩ := h
  simp only [step]
  exact ⟨rfl, wf_mk.mpr ⟨by simpa using h1, h2, by simpa using h3, h4, h5, h6, h7, h8, h9⟩⟩

theorem wf_scaleX (s : State K) (c : K) (h : WF s) (hc : 0 < c) :
    (step s (.scaleX c)).err = none ∧ WF (step s (.scaleX c)).state := by
  obtain ⟨h1, h2, h3, h4, h5, h6, h7, h8, h9⟩ := h
  simp only [step]
  exact ⟨rfl, wf_mk.mpr ⟨by simpa using h1, pairwise_map_mul _ c hc h2, by simpa using h3,
    pairwise_map_mul _ c hc h4, h5, h6, by simpa using h7, by simpa using h8, h9⟩⟩

theorem wf_scaleY (s : State K) (c : K) (h : WF s) :
    (step s (.scaleY c)).err = none ∧ WF (step s (.scaleY c)).state := by
  obtain ⟨h1, h2, h3, h4, h5, h6, h7, h8, h9⟩ := h
  simp only [step]
  exact ⟨rfl, wf_mk.mpr ⟨by simpa using h1, h2, by simpa using h3, h4, h5, h6, h7, h8, h9⟩⟩

theorem wf_normX (s : State K) (lo hi : K) (h : WF s) (hlh : lo < hi) :
    (step s (.normX lo hi)).err = none ∧ WF (step s (.normX lo hi)).state := by
  obtain ⟨h1, h2, h3, h4, h5, h6, h7, h8, h9⟩ := h
  simp only [step]
  refine ⟨rfl, wf_mk.mpr ⟨?_, normalizeS_strictIncr _ lo hi h2 h7 hlh, ?_, normalizeS_strictIncr _ lo hi h4 h8 hlh,
    ?_, normalizeS_strictIncr _ lo hi h6 h9 hlh, ?_, ?_, ?_⟩⟩ <;>
  simp only [normalizeS_length] <;> assumption

theorem wf_normY (s : State K) (lo hi : K) (h : WF s) :
    (step s (.normY lo hi)).err = none ∧ WF (step s (.normY lo hi)).state := by
  obtain ⟨h1, h2, h3, h4, h5, h6, h7, h8, h9⟩ := h
  simp only [step]
  refine ⟨rfl, wf_mk.mpr ⟨?_, h2, ?_, h4, ?_, h6, h7, h8, h9⟩⟩ <;>
  simp only [normalizeS_length] <;> assumption

theorem wf_repeat (s : State K) (r : ℕ) (h : WF s) (hr : 1 ≤ r) :
    (step s (.repeat r)).err = none ∧ WF (step s (.repeat r)).state := by
  obtain ⟨h1, h2, h3, h4, h5, h6, h7, h8, h9⟩ := h
  have a1 := repeatS_length s.x s.y r
  have a2 := repeatS_length s.rx s.ry r
  have m1 : s.x.length * 1 ≤ s.x.length * r := Nat.mul_le_mul_left _ hr
  have m2 : s.rx.length * 1 ≤ s.rx.length * r := Nat.mul_le_mul_left _ hr
  simp only [step]
  refine ⟨rfl, wf_mk.mpr ⟨?_, repeatS_wf s.x s.y r h2 h7, ?_, repeatS_wf s.rx s.ry r h4 h8, h5, h6, ?_, ?_, h9⟩⟩
  · show (repeatS s.x s.y r).1.length = (repeatS s.x s.y r).2.length
    rw [a1.1, a1.2, h1]
  · show (repeatS s.rx s.ry r).1.length = (repeatS s.rx s.ry r).2.length
    rw [a2.1, a2.2, h3]
  · show 2 ≤ (repeatS s.x s.y r).1.length
    rw [a1.1]; omega
  · show 2 ≤ (repeatS s.rx s.ry r).1.length
    rw [a2.1]; omega

theorem wf_truncV (s : State K) (l r : K) (lr rr : Bool) (h : WF s)
    (hv : Valid s (.truncV l r lr rr)) :
    (step s (.truncV l r lr rr)).err = none ∧ WF (step s (.truncV l r lr rr)).state := by
  obtain ⟨h1, h2, h3, h4, h5, h6, h7, h8, h9⟩ := h
  obtain ⟨a, b, a', b', e1, e2, v1, v2, v3, v4⟩ := hv
  simp only [step, truncateS_eq s.x s.y l r lr rr a b e1, truncateS_eq s.rx s.ry l r lr rr a' b' e2]
  refine ⟨rfl, wf_mk.mpr ⟨?_, drop_take_pairwise _ _ _ h2, ?_, drop_take_pairwise _ _ _ h4, h5, h6, ?_, ?_, h9⟩⟩
  · simp only [length_drop_take]; omega
  · simp only [length_drop_take]; omega
  · simp only [length_drop_take]; omega
  · simp only [length_drop_take]; omega

/-- a checkable sufficient condition for the `truncV` precondition: the range (after the ratio
conversion, which uses each series' own end points) is not inverted and properly overlaps both the
working and the reference series -/
theorem valid_truncV (s : State K) (l r : K) (lr rr : Bool) (h : WF s)
    (hx : truncBound s.x l lr < truncBound s.x r rr ∧ truncBound s.x l lr < s.x.getLastD 0 ∧
      s.x.headD 0 < truncBound s.x r rr)
    (hrx : truncBound s.rx l lr < truncBound s.rx r rr ∧ truncBound s.rx l lr < s.rx.getLastD 0 ∧
      s.rx.headD 0 < truncBound s.rx r rr) :
    Valid s (.truncV l r lr rr) := by
  obtain ⟨h1, h2, h3, h4, h5, h6, h7, h8, h9⟩ := h
  obtain ⟨a, b, e1, v1, v2⟩ := truncateBounds_ok s.x l r lr rr h2 h7 hx.1 hx.2.1 hx.2.2
  obtain ⟨a', b', e2, v3, v4⟩ := truncateBounds_ok s.rx l r lr rr h4 h8 hrx.1 hrx.2.1 hrx.2.2
  exact ⟨a, b, a', b', e1, e2, v1, by omega, v3, by omega⟩

theorem wf_truncI (s : State K) (start : ℤ) (stop : Option ℤ) (h : WF s)
    (hv : Valid s (.truncI start stop)) :
    (step s (.truncI start stop)).err = none ∧ WF (step s (.truncI start stop)).state := by
  obtain ⟨h1, h2, h3, h4, h5, h6, h7, h8, h9⟩ := h
  obtain ⟨v1, v2, v3, v4⟩ := hv
  simp only [step, if_neg (not_lt.mpr v1), if_neg (not_lt.mpr v3)]
  refine ⟨rfl, wf_mk.mpr ⟨?_, pySlice_sublist _ _ _ h2, ?_, pySlice_sublist _ _ _ h4, h5, h6, ?_, ?_, h9⟩⟩
  · rw [pySlice_length _ _ _ v1 (by omega) v3, pySlice_length _ _ _ v1 (by omega) (by omega)]
  · rw [pySlice_length _ _ _ v1 (by omega) v4, pySlice_length _ _ _ v1 (by omega) (by omega)]
  · rw [pySlice_length _ _ _ v1 (by omega) v3]; omega
  · rw [pySlice_length _ _ _ v1 (by omega) v4]; omega

theorem wf_recreate (s : State K) (st : String) (pw : K → K) (n : ℤ) (aL aR bL bR : List ℕ)
    (h : WF s) (hv : Valid s (.recreate st pw n aL aR bL bR)) :
    (step s (.recreate st pw n aL aR bL bR)).err = none ∧
    WF (step s (.recreate st pw n aL aR bL bR)).state := by
  obtain ⟨h1, h2, h3, h4, h5, h6, h7, h8, h9⟩ := h
  obtain ⟨v1, v2⟩ := hv
  obtain ⟨st', hs⟩ := Option.isSome_iff_exists.mp v2
  have hn : 2 ≤ n.toNat := by omega
  obtain ⟨w1, w2⟩ := recreate_wf s.x n.toNat h2 h7 hn
  simp only [step, if_neg (not_lt.mpr v1), hs, rfa_run_ok st' pw _ _ _ _ _ hn]
  exact ⟨rfl, wf_mk.mpr ⟨by simp, w1, h3, h4, h5, h6, by simpa using w2, h8, h9⟩⟩

theorem wf_recreateExt (s : State K) (n : ℤ) (ys : List K) (h : WF s)
    (hv : Valid s (.recreateExt n ys)) :
    (step s (.recreateExt n ys)).err = none ∧ WF (step s (.recreateExt n ys)).state := by
  obtain ⟨h1, h2, h3, h4, h5, h6, h7, h8, h9⟩ := h
  obtain ⟨v1, v2⟩ := hv
  have hn : 2 ≤ n.toNat := by omega
  obtain ⟨w1, w2⟩ := recreate_wf s.x n.toNat h2 h7 hn
  simp only [step, if_neg (not_lt.mpr v1)]
  exact ⟨rfl, wf_mk.mpr ⟨by simpa using v2.symm, w1, h3, h4, h5, h6, by simpa using w2, h8, h9⟩⟩

theorem wf_integralMatch (s : State K) (pw : K → K) (fpx : Option (List K)) (fpi : Option (List ℕ))
    (st tg rf : String) (h : WF s) (hv : Valid s (.integralMatch pw fpx fpi st tg rf)) :
    (step s (.integralMatch pw fpx fpi st tg rf)).err = none ∧
    WF (step s (.integralMatch pw fpx fpi st tg rf)).state := by
  obtain ⟨h1, h2, h3, h4, h5, h6, h7, h8, h9⟩ := h
  obtain ⟨z, hz⟩ := hv
  have hl := match_length pw s.x s.y s.rx s.ry fpx fpi st tg rf z hz
  simp only [step, hz]
  exact ⟨rfl, wf_mk.mpr ⟨by omega, h2, h3, h4, h5, h6, h7, h8, h9⟩⟩

theorem wf_interpN (s : State K) (n : ℕ) (ms : String) (ext : List K) (h : WF s)
    (hv : Valid s (.interpN n ms ext)) :
    (step s (.interpN n ms ext)).err = none ∧ WF (step s (.interpN n ms ext)).state := by
  obtain ⟨h1, h2, h3, h4, h5, h6, h7, h8, h9⟩ := h
  obtain ⟨v1, m, hm, hext⟩ := hv
  obtain ⟨g1, g2, g3⟩ := linspace_wf (s.x.headD 0) (s.x.getLastD 0) n (head_lt_last s.x h2 h7) v1
  have hg0 : ofFn n (Process.linspaceAt (s.x.headD 0) (s.x.getLastD 0) n) ≠ [] := by
    intro hc
    have := congrArg List.length hc
    simp at this; omega
  obtain ⟨z, hz, hzl⟩ := interpolate_length s.x s.y _ m ms ext hm h2
    (by intro hc; rw [hc] at h7; simp at h7) g1 hg0 (by simpa using hext)
  simp only [step, hz]
  exact ⟨rfl, wf_mk.mpr ⟨by rw [hzl], g1, h3, h4, h5, h6, by simpa using v1, h8, h9⟩⟩

theorem wf_interpX (s : State K) (g : List K) (ms : String) (ext : List K) (h : WF s)
    (hv : Valid s (.interpX g ms ext)) :
    (step s (.interpX g ms ext)).err = none ∧ WF (step s (.interpX g ms ext)).state := by
  obtain ⟨h1, h2, h3, h4, h5, h6, h7, h8, h9⟩ := h
  obtain ⟨v1, v2, v3, v4, m, hm, hext⟩ := hv
  obtain ⟨z, hz, hzl⟩ := interpolate_length s.x s.y g m ms ext hm h2
    (by intro hc; rw [hc] at h7; simp at h7) v1 (by intro hc; rw [hc] at v2; simp at v2) hext
  have hne : ¬ (g.headD 0 ≠ s.x.headD 0 ∨ g.getLastD 0 ≠ s.x.getLastD 0) := by
    rw [not_or]; exact ⟨not_not.mpr v3, not_not.mpr v4⟩
  simp only [step, if_neg hne, hz]
  exact ⟨rfl, wf_mk.mpr ⟨by rw [hzl], v1, h3, h4, h5, h6, v2, h8, h9⟩⟩

theorem wf_smooth (s : State K) (ext : List K) (h : WF s) (hv : ext.length = s.y.length) :
    (step s (.smooth ext)).err = none ∧ WF (step s (.smooth ext)).state := by
  obtain ⟨h1, h2, h3, h4, h5, h6, h7, h8, h9⟩ := h
  simp only [step]
  exact ⟨rfl, wf_mk.mpr ⟨by omega, h2, h3, h4, h5, h6, h7, h8, h9⟩⟩

theorem wf_trendPoly (s : State K) (cs : List K) (nz : Bool) (h : WF s) :
    (step s (.trendPoly cs nz)).err = none ∧ WF (step s (.trendPoly cs nz)).state := by
  obtain ⟨h1, h2, h3, h4, h5, h6, h7, h8, h9⟩ := h
  simp only [step]
  exact ⟨rfl, wf_mk.mpr ⟨by simpa using h1, h2, h3, h4, h5, h6, h7, h8, h9⟩⟩

/-- (the documented precondition `draw.length = s.y.length` is not needed for well-formedness) -/
theorem wf_noise (s : State K) (d : List K) (h : WF s) :
    (step s (.noise d)).err = none ∧ WF (step s (.noise d)).state := by
  obtain ⟨h1, h2, h3, h4, h5, h6, h7, h8, h9⟩ := h
  simp only [step]
  exact ⟨rfl, wf_mk.mpr ⟨by simpa using h1, h2, h3, h4, h5, h6, h7, h8, h9⟩⟩

theorem wf_restore (s : State K) (h : WF s) :
    (step s .restore).err = none ∧ WF (step s .restore).state := by
  obtain ⟨h1, h2, h3, h4, h5, h6, h7, h8, h9⟩ := h
  simp only [step]
  exact ⟨rfl, wf_mk.mpr ⟨h5, h6, h5, h6, h5, h6, h9, h9, h9⟩⟩

/-! ## Every operation, every program -/

/-- **C09, invariant.**  A valid operation on a well-formed state succeeds and leaves a
well-formed state — for all 19 kinds of operation. -/
theorem wf_step (s : State K) (op : Op K) (h : WF s) (hv : Valid s op) :
    (step s op).err = none ∧ WF (step s op).state := by
  cases op with
  | appendOne p => exact wf_appendOne s p h
  | shiftX d => exact wf_shiftX s d h
  | shiftY d => exact wf_shiftY s d h
  | scaleX c => exact wf_scaleX s c h hv
  | scaleY c => exact wf_scaleY s c h
  | normX lo hi => exact wf_normX s lo hi h hv
  | normY lo hi => exact wf_normY s lo hi h
  | «repeat» r => exact wf_repeat s r h hv
  | truncV l r lr rr => exact wf_truncV s l r lr rr h hv
  | truncI a b => exact wf_truncI s a b h hv
  | recreate st pw n aL aR bL bR => exact wf_recreate s st pw n aL aR bL bR h hv
  | recreateExt n ys => exact wf_recreateExt s n ys h hv
  | integralMatch pw fpx fpi st tg rf => exact wf_integralMatch s pw fpx fpi st tg rf h hv
  | interpN n m ext => exact wf_interpN s n m ext h hv
  | interpX g m ext => exact wf_interpX s g m ext h hv
  | smooth ext => exact wf_smooth s ext h hv
  | trendPoly cs nz => exact wf_trendPoly s cs nz h
  | noise d => exact wf_noise s d h
  | restore => exact wf_restore s h

/-- **C09, any sequence of valid operations**: the program runs without error and ends in a
well-formed state: equal lengths, strictly increasing abscissae (working, reference, original) -/
theorem wf_program (s : State K) (ops : List (Op K)) (h : WF s) (hv : ValidProgram s ops) :
    (runOps s ops).err = none ∧ WF (runOps s ops).state := by
  induction ops generalizing s with
  | nil => exact ⟨rfl, h⟩
  | cons op ops ih =>
    obtain ⟨hv1, hv2⟩ := hv
    obtain ⟨e, w⟩ := wf_step s op h hv1
    have hr : runOps s (op :: ops) = runOps (step s op).state ops := by simp [runOps, e]
    rw [hr]
    exact ih _ w hv2

/-- for a freshly constructed Weaver -/
theorem wf_history (x y : List K) (s₀ : State K) (h₀ : init (some x) y = .ok s₀)
    (hx : x.Pairwise (· < ·)) (hl : 2 ≤ x.length) (ops : List (Op K)) (hv : ValidProgram s₀ ops) :
    (runOps s₀ ops).err = none ∧ WF (runOps s₀ ops).state :=
  wf_program s₀ ops (wf_init x y s₀ h₀ hx hl) hv

/-! ## "finite values": the divisions of `normalize` are defined -/

/-- under `WF` the denominator `max - min` of `normalize_x` is positive for all three series -/
theorem normX_defined (s : State K) (h : WF s) :
    0 < maxTo (fnOf s.x) (s.x.length - 1) - minTo (fnOf s.x) (s.x.length - 1) ∧
    0 < maxTo (fnOf s.rx) (s.rx.length - 1) - minTo (fnOf s.rx) (s.rx.length - 1) ∧
    0 < maxTo (fnOf s.ox) (s.ox.length - 1) - minTo (fnOf s.ox) (s.ox.length - 1) := by
  obtain ⟨h1, h2, h3, h4, h5, h6, h7, h8, h9⟩ := h
  exact ⟨normalize_denom_pos _ h2 h7, normalize_denom_pos _ h4 h8, normalize_denom_pos _ h6 h9⟩

/-- the denominator of `normalize_y` is positive as soon as the ordinates are not all equal -/
theorem normY_defined (y : List K) (i j : ℕ) (hi : i < y.length) (hj : j < y.length)
    (hne : y[i] ≠ y[j]) :
    0 < maxTo (fnOf y) (y.length - 1) - minTo (fnOf y) (y.length - 1) :=
  normalize_denom_pos_of_ne y i j hi hj hne

/-- the spacing `(b - a) / (n - 1)` of the grid `interpolate(n=…)` builds has a non-zero
denominator -/
theorem interpN_defined (n : ℕ) (hn : 2 ≤ n) : ((n - 1 : ℕ) : K) ≠ 0 := by
  have : 0 < n - 1 := by omega
  exact_mod_cast (ne_of_gt this)

/-! ## Caller data and the original -/

/-- arrays handed in by the caller are never modified -/
theorem caller_untouched (s : State K) (op : Op K) :
    (step s op).state.callerX = s.callerX ∧ (step s op).state.callerY = s.callerY :=
  step_caller s op

theorem caller_untouched_run (s : State K) (ops : List (Op K)) :
    (runOps s ops).state.callerX = s.callerX ∧ (runOps s ops).state.callerY = s.callerY :=
  runOps_caller s ops

/-- in particular the arrays given to the constructor -/
theorem caller_untouched_history (x y : List K) (s₀ : State K) (h₀ : init (some x) y = .ok s₀)
    (ops : List (Op K)) :
    (runOps s₀ ops).state.callerX = x ∧ (runOps s₀ ops).state.callerY = y := by
  obtain ⟨_, rfl⟩ := init_some_eq x y s₀ h₀
  exact runOps_caller _ ops

/-- no step result depends on the caller's arrays -/
theorem caller_irrelevant (s : State K) (cx cy : List K) (op : Op K) :
    step (setCaller s cx cy) op = ⟨setCaller (step s op).state cx cy, (step s op).err⟩ :=
  step_setCaller s cx cy op

/-- the stored original never changes, except under normalisation -/
theorem original_frame (s : State K) (op : Op K) (hx : ∀ lo hi, op ≠ .normX lo hi)
    (hy : ∀ lo hi, op ≠ .normY lo hi) :
    (step s op).state.ox = s.ox ∧ (step s op).state.oy = s.oy :=
  step_original_frame s op hx hy

/-- … along any program without normalisation -/
theorem original_frame_run (s : State K) (ops : List (Op K))
    (hx : ∀ lo hi, Op.normX lo hi ∉ ops) (hy : ∀ lo hi, Op.normY lo hi ∉ ops) :
    (runOps s ops).state.ox = s.ox ∧ (runOps s ops).state.oy = s.oy := by
  induction ops generalizing s with
  | nil => exact ⟨rfl, rfl⟩
  | cons op ops ih =>
    have h1 := step_original_frame s op
      (fun lo hi hc => hx lo hi (hc ▸ List.mem_cons_self))
      (fun lo hi hc => hy lo hi (hc ▸ List.mem_cons_self))
    simp only [runOps]
    split
    · exact h1
    · obtain ⟨i1, i2⟩ := ih (step s op).state
        (fun lo hi hc => hx lo hi (List.mem_cons_of_mem _ hc))
        (fun lo hi hc => hy lo hi (List.mem_cons_of_mem _ hc))
      exact ⟨i1.trans h1.1, i2.trans h1.2⟩

/-- normalisation renormalises the original by design -/
theorem original_norm (s : State K) (lo hi : K) :
    (step s (.normX lo hi)).state.ox = normalizeS s.ox lo hi ∧
    (step s (.normX lo hi)).state.oy = s.oy ∧
    (step s (.normY lo hi)).state.oy = normalizeS s.oy lo hi ∧
    (step s (.normY lo hi)).state.ox = s.ox := by
  simp [step]

/-! ## `restore_original` gives a fresh object -/

/-- two states with the same six series (they may differ in what the caller handed in) -/
def SameSeries (s t : State K) : Prop :=
  s.x = t.x ∧ s.y = t.y ∧ s.rx = t.rx ∧ s.ry = t.ry ∧ s.ox = t.ox ∧ s.oy = t.oy

theorem SameSeries.refl (s : State K) : SameSeries s s := ⟨rfl, rfl, rfl, rfl, rfl, rfl⟩

theorem SameSeries.eq_setCaller {s t : State K} (h : SameSeries s t) :
    t = setCaller s t.callerX t.callerY := by
  obtain ⟨h1, h2, h3, h4, h5, h6⟩ := h
  obtain ⟨x, y, rx, ry, ox, oy, cx, cy⟩ := s
  obtain ⟨x', y', rx', ry', ox', oy', cx', cy'⟩ := t
  simp only at h1 h2 h3 h4 h5 h6
  subst h1 h2 h3 h4 h5 h6
  rfl

/-- (a) after `restore_original` the six series are those of a Weaver newly constructed on the
data `get_original()` returns -/
theorem restore_fresh_state (s s₁ : State K) (h : init (some s.ox) s.oy = .ok s₁) :
    SameSeries (step s .restore).state s₁ := by
  obtain ⟨_, rfl⟩ := init_some_eq _ _ _ h
  exact ⟨rfl, rfl, rfl, rfl, rfl, rfl⟩

/-- … and that constructor call succeeds on a well-formed state -/
theorem restore_fresh_init (s : State K) (h : s.ox.length = s.oy.length) :
    ∃ s₁, init (some s.ox) s.oy = .ok s₁ := ⟨_, init_some_ok _ _ h⟩

/-- (b) one step cannot tell two states with the same series apart -/
theorem step_sameSeries (s t : State K) (op : Op K) (h : SameSeries s t) :
    SameSeries (step s op).state (step t op).state ∧ (step s op).err = (step t op).err := by
  have ht := h.eq_setCaller
  generalize t.callerX = cx at ht
  generalize t.callerY = cy at ht
  subst ht
  rw [step_setCaller s cx cy op]
  exact ⟨⟨rfl, rfl, rfl, rfl, rfl, rfl⟩, rfl⟩

/-- (c) … nor can any program -/
theorem runOps_sameSeries (s t : State K) (ops : List (Op K)) (h : SameSeries s t) :
    SameSeries (runOps s ops).state (runOps t ops).state ∧
    (runOps s ops).err = (runOps t ops).err := by
  induction ops generalizing s t with
  | nil => exact ⟨h, rfl⟩
  | cons op ops ih =>
    obtain ⟨h1, h2⟩ := step_sameSeries s t op h
    simp only [runOps]
    rw [← h2]
    cases (step s op).err with
    | some e => exact ⟨h1, h2 ▸ rfl⟩
    | none => exact ih _ _ h1

/-- the read-only queries agree as well -/
theorem sliceByIndex_sameSeries (s t : State K) (h : SameSeries s t) (a : ℤ) (b : Option ℤ)
    (stp : ℕ) : sliceByIndex s a b stp = sliceByIndex t a b stp := by
  simp only [sliceByIndex, h.1, h.2.1]

theorem sliceByValue_sameSeries (s t : State K) (h : SameSeries s t) (a b : Option K)
    (stp : ℕ) : sliceByValue s a b stp = sliceByValue t a b stp := by
  simp only [sliceByValue, h.1, sliceByIndex_sameSeries s t h]

/-- **C09, restore.**  After `restore_original` the object behaves, for every subsequent program
`ops` (and for the queries), exactly like a Weaver newly constructed on the data `get_original()`
returns: same series after every program, same error. -/
theorem restore_fresh (s s₁ : State K) (h : init (some s.ox) s.oy = .ok s₁) (ops : List (Op K)) :
    SameSeries (runOps (step s .restore).state ops).state (runOps s₁ ops).state ∧
    (runOps (step s .restore).state ops).err = (runOps s₁ ops).err :=
  runOps_sameSeries _ _ ops (restore_fresh_state s s₁ h)

theorem restore_fresh_queries (s s₁ : State K) (h : init (some s.ox) s.oy = .ok s₁)
    (ops : List (Op K)) (a : ℤ) (b : Option ℤ) (va vb : Option K) (stp : ℕ) :
    sliceByIndex (runOps (step s .restore).state ops).state a b stp =
      sliceByIndex (runOps s₁ ops).state a b stp ∧
    sliceByValue (runOps (step s .restore).state ops).state va vb stp =
      sliceByValue (runOps s₁ ops).state va vb stp :=
  ⟨sliceByIndex_sameSeries _ _ (restore_fresh s s₁ h ops).1 a b stp,
   sliceByValue_sameSeries _ _ (restore_fresh s s₁ h ops).1 va vb stp⟩

/-! ## Non-vacuity, over `ℚ` -/

private def x5 : List ℚ := [0, 1, 2, 3, 4]
private def y5 : List ℚ := [5, 3, 8, 1, 2]
private def s5 : State ℚ :=
  { x := x5, y := y5, rx := x5, ry := y5, ox := x5, oy := y5, callerX := x5, callerY := y5 }
private def pw2 : ℚ → ℚ := fun t => t * t

example : init (some x5) y5 = .ok s5 := init_some_ok x5 y5 rfl
example : WF s5 := wf_mk.mpr (by decide +kernel)

/-- a valid program of thirteen operations -/
private def prog : List (Op ℚ) :=
  [.appendOne true, .shiftX 1, .scaleX 2, .normX 0 1, .repeat 2, .truncI 1 (some 7),
   .smooth [1, 2, 3, 4, 5, 6], .trendPoly [1, 2] false, .noise [0, 1, 0, 1, 0, 1], .shiftY 1,
   .scaleY 3, .normY 0 1, .interpN 11 "linear" []]

example : ValidProgram s5 prog := by
  simp only [prog, ValidProgram, Valid, and_true, true_and]
  refine ⟨by decide +kernel, by decide +kernel, by decide +kernel, by decide +kernel,
    by decide +kernel, by decide +kernel, by decide +kernel, by decide +kernel,
    .linear, by decide, by simp⟩

/-- … whose result is what `wf_program` promises, and differs from the original -/
example : (runOps s5 prog).err = none ∧
    (runOps s5 prog).state.x = [1/5, 3/10, 2/5, 1/2, 3/5, 7/10, 4/5, 9/10, 1, 11/10, 6/5] ∧
    (runOps s5 prog).state.rx = [1/5, 2/5, 3/5, 4/5, 1, 6/5] ∧
    (runOps s5 prog).state.ox = [0, 1/4, 1/2, 3/4, 1] ∧
    (runOps s5 prog).state.oy = [4/7, 2/7, 1, 0, 1/7] ∧
    (runOps s5 prog).state.y.length = 11 := by decide +kernel

/-- the preconditions with an existential content are satisfiable -/
example : Valid s5 (.truncV 1 3 false false) :=
  ⟨1, 4, 1, 4, by decide +kernel, by decide +kernel, by decide, by decide, by decide, by decide⟩

example : Valid s5 (.truncV (1/4) (3/4) true true) :=
  ⟨1, 4, 1, 4, by decide +kernel, by decide +kernel, by decide, by decide, by decide, by decide⟩

example : Valid s5 (.interpX [0, 1/2, 4] "constant" []) :=
  ⟨by decide +kernel, by decide, by decide +kernel, by decide +kernel, .constant, by decide, by simp⟩

example : Valid s5 (.interpX [0, 1/2, 4] "cubic" [7, 7, 7]) :=
  ⟨by decide +kernel, by decide, by decide +kernel, by decide +kernel, .cubic, by decide, by simp⟩

example : Valid s5 (.recreate "linfixed" pw2 3 [1] [1] [0] [0]) := ⟨by decide, by decide⟩

example : Valid s5 (.recreateExt 3 (List.replicate 13 0)) := ⟨by decide, by decide⟩

private def fp5 : FixedPoints ℚ :=
  { inX := [0, 1, 2, 3, 4], idxX := [0, 1, 2, 3, 4], idxRef := [0, 1, 2, 3, 4] }

private theorem fp5_ok : fixedPoints x5 x5 none none "closest" = .ok fp5 := by
  have hu : uniqueK ([0, 1, 2, 3, 4] : List ℚ) = [0, 1, 2, 3, 4] := by
    unfold uniqueK
    rw [List.mergeSort_of_pairwise (by decide +kernel)]
    decide +kernel
  rw [fixedPoints_default_eq x5 x5 "closest" [0, 1, 2, 3, 4] [0, 1, 2, 3, 4] (by decide +kernel)
    (by decide +kernel) (by rw [hu]; decide +kernel), hu,
    show whereIsin x5 [0, 1, 2, 3, 4] = [0, 1, 2, 3, 4] by decide +kernel]
  rfl

example : Valid s5 (.integralMatch pw2 none none "closest" "trapezoid" "trapezoid") := by
  refine ⟨y5, ?_⟩
  show matchRef pw2 x5 y5 x5 y5 none none "closest" "trapezoid" "trapezoid" = _
  rw [matchRef_eq pw2 x5 y5 x5 y5 none none "closest" "trapezoid" "trapezoid" fp5 .trapezoid
    .trapezoid fp5_ok (by decide) (by decide)]
  decide +kernel

/-- `restore_original` after the program: working and reference series are the (renormalised)
original again, as for a new object (regression for a repaired defect: the reference is reset too) -/
example : (step (runOps s5 prog).state .restore).state.x = [0, 1/4, 1/2, 3/4, 1] ∧
    (step (runOps s5 prog).state .restore).state.rx = [0, 1/4, 1/2, 3/4, 1] ∧
    (step (runOps s5 prog).state .restore).state.ry = (runOps s5 prog).state.oy ∧
    (step (runOps s5 prog).state .restore).state.callerX = x5 := by decide +kernel

/-- "finite values": normalising the ordinates is defined in `s5` because they are not constant -/
example : (0 : ℚ) < maxTo (fnOf y5) (y5.length - 1) - minTo (fnOf y5) (y5.length - 1) :=
  normY_defined y5 0 1 (by decide) (by decide) (by decide +kernel)

end TWV.C09
