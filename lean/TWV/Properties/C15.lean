import TWV.Lemmas.Process
import Mathlib.Analysis.SpecialFunctions.Pow.Real
import Mathlib.Analysis.SpecialFunctions.Sqrt

/-!
# C15 — noise is purely additive and obeys the signal-to-noise definition

"Adding noise returns the signal plus a noise term (nothing else is touched: x, the reference and
the original keep their values and y keeps its length); the noise scale is defined by
`std² · SNR = mean(y²)`, per sample when the SNR is an array, with `SNR = 10^(snr/10)` for decibel
input; the result is a function of the signal and of the numbers drawn only."

Model: `TWV/Model/Process.lean` (`signalPower` = `mean(a ** 2)`, `noiseVariance` = `std_n ** 2`,
`noiseAdd` = `a + noise`), `TWV/Model/Weaver.lean` (step `.noise draw`).
Helper lemmas: `TWV/Lemmas/Process.lean`.

NumPy's generator is external: the numbers it returns are data (`draw`).  The model carries the
*variance* `mean(a²) / SNR` of the noise term, so that the defining relation is a statement in any
ordered field; the square root and the decibel conversion `10 ** (snr / 10)` are added over `ℝ`
(`noise_scale_real_db`).  Every statement with the quotient carries `SNR ≠ 0` / `0 < SNR`, and the
mean carries `n ≠ 0` where the division matters.
-/

set_option linter.unusedSectionVars false

namespace TWV.C15
open TWV TWV.Process TWV.Weaver Finset

variable {K : Type} [Field K] [LinearOrder K] [IsStrictOrderedRing K]

/-! ## additivity -/

/-- the result minus the signal is the noise term -/
theorem noise_additive (a draw : ℕ → K) (i : ℕ) : noiseAdd a draw i - a i = draw i := by
  simp [noiseAdd]

/-- zero noise is the identity -/
theorem noise_zero (a : ℕ → K) : noiseAdd a (fun _ => 0) = a := by
  funext i; simp [noiseAdd]

/-- `Weaver.noise`: `x`, the reference and the original are untouched, `y` keeps its length and
becomes `y + draw` pointwise; the step never fails -/
theorem noise_step_frame (s : State K) (draw : List K) :
    (step s (.noise draw)).err = none ∧
    (step s (.noise draw)).state.x = s.x ∧
    (step s (.noise draw)).state.rx = s.rx ∧ (step s (.noise draw)).state.ry = s.ry ∧
    (step s (.noise draw)).state.ox = s.ox ∧ (step s (.noise draw)).state.oy = s.oy ∧
    (step s (.noise draw)).state.y.length = s.y.length ∧
    ∀ i (hi : i < s.y.length) (hd : i < draw.length),
      (step s (.noise draw)).state.y[i]? = some (s.y[i] + draw[i]) := by
  rw [step_noise]
  refine ⟨rfl, rfl, rfl, rfl, rfl, rfl, ofFn_length _ _, ?_⟩
  intro i hi hd
  simp [ok, ofFn, hi, noiseAdd, fnOf_getElem s.y i hi, fnOf_getElem draw i hd]

/-- the result depends on the signal and on the numbers drawn only -/
theorem noise_deterministic (a a' draw draw' : ℕ → K) (n : ℕ)
    (ha : ∀ i, i < n → a i = a' i) (hd : ∀ i, i < n → draw i = draw' i) :
    ∀ i, i < n → noiseAdd a draw i = noiseAdd a' draw' i := by
  intro i hi
  simp [noiseAdd, ha i hi, hd i hi]

/-! ## the scale of the noise -/

/-- the signal power is `mean(a²)` -/
theorem signalPower_eq (a : ℕ → K) (n : ℕ) :
    signalPower a n = (∑ i ∈ range n, a i ^ 2) / (n : K) :=
  Process.signalPower_eq a n

theorem signalPower_nonneg (a : ℕ → K) (n : ℕ) (_hn : n ≠ 0) : 0 ≤ signalPower a n :=
  Process.signalPower_nonneg a n

/-- a signal with a non-zero sample has positive power -/
theorem signalPower_pos (a : ℕ → K) (n : ℕ) (i : ℕ) (hi : i < n) (hai : a i ≠ 0) :
    0 < signalPower a n := by
  rw [Process.signalPower_eq]
  have hn : (0 : K) < (n : K) := by
    have : 0 < n := by omega
    exact_mod_cast this
  apply div_pos _ hn
  calc (0 : K) < a i ^ 2 := by positivity
    _ ≤ ∑ j ∈ range n, a j ^ 2 :=
      single_le_sum (f := fun j => a j ^ 2) (fun j _ => sq_nonneg _) (mem_range.mpr hi)

/-- the defining relation `std² · SNR = mean(a²)`, per sample -/
theorem noise_scale_sq (a : ℕ → K) (n : ℕ) (snrLin : ℕ → K) (i : ℕ) (h : snrLin i ≠ 0) :
    noiseVariance a n snrLin i * snrLin i = signalPower a n := by
  unfold noiseVariance
  exact div_mul_cancel₀ _ h

theorem noiseVariance_nonneg (a : ℕ → K) (n : ℕ) (snrLin : ℕ → K) (i : ℕ) (h : 0 < snrLin i) :
    0 ≤ noiseVariance a n snrLin i :=
  div_nonneg (Process.signalPower_nonneg a n) h.le

/-- a scalar SNR gives every sample the same variance -/
theorem noise_scalar_snr (a : ℕ → K) (n : ℕ) (snrLin : ℕ → K) (c : K) (hc : ∀ i, snrLin i = c)
    (i j : ℕ) : noiseVariance a n snrLin i = noiseVariance a n snrLin j := by
  simp [noiseVariance, hc]

/-- a larger SNR means a smaller noise variance -/
theorem noiseVariance_antitone (a : ℕ → K) (n : ℕ) (s1 s2 : ℕ → K) (i : ℕ) (h1 : 0 < s1 i)
    (h12 : s1 i ≤ s2 i) : noiseVariance a n s2 i ≤ noiseVariance a n s1 i := by
  unfold noiseVariance
  exact div_le_div_of_nonneg_left (Process.signalPower_nonneg a n) h1 h12

/-- over `ℝ`, decibel input: `std_n = sqrt(mean(a²) / 10^(snr/10))`, its square is the variance of
the model, and the linear SNR `10^(snr/10)` is positive (so the quotient is a genuine one) -/
theorem noise_scale_real_db (a : ℕ → ℝ) (n : ℕ) (snr snrLin : ℕ → ℝ) (i : ℕ)
    (h : snrLin i = (10 : ℝ) ^ (snr i / 10)) :
    0 < (10 : ℝ) ^ (snr i / 10) ∧
    Real.sqrt (noiseVariance a n snrLin i) = Real.sqrt (signalPower a n / (10 : ℝ) ^ (snr i / 10)) ∧
    Real.sqrt (noiseVariance a n snrLin i) ^ 2 = noiseVariance a n snrLin i ∧
    Real.sqrt (noiseVariance a n snrLin i) ^ 2 * (10 : ℝ) ^ (snr i / 10) = signalPower a n := by
  have hpos : 0 < (10 : ℝ) ^ (snr i / 10) := Real.rpow_pos_of_pos (by norm_num) _
  have hnn : 0 ≤ noiseVariance a n snrLin i := noiseVariance_nonneg a n snrLin i (by rw [h]; exact hpos)
  refine ⟨hpos, ?_, Real.sq_sqrt hnn, ?_⟩
  · unfold noiseVariance; rw [h]
  · rw [Real.sq_sqrt hnn, ← h]
    exact noise_scale_sq a n snrLin i (by rw [h]; exact hpos.ne')

/-- over `ℝ`, linear input (`snr_in_db=False`): `std_n = sqrt(mean(a²) / snr)` -/
theorem noise_scale_real_lin (a : ℕ → ℝ) (n : ℕ) (snrLin : ℕ → ℝ) (i : ℕ) (h : 0 < snrLin i) :
    Real.sqrt (noiseVariance a n snrLin i) ^ 2 * snrLin i = signalPower a n := by
  rw [Real.sq_sqrt (noiseVariance_nonneg a n snrLin i h)]
  exact noise_scale_sq a n snrLin i h.ne'

/-! ## Non-vacuity (ℚ) -/

section Examples

private def sig : ℕ → ℚ := fun i => [3, -1, 2, 0].getD i 0
private def st : State ℚ :=
  { x := [0, 1, 2], y := [5, 6, 7], rx := [0, 1, 2], ry := [5, 6, 7], ox := [0, 1, 2],
    oy := [5, 6, 7], callerX := [0, 1, 2], callerY := [5, 6, 7] }

/-- `mean(a²) = (9 + 1 + 4 + 0) / 4` -/
example : signalPower sig 4 = 7 / 2 := by decide +kernel
/-- SNR 7 for sample 0, SNR 1/2 for sample 1 -/
example : noiseVariance sig 4 (fun i => if i = 0 then 7 else 1 / 2) 0 = 1 / 2 ∧
    noiseVariance sig 4 (fun i => if i = 0 then 7 else 1 / 2) 1 = 7 := by decide +kernel
example : (step st (.noise [1/2, -1, 0])).state.y = [11/2, 5, 7] ∧
    (step st (.noise [1/2, -1, 0])).state.x = [0, 1, 2] := by decide +kernel
example : 0 < signalPower sig 4 := signalPower_pos sig 4 0 (by norm_num) (by decide +kernel)

end Examples

end TWV.C15
