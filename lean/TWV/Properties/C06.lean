import TWV.Lemmas.RfaBounds

/-!
# C06 — transitions follow the documented geometry and shape functions

"In the fixed-window strategies the value at each interior border is the linear interpolation, at
the border, between the plateau ends of the two adjacent intervals, and the samples inside a
transition follow the documented shape between border value and plateau (a straight line; or a
linear piece followed by the linear/power blend with the given exponent).  In the adaptive
strategies the window is split between the two sides in proportion to the ratio of the right and
left jumps, so the side with the larger jump never gets the larger window.  The five elementary
shape functions equal their documented closed forms for every exponent and hit both end points."

Model: `TWV/Model/Funfit.lean`, `TWV/Model/Rfa.lean` (`linOut`, `expOut`, `adaptiveAt`, `z0`,
`z0lb`, `z0rb`); the definitions regenerated from `funfit.py` (`Gen.*`) are tied to the model in
`TWV/Tie/Funfit.lean`.  Helper lemmas: `TWV/Lemmas/Funfit.lean`, `TWV/Lemmas/RfaBounds.lean`.

`pw : K → K` is `t ↦ t ** alpha`, an **arbitrary** function in the closed forms; the end points
need `pw 0 = 0` resp. `pw 1 = 1` exactly where stated.  `X` is an arbitrary strictly increasing
extended grid, `Y` arbitrary extended averages; extended interval `k` (`1 ≤ k ≤ m - 1`), sample
`i < n` of it is result index `(k - 1) * n + i`.  Adaptive smoothing is fixed at its default `1`
(`gpow = id`) in the adaptive clauses.
-/

set_option linter.unusedSectionVars false
set_option linter.unusedVariables false

namespace TWV.C06
open TWV TWV.Rfa

variable {K : Type} [Field K] [LinearOrder K] [IsStrictOrderedRing K]

/-! ## The five shape functions: closed forms (every `pw`) -/

theorem lin_fit_closed (x x0 y0 x1 y1 : K) (h : x0 ≠ x1) :
    linFit x (x0, y0) (x1, y1) = y0 + (y1 - y0) * ((x - x0) / (x1 - x0)) :=
  linFit_closed x x0 y0 x1 y1

theorem exp_fit_closed (pw : K → K) (x x0 y0 x1 y1 : K) (h : x0 ≠ x1) :
    expFit pw x (x0, y0) (x1, y1) = y0 + (y1 - y0) * pw ((x - x0) / (x1 - x0)) :=
  expFit_closed pw x x0 y0 x1 y1

theorem exp_xy_fit_closed (pw : K → K) (x x0 y0 x1 y1 : K) (h : x0 ≠ x1) :
    expXYFit pw x (x0, y0) (x1, y1) = y0 + (y1 - y0) * (1 - pw (1 - (x - x0) / (x1 - x0))) :=
  expXYFit_closed pw h

theorem exp_lin_fit_closed (pw : K → K) (x x0 y0 x1 y1 : K) (h : x0 ≠ x1) :
    expLinFit pw x (x0, y0) (x1, y1) =
      y0 + (y1 - y0) * ((x - x0) / (x1 - x0) * ((x - x0) / (x1 - x0)) +
        pw ((x - x0) / (x1 - x0)) * (1 - (x - x0) / (x1 - x0))) :=
  expLinFit_closed pw h

theorem lin_exp_xy_fit_closed (pw : K → K) (x x0 y0 x1 y1 : K) (h : x0 ≠ x1) :
    linExpXYFit pw x (x0, y0) (x1, y1) =
      y0 + (y1 - y0) * ((x - x0) / (x1 - x0) * (1 - pw (1 - (x - x0) / (x1 - x0))) +
        (x - x0) / (x1 - x0) * (1 - (x - x0) / (x1 - x0))) :=
  linExpXYFit_closed pw h

/-! ### the same for the definitions regenerated from `funfit.py` -/

theorem gen_lin_fit_closed (x x0 y0 x1 y1 : K) (h : x0 ≠ x1) :
    Gen.lin_fit x (x0, y0) (x1, y1) = y0 + (y1 - y0) * ((x - x0) / (x1 - x0)) :=
  TWV.gen_lin_fit_closed h

theorem gen_exp_fit_closed (pw : K → K) (x x0 y0 x1 y1 : K) (h : x0 ≠ x1) :
    Gen.exp_fit pw x (x0, y0) (x1, y1) = y0 + (y1 - y0) * pw ((x - x0) / (x1 - x0)) :=
  TWV.gen_exp_fit_closed pw h

theorem gen_exp_xy_fit_closed (pw : K → K) (x x0 y0 x1 y1 : K) (h : x0 ≠ x1) :
    Gen.exp_xy_fit pw x (x0, y0) (x1, y1) =
      y0 + (y1 - y0) * (1 - pw (1 - (x - x0) / (x1 - x0))) :=
  TWV.gen_exp_xy_fit_closed pw h

theorem gen_exp_lin_fit_closed (pw : K → K) (x x0 y0 x1 y1 : K) (h : x0 ≠ x1) :
    Gen.exp_lin_fit pw x (x0, y0) (x1, y1) =
      y0 + (y1 - y0) * ((x - x0) / (x1 - x0) * ((x - x0) / (x1 - x0)) +
        pw ((x - x0) / (x1 - x0)) * (1 - (x - x0) / (x1 - x0))) :=
  TWV.gen_exp_lin_fit_closed pw h

theorem gen_lin_exp_xy_fit_closed (pw : K → K) (x x0 y0 x1 y1 : K) (h : x0 ≠ x1) :
    Gen.lin_exp_xy_fit pw x (x0, y0) (x1, y1) =
      y0 + (y1 - y0) * ((x - x0) / (x1 - x0) * (1 - pw (1 - (x - x0) / (x1 - x0))) +
        (x - x0) / (x1 - x0) * (1 - (x - x0) / (x1 - x0))) :=
  TWV.gen_lin_exp_xy_fit_closed pw h

/-! ## The five shape functions hit both end points

`lin_fit`: unconditionally.  `exp_fit`: left needs `0 ** α = 0`, right `1 ** α = 1`.
`exp_xy_fit`: left needs `1 ** α = 1`, right `0 ** α = 0`.  `exp_lin_fit`: left needs
`0 ** α = 0`, right nothing.  `lin_exp_xy_fit`: left nothing, right `0 ** α = 0`. -/

theorem lin_fit_left (x0 y0 x1 y1 : K) (h : x0 ≠ x1) : linFit x0 (x0, y0) (x1, y1) = y0 :=
  linFit_left x0 y0 x1 y1

theorem lin_fit_right (x0 y0 x1 y1 : K) (h : x0 ≠ x1) : linFit x1 (x0, y0) (x1, y1) = y1 :=
  linFit_right y0 y1 h

theorem exp_fit_left (pw : K → K) (hp0 : pw 0 = 0) (x0 y0 x1 y1 : K) (h : x0 ≠ x1) :
    expFit pw x0 (x0, y0) (x1, y1) = y0 := expFit_left hp0 x0 y0 x1 y1

theorem exp_fit_right (pw : K → K) (hp1 : pw 1 = 1) (x0 y0 x1 y1 : K) (h : x0 ≠ x1) :
    expFit pw x1 (x0, y0) (x1, y1) = y1 := expFit_right hp1 y0 y1 h

theorem exp_xy_fit_left (pw : K → K) (hp1 : pw 1 = 1) (x0 y0 x1 y1 : K) (h : x0 ≠ x1) :
    expXYFit pw x0 (x0, y0) (x1, y1) = y0 := expXYFit_left hp1 y0 y1 h

theorem exp_xy_fit_right (pw : K → K) (hp0 : pw 0 = 0) (x0 y0 x1 y1 : K) (h : x0 ≠ x1) :
    expXYFit pw x1 (x0, y0) (x1, y1) = y1 := expXYFit_right hp0 y0 y1 h

theorem exp_lin_fit_left (pw : K → K) (hp0 : pw 0 = 0) (x0 y0 x1 y1 : K) (h : x0 ≠ x1) :
    expLinFit pw x0 (x0, y0) (x1, y1) = y0 := expLinFit_left hp0 y0 y1 h

theorem exp_lin_fit_right (pw : K → K) (x0 y0 x1 y1 : K) (h : x0 ≠ x1) :
    expLinFit pw x1 (x0, y0) (x1, y1) = y1 := expLinFit_right pw y0 y1 h

theorem lin_exp_xy_fit_left (pw : K → K) (x0 y0 x1 y1 : K) (h : x0 ≠ x1) :
    linExpXYFit pw x0 (x0, y0) (x1, y1) = y0 := linExpXYFit_left pw y0 y1 h

theorem lin_exp_xy_fit_right (pw : K → K) (hp0 : pw 0 = 0) (x0 y0 x1 y1 : K) (h : x0 ≠ x1) :
    linExpXYFit pw x1 (x0, y0) (x1, y1) = y1 := linExpXYFit_right hp0 y0 y1 h

/-! ## Fixed windows: the border value -/

section windows
variable {X Y : ℕ → K} {m n : ℕ} {w : Windows} {k i : ℕ}

/-- the border value of the fixed strategies is the linear interpolation, at the border, between
the plateau ends `(X (k n - a_r), Y (k - 1))` and `(X (k n + a_l), Y k)`; the two abscissae
differ -/
theorem border_fixed (hX : StrictIncr ((m + 1) * n) X) (hk : 1 ≤ k) (hkm : k ≤ m)
    (hL1 : 1 ≤ w.aL k) (hL : w.aL k ≤ n) (hR : w.aR (k - 1) ≤ n) :
    z0 X Y n w false k =
        linFit (X (k * n)) (X (k * n - w.aR (k - 1)), Y (k - 1)) (X (k * n + w.aL k), Y k) ∧
      X (k * n - w.aR (k - 1)) < X (k * n + w.aL k) := by
  have hN := idx_bound n hkm
  exact ⟨z0_fixed X Y n w k, X_lt hX (by omega) (by omega)⟩

/-- … and the sample at the border carries it (linear strategy) -/
theorem lin_border_fixed (hX : StrictIncr ((m + 1) * n) X) (hk : 1 ≤ k) (hkm : k ≤ m - 1)
    (hL1 : 1 ≤ w.aL k) (hL : w.aL k ≤ n) (hR : w.aR (k - 1) ≤ n) :
    linOut X Y m n w false ((k - 1) * n) = z0 X Y n w false k :=
  linOut_border hX (by omega) hk (by omega) hL hR (Or.inl ⟨hkm, hL1⟩)

/-- … (exponential strategy; no condition on the exponent) -/
theorem exp_border_fixed (pw : K → K) (hX : StrictIncr ((m + 1) * n) X) (hk : 1 ≤ k)
    (hkm : k ≤ m - 1) (hw : ValidWindows w m n) (hL1 : 1 ≤ w.aL k) :
    expOut pw X Y m n w false ((k - 1) * n) = z0 X Y n w false k := by
  have ho := hw.ok (show k ≤ m by omega)
  have := ho.sum
  exact expOut_border hX (by omega) hk hkm ho hL1

/-- the same two facts hold for the adaptive variants whenever the left window is not empty -/
theorem border_any (pw : K → K) (ad : Bool) (hX : StrictIncr ((m + 1) * n) X) (hk : 1 ≤ k)
    (hkm : k ≤ m - 1) (hw : ValidWindows w m n) (hL1 : 1 ≤ w.aL k) :
    linOut X Y m n w ad ((k - 1) * n) = z0 X Y n w ad k ∧
      expOut pw X Y m n w ad ((k - 1) * n) = z0 X Y n w ad k := by
  have ho := hw.ok (show k ≤ m by omega)
  have ho' := hw.ok (show k - 1 ≤ m by omega)
  have := ho.sum
  have := ho'.sum
  exact ⟨linOut_border hX (by omega) hk (by omega) (by omega) (by omega) (Or.inl ⟨hkm, hL1⟩),
    expOut_border hX (by omega) hk hkm ho hL1⟩

/-! ## Linear strategies: the samples of a transition are on a straight line -/

/-- left transition: on the line from `(X (k n), z_0)` to `(X (k n + a_l), Y k)` -/
theorem left_linear (ad : Bool) (hX : StrictIncr ((m + 1) * n) X) (hk : 1 ≤ k) (hkm : k ≤ m - 1)
    (hw : w.aL k + w.aR k ≤ n) (hi : i < w.aL k) :
    linOut X Y m n w ad ((k - 1) * n + i) =
        z0 X Y n w ad k + (Y k - z0 X Y n w ad k) *
          ((X (k * n + i) - X (k * n)) / (X (k * n + w.aL k) - X (k * n))) ∧
      X (k * n) < X (k * n + w.aL k) := by
  have hN := idx_bound n (show k ≤ m by omega)
  rw [linOut_left_eq hk hkm hi (by omega)]
  exact ⟨linFit_closed _ _ _ _ _, X_lt hX (by omega) (by omega)⟩

/-- right transition: on the line from `(X (k n + n - a_r), Y k)` to `(X ((k + 1) n), z_0 (k+1))` -/
theorem right_linear (ad : Bool) (hX : StrictIncr ((m + 1) * n) X) (hk : 1 ≤ k) (hkm : k ≤ m - 1)
    (hw : w.aL k + w.aR k ≤ n) (hr : n - w.aR k < i) (hin : i < n) :
    linOut X Y m n w ad ((k - 1) * n + i) =
        Y k + (z0 X Y n w ad (k + 1) - Y k) *
          ((X (k * n + i) - X (k * n + n - w.aR k)) / (X ((k + 1) * n) - X (k * n + n - w.aR k))) ∧
      X (k * n + n - w.aR k) < X ((k + 1) * n) := by
  have hN := idx_bound n (show k ≤ m by omega)
  have e : (k + 1) * n = k * n + n := by ring
  rw [linOut_right_eq hk hkm (by omega) hr hin, e]
  exact ⟨linFit_closed _ _ _ _ _, X_lt hX (by omega) (by omega)⟩

/-! ## Exponential strategies: a linear piece, then the linear/power blend -/

/-- the end of the linear piece lies on the straight line border → plateau -/
theorem z0lb_on_line (ad : Bool) (hX : StrictIncr ((m + 1) * n) X) (hkm : k ≤ m)
    (hL1 : 1 ≤ w.aL k) (hL : w.aL k ≤ n) :
    z0lb X Y n w ad k =
        z0 X Y n w ad k + (Y k - z0 X Y n w ad k) *
          ((X (k * n + w.bL k) - X (k * n)) / (X (k * n + w.aL k) - X (k * n))) ∧
      X (k * n) < X (k * n + w.aL k) := by
  have hN := idx_bound n hkm
  refine ⟨?_, X_lt hX (by omega) (by omega)⟩
  unfold z0lb
  split_ifs with h
  · rw [h.2, Nat.add_zero, sub_self, zero_div, mul_zero, add_zero]
  · exact linFit_closed _ _ _ _ _

theorem z0rb_on_line (ad : Bool) (hX : StrictIncr ((m + 1) * n) X) (hkm : k + 1 ≤ m)
    (hR1 : 1 ≤ w.aR k) (hR : w.aR k ≤ n) :
    z0rb X Y n w ad k =
        Y k + (z0 X Y n w ad (k + 1) - Y k) *
          ((X (k * n + n - w.bR k) - X (k * n + n - w.aR k)) /
            (X ((k + 1) * n) - X (k * n + n - w.aR k))) ∧
      X (k * n + n - w.aR k) < X ((k + 1) * n) := by
  have hN := idx_bound n (show k ≤ m by omega)
  have e : (k + 1) * n = k * n + n := by ring
  refine ⟨?_, by rw [e]; exact X_lt hX (by omega) (by omega)⟩
  unfold z0rb
  split_ifs with h
  · rw [h.2, Nat.sub_zero, e, div_self (sub_pos.mpr (X_lt hX (by omega) (by omega))).ne']
    ring
  · exact linFit_closed _ _ _ _ _

/-- left transition: `i < b_l` on the straight line from `(X (k n), z_0)` to `(X (k n + b_l), z_0_lb)`;
`b_l ≤ i < a_l` on the `lin_exp_xy` blend from `(X (k n + b_l), z_0_lb)` to `(X (k n + a_l), Y k)` -/
theorem exp_left_shape (pw : K → K) (ad : Bool) (hX : StrictIncr ((m + 1) * n) X) (hk : 1 ≤ k)
    (hkm : k ≤ m - 1) (hw : ValidWindows w m n) :
    (i < w.bL k →
      expOut pw X Y m n w ad ((k - 1) * n + i) =
          z0 X Y n w ad k + (z0lb X Y n w ad k - z0 X Y n w ad k) *
            ((X (k * n + i) - X (k * n)) / (X (k * n + w.bL k) - X (k * n))) ∧
        X (k * n) < X (k * n + w.bL k)) ∧
    (w.bL k ≤ i → i < w.aL k →
      expOut pw X Y m n w ad ((k - 1) * n + i) =
          z0lb X Y n w ad k + (Y k - z0lb X Y n w ad k) *
            ((X (k * n + i) - X (k * n + w.bL k)) / (X (k * n + w.aL k) - X (k * n + w.bL k)) *
              (1 - pw (1 - (X (k * n + i) - X (k * n + w.bL k)) /
                (X (k * n + w.aL k) - X (k * n + w.bL k)))) +
             (X (k * n + i) - X (k * n + w.bL k)) / (X (k * n + w.aL k) - X (k * n + w.bL k)) *
              (1 - (X (k * n + i) - X (k * n + w.bL k)) /
                (X (k * n + w.aL k) - X (k * n + w.bL k)))) ∧
        X (k * n + w.bL k) < X (k * n + w.aL k)) := by
  have hN := idx_bound n (show k ≤ m by omega)
  have ho := hw.ok (show k ≤ m by omega)
  have hoS := ho.sum
  have hoL := ho.bL
  constructor
  · intro hi
    rw [expOut_linL_eq hk hkm hi (by omega)]
    exact ⟨linFit_closed _ _ _ _ _, X_lt hX (by omega) (by omega)⟩
  · intro hb hi
    have hlt : X (k * n + w.bL k) < X (k * n + w.aL k) := X_lt hX (by omega) (by omega)
    rw [expOut_blendL_eq hk hkm hb hi (by omega)]
    exact ⟨linExpXYFit_closed pw hlt.ne, hlt⟩

/-- right transition: `n - a_r ≤ i < n - b_r` on the `exp_lin` blend from `(X (k n + n - a_r), Y k)`
to `(X (k n + n - b_r), z_0_rb)`; `n - b_r ≤ i < n` on the straight line from there to
`(X ((k + 1) n), z_0 (k + 1))` -/
theorem exp_right_shape (pw : K → K) (ad : Bool) (hX : StrictIncr ((m + 1) * n) X) (hk : 1 ≤ k)
    (hkm : k ≤ m - 1) (hw : ValidWindows w m n) :
    (n - w.aR k ≤ i → i < n - w.bR k →
      expOut pw X Y m n w ad ((k - 1) * n + i) =
          Y k + (z0rb X Y n w ad k - Y k) *
            ((X (k * n + i) - X (k * n + n - w.aR k)) /
                (X (k * n + n - w.bR k) - X (k * n + n - w.aR k)) *
              ((X (k * n + i) - X (k * n + n - w.aR k)) /
                (X (k * n + n - w.bR k) - X (k * n + n - w.aR k))) +
             pw ((X (k * n + i) - X (k * n + n - w.aR k)) /
                (X (k * n + n - w.bR k) - X (k * n + n - w.aR k))) *
              (1 - (X (k * n + i) - X (k * n + n - w.aR k)) /
                (X (k * n + n - w.bR k) - X (k * n + n - w.aR k)))) ∧
        X (k * n + n - w.aR k) < X (k * n + n - w.bR k)) ∧
    (n - w.bR k ≤ i → i < n →
      expOut pw X Y m n w ad ((k - 1) * n + i) =
          z0rb X Y n w ad k + (z0 X Y n w ad (k + 1) - z0rb X Y n w ad k) *
            ((X (k * n + i) - X (k * n + n - w.bR k)) /
              (X ((k + 1) * n) - X (k * n + n - w.bR k))) ∧
        X (k * n + n - w.bR k) < X ((k + 1) * n)) := by
  have hN := idx_bound n (show k ≤ m by omega)
  have e : (k + 1) * n = k * n + n := by ring
  have ho := hw.ok (show k ≤ m by omega)
  have hoS := ho.sum
  have hoL := ho.bL
  have hoR := ho.bR
  constructor
  · intro ha hi
    have hlt : X (k * n + n - w.aR k) < X (k * n + n - w.bR k) := X_lt hX (by omega) (by omega)
    rw [expOut_blendR_eq hk hkm hoL (by omega) ha hi]
    exact ⟨expLinFit_closed pw hlt.ne, hlt⟩
  · intro hb hin
    rw [expOut_linR_eq hk hkm hoL (by omega) hb hin, e]
    exact ⟨linFit_closed _ _ _ _ _, X_lt hX (by omega) (by omega)⟩

end windows

/-! ## Adaptive windows (`adaptive_smooth = 1`) -/

section adaptive
variable (a : ℕ) (Y : ℕ → K) (k : ℕ)

/-- with both jumps non-zero the window `a` is split into the un-floored shares
`al = γ a / (1 + γ)`, `ar = a / (1 + γ)`, `γ = |right jump| / |left jump|`: they sum to `a` and
`al : ar = |right jump| : |left jump|`; the returned windows are `int(min(max(·, 1), a))` of them -/
theorem adaptive_split (h1 : |Y (k + 1) - Y k| ≠ 0) (h2 : |Y k - Y (k - 1)| ≠ 0) :
    let nom := |Y (k + 1) - Y k|
    let denom := |Y k - Y (k - 1)|
    let γ := nom / denom
    let al := γ * (a : K) / (1 + γ)
    let ar := (a : K) / (1 + γ)
    adaptiveAt id a Y k =
        (natFloorUpTo a (min (max al 1) (a : K)), natFloorUpTo a (min (max ar 1) (a : K))) ∧
      1 + γ ≠ 0 ∧ al + ar = (a : K) ∧ al * denom = ar * nom := by
  intro nom denom γ al ar
  have hn : 0 < nom := abs_pos.mpr (abs_ne_zero.mp h1)
  have hd : 0 < denom := abs_pos.mpr (abs_ne_zero.mp h2)
  have hγ : 0 < γ := div_pos hn hd
  have hne : 1 + γ ≠ 0 := by positivity
  refine ⟨?_, hne, shares_sum hγ _, ?_⟩
  · rw [adaptiveAt_general id a Y k h1 h2]; rfl
  · have hd' : denom ≠ 0 := hd.ne'
    simp only [al, ar, γ]
    field_simp

/-- the side with the larger jump never gets the larger window: right jump `≥` left jump -/
theorem larger_jump_smaller_window_right (h2 : 0 < |Y k - Y (k - 1)|)
    (h : |Y k - Y (k - 1)| ≤ |Y (k + 1) - Y k|) :
    (adaptiveAt id a Y k).2 ≤ (adaptiveAt id a Y k).1 := by
  have h1 : 0 < |Y (k + 1) - Y k| := lt_of_lt_of_le h2 h
  rw [adaptiveAt_id a Y k h1.ne' h2.ne']
  apply floor_clamp_mono
  have ha : (0 : K) ≤ (a : K) := Nat.cast_nonneg a
  exact div_le_div_of_nonneg_right (mul_le_mul_of_nonneg_left h ha) (by positivity)

/-- … left jump `≥` right jump -/
theorem larger_jump_smaller_window_left (h1 : 0 < |Y (k + 1) - Y k|)
    (h : |Y (k + 1) - Y k| ≤ |Y k - Y (k - 1)|) :
    (adaptiveAt id a Y k).1 ≤ (adaptiveAt id a Y k).2 := by
  have h2 : 0 < |Y k - Y (k - 1)| := lt_of_lt_of_le h1 h
  rw [adaptiveAt_id a Y k h1.ne' h2.ne']
  apply floor_clamp_mono
  have ha : (0 : K) ≤ (a : K) := Nat.cast_nonneg a
  exact div_le_div_of_nonneg_right (mul_le_mul_of_nonneg_left h ha) (by positivity)

/-- the three zero-jump branches (for every smoothing) -/
theorem adaptive_ties (gpow : K → K) :
    (|Y (k + 1) - Y k| = 0 → |Y k - Y (k - 1)| = 0 → adaptiveAt gpow a Y k = (0, 0)) ∧
    (|Y (k + 1) - Y k| = 0 → |Y k - Y (k - 1)| ≠ 0 → adaptiveAt gpow a Y k = (a / 2, 0)) ∧
    (|Y (k + 1) - Y k| ≠ 0 → |Y k - Y (k - 1)| = 0 → adaptiveAt gpow a Y k = (0, a / 2)) :=
  ⟨adaptiveAt_both_zero gpow a Y k, adaptiveAt_right_zero gpow a Y k,
    adaptiveAt_left_zero gpow a Y k⟩

end adaptive

/-! ## Non-vacuity: the hypotheses are jointly satisfiable (over `ℚ`) -/

section examples

/-- grid `0, 1, 2, …`, four extended averages, `m = 3` points, `n = 4`, `a = 4`, `b = 1` -/
def Xq : ℕ → ℚ := fun i => (i : ℚ)
def Yq : ℕ → ℚ := fun k => if k ≤ 1 then 0 else if k = 2 then 3 else 4

theorem Xq_strict (N : ℕ) : StrictIncr N Xq := by
  intro i _; simp [Xq]

theorem wq_valid : ValidWindows (windowsFixed 4 1) 3 4 :=
  windowsFixed_valid 3 (by norm_num) (by norm_num)

example : linOut Xq Yq 3 4 (windowsFixed 4 1) false ((2 - 1) * 4) =
    z0 Xq Yq 4 (windowsFixed 4 1) false 2 :=
  lin_border_fixed (Xq_strict _) (by norm_num) (by norm_num) (by simp [windowsFixed])
    (by simp [windowsFixed]) (by simp [windowsFixed])

example : expOut (fun t => t ^ 2) Xq Yq 3 4 (windowsFixed 4 1) false ((2 - 1) * 4) =
    z0 Xq Yq 4 (windowsFixed 4 1) false 2 :=
  exp_border_fixed _ (Xq_strict _) (by norm_num) (by norm_num) wq_valid (by simp [windowsFixed])

example := left_linear (X := Xq) (Y := Yq) (m := 3) (n := 4) (w := windowsFixed 4 1) (k := 2)
  (i := 1) false (Xq_strict _) (by norm_num) (by norm_num) (by simp [windowsFixed])
  (by simp [windowsFixed])

example := (exp_left_shape (X := Xq) (Y := Yq) (m := 3) (n := 4) (w := windowsFixed 4 1) (k := 2)
  (i := 1) (fun t => t ^ 2) false (Xq_strict _) (by norm_num) (by norm_num) wq_valid).2
  (by simp [windowsFixed]) (by simp [windowsFixed])

/-- both jumps of interval 2 are non-zero: `|4 - 3| = 1`, `|3 - 0| = 3` -/
example : |Yq (2 + 1) - Yq 2| ≠ 0 ∧ |Yq 2 - Yq (2 - 1)| ≠ 0 ∧
    0 < |Yq (2 + 1) - Yq 2| ∧ |Yq (2 + 1) - Yq 2| ≤ |Yq 2 - Yq (2 - 1)| := by
  norm_num [Yq]

example : (adaptiveAt id 4 Yq 2).1 ≤ (adaptiveAt id 4 Yq 2).2 :=
  larger_jump_smaller_window_left 4 Yq 2 (by norm_num [Yq]) (by norm_num [Yq])

end examples

end TWV.C06
