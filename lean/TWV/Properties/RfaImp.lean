import TWV.Lemmas.RfaImp

/-!
# RfaImp — the loops of the window strategies compute the closed form

`TWV/Model/Rfa.lean` states every sample the four window strategies of `rfa.py` return in closed
form (`linOut`, `expOut`, `outY`: "the value its last writer leaves there"); C03 … C07 are
theorems about that closed form.  `TWV/Model/RfaImp.lean` models what the code *does*: the array
`z`, initially the extended piecewise-constant oversampling, overwritten interval after interval,
sample after sample, in program order (`linRun`, `expRun`, `outYImp`), and the same loops on a
real array, one `Array.setIfInBounds` per assignment (`linRunA`, `expRunA`, `outYImpA`: what the
driver runs).

**(A) Refinement.**  For windows whose loops do not overlap (`a_l + a_r ≤ n`, and `b ≤ a` on both
sides for the exponential strategies: `Rfa.windowsOk`) the loops leave exactly the closed form in
every returned sample: `linRun_eq_linOut`, `expRun_eq_expOut`, `outYImp_eq_outY`.  The proof
(`TWV/Lemmas/RfaImp.lean`) is an induction over the `for k` loop with the invariant "after the
iterations `1 … t` position `(k, i)` holds …" (`linFold_inv`, `expFold_inv`).  Two points are
worth recording:

* in the linear strategies position `(k, 0)` is written twice: by the right loop of interval
  `k - 1` (its last sample `i = n`) and then, if `a_l k ≥ 1`, by the left loop of interval `k`;
* in the adaptive strategies with `a_r k = 0 ∧ a_l (k + 1) = 0` the code reads `z_1 = y[k + 1]`,
  a *flat* index into the extended array, not the average of interval `k + 1`; no loop uses that
  value (every range that would is empty when `a_r k = 0`, and `b_r k ≤ a_r k`), so it does not
  reach the output.  Outside that case `z_1` of interval `k` is `z_0` of interval `k + 1`
  (`z1c_eq_z0`).

**(B) The array twins.**  `linRunA_get`, `expRunA_get`: the array agrees with the function-valued
state on every position below `extLen m n` (its length), for any windows whatsoever: a write
outside the array is dropped by `setIfInBounds`, and the function model's write at such a
position is never read below `extLen m n`; `outYImpA_eq`: the list the driver prints is the
tabulated `outYImp`.

**(C) Non-vacuity**: at the end.
-/

set_option linter.unusedSectionVars false
set_option linter.unusedVariables false

namespace TWV.RfaImp
open TWV TWV.Rfa

variable {K : Type} [Field K] [LinearOrder K] [IsStrictOrderedRing K]

/-! ## (A) the loops compute the closed form -/

/-- `LinearFixedRFA.rfa` / `LinearAdaptiveRFA.rfa`: the loops leave `linOut` in every returned
sample -/
theorem linRun_eq_linOut (x y : ℕ → K) (m n : ℕ) (w : Windows) (adaptive : Bool)
    (hn : 1 ≤ n) (hm : 1 ≤ m)
    (hw : ∀ k, k ≤ m → w.aL k + w.aR k ≤ n)
    (j : ℕ) (hj : j < outLen m n) :
    linRun x y m n w adaptive j = linOut (XE x m n) (Yk y m n) m n w adaptive j :=
  linFold_eq_linOut (XE x m n) (Yk y m n) (YE y m n) m n w adaptive hn hm hw
    (fun _ hk _ hi => YE_const' y hn hm hk hi) j hj

/-- `ExpFixedRFA.rfa` / `ExpAdaptiveRFA.rfa`: the loops leave `expOut` in every returned sample -/
theorem expRun_eq_expOut (pw : K → K) (x y : ℕ → K) (m n : ℕ) (w : Windows) (adaptive : Bool)
    (hn : 1 ≤ n) (hm : 1 ≤ m)
    (hw : ∀ k, k ≤ m → w.aL k + w.aR k ≤ n)
    (hb : ∀ k, k ≤ m → w.bL k ≤ w.aL k ∧ w.bR k ≤ w.aR k)
    (j : ℕ) (hj : j < outLen m n) :
    expRun pw x y m n w adaptive j
      = expOut pw (XE x m n) (Yk y m n) m n w adaptive j :=
  expFold_eq_expOut pw (XE x m n) (Yk y m n) (YE y m n) m n w adaptive hn hm hw hb
    (fun _ hk _ hi => YE_const' y hn hm hk hi) j hj

/-- all five strategies, for windows the driver accepts (`windowsOk`) -/
theorem outYImp_eq_outY (s : Strategy) (pw : K → K) (x y : ℕ → K) (m n : ℕ) (w : Windows)
    (hn : 1 ≤ n) (hm : 1 ≤ m) (hok : windowsOk w m n = true)
    (j : ℕ) (hj : j < outLen m n) :
    outYImp s pw x y m n w j = outY s pw x y m n w j := by
  have hv := (windowsOk_iff w m n).mp hok
  have hw : ∀ k, k ≤ m → w.aL k + w.aR k ≤ n := fun k hk => (hv k hk).1
  have hb : ∀ k, k ≤ m → w.bL k ≤ w.aL k ∧ w.bR k ≤ w.aR k := fun k hk => (hv k hk).2
  cases s
  · rfl
  · exact linRun_eq_linOut x y m n w false hn hm hw j hj
  · exact linRun_eq_linOut x y m n w true hn hm hw j hj
  · exact expRun_eq_expOut pw x y m n w false hn hm hw hb j hj
  · exact expRun_eq_expOut pw x y m n w true hn hm hw hb j hj

/-! ## (B) the array twins compute the function versions

`linState x y m n w adaptive` is the array the `for k` loop leaves behind
(`(List.range' 1 (m - 1)).foldl (linIter X Y YE n w adaptive) YE`), the `z` inside `linRun`:
`linRun x y m n w adaptive j = linState x y m n w adaptive (n + j)` holds by `rfl`
(`linRun_eq_state`); likewise `expState`. -/

example (x y : ℕ → K) (m n : ℕ) (w : Windows) (adaptive : Bool) :
    linState x y m n w adaptive
      = (List.range' 1 (m - 1)).foldl
          (linIter (XE x m n) (Yk y m n) (YE y m n) n w adaptive) (YE y m n) := rfl

example (x y : ℕ → K) (m n : ℕ) (w : Windows) (adaptive : Bool) (j : ℕ) :
    linRun x y m n w adaptive j = linState x y m n w adaptive (n + j) := rfl

example (pw : K → K) (x y : ℕ → K) (m n : ℕ) (w : Windows) (adaptive : Bool) (j : ℕ) :
    expRun pw x y m n w adaptive j = expState pw x y m n w adaptive (n + j) := rfl

theorem linRunA_get (x y : ℕ → K) (m n : ℕ) (w : Windows) (adaptive : Bool) (q : ℕ)
    (hq : q < extLen m n) :
    arrFn (linRunA x y m n w adaptive) q = linState x y m n w adaptive q :=
  linRunA_apply x y m n w adaptive q hq

theorem expRunA_get (pw : K → K) (x y : ℕ → K) (m n : ℕ) (w : Windows) (adaptive : Bool) (q : ℕ)
    (hq : q < extLen m n) :
    arrFn (expRunA pw x y m n w adaptive) q = expState pw x y m n w adaptive q :=
  expRunA_apply pw x y m n w adaptive q hq

/-- the cut `[n : -n]` of the array is the tabulated function version -/
theorem linRunA_cut (x y : ℕ → K) (m n : ℕ) (w : Windows) (adaptive : Bool) (hm : 1 ≤ m) :
    tab (outLen m n) (fun j => arrFn (linRunA x y m n w adaptive) (n + j))
      = tab (outLen m n) (linRun x y m n w adaptive) :=
  tab_congr _ _ _ fun j hj => by
    rw [linRunA_get x y m n w adaptive (n + j) (cut_lt_extLen hm hj)]; rfl

theorem expRunA_cut (pw : K → K) (x y : ℕ → K) (m n : ℕ) (w : Windows) (adaptive : Bool)
    (hm : 1 ≤ m) :
    tab (outLen m n) (fun j => arrFn (expRunA pw x y m n w adaptive) (n + j))
      = tab (outLen m n) (expRun pw x y m n w adaptive) :=
  tab_congr _ _ _ fun j hj => by
    rw [expRunA_get pw x y m n w adaptive (n + j) (cut_lt_extLen hm hj)]; rfl

/-- what the driver prints is the tabulated `outYImp` -/
theorem outYImpA_eq (s : Strategy) (pw : K → K) (x y : ℕ → K) (m n : ℕ) (w : Windows)
    (hn : 1 ≤ n) (hm : 1 ≤ m) :
    outYImpA s pw x y m n w = (tab (outLen m n) (outYImp s pw x y m n w)).toList := by
  cases s
  · rfl
  · exact congrArg Array.toList (linRunA_cut x y m n w false hm)
  · exact congrArg Array.toList (linRunA_cut x y m n w true hm)
  · exact congrArg Array.toList (expRunA_cut pw x y m n w false hm)
  · exact congrArg Array.toList (expRunA_cut pw x y m n w true hm)

/-- (A) and (B) together: what the driver prints is the tabulated closed form -/
theorem outYImpA_eq_outY (s : Strategy) (pw : K → K) (x y : ℕ → K) (m n : ℕ) (w : Windows)
    (hn : 1 ≤ n) (hm : 1 ≤ m) (hok : windowsOk w m n = true) :
    outYImpA s pw x y m n w = (tab (outLen m n) (outY s pw x y m n w)).toList := by
  rw [outYImpA_eq s pw x y m n w hn hm]
  exact congrArg Array.toList
    (tab_congr _ _ _ fun j hj => outYImp_eq_outY s pw x y m n w hn hm hok j hj)

/-! ## (C) Non-vacuity: the hypotheses of (A) are jointly satisfiable -/

section examples

/-- `m = 3` points, `n = 4`, windows `a_l = a_r = 2`, `b_l = b_r = 1` -/
def wq : Windows := { aL := fun _ => 2, aR := fun _ => 2, bL := fun _ => 1, bR := fun _ => 1 }

example : 1 ≤ 4 ∧ 1 ≤ 3 ∧ (∀ k, k ≤ 3 → wq.aL k + wq.aR k ≤ 4) ∧
    (∀ k, k ≤ 3 → wq.bL k ≤ wq.aL k ∧ wq.bR k ≤ wq.aR k) ∧ windowsOk wq 3 4 = true :=
  ⟨by decide, by decide, fun _ _ => by simp [wq], fun _ _ => by simp [wq], by decide⟩

/-- the adaptive dead case `a_r 1 = 0 ∧ a_l 2 = 0` is inside the hypotheses as well -/
def wd : Windows :=
  { aL := fun k => if k = 2 then 0 else 2, aR := fun k => if k = 1 then 0 else 2,
    bL := fun k => if k = 2 then 0 else 1, bR := fun k => if k = 1 then 0 else 1 }

example : windowsOk wd 3 4 = true ∧ wd.aR 1 = 0 ∧ wd.aL (1 + 1) = 0 := by decide

example (x y : ℕ → ℚ) (j : ℕ) (hj : j < outLen 3 4) :
    linRun x y 3 4 wq false j = linOut (XE x 3 4) (Yk y 3 4) 3 4 wq false j :=
  linRun_eq_linOut x y 3 4 wq false (by decide) (by decide) (fun _ _ => by simp [wq]) j hj

example (x y : ℕ → ℚ) (j : ℕ) (hj : j < outLen 3 4) :
    outYImp .expAdaptive (fun t => t ^ 2) x y 3 4 wd j
      = outY .expAdaptive (fun t => t ^ 2) x y 3 4 wd j :=
  outYImp_eq_outY _ _ x y 3 4 wd (by decide) (by decide) (by decide) j hj

end examples

end TWV.RfaImp
