import TWV.Lemmas.Arrays

/-!
# C14 — trend, shift, scale and normalise are exact pointwise maps

"Applying a trend adds f(x_i) - or f(x_i / (x_last - x_first)) when normalised - to every y_i and
leaves x untouched, so a zero trend is the identity and trends add up.  Shift and scale act as x+s,
y+s, c*x, c*y on every sample.  Normalising maps the minimum to min_val and the maximum to max_val
by an increasing affine map, hence preserves order and relative spacing."

Model: `TWV/Model/Process.lean` (`trendY`, `linearTrendY`, `normalize`), `TWV/Model/Base.lean`
(`minTo`, `maxTo`: running minimum / maximum of the first `n + 1` values).  `trend` returns its `x`
argument as it is, so the model only has the `y` component.  The trend function `f` is arbitrary.
Every statement about `normalize` that depends on the quotient carries the hypothesis that the
data is not constant (`minTo a (n-1) < maxTo a (n-1)`): for constant data Python divides `0 / 0`.
-/

set_option linter.unusedSectionVars false

namespace TWV.C14
open TWV TWV.Process Finset

variable {K : Type} [Field K] [LinearOrder K] [IsStrictOrderedRing K]

/-! ## `trend`, `linear_trend` -/

/-- `y_i + f(x_i)`, or `y_i + f(x_i / (x_last - x_first))` when normalised -/
theorem trend_pointwise (f : K → K) (x y : ℕ → K) (n i : ℕ) :
    trendY f false x y n i = y i + f (x i) ∧
      trendY f true x y n i = y i + f (x i / (x (n - 1) - x 0)) := by
  simp [trendY]

/-- a zero trend is the identity -/
theorem trend_zero (nz : Bool) (x y : ℕ → K) (n : ℕ) : trendY (fun _ => 0) nz x y n = y := by
  funext i; simp [trendY]

/-- trends add up (`x` is the same in both applications because `trend` leaves it untouched) -/
theorem trend_add (f g : K → K) (nz : Bool) (x y : ℕ → K) (n : ℕ) :
    trendY g nz x (trendY f nz x y n) n = trendY (fun t => f t + g t) nz x y n := by
  funext i; simp only [trendY]; ring

theorem linear_trend_spec (a : K) (x y : ℕ → K) (n i : ℕ) :
    linearTrendY a false x y n i = y i + a * x i ∧
      linearTrendY a true x y n i = y i + a * (x i / (x (n - 1) - x 0)) := by
  simp [linearTrendY, trendY]

/-! ## shift and scale (on the sample functions) -/

theorem shift_strictIncr (N : ℕ) (x : ℕ → K) (s : K) (h : StrictIncr N x) :
    StrictIncr N (fun i => x i + s) := by
  intro i hi; exact add_lt_add_left (h i hi) s

theorem scale_strictIncr (N : ℕ) (x : ℕ → K) (c : K) (hc : 0 < c) (h : StrictIncr N x) :
    StrictIncr N (fun i => c * x i) := by
  intro i hi; exact mul_lt_mul_of_pos_left (h i hi) hc

/-- shifting keeps all differences, scaling multiplies them by `c` -/
theorem shift_scale_diff (x : ℕ → K) (s c : K) (i j : ℕ) :
    (fun i => x i + s) j - (fun i => x i + s) i = x j - x i ∧
      (fun i => c * x i) j - (fun i => c * x i) i = c * (x j - x i) := by
  constructor <;> ring

/-! ## running minimum and maximum -/

theorem minTo_le (a : ℕ → K) (n i : ℕ) (hi : i ≤ n) : minTo a n ≤ a i := minTo_le_apply a n i hi

theorem minTo_mem (a : ℕ → K) (n : ℕ) : ∃ i, i ≤ n ∧ minTo a n = a i := minTo_attained a n

theorem le_maxTo (a : ℕ → K) (n i : ℕ) (hi : i ≤ n) : a i ≤ maxTo a n := apply_le_maxTo a n i hi

theorem maxTo_mem (a : ℕ → K) (n : ℕ) : ∃ i, i ≤ n ∧ maxTo a n = a i := maxTo_attained a n

theorem minTo_le_maxTo (a : ℕ → K) (n : ℕ) : minTo a n ≤ maxTo a n :=
  le_trans (minTo_le a n 0 (Nat.zero_le n)) (le_maxTo a n 0 (Nat.zero_le n))

/-- data that is not constant has its minimum strictly below its maximum -/
theorem minTo_lt_maxTo_of_ne (a : ℕ → K) (n i j : ℕ) (hi : i ≤ n) (hj : j ≤ n) (h : a i ≠ a j) :
    minTo a n < maxTo a n := by
  rcases lt_or_gt_of_ne h with h1 | h1
  · exact lt_of_le_of_lt (minTo_le a n i hi) (lt_of_lt_of_le h1 (le_maxTo a n j hj))
  · exact lt_of_le_of_lt (minTo_le a n j hj) (lt_of_lt_of_le h1 (le_maxTo a n i hi))

/-- … and conversely -/
theorem exists_ne_of_minTo_lt_maxTo (a : ℕ → K) (n : ℕ) (h : minTo a n < maxTo a n) :
    ∃ i j, i ≤ n ∧ j ≤ n ∧ a i < a j := by
  obtain ⟨i, hi, ei⟩ := minTo_mem a n
  obtain ⟨j, hj, ej⟩ := maxTo_mem a n
  exact ⟨i, j, hi, hj, by rw [← ei, ← ej]; exact h⟩

theorem minTo_of_strictIncr (a : ℕ → K) (n : ℕ) (h : StrictIncr n a) : minTo a n = a 0 := by
  apply le_antisymm (minTo_le a n 0 (Nat.zero_le n))
  obtain ⟨i, hi, e⟩ := minTo_mem a n
  rw [e]; exact strictIncr_le h 0 i (Nat.zero_le i) hi

theorem maxTo_of_strictIncr (a : ℕ → K) (n : ℕ) (h : StrictIncr n a) : maxTo a n = a n := by
  apply le_antisymm _ (le_maxTo a n n le_rfl)
  obtain ⟨i, hi, e⟩ := maxTo_mem a n
  rw [e]; exact strictIncr_le h i n hi le_rfl

/-! ## `normalize` -/

/-- `normalize` is the affine map `t ↦ slope * (t - min) + lo`, `slope = (hi - lo) / (max - min)`
(a rearrangement of the quotient; both sides contain the same division) -/
theorem normalize_affine (a : ℕ → K) (n : ℕ) (lo hi : K) (i : ℕ) :
    normalize a n lo hi i
      = (hi - lo) / (maxTo a (n - 1) - minTo a (n - 1)) * (a i - minTo a (n - 1)) + lo := by
  unfold normalize; ring

/-- the slope is positive for non-constant data and `lo < hi` -/
theorem normalize_slope_pos (a : ℕ → K) (n : ℕ) (lo hi : K)
    (hne : minTo a (n - 1) < maxTo a (n - 1)) (hlh : lo < hi) :
    0 < (hi - lo) / (maxTo a (n - 1) - minTo a (n - 1)) :=
  div_pos (sub_pos.mpr hlh) (sub_pos.mpr hne)

/-- the minimum is mapped to `min_val` -/
theorem normalize_min (a : ℕ → K) (n : ℕ) (lo hi : K) (i : ℕ)
    (_hne : minTo a (n - 1) < maxTo a (n - 1)) (hi' : a i = minTo a (n - 1)) :
    normalize a n lo hi i = lo := by
  unfold normalize; rw [hi']; simp

/-- the maximum is mapped to `max_val` -/
theorem normalize_max (a : ℕ → K) (n : ℕ) (lo hi : K) (i : ℕ)
    (hne : minTo a (n - 1) < maxTo a (n - 1)) (hi' : a i = maxTo a (n - 1)) :
    normalize a n lo hi i = hi := by
  have h0 : maxTo a (n - 1) - minTo a (n - 1) ≠ 0 := ne_of_gt (sub_pos.mpr hne)
  unfold normalize; rw [hi', div_self h0]; ring

/-- both values are attained: some sample is mapped to `min_val`, some to `max_val` -/
theorem normalize_attains (a : ℕ → K) (n : ℕ) (lo hi : K)
    (hne : minTo a (n - 1) < maxTo a (n - 1)) :
    (∃ i, i ≤ n - 1 ∧ normalize a n lo hi i = lo) ∧
      (∃ j, j ≤ n - 1 ∧ normalize a n lo hi j = hi) := by
  obtain ⟨i, hi1, ei⟩ := minTo_mem a (n - 1)
  obtain ⟨j, hj1, ej⟩ := maxTo_mem a (n - 1)
  exact ⟨⟨i, hi1, normalize_min a n lo hi i hne ei.symm⟩,
    ⟨j, hj1, normalize_max a n lo hi j hne ej.symm⟩⟩

/-- order is preserved, strictly -/
theorem normalize_strictMono (a : ℕ → K) (n : ℕ) (lo hi : K) (i j : ℕ)
    (hne : minTo a (n - 1) < maxTo a (n - 1)) (hlh : lo < hi) (hij : a i < a j) :
    normalize a n lo hi i < normalize a n lo hi j := by
  have hs := normalize_slope_pos a n lo hi hne hlh
  rw [normalize_affine a n lo hi i, normalize_affine a n lo hi j]
  have : a i - minTo a (n - 1) < a j - minTo a (n - 1) := by linarith
  have := mul_lt_mul_of_pos_left this hs
  linarith

/-- … and weakly -/
theorem normalize_mono (a : ℕ → K) (n : ℕ) (lo hi : K) (i j : ℕ)
    (hne : minTo a (n - 1) < maxTo a (n - 1)) (hlh : lo ≤ hi) (hij : a i ≤ a j) :
    normalize a n lo hi i ≤ normalize a n lo hi j := by
  have hs : 0 ≤ (hi - lo) / (maxTo a (n - 1) - minTo a (n - 1)) :=
    div_nonneg (sub_nonneg.mpr hlh) (le_of_lt (sub_pos.mpr hne))
  rw [normalize_affine a n lo hi i, normalize_affine a n lo hi j]
  have : a i - minTo a (n - 1) ≤ a j - minTo a (n - 1) := by linarith
  have := mul_le_mul_of_nonneg_left this hs
  linarith

/-- differences are scaled by the common slope … -/
theorem normalize_diff (a : ℕ → K) (n : ℕ) (lo hi : K) (i j : ℕ) :
    normalize a n lo hi j - normalize a n lo hi i
      = (hi - lo) / (maxTo a (n - 1) - minTo a (n - 1)) * (a j - a i) := by
  rw [normalize_affine a n lo hi i, normalize_affine a n lo hi j]; ring

/-- … hence relative spacing is preserved -/
theorem normalize_ratio (a : ℕ → K) (n : ℕ) (lo hi : K) (i j k l : ℕ)
    (_hne : minTo a (n - 1) < maxTo a (n - 1)) :
    (normalize a n lo hi j - normalize a n lo hi i) * (a l - a k)
      = (normalize a n lo hi l - normalize a n lo hi k) * (a j - a i) := by
  rw [normalize_diff, normalize_diff]; ring

/-- the same as an equality of quotients (for `a k ≠ a l`, `lo ≠ hi`) -/
theorem normalize_ratio_div (a : ℕ → K) (n : ℕ) (lo hi : K) (i j k l : ℕ)
    (hne : minTo a (n - 1) < maxTo a (n - 1)) (hlh : lo ≠ hi) (hkl : a k ≠ a l) :
    (normalize a n lo hi j - normalize a n lo hi i) / (normalize a n lo hi l - normalize a n lo hi k)
      = (a j - a i) / (a l - a k) := by
  have h0 : maxTo a (n - 1) - minTo a (n - 1) ≠ 0 := ne_of_gt (sub_pos.mpr hne)
  have h1 : hi - lo ≠ 0 := sub_ne_zero.mpr (Ne.symm hlh)
  have h2 : a l - a k ≠ 0 := sub_ne_zero.mpr (Ne.symm hkl)
  rw [normalize_diff, normalize_diff]
  field_simp

/-- all samples land in `[min_val, max_val]` -/
theorem normalize_range (a : ℕ → K) (n : ℕ) (lo hi : K) (i : ℕ) (hi1 : i ≤ n - 1)
    (hne : minTo a (n - 1) < maxTo a (n - 1)) (hlh : lo ≤ hi) :
    lo ≤ normalize a n lo hi i ∧ normalize a n lo hi i ≤ hi := by
  obtain ⟨p, _, ep⟩ := minTo_mem a (n - 1)
  obtain ⟨q, _, eq⟩ := maxTo_mem a (n - 1)
  have h1 := normalize_mono a n lo hi p i hne hlh (by rw [← ep]; exact minTo_le a (n - 1) i hi1)
  have h2 := normalize_mono a n lo hi i q hne hlh (by rw [← eq]; exact le_maxTo a (n - 1) i hi1)
  rw [normalize_min a n lo hi p hne ep.symm] at h1
  rw [normalize_max a n lo hi q hne eq.symm] at h2
  exact ⟨h1, h2⟩

/-- normalising a strictly increasing series gives a strictly increasing series from `lo` to
`hi` -/
theorem normalize_strictIncr (a : ℕ → K) (n : ℕ) (lo hi : K) (h : StrictIncr (n - 1) a)
    (hlh : lo < hi) (hn : 2 ≤ n) : StrictIncr (n - 1) (normalize a n lo hi) := by
  have hne : minTo a (n - 1) < maxTo a (n - 1) := by
    rw [minTo_of_strictIncr a (n - 1) h, maxTo_of_strictIncr a (n - 1) h]
    exact strictIncr_lt h 0 (n - 1) (by omega) le_rfl
  intro i hi1
  exact normalize_strictMono a n lo hi i (i + 1) hne hlh (h i hi1)

theorem normalize_strictIncr_ends (a : ℕ → K) (n : ℕ) (lo hi : K) (h : StrictIncr (n - 1) a)
    (hn : 2 ≤ n) : normalize a n lo hi 0 = lo ∧ normalize a n lo hi (n - 1) = hi := by
  have hne : minTo a (n - 1) < maxTo a (n - 1) := by
    rw [minTo_of_strictIncr a (n - 1) h, maxTo_of_strictIncr a (n - 1) h]
    exact strictIncr_lt h 0 (n - 1) (by omega) le_rfl
  exact ⟨normalize_min a n lo hi 0 hne (minTo_of_strictIncr a (n - 1) h).symm,
    normalize_max a n lo hi (n - 1) hne (maxTo_of_strictIncr a (n - 1) h).symm⟩

/-! ## Non-vacuity, over `ℚ`: `a = [2, 1, 4]` -/

private def ex : ℕ → ℚ := fun i => if i = 0 then 2 else if i = 1 then 1 else 4

example : minTo ex 2 = 1 ∧ maxTo ex 2 = 4 := by
  simp [minTo, maxTo, ex]; norm_num
example : minTo ex (3 - 1) < maxTo ex (3 - 1) :=
  minTo_lt_maxTo_of_ne ex 2 0 1 (by norm_num) (by norm_num) (by norm_num [ex])
-- `normalize([2, 1, 4], 10, 16) = [12, 10, 16]`
example : (List.range 3).map (normalize ex 3 10 16) = [12, 10, 16] := by
  simp [List.range, List.range.loop, normalize, minTo, maxTo, ex]; norm_num
example : trendY (fun t => t * t) true (fun i => (i : ℚ) + 1) ex 3 2 = 4 + 9 / 4 := by
  norm_num [trendY, ex]
example : linearTrendY 3 false (fun i => (i : ℚ) + 1) ex 3 1 = 7 := by
  norm_num [linearTrendY, trendY, ex]
example : StrictIncr (3 - 1) (normalize (fun i => (i : ℚ) * i) 3 0 1) :=
  normalize_strictIncr _ 3 0 1 (by intro i _; simp only; push_cast; nlinarith [Nat.cast_nonneg (α := ℚ) i])
    (by norm_num) (by norm_num)

end TWV.C14
