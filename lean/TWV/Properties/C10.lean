import TWV.Lemmas.Search

/-!
# C10 — the three sorted-array scans return the specified indices

"For a strictly increasing array and a non-decreasing list of query values, the search returns for
each query the index of the largest element `≤` it (`lower`), of the smallest element `≥` it
(`higher`), or of the nearest element with ties resolved to the lower one (`closest`).  Queries
outside the array's range yield the first / last index, or `-1` / `len(x)` for the two one-sided
variants when filling is switched off."

Model: `TWV/Model/Search.lean` (`findLower`, `findHigher`, `findClosest`, dispatcher `find`).
Helper lemmas: `TWV/Lemmas/Search.lean`.
-/

namespace TWV.C10
open TWV TWV.Search

variable {K : Type} [Field K] [LinearOrder K] [IsStrictOrderedRing K]

-- every statement is made for an arbitrary linearly ordered field, also where the proof only
-- needs the order
set_option linter.unusedSectionVars false

/-! ## Specifications -/

/-- index of the largest element `≤ t`  =  (number of elements `≤ t`) - 1;
the fill value if there is none -/
def lowerSpec (fill : Bool) (x : List K) (t : K) : ℤ :=
  if x.countP (· ≤ t) = 0 then (if fill then 0 else -1) else (x.countP (· ≤ t) : ℤ) - 1

/-- index of the smallest element `≥ t` = number of elements `< t`;
the fill value if there is none -/
def higherSpec (fill : Bool) (x : List K) (t : K) : ℤ :=
  if x.countP (· < t) = x.length then (if fill then (x.length : ℤ) - 1 else x.length)
  else (x.countP (· < t) : ℤ)

/-- `i` is the index of the element nearest to `t`, the lower one in case of a tie -/
def IsClosest (x : List K) (t : K) (i : ℕ) : Prop :=
  ∃ h : i < x.length, (∀ j (hj : j < x.length), |x[i] - t| ≤ |x[j] - t|) ∧
                      (∀ j (hj : j < i), |x[i] - t| < |x[j]'(by omega) - t|)

/-- the nearest-element index is unique, so `IsClosest` determines the output -/
theorem IsClosest.unique {x : List K} {t : K} {i j : ℕ} (hi : IsClosest x t i)
    (hj : IsClosest x t j) : i = j :=
  Nearest.unique (x := x) (t := t) hi hj

/-! ## The three scans meet their specifications -/

theorem findLower_spec (fill : Bool) (x q : List K) (hx : x.Pairwise (· < ·))
    (hq : q.Pairwise (· ≤ ·)) (hx0 : x ≠ []) (hq0 : q ≠ []) :
    findLower fill x q = .ok (q.map (lowerSpec fill x)) := by
  obtain ⟨x0, xs, rfl⟩ := List.exists_cons_of_ne_nil hx0
  obtain ⟨q0, qs, rfl⟩ := List.exists_cons_of_ne_nil hq0
  have hx' := List.pairwise_cons.mp hx
  simp only [findLower]
  congr 1
  apply lowerPhase1_glue fill x0 (lowerSpec fill (x0 :: xs)) (fun qs => lowerPhase2 0 xs qs)
  · intro t ht
    have hz : (x0 :: xs).countP (· ≤ t) = 0 := by
      rw [List.countP_eq_zero]
      intro a ha
      simp only [decide_eq_true_eq, not_le]
      rcases List.mem_cons.mp ha with rfl | ha
      · exact ht
      · exact ht.trans (hx'.1 a ha)
    simp [lowerSpec, hz]
  · intro qs hqs hge
    show lowerPhase2 0 xs qs = _
    rw [lowerPhase2_spec qs 0 xs hx'.2 hqs]
    apply List.map_congr_left
    intro t ht
    simp [lowerSpec, hge t ht]
  · exact hq

theorem findHigher_spec (fill : Bool) (x q : List K) (hx : x.Pairwise (· < ·))
    (hq : q.Pairwise (· ≤ ·)) (hx0 : x ≠ []) (hq0 : q ≠ []) :
    findHigher fill x q = .ok (q.map (higherSpec fill x)) := by
  obtain ⟨x0, xs, rfl⟩ := List.exists_cons_of_ne_nil hx0
  obtain ⟨q0, qs, rfl⟩ := List.exists_cons_of_ne_nil hq0
  have hx' := List.pairwise_cons.mp hx
  simp only [findHigher]
  congr 1
  apply higherPhase1_glue x0 (higherSpec fill (x0 :: xs))
    (fun qs => higherPhase2 fill (xs.length + 1) 0 xs qs)
  · intro t ht
    have hz : (x0 :: xs).countP (· < t) = 0 := by
      rw [List.countP_eq_zero]
      intro a ha
      simp only [decide_eq_true_eq, not_lt]
      rcases List.mem_cons.mp ha with rfl | ha
      · exact ht
      · exact ht.trans (hx'.1 a ha).le
    simp [higherSpec, hz]
  · intro qs hqs hgt
    show higherPhase2 fill (xs.length + 1) 0 xs qs = _
    rw [higherPhase2_spec fill (xs.length + 1) qs 0 xs hx'.2 hqs]
    apply List.map_congr_left
    intro t ht
    have h0 : x0 < t := hgt t ht
    simp only [higherSpec, higherVal, List.countP_cons, h0, decide_true, if_true,
      List.length_cons, Nat.add_right_cancel_iff]
    split <;> cases fill <;> simp
  · exact hq

theorem findClosest_spec (x q : List K) (hx : x.Pairwise (· < ·)) (hq : q.Pairwise (· ≤ ·))
    (hx0 : x ≠ []) (hq0 : q ≠ []) :
    ∃ r : List ℤ, findClosest x q = .ok r ∧ r.length = q.length ∧
      ∀ k (hk : k < q.length) (hr : k < r.length),
        ∃ i : ℕ, r[k] = (i : ℤ) ∧ IsClosest x q[k] i := by
  obtain ⟨x0, xs, rfl⟩ := List.exists_cons_of_ne_nil hx0
  refine ⟨q.map (closestVal x0 xs), findClosest_eq_map x0 xs q hq hq0, by simp, ?_⟩
  intro k hk hr
  rw [List.getElem_map]
  exact closestVal_nearest hx q[k]

/-! ## What the two one-sided specifications mean -/

/-- `lowerSpec` is the index of the largest element `≤ t`; if there is no such element
(`t` below the whole array) it is `0` with filling and `-1` without -/
theorem lowerSpec_char (fill : Bool) (x : List K) (hx : x.Pairwise (· < ·)) (t : K) :
    ((∃ a ∈ x, a ≤ t) →
        ∃ i : ℕ, ∃ _h : i < x.length, lowerSpec fill x t = (i : ℤ) ∧ x[i] ≤ t ∧
          ∀ j (_hj : j < x.length), x[j] ≤ t → j ≤ i) ∧
    ((∀ a ∈ x, t < a) → lowerSpec fill x t = if fill then 0 else -1) := by
  have key := getElem_iff_lt_countP (downClosed_le t) x hx
  constructor
  · rintro ⟨a, ha, hat⟩
    have hpos : 0 < x.countP (· ≤ t) := List.countP_pos_iff.mpr ⟨a, ha, by simpa using hat⟩
    have hle : x.countP (· ≤ t) ≤ x.length := List.countP_le_length
    refine ⟨x.countP (· ≤ t) - 1, by omega, ?_, ?_, ?_⟩
    · unfold lowerSpec
      rw [if_neg (by omega)]
      omega
    · have := (key (x.countP (· ≤ t) - 1) (by omega)).mpr (by omega)
      simpa using this
    · intro j hj hjt
      have := (key j hj).mp (by simpa using hjt)
      omega
  · intro h
    have hz : x.countP (· ≤ t) = 0 := by
      rw [List.countP_eq_zero]
      intro a ha
      simpa using h a ha
    simp [lowerSpec, hz]

/-- `higherSpec` is the index of the smallest element `≥ t`; if there is no such element
(`t` above the whole array) it is `len - 1` with filling and `len` without -/
theorem higherSpec_char (fill : Bool) (x : List K) (hx : x.Pairwise (· < ·)) (t : K) :
    ((∃ a ∈ x, t ≤ a) →
        ∃ i : ℕ, ∃ _h : i < x.length, higherSpec fill x t = (i : ℤ) ∧ t ≤ x[i] ∧
          ∀ j (_hj : j < x.length), t ≤ x[j] → i ≤ j) ∧
    ((∀ a ∈ x, a < t) →
        higherSpec fill x t = if fill then (x.length : ℤ) - 1 else x.length) := by
  have key := getElem_iff_lt_countP (downClosed_lt t) x hx
  constructor
  · rintro ⟨a, ha, hat⟩
    have hle : x.countP (· < t) ≤ x.length := List.countP_le_length
    have hne : x.countP (· < t) ≠ x.length := by
      intro h
      have := List.countP_eq_length.mp h a ha
      simp only [decide_eq_true_eq] at this
      exact absurd this (not_lt.mpr hat)
    have hlt : x.countP (· < t) < x.length := lt_of_le_of_ne hle hne
    refine ⟨x.countP (· < t), hlt, ?_, ?_, ?_⟩
    · unfold higherSpec
      rw [if_neg hne]
    · have := (key (x.countP (· < t)) hlt).not.mpr (lt_irrefl _)
      simpa using this
    · intro j hj hjt
      have := (key j hj).not.mp (by simpa using hjt)
      omega
  · intro h
    have hz : x.countP (· < t) = x.length := by
      rw [List.countP_eq_length]
      intro a ha
      simpa using h a ha
    simp [higherSpec, hz]

/-! ## Queries outside the range of the array -/

private theorem head_le_of_mem {x : List K} (hx : x.Pairwise (· < ·)) (hx0 : x ≠ []) {a : K}
    (ha : a ∈ x) : x.head hx0 ≤ a := by
  obtain ⟨x0, xs, rfl⟩ := List.exists_cons_of_ne_nil hx0
  rcases List.mem_cons.mp ha with rfl | ha
  · exact le_rfl
  · exact ((List.pairwise_cons.mp hx).1 a ha).le

private theorem le_getLast_of_mem {x : List K} (hx : x.Pairwise (· < ·)) (hx0 : x ≠ []) {a : K}
    (ha : a ∈ x) : a ≤ x.getLast hx0 := by
  obtain ⟨j, hj, rfl⟩ := List.getElem_of_mem ha
  rw [List.getLast_eq_getElem]
  exact getElem_le_of_le hx _ (by omega)

/-- `lower`, query below the first element: `0` with filling, `-1` without -/
theorem lowerSpec_below (fill : Bool) (x : List K) (hx : x.Pairwise (· < ·)) (hx0 : x ≠ [])
    (t : K) (ht : t < x.head hx0) : lowerSpec fill x t = if fill then 0 else -1 :=
  (lowerSpec_char fill x hx t).2 fun _ ha => lt_of_lt_of_le ht (head_le_of_mem hx hx0 ha)

/-- `lower`, query at or above the last element: the last index -/
theorem lowerSpec_above (fill : Bool) (x : List K) (hx : x.Pairwise (· < ·)) (hx0 : x ≠ [])
    (t : K) (ht : x.getLast hx0 ≤ t) : lowerSpec fill x t = (x.length : ℤ) - 1 := by
  have hz : x.countP (· ≤ t) = x.length := by
    rw [List.countP_eq_length]
    intro a ha
    simpa using (le_getLast_of_mem hx hx0 ha).trans ht
  have hl : x.length ≠ 0 := by simpa using hx0
  simp [lowerSpec, hz, hl]

/-- `higher`, query at or below the first element: index `0` -/
theorem higherSpec_below (fill : Bool) (x : List K) (hx : x.Pairwise (· < ·)) (hx0 : x ≠ [])
    (t : K) (ht : t ≤ x.head hx0) : higherSpec fill x t = 0 := by
  have hz : x.countP (· < t) = 0 := by
    rw [List.countP_eq_zero]
    intro a ha
    simpa using ht.trans (head_le_of_mem hx hx0 ha)
  have hl : 0 ≠ x.length := by
    intro h; exact hx0 (List.eq_nil_of_length_eq_zero h.symm)
  simp [higherSpec, hz, hl]

/-- `higher`, query above the last element: `len - 1` with filling, `len` without -/
theorem higherSpec_above (fill : Bool) (x : List K) (hx : x.Pairwise (· < ·)) (hx0 : x ≠ [])
    (t : K) (ht : x.getLast hx0 < t) :
    higherSpec fill x t = if fill then (x.length : ℤ) - 1 else x.length :=
  (higherSpec_char fill x hx t).2 fun _ ha => lt_of_le_of_lt (le_getLast_of_mem hx hx0 ha) ht

/-- `closest`, query at or below the first element: index `0` -/
theorem isClosest_below (x : List K) (hx : x.Pairwise (· < ·)) (hx0 : x ≠ []) (t : K)
    (ht : t ≤ x.head hx0) : IsClosest x t 0 :=
  isClosest_zero_of_le_head hx (List.length_pos_iff.mpr hx0)
    (by rw [List.head_eq_getElem] at ht; exact ht)

/-- `closest`, query at or above the last element: the last index -/
theorem isClosest_above (x : List K) (hx : x.Pairwise (· < ·)) (hx0 : x ≠ []) (t : K)
    (ht : x.getLast hx0 ≤ t) : IsClosest x t (x.length - 1) :=
  isClosest_last_of_last_le hx (List.length_pos_iff.mpr hx0)
    (by rw [List.getLast_eq_getElem] at ht; exact ht)

/-- the out-of-range behaviour of the three scans, stated on their outputs -/
theorem find_out_of_range (fill : Bool) (x q : List K) (hx : x.Pairwise (· < ·))
    (hq : q.Pairwise (· ≤ ·)) (hx0 : x ≠ []) (hq0 : q ≠ []) :
    ∃ rl rh rc : List ℤ,
      findLower fill x q = .ok rl ∧ findHigher fill x q = .ok rh ∧ findClosest x q = .ok rc ∧
      rl.length = q.length ∧ rh.length = q.length ∧ rc.length = q.length ∧
      ∀ k (hk : k < q.length) (h1 : k < rl.length) (h2 : k < rh.length) (h3 : k < rc.length),
        (q[k] < x.head hx0 → rl[k] = if fill then 0 else -1) ∧
        (x.getLast hx0 ≤ q[k] → rl[k] = (x.length : ℤ) - 1) ∧
        (q[k] ≤ x.head hx0 → rh[k] = 0) ∧
        (x.getLast hx0 < q[k] → rh[k] = if fill then (x.length : ℤ) - 1 else x.length) ∧
        (q[k] ≤ x.head hx0 → rc[k] = 0) ∧
        (x.getLast hx0 ≤ q[k] → rc[k] = (x.length : ℤ) - 1) := by
  obtain ⟨rc, hrc, hlen, hcl⟩ := findClosest_spec x q hx hq hx0 hq0
  refine ⟨_, _, rc, findLower_spec fill x q hx hq hx0 hq0, findHigher_spec fill x q hx hq hx0 hq0,
    hrc, by simp, by simp, hlen, ?_⟩
  intro k hk h1 h2 h3
  obtain ⟨i, hi, hic⟩ := hcl k hk h3
  have hpos : 0 < x.length := List.length_pos_iff.mpr hx0
  refine ⟨?_, ?_, ?_, ?_, ?_, ?_⟩
  · intro h; rw [List.getElem_map]; exact lowerSpec_below fill x hx hx0 _ h
  · intro h; rw [List.getElem_map]; exact lowerSpec_above fill x hx hx0 _ h
  · intro h; rw [List.getElem_map]; exact higherSpec_below fill x hx hx0 _ h
  · intro h; rw [List.getElem_map]; exact higherSpec_above fill x hx hx0 _ h
  · intro h
    rw [hi, hic.unique (isClosest_below x hx hx0 _ h)]; rfl
  · intro h
    rw [hi, hic.unique (isClosest_above x hx hx0 _ h)]
    push_cast [Nat.cast_sub hpos]; rfl

/-! ## Dispatcher -/

theorem find_lower (fill : Bool) (x q : List K) :
    find "lower" fill x q = findLower fill x q := rfl

theorem find_higher (fill : Bool) (x q : List K) :
    find "higher" fill x q = findHigher fill x q := rfl

theorem find_closest (fill : Bool) (x q : List K) :
    find "closest" fill x q = findClosest x q := rfl

theorem find_unknown (strategy : String) (fill : Bool) (x q : List K)
    (h1 : strategy ≠ "closest") (h2 : strategy ≠ "lower") (h3 : strategy ≠ "higher") :
    find strategy fill x q = .error .valueError := by
  have : Strategy.ofString? strategy = none := by
    unfold Strategy.ofString?
    split <;> first | rfl | contradiction
  simp [find, this]

/-! ## Empty inputs: Python's `next(...)` raises `StopIteration` -/

theorem findLower_empty_x (fill : Bool) (q : List K) :
    findLower fill ([] : List K) q = .error .stopIteration := rfl

theorem findLower_empty_q (fill : Bool) (x : List K) :
    findLower fill x ([] : List K) = .error .stopIteration := by cases x <;> rfl

theorem findHigher_empty_x (fill : Bool) (q : List K) :
    findHigher fill ([] : List K) q = .error .stopIteration := rfl

theorem findHigher_empty_q (fill : Bool) (x : List K) :
    findHigher fill x ([] : List K) = .error .stopIteration := by cases x <;> rfl

theorem findClosest_empty_x (q : List K) :
    findClosest ([] : List K) q = .error .stopIteration := rfl

theorem findClosest_empty_q (x : List K) :
    findClosest x ([] : List K) = .error .stopIteration := by cases x <;> rfl

/-! ## Non-vacuity: the scans and the specifications evaluated on a concrete instance

array `0, 1, 2, 4` over `ℚ`; the queries lie below the range (`-1`), on elements (`0, 1, 4`),
strictly inside (`1/2, 3`), on the mid-point tie between `1` and `2` (`3/2`) and above the
range (`5`). -/

section Examples

private def xs : List ℚ := [0, 1, 2, 4]
private def qs : List ℚ := [-1, 0, 1/2, 1, 3/2, 3, 4, 5]

/-- the hypotheses of the specification theorems are satisfiable -/
example : xs.Pairwise (· < ·) ∧ qs.Pairwise (· ≤ ·) ∧ xs ≠ [] ∧ qs ≠ [] :=
  ⟨by norm_num [xs], by norm_num [qs], by simp [xs], by simp [qs]⟩

example : findLower true xs qs = .ok [0, 0, 0, 1, 1, 2, 3, 3] := by
  norm_num [xs, qs, findLower, lowerPhase1, lowerPhase2, advLower]
example : findLower false xs qs = .ok [-1, 0, 0, 1, 1, 2, 3, 3] := by
  norm_num [xs, qs, findLower, lowerPhase1, lowerPhase2, advLower]
example : findHigher true xs qs = .ok [0, 0, 1, 1, 2, 3, 3, 3] := by
  norm_num [xs, qs, findHigher, higherPhase1, higherPhase2, advHigher]
example : findHigher false xs qs = .ok [0, 0, 1, 1, 2, 3, 3, 4] := by
  norm_num [xs, qs, findHigher, higherPhase1, higherPhase2, advHigher]
example : findClosest xs qs = .ok [0, 0, 0, 1, 1, 2, 3, 3] := by
  norm_num [xs, qs, findClosest, higherPhase1, closestPhase2, advClosest]
example : find "closest" true xs qs = .ok [0, 0, 0, 1, 1, 2, 3, 3] := by
  norm_num [xs, qs, find_closest, findClosest, higherPhase1, closestPhase2, advClosest]

/-- the specifications themselves give the same values -/
example : qs.map (lowerSpec false xs) = [-1, 0, 0, 1, 1, 2, 3, 3] := by
  norm_num [xs, qs, lowerSpec, List.countP_cons]
example : qs.map (higherSpec false xs) = [0, 0, 1, 1, 2, 3, 3, 4] := by
  norm_num [xs, qs, higherSpec, List.countP_cons]

/-- the specification theorems apply to the instance -/
example : findLower false xs qs = .ok (qs.map (lowerSpec false xs)) :=
  findLower_spec false xs qs (by norm_num [xs]) (by norm_num [qs]) (by simp [xs]) (by simp [qs])

/-- the mid-point tie `3/2` between `x[1] = 1` and `x[2] = 2` goes to the lower index ... -/
example : IsClosest xs (3/2) 1 := by
  refine ⟨by simp [xs], ?_, ?_⟩
  · intro j hj
    simp only [xs, List.length_cons, List.length_nil] at hj
    interval_cases j <;> simp [xs] <;> norm_num [abs_of_nonneg, abs_of_neg]
  · intro j hj
    interval_cases j
    simp [xs]
    norm_num [abs_of_nonneg, abs_of_neg]

/-- ... and not to the upper one, although `x[2]` is equally near -/
example : ¬ IsClosest xs (3/2) 2 := by
  rintro ⟨_, _, h2⟩
  have := h2 1 (by norm_num)
  simp [xs] at this
  norm_num [abs_of_nonneg, abs_of_neg] at this

/-- the sortedness of the queries is a genuine precondition: the array pointer never moves back,
so an unsorted query list gets a wrong answer (`0` is at index `0`, the scan says `2`) -/
example : findLower true ([0, 1, 2] : List ℚ) [2, 0] = .ok [2, 2] ∧
    ([2, 0] : List ℚ).map (lowerSpec true [0, 1, 2]) = [2, 0] := by
  constructor
  · norm_num [findLower, lowerPhase1, lowerPhase2, advLower]
  · norm_num [lowerSpec, List.countP_cons]

end Examples

end TWV.C10
