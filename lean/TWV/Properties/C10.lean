import TWV.Model.Search
namespace TWV.C10
theorem placeholder : True := trivial
end TWV.C10
