import TWV.Lemmas.RfaGrid

/-!
# C07 — recreation commutes with changes of units and acts locally

"Rescaling or shifting the values (y -> a*y + b, a != 0) or the time axis (x -> c*x + d, c > 0)
before recreation gives the same series as applying the map to the recreated series.  Changing one
average changes recreated values only in that interval and its immediate neighbours (two
neighbours on each side for adaptive strategies; the cubic spline is global).  The non-adaptive
strategies act linearly on the values with weights summing to one, and - the cubic spline
excepted - non-negative weights."

Model: `TWV/Model/Rfa.lean`; helper lemmas: `TWV/Lemmas/RfaGrid.lean`.  `Rfa.outY s pw x y m n w`
is the value series of strategy `s` for *given* transition windows `w`; the fixed strategies run
with `Rfa.windowsFixed`, the adaptive ones with `Rfa.windowsAdaptive gpow A m (Rfa.Yk y m n) bOf`.
The cubic spline (`FunctionRFA`) is not part of this model (it is covered by the harness only).
-/

set_option linter.unusedSectionVars false

namespace TWV.C07
open TWV TWV.Rfa

variable {K : Type} [Field K] [LinearOrder K] [IsStrictOrderedRing K]

/-! ## 1. Change of units of the values: `y ↦ a y + b`

The statements about the shape functions (`Rfa.linFit_affine_y`, `Rfa.expFit_affine_y`,
`Rfa.expXYFit_affine_y` without hypotheses; `Rfa.expLinFit_affine_y`, `Rfa.linExpXYFit_affine_y`
for distinct fit abscissae) and about the grids (`Rfa.Yk_affine`, `Rfa.XE_affine`) are in
`TWV/Lemmas/RfaGrid.lean`. -/

/-- the extended averages of the transformed values, as a function -/
theorem Yk_affine_fun (y : ℕ → K) (a b : K) (m n : ℕ) :
    Yk (fun i => a * y i + b) m n = fun k => a * Yk y m n k + b :=
  funext (Yk_affine y a b m n)

/-- the adaptive window rule only reads ratios of absolute jumps and zero tests of jumps -/
theorem adaptiveAt_affine_y (gpow : K → K) (A : ℕ) (Y : ℕ → K) (a b : K) (ha : a ≠ 0) (k : ℕ) :
    adaptiveAt gpow A (fun q => a * Y q + b) k = adaptiveAt gpow A Y k :=
  Rfa.adaptiveAt_affine_y gpow A Y a b ha k

/-- hence all four adaptive window functions are unchanged -/
theorem windowsAdaptive_affine_y (gpow : K → K) (A m n : ℕ) (y : ℕ → K) (bOf : ℕ → ℕ) (a b : K)
    (ha : a ≠ 0) :
    windowsAdaptive gpow A m (Yk (fun i => a * y i + b) m n) bOf
      = windowsAdaptive gpow A m (Yk y m n) bOf := by
  rw [Yk_affine_fun]
  exact Rfa.windowsAdaptive_affine_y gpow A m (Yk y m n) bOf a b ha

/-- the piecewise-constant and the two linear strategies commute with `y ↦ a y + b` for *all*
`a`, `b`, all windows, all grids — no hypothesis at all -/
theorem rfa_affine_y_lin (s : Strategy) (hs : s = .pc ∨ s = .linFixed ∨ s = .linAdaptive)
    (pw : K → K) (x y : ℕ → K) (m n : ℕ) (w : Windows) (a b : K) (j : ℕ) :
    outY s pw x (fun i => a * y i + b) m n w j = a * outY s pw x y m n w j + b := by
  rcases hs with rfl | rfl | rfl
  · show oversamplePC (fun i => a * y i + b) n j = a * oversamplePC y n j + b
    unfold oversamplePC; split_ifs <;> rfl
  · show linOut _ (Yk (fun i => a * y i + b) m n) m n w false j = _
    rw [Yk_affine_fun]; exact linOut_affine_y ..
  · show linOut _ (Yk (fun i => a * y i + b) m n) m n w true j = _
    rw [Yk_affine_fun]; exact linOut_affine_y ..

/-- **values, every strategy, windows given**: recreation commutes with `y ↦ a y + b`.
Hypotheses: `2 ≤ n`, `2 ≤ m` and strictly increasing abscissae — they are only used by the two
exponential strategies, whose blended pieces divide by a difference of two grid abscissae. -/
theorem rfa_affine_y (s : Strategy) (pw : K → K) (x y : ℕ → K) {m n : ℕ} (w : Windows) (a b : K)
    (hn : 2 ≤ n) (hm : 2 ≤ m) (hx : StrictIncr (m - 1) x) (j : ℕ) :
    outY s pw x (fun i => a * y i + b) m n w j = a * outY s pw x y m n w j + b := by
  have hinj := (XE_strictMono hn hm hx).injective
  cases s with
  | pc => exact rfa_affine_y_lin .pc (Or.inl rfl) pw x y m n w a b j
  | linFixed => exact rfa_affine_y_lin .linFixed (Or.inr (Or.inl rfl)) pw x y m n w a b j
  | linAdaptive => exact rfa_affine_y_lin .linAdaptive (Or.inr (Or.inr rfl)) pw x y m n w a b j
  | expFixed =>
    show expOut pw _ (Yk (fun i => a * y i + b) m n) m n w false j = _
    rw [Yk_affine_fun]; exact expOut_affine_y _ _ n w false a b pw hinj m j
  | expAdaptive =>
    show expOut pw _ (Yk (fun i => a * y i + b) m n) m n w true j = _
    rw [Yk_affine_fun]; exact expOut_affine_y _ _ n w true a b pw hinj m j

/-- pure rescaling `y ↦ a y` commutes with every strategy without any hypothesis -/
theorem rfa_scale_y (s : Strategy) (pw : K → K) (x y : ℕ → K) (m n : ℕ) (w : Windows) (a : K)
    (j : ℕ) : outY s pw x (fun i => a * y i) m n w j = a * outY s pw x y m n w j := by
  have e : (fun i => a * y i) = (fun i => a * y i + 0) := by funext i; rw [add_zero]
  have hY : Yk (fun i => a * y i) m n = fun k => a * Yk y m n k := by
    rw [e, Yk_affine_fun]; funext k; rw [add_zero]
  cases s with
  | pc => simpa using rfa_affine_y_lin .pc (Or.inl rfl) pw x y m n w a 0 j
  | linFixed => simpa using rfa_affine_y_lin .linFixed (Or.inr (Or.inl rfl)) pw x y m n w a 0 j
  | linAdaptive =>
    simpa using rfa_affine_y_lin .linAdaptive (Or.inr (Or.inr rfl)) pw x y m n w a 0 j
  | expFixed =>
    show expOut pw _ (Yk (fun i => a * y i) m n) m n w false j = _
    rw [hY]; exact expOut_scale_y ..
  | expAdaptive =>
    show expOut pw _ (Yk (fun i => a * y i) m n) m n w true j = _
    rw [hY]; exact expOut_scale_y ..

/-- **the adaptive pipeline** (windows recomputed from the transformed values), `a ≠ 0` -/
theorem rfa_affine_y_adaptive (s : Strategy) (pw gpow : K → K) (A : ℕ) (bOf : ℕ → ℕ)
    (x y : ℕ → K) {m n : ℕ} (a b : K) (ha : a ≠ 0) (hn : 2 ≤ n) (hm : 2 ≤ m)
    (hx : StrictIncr (m - 1) x) (j : ℕ) :
    outY s pw x (fun i => a * y i + b) m n
        (windowsAdaptive gpow A m (Yk (fun i => a * y i + b) m n) bOf) j
      = a * outY s pw x y m n (windowsAdaptive gpow A m (Yk y m n) bOf) j + b := by
  rw [windowsAdaptive_affine_y gpow A m n y bOf a b ha]
  exact rfa_affine_y s pw x y _ a b hn hm hx j

/-! ## 2. Change of units of the time axis: `x ↦ c x + d`, `c ≠ 0`

(The property says `c > 0`; `c ≠ 0` is all that is used: every shape function only reads ratios
of differences of abscissae.  For `c < 0` the transformed abscissae are decreasing.) -/

theorem XE_affine_fun (x : ℕ → K) (c d : K) (m n : ℕ) :
    XE (fun i => c * x i + d) m n = fun p => c * XE x m n p + d :=
  funext (XE_affine x c d m n)

/-- the returned abscissae are mapped along -/
theorem rfa_affine_x_grid (x : ℕ → K) (c d : K) (m n j : ℕ) :
    outX (fun i => c * x i + d) m n j = c * outX x m n j + d :=
  outX_affine x c d m n j

/-- the returned values do not change, for every strategy and all windows -/
theorem rfa_affine_x (s : Strategy) (pw : K → K) (x y : ℕ → K) (m n : ℕ) (w : Windows) (c d : K)
    (hc : c ≠ 0) (j : ℕ) :
    outY s pw (fun i => c * x i + d) y m n w j = outY s pw x y m n w j := by
  cases s with
  | pc => rfl
  | linFixed =>
    show linOut (XE (fun i => c * x i + d) m n) _ m n w false j = _
    rw [XE_affine_fun]; exact linOut_affine_x _ _ n w false c d hc m j
  | linAdaptive =>
    show linOut (XE (fun i => c * x i + d) m n) _ m n w true j = _
    rw [XE_affine_fun]; exact linOut_affine_x _ _ n w true c d hc m j
  | expFixed =>
    show expOut pw (XE (fun i => c * x i + d) m n) _ m n w false j = _
    rw [XE_affine_fun]; exact expOut_affine_x _ _ n w false c d hc pw m j
  | expAdaptive =>
    show expOut pw (XE (fun i => c * x i + d) m n) _ m n w true j = _
    rw [XE_affine_fun]; exact expOut_affine_x _ _ n w true c d hc pw m j

/-- the windows are functions of the averages only: neither `windowsFixed` nor `windowsAdaptive`
(nor `adaptiveAt`) has an abscissa argument, and the averages `Yk y m n` do not read `x`.  So the
whole run, windows included, commutes with `x ↦ c x + d`. -/
theorem rfa_affine_x_run (s : Strategy) (pw : K → K) (x y : ℕ → K) (m n : ℕ)
    (wOf : (ℕ → K) → Windows) (c d : K) (hc : c ≠ 0) :
    run s pw (fun i => c * x i + d) y m n (wOf (Yk y m n))
      = (run s pw x y m n (wOf (Yk y m n))).map
          (fun r => ((fun j => c * r.1 j + d), r.2)) := by
  unfold run
  split_ifs
  · rfl
  · show Except.ok _ = Except.ok _
    congr 1
    refine Prod.ext ?_ ?_
    · funext j; exact outX_affine x c d m n j
    · funext j; exact rfa_affine_x s pw x y m n _ c d hc j

/-! ## 3. Locality -/

/-- `adaptiveAt … k` reads `Y (k-1)`, `Y k`, `Y (k+1)` only -/
theorem adaptiveAt_local (gpow : K → K) (A : ℕ) (Y Y' : ℕ → K) (k : ℕ)
    (h0 : Y (k - 1) = Y' (k - 1)) (h1 : Y k = Y' k) (h2 : Y (k + 1) = Y' (k + 1)) :
    adaptiveAt gpow A Y k = adaptiveAt gpow A Y' k :=
  Rfa.adaptiveAt_local gpow A Y Y' k h0 h1 h2

/-- **windows given**: the recreated values of extended interval `k` (original interval `k-1`;
for `k = m` the final sample) only read the averages and the windows of extended intervals
`k-1`, `k`, `k+1`. -/
theorem rfa_local (s : Strategy) (pw : K → K) (x y y' : ℕ → K) {m n : ℕ} (w w' : Windows)
    (hn : 2 ≤ n) {k i : ℕ} (hk1 : 1 ≤ k) (hk : k ≤ m) (hi : i < n)
    (hY : ∀ q, k ≤ q + 1 → q ≤ k + 1 → Yk y m n q = Yk y' m n q)
    (hw : ∀ q, k ≤ q + 1 → q ≤ k + 1 →
      w.aL q = w'.aL q ∧ w.aR q = w'.aR q ∧ w.bL q = w'.bL q ∧ w.bR q = w'.bR q) :
    outY s pw x y m n w ((k - 1) * n + i) = outY s pw x y' m n w' ((k - 1) * n + i) := by
  have hdiv : ((k - 1) * n + i) / n = k - 1 := div_of_decomp (k - 1) hi
  have hag : ∀ q, k ≤ q + 1 → q ≤ k + 1 → AgreeAt (Yk y m n) (Yk y' m n) w w' q :=
    fun q h1 h2 => ⟨hY q h1 h2, hw q h1 h2⟩
  have h0 := hag (((k - 1) * n + i) / n) (by omega) (by omega)
  have h1 := hag (((k - 1) * n + i) / n + 1) (by omega) (by omega)
  have h2 := hag (((k - 1) * n + i) / n + 1 + 1) (by omega) (by omega)
  cases s with
  | pc =>
    show oversamplePC y n _ = oversamplePC y' n _
    rw [oversamplePC_eq y hn, oversamplePC_eq y' hn, hdiv, ← Yk_mid y hn hk1 hk,
      ← Yk_mid y' hn hk1 hk]
    exact hY k (by omega) (by omega)
  | linFixed => exact linOut_congr _ n false m _ h0 h1 h2
  | linAdaptive => exact linOut_congr _ n true m _ h0 h1 h2
  | expFixed => exact expOut_congr _ n false pw m _ h0 h1 h2
  | expAdaptive => exact expOut_congr _ n true pw m _ h0 h1 h2

/-- the windows of the adaptive strategies at extended interval `q` read the averages of
`q-1`, `q`, `q+1` -/
theorem windowsAdaptive_local (gpow : K → K) (A m : ℕ) (Y Y' : ℕ → K) (bOf : ℕ → ℕ) (q : ℕ)
    (h0 : Y (q - 1) = Y' (q - 1)) (h1 : Y q = Y' q) (h2 : Y (q + 1) = Y' (q + 1)) :
    (windowsAdaptive gpow A m Y bOf).aL q = (windowsAdaptive gpow A m Y' bOf).aL q ∧
    (windowsAdaptive gpow A m Y bOf).aR q = (windowsAdaptive gpow A m Y' bOf).aR q ∧
    (windowsAdaptive gpow A m Y bOf).bL q = (windowsAdaptive gpow A m Y' bOf).bL q ∧
    (windowsAdaptive gpow A m Y bOf).bR q = (windowsAdaptive gpow A m Y' bOf).bR q := by
  have := Rfa.adaptiveAt_local gpow A Y Y' q h0 h1 h2
  simp only [windowsAdaptive, this, and_self]

/-- **adaptive pipeline**: with the windows computed from the averages, the values of extended
interval `k` only read the averages of extended intervals `k-2 … k+2` -/
theorem rfa_local_adaptive (s : Strategy) (pw gpow : K → K) (A : ℕ) (bOf : ℕ → ℕ)
    (x y y' : ℕ → K) {m n : ℕ} (hn : 2 ≤ n) {k i : ℕ} (hk1 : 1 ≤ k) (hk : k ≤ m) (hi : i < n)
    (hY : ∀ q, k ≤ q + 2 → q ≤ k + 2 → Yk y m n q = Yk y' m n q) :
    outY s pw x y m n (windowsAdaptive gpow A m (Yk y m n) bOf) ((k - 1) * n + i)
      = outY s pw x y' m n (windowsAdaptive gpow A m (Yk y' m n) bOf) ((k - 1) * n + i) := by
  apply rfa_local s pw x y y' _ _ hn hk1 hk hi
  · intro q h1 h2; exact hY q (by omega) (by omega)
  · intro q h1 h2
    exact windowsAdaptive_local gpow A m _ _ bOf q (hY _ (by omega) (by omega))
      (hY _ (by omega) (by omega)) (hY _ (by omega) (by omega))

/-- the averages of two value series that differ in the single sample `q` differ only at
extended interval `q + 1` (and, for `q = 0`, at the left virtual interval `0`, which copies
`y 0`; for `q = m - 1` at all virtual intervals `≥ m`, which copy `y (m-1)`) -/
theorem Yk_eq_of_eq_off (y y' : ℕ → K) {m n : ℕ} (hn : 2 ≤ n) (hm : 2 ≤ m) {q : ℕ}
    (hq : ∀ i, i ≠ q → y i = y' i) {p : ℕ} (hp : p - 1 ≠ q) (hpm : p ≤ m) :
    Yk y m n p = Yk y' m n p := by
  rcases Nat.eq_zero_or_pos p with rfl | hp0
  · rw [Yk_zero y hn (by omega), Yk_zero y' hn (by omega)]
    exact hq 0 (by omega)
  · rw [Yk_mid y hn hp0 hpm, Yk_mid y' hn hp0 hpm]
    exact hq _ hp

/-- **equivalent reading, windows given**: changing the single average `y q` changes recreated
values only in the original intervals `q-1`, `q`, `q+1` — the samples of every other original
interval `r` (`r + 1 < q` or `q + 1 < r`) are unchanged -/
theorem rfa_local_single (s : Strategy) (pw : K → K) (x y y' : ℕ → K) {m n : ℕ} (w : Windows)
    (hn : 2 ≤ n) (hm : 2 ≤ m) {q r i : ℕ} (hq : ∀ i, i ≠ q → y i = y' i) (hr : r + 1 < m)
    (hfar : r + 1 < q ∨ q + 1 < r) (hi : i < n) :
    outY s pw x y m n w (r * n + i) = outY s pw x y' m n w (r * n + i) := by
  have := rfa_local s pw x y y' w w hn (k := r + 1) (i := i) (by omega) (by omega) hi
    (fun p h1 h2 => Yk_eq_of_eq_off y y' hn hm hq (by omega) (by omega))
    (fun p _ _ => ⟨rfl, rfl, rfl, rfl⟩)
  simpa using this

/-- **equivalent reading, adaptive pipeline**: changing `y q` changes recreated values only in
the original intervals `q-2 … q+2` -/
theorem rfa_local_single_adaptive (s : Strategy) (pw gpow : K → K) (A : ℕ) (bOf : ℕ → ℕ)
    (x y y' : ℕ → K) {m n : ℕ} (hn : 2 ≤ n) (hm : 2 ≤ m) {q r i : ℕ}
    (hq : ∀ i, i ≠ q → y i = y' i) (hr : r + 2 < m) (hfar : r + 2 < q ∨ q + 2 < r) (hi : i < n) :
    outY s pw x y m n (windowsAdaptive gpow A m (Yk y m n) bOf) (r * n + i)
      = outY s pw x y' m n (windowsAdaptive gpow A m (Yk y' m n) bOf) (r * n + i) := by
  have := rfa_local_adaptive s pw gpow A bOf x y y' hn (k := r + 1) (i := i) (by omega)
    (by omega) hi
    (fun p h1 h2 => Yk_eq_of_eq_off y y' hn hm hq (by omega) (by omega))
  simpa using this

/-! ## 4. The non-adaptive strategies are linear with weights summing to one -/

/-- **windows given, quantifier order `∃ weights, ∀ y`**: the value at result index `j` is
`c₋₁ · Y (k-1) + c₀ · Y k + c₁ · Y (k+1)` with `k = j / n + 1`, the weights not depending on `y`
and summing to one.  (This holds for arbitrary given windows; the non-adaptive strategies are the
ones whose windows do not depend on `y`.)  `StrictIncr` is only used for `.expFixed`. -/
theorem fixed_linear_weights (s : Strategy) (hs : s = .pc ∨ s = .linFixed ∨ s = .expFixed)
    (pw : K → K) (x : ℕ → K) {m n : ℕ} (w : Windows) (hn : 2 ≤ n) (hm : 2 ≤ m)
    (hx : StrictIncr (m - 1) x) {j : ℕ} (hj : j < outLen m n) :
    ∃ cm c0 cp : K, cm + c0 + cp = 1 ∧ ∀ y : ℕ → K,
      outY s pw x y m n w j
        = cm * Yk y m n (j / n) + c0 * Yk y m n (j / n + 1) + cp * Yk y m n (j / n + 2) := by
  rcases hs with rfl | rfl | rfl
  · refine ⟨0, 1, 0, by ring, fun y => ?_⟩
    have hk : j / n + 1 ≤ m := interval_le hn hm hj
    show oversamplePC y n j = _
    rw [oversamplePC_eq y hn, Yk_mid y hn (Nat.le_add_left 1 _) hk, Nat.add_sub_cancel]; ring
  · obtain ⟨cm, c0, cp, hsum, -, h⟩ :=
      linOut_comb3 (S := False) (XE x m n) n w false m j (by omega) (fun h => h.elim)
    exact ⟨cm, c0, cp, hsum, fun y => h (Yk y m n)⟩
  · obtain ⟨cm, c0, cp, hsum, -, h⟩ :=
      expOut_comb3 (S := False) (XE x m n) n w false pw m j (by omega)
        (XE_strictMono hn hm hx) (fun h => h.elim)
    exact ⟨cm, c0, cp, hsum, fun y => h (Yk y m n)⟩

/-- the linear strategy needs no hypothesis on the abscissae: the representation is an identity
that holds by `ring` for any value of the quotients `(t - x0)/(x1 - x0)`.  (On strictly
increasing abscissae every quotient `linOut` actually reads has a non-zero denominator: the left
loop runs only for `1 ≤ aL k`, the right loop only for `1 ≤ aR k`.) -/
theorem fixed_linear_weights_lin (x : ℕ → K) {m n : ℕ} (w : Windows) (hn : 0 < n) (pw : K → K)
    (j : ℕ) :
    ∃ cm c0 cp : K, cm + c0 + cp = 1 ∧ ∀ y : ℕ → K,
      outY .linFixed pw x y m n w j
        = cm * Yk y m n (j / n) + c0 * Yk y m n (j / n + 1) + cp * Yk y m n (j / n + 2) := by
  obtain ⟨cm, c0, cp, hsum, -, h⟩ :=
    linOut_comb3 (S := False) (XE x m n) n w false m j hn (fun h => h.elim)
  exact ⟨cm, c0, cp, hsum, fun y => h (Yk y m n)⟩

/-- **the weights are non-negative** (the recreated value is a convex combination of the three
averages): for `.pc` and `.linFixed` on strictly increasing abscissae with any windows, for
`.expFixed` with a `PowLike` exponent function and `b ≤ a` on both sides of interval `k` -/
theorem fixed_weights_nonneg (s : Strategy) (hs : s = .pc ∨ s = .linFixed ∨ s = .expFixed)
    (pw : K → K) (hp : PowLike pw) (x : ℕ → K) {m n : ℕ} (w : Windows) (hn : 2 ≤ n) (hm : 2 ≤ m)
    (hx : StrictIncr (m - 1) x) {j : ℕ} (hj : j < outLen m n)
    (hbL : w.bL (j / n + 1) ≤ w.aL (j / n + 1)) (hbR : w.bR (j / n + 1) ≤ w.aR (j / n + 1)) :
    ∃ cm c0 cp : K, cm + c0 + cp = 1 ∧ 0 ≤ cm ∧ 0 ≤ c0 ∧ 0 ≤ cp ∧ ∀ y : ℕ → K,
      outY s pw x y m n w j
        = cm * Yk y m n (j / n) + c0 * Yk y m n (j / n + 1) + cp * Yk y m n (j / n + 2) := by
  have hmono := XE_strictMono hn hm hx
  rcases hs with rfl | rfl | rfl
  · refine ⟨0, 1, 0, by ring, le_rfl, zero_le_one, le_rfl, fun y => ?_⟩
    have hk : j / n + 1 ≤ m := interval_le hn hm hj
    show oversamplePC y n j = _
    rw [oversamplePC_eq y hn, Yk_mid y hn (Nat.le_add_left 1 _) hk, Nat.add_sub_cancel]; ring
  · obtain ⟨cm, c0, cp, hsum, hnn, h⟩ :=
      linOut_comb3 (S := True) (XE x m n) n w false m j (by omega) (fun _ => hmono.monotone)
    obtain ⟨h0, h1, h2⟩ := hnn trivial
    exact ⟨cm, c0, cp, hsum, h0, h1, h2, fun y => h (Yk y m n)⟩
  · obtain ⟨cm, c0, cp, hsum, hnn, h⟩ :=
      expOut_comb3 (S := True) (XE x m n) n w false pw m j (by omega) hmono
        (fun _ => ⟨hp, hbL, hbR⟩)
    obtain ⟨h0, h1, h2⟩ := hnn trivial
    exact ⟨cm, c0, cp, hsum, h0, h1, h2, fun y => h (Yk y m n)⟩

/-- consequence: every recreated value lies between the smallest and the largest of the three
averages it reads (no overshoot) -/
theorem fixed_value_between (s : Strategy) (hs : s = .pc ∨ s = .linFixed ∨ s = .expFixed)
    (pw : K → K) (hp : PowLike pw) (x y : ℕ → K) {m n : ℕ} (w : Windows) (hn : 2 ≤ n) (hm : 2 ≤ m)
    (hx : StrictIncr (m - 1) x) {j : ℕ} (hj : j < outLen m n)
    (hbL : w.bL (j / n + 1) ≤ w.aL (j / n + 1)) (hbR : w.bR (j / n + 1) ≤ w.aR (j / n + 1))
    (lo hi : K)
    (h0 : lo ≤ Yk y m n (j / n) ∧ Yk y m n (j / n) ≤ hi)
    (h1 : lo ≤ Yk y m n (j / n + 1) ∧ Yk y m n (j / n + 1) ≤ hi)
    (h2 : lo ≤ Yk y m n (j / n + 2) ∧ Yk y m n (j / n + 2) ≤ hi) :
    lo ≤ outY s pw x y m n w j ∧ outY s pw x y m n w j ≤ hi := by
  obtain ⟨cm, c0, cp, hsum, p0, p1, p2, h⟩ :=
    fixed_weights_nonneg s hs pw hp x w hn hm hx hj hbL hbR
  rw [h y]
  have e : cm = 1 - c0 - cp := by linarith
  subst e
  constructor
  · nlinarith [mul_nonneg p0 (sub_nonneg.mpr h0.1), mul_nonneg p1 (sub_nonneg.mpr h1.1),
      mul_nonneg p2 (sub_nonneg.mpr h2.1)]
  · nlinarith [mul_nonneg p0 (sub_nonneg.mpr h0.2), mul_nonneg p1 (sub_nonneg.mpr h1.2),
      mul_nonneg p2 (sub_nonneg.mpr h2.2)]

/-! ## Non-vacuity -/

section Example

/-- `x = [5,6,7,8]`, `y = [10,12,14,16]`, `n = 5` -/
private def ex : ℕ → ℚ := fun i => (5 + i : ℚ)
private def ey : ℕ → ℚ := fun i => (10 + 2 * i : ℚ)

private theorem ex_incr : StrictIncr (4 - 1) ex := by intro i _; simp [ex]

private theorem powLike_sq : PowLike (fun t : ℚ => powN t 2) := powLike_powN 2 (by norm_num)

/-- hypotheses of `rfa_affine_y` are satisfiable; Fahrenheit from Celsius on `ExpFixedRFA` -/
example (j : ℕ) :
    outY .expFixed (fun t => powN t 2) ex (fun i => 9 / 5 * ey i + 32) 4 5 (windowsFixed 4 1) j
      = 9 / 5 * outY .expFixed (fun t => powN t 2) ex ey 4 5 (windowsFixed 4 1) j + 32 :=
  rfa_affine_y .expFixed _ ex ey _ _ _ (by norm_num) (by norm_num) ex_incr j

/-- seconds from minutes -/
example (j : ℕ) :
    outY .linFixed (fun t => t) (fun i => 60 * ex i + 0) ey 4 5 (windowsFixed 4 1) j
      = outY .linFixed (fun t => t) ex ey 4 5 (windowsFixed 4 1) j :=
  rfa_affine_x .linFixed _ ex ey 4 5 _ 60 0 (by norm_num) j

/-- the adaptive rule on a concrete jump pattern, and its invariance -/
example : adaptiveAt (fun t : ℚ => t) 4 (fun k => if k = 2 then 3 else 1) 1 = (0, 2) := by
  norm_num [adaptiveAt]

example : adaptiveAt (fun t : ℚ => t) 4 (fun k => -2 * (if k = 2 then 3 else 1) + 7) 1
    = adaptiveAt (fun t : ℚ => t) 4 (fun k => if k = 2 then (3 : ℚ) else 1) 1 :=
  adaptiveAt_affine_y _ 4 _ (-2) 7 (by norm_num) 1

/-- `a ≠ 0` is needed: with `a = 0` all jumps vanish and the rule returns `(0, 0)` -/
example : adaptiveAt (fun t : ℚ => t) 4 (fun k => 0 * (if k = 2 then 3 else 1) + 7) 1 = (0, 0) := by
  simp [adaptiveAt]

/-- changing `y 3` of a 6-sample series does not change the samples of original interval `0`
(here `q = 3`, `r = 0`, `r + 1 < q`) -/
example (i : ℕ) (hi : i < 5) (v : ℚ) :
    outY .expFixed (fun t => powN t 2) (fun i => (i : ℚ)) (fun i => (i : ℚ) * i) 6 5
        (windowsFixed 4 1) (0 * 5 + i)
      = outY .expFixed (fun t => powN t 2) (fun i => (i : ℚ))
          (fun i => if i = 3 then v else (i : ℚ) * i) 6 5 (windowsFixed 4 1) (0 * 5 + i) :=
  rfa_local_single .expFixed _ _ _ _ _ (by norm_num) (by norm_num) (q := 3)
    (fun i h => by simp [h]) (by norm_num) (Or.inl (by norm_num)) hi

/-- the convex-weights statement applies to the standard configuration -/
example : ∃ cm c0 cp : ℚ, cm + c0 + cp = 1 ∧ 0 ≤ cm ∧ 0 ≤ c0 ∧ 0 ≤ cp ∧ ∀ y : ℕ → ℚ,
    outY .expFixed (fun t => powN t 2) ex y 4 5 (windowsFixed 4 1) 4
      = cm * Yk y 4 5 (4 / 5) + c0 * Yk y 4 5 (4 / 5 + 1) + cp * Yk y 4 5 (4 / 5 + 2) :=
  fixed_weights_nonneg .expFixed (Or.inr (Or.inr rfl)) _ powLike_sq ex _ (by norm_num)
    (by norm_num) ex_incr (by norm_num [outLen]) (by norm_num [windowsFixed])
    (by norm_num [windowsFixed])

/-- explicit weights of `LinearFixedRFA` at sample 4 of the example of `C04`: `(0, 3/4, 1/4)` -/
example (y : ℕ → ℚ) :
    outY .linFixed (fun t => t) ex y 4 5 (windowsFixed 4 1) 4
      = 3 / 4 * Yk y 4 5 1 + 1 / 4 * Yk y 4 5 2 := by
  have hn : (2 : ℕ) ≤ 5 := by norm_num
  have hm : (2 : ℕ) ≤ 4 := by norm_num
  show linOut (XE ex 4 5) (Yk y 4 5) 4 5 (windowsFixed 4 1) false 4 = _
  have hX8 : XE ex 4 5 8 = 28 / 5 := by
    have := XE_mid ex hn hm (k := 1) (j := 3) (by norm_num) (by norm_num) (by norm_num)
    norm_num [ex] at this ⊢; linarith
  have hX9 : XE ex 4 5 9 = 29 / 5 := by
    have := XE_mid ex hn hm (k := 1) (j := 4) (by norm_num) (by norm_num) (by norm_num)
    norm_num [ex] at this ⊢; linarith
  have hX10 : XE ex 4 5 10 = 6 := by
    have := XE_mid ex hn hm (k := 2) (j := 0) (by norm_num) (by norm_num) (by norm_num)
    norm_num [ex] at this ⊢; linarith
  have hX12 : XE ex 4 5 12 = 32 / 5 := by
    have := XE_mid ex hn hm (k := 2) (j := 2) (by norm_num) (by norm_num) (by norm_num)
    norm_num [ex] at this ⊢; linarith
  norm_num [linOut, linRight, z0, linFit, windowsFixed, hX8, hX9, hX10, hX12]
  ring

end Example

end TWV.C07
