import TWV.Lemmas.Weaver
import Mathlib.Algebra.Order.Field.Rat

/-!
# C08 — the reference series tracks domain transformations through any history

"As long as the series has not been reshaped, after any sequence of append-one-sample, shift,
scale, normalise, repeat and truncate operations the working series and the reference series are
identical and equal the original with exactly those transformations applied; reshaping operations
(recreate, match, interpolate, smooth, trend, noise) never alter the reference."

Model: `TWV/Model/Weaver.lean`.  Helper lemmas: `TWV/Lemmas/Weaver.lean`.
-/

set_option linter.unusedSectionVars false

namespace TWV.C08
open TWV TWV.Weaver

variable {K : Type} [Field K] [LinearOrder K] [IsStrictOrderedRing K]

/-- the domain transformations: they act on the working and on the reference series alike -/
def IsDomain : Op K → Prop
  | .appendOne _ | .shiftX _ | .shiftY _ | .scaleX _ | .scaleY _ | .normX _ _ | .normY _ _
  | .repeat _ | .truncV _ _ _ _ | .truncI _ _ => True
  | _ => False

/-- the reshaping operations: they replace the working series only -/
def IsReshape : Op K → Prop
  | .recreate _ _ _ _ _ _ _ | .recreateExt _ _ | .integralMatch _ _ _ _ _ _ | .interpN _ _ _
  | .interpX _ _ _ | .smooth _ | .trendPoly _ _ | .noise _ => True
  | _ => False

/-- the pure transformation of a series `(x, y)` a domain operation stands for (an error for
everything that is not a domain operation) -/
def applyDomain : List K × List K → Op K → Except Err (List K × List K)
  | (x, y), .appendOne p => Weaver.appendOne x y p
  | (x, y), .shiftX d => .ok (x.map (· + d), y)
  | (x, y), .shiftY d => .ok (x, y.map (· + d))
  | (x, y), .scaleX c => .ok (x.map (· * c), y)
  | (x, y), .scaleY c => .ok (x, y.map (· * c))
  | (x, y), .normX lo hi => .ok (normalizeS x lo hi, y)
  | (x, y), .normY lo hi => .ok (x, normalizeS y lo hi)
  | (x, y), .repeat r => .ok (repeatS x y r)
  | (x, y), .truncV l r lr rr => truncateS x y l r lr rr
  | (x, y), .truncI start stop =>
    if start < 0 then .error .valueError
    else if stop.getD x.length > x.length then .error .valueError
    else .ok (pySlice x start (stop.getD x.length), pySlice y start (stop.getD x.length))
  | _, _ => .error .typeError

/-! ## One step -/

/-- a successful domain operation on a state whose reference equals the working series keeps them
equal, and the new working series is the transformation applied to the old one -/
theorem domain_step (s : State K) (op : Op K) (hx : s.rx = s.x) (hy : s.ry = s.y)
    (hd : IsDomain op) (h : (step s op).err = none) :
    (step s op).state.rx = (step s op).state.x ∧ (step s op).state.ry = (step s op).state.y ∧
      applyDomain (s.x, s.y) op = .ok ((step s op).state.x, (step s op).state.y) := by
  obtain ⟨x, y, rx, ry, ox, oy, cx, cy⟩ := s
  simp only at hx hy
  subst hx hy
  cases op with
  | appendOne p =>
    revert h; simp only [step, applyDomain]
    cases appendOne rx ry p with
    | error e => simp
    | ok r => simp
  | truncV l r lr rr =>
    revert h; simp only [step, applyDomain]
    cases truncateS rx ry l r lr rr with
    | error e => simp
    | ok r => simp
  | truncI a b =>
    revert h; simp only [step, applyDomain]
    split
    · simp
    · split <;> simp
  | shiftX _ | shiftY _ | scaleX _ | scaleY _ | normX _ _ | normY _ _ | «repeat» _ =>
    simp [step, applyDomain]
  | _ => exact absurd hd (by simp [IsDomain])

/-- conversely: if the pure transformation is defined, the operation is a domain operation and the
step succeeds -/
theorem domain_step_conv (s : State K) (op : Op K) (hx : s.rx = s.x) (hy : s.ry = s.y)
    (r : List K × List K) (h : applyDomain (s.x, s.y) op = .ok r) :
    IsDomain op ∧ (step s op).err = none := by
  obtain ⟨x, y, rx, ry, ox, oy, cx, cy⟩ := s
  simp only at hx hy
  subst hx hy
  cases op with
  | appendOne p =>
    revert h; simp only [step, applyDomain, IsDomain]
    cases appendOne rx ry p with
    | error e => simp
    | ok r => simp
  | truncV l r lr rr =>
    revert h; simp only [step, applyDomain, IsDomain]
    cases truncateS rx ry l r lr rr with
    | error e => simp
    | ok r => simp
  | truncI a b =>
    revert h; simp only [step, applyDomain, IsDomain]
    split
    · simp
    · split <;> simp
  | shiftX _ | shiftY _ | scaleX _ | scaleY _ | normX _ _ | normY _ _ | «repeat» _ =>
    simp [step, IsDomain]
  | _ => simp [applyDomain] at h

/-! ## Any history -/

/-- the induction over histories, from any state whose reference equals its working series -/
theorem domain_run (s : State K) (ops : List (Op K)) (hx : s.rx = s.x) (hy : s.ry = s.y)
    (hd : ∀ op ∈ ops, IsDomain op) (h : (runOps s ops).err = none) :
    (runOps s ops).state.x = (runOps s ops).state.rx ∧
    (runOps s ops).state.y = (runOps s ops).state.ry ∧
    ops.foldlM applyDomain (s.x, s.y) = .ok ((runOps s ops).state.x, (runOps s ops).state.y) := by
  induction ops generalizing s with
  | nil => simp [runOps, hx, hy, pure, Except.pure]
  | cons op ops ih =>
    cases hs : (step s op).err with
    | some e => simp [runOps, hs] at h
    | none =>
      have hr : runOps s (op :: ops) = runOps (step s op).state ops := by simp [runOps, hs]
      obtain ⟨h1, h2, h3⟩ := domain_step s op hx hy (hd op List.mem_cons_self) hs
      rw [hr] at h ⊢
      obtain ⟨i1, i2, i3⟩ := ih (step s op).state h1 h2
        (fun o ho => hd o (List.mem_cons_of_mem _ ho)) h
      refine ⟨i1, i2, ?_⟩
      rw [List.foldlM_cons, h3]
      exact i3

/-- **C08, first half.**  For a freshly constructed Weaver on `(x, y)` and every history of domain
operations that runs without error: working series = reference series = the original `(x, y)` with
exactly those transformations applied, in order. -/
theorem domain_history (x y : List K) (s₀ : State K) (h₀ : init (some x) y = .ok s₀)
    (ops : List (Op K)) (hd : ∀ op ∈ ops, IsDomain op) (h : (runOps s₀ ops).err = none) :
    (runOps s₀ ops).state.x = (runOps s₀ ops).state.rx ∧
    (runOps s₀ ops).state.y = (runOps s₀ ops).state.ry ∧
    ops.foldlM applyDomain (x, y) = .ok ((runOps s₀ ops).state.x, (runOps s₀ ops).state.y) := by
  obtain ⟨_, rfl⟩ := init_some_eq x y s₀ h₀
  exact domain_run _ ops rfl rfl hd h

/-- the same for `Weaver(None, y)`: the abscissae are `0, 1, …` -/
theorem domain_history_arange (y : List K) (s₀ : State K) (h₀ : init none y = .ok s₀)
    (ops : List (Op K)) (hd : ∀ op ∈ ops, IsDomain op) (h : (runOps s₀ ops).err = none) :
    (runOps s₀ ops).state.x = (runOps s₀ ops).state.rx ∧
    (runOps s₀ ops).state.y = (runOps s₀ ops).state.ry ∧
    ops.foldlM applyDomain (ofFn y.length (fun i => (i : K)), y) =
      .ok ((runOps s₀ ops).state.x, (runOps s₀ ops).state.y) := by
  obtain rfl := init_none_eq y s₀ h₀
  exact domain_run _ ops rfl rfl hd h

/-- the converse direction: whenever the transformations compose to a defined series, the history
runs without error (and then `domain_run` applies) -/
theorem domain_run_conv (s : State K) (ops : List (Op K)) (hx : s.rx = s.x) (hy : s.ry = s.y)
    (r : List K × List K) (h : ops.foldlM applyDomain (s.x, s.y) = .ok r) :
    (∀ op ∈ ops, IsDomain op) ∧ (runOps s ops).err = none := by
  induction ops generalizing s with
  | nil => simp [runOps]
  | cons op ops ih =>
    rw [List.foldlM_cons] at h
    cases ha : applyDomain (s.x, s.y) op with
    | error e => rw [ha] at h; cases h
    | ok r' =>
      obtain ⟨hd, hs⟩ := domain_step_conv s op hx hy r' ha
      obtain ⟨h1, h2, h3⟩ := domain_step s op hx hy hd hs
      rw [ha] at h
      rw [ha] at h3
      cases h3
      obtain ⟨i1, i2⟩ := ih (step s op).state h1 h2 h
      have hr : runOps s (op :: ops) = runOps (step s op).state ops := by simp [runOps, hs]
      rw [hr]
      refine ⟨?_, i2⟩
      intro o ho
      rcases List.mem_cons.mp ho with rfl | ho
      · exact hd
      · exact i1 o ho

theorem domain_history_conv (x y : List K) (s₀ : State K) (h₀ : init (some x) y = .ok s₀)
    (ops : List (Op K)) (r : List K × List K) (h : ops.foldlM applyDomain (x, y) = .ok r) :
    (runOps s₀ ops).err = none ∧ r = ((runOps s₀ ops).state.x, (runOps s₀ ops).state.y) := by
  obtain ⟨_, rfl⟩ := init_some_eq x y s₀ h₀
  obtain ⟨hd, he⟩ := domain_run_conv
    { x := x, y := y, rx := x, ry := y, ox := x, oy := y, callerX := x, callerY := y } ops rfl rfl r h
  refine ⟨he, ?_⟩
  have := (domain_run _ ops rfl rfl hd he).2.2
  simp only at this
  rw [h] at this
  cases this; rfl

/-! ## Frames -/

/-- **C08, second half.**  A reshaping operation never alters the reference (nor the original),
whether it succeeds or fails. -/
theorem reshape_frame (s : State K) (op : Op K) (h : IsReshape op) :
    (step s op).state.rx = s.rx ∧ (step s op).state.ry = s.ry ∧
    (step s op).state.ox = s.ox ∧ (step s op).state.oy = s.oy :=
  step_reshape_frame s op (by
    intro hc; cases op <;> simp_all [IsReshape, IsRefWriter])

/-- every operation other than normalisation leaves the stored original unchanged -/
theorem original_frame (s : State K) (op : Op K) (hx : ∀ lo hi, op ≠ .normX lo hi)
    (hy : ∀ lo hi, op ≠ .normY lo hi) :
    (step s op).state.ox = s.ox ∧ (step s op).state.oy = s.oy :=
  step_original_frame s op hx hy

/-- … and normalisation renormalises it (by design): `normX` touches `ox` only, `normY` `oy` only -/
theorem original_norm (s : State K) (lo hi : K) :
    (step s (.normX lo hi)).state.ox = normalizeS s.ox lo hi ∧
    (step s (.normX lo hi)).state.oy = s.oy ∧
    (step s (.normY lo hi)).state.oy = normalizeS s.oy lo hi ∧
    (step s (.normY lo hi)).state.ox = s.ox := by
  simp [step]

/-- no operation writes the arrays handed in by the caller -/
theorem caller_untouched (s : State K) (op : Op K) :
    (step s op).state.callerX = s.callerX ∧ (step s op).state.callerY = s.callerY :=
  step_caller s op

theorem caller_untouched_run (s : State K) (ops : List (Op K)) :
    (runOps s ops).state.callerX = s.callerX ∧ (runOps s ops).state.callerY = s.callerY :=
  runOps_caller s ops

/-! ## Non-vacuity, over `ℚ`: a 5-point series and a 4-operation history -/

private def x5 : List ℚ := [0, 1, 2, 3, 4]
private def y5 : List ℚ := [5, 3, 8, 1, 2]
private def s5 : State ℚ :=
  { x := x5, y := y5, rx := x5, ry := y5, ox := x5, oy := y5, callerX := x5, callerY := y5 }
private def hist : List (Op ℚ) := [.shiftX 1, .scaleY 2, .repeat 2, .truncI 1 (some 7)]

example : init (some x5) y5 = .ok s5 := init_some_ok x5 y5 rfl

example : ∀ op ∈ hist, IsDomain op := by
  intro op hop
  simp only [hist, List.mem_cons, List.not_mem_nil, or_false] at hop
  rcases hop with rfl | rfl | rfl | rfl <;> trivial

/-- the hypotheses of `domain_history` hold for this history … -/
example : (runOps s5 hist).err = none := by decide +kernel

/-- … and this is the series it ends in (working = reference), which is the fold of the four
transformations over the original -/
example : (runOps s5 hist).state.x = [2, 3, 4, 5, 6, 7] ∧
    (runOps s5 hist).state.y = [6, 16, 2, 4, 10, 6] ∧
    (runOps s5 hist).state.rx = [2, 3, 4, 5, 6, 7] ∧
    (runOps s5 hist).state.ry = [6, 16, 2, 4, 10, 6] ∧
    (runOps s5 hist).state.ox = x5 ∧ (runOps s5 hist).state.oy = y5 := by decide +kernel

example : hist.foldlM applyDomain (x5, y5) = .ok ([2, 3, 4, 5, 6, 7], [6, 16, 2, 4, 10, 6]) := by
  decide +kernel

/-- a history that is cut short: the inverted truncation is refused and `domain_history` does not
apply (its hypothesis fails) -/
example : (runOps s5 [.shiftX 1, .truncV 3 1 false false]).err = some .valueError := by
  decide +kernel

/-- a reshaping operation (`smooth`, `noise`) after the history changes `y` but not the reference -/
example : (step (runOps s5 hist).state (.noise [1, 1, 1, 1, 1, 1])).state.y = [7, 17, 3, 5, 11, 7] ∧
    (step (runOps s5 hist).state (.noise [1, 1, 1, 1, 1, 1])).state.ry = [6, 16, 2, 4, 10, 6] := by
  decide +kernel

end TWV.C08
