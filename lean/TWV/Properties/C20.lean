import TWV.Lemmas.Weaver
import Mathlib.Algebra.Order.Field.Rat

/-!
# C20 — invalid requests are refused with ValueError and leave the Weaver untouched

"Mismatched x/y lengths, a non (N,2) array, an oversampling factor below 2, unknown
integration-rule, search-strategy, interpolation-method or dataset names, fixed points that are not
samples of x or outnumber them, an empty or inverted truncation range, out-of-range index bounds, a
slicing value that is not a sample, and an interpolation grid with different end points are all
rejected with ValueError.  A rejected Weaver operation leaves the working, reference and original
series exactly as they were."

Model: `TWV/Model/Weaver.lean` (`step` returns the state it leaves behind together with the error,
in the code's assignment order).  Helper lemmas: `TWV/Lemmas/Weaver.lean`.  (Unknown dataset names
belong to the dataset registry, C18.)
-/

set_option linter.unusedSectionVars false

namespace TWV.C20
open TWV TWV.Weaver

variable {K : Type} [Field K] [LinearOrder K] [IsStrictOrderedRing K]

/-! ## A rejected operation leaves the object untouched -/

/-- for EVERY state (no invariant needed) and every operation: a step that raises `ValueError`
leaves all eight components of the state exactly as they were -/
theorem reject_untouched (s : State K) (op : Op K) (h : (step s op).err = some .valueError) :
    (step s op).state = s := by
  cases op with
  | appendOne p => exact absurd (step_appendOne_err s p _ h) (by decide)
  | _ => exact step_fail_state s _ (fun p hp => by cases hp) _ h

/-- `append_one_sample` never raises `ValueError`; its only failure is NumPy's `IndexError` on
series that are too short (and then `x, y` may already have been assigned, which is why it is
excluded from `reject_untouched_any`) -/
theorem appendOne_partial (s : State K) (p : Bool) (e : Err)
    (h : (step s (.appendOne p)).err = some e) : e = .indexError :=
  step_appendOne_err s p e h

/-- on a state whose reference series has at least two samples `append_one_sample` fails only
before anything has been assigned -/
theorem appendOne_fail_untouched (s : State K) (p : Bool) (e : Err)
    (hr : 2 ≤ s.rx.length) (hy : s.ry ≠ []) (h : (step s (.appendOne p)).err = some e) :
    (step s (.appendOne p)).state = s :=
  step_appendOne_fail_state s p e hr hy h

/-- for every operation other than `appendOne`, ANY error leaves the state unchanged -/
theorem reject_untouched_any (s : State K) (op : Op K) (hop : ∀ p, op ≠ .appendOne p) (e : Err)
    (h : (step s op).err = some e) : (step s op).state = s :=
  step_fail_state s op hop e h

/-- a program stops at the first rejected operation, in the state the last successful operation
produced: if the program is rejected with `ValueError`, the final state is the state reached by a
proper prefix of the program that ran without error -/
theorem reject_untouched_program (s : State K) (ops : List (Op K))
    (h : (runOps s ops).err = some .valueError) :
    ∃ pre op post, ops = pre ++ op :: post ∧ (runOps s pre).err = none ∧
      (runOps s ops).state = (runOps s pre).state ∧
      (step (runOps s pre).state op).err = some .valueError := by
  induction ops generalizing s with
  | nil => simp [runOps] at h
  | cons op ops ih =>
    cases hs : (step s op).err with
    | some e =>
      have hr : runOps s (op :: ops) = step s op := by simp [runOps, hs]
      rw [hr, hs] at h
      refine ⟨[], op, ops, rfl, rfl, ?_, ?_⟩
      · rw [hr]; simp only [runOps, ok_state]
        exact reject_untouched s op (by rw [hs, h])
      · simp only [runOps, ok_state]; rw [hs, h]
    | none =>
      have hr : runOps s (op :: ops) = runOps (step s op).state ops := by simp [runOps, hs]
      rw [hr] at h
      obtain ⟨pre, op', post, he, h1, h2, h3⟩ := ih (step s op).state h
      have hp : runOps s (op :: pre) = runOps (step s op).state pre := by simp [runOps, hs]
      exact ⟨op :: pre, op', post, by rw [he]; rfl, by rw [hp]; exact h1,
        by rw [hr, hp]; exact h2, by rw [hp]; exact h3⟩

/-! ## What is rejected (`reject_kinds`) -/

/-- mismatched x/y lengths -/
theorem init_length_mismatch (x y : List K) (h : x.length ≠ y.length) :
    init (some x) y = .error .valueError := by
  simp [init, h]

/-- a non (N,2) array: some row does not have exactly two entries -/
theorem from2d_bad_shape (rows : List (List K)) (h : ∃ r ∈ rows, r.length ≠ 2) :
    from2d rows = .error .valueError := by
  obtain ⟨r, hr, hne⟩ := h
  unfold from2d
  rw [if_neg]
  intro hall
  exact hne (by simpa using List.all_eq_true.mp hall r hr)

/-- an oversampling factor below 2, whatever the strategy name and windows -/
theorem recreate_small_n (s : State K) (st : String) (pw : K → K) (n : ℤ) (aL aR bL bR : List ℕ)
    (hn : n < 2) : step s (.recreate st pw n aL aR bL bR) = fail s .valueError := by
  simp only [step, if_pos hn]

/-- … also for the strategies with an external sampling function -/
theorem recreateExt_small_n (s : State K) (n : ℤ) (ys : List K) (hn : n < 2) :
    step s (.recreateExt n ys) = fail s .valueError := by
  simp only [step, if_pos hn]

/-- unknown integration rule for the reference function -/
theorem match_unknown_ref_rule (s : State K) (pw : K → K) (fpx : Option (List K))
    (fpi : Option (List ℕ)) (strategy target refRule : String) (fp : FixedPoints K)
    (hfp : fixedPoints s.x s.rx fpx fpi strategy = .ok fp) (h : Rule.ofString? refRule = none) :
    step s (.integralMatch pw fpx fpi strategy target refRule) = fail s .valueError := by
  simp only [step, matchRef_unknown_ref pw s.x s.y s.rx s.ry fpx fpi strategy target refRule fp hfp h]

/-- unknown integration rule for the target function (reached as soon as there is a window to
stretch) -/
theorem match_unknown_target_rule (s : State K) (pw : K → K) (fpx : Option (List K))
    (fpi : Option (List ℕ)) (strategy target refRule : String) (fp : FixedPoints K) (rr : Rule)
    (hfp : fixedPoints s.x s.rx fpx fpi strategy = .ok fp) (hrr : Rule.ofString? refRule = some rr)
    (h : Rule.ofString? target = none) (hw : refWindows rr s.rx s.ry fp ≠ []) :
    step s (.integralMatch pw fpx fpi strategy target refRule) = fail s .valueError := by
  simp only [step, matchRef_unknown_target pw s.x s.y s.rx s.ry fpx fpi strategy target refRule fp rr
    hfp hrr h hw]

/-- unknown search strategy (default mode: no fixed points given) -/
theorem match_unknown_strategy (s : State K) (pw : K → K) (strategy target refRule : String)
    (h : Search.Strategy.ofString? strategy = none) :
    step s (.integralMatch pw none none strategy target refRule) = fail s .valueError := by
  simp only [step, matchRef_fp_error pw s.x s.y s.rx s.ry none none strategy target refRule _
    (fixedPoints_unknown_strategy s.x s.rx strategy h)]

/-- fixed points (given as values) that outnumber the samples -/
theorem fixed_points_too_many (s : State K) (pw : K → K) (v : List K) (fpi : Option (List ℕ))
    (strategy target refRule : String) (h : v.length > s.x.length) :
    step s (.integralMatch pw (some v) fpi strategy target refRule) = fail s .valueError := by
  simp only [step, matchRef_fp_error pw s.x s.y s.rx s.ry (some v) fpi strategy target refRule _
    (fixedPoints_too_many_x s.x s.rx v fpi strategy h)]

/-- fixed points (given as indices) that outnumber the samples -/
theorem fixed_point_indices_too_many (s : State K) (pw : K → K) (fpx : Option (List K))
    (v : List ℕ) (strategy target refRule : String) (h : v.length > s.x.length) :
    step s (.integralMatch pw fpx (some v) strategy target refRule) = fail s .valueError := by
  simp only [step, matchRef_fp_error pw s.x s.y s.rx s.ry fpx (some v) strategy target refRule _
    (fixedPoints_too_many_i s.x s.rx fpx v strategy h)]

/-- fixed points (given as values) that are not samples of `x`: some value of `v` does not occur
in `x`.  Needs strictly increasing abscissae (so that `np.isin` cannot make up for the missing value
by a repeated one) and a non-empty strictly increasing reference (so that the nearest-element search
before the check does not fail first). -/
theorem fixed_points_not_samples (s : State K) (pw : K → K) (v : List K)
    (strategy target refRule : String) (hx : s.x.Pairwise (· < ·)) (hrx : s.rx.Pairwise (· < ·))
    (hrx0 : s.rx ≠ []) (hv : v.length ≤ s.x.length) (a : K) (ha : a ∈ v) (hax : a ∉ s.x) :
    step s (.integralMatch pw (some v) none strategy target refRule) = fail s .valueError := by
  simp only [step, matchRef_fp_error pw s.x s.y s.rx s.ry (some v) none strategy target refRule _
    (fixedPoints_not_samples s.x s.rx v strategy hx hrx hrx0 hv a ha hax)]

/-- the same with the success of the two look-ups before the check as hypotheses instead of the
shape of the reference -/
theorem fixed_points_not_samples_partial (s : State K) (pw : K → K) (v : List K)
    (strategy target refRule : String) (ri : List ℤ) (inRef : List K)
    (hx : s.x.Pairwise (· < ·)) (hv : v.length ≤ s.x.length) (a : K) (ha : a ∈ v) (hax : a ∉ s.x)
    (hs : Search.find "closest" true s.rx (uniqueK v) = .ok ri) (ht : takeK s.rx ri = .ok inRef) :
    step s (.integralMatch pw (some v) none strategy target refRule) = fail s .valueError := by
  simp only [step, matchRef_fp_error pw s.x s.y s.rx s.ry (some v) none strategy target refRule _
    (fixedPoints_not_samples_of_search s.x s.rx v strategy ri inRef hx hv a ha hax hs ht)]

/-- unknown interpolation method, `interpolate(n=…)` -/
theorem interp_unknown_method (s : State K) (n : ℕ) (m : String) (ext : List K)
    (h : Process.Method.ofString? m = none) :
    step s (.interpN n m ext) = fail s .valueError := by
  simp only [step, interpolate_unknown _ _ _ m ext h]

/-- unknown interpolation method, `interpolate(new_x=…)` (whatever the grid) -/
theorem interp_unknown_method_grid (s : State K) (g : List K) (m : String) (ext : List K)
    (h : Process.Method.ofString? m = none) :
    step s (.interpX g m ext) = fail s .valueError := by
  simp only [step, interpolate_unknown _ _ _ m ext h]
  split <;> rfl

/-- an interpolation grid whose first or last point differs from the series' -/
theorem interp_grid_mismatch (s : State K) (g : List K) (m : String) (ext : List K)
    (h : g.headD 0 ≠ s.x.headD 0 ∨ g.getLastD 0 ≠ s.x.getLastD 0) :
    step s (.interpX g m ext) = fail s .valueError := by
  simp only [step, if_pos h]

/-- an empty or inverted truncation range: after the ratio conversion of the code
(`v * (x[-1] - x[0]) + x[0]`) the right bound is not above the left one -/
theorem truncV_inverted (s : State K) (l r : K) (lr rr : Bool)
    (h : (if rr then r * (s.x.getLastD 0 - s.x.headD 0) + s.x.headD 0 else r) ≤
         (if lr then l * (s.x.getLastD 0 - s.x.headD 0) + s.x.headD 0 else l)) :
    step s (.truncV l r lr rr) = fail s .valueError := by
  simp only [step, truncateS_inverted s.x s.y l r lr rr h]

/-- … in particular absolute bounds `right ≤ left` -/
theorem truncV_inverted_abs (s : State K) (l r : K) (h : r ≤ l) :
    step s (.truncV l r false false) = fail s .valueError :=
  truncV_inverted s l r false false (by simpa using h)

/-- conversely, on non-empty strictly increasing working and reference abscissae
`truncate_by_value` is never refused with anything but `ValueError` -/
theorem truncV_only_valueError (s : State K) (l r : K) (lr rr : Bool) (hx : s.x.Pairwise (· < ·))
    (hx0 : s.x ≠ []) (hrx : s.rx.Pairwise (· < ·)) (hrx0 : s.rx ≠ []) (e : Err)
    (h : (step s (.truncV l r lr rr)).err = some e) : e = .valueError :=
  step_truncV_err s l r lr rr hx hx0 hrx hrx0 e h

/-- out-of-range index bounds for `truncate_by_index` -/
theorem truncI_bounds (s : State K) (start : ℤ) (stop : Option ℤ)
    (h : start < 0 ∨ stop.getD s.x.length > s.x.length) :
    step s (.truncI start stop) = fail s .valueError := by
  rcases h with h | h
  · simp only [step, if_pos h]
  · simp only [step, if_pos h]; split <;> rfl

/-- out-of-range index bounds for `slice_by_index` -/
theorem sliceByIndex_bounds (s : State K) (start : ℤ) (stop : Option ℤ) (stp : ℕ)
    (h : start < 0 ∨ stop.getD s.x.length > s.x.length) :
    sliceByIndex s start stop stp = .error .valueError := by
  rcases h with h | h
  · simp only [sliceByIndex, if_pos h]
  · simp only [sliceByIndex, if_pos h]; split <;> rfl

/-- a start value that is not a sample -/
theorem sliceByValue_absent_start (s : State K) (v : K) (stop : Option K) (stp : ℕ)
    (h : v ∉ s.x) : sliceByValue s (some v) stop stp = .error .valueError := by
  have : s.x.findIdx? (· = v) = none := by
    rw [List.findIdx?_eq_none_iff]
    intro a ha; exact decide_eq_false (fun e => h (e ▸ ha))
  simp only [sliceByValue, this, bind, Except.bind, throw, throwThe, MonadExceptOf.throw]

/-- a stop value that is not a sample (whatever the start) -/
theorem sliceByValue_absent_stop (s : State K) (start : Option K) (v : K) (stp : ℕ)
    (h : v ∉ s.x) : sliceByValue s start (some v) stp = .error .valueError := by
  have : s.x.findIdx? (· = v) = none := by
    rw [List.findIdx?_eq_none_iff]
    intro a ha; exact decide_eq_false (fun e => h (e ▸ ha))
  simp only [sliceByValue, this, bind, Except.bind, throw, throwThe, MonadExceptOf.throw, pure,
    Except.pure]
  cases start with
  | none => rfl
  | some w => simp only []; split <;> rfl

/-- regression for a repaired defect (`if not start_idx`): starting at the first sample is the same
as not giving a start -/
theorem sliceByValue_first (s : State K) (a : K) (rest : List K) (stop : Option K) (stp : ℕ)
    (hx : s.x = a :: rest) : sliceByValue s (some a) stop stp = sliceByValue s none stop stp := by
  have : s.x.findIdx? (· = a) = some 0 := by rw [hx]; simp [List.findIdx?_cons]
  simp only [sliceByValue, this]

/-- … and it works: the whole series from its first value on is returned -/
theorem sliceByValue_first_ok (s : State K) (a : K) (rest : List K) (stp : ℕ) (hs : stp ≠ 0)
    (hx : s.x = a :: rest) : ∃ r, sliceByValue s (some a) none stp = .ok r := by
  rw [sliceByValue_first s a rest none stp hx]
  simp [sliceByValue, sliceByIndex, bind, Except.bind, pure, Except.pure, hs]

/-! ## Non-vacuity, over `ℚ`

`sT` is reached from a 5-point series by a valid history (shift, scale, repeat, truncate,
interpolate), so that working, reference and original series all differ. -/

private def x5 : List ℚ := [0, 1, 2, 3, 4]
private def y5 : List ℚ := [5, 3, 8, 1, 2]
private def s5 : State ℚ :=
  { x := x5, y := y5, rx := x5, ry := y5, ox := x5, oy := y5, callerX := x5, callerY := y5 }
private def hist : List (Op ℚ) :=
  [.shiftX 1, .scaleY 2, .repeat 2, .truncI 1 (some 7), .interpN 11 "linear" []]
private def sT : State ℚ := (runOps s5 hist).state
private def pw2 : ℚ → ℚ := fun t => t * t

example : (runOps s5 hist).err = none := by decide +kernel
example : sT.x = [2, 5/2, 3, 7/2, 4, 9/2, 5, 11/2, 6, 13/2, 7] ∧
    sT.y = [6, 11, 16, 9, 2, 3, 4, 7, 10, 8, 6] ∧
    sT.rx = [2, 3, 4, 5, 6, 7] ∧ sT.ry = [6, 16, 2, 4, 10, 6] ∧
    sT.ox = x5 ∧ sT.oy = y5 := by decide +kernel

/-- the fixed points of the default mode in `sT`: every second sample -/
private def fpT : FixedPoints ℚ :=
  { inX := [2, 3, 4, 5, 6, 7], idxX := [0, 2, 4, 6, 8, 10], idxRef := [0, 1, 2, 3, 4, 5] }

private theorem fpT_ok : fixedPoints sT.x sT.rx none none "closest" = .ok fpT := by
  have hx : sT.x = [2, 5/2, 3, 7/2, 4, 9/2, 5, 11/2, 6, 13/2, 7] := by decide +kernel
  have hr : sT.rx = [2, 3, 4, 5, 6, 7] := by decide +kernel
  have hu : uniqueK ([2, 3, 4, 5, 6, 7] : List ℚ) = [2, 3, 4, 5, 6, 7] := by
    unfold uniqueK
    rw [List.mergeSort_of_pairwise (by decide +kernel)]
    decide +kernel
  rw [hx, hr, fixedPoints_default_eq _ _ "closest" [0, 2, 4, 6, 8, 10] [2, 3, 4, 5, 6, 7]
    (by decide +kernel) (by decide +kernel) (by rw [hu]; decide +kernel), hu,
    show whereIsin ([2, 5/2, 3, 7/2, 4, 9/2, 5, 11/2, 6, 13/2, 7] : List ℚ) [2, 3, 4, 5, 6, 7]
      = [0, 2, 4, 6, 8, 10] by decide +kernel]
  rfl

/-- the same operations with acceptable arguments are accepted in `sT` -/
example : (step sT (.integralMatch pw2 none none "closest" "trapezoid" "trapezoid")).err = none := by
  simp only [step, matchRef_eq pw2 sT.x sT.y sT.rx sT.ry none none "closest" "trapezoid" "trapezoid"
    fpT .trapezoid .trapezoid fpT_ok (by decide +kernel) (by decide +kernel)]
  decide +kernel

example : (step sT (.recreate "pc" pw2 3 [] [] [] [])).err = none ∧
    (step sT (.truncV 3 6 false false)).err = none ∧
    (step sT (.truncI 1 (some 7))).err = none ∧
    (step sT (.interpX [2, 3, 5, 7] "constant" [])).err = none := by decide +kernel

/-- one rejected operation per class; each leaves `sT` untouched by `reject_untouched` -/
example : (step sT (.recreate "pc" pw2 1 [] [] [] [])).err = some .valueError := by decide +kernel
example : (step sT (.recreateExt 0 [])).err = some .valueError := by decide +kernel
example : (step sT (.integralMatch pw2 none none "closest" "trapezoid" "simpson")).err
    = some .valueError := by
  rw [match_unknown_ref_rule sT pw2 none none "closest" "trapezoid" "simpson" fpT fpT_ok (by decide)]
  rfl
example : (step sT (.integralMatch pw2 none none "closest" "simpson" "trapezoid")).err
    = some .valueError := by
  rw [match_unknown_target_rule sT pw2 none none "closest" "simpson" "trapezoid" fpT .trapezoid fpT_ok
    (by decide) (by decide) (by decide +kernel)]
  rfl
example : (step sT (.integralMatch pw2 none none "nearest" "trapezoid" "trapezoid")).err
    = some .valueError := by decide +kernel
example : (step sT (.integralMatch pw2 (some [1, 2, 3, 4, 5, 6, 7, 8, 9, 10, 11, 12]) none "closest"
    "trapezoid" "trapezoid")).err = some .valueError := by decide +kernel
example : (step sT (.integralMatch pw2 none (some [0, 1, 2, 3, 4, 5, 6, 7, 8, 9, 10, 11]) "closest"
    "trapezoid" "trapezoid")).err = some .valueError := by decide +kernel
example : (step sT (.integralMatch pw2 (some [2, 3, 31/10, 7]) none "closest" "trapezoid"
    "trapezoid")).err = some .valueError := by
  rw [fixed_points_not_samples sT pw2 [2, 3, 31/10, 7] "closest" "trapezoid" "trapezoid"
    (by decide +kernel) (by decide +kernel) (by decide +kernel) (by decide +kernel) (31/10)
    (by simp) (by decide +kernel)]
  rfl
example : (step sT (.interpN 5 "quadratic" [])).err = some .valueError := by decide +kernel
example : (step sT (.interpX [2, 3, 7] "quadratic" [])).err = some .valueError := by decide +kernel
example : (step sT (.interpX [2, 3, 8] "linear" [])).err = some .valueError := by decide +kernel
example : (step sT (.interpX [1, 3, 7] "linear" [])).err = some .valueError := by decide +kernel
example : (step sT (.truncV 6 3 false false)).err = some .valueError := by decide +kernel
example : (step sT (.truncV 3 3 false false)).err = some .valueError := by decide +kernel
example : (step sT (.truncV (3/4) (1/4) true true)).err = some .valueError := by decide +kernel
example : (step sT (.truncI (-1) none)).err = some .valueError := by decide +kernel
example : (step sT (.truncI 0 (some 12))).err = some .valueError := by decide +kernel
example : sliceByIndex sT (-1) none 1 = .error .valueError := by decide +kernel
example : sliceByIndex sT 0 (some 12) 1 = .error .valueError := by decide +kernel
example : sliceByValue sT (some 100) none 1 = .error .valueError := by decide +kernel
example : sliceByValue sT none (some (31/10)) 1 = .error .valueError := by decide +kernel
example : sliceByValue sT (some 2) (some 3) 1 = .ok ([2, 5/2, 3], [6, 11, 16]) := by decide +kernel
example : init (some x5) [1, 2] = .error .valueError := init_length_mismatch _ _ (by decide)
example : from2d ([[1, 2], [3, 4, 5]] : List (List ℚ)) = .error .valueError :=
  from2d_bad_shape _ ⟨[3, 4, 5], by simp, by decide⟩

/-- `appendOne` is the operation that can fail half-way (with `IndexError`, on a series too short):
here a one-sample series -/
private def s1 : State ℚ :=
  { x := [1], y := [1], rx := [1], ry := [1], ox := [1], oy := [1], callerX := [], callerY := [] }

example : (step s1 (.appendOne true)).err = some .indexError := by decide +kernel

/-- … and the half-way failure is reachable through public calls only: `interpolate(n=11)` makes
the working series longer than the reference, `truncate_by_index(5, 11)` (bounds checked against the
working series only) then empties the reference, and `append_one_sample` raises `IndexError` after
having already extended `x, y`.  (Outside the letter of C20, which speaks of `ValueError`; confirmed
on the real code.) -/
private def sH : State ℚ := (runOps s5 [.interpN 11 "linear" [], .truncI 5 (some 11)]).state

example : (runOps s5 [.interpN 11 "linear" [], .truncI 5 (some 11)]).err = none ∧
    sH.x = [2, 12/5, 14/5, 16/5, 18/5, 4] ∧ sH.rx = [] := by decide +kernel

example : (step sH (.appendOne false)).err = some .indexError ∧
    (step sH (.appendOne false)).state.x = [2, 12/5, 14/5, 16/5, 18/5, 4, 22/5] ∧
    (step sH (.appendOne false)).state.rx = [] := by decide +kernel

end TWV.C20
