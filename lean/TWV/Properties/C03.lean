import TWV.Lemmas.Match

/-!
# C03 — what integral matching moves, and how

"Integral matching leaves unchanged every sample outside the span of the fixed points and, whenever
each interval holds at least one interior sample, every fixed point itself; the interior samples of
an interval are all displaced in the same direction, by amounts proportional to
`1 - (2*|x - centre|/width)^alpha` (zero at the ends, largest at the centre, symmetric).  Matching
an already matched function changes nothing."  Plus: the stretching kernel is affine (indeed
linear) in `(y, target integral)`.
-/

set_option linter.unusedSectionVars false

namespace TWV.C03

variable {K : Type} [Field K] [LinearOrder K] [IsStrictOrderedRing K]

/-! ### 1. the displacement profile -/

/-- every sample of a window moves by `ŷ · w_i`, `w_i = 1 - (2 |centre - x_i| / width) ^ α` -/
theorem stretch_profile (r : Rule) (pw : K → K) (N : ℕ) (x y : ℕ → K) (I : K) (i : ℕ) :
    stretch r pw N x y I i - y i = yhat r pw N x y I * weight pw N x i ∧
      (N ≠ 1 → weight pw N x i = 1 - pw (2 * |(x N + x 0) / 2 - x i| / (x N - x 0))) :=
  ⟨stretch_sub r pw N x y I i, weight_eq pw N x i⟩

/-! ### 2. shape of the weights -/

theorem weight_zero_left (pw : K → K) (hp : PowLike pw) (N : ℕ) (x : ℕ → K) (h : StrictIncr N x)
    (hN : 2 ≤ N) : weight pw N x 0 = 0 := TWV.weight_zero_left pw hp N x h hN

theorem weight_zero_right (pw : K → K) (hp : PowLike pw) (N : ℕ) (x : ℕ → K) (h : StrictIncr N x)
    (hN : 2 ≤ N) : weight pw N x N = 0 := TWV.weight_zero_right pw hp N x h hN

theorem weight_nonneg (pw : K → K) (hp : PowLike pw) (N : ℕ) (x : ℕ → K) (h : StrictIncr N x)
    (hN : 1 ≤ N) (i : ℕ) (hi : i ≤ N) : 0 ≤ weight pw N x i :=
  TWV.weight_nonneg pw hp N x h hN i hi

theorem weight_pos (pw : K → K) (hp : PowLike pw) (N : ℕ) (x : ℕ → K) (h : StrictIncr N x)
    (i : ℕ) (hi0 : 0 < i) (hi : i < N) : 0 < weight pw N x i :=
  TWV.weight_pos pw hp N x h i hi0 hi

theorem weight_le_one (pw : K → K) (hp : PowLike pw) (N : ℕ) (x : ℕ → K) (h : StrictIncr N x)
    (hN : 1 ≤ N) (i : ℕ) (hi : i ≤ N) : weight pw N x i ≤ 1 :=
  TWV.weight_le_one pw hp N x h hN i hi

/-- symmetric: samples at the same distance from the centre get the same weight -/
theorem weight_symm (pw : K → K) (N : ℕ) (x : ℕ → K) (i j : ℕ)
    (hij : |(x N + x 0) / 2 - x i| = |(x N + x 0) / 2 - x j|) :
    weight pw N x i = weight pw N x j := TWV.weight_symm pw N x i j hij

/-- farther from the centre ⇒ the weight is not larger -/
theorem weight_antitone (pw : K → K) (hp : PowLike pw) (N : ℕ) (x : ℕ → K) (h : StrictIncr N x)
    (hN : 1 ≤ N) (i j : ℕ) (_hi : i ≤ N) (hj : j ≤ N)
    (hij : |(x N + x 0) / 2 - x i| ≤ |(x N + x 0) / 2 - x j|) :
    weight pw N x j ≤ weight pw N x i := TWV.weight_antitone pw hp N x h hN i j hj hij

/-- largest at the centre: a sample exactly at the centre has weight `1` (and no weight exceeds `1`,
`weight_le_one`) -/
theorem weight_centre (pw : K → K) (hp : PowLike pw) (N : ℕ) (x : ℕ → K) (i : ℕ)
    (hc : x i = (x N + x 0) / 2) : weight pw N x i = 1 := TWV.weight_centre pw hp N x i hc

/-! ### 3. all samples of a window move in the same direction, proportionally to the weights -/

theorem stretch_same_direction (r : Rule) (pw : K → K) (hp : PowLike pw) (N : ℕ) (x y : ℕ → K)
    (I : K) (hx : StrictIncr N x) (hN : 1 ≤ N) (i j : ℕ) (hi : i ≤ N) (hj : j ≤ N) :
    0 ≤ (stretch r pw N x y I i - y i) * (stretch r pw N x y I j - y j) ∧
      (stretch r pw N x y I i - y i) * weight pw N x j
        = (stretch r pw N x y I j - y j) * weight pw N x i := by
  rw [stretch_sub, stretch_sub]
  have hwi := TWV.weight_nonneg pw hp N x hx hN i hi
  have hwj := TWV.weight_nonneg pw hp N x hx hN j hj
  constructor
  · have e : yhat r pw N x y I * weight pw N x i * (yhat r pw N x y I * weight pw N x j)
        = yhat r pw N x y I ^ 2 * (weight pw N x i * weight pw N x j) := by ring
    rw [e]; positivity
  · ring

/-! ### 4. what the loop leaves alone -/

/-- samples at or below the first window are unchanged -/
theorem loop_outside (r : Rule) (pw : K → K) (hp : PowLike pw) (x y : ℕ → K)
    (ws : List (ℕ × ℕ × K)) (lo : ℕ) (hc : Chain x lo ws) (j : ℕ) (hj : j ≤ lo) :
    loop r pw x ws y j = y j := loop_outside' r pw hp x ws lo y hc j hj

/-- samples at or above the end of the last window are unchanged -/
theorem loop_above (r : Rule) (pw : K → K) (hp : PowLike pw) (x y : ℕ → K)
    (ws : List (ℕ × ℕ × K)) (lo : ℕ) (hc : Chain x lo ws) (hne : ws ≠ []) (j : ℕ)
    (hj : (ws.getLast hne).2.1 ≤ j) : loop r pw x ws y j = y j := by
  apply loop_unchanged r pw hp x ws y
  · intro w hw; exact (hc.mem w hw).2
  · intro w hw; right; exact le_trans (hc.end_le hne w hw) hj

/-- the end points of every window (the fixed points) are unchanged -/
theorem loop_fixed (r : Rule) (pw : K → K) (hp : PowLike pw) (x y : ℕ → K)
    (ws : List (ℕ × ℕ × K)) (lo : ℕ) (hc : Chain x lo ws) (w : ℕ × ℕ × K) (hw : w ∈ ws) :
    loop r pw x ws y w.1 = y w.1 ∧ loop r pw x ws y w.2.1 = y w.2.1 := by
  have key : ∀ j, (∀ v ∈ ws, j ≤ v.1 ∨ v.2.1 ≤ j) → loop r pw x ws y j = y j :=
    loop_unchanged r pw hp x ws y (fun v hv => (hc.mem v hv).2)
  -- in a chain two windows are either equal-or-later or earlier
  have order : ∀ (ws : List (ℕ × ℕ × K)) (lo : ℕ), Chain x lo ws → ∀ w ∈ ws, ∀ v ∈ ws,
      (w.1 ≤ v.1 ∧ w.2.1 ≤ v.2.1) ∨ v.2.1 ≤ w.1 := by
    intro ws
    induction ws with
    | nil => intro lo _ w hw; cases hw
    | cons w0 ws ih =>
      obtain ⟨s, e, I⟩ := w0
      intro lo hc w hw v hv
      obtain ⟨h1, h2, h3, h4⟩ := hc
      rcases List.mem_cons.mp hw with hw | hw <;> rcases List.mem_cons.mp hv with hv | hv
      · subst hw; subst hv; left; exact ⟨le_rfl, le_rfl⟩
      · subst hw
        have := h4.mem v hv
        left; simp only; omega
      · subst hv
        have := h4.mem w hw
        right; simp only; omega
      · exact ih e h4 w hw v hv
  have hwm := hc.mem w hw
  constructor
  · apply key
    intro v hv
    have hvm := hc.mem v hv
    rcases order ws lo hc w hw v hv with h | h
    · left; exact h.1
    · right; exact h
  · apply key
    intro v hv
    have hvm := hc.mem v hv
    rcases order ws lo hc w hw v hv with h | h
    · rcases order ws lo hc v hv w hw with g | g
      · right; exact g.2
      · left; omega
    · right; omega

/-- in the setting of C01 (theorem 6): the result agrees with `y` at every index that is at or below
the first fixed point, at or above the last one, or a fixed point -/
theorem matchRef_outside_fixed (pw : K → K) (hp : PowLike pw) (x y xref yref : List K)
    (fpx : Option (List K)) (fpi : Option (List ℕ)) (strategy target refRule : String)
    (fp : FixedPoints K) (tr rr : Rule)
    (hx : x.Pairwise (· < ·)) (hy : y.length = x.length)
    (hfp : fixedPoints x xref fpx fpi strategy = .ok fp)
    (htr : Rule.ofString? target = some tr) (hrr : Rule.ofString? refRule = some rr)
    (hlen : fp.idxRef.length = fp.idxX.length)
    (hint : fp.idxX.Pairwise (fun a b => a + 2 ≤ b)) (h2 : 2 ≤ fp.idxX.length) :
    ∃ z, matchRef pw x y xref yref fpx fpi strategy target refRule = .ok (some z) ∧
      z.length = y.length ∧
      ∀ (hne : fp.idxX ≠ []) (j : ℕ),
        (j ≤ fp.idxX.head hne ∨ fp.idxX.getLast hne ≤ j ∨ j ∈ fp.idxX) → z[j]? = y[j]? := by
  have H : MatchHyp x xref fpx fpi strategy target refRule fp tr rr :=
    ⟨hx, hfp, htr, hrr, hlen, hint, h2⟩
  obtain ⟨z, hz, hzl, hzj⟩ := H.result pw hp y yref hy
  refine ⟨z, hz, by omega, ?_⟩
  intro hne j hj
  apply getElem?_eq_of_arrFn z y (by omega)
  rw [hzj j]
  apply H.unchanged pw hp yref
  apply H.unchanged_of
  rw [List.head_eq_getElem, List.getLast_eq_getElem] at hj
  exact hj

/-! ### 5. idempotence -/

/-- a window that already has the target integral is not moved (`ŷ = 0`) -/
theorem stretch_idempotent (r : Rule) (pw : K → K) (hp : PowLike pw) (N : ℕ) (x y : ℕ → K) (I : K)
    (hx : StrictIncr N x) (hN : 1 ≤ N) (hI : integralSum r N x y = I) (i : ℕ) :
    stretch r pw N x y I i = y i := by
  have hD := ne_of_gt (stretchDenom_pos r pw hp N x hx hN)
  unfold stretch
  rw [yhat_eq_zero r pw N x y I hD hI, zero_mul, add_zero]

theorem loop_idempotent (r : Rule) (pw : K → K) (hp : PowLike pw) (x y : ℕ → K)
    (ws : List (ℕ × ℕ × K)) (lo : ℕ) (hc : Chain x lo ws)
    (hI : ∀ w ∈ ws, winIntegral r x y w.1 w.2.1 = w.2.2) (j : ℕ) :
    loop r pw x ws y j = y j := by
  rw [loop_eq_self r pw hp x ws y
    (fun w hw => by have := (hc.mem w hw).2; exact ⟨by omega, this.2⟩) hI]

/-- matching an already matched function changes nothing -/
theorem matchRef_idempotent (pw : K → K) (hp : PowLike pw) (x y xref yref : List K)
    (fpx : Option (List K)) (fpi : Option (List ℕ)) (strategy target refRule : String)
    (fp : FixedPoints K) (tr rr : Rule)
    (hx : x.Pairwise (· < ·)) (hy : y.length = x.length)
    (hfp : fixedPoints x xref fpx fpi strategy = .ok fp)
    (htr : Rule.ofString? target = some tr) (hrr : Rule.ofString? refRule = some rr)
    (hlen : fp.idxRef.length = fp.idxX.length)
    (hint : fp.idxX.Pairwise (fun a b => a + 2 ≤ b)) (h2 : 2 ≤ fp.idxX.length) :
    ∃ z, matchRef pw x y xref yref fpx fpi strategy target refRule = .ok (some z) ∧
      matchRef pw x z xref yref fpx fpi strategy target refRule = .ok (some z) := by
  have H : MatchHyp x xref fpx fpi strategy target refRule fp tr rr :=
    ⟨hx, hfp, htr, hrr, hlen, hint, h2⟩
  obtain ⟨z, hz, _, _⟩ := H.result pw hp y yref hy
  exact ⟨z, hz, H.idempotent pw hp y yref z hy hz⟩

/-! ### 6. the kernel is linear, in particular affine, in `(y, I)` -/

/-- `ŷ` is linear in `(y, I)` -/
theorem yhat_linear (r : Rule) (pw : K → K) (N : ℕ) (x y₁ y₂ : ℕ → K) (I₁ I₂ a b : K) :
    yhat r pw N x (fun i => a * y₁ i + b * y₂ i) (a * I₁ + b * I₂)
      = a * yhat r pw N x y₁ I₁ + b * yhat r pw N x y₂ I₂ := yhat_lin r pw N x y₁ y₂ I₁ I₂ a b

/-- the kernel is linear in `(y, I)` (no division by the denominator is carried out: both sides
have the same denominator) -/
theorem stretch_linear (r : Rule) (pw : K → K) (N : ℕ) (x y₁ y₂ : ℕ → K) (I₁ I₂ a b : K) (i : ℕ) :
    stretch r pw N x (fun i => a * y₁ i + b * y₂ i) (a * I₁ + b * I₂) i
      = a * stretch r pw N x y₁ I₁ i + b * stretch r pw N x y₂ I₂ i := by
  unfold stretch
  rw [yhat_lin]; ring

/-- affine combinations (`a + b = 1`) -/
theorem stretch_affine (r : Rule) (pw : K → K) (N : ℕ) (x y₁ y₂ : ℕ → K) (I₁ I₂ a b : K)
    (_hab : a + b = 1) (i : ℕ) :
    stretch r pw N x (fun i => a * y₁ i + b * y₂ i) (a * I₁ + b * I₂) i
      = a * stretch r pw N x y₁ I₁ i + b * stretch r pw N x y₂ I₂ i :=
  stretch_linear r pw N x y₁ y₂ I₁ I₂ a b i

/-! ### non-vacuity: a 5-point non-uniform window over `ℚ`, `pw t = t ^ 2` -/

section examples

/-- spacing 1, 1, 3, 1 -/
private def ex : ℕ → ℚ := fun i => [0, 1, 2, 5, 6].getD i 0
/-- spacing 1, 2, 2, 1: symmetric about the centre `3` -/
private def exS : ℕ → ℚ := fun i => [0, 1, 3, 5, 6].getD i 0
private def ey : ℕ → ℚ := fun i => [2, 1, 4, 3, 5].getD i 0
private def p2 : ℚ → ℚ := fun t => powN t 2

example : PowLike p2 := powLike_powN 2 (by omega)
example : StrictIncr 4 ex := by unfold StrictIncr; decide +kernel
example : StrictIncr 4 exS := by unfold StrictIncr; decide +kernel

example : (List.range 5).map (weight p2 4 ex) = [0, 5 / 9, 8 / 9, 5 / 9, 0] := by decide +kernel
example : (List.range 5).map (weight p2 4 exS) = [0, 5 / 9, 1, 5 / 9, 0] := by decide +kernel

/-- the samples really move (ŷ ≠ 0), all upwards, the ends stay -/
example : (List.range 5).map (stretch .trapezoid p2 4 ex ey 30)
    = [2, 177 / 62, 216 / 31, 301 / 62, 5] := by decide +kernel
example : (List.range 5).map (stretch .rectangle p2 4 ex ey 30)
    = [2, 47 / 17, 116 / 17, 81 / 17, 5] := by decide +kernel
example : integralSum .trapezoid 4 ex (stretch .trapezoid p2 4 ex ey 30) = 30 := by decide +kernel
example : integralSum .rectangle 4 ex (stretch .rectangle p2 4 ex ey 30) = 30 := by decide +kernel

/-- the hypotheses of `stretch_same_direction` are satisfiable, and its conclusion is not `0 ≤ 0` -/
example : 0 < (stretch .trapezoid p2 4 ex ey 30 1 - ey 1)
    * (stretch .trapezoid p2 4 ex ey 30 2 - ey 2) := by
  decide +kernel

/-- the hypothesis of `stretch_idempotent` is satisfiable -/
example : integralSum .trapezoid 4 ex ey = 37 / 2 ∧
    (List.range 5).map (stretch .trapezoid p2 4 ex ey (37 / 2)) = (List.range 5).map ey := by
  decide +kernel

end examples

end TWV.C03
