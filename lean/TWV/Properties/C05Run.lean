import TWV.Properties.C05
import TWV.Lemmas.RfaGrid

/-!
# C05, end to end — what `Rfa.run` / `Rfa.outY` actually returns

`TWV/Properties/C05.lean` proves the clauses of C05 for an *arbitrary* strictly increasing extended
grid `X`, arbitrary extended averages `Y` and arbitrary valid windows.  This file instantiates them
with what the code runs on:

* grid `X := Rfa.XE x m n` (`_initial_x_oversample` + `extend_linspace`) for original abscissae
  `x 0 < … < x (m - 1)`, `2 ≤ m`, `2 ≤ n` (`Rfa.XE_strictIncr`);
* averages `Y := Rfa.Yk y m n` (`_initial_y_oversample` + `extend_constant`), spelled back as the
  original values: `Yk (q + 1) = y q`, `Yk q = y (q - 1)` (with `y 0` for `q = 0`: the left virtual
  interval copies the first value — truncated subtraction says exactly that);
* the windows the constructors derive: `fixedWindows` (`a = int(a or alpha n)`, at least 2,
  `a_l = a_r = a / 2`, `b = int(beta a_l)`) and `adaptiveWindows`
  (`get_adaptive_transition_points` on the extended averages, `b = int(beta a_l)` per side).

Original interval `q` (`q + 1 < m`) is extended interval `q + 1`; its sample `i < n` is result
index `q * n + i`; the result has `outLen m n = (m - 1) * n + 1` samples, the last one being
`(m - 1) * n`.

Two levels:
* `outY_*` — for *given* windows `w` under `Good` (`2 ≤ n`, `2 ≤ m`, strictly increasing `x`,
  `ValidWindows w m n`, `PowLike pw` for the exponential strategies);
* `run_*` — for the constructor's windows `ctorWindows` under the documented parameter ranges
  `Doc` (`a ≤ n`, `0 ≤ beta ≤ 1`, smoothing `gpow` positive on positives).  `deriveA_le` derives
  `a ≤ n` from `0 ≤ alpha ≤ 1` resp. an explicit `a ≤ n`.

**Findings.**
* No hypothesis beyond the documented ranges is needed; `deriveA_le` needs `2 ≤ n` (which the
  constructor enforces) because `a` is raised to 2.  The left neighbour of the first interval is
  `y 0` itself, so its samples lie in `[y 0, y 1]` (`run_no_overshoot_first`).
* Monotonicity of the exponential strategies stays PARTIAL (exponent `≥ 1`), as in `C05`.
* The last sample of the result (index `(m - 1) n`) is `y (m - 1)` for the piecewise-constant and
  the exponential strategies, but **not** for the linear ones: the right loop of the last interval
  writes it.  `LinearFixedRFA` returns the mean `(y (m-2) + y (m-1)) / 2` there
  (`run_last_sample_linFixed`), `LinearAdaptiveRFA` returns
  `y (m-2) + (y (m-1) - y (m-2)) r / (r + 1)` with `r` the right window of the last interval
  (`run_last_sample_linAdaptive`).  It still lies between the last two averages
  (`run_last_sample_linear_mem`), so "no overshoot" is not affected, but "at most `a - 1` samples
  differ from the average" is a statement about the `n` samples of an interval proper and does
  not cover this extra sample.
-/

set_option linter.unusedSectionVars false
set_option linter.unusedVariables false

namespace TWV.C05Run
open TWV TWV.Rfa

variable {K : Type} [Field K] [LinearOrder K] [IsStrictOrderedRing K]

/-! ## Helpers -/

section Helpers

/-- `a = int(a or alpha * n)` is raised to at least 2 -/
theorem deriveA_two_le (B n : ℕ) (alpha : K) (a : Option ℕ) : 2 ≤ deriveA B n alpha a := by
  unfold deriveA
  simp only
  split_ifs <;> omega

/-- transition factor in `[0, 1]`: `int(alpha * n) ≤ n` (whatever the bound `B`) -/
theorem deriveA_le_of_alpha {B n : ℕ} {alpha : K} (hn : 2 ≤ n) (h0 : 0 ≤ alpha) (h1 : alpha ≤ 1) :
    deriveA B n alpha none ≤ n := by
  have hn0 : (0 : K) ≤ (n : K) := Nat.cast_nonneg n
  have hfl : natFloorUpTo B (alpha * (n : K)) ≤ n := by
    have h := natFloorUpTo_cast_le B (alpha * (n : K)) (mul_nonneg h0 hn0)
    have h2 : alpha * (n : K) ≤ (n : K) := by nlinarith
    exact_mod_cast le_trans h h2
  unfold deriveA
  simp only
  split_ifs <;> omega

/-- explicit `a ≤ n` -/
theorem deriveA_le_of_explicit {B n a : ℕ} (alpha : K) (hn : 2 ≤ n) (ha : a ≤ n) :
    deriveA B n alpha (some a) ≤ n := by
  unfold deriveA
  simp only
  split_ifs <;> omega

/-- the documented ranges give `a ≤ n`; `2 ≤ n` is needed because `a` is raised to 2 -/
theorem deriveA_le {B n : ℕ} {alpha : K} {a : Option ℕ} (hn : 2 ≤ n)
    (hexp : ∀ a', a = some a' → a' ≤ n) (hal : a = none → 0 ≤ alpha ∧ alpha ≤ 1) :
    deriveA B n alpha a ≤ n := by
  cases a with
  | none => exact deriveA_le_of_alpha hn (hal rfl).1 (hal rfl).2
  | some a' => exact deriveA_le_of_explicit alpha hn (hexp a' rfl)

/-- the bound `B` of the floor is harmless as soon as it is at least `alpha * n`: then
`a = max 2 ⌊alpha n⌋` is characterised by `a ≤ alpha n < a + 1` -/
theorem deriveA_eq_floor {B n A : ℕ} {alpha : K} (hA2 : 2 ≤ A) (hAB : A ≤ B)
    (h1 : (A : K) ≤ alpha * (n : K)) (h2 : alpha * (n : K) < (A : K) + 1) :
    deriveA B n alpha none = A := by
  unfold deriveA
  simp only
  rw [natFloorUpTo_eq B A _ hAB h1 h2, if_neg (by omega)]

variable {y : ℕ → K} {m n : ℕ}

/-- extended interval `q + 1` carries the original value `y q` -/
theorem Yk_succ (y : ℕ → K) (hn : 2 ≤ n) (q : ℕ) (hq : q + 1 ≤ m) : Yk y m n (q + 1) = y q := by
  have := Yk_mid y hn (k := q + 1) (by omega) hq
  rwa [Nat.add_sub_cancel] at this

/-- extended interval `q ≤ m` carries `y (q - 1)`; for `q = 0` (the left virtual interval) this is
`y 0` -/
theorem Yk_pred (y : ℕ → K) (hn : 2 ≤ n) (hm : 1 ≤ m) (q : ℕ) (hq : q ≤ m) :
    Yk y m n q = y (q - 1) := by
  rcases Nat.eq_zero_or_pos q with rfl | h
  · exact Yk_zero y hn hm
  · exact Yk_mid y hn h hq

/-- every extended average of a constant series is the constant (also the virtual ones) -/
theorem Yk_const (hn : 2 ≤ n) (hm : 1 ≤ m) {c : K} (hy : ∀ i, i < m → y i = c) (k : ℕ) :
    Yk y m n k = c := by
  rcases Nat.lt_or_ge m k with h | h
  · rw [Yk_beyond y hn hm h]; exact hy _ (by omega)
  · rw [Yk_pred y hn hm k h]; exact hy _ (by omega)

/-- a result index is the last one or lies in an original interval -/
theorem outLen_cases {j : ℕ} (hn : 2 ≤ n) (hj : j < outLen m n) :
    j = (m - 1) * n ∨ (j / n + 1 ≤ m - 1 ∧ j % n < n ∧ j = j / n * n + j % n) := by
  have hmod : j % n < n := Nat.mod_lt _ (by omega)
  have hdec := decomp j n
  rcases Nat.lt_or_ge j ((m - 1) * n) with h | h
  · right
    refine ⟨?_, hmod, hdec⟩
    have : j / n < m - 1 := (Nat.div_lt_iff_lt_mul (by omega)).mpr h
    omega
  · left
    unfold outLen at hj
    omega

end Helpers

/-! ## The strategies, their flags and the windows their constructors derive -/

def isExp (s : Strategy) : Prop := s = .expFixed ∨ s = .expAdaptive
def isAdaptive (s : Strategy) : Prop := s = .linAdaptive ∨ s = .expAdaptive

/-- `LinearFixedRFA` / `ExpFixedRFA`: `a = int(a or alpha n)` (at least 2), `a_l = a_r = a / 2`,
`b = int(beta a_l)` -/
def fixedWindows (B B' n : ℕ) (alpha beta : K) (a : Option ℕ) : Windows :=
  windowsFixed (deriveA B n alpha a) (deriveB B' beta (deriveA B n alpha a / 2))

/-- `LinearAdaptiveRFA` / `ExpAdaptiveRFA`: `get_adaptive_transition_points` on the extended
averages of `y`, `b = int(beta a)` on each side -/
def adaptiveWindows (gpow : K → K) (B B' m n : ℕ) (alpha beta : K) (a : Option ℕ) (y : ℕ → K) :
    Windows :=
  windowsAdaptive gpow (deriveA B n alpha a) m (Yk y m n) (fun v => deriveB B' beta v)

/-- the windows strategy `s` runs with (`.pc` has none; its entry is never read) -/
def ctorWindows (s : Strategy) (gpow : K → K) (B B' m n : ℕ) (alpha beta : K) (a : Option ℕ)
    (y : ℕ → K) : Windows :=
  match s with
  | .pc => windowsFixed 0 0
  | .linFixed => fixedWindows B B' n alpha beta a
  | .expFixed => fixedWindows B B' n alpha beta a
  | .linAdaptive => adaptiveWindows gpow B B' m n alpha beta a y
  | .expAdaptive => adaptiveWindows gpow B B' m n alpha beta a y

/-- hypotheses for *given* windows -/
structure Good (s : Strategy) (pw : K → K) (x : ℕ → K) (w : Windows) (m n : ℕ) : Prop where
  /-- the constructor rejects `n < 2` -/
  hn : 2 ≤ n
  hm : 2 ≤ m
  hx : StrictIncr (m - 1) x
  hw : ValidWindows w m n
  hp : isExp s → PowLike pw

/-- the documented parameter ranges -/
structure Doc (s : Strategy) (pw gpow : K → K) (x : ℕ → K) (m n B : ℕ) (alpha beta : K)
    (a : Option ℕ) : Prop where
  /-- the constructor rejects `n < 2` -/
  hn : 2 ≤ n
  hm : 2 ≤ m
  hx : StrictIncr (m - 1) x
  /-- transition window at most one interval: `deriveA_le` (from `0 ≤ alpha ≤ 1` or `a ≤ n`) -/
  hA : deriveA B n alpha a ≤ n
  hb0 : 0 ≤ beta
  hb1 : beta ≤ 1
  /-- exponent `> 0` -/
  hp : isExp s → PowLike pw
  /-- any smoothing of the adaptive factor: `gamma ** adaptive_smooth > 0` for `gamma > 0` -/
  hg : isAdaptive s → ∀ t, 0 < t → 0 < gpow t

theorem fixedWindows_valid {B B' n : ℕ} {alpha beta : K} {a : Option ℕ} (m : ℕ)
    (hA : deriveA B n alpha a ≤ n) (hb0 : 0 ≤ beta) (hb1 : beta ≤ 1) :
    ValidWindows (fixedWindows B B' n alpha beta a) m n :=
  Rfa.windowsFixed_valid m hA (Rfa.deriveB_le B' hb0 hb1 _)

theorem adaptiveWindows_valid {gpow : K → K} {B B' n : ℕ} {alpha beta : K} {a : Option ℕ} (m : ℕ)
    (y : ℕ → K) (hg : ∀ t, 0 < t → 0 < gpow t) (hA : deriveA B n alpha a ≤ n) (hb0 : 0 ≤ beta)
    (hb1 : beta ≤ 1) : ValidWindows (adaptiveWindows gpow B B' m n alpha beta a y) m n :=
  Rfa.windowsAdaptive_valid gpow hg m (deriveA_two_le B n alpha a) hA _ _
    (fun v => Rfa.deriveB_le B' hb0 hb1 v)

theorem Doc.good {s : Strategy} {pw gpow : K → K} {x : ℕ → K} {m n B : ℕ} {alpha beta : K}
    {a : Option ℕ} (h : Doc s pw gpow x m n B alpha beta a) (B' : ℕ) (y : ℕ → K) :
    Good s pw x (ctorWindows s gpow B B' m n alpha beta a y) m n := by
  refine ⟨h.hn, h.hm, h.hx, ?_, h.hp⟩
  cases s with
  | pc => intro k _; simp [ctorWindows, windowsFixed]
  | linFixed => exact fixedWindows_valid m h.hA h.hb0 h.hb1
  | expFixed => exact fixedWindows_valid m h.hA h.hb0 h.hb1
  | linAdaptive => exact adaptiveWindows_valid m y (h.hg (Or.inl rfl)) h.hA h.hb0 h.hb1
  | expAdaptive => exact adaptiveWindows_valid m y (h.hg (Or.inr rfl)) h.hA h.hb0 h.hb1

/-- `run` succeeds for `n ≥ 2` and returns `outX`, `outY` -/
theorem run_ok (s : Strategy) (pw : K → K) (x y : ℕ → K) (m : ℕ) {n : ℕ} (w : Windows)
    (hn : 2 ≤ n) : run s pw x y m n w = .ok (outX x m n, outY s pw x y m n w) := by
  unfold run
  rw [if_neg (by omega)]

/-- … and fails for `n < 2` -/
theorem run_error (s : Strategy) (pw : K → K) (x y : ℕ → K) (m : ℕ) {n : ℕ} (w : Windows)
    (hn : n < 2) : run s pw x y m n w = .error .valueError := by
  unfold run
  rw [if_pos hn]

/-! ## The linear and exponential shapes on the concrete grid, in original values -/

section Concrete

variable {pw : K → K} {x y : ℕ → K} {m n : ℕ} {w : Windows} {ad : Bool} {q i : ℕ}

theorem lin_no_overshoot (hn : 2 ≤ n) (hm : 2 ≤ m) (hx : StrictIncr (m - 1) x)
    (hw : ValidWindows w m n) (hq : q + 1 < m) (hi : i < n) :
    linOut (XE x m n) (Yk y m n) m n w ad (q * n + i) ∈
      Set.uIcc (y (q - 1)) (y q) ∪ Set.uIcc (y q) (y (q + 1)) := by
  have h := C05.lin_no_overshoot (Y := Yk y m n) (ad := ad) (k := q + 1) (i := i)
    (XE_strictIncr hn hm hx) hw (by omega) (by omega) hi
  rwa [Nat.add_sub_cancel, Yk_pred y hn (by omega) q (by omega), Yk_succ y hn q (by omega),
    Yk_succ y hn (q + 1) (by omega)] at h

theorem exp_no_overshoot (hp : PowLike pw) (hn : 2 ≤ n) (hm : 2 ≤ m) (hx : StrictIncr (m - 1) x)
    (hw : ValidWindows w m n) (hq : q + 1 < m) (hi : i < n) :
    expOut pw (XE x m n) (Yk y m n) m n w ad (q * n + i) ∈
      Set.uIcc (y (q - 1)) (y q) ∪ Set.uIcc (y q) (y (q + 1)) := by
  have h := C05.exp_no_overshoot (Y := Yk y m n) (ad := ad) (k := q + 1) (i := i) hp
    (XE_strictIncr hn hm hx) hw (by omega) (by omega) hi
  rwa [Nat.add_sub_cancel, Yk_pred y hn (by omega) q (by omega), Yk_succ y hn q (by omega),
    Yk_succ y hn (q + 1) (by omega)] at h

theorem lin_plateau (hn : 2 ≤ n) (hm : 2 ≤ m) (hx : StrictIncr (m - 1) x)
    (hw : ValidWindows w m n) (hq : q + 1 < m) (hL : w.aL (q + 1) ≤ i)
    (hR : i ≤ n - w.aR (q + 1)) (hi : i < n) :
    linOut (XE x m n) (Yk y m n) m n w ad (q * n + i) = y q := by
  have h := C05.lin_plateau (Y := Yk y m n) (ad := ad) (k := q + 1) (i := i)
    (XE_strictIncr hn hm hx) hw (by omega) (by omega) hL hR hi
  rwa [Nat.add_sub_cancel, Yk_succ y hn q (by omega)] at h

theorem exp_plateau (hp0 : pw 0 = 0) (hn : 2 ≤ n) (hm : 2 ≤ m) (hx : StrictIncr (m - 1) x)
    (hw : ValidWindows w m n) (hq : q + 1 < m) (hL : w.aL (q + 1) ≤ i)
    (hR : i ≤ n - w.aR (q + 1)) (hi : i < n) :
    expOut pw (XE x m n) (Yk y m n) m n w ad (q * n + i) = y q := by
  have h := C05.exp_plateau (Y := Yk y m n) (ad := ad) (k := q + 1) (i := i) hp0
    (XE_strictIncr hn hm hx) hw (by omega) (by omega) hL hR hi
  rwa [Nat.add_sub_cancel, Yk_succ y hn q (by omega)] at h

theorem lin_count (hn : 2 ≤ n) (hm : 2 ≤ m) (hx : StrictIncr (m - 1) x)
    (hw : ValidWindows w m n) (hq : q + 1 < m) :
    ((Finset.range n).filter
      (fun i => linOut (XE x m n) (Yk y m n) m n w ad (q * n + i) ≠ y q)).card
        ≤ w.aL (q + 1) + (w.aR (q + 1) - 1) :=
  Rfa.card_off_le (fun i hin hL hR => lin_plateau hn hm hx hw hq hL hR hin)

theorem exp_count (hp0 : pw 0 = 0) (hn : 2 ≤ n) (hm : 2 ≤ m) (hx : StrictIncr (m - 1) x)
    (hw : ValidWindows w m n) (hq : q + 1 < m) :
    ((Finset.range n).filter
      (fun i => expOut pw (XE x m n) (Yk y m n) m n w ad (q * n + i) ≠ y q)).card
        ≤ w.aL (q + 1) + (w.aR (q + 1) - 1) :=
  Rfa.card_off_le (fun i hin hL hR => exp_plateau hp0 hn hm hx hw hq hL hR hin)

/-! ### monotone transitions -/

/-- linear strategies, left transition `i ≤ i' ≤ a_l`: non-decreasing if the previous average is
not larger, non-increasing if it is not smaller -/
theorem lin_left_monotone (hn : 2 ≤ n) (hm : 2 ≤ m) (hx : StrictIncr (m - 1) x)
    (hw : ValidWindows w m n) (hq : q + 1 < m) {i' : ℕ} (hii : i ≤ i') (hi' : i' ≤ w.aL (q + 1))
    (hin : i' < n) :
    (y (q - 1) ≤ y q →
      linOut (XE x m n) (Yk y m n) m n w ad (q * n + i)
        ≤ linOut (XE x m n) (Yk y m n) m n w ad (q * n + i')) ∧
    (y q ≤ y (q - 1) →
      linOut (XE x m n) (Yk y m n) m n w ad (q * n + i')
        ≤ linOut (XE x m n) (Yk y m n) m n w ad (q * n + i)) := by
  rcases Nat.eq_or_lt_of_le hii with rfl | hlt
  · exact ⟨fun _ => le_rfl, fun _ => le_rfl⟩
  · have hX := XE_strictIncr hn hm hx
    have h1 := (hw (q + 1) (by omega)).1
    have h2 := (hw q (by omega)).1
    have hz : z0 (XE x m n) (Yk y m n) n w ad (q + 1) ∈
        Set.uIcc (Yk y m n (q + 1 - 1)) (Yk y m n (q + 1)) :=
      Rfa.z0_mem_uIcc hX (by omega) (by omega) (by omega)
        (by rw [Nat.add_sub_cancel]; omega) (fun _ => by omega)
    have ht : Toward (z0 (XE x m n) (Yk y m n) n w ad (q + 1)) (Yk y m n (q + 1))
        (linOut (XE x m n) (Yk y m n) m n w ad ((q + 1 - 1) * n + i))
        (linOut (XE x m n) (Yk y m n) m n w ad ((q + 1 - 1) * n + i')) :=
      C05.left_monotone hX hw (by omega) (by omega) hii hi' hin
    have := Toward.of_right hz ht
    rwa [Nat.add_sub_cancel, Yk_pred y hn (by omega) q (by omega), Yk_succ y hn q (by omega)]
      at this

/-- linear strategies, right transition `n - a_r ≤ i ≤ i' < n`: non-decreasing if the next average
is not smaller, non-increasing if it is not larger -/
theorem lin_right_monotone (hn : 2 ≤ n) (hm : 2 ≤ m) (hx : StrictIncr (m - 1) x)
    (hw : ValidWindows w m n) (hq : q + 1 < m) {i' : ℕ} (hi : n - w.aR (q + 1) ≤ i) (hii : i ≤ i')
    (hin : i' < n) :
    (y q ≤ y (q + 1) →
      linOut (XE x m n) (Yk y m n) m n w ad (q * n + i)
        ≤ linOut (XE x m n) (Yk y m n) m n w ad (q * n + i')) ∧
    (y (q + 1) ≤ y q →
      linOut (XE x m n) (Yk y m n) m n w ad (q * n + i')
        ≤ linOut (XE x m n) (Yk y m n) m n w ad (q * n + i)) := by
  rcases Nat.eq_or_lt_of_le hii with rfl | hlt
  · exact ⟨fun _ => le_rfl, fun _ => le_rfl⟩
  · have hX := XE_strictIncr hn hm hx
    have h1 := (hw (q + 1) (by omega)).1
    have h2 := (hw (q + 1 + 1) (by omega)).1
    have hz : z0 (XE x m n) (Yk y m n) n w ad (q + 1 + 1) ∈
        Set.uIcc (Yk y m n (q + 1 + 1 - 1)) (Yk y m n (q + 1 + 1)) :=
      Rfa.z0_mem_uIcc hX (by omega) (by omega) (by omega)
        (by rw [Nat.add_sub_cancel]; omega) (fun _ => by rw [Nat.add_sub_cancel]; omega)
    rw [Nat.add_sub_cancel] at hz
    have ht : Toward (Yk y m n (q + 1)) (z0 (XE x m n) (Yk y m n) n w ad (q + 1 + 1))
        (linOut (XE x m n) (Yk y m n) m n w ad ((q + 1 - 1) * n + i))
        (linOut (XE x m n) (Yk y m n) m n w ad ((q + 1 - 1) * n + i')) :=
      C05.right_monotone hX hw (by omega) (by omega) hi hii hin
    have := Toward.of_left hz ht
    rwa [Nat.add_sub_cancel, Yk_succ y hn q (by omega), Yk_succ y hn (q + 1) (by omega)] at this

/-- the same read off the output alone: the left transition moves monotonically from the
interval's first sample (the border value) to the plateau -/
theorem lin_left_monotone_border (hn : 2 ≤ n) (hm : 2 ≤ m) (hx : StrictIncr (m - 1) x)
    (hw : ValidWindows w m n) (hq : q + 1 < m) {i' : ℕ} (hii : i ≤ i') (hi' : i' ≤ w.aL (q + 1))
    (hin : i' < n) :
    (linOut (XE x m n) (Yk y m n) m n w ad (q * n) ≤ y q →
      linOut (XE x m n) (Yk y m n) m n w ad (q * n + i)
        ≤ linOut (XE x m n) (Yk y m n) m n w ad (q * n + i')) ∧
    (y q ≤ linOut (XE x m n) (Yk y m n) m n w ad (q * n) →
      linOut (XE x m n) (Yk y m n) m n w ad (q * n + i')
        ≤ linOut (XE x m n) (Yk y m n) m n w ad (q * n + i)) := by
  rcases Nat.eq_or_lt_of_le hii with rfl | hlt
  · exact ⟨fun _ => le_rfl, fun _ => le_rfl⟩
  · have hX := XE_strictIncr hn hm hx
    have h1 := (hw (q + 1) (by omega)).1
    have h2 := (hw q (by omega)).1
    have hb : linOut (XE x m n) (Yk y m n) m n w ad ((q + 1 - 1) * n)
        = z0 (XE x m n) (Yk y m n) n w ad (q + 1) :=
      Rfa.linOut_border hX (by omega) (by omega) (by omega) (by omega)
        (by rw [Nat.add_sub_cancel]; omega) (Or.inl ⟨by omega, by omega⟩)
    have ht := C05.left_monotone (Y := Yk y m n) (ad := ad) (k := q + 1) (i := i) hX hw (by omega)
      (by omega) hii hi' hin
    rw [← hb] at ht
    rwa [Nat.add_sub_cancel, Yk_succ y hn q (by omega)] at ht

/-- … and the right transition moves monotonically from the plateau towards the first sample of
the next interval (result index `(q + 1) * n`; for the last interval this is the last sample of
the result) -/
theorem lin_right_monotone_border (hn : 2 ≤ n) (hm : 2 ≤ m) (hx : StrictIncr (m - 1) x)
    (hw : ValidWindows w m n) (hq : q + 1 < m) {i' : ℕ} (hi : n - w.aR (q + 1) ≤ i) (hii : i ≤ i')
    (hin : i' < n) :
    (y q ≤ linOut (XE x m n) (Yk y m n) m n w ad ((q + 1) * n) →
      linOut (XE x m n) (Yk y m n) m n w ad (q * n + i)
        ≤ linOut (XE x m n) (Yk y m n) m n w ad (q * n + i')) ∧
    (linOut (XE x m n) (Yk y m n) m n w ad ((q + 1) * n) ≤ y q →
      linOut (XE x m n) (Yk y m n) m n w ad (q * n + i')
        ≤ linOut (XE x m n) (Yk y m n) m n w ad (q * n + i)) := by
  rcases Nat.eq_or_lt_of_le hii with rfl | hlt
  · exact ⟨fun _ => le_rfl, fun _ => le_rfl⟩
  · have hX := XE_strictIncr hn hm hx
    have hb := (C05.right_reaches_border (Y := Yk y m n) (ad := ad) (k := q + 1) hX hw (by omega)
      (by omega) (by omega)).2
    have ht := C05.right_monotone (Y := Yk y m n) (ad := ad) (k := q + 1) (i := i) hX hw (by omega)
      (by omega) hi hii hin
    rw [← hb] at ht
    rwa [Nat.add_sub_cancel, Yk_succ y hn q (by omega)] at ht

/-- exponential strategies, left transition — PARTIAL as in `C05.left_monotone_exp_partial`: only
for `pw t ≤ t` on `[0, 1]` (exponent `≥ 1`) -/
theorem exp_left_monotone_partial (hp : PowLike pw) (hsub : ∀ t, 0 ≤ t → t ≤ 1 → pw t ≤ t)
    (hn : 2 ≤ n) (hm : 2 ≤ m) (hx : StrictIncr (m - 1) x)
    (hw : ValidWindows w m n) (hq : q + 1 < m) {i' : ℕ} (hii : i ≤ i') (hi' : i' ≤ w.aL (q + 1))
    (hin : i' < n) :
    (y (q - 1) ≤ y q →
      expOut pw (XE x m n) (Yk y m n) m n w ad (q * n + i)
        ≤ expOut pw (XE x m n) (Yk y m n) m n w ad (q * n + i')) ∧
    (y q ≤ y (q - 1) →
      expOut pw (XE x m n) (Yk y m n) m n w ad (q * n + i')
        ≤ expOut pw (XE x m n) (Yk y m n) m n w ad (q * n + i)) := by
  rcases Nat.eq_or_lt_of_le hii with rfl | hlt
  · exact ⟨fun _ => le_rfl, fun _ => le_rfl⟩
  · have hX := XE_strictIncr hn hm hx
    have h1 := (hw (q + 1) (by omega)).1
    have h2 := (hw q (by omega)).1
    have hz : z0 (XE x m n) (Yk y m n) n w ad (q + 1) ∈
        Set.uIcc (Yk y m n (q + 1 - 1)) (Yk y m n (q + 1)) :=
      Rfa.z0_mem_uIcc hX (by omega) (by omega) (by omega)
        (by rw [Nat.add_sub_cancel]; omega) (fun _ => by omega)
    have ht : Toward (z0 (XE x m n) (Yk y m n) n w ad (q + 1)) (Yk y m n (q + 1))
        (expOut pw (XE x m n) (Yk y m n) m n w ad ((q + 1 - 1) * n + i))
        (expOut pw (XE x m n) (Yk y m n) m n w ad ((q + 1 - 1) * n + i')) :=
      C05.left_monotone_exp_partial hp hsub hX hw (by omega) (by omega) hii hi' hin
    have := Toward.of_right hz ht
    rwa [Nat.add_sub_cancel, Yk_pred y hn (by omega) q (by omega), Yk_succ y hn q (by omega)]
      at this

theorem exp_right_monotone_partial (hp : PowLike pw) (hsub : ∀ t, 0 ≤ t → t ≤ 1 → pw t ≤ t)
    (hn : 2 ≤ n) (hm : 2 ≤ m) (hx : StrictIncr (m - 1) x)
    (hw : ValidWindows w m n) (hq : q + 1 < m) {i' : ℕ} (hi : n - w.aR (q + 1) ≤ i) (hii : i ≤ i')
    (hin : i' < n) :
    (y q ≤ y (q + 1) →
      expOut pw (XE x m n) (Yk y m n) m n w ad (q * n + i)
        ≤ expOut pw (XE x m n) (Yk y m n) m n w ad (q * n + i')) ∧
    (y (q + 1) ≤ y q →
      expOut pw (XE x m n) (Yk y m n) m n w ad (q * n + i')
        ≤ expOut pw (XE x m n) (Yk y m n) m n w ad (q * n + i)) := by
  rcases Nat.eq_or_lt_of_le hii with rfl | hlt
  · exact ⟨fun _ => le_rfl, fun _ => le_rfl⟩
  · have hX := XE_strictIncr hn hm hx
    have h1 := (hw (q + 1) (by omega)).1
    have h2 := (hw (q + 1 + 1) (by omega)).1
    have hz : z0 (XE x m n) (Yk y m n) n w ad (q + 1 + 1) ∈
        Set.uIcc (Yk y m n (q + 1 + 1 - 1)) (Yk y m n (q + 1 + 1)) :=
      Rfa.z0_mem_uIcc hX (by omega) (by omega) (by omega)
        (by rw [Nat.add_sub_cancel]; omega) (fun _ => by rw [Nat.add_sub_cancel]; omega)
    rw [Nat.add_sub_cancel] at hz
    have ht : Toward (Yk y m n (q + 1)) (z0 (XE x m n) (Yk y m n) n w ad (q + 1 + 1))
        (expOut pw (XE x m n) (Yk y m n) m n w ad ((q + 1 - 1) * n + i))
        (expOut pw (XE x m n) (Yk y m n) m n w ad ((q + 1 - 1) * n + i')) :=
      C05.right_monotone_exp_partial hp hsub hX hw (by omega) (by omega) hi hii hin
    have := Toward.of_left hz ht
    rwa [Nat.add_sub_cancel, Yk_succ y hn q (by omega), Yk_succ y hn (q + 1) (by omega)] at this

/-! ### constant series -/

theorem lin_constant (hn : 2 ≤ n) (hm : 2 ≤ m) (hx : StrictIncr (m - 1) x)
    (hw : ValidWindows w m n) {c : K} (hy : ∀ i, i < m → y i = c) {j : ℕ} (hj : j < outLen m n) :
    linOut (XE x m n) (Yk y m n) m n w ad j = c := by
  have h := C05.constant_series_lin (Y := Yk y m n) (ad := ad) c (Yk_const hn (by omega) hy)
    (XE_strictIncr hn hm hx) hw
  rcases outLen_cases hn hj with rfl | ⟨h1, h2, h3⟩
  · exact h.2 (by omega) (by omega)
  · have := h.1 (j / n + 1) (j % n) (Nat.le_add_left 1 _) h1 h2
    rwa [Nat.add_sub_cancel, ← h3] at this

theorem exp_constant (hp : PowLike pw) (hn : 2 ≤ n) (hm : 2 ≤ m) (hx : StrictIncr (m - 1) x)
    (hw : ValidWindows w m n) {c : K} (hy : ∀ i, i < m → y i = c) {j : ℕ} (hj : j < outLen m n) :
    expOut pw (XE x m n) (Yk y m n) m n w ad j = c := by
  have h := C05.constant_series_exp (Y := Yk y m n) (ad := ad) hp c (Yk_const hn (by omega) hy)
    (XE_strictIncr hn hm hx) hw
  rcases outLen_cases hn hj with rfl | ⟨h1, h2, h3⟩
  · exact h.2 (by omega) (by omega)
  · have := h.1 (j / n + 1) (j % n) (Nat.le_add_left 1 _) h1 h2
    rwa [Nat.add_sub_cancel, ← h3] at this

/-! ### the last sample, result index `(m - 1) * n` -/

/-- `r ≤ n` samples before the last original abscissa -/
theorem XE_before_last (x : ℕ → K) (hn : 2 ≤ n) (hm : 2 ≤ m) {r : ℕ} (hr1 : 1 ≤ r) (hr : r ≤ n) :
    XE x m n (m * n - r) = x (m - 1) - (r : K) * ((x (m - 1) - x (m - 2)) / (n : K)) := by
  obtain ⟨m', rfl⟩ : ∃ m', m = m' + 2 := ⟨m - 2, by omega⟩
  have hn0 : (n : K) ≠ 0 := natCast_ne_zero_of_two_le hn
  have hidx : (m' + 2) * n - r = (m' + 1) * n + (n - r) := by
    have : (m' + 2) * n = (m' + 1) * n + n := by ring
    omega
  have h := XE_mid x hn (show 2 ≤ m' + 2 by omega) (k := m' + 1) (j := n - r) (by omega) (by omega)
    (by omega)
  rw [hidx, h, Nat.cast_sub hr]
  simp only [show m' + 2 - 1 = m' + 1 by omega, show m' + 2 - 2 = m' by omega,
    show m' + 1 - 1 = m' by omega]
  field_simp
  ring

/-- `l` samples after the last original abscissa (linear continuation with the last step) -/
theorem XE_after_last (x : ℕ → K) (hn : 2 ≤ n) (hm : 2 ≤ m) (l : ℕ) :
    XE x m n (m * n + l) = x (m - 1) + (l : K) * ((x (m - 1) - x (m - 2)) / (n : K)) := by
  rw [XE_right' x hn hm l]
  ring

/-- the linear strategies end in the border value between the last two averages: the right loop of
the last interval writes the last sample (if its window is not empty) -/
theorem lin_last_eq (hn : 2 ≤ n) (hm : 2 ≤ m) (hx : StrictIncr (m - 1) x)
    (hw : ValidWindows w m n) :
    linOut (XE x m n) (Yk y m n) m n w ad ((m - 1) * n) =
      if 1 ≤ w.aR (m - 1) then
        linFit (x (m - 1)) (XE x m n (m * n - w.aR (m - 1)), y (m - 2))
          (XE x m n (m * n + w.aL m), y (m - 1))
      else y (m - 1) := by
  have hX := XE_strictIncr hn hm hx
  have h2 := (hw (m - 1) (by omega)).1
  rw [Rfa.linOut_last _ _ w ad (by omega) (by omega)]
  by_cases h : 1 ≤ w.aR (m - 1)
  · rw [if_pos ⟨hm, h⟩, if_pos h, Rfa.linRight_end hX (by omega) h (by omega),
      Nat.sub_add_cancel (by omega)]
    unfold z0
    rw [if_neg (by omega), XE_last x hn hm, Yk_pred y hn (by omega) (m - 1) (by omega),
      Yk_pred y hn (by omega) m le_rfl, Nat.sub_sub]
  · rw [if_neg (fun hc => h hc.2), if_neg h, Yk_pred y hn (by omega) m le_rfl]

/-- closed form: with `r = a_r (m - 1) ≥ 1`, `l = a_l m` the last sample is
`y (m-2) + (y (m-1) - y (m-2)) · r / (r + l)` -/
theorem lin_last_closed (hn : 2 ≤ n) (hm : 2 ≤ m) (hx : StrictIncr (m - 1) x)
    (hw : ValidWindows w m n) (hR1 : 1 ≤ w.aR (m - 1)) :
    linOut (XE x m n) (Yk y m n) m n w ad ((m - 1) * n) =
      y (m - 2) + (y (m - 1) - y (m - 2)) * (w.aR (m - 1) : K)
        / ((w.aR (m - 1) : K) + (w.aL m : K)) := by
  have h2 := (hw (m - 1) (by omega)).1
  rw [lin_last_eq hn hm hx hw, if_pos hR1, XE_before_last x hn hm hR1 (by omega),
    XE_after_last x hn hm]
  have hn0 : (0 : K) < (n : K) := natCast_pos_of_two_le hn
  have hD : 0 < x (m - 1) - x (m - 2) := by
    have := hx (m - 2) (by omega)
    rw [show m - 2 + 1 = m - 1 by omega] at this
    linarith
  have hr : (0 : K) < (w.aR (m - 1) : K) := by exact_mod_cast hR1
  have hl : (0 : K) ≤ (w.aL m : K) := Nat.cast_nonneg _
  have hs : (w.aR (m - 1) : K) + (w.aL m : K) ≠ 0 := by positivity
  unfold linFit
  simp only
  have hden : x (m - 1) + (w.aL m : K) * ((x (m - 1) - x (m - 2)) / (n : K))
      - (x (m - 1) - (w.aR (m - 1) : K) * ((x (m - 1) - x (m - 2)) / (n : K)))
      = ((w.aR (m - 1) : K) + (w.aL m : K)) * ((x (m - 1) - x (m - 2)) / (n : K)) := by ring
  have hnum : x (m - 1) - (x (m - 1) - (w.aR (m - 1) : K) * ((x (m - 1) - x (m - 2)) / (n : K)))
      = (w.aR (m - 1) : K) * ((x (m - 1) - x (m - 2)) / (n : K)) := by ring
  have hd : (x (m - 1) - x (m - 2)) / (n : K) ≠ 0 := (div_pos hD hn0).ne'
  rw [hden, hnum, ← mul_assoc, mul_div_mul_right _ _ hd]

theorem exp_last_eq (pw : K → K) (x y : ℕ → K) (w : Windows) (ad : Bool) (hn : 2 ≤ n)
    (hm : 2 ≤ m) : expOut pw (XE x m n) (Yk y m n) m n w ad ((m - 1) * n) = y (m - 1) := by
  rw [C05.exp_last pw _ _ w ad (by omega) (by omega), Yk_pred y hn (by omega) m le_rfl]

end Concrete

/-! ## Level 1: every strategy, windows given (`Good`) -/

section Given

variable {s : Strategy} {pw : K → K} {x y : ℕ → K} {m n : ℕ} {w : Windows} {q i : ℕ}

/-- 1. no overshoot: sample `i` of original interval `q` lies between `y q` and the previous
average `y (q - 1)` (`y 0` for `q = 0`) or between `y q` and the next average `y (q + 1)` -/
theorem outY_no_overshoot (h : Good s pw x w m n) (hq : q + 1 < m) (hi : i < n) :
    outY s pw x y m n w (q * n + i) ∈
      Set.uIcc (y (q - 1)) (y q) ∪ Set.uIcc (y q) (y (q + 1)) := by
  cases s with
  | pc => rw [C05.pc_exact pw x y m n w h.hn q i hi]; exact Or.inl Set.right_mem_uIcc
  | linFixed => exact lin_no_overshoot h.hn h.hm h.hx h.hw hq hi
  | linAdaptive => exact lin_no_overshoot h.hn h.hm h.hx h.hw hq hi
  | expFixed => exact exp_no_overshoot (h.hp (Or.inl rfl)) h.hn h.hm h.hx h.hw hq hi
  | expAdaptive => exact exp_no_overshoot (h.hp (Or.inr rfl)) h.hn h.hm h.hx h.hw hq hi

/-- the first interval has no left neighbour: its samples lie between `y 0` and `y 1` -/
theorem outY_no_overshoot_first (h : Good s pw x w m n) (hi : i < n) :
    outY s pw x y m n w i ∈ Set.uIcc (y 0) (y 1) := by
  have := outY_no_overshoot (y := y) (q := 0) h (by have := h.hm; omega) hi
  simp only [Nat.zero_mul, Nat.zero_add, Nat.zero_sub, Set.uIcc_self] at this
  rcases this with h0 | h1
  · rw [Set.mem_singleton_iff.mp h0]; exact Set.left_mem_uIcc
  · exact h1

/-- 2. plateau: the samples `a_l ≤ i ≤ n - a_r` are the average itself -/
theorem outY_plateau (h : Good s pw x w m n) (hq : q + 1 < m) (hL : w.aL (q + 1) ≤ i)
    (hR : i ≤ n - w.aR (q + 1)) (hi : i < n) : outY s pw x y m n w (q * n + i) = y q := by
  cases s with
  | pc => exact C05.pc_exact pw x y m n w h.hn q i hi
  | linFixed => exact lin_plateau h.hn h.hm h.hx h.hw hq hL hR hi
  | linAdaptive => exact lin_plateau h.hn h.hm h.hx h.hw hq hL hR hi
  | expFixed => exact exp_plateau (h.hp (Or.inl rfl)).zero h.hn h.hm h.hx h.hw hq hL hR hi
  | expAdaptive => exact exp_plateau (h.hp (Or.inr rfl)).zero h.hn h.hm h.hx h.hw hq hL hR hi

/-- 3. at most `a_l + (a_r - 1)` of the `n` samples of interval `q` differ from `y q` -/
theorem outY_count_off_plateau (h : Good s pw x w m n) (hq : q + 1 < m) :
    ((Finset.range n).filter (fun i => outY s pw x y m n w (q * n + i) ≠ y q)).card
      ≤ w.aL (q + 1) + (w.aR (q + 1) - 1) :=
  Rfa.card_off_le (fun i hin hL hR => outY_plateau h hq hL hR hin)

/-- 4. the two linear strategies: the left transition is monotone … -/
theorem outY_left_monotone_linear (hs : s = .linFixed ∨ s = .linAdaptive) (h : Good s pw x w m n)
    (hq : q + 1 < m) {i' : ℕ} (hii : i ≤ i') (hi' : i' ≤ w.aL (q + 1)) (hin : i' < n) :
    (y (q - 1) ≤ y q → outY s pw x y m n w (q * n + i) ≤ outY s pw x y m n w (q * n + i')) ∧
    (y q ≤ y (q - 1) → outY s pw x y m n w (q * n + i') ≤ outY s pw x y m n w (q * n + i)) := by
  rcases hs with rfl | rfl
  · exact lin_left_monotone h.hn h.hm h.hx h.hw hq hii hi' hin
  · exact lin_left_monotone h.hn h.hm h.hx h.hw hq hii hi' hin

/-- … and so is the right transition -/
theorem outY_right_monotone_linear (hs : s = .linFixed ∨ s = .linAdaptive) (h : Good s pw x w m n)
    (hq : q + 1 < m) {i' : ℕ} (hi : n - w.aR (q + 1) ≤ i) (hii : i ≤ i') (hin : i' < n) :
    (y q ≤ y (q + 1) → outY s pw x y m n w (q * n + i) ≤ outY s pw x y m n w (q * n + i')) ∧
    (y (q + 1) ≤ y q → outY s pw x y m n w (q * n + i') ≤ outY s pw x y m n w (q * n + i)) := by
  rcases hs with rfl | rfl
  · exact lin_right_monotone h.hn h.hm h.hx h.hw hq hi hii hin
  · exact lin_right_monotone h.hn h.hm h.hx h.hw hq hi hii hin

/-- the same read off the output alone: from the first sample of the interval (the border value)
to the plateau … -/
theorem outY_left_monotone_linear_border (hs : s = .linFixed ∨ s = .linAdaptive)
    (h : Good s pw x w m n) (hq : q + 1 < m) {i' : ℕ} (hii : i ≤ i') (hi' : i' ≤ w.aL (q + 1))
    (hin : i' < n) :
    (outY s pw x y m n w (q * n) ≤ y q →
      outY s pw x y m n w (q * n + i) ≤ outY s pw x y m n w (q * n + i')) ∧
    (y q ≤ outY s pw x y m n w (q * n) →
      outY s pw x y m n w (q * n + i') ≤ outY s pw x y m n w (q * n + i)) := by
  rcases hs with rfl | rfl
  · exact lin_left_monotone_border h.hn h.hm h.hx h.hw hq hii hi' hin
  · exact lin_left_monotone_border h.hn h.hm h.hx h.hw hq hii hi' hin

/-- … and from the plateau towards the first sample of the next interval -/
theorem outY_right_monotone_linear_border (hs : s = .linFixed ∨ s = .linAdaptive)
    (h : Good s pw x w m n) (hq : q + 1 < m) {i' : ℕ} (hi : n - w.aR (q + 1) ≤ i) (hii : i ≤ i')
    (hin : i' < n) :
    (y q ≤ outY s pw x y m n w ((q + 1) * n) →
      outY s pw x y m n w (q * n + i) ≤ outY s pw x y m n w (q * n + i')) ∧
    (outY s pw x y m n w ((q + 1) * n) ≤ y q →
      outY s pw x y m n w (q * n + i') ≤ outY s pw x y m n w (q * n + i)) := by
  rcases hs with rfl | rfl
  · exact lin_right_monotone_border h.hn h.hm h.hx h.hw hq hi hii hin
  · exact lin_right_monotone_border h.hn h.hm h.hx h.hw hq hi hii hin

/-- exponential strategies — PARTIAL (exponent `≥ 1`, i.e. `pw t ≤ t` on `[0, 1]`); for smaller
exponents the clause is false of the code, see `C05.blend_not_monotone_witness` -/
theorem outY_left_monotone_exp_partial (hs : isExp s) (hsub : ∀ t, 0 ≤ t → t ≤ 1 → pw t ≤ t)
    (h : Good s pw x w m n) (hq : q + 1 < m) {i' : ℕ} (hii : i ≤ i') (hi' : i' ≤ w.aL (q + 1))
    (hin : i' < n) :
    (y (q - 1) ≤ y q → outY s pw x y m n w (q * n + i) ≤ outY s pw x y m n w (q * n + i')) ∧
    (y q ≤ y (q - 1) → outY s pw x y m n w (q * n + i') ≤ outY s pw x y m n w (q * n + i)) := by
  have hp := h.hp hs
  rcases hs with rfl | rfl
  · exact exp_left_monotone_partial hp hsub h.hn h.hm h.hx h.hw hq hii hi' hin
  · exact exp_left_monotone_partial hp hsub h.hn h.hm h.hx h.hw hq hii hi' hin

theorem outY_right_monotone_exp_partial (hs : isExp s) (hsub : ∀ t, 0 ≤ t → t ≤ 1 → pw t ≤ t)
    (h : Good s pw x w m n) (hq : q + 1 < m) {i' : ℕ} (hi : n - w.aR (q + 1) ≤ i) (hii : i ≤ i')
    (hin : i' < n) :
    (y q ≤ y (q + 1) → outY s pw x y m n w (q * n + i) ≤ outY s pw x y m n w (q * n + i')) ∧
    (y (q + 1) ≤ y q → outY s pw x y m n w (q * n + i') ≤ outY s pw x y m n w (q * n + i)) := by
  have hp := h.hp hs
  rcases hs with rfl | rfl
  · exact exp_right_monotone_partial hp hsub h.hn h.hm h.hx h.hw hq hi hii hin
  · exact exp_right_monotone_partial hp hsub h.hn h.hm h.hx h.hw hq hi hii hin

/-- 5. a constant series is recreated as that constant: every one of the `outLen m n` samples -/
theorem outY_constant (h : Good s pw x w m n) {c : K} (hy : ∀ i, i < m → y i = c) {j : ℕ}
    (hj : j < outLen m n) : outY s pw x y m n w j = c := by
  cases s with
  | pc =>
    show oversamplePC y n j = c
    rw [oversamplePC_eq y h.hn]
    apply hy
    have := interval_le h.hn h.hm hj
    omega
  | linFixed => exact lin_constant h.hn h.hm h.hx h.hw hy hj
  | linAdaptive => exact lin_constant h.hn h.hm h.hx h.hw hy hj
  | expFixed => exact exp_constant (h.hp (Or.inl rfl)) h.hn h.hm h.hx h.hw hy hj
  | expAdaptive => exact exp_constant (h.hp (Or.inr rfl)) h.hn h.hm h.hx h.hw hy hj

/-- 6. the piecewise-constant strategy reproduces each average exactly, on the whole result:
result index `j < outLen m n` carries `y (j / n)` -/
theorem outY_pc_exact (pw : K → K) (x y : ℕ → K) (m : ℕ) (w : Windows) (hn : 2 ≤ n) (j : ℕ) :
    outY .pc pw x y m n w j = y (j / n) := by
  show oversamplePC y n j = _
  exact oversamplePC_eq y hn j

/-- 7. the last sample: the piecewise-constant and the exponential strategies end in the last
value … -/
theorem outY_last_sample (h : Good s pw x w m n)
    (hs : s = .pc ∨ s = .expFixed ∨ s = .expAdaptive) :
    outY s pw x y m n w ((m - 1) * n) = y (m - 1) := by
  rcases hs with rfl | rfl | rfl
  · have := C05.pc_exact pw x y m n w h.hn (m - 1) 0 (by have := h.hn; omega)
    rwa [Nat.add_zero] at this
  · exact exp_last_eq pw x y w false h.hn h.hm
  · exact exp_last_eq pw x y w true h.hn h.hm

/-- … the linear strategies end *between* the last two values … -/
theorem outY_last_sample_linear_mem (h : Good s pw x w m n)
    (hs : s = .linFixed ∨ s = .linAdaptive) :
    outY s pw x y m n w ((m - 1) * n) ∈ Set.uIcc (y (m - 2)) (y (m - 1)) := by
  have hn := h.hn
  have hm := h.hm
  have key : ∀ ad : Bool, linOut (XE x m n) (Yk y m n) m n w ad ((m - 1) * n) ∈
      Set.uIcc (y (m - 2)) (y (m - 1)) := by
    intro ad
    have := (C05.lin_last (Y := Yk y m n) (ad := ad) (XE_strictIncr hn hm h.hx) h.hw (by omega)
      (by omega)).1
    rwa [Yk_pred y hn (by omega) (m - 1) (by omega), Yk_pred y hn (by omega) m le_rfl,
      Nat.sub_sub] at this
  rcases hs with rfl | rfl
  · exact key false
  · exact key true

/-- … namely in `y (m-2) + (y (m-1) - y (m-2)) · r / (r + l)` with `r = a_r (m - 1)` the right
window of the last interval (if `r ≥ 1`; for `r = 0` the last sample is `y (m - 1)`) and
`l = a_l m` the left window of the right virtual interval -/
theorem outY_last_sample_linear (h : Good s pw x w m n) (hs : s = .linFixed ∨ s = .linAdaptive) :
    outY s pw x y m n w ((m - 1) * n) =
      if 1 ≤ w.aR (m - 1) then
        y (m - 2) + (y (m - 1) - y (m - 2)) * (w.aR (m - 1) : K)
          / ((w.aR (m - 1) : K) + (w.aL m : K))
      else y (m - 1) := by
  have key : ∀ ad : Bool, linOut (XE x m n) (Yk y m n) m n w ad ((m - 1) * n) =
      if 1 ≤ w.aR (m - 1) then
        y (m - 2) + (y (m - 1) - y (m - 2)) * (w.aR (m - 1) : K)
          / ((w.aR (m - 1) : K) + (w.aL m : K))
      else y (m - 1) := by
    intro ad
    by_cases hR : 1 ≤ w.aR (m - 1)
    · rw [if_pos hR]; exact lin_last_closed h.hn h.hm h.hx h.hw hR
    · rw [if_neg hR, lin_last_eq h.hn h.hm h.hx h.hw, if_neg hR]
  rcases hs with rfl | rfl
  · exact key false
  · exact key true

end Given

/-! ## Level 2: the windows the constructors derive, documented parameter ranges (`Doc`) -/

section Run

variable {s : Strategy} {pw gpow : K → K} {x : ℕ → K} {m n B : ℕ} {alpha beta : K} {a : Option ℕ}
  {q i : ℕ}

/-- `<Strategy>(x, y, n, …).rfa()` succeeds and returns `outX`, `outY` for the derived windows -/
theorem run_spec (h : Doc s pw gpow x m n B alpha beta a) (B' : ℕ) (y : ℕ → K) :
    run s pw x y m n (ctorWindows s gpow B B' m n alpha beta a y)
      = .ok (outX x m n, outY s pw x y m n (ctorWindows s gpow B B' m n alpha beta a y)) :=
  run_ok s pw x y m _ h.hn

/-- the windows of the fixed strategies, spelled out -/
theorem ctorWindows_fixed (hs : s = .linFixed ∨ s = .expFixed) (B' : ℕ) (y : ℕ → K) (k : ℕ) :
    (ctorWindows s gpow B B' m n alpha beta a y).aL k = deriveA B n alpha a / 2 ∧
    (ctorWindows s gpow B B' m n alpha beta a y).aR k = deriveA B n alpha a / 2 := by
  rcases hs with rfl | rfl <;> exact ⟨rfl, rfl⟩

/-- the windows of the adaptive strategies at an original interval, spelled out -/
theorem ctorWindows_adaptive (hs : isAdaptive s) (B' : ℕ) (y : ℕ → K) {k : ℕ} (hk1 : 1 ≤ k)
    (hk : k < m) :
    (ctorWindows s gpow B B' m n alpha beta a y).aL k
      = (adaptiveAt gpow (deriveA B n alpha a) (Yk y m n) k).1 ∧
    (ctorWindows s gpow B B' m n alpha beta a y).aR k
      = (adaptiveAt gpow (deriveA B n alpha a) (Yk y m n) k).2 := by
  rcases hs with rfl | rfl <;>
  · simp only [ctorWindows, adaptiveWindows, windowsAdaptive]
    rw [if_neg (by omega), if_neg (by omega)]
    exact ⟨rfl, rfl⟩

/-- the `[1]` sentinel of the adaptive strategies at the right virtual interval -/
theorem ctorWindows_adaptive_sentinel (hs : isAdaptive s) (B' : ℕ) (y : ℕ → K) :
    (ctorWindows s gpow B B' m n alpha beta a y).aL m = 1 := by
  rcases hs with rfl | rfl <;> simp [ctorWindows, adaptiveWindows, windowsAdaptive]

/-- `a_l + (a_r - 1) ≤ a - 1` for the derived windows of every strategy -/
theorem ctorWindows_count_le (h : Doc s pw gpow x m n B alpha beta a) (B' : ℕ) (y : ℕ → K)
    (hq : q + 1 < m) :
    (ctorWindows s gpow B B' m n alpha beta a y).aL (q + 1)
      + ((ctorWindows s gpow B B' m n alpha beta a y).aR (q + 1) - 1)
      ≤ deriveA B n alpha a - 1 := by
  have hA2 := deriveA_two_le B n alpha a
  cases s with
  | pc => simp [ctorWindows, windowsFixed]
  | linFixed => exact C05.fixed_count_le _ _ hA2
  | expFixed => exact C05.fixed_count_le _ _ hA2
  | linAdaptive =>
    exact C05.adaptive_count_le gpow (h.hg (Or.inl rfl)) hA2 _ _ (by omega) (by omega)
  | expAdaptive =>
    exact C05.adaptive_count_le gpow (h.hg (Or.inr rfl)) hA2 _ _ (by omega) (by omega)

/-- **1. no overshoot** -/
theorem run_no_overshoot (h : Doc s pw gpow x m n B alpha beta a) (B' : ℕ) (y : ℕ → K)
    (hq : q + 1 < m) (hi : i < n) :
    outY s pw x y m n (ctorWindows s gpow B B' m n alpha beta a y) (q * n + i) ∈
      Set.uIcc (y (q - 1)) (y q) ∪ Set.uIcc (y q) (y (q + 1)) :=
  outY_no_overshoot (h.good B' y) hq hi

theorem run_no_overshoot_first (h : Doc s pw gpow x m n B alpha beta a) (B' : ℕ) (y : ℕ → K)
    (hi : i < n) :
    outY s pw x y m n (ctorWindows s gpow B B' m n alpha beta a y) i ∈ Set.uIcc (y 0) (y 1) :=
  outY_no_overshoot_first (h.good B' y) hi

/-- **2. plateau** -/
theorem run_plateau (h : Doc s pw gpow x m n B alpha beta a) (B' : ℕ) (y : ℕ → K)
    (hq : q + 1 < m) (hL : (ctorWindows s gpow B B' m n alpha beta a y).aL (q + 1) ≤ i)
    (hR : i ≤ n - (ctorWindows s gpow B B' m n alpha beta a y).aR (q + 1)) (hi : i < n) :
    outY s pw x y m n (ctorWindows s gpow B B' m n alpha beta a y) (q * n + i) = y q :=
  outY_plateau (h.good B' y) hq hL hR hi

/-- the fixed strategies: the samples `a / 2 ≤ i ≤ n - a / 2` -/
theorem run_plateau_fixed (hs : s = .linFixed ∨ s = .expFixed)
    (h : Doc s pw gpow x m n B alpha beta a) (B' : ℕ) (y : ℕ → K) (hq : q + 1 < m)
    (hL : deriveA B n alpha a / 2 ≤ i) (hR : i ≤ n - deriveA B n alpha a / 2) (hi : i < n) :
    outY s pw x y m n (ctorWindows s gpow B B' m n alpha beta a y) (q * n + i) = y q := by
  have hw := ctorWindows_fixed (gpow := gpow) (B := B) (m := m) (n := n) (alpha := alpha)
    (beta := beta) (a := a) hs B' y (q + 1)
  exact run_plateau h B' y hq (by rw [hw.1]; exact hL) (by rw [hw.2]; exact hR) hi

/-- **3. at most `a - 1` of the `n` samples of an interval differ from its average** -/
theorem run_count_off_plateau (h : Doc s pw gpow x m n B alpha beta a) (B' : ℕ) (y : ℕ → K)
    (hq : q + 1 < m) :
    ((Finset.range n).filter (fun i =>
      outY s pw x y m n (ctorWindows s gpow B B' m n alpha beta a y) (q * n + i) ≠ y q)).card
      ≤ deriveA B n alpha a - 1 :=
  le_trans (outY_count_off_plateau (h.good B' y) hq) (ctorWindows_count_le h B' y hq)

/-- **4. monotone transitions of the two linear strategies**: left transition
(`i ≤ i' ≤ a_l`) and right transition (`n - a_r ≤ i ≤ i' < n`), direction given by the
neighbouring average -/
theorem run_monotone_linear (hs : s = .linFixed ∨ s = .linAdaptive)
    (h : Doc s pw gpow x m n B alpha beta a) (B' : ℕ) (y : ℕ → K) (hq : q + 1 < m) {i' : ℕ}
    (hii : i ≤ i') (hin : i' < n) :
    (i' ≤ (ctorWindows s gpow B B' m n alpha beta a y).aL (q + 1) →
      (y (q - 1) ≤ y q →
        outY s pw x y m n (ctorWindows s gpow B B' m n alpha beta a y) (q * n + i)
          ≤ outY s pw x y m n (ctorWindows s gpow B B' m n alpha beta a y) (q * n + i')) ∧
      (y q ≤ y (q - 1) →
        outY s pw x y m n (ctorWindows s gpow B B' m n alpha beta a y) (q * n + i')
          ≤ outY s pw x y m n (ctorWindows s gpow B B' m n alpha beta a y) (q * n + i))) ∧
    (n - (ctorWindows s gpow B B' m n alpha beta a y).aR (q + 1) ≤ i →
      (y q ≤ y (q + 1) →
        outY s pw x y m n (ctorWindows s gpow B B' m n alpha beta a y) (q * n + i)
          ≤ outY s pw x y m n (ctorWindows s gpow B B' m n alpha beta a y) (q * n + i')) ∧
      (y (q + 1) ≤ y q →
        outY s pw x y m n (ctorWindows s gpow B B' m n alpha beta a y) (q * n + i')
          ≤ outY s pw x y m n (ctorWindows s gpow B B' m n alpha beta a y) (q * n + i))) :=
  ⟨fun hi' => outY_left_monotone_linear hs (h.good B' y) hq hii hi' hin,
    fun hi => outY_right_monotone_linear hs (h.good B' y) hq hi hii hin⟩

/-- the same read off the output alone (as in `C05.left_monotone` / `C05.right_monotone`, the
border values being the first sample of the interval resp. of the next interval) -/
theorem run_monotone_linear_border (hs : s = .linFixed ∨ s = .linAdaptive)
    (h : Doc s pw gpow x m n B alpha beta a) (B' : ℕ) (y : ℕ → K) (hq : q + 1 < m) {i' : ℕ}
    (hii : i ≤ i') (hin : i' < n) :
    (i' ≤ (ctorWindows s gpow B B' m n alpha beta a y).aL (q + 1) →
      (outY s pw x y m n (ctorWindows s gpow B B' m n alpha beta a y) (q * n) ≤ y q →
        outY s pw x y m n (ctorWindows s gpow B B' m n alpha beta a y) (q * n + i)
          ≤ outY s pw x y m n (ctorWindows s gpow B B' m n alpha beta a y) (q * n + i')) ∧
      (y q ≤ outY s pw x y m n (ctorWindows s gpow B B' m n alpha beta a y) (q * n) →
        outY s pw x y m n (ctorWindows s gpow B B' m n alpha beta a y) (q * n + i')
          ≤ outY s pw x y m n (ctorWindows s gpow B B' m n alpha beta a y) (q * n + i))) ∧
    (n - (ctorWindows s gpow B B' m n alpha beta a y).aR (q + 1) ≤ i →
      (y q ≤ outY s pw x y m n (ctorWindows s gpow B B' m n alpha beta a y) ((q + 1) * n) →
        outY s pw x y m n (ctorWindows s gpow B B' m n alpha beta a y) (q * n + i)
          ≤ outY s pw x y m n (ctorWindows s gpow B B' m n alpha beta a y) (q * n + i')) ∧
      (outY s pw x y m n (ctorWindows s gpow B B' m n alpha beta a y) ((q + 1) * n) ≤ y q →
        outY s pw x y m n (ctorWindows s gpow B B' m n alpha beta a y) (q * n + i')
          ≤ outY s pw x y m n (ctorWindows s gpow B B' m n alpha beta a y) (q * n + i))) :=
  ⟨fun hi' => outY_left_monotone_linear_border hs (h.good B' y) hq hii hi' hin,
    fun hi => outY_right_monotone_linear_border hs (h.good B' y) hq hi hii hin⟩

/-- exponential strategies — PARTIAL: exponent `≥ 1` only (`pw t ≤ t` on `[0, 1]`) -/
theorem run_monotone_exp_partial (hs : isExp s) (hsub : ∀ t, 0 ≤ t → t ≤ 1 → pw t ≤ t)
    (h : Doc s pw gpow x m n B alpha beta a) (B' : ℕ) (y : ℕ → K) (hq : q + 1 < m) {i' : ℕ}
    (hii : i ≤ i') (hin : i' < n) :
    (i' ≤ (ctorWindows s gpow B B' m n alpha beta a y).aL (q + 1) →
      (y (q - 1) ≤ y q →
        outY s pw x y m n (ctorWindows s gpow B B' m n alpha beta a y) (q * n + i)
          ≤ outY s pw x y m n (ctorWindows s gpow B B' m n alpha beta a y) (q * n + i')) ∧
      (y q ≤ y (q - 1) →
        outY s pw x y m n (ctorWindows s gpow B B' m n alpha beta a y) (q * n + i')
          ≤ outY s pw x y m n (ctorWindows s gpow B B' m n alpha beta a y) (q * n + i))) ∧
    (n - (ctorWindows s gpow B B' m n alpha beta a y).aR (q + 1) ≤ i →
      (y q ≤ y (q + 1) →
        outY s pw x y m n (ctorWindows s gpow B B' m n alpha beta a y) (q * n + i)
          ≤ outY s pw x y m n (ctorWindows s gpow B B' m n alpha beta a y) (q * n + i')) ∧
      (y (q + 1) ≤ y q →
        outY s pw x y m n (ctorWindows s gpow B B' m n alpha beta a y) (q * n + i')
          ≤ outY s pw x y m n (ctorWindows s gpow B B' m n alpha beta a y) (q * n + i))) :=
  ⟨fun hi' => outY_left_monotone_exp_partial hs hsub (h.good B' y) hq hii hi' hin,
    fun hi => outY_right_monotone_exp_partial hs hsub (h.good B' y) hq hi hii hin⟩

/-- **5. a constant series is recreated as that constant by every strategy** -/
theorem run_constant (h : Doc s pw gpow x m n B alpha beta a) (B' : ℕ) (y : ℕ → K) {c : K}
    (hy : ∀ i, i < m → y i = c) {j : ℕ} (hj : j < outLen m n) :
    outY s pw x y m n (ctorWindows s gpow B B' m n alpha beta a y) j = c :=
  outY_constant (h.good B' y) hy hj

/-- **6. the piecewise-constant strategy reproduces each average exactly** (needs `n ≥ 2` only) -/
theorem run_pc_exact (pw : K → K) (x y : ℕ → K) (m : ℕ) {n : ℕ} (w : Windows) (hn : 2 ≤ n) :
    run .pc pw x y m n w = .ok (outX x m n, outY .pc pw x y m n w) ∧
    (∀ k i, i < n → outY .pc pw x y m n w (k * n + i) = y k) ∧
    outY .pc pw x y m n w ((m - 1) * n) = y (m - 1) := by
  refine ⟨run_ok .pc pw x y m w hn, fun k i hi => C05.pc_exact pw x y m n w hn k i hi, ?_⟩
  have := C05.pc_exact pw x y m n w hn (m - 1) 0 (by omega)
  rwa [Nat.add_zero] at this

/-- **7. the last sample**: `y (m - 1)` for the piecewise-constant and the exponential strategies
(whose loops never write it) … -/
theorem run_last_sample (hs : s = .pc ∨ s = .expFixed ∨ s = .expAdaptive)
    (h : Doc s pw gpow x m n B alpha beta a) (B' : ℕ) (y : ℕ → K) :
    outY s pw x y m n (ctorWindows s gpow B B' m n alpha beta a y) ((m - 1) * n) = y (m - 1) :=
  outY_last_sample (h.good B' y) hs

/-- … between the last two values for the linear strategies … -/
theorem run_last_sample_linear_mem (hs : s = .linFixed ∨ s = .linAdaptive)
    (h : Doc s pw gpow x m n B alpha beta a) (B' : ℕ) (y : ℕ → K) :
    outY s pw x y m n (ctorWindows s gpow B B' m n alpha beta a y) ((m - 1) * n)
      ∈ Set.uIcc (y (m - 2)) (y (m - 1)) :=
  outY_last_sample_linear_mem (h.good B' y) hs

/-- … for `LinearFixedRFA` exactly the **mean of the last two values** (the right loop of the last
interval ends in the border value towards the constant right extension, and `a_l = a_r`) … -/
theorem run_last_sample_linFixed (h : Doc .linFixed pw gpow x m n B alpha beta a) (B' : ℕ)
    (y : ℕ → K) :
    outY .linFixed pw x y m n (ctorWindows .linFixed gpow B B' m n alpha beta a y) ((m - 1) * n)
      = (y (m - 2) + y (m - 1)) / 2 := by
  have hA2 := deriveA_two_le B n alpha a
  have h1 : 1 ≤ deriveA B n alpha a / 2 := by omega
  rw [outY_last_sample_linear (h.good B' y) (Or.inl rfl)]
  show (if 1 ≤ deriveA B n alpha a / 2 then _ else _) = _
  rw [if_pos h1]
  show y (m - 2) + (y (m - 1) - y (m - 2)) * ((deriveA B n alpha a / 2 : ℕ) : K)
    / (((deriveA B n alpha a / 2 : ℕ) : K) + ((deriveA B n alpha a / 2 : ℕ) : K)) = _
  have hc : (0 : K) < ((deriveA B n alpha a / 2 : ℕ) : K) := by exact_mod_cast h1
  field_simp
  ring

/-- … and for `LinearAdaptiveRFA` `y (m-2) + (y (m-1) - y (m-2)) · r / (r + 1)` with `r` the right
window of the last interval (the right virtual interval has the sentinel window 1).  For `r = 0`
the code leaves the last sample at `y (m - 1)`; `r = 0` only happens for `y (m-1) = y (m-2)`. -/
theorem run_last_sample_linAdaptive (h : Doc .linAdaptive pw gpow x m n B alpha beta a) (B' : ℕ)
    (y : ℕ → K) :
    outY .linAdaptive pw x y m n (ctorWindows .linAdaptive gpow B B' m n alpha beta a y)
        ((m - 1) * n)
      = y (m - 2) + (y (m - 1) - y (m - 2))
          * ((adaptiveAt gpow (deriveA B n alpha a) (Yk y m n) (m - 1)).2 : K)
          / (((adaptiveAt gpow (deriveA B n alpha a) (Yk y m n) (m - 1)).2 : K) + 1) := by
  have hn := h.hn
  have hm := h.hm
  have hA2 := deriveA_two_le B n alpha a
  have hs : isAdaptive .linAdaptive := Or.inl rfl
  have hR := (ctorWindows_adaptive (gpow := gpow) (B := B) (m := m) (n := n) (alpha := alpha)
    (beta := beta) (a := a) hs B' y (k := m - 1) (by omega) (by omega)).2
  have hL := ctorWindows_adaptive_sentinel (gpow := gpow) (B := B) (m := m) (n := n)
    (alpha := alpha) (beta := beta) (a := a) hs B' y
  rw [outY_last_sample_linear (h.good B' y) (Or.inr rfl), hR, hL, Nat.cast_one]
  by_cases hr : 1 ≤ (adaptiveAt gpow (deriveA B n alpha a) (Yk y m n) (m - 1)).2
  · rw [if_pos hr]
  · rw [if_neg hr]
    have hr0 : (adaptiveAt gpow (deriveA B n alpha a) (Yk y m n) (m - 1)).2 = 0 := by omega
    -- an empty right window means that the last jump vanishes
    have hjump : |Yk y m n (m - 1 + 1) - Yk y m n (m - 1)| = 0 := by
      by_contra h1
      by_cases h2 : |Yk y m n (m - 1) - Yk y m n (m - 1 - 1)| = 0
      · rw [adaptiveAt_left_zero gpow _ _ _ h1 h2] at hr0
        simp only at hr0
        omega
      · rw [adaptiveAt_general gpow _ _ _ h1 h2] at hr0
        have := floor_share_pos (K := K) (a := deriveA B n alpha a) (by omega)
          ((deriveA B n alpha a : K) / (1 + gpow (|Yk y m n (m - 1 + 1) - Yk y m n (m - 1)|
            / |Yk y m n (m - 1) - Yk y m n (m - 1 - 1)|)))
        simp only at hr0
        omega
    rw [Nat.sub_add_cancel (by omega), Yk_pred y hn (by omega) m le_rfl,
      Yk_pred y hn (by omega) (m - 1) (by omega), Nat.sub_sub, abs_eq_zero, sub_eq_zero] at hjump
    rw [hr0, hjump]
    simp

end Run

/-! ## Non-vacuity (over `ℚ`)

`x = [5, 6, 7, 8]`, `y = [10, 12, 18, 16]`, `n = 5`, `alpha = 4/5` (so `a = int(4) = 4`,
`a_l = a_r = 2`), `beta = 1/2` (`b = 1`), exponent 2, `adaptive_smooth = 1`. -/

section Example

private def ex : ℕ → ℚ := fun i => (5 + i : ℚ)
private def ey : ℕ → ℚ := fun i => if i = 0 then 10 else if i = 1 then 12 else if i = 2 then 18 else 16

private theorem ex_incr : StrictIncr (4 - 1) ex := by intro i _; simp [ex]

private theorem exA : deriveA 5 5 (4 / 5 : ℚ) none = 4 :=
  deriveA_eq_floor (by norm_num) (by norm_num) (by norm_num) (by norm_num)

private theorem powLike_sq : PowLike (fun t : ℚ => powN t 2) := powLike_powN 2 (by norm_num)

/-- the documented ranges hold for every strategy (`a ≤ n` through `deriveA_le`) -/
private theorem ex_doc (s : Strategy) :
    Doc s (fun t : ℚ => powN t 2) (fun t => t) ex 4 5 5 (4 / 5) (1 / 2) none where
  hn := by norm_num
  hm := by norm_num
  hx := ex_incr
  hA := deriveA_le (by norm_num) (fun a' h => by cases h) (fun _ => ⟨by norm_num, by norm_num⟩)
  hb0 := by norm_num
  hb1 := by norm_num
  hp := fun _ => powLike_sq
  hg := fun _ t ht => ht

/-- the run succeeds -/
example : run .expAdaptive (fun t : ℚ => powN t 2) ex ey 4 5
    (ctorWindows .expAdaptive (fun t => t) 5 5 4 5 (4 / 5) (1 / 2) none ey)
      = .ok (outX ex 4 5, outY .expAdaptive (fun t : ℚ => powN t 2) ex ey 4 5
          (ctorWindows .expAdaptive (fun t => t) 5 5 4 5 (4 / 5) (1 / 2) none ey)) :=
  run_spec (ex_doc .expAdaptive) 5 ey

/-- sample 2 of interval 1 of `LinearFixedRFA` is the average 12 (plateau `2 ≤ i ≤ 3`) -/
example : outY .linFixed (fun t : ℚ => powN t 2) ex ey 4 5
    (ctorWindows .linFixed (fun t => t) 5 5 4 5 (4 / 5) (1 / 2) none ey) (1 * 5 + 2) = 12 :=
  run_plateau_fixed (Or.inl rfl) (ex_doc .linFixed) 5 ey (q := 1) (by norm_num)
    (by simp [exA]) (by simp [exA]) (by norm_num)

/-- sample 4 of interval 1 of `ExpAdaptiveRFA` lies in `[10, 12] ∪ [12, 18]` -/
example : outY .expAdaptive (fun t : ℚ => powN t 2) ex ey 4 5
    (ctorWindows .expAdaptive (fun t => t) 5 5 4 5 (4 / 5) (1 / 2) none ey) (1 * 5 + 4) ∈
      Set.uIcc (10 : ℚ) 12 ∪ Set.uIcc (12 : ℚ) 18 :=
  run_no_overshoot (ex_doc .expAdaptive) 5 ey (q := 1) (by norm_num) (by norm_num)

/-- at most `a - 1 = 3` of the 5 samples of interval 2 of `LinearAdaptiveRFA` differ from 18 -/
example : ((Finset.range 5).filter (fun i =>
    outY .linAdaptive (fun t : ℚ => powN t 2) ex ey 4 5
      (ctorWindows .linAdaptive (fun t => t) 5 5 4 5 (4 / 5) (1 / 2) none ey) (2 * 5 + i)
        ≠ 18)).card ≤ 3 := by
  have := run_count_off_plateau (ex_doc .linAdaptive) 5 ey (q := 2) (by norm_num)
  rwa [exA] at this

/-- the last of the 16 samples of `LinearFixedRFA` is `(18 + 16) / 2 = 17`, not 16 … -/
example : outY .linFixed (fun t : ℚ => powN t 2) ex ey 4 5
    (ctorWindows .linFixed (fun t => t) 5 5 4 5 (4 / 5) (1 / 2) none ey) ((4 - 1) * 5) = 17 := by
  rw [run_last_sample_linFixed (ex_doc .linFixed) 5 ey]
  norm_num [ey]

/-- … that of `ExpFixedRFA` is 16 -/
example : outY .expFixed (fun t : ℚ => powN t 2) ex ey 4 5
    (ctorWindows .expFixed (fun t => t) 5 5 4 5 (4 / 5) (1 / 2) none ey) ((4 - 1) * 5) = 16 :=
  run_last_sample (Or.inr (Or.inl rfl)) (ex_doc .expFixed) 5 ey

end Example

end TWV.C05Run
