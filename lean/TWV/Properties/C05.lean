import TWV.Lemmas.RfaBounds

/-!
# C05 — window strategies never overshoot and keep a plateau at the average

"For the four transition-window strategies (transition factor in (0,1], linear share in [0,1],
exponent > 0, any smoothing of the adaptive factor) every recreated value of an interval lies
between that interval's average and the average of the neighbouring interval on its side, at most
a-1 of the n samples of an interval (a = transition window in samples; those nearest the two
borders) differ from the interval's average, and values move monotonically from each border value
to the plateau.  The piecewise-constant strategy reproduces each average exactly, the cubic-spline
strategy passes through every original point, and a constant series is recreated as a constant by
all strategies."

Model: `TWV/Model/Rfa.lean`.  `X` is an arbitrary strictly increasing extended grid
(`StrictIncr ((m + 1) * n) X`), `Y` arbitrary extended averages, `w` arbitrary *valid* windows
(`ValidWindows`: `a_l + a_r ≤ n`, `b ≤ a` on both sides; shown for the windows the four strategies
compute in `windowsFixed_valid` / `windowsAdaptive_valid`).  Extended interval `k`
(`1 ≤ k ≤ m - 1`), sample `i < n` of it is result index `(k - 1) * n + i`.  The exponent is an
abstract `pw` with `PowLike pw` (`0 ↦ 0`, `1 ↦ 1`, monotone and `< 1` on `[0, 1)`; every real
exponent `> 0` qualifies, `TWV/Lemmas/PowInstances.lean`).

**Finding (monotonicity clause, exponential strategies).**  The clause is proved for the linear
strategies unconditionally and for the exponential strategies under the additional hypothesis
`pw t ≤ t` on `[0, 1]` (exponent `≥ 1`): `left_monotone_exp_partial`,
`right_monotone_exp_partial`.  For exponents `< 1` it is false of the code: the `exp_lin_fit`
blend `θ(s) = s² + s^α (1 - s)` is not monotone for small `α`
(`blend_not_monotone_witness`), so the full statement

    theorem left_monotone_exp (hp : PowLike pw) … (i ≤ i' ≤ a_l) :
      (z0 k ≤ Y k → expOut … i ≤ expOut … i') ∧ (Y k ≤ z0 k → expOut … i' ≤ expOut … i)

is not a theorem.

The cubic-spline clause is a contract of SciPy's `CubicSpline` (an interpolating spline passes
through its knots); it is assumed, not proved here.
-/

set_option linter.unusedSectionVars false
set_option linter.unusedVariables false

namespace TWV.C05
open TWV TWV.Rfa

variable {K : Type} [Field K] [LinearOrder K] [IsStrictOrderedRing K]

/-! ## The windows the strategies compute are valid -/

/-- `ValidWindows w m n`: `∀ k ≤ m, a_l k + a_r k ≤ n ∧ b_l k ≤ a_l k ∧ b_r k ≤ a_r k` -/
example (w : Windows) (m n : ℕ) :
    ValidWindows w m n ↔ ∀ k, k ≤ m → w.aL k + w.aR k ≤ n ∧ w.bL k ≤ w.aL k ∧ w.bR k ≤ w.aR k :=
  Iff.rfl

/-- fixed strategies: `a_l = a_r = a / 2`, `b = int(beta * a_l)`, with `2 ≤ a ≤ n`
(transition factor in `(0, 1]`) -/
theorem windowsFixed_valid {a b n : ℕ} (m : ℕ) (ha2 : 2 ≤ a) (ha : a ≤ n) (hb : b ≤ a / 2) :
    ValidWindows (windowsFixed a b) m n ∧
      ∀ k, 1 ≤ (windowsFixed a b).aL k ∧ 1 ≤ (windowsFixed a b).aR k :=
  ⟨Rfa.windowsFixed_valid m ha hb, fun k => ⟨windowsFixed_aL_pos b k ha2, windowsFixed_aR_pos b k ha2⟩⟩

/-- `b = int(beta * a_l) ≤ a_l` for a linear share in `[0, 1]` -/
theorem deriveB_le (B : ℕ) (beta : K) (h0 : 0 ≤ beta) (h1 : beta ≤ 1) (aL : ℕ) :
    deriveB B beta aL ≤ aL := Rfa.deriveB_le B h0 h1 aL

/-- adaptive strategies, every smoothing (`gpow` positive on positives): the two windows of an
interval never exceed `a` in total -/
theorem adaptiveAt_sum_le (gpow : K → K) (hg : ∀ t, 0 < t → 0 < gpow t) {a : ℕ} (ha : 2 ≤ a)
    (Y : ℕ → K) (k : ℕ) : (adaptiveAt gpow a Y k).1 + (adaptiveAt gpow a Y k).2 ≤ a :=
  Rfa.adaptiveAt_sum_le gpow hg ha Y k

theorem windowsAdaptive_valid (gpow : K → K) (hg : ∀ t, 0 < t → 0 < gpow t) {a n : ℕ} (m : ℕ)
    (ha : 2 ≤ a) (han : a ≤ n) (Y : ℕ → K) (bOf : ℕ → ℕ) (hb : ∀ v, bOf v ≤ v) :
    ValidWindows (windowsAdaptive gpow a m Y bOf) m n :=
  Rfa.windowsAdaptive_valid gpow hg m ha han Y bOf hb

/-! ## Convexity of the shapes -/

theorem linFit_mem_uIcc {x x0 x1 : K} (y0 y1 : K) (h : x0 < x1) (h0 : x0 ≤ x) (h1 : x ≤ x1) :
    linFit x (x0, y0) (x1, y1) ∈ Set.uIcc y0 y1 := TWV.linFit_mem_uIcc y0 y1 h h0 h1

theorem expLinFit_mem_uIcc {pw : K → K} (hp : PowLike pw) {x x0 x1 : K} (y0 y1 : K) (h : x0 < x1)
    (h0 : x0 ≤ x) (h1 : x ≤ x1) : expLinFit pw x (x0, y0) (x1, y1) ∈ Set.uIcc y0 y1 :=
  TWV.expLinFit_mem_uIcc hp y0 y1 h h0 h1

theorem linExpXYFit_mem_uIcc {pw : K → K} (hp : PowLike pw) {x x0 x1 : K} (y0 y1 : K) (h : x0 < x1)
    (h0 : x0 ≤ x) (h1 : x ≤ x1) : linExpXYFit pw x (x0, y0) (x1, y1) ∈ Set.uIcc y0 y1 :=
  TWV.linExpXYFit_mem_uIcc hp y0 y1 h h0 h1

section windows
variable {pw : K → K} {X Y : ℕ → K} {m n : ℕ} {w : Windows} {ad : Bool} {k i : ℕ}

/-! ## The border value lies between the two averages -/

/-- `hnd`: the fixed strategies divide by zero when both windows at the border are empty (they
never are: `a_l = a_r ≥ 1`); the adaptive strategies test for it and take `Y (k - 1)` -/
theorem z0_between (hX : StrictIncr ((m + 1) * n) X) (hw : ValidWindows w m n) (hk : 1 ≤ k)
    (hkm : k ≤ m) (hnd : ad = false → 1 ≤ w.aL k) :
    z0 X Y n w ad k ∈ Set.uIcc (Y (k - 1)) (Y k) := by
  have h1 := (hw k hkm).1
  have h2 := (hw (k - 1) (by omega)).1
  exact z0_mem_uIcc hX hk hkm (by omega) (by omega) (fun h => by have := hnd h; omega)

/-! ## Linear strategies (fixed and adaptive): no overshoot, plateau -/

theorem lin_left_bounded (hX : StrictIncr ((m + 1) * n) X) (hw : ValidWindows w m n) (hk : 1 ≤ k)
    (hkm : k ≤ m - 1) (hi : i < w.aL k) :
    linOut X Y m n w ad ((k - 1) * n + i) ∈ Set.uIcc (Y (k - 1)) (Y k) := by
  have h1 := (hw k (by omega)).1
  have h2 := (hw (k - 1) (by omega)).1
  exact uIcc_z0_left_subset hX hk (by omega) (by omega) (by omega) (by omega)
    (linOut_left_mem hX hk hkm (by omega) hi)

theorem lin_right_bounded (hX : StrictIncr ((m + 1) * n) X) (hw : ValidWindows w m n) (hk : 1 ≤ k)
    (hkm : k ≤ m - 1) (hr : n - w.aR k < i) (hin : i < n) :
    linOut X Y m n w ad ((k - 1) * n + i) ∈ Set.uIcc (Y k) (Y (k + 1)) := by
  have h1 := (hw k (by omega)).1
  have h2 := (hw (k + 1) (by omega)).1
  exact uIcc_z0_right_subset hX (by omega) (by omega) (by omega) (by omega)
    (linOut_right_mem hX hk hkm h1 hr hin)

/-- the samples `a_l ≤ i ≤ n - a_r` are the average itself -/
theorem lin_plateau (hX : StrictIncr ((m + 1) * n) X) (hw : ValidWindows w m n) (hk : 1 ≤ k)
    (hkm : k ≤ m - 1) (hL : w.aL k ≤ i) (hR : i ≤ n - w.aR k) (hin : i < n) :
    linOut X Y m n w ad ((k - 1) * n + i) = Y k := by
  have h2 := (hw (k - 1) (by omega)).1
  exact linOut_plateau hX hk hkm (by omega) hL hR hin

/-- the last sample of the result (extended interval `m` is the constant extension of `m - 1`) -/
theorem lin_last (hX : StrictIncr ((m + 1) * n) X) (hw : ValidWindows w m n) (hn : 0 < n)
    (hm : 1 ≤ m) :
    linOut X Y m n w ad ((m - 1) * n) ∈ Set.uIcc (Y (m - 1)) (Y m) ∧
      (Y m = Y (m - 1) → linOut X Y m n w ad ((m - 1) * n) = Y (m - 1)) := by
  have h1 := (hw m le_rfl).1
  have h2 := (hw (m - 1) (by omega)).1
  have h := linOut_last_mem (Y := Y) (w := w) (ad := ad) hX hn hm (by omega) (by omega)
  refine ⟨h, fun hY => ?_⟩
  rw [hY, Set.uIcc_self] at h
  exact h

theorem lin_no_overshoot (hX : StrictIncr ((m + 1) * n) X) (hw : ValidWindows w m n) (hk : 1 ≤ k)
    (hkm : k ≤ m - 1) (hin : i < n) :
    linOut X Y m n w ad ((k - 1) * n + i) ∈
      Set.uIcc (Y (k - 1)) (Y k) ∪ Set.uIcc (Y k) (Y (k + 1)) := by
  rcases Nat.lt_or_ge i (w.aL k) with h | h
  · exact Or.inl (lin_left_bounded hX hw hk hkm h)
  rcases Nat.lt_or_ge (n - w.aR k) i with h' | h'
  · exact Or.inr (lin_right_bounded hX hw hk hkm h' hin)
  · rw [lin_plateau hX hw hk hkm h h' hin]
    exact Or.inl Set.right_mem_uIcc

/-! ## Exponential strategies (fixed and adaptive): no overshoot, plateau -/

theorem exp_left_bounded (hp : PowLike pw) (hX : StrictIncr ((m + 1) * n) X)
    (hw : ValidWindows w m n) (hk : 1 ≤ k) (hkm : k ≤ m - 1) (hi : i < w.aL k) :
    expOut pw X Y m n w ad ((k - 1) * n + i) ∈ Set.uIcc (Y (k - 1)) (Y k) := by
  have ho := hw.ok (show k ≤ m by omega)
  have h1 := ho.sum
  have h2 := (hw (k - 1) (by omega)).1
  exact uIcc_z0_left_subset hX hk (by omega) (by omega) (by omega) (by omega)
    (expOut_left_mem hp hX hk hkm ho hi)

theorem exp_right_bounded (hp : PowLike pw) (hX : StrictIncr ((m + 1) * n) X)
    (hw : ValidWindows w m n) (hk : 1 ≤ k) (hkm : k ≤ m - 1) (hr : n - w.aR k ≤ i) (hin : i < n) :
    expOut pw X Y m n w ad ((k - 1) * n + i) ∈ Set.uIcc (Y k) (Y (k + 1)) := by
  have ho := hw.ok (show k ≤ m by omega)
  have h1 := ho.sum
  have h2 := (hw (k + 1) (by omega)).1
  exact uIcc_z0_right_subset hX (by omega) (by omega) (by omega) (by omega)
    (expOut_right_mem hp hX hk hkm ho (by omega) hr hin)

/-- the samples `a_l ≤ i ≤ n - a_r` are the average itself (`i = n - a_r` is written by the
`exp_lin_fit` loop, which hits its left end point because `0 ** α = 0`) -/
theorem exp_plateau (hp0 : pw 0 = 0) (hX : StrictIncr ((m + 1) * n) X) (hw : ValidWindows w m n)
    (hk : 1 ≤ k) (hkm : k ≤ m - 1) (hL : w.aL k ≤ i) (hR : i ≤ n - w.aR k) (hin : i < n) :
    expOut pw X Y m n w ad ((k - 1) * n + i) = Y k :=
  expOut_plateau hp0 hX hk hkm (hw.ok (by omega)) hL hR hin

theorem exp_last (pw : K → K) (X Y : ℕ → K) (w : Windows) (ad : Bool) (hn : 0 < n) (hm : 1 ≤ m) :
    expOut pw X Y m n w ad ((m - 1) * n) = Y m := expOut_last pw X Y w ad hn hm

theorem exp_no_overshoot (hp : PowLike pw) (hX : StrictIncr ((m + 1) * n) X)
    (hw : ValidWindows w m n) (hk : 1 ≤ k) (hkm : k ≤ m - 1) (hin : i < n) :
    expOut pw X Y m n w ad ((k - 1) * n + i) ∈
      Set.uIcc (Y (k - 1)) (Y k) ∪ Set.uIcc (Y k) (Y (k + 1)) := by
  rcases Nat.lt_or_ge i (w.aL k) with h | h
  · exact Or.inl (exp_left_bounded hp hX hw hk hkm h)
  rcases Nat.lt_or_ge (n - w.aR k) i with h' | h'
  · exact Or.inr (exp_right_bounded hp hX hw hk hkm (by omega) hin)
  · rw [exp_plateau hp.zero hX hw hk hkm h h' hin]
    exact Or.inl Set.right_mem_uIcc

/-! ## At most `a - 1` samples of an interval are off the plateau -/

/-- the samples off the plateau are among the `a_l` first and the `a_r - 1` last ones.
(The bound `a_l + a_r - 1` in truncated subtraction would be wrong for `a_r = 0 < a_l`: then all
`a_l` samples of the left transition may differ.) -/
theorem lin_count_off_plateau (hX : StrictIncr ((m + 1) * n) X) (hw : ValidWindows w m n)
    (hk : 1 ≤ k) (hkm : k ≤ m - 1) :
    ((Finset.range n).filter
      (fun i => linOut X Y m n w ad ((k - 1) * n + i) ≠ Y k)).card ≤ w.aL k + (w.aR k - 1) :=
  card_off_le (fun i hin hL hR => lin_plateau hX hw hk hkm hL hR hin)

theorem exp_count_off_plateau (hp0 : pw 0 = 0) (hX : StrictIncr ((m + 1) * n) X)
    (hw : ValidWindows w m n) (hk : 1 ≤ k) (hkm : k ≤ m - 1) :
    ((Finset.range n).filter
      (fun i => expOut pw X Y m n w ad ((k - 1) * n + i) ≠ Y k)).card ≤ w.aL k + (w.aR k - 1) :=
  card_off_le (fun i hin hL hR => exp_plateau hp0 hX hw hk hkm hL hR hin)

/-- the windows of the fixed strategies: `a / 2 + (a / 2 - 1) ≤ a - 1` -/
theorem fixed_count_le {a : ℕ} (b k : ℕ) (ha : 2 ≤ a) :
    (windowsFixed a b).aL k + ((windowsFixed a b).aR k - 1) ≤ a - 1 := by
  simp only [windowsFixed]; omega

/-- the windows of the adaptive strategies (every smoothing): `a_l + (a_r - 1) ≤ a - 1` -/
theorem adaptive_count_le (gpow : K → K) (hg : ∀ t, 0 < t → 0 < gpow t) {a : ℕ} (ha : 2 ≤ a)
    (Y : ℕ → K) (bOf : ℕ → ℕ) (hk : 1 ≤ k) (hkm : k ≤ m - 1) :
    (windowsAdaptive gpow a m Y bOf).aL k + ((windowsAdaptive gpow a m Y bOf).aR k - 1) ≤ a - 1 := by
  simp only [windowsAdaptive]
  rw [if_neg (by omega), if_neg (by omega)]
  exact adaptiveAt_count_le gpow hg ha Y k

/-! ## Values move monotonically from each border value to the plateau -/

/-- linear strategies, left transition `0 ≤ i ≤ i' ≤ a_l`: from `z_0` (sample `0`, see
`C06.border_any`) to the average (sample `a_l`) -/
theorem left_monotone (hX : StrictIncr ((m + 1) * n) X) (hw : ValidWindows w m n) (hk : 1 ≤ k)
    (hkm : k ≤ m - 1) {i' : ℕ} (hii : i ≤ i') (hi' : i' ≤ w.aL k) (hin : i' < n) :
    (z0 X Y n w ad k ≤ Y k →
      linOut X Y m n w ad ((k - 1) * n + i) ≤ linOut X Y m n w ad ((k - 1) * n + i')) ∧
    (Y k ≤ z0 X Y n w ad k →
      linOut X Y m n w ad ((k - 1) * n + i') ≤ linOut X Y m n w ad ((k - 1) * n + i)) := by
  have h1 := (hw k (by omega)).1
  have h2 := (hw (k - 1) (by omega)).1
  exact linOut_left_toward hX hk hkm (by omega) h1 hii hi' hin

/-- linear strategies, right transition `n - a_r ≤ i ≤ i' < n`: from the average towards `z_0` of
the next interval -/
theorem right_monotone (hX : StrictIncr ((m + 1) * n) X) (hw : ValidWindows w m n) (hk : 1 ≤ k)
    (hkm : k ≤ m - 1) {i' : ℕ} (hi : n - w.aR k ≤ i) (hii : i ≤ i') (hin : i' < n) :
    (Y k ≤ z0 X Y n w ad (k + 1) →
      linOut X Y m n w ad ((k - 1) * n + i) ≤ linOut X Y m n w ad ((k - 1) * n + i')) ∧
    (z0 X Y n w ad (k + 1) ≤ Y k →
      linOut X Y m n w ad ((k - 1) * n + i') ≤ linOut X Y m n w ad ((k - 1) * n + i)) := by
  have h1 := (hw k (by omega)).1
  have h2 := (hw (k - 1) (by omega)).1
  exact linOut_right_toward hX hk hkm (by omega) h1 hi hii hin

/-- … the right transition stays between the average and `z_0 (k + 1)` and the next sample (the
border, result index `k * n`) is `z_0 (k + 1)` -/
theorem right_reaches_border (hX : StrictIncr ((m + 1) * n) X) (hw : ValidWindows w m n)
    (hk : 1 ≤ k) (hkm : k ≤ m - 1) (hR1 : 1 ≤ w.aR k) :
    (∀ i, n - w.aR k < i → i < n →
      linOut X Y m n w ad ((k - 1) * n + i) ∈ Set.uIcc (Y k) (z0 X Y n w ad (k + 1))) ∧
    linOut X Y m n w ad (k * n) = z0 X Y n w ad (k + 1) := by
  have h1 := (hw k (by omega)).1
  have h2 := (hw (k + 1) (by omega)).1
  refine ⟨fun i hr hin => linOut_right_mem hX hk hkm h1 hr hin, ?_⟩
  have := linOut_border (Y := Y) (w := w) (ad := ad) (k := k + 1) hX (by omega) (by omega) (by omega)
    (by omega) (by rw [Nat.add_sub_cancel]; omega)
    (Or.inr ⟨by omega, by rw [Nat.add_sub_cancel]; exact hR1⟩)
  rwa [Nat.add_sub_cancel] at this

/-- exponential strategies, left transition — PARTIAL: only for `pw t ≤ t` on `[0, 1]`
(exponent `≥ 1`); see the header and `blend_not_monotone_witness` -/
theorem left_monotone_exp_partial (hp : PowLike pw) (hsub : ∀ t, 0 ≤ t → t ≤ 1 → pw t ≤ t)
    (hX : StrictIncr ((m + 1) * n) X) (hw : ValidWindows w m n) (hk : 1 ≤ k) (hkm : k ≤ m - 1)
    {i' : ℕ} (hii : i ≤ i') (hi' : i' ≤ w.aL k) (hin : i' < n) :
    (z0 X Y n w ad k ≤ Y k →
      expOut pw X Y m n w ad ((k - 1) * n + i) ≤ expOut pw X Y m n w ad ((k - 1) * n + i')) ∧
    (Y k ≤ z0 X Y n w ad k →
      expOut pw X Y m n w ad ((k - 1) * n + i') ≤ expOut pw X Y m n w ad ((k - 1) * n + i)) :=
  expOut_left_toward hp hsub hX hk hkm (hw.ok (by omega)) hii hi' hin

/-- exponential strategies, right transition — PARTIAL: only for `pw t ≤ t` on `[0, 1]` -/
theorem right_monotone_exp_partial (hp : PowLike pw) (hsub : ∀ t, 0 ≤ t → t ≤ 1 → pw t ≤ t)
    (hX : StrictIncr ((m + 1) * n) X) (hw : ValidWindows w m n) (hk : 1 ≤ k) (hkm : k ≤ m - 1)
    {i' : ℕ} (hi : n - w.aR k ≤ i) (hii : i ≤ i') (hin : i' < n) :
    (Y k ≤ z0 X Y n w ad (k + 1) →
      expOut pw X Y m n w ad ((k - 1) * n + i) ≤ expOut pw X Y m n w ad ((k - 1) * n + i')) ∧
    (z0 X Y n w ad (k + 1) ≤ Y k →
      expOut pw X Y m n w ad ((k - 1) * n + i') ≤ expOut pw X Y m n w ad ((k - 1) * n + i)) :=
  expOut_right_toward hp hsub hX hk hkm (hw.ok (by omega)) hi hii hin

/-- for every exponent the exponential transitions stay between border value and average -/
theorem exp_between_border (hp : PowLike pw) (hX : StrictIncr ((m + 1) * n) X)
    (hw : ValidWindows w m n) (hk : 1 ≤ k) (hkm : k ≤ m - 1) :
    (∀ i, i < w.aL k →
      expOut pw X Y m n w ad ((k - 1) * n + i) ∈ Set.uIcc (z0 X Y n w ad k) (Y k)) ∧
    (∀ i, n - w.aR k ≤ i → i < n →
      expOut pw X Y m n w ad ((k - 1) * n + i) ∈ Set.uIcc (Y k) (z0 X Y n w ad (k + 1))) := by
  have ho := hw.ok (show k ≤ m by omega)
  exact ⟨fun i hi => expOut_left_mem hp hX hk hkm ho hi,
    fun i hr hin => expOut_right_mem hp hX hk hkm ho (by omega) hr hin⟩

end windows

/-! ## The hypothesis `pw t ≤ t` cannot be dropped -/

/-- a continuous, concave, piecewise linear stand-in for `t ↦ t ** α` with a small `α`:
`0 ↦ 0`, `1/10 ↦ 9/10`, `1 ↦ 1` -/
def pwSteep : ℚ → ℚ := fun t => min (9 * t) (9 / 10 + t / 10)

theorem pwSteep_powLike : PowLike pwSteep := by
  refine ⟨by norm_num [pwSteep], by norm_num [pwSteep], ?_, ?_⟩
  · intro s t _ hst _
    exact min_le_min (by linarith) (by linarith)
  · intro t _ h1
    exact lt_of_le_of_lt (min_le_right _ _) (by linarith)

/-- the `exp_lin_fit` blend `θ(s) = s² + pw s (1 - s)` decreases from `s = 1/10` to `t = 1/2`
although the target lies above: `θ(1/10) = 41/50 > 29/40 = θ(1/2)` -/
theorem blend_not_monotone_witness :
    ∃ pw : ℚ → ℚ, PowLike pw ∧ ∃ s t : ℚ, 0 ≤ s ∧ s < t ∧ t ≤ 1 ∧
      s * s + pw s * (1 - s) > t * t + pw t * (1 - t) :=
  ⟨pwSteep, pwSteep_powLike, 1 / 10, 1 / 2, by norm_num, by norm_num, by norm_num,
    by norm_num [pwSteep]⟩

/-- … hence `exp_lin_fit` itself is not monotone between two points with `y0 < y1` -/
theorem expLinFit_not_monotone_witness :
    ∃ pw : ℚ → ℚ, PowLike pw ∧ ∃ x x' : ℚ, 0 ≤ x ∧ x < x' ∧ x' ≤ 1 ∧
      expLinFit pw x' (0, 0) (1, 1) < expLinFit pw x (0, 0) (1, 1) :=
  ⟨pwSteep, pwSteep_powLike, 1 / 10, 1 / 2, by norm_num, by norm_num, by norm_num,
    by norm_num [expLinFit, linFit, expFit, pwSteep]⟩

/-! ## Piecewise constant strategy; constant series -/

/-- `PiecewiseConstantRFA` reproduces each average exactly: sample `i < n` of original interval `k`
(`n ≥ 2` is enforced by the constructor); the last sample is `k = m - 1`, `i = 0` -/
theorem pc_exact (pw : K → K) (x y : ℕ → K) (m n : ℕ) (w : Windows) (hn : 2 ≤ n) (k i : ℕ)
    (hi : i < n) : outY .pc pw x y m n w (k * n + i) = y k := by
  simp only [outY, oversamplePC]
  rw [if_neg (by omega), idx_div _ _ hi]

section constant
variable {pw : K → K} {X Y : ℕ → K} {m n : ℕ} {w : Windows} {ad : Bool} {k i : ℕ}

/-- a constant series of averages is recreated as that constant by the linear strategies … -/
theorem constant_series_lin (c : K) (hY : ∀ k, Y k = c) (hX : StrictIncr ((m + 1) * n) X)
    (hw : ValidWindows w m n) :
    (∀ k i, 1 ≤ k → k ≤ m - 1 → i < n → linOut X Y m n w ad ((k - 1) * n + i) = c) ∧
      (0 < n → 1 ≤ m → linOut X Y m n w ad ((m - 1) * n) = c) := by
  constructor
  · intro k i hk hkm hin
    have h := lin_no_overshoot (Y := Y) (ad := ad) hX hw hk hkm hin
    simpa [hY] using h
  · intro hn hm
    have h := (lin_last (Y := Y) (ad := ad) hX hw hn hm).1
    simpa [hY] using h

/-- … and by the exponential strategies -/
theorem constant_series_exp (hp : PowLike pw) (c : K) (hY : ∀ k, Y k = c)
    (hX : StrictIncr ((m + 1) * n) X) (hw : ValidWindows w m n) :
    (∀ k i, 1 ≤ k → k ≤ m - 1 → i < n → expOut pw X Y m n w ad ((k - 1) * n + i) = c) ∧
      (0 < n → 1 ≤ m → expOut pw X Y m n w ad ((m - 1) * n) = c) := by
  constructor
  · intro k i hk hkm hin
    have h := exp_no_overshoot (Y := Y) (ad := ad) hp hX hw hk hkm hin
    simpa [hY] using h
  · intro hn hm
    rw [exp_last pw X Y w ad hn hm, hY]

/-- … and by the piecewise constant strategy -/
theorem constant_series_pc (pw : K → K) (x y : ℕ → K) (m n : ℕ) (w : Windows) (hn : 2 ≤ n) (c : K)
    (hy : ∀ k, k < m → y k = c) (k i : ℕ) (hk : k < m) (hi : i < n) :
    outY .pc pw x y m n w (k * n + i) = c := by
  rw [pc_exact pw x y m n w hn k i hi, hy k hk]

end constant

/-! ## Non-vacuity: the hypotheses are jointly satisfiable (over `ℚ`) -/

section examples

/-- grid `0, 1, 2, …`, extended averages `0, 0, 3, 4, 4, …`, `m = 4` points, `n = 4`, `a = 4`,
`b = 1` -/
def Xq : ℕ → ℚ := fun i => (i : ℚ)
def Yq : ℕ → ℚ := fun k => if k ≤ 1 then 0 else if k = 2 then 3 else 4

theorem Xq_strict (N : ℕ) : StrictIncr N Xq := by
  intro i _; simp [Xq]

theorem wq_valid : ValidWindows (windowsFixed 4 1) 4 4 :=
  (windowsFixed_valid 4 (by norm_num) (by norm_num) (by norm_num)).1

theorem sq_powLike : PowLike (fun t : ℚ => t ^ 2) := by
  have := powLike_powN (K := ℚ) 2 (by norm_num)
  simpa using this

theorem sq_sub : ∀ t : ℚ, 0 ≤ t → t ≤ 1 → (fun t : ℚ => t ^ 2) t ≤ t := by
  intro t h0 h1; simp only; nlinarith

example : linOut Xq Yq 4 4 (windowsFixed 4 1) false ((2 - 1) * 4 + 1) ∈
    Set.uIcc (Yq (2 - 1)) (Yq 2) :=
  lin_left_bounded (Xq_strict _) wq_valid (by norm_num) (by norm_num) (by simp [windowsFixed])

example : expOut (fun t => t ^ 2) Xq Yq 4 4 (windowsFixed 4 1) false ((2 - 1) * 4 + 3) ∈
    Set.uIcc (Yq 2) (Yq (2 + 1)) :=
  exp_right_bounded sq_powLike (Xq_strict _) wq_valid (by norm_num) (by norm_num)
    (by simp [windowsFixed]) (by norm_num)

example : expOut (fun t => t ^ 2) Xq Yq 4 4 (windowsFixed 4 1) false ((2 - 1) * 4 + 2) = Yq 2 :=
  exp_plateau (by norm_num) (Xq_strict _) wq_valid (by norm_num) (by norm_num)
    (by simp [windowsFixed]) (by simp [windowsFixed]) (by norm_num)

example := left_monotone_exp_partial (X := Xq) (Y := Yq) (m := 4) (n := 4)
  (w := windowsFixed 4 1) (ad := false) (k := 2) (i := 0) (i' := 1) sq_powLike sq_sub
  (Xq_strict _) wq_valid (by norm_num) (by norm_num) (by norm_num) (by simp [windowsFixed])
  (by norm_num)

/-- the adaptive windows for these averages, any `b ≤ a` rule -/
example : ValidWindows (windowsAdaptive (id : ℚ → ℚ) 4 4 Yq (fun v => v / 2)) 4 4 :=
  windowsAdaptive_valid id (fun t ht => ht) 4 (by norm_num) (by norm_num) Yq _
    (fun v => Nat.div_le_self v 2)

example : ((Finset.range 4).filter (fun i =>
    linOut Xq Yq 4 4 (windowsFixed 4 1) false ((2 - 1) * 4 + i) ≠ Yq 2)).card ≤ 4 - 1 :=
  le_trans (lin_count_off_plateau (Xq_strict _) wq_valid (by norm_num) (by norm_num))
    (fixed_count_le 1 2 (by norm_num))

end examples

end TWV.C05
