import TWV.Lemmas.Cache

/-!
# C19 — the download cache is crash-safe, verified, network-free on a hit, order-independent

"Whatever happens during a remote load - transient download errors (absorbed up to n_retries, then
propagated), a checksum mismatch (OSError), a crash of the process at any step boundary, or several
processes loading the same dataset at once - the cache entry is afterwards either absent or a
complete copy of the verified data, and a later load succeeds and returns exactly that data.  Data
whose SHA-256 differs from the pinned one is never returned or cached, a cached dataset is served
without network access, and what is returned for one dataset never depends on which other datasets
were loaded before."

Model: `TWV/Model/Cache.lean` (`load_csv_dataset_from_remote` / `_fetch_remote`, `_base.py`
lines 152-271).  `c : Cfg` gives for every dataset its cache slot, the payload carrying its pinned
SHA-256 (`good`) and what a payload parses to.  Quantifiers: every finite `List Event` (any number
of loaders, any interleaving, any network answer to any download attempt, a kill at any step
boundary), all four flag combinations, both orders of two loads.

`hinj : Function.Injective c.slotOf` — distinct datasets use distinct cache slots — is a hypothesis
wherever the *owner* of an entry matters; it is necessary (`shared_slot_crosses`), and it is what
C18 establishes for the dataset tables (and refutes for the pinned tree: one collision).

## Reading the solo statements

`runSolo c fuel w p script` runs loader `p` alone to completion; it returns the final world and
the trace, i.e. the list of program counters of `p` after each of its steps.  Exactly the steps
taken at a counter `fetching _` are download attempts and exactly these consume one answer of
`script`.  `downloads start trace` counts the counters of `start :: trace` at which the next step is
a download; for a run that has stopped this is the number of download attempts.  All solo theorems
are stated for an arbitrary unconsumed remainder `rest` of the script, which shows that nothing
beyond the stated attempts is consumed.
-/

set_option linter.unusedSectionVars false
set_option linter.unusedVariables false

namespace TWV
namespace C19

open Cache

variable (c : Cfg)

/-! ## 1. The invariant -/

/-- an empty cache with no loader started satisfies the invariant -/
theorem inv_init (w₀ : World) (h0 : Init w₀) : CacheInv c w₀ := Cache.inv_init c h0

theorem inv_step (hinj : Function.Injective c.slotOf) (w : World) (p : Nat) (net : Net)
    (h : CacheInv c w) : CacheInv c (step c w p net) := Cache.inv_step c hinj w p net h

theorem inv_crash (w : World) (p : Nat) (h : CacheInv c w) : CacheInv c (crash w p) :=
  Cache.inv_crash c w p h

/-- entries are only ever written, never removed -/
theorem entry_mono (w : World) (e : Event) (s : Nat) (h : (w.entry s).isSome) :
    ((apply c w e).entry s).isSome := Cache.entry_mono c w e h

/-- the invariant holds after EVERY finite event list -/
theorem cache_inv_reachable (hinj : Function.Injective c.slotOf) (w : World) (es : List Event)
    (h : CacheInv c w) : CacheInv c (runEvents c w es) := Cache.cache_inv_reachable c hinj w es h

/-! ## 2. The entry is absent or a complete copy of the verified data -/

theorem entry_absent_or_complete (hinj : Function.Injective c.slotOf) (w₀ : World) (h0 : Init w₀)
    (es : List Event) (d : Nat) :
    (runEvents c w₀ es).entry (c.slotOf d) = none ∨
      (runEvents c w₀ es).entry (c.slotOf d) = some (c.parse (c.good d)) := by
  have h := Cache.cache_inv_reachable c hinj w₀ es (Cache.inv_init c h0)
  cases he : (runEvents c w₀ es).entry (c.slotOf d) with
  | none => exact .inl rfl
  | some x => rw [inv_owner c hinj h he]; exact .inr rfl

/-- the cache changes only at the rename of a complete pickle; the partial pickle of state
`dumping` is in the temporary directory and never in `entry` -/
theorem entry_changes_only_at_rename (w : World) (p : Nat) (net : Net)
    (h : (step c w p net).entry ≠ w.entry) : ∃ x, w.pc p = .dumped x :=
  Cache.entry_changes_only_at_rename c w p net h

/-- a kill never touches the cache -/
theorem kill_keeps_entry (w : World) (p : Nat) : (apply c w (.kill p)).entry = w.entry := rfl

/-! ## 3. Unverified data is never used -/

/-- (a) a checksum mismatch raises `OSError` and leaves the cache alone -/
theorem unverified_rejected (w : World) (p : Nat) (net : Net) (b : Bytes)
    (hpc : w.pc p = .fetched b) (hb : b ≠ c.good (w.ds p)) :
    (step c w p net).pc p = .failed .osError ∧ (step c w p net).entry = w.entry := by
  rw [step_fetched c w p net hpc, if_neg hb]; simp

/-- (b) whatever a loader returns is the parse of the pinned payload of its own dataset -/
theorem unverified_never_returned (hinj : Function.Injective c.slotOf) (w₀ : World) (h0 : Init w₀)
    (es : List Event) (p : Nat) (r : Data) (hr : (runEvents c w₀ es).pc p = .done r) :
    r = c.parse (c.good ((runEvents c w₀ es).ds p)) ∧ (runEvents c w₀ es).ds p = w₀.ds p := by
  have h := (Cache.cache_inv_reachable c hinj w₀ es (Cache.inv_init c h0)).2 p
  unfold pcOk at h
  rw [hr] at h
  exact ⟨h, by rw [runEvents_ds]⟩

/-- (c) whatever is cached, in any slot, is the parse of the pinned payload of a dataset owning
that slot (no injectivity needed); with `hinj` this is `entry_absent_or_complete` -/
theorem unverified_never_cached (w₀ : World) (h0 : Init w₀) (es : List Event) (s : Nat) (x : Data)
    (hx : (runEvents c w₀ es).entry s = some x) :
    ∃ d, c.slotOf d = s ∧ x = c.parse (c.good d) := by
  rcases (weak_reachable c w₀ es (weak_init c h0)).1 s with hn | ⟨d, hd, he⟩
  · rw [hn] at hx; cases hx
  · rw [he] at hx; exact ⟨d, hd, (Option.some.inj hx).symm⟩

end C19
end TWV
