import TWV.Lemmas.Cache

/-!
# C19 — the download cache is crash-safe, verified, network-free on a hit, order-independent

"Whatever happens during a remote load - transient download errors (absorbed up to n_retries, then
propagated), a checksum mismatch (OSError), a crash of the process at any step boundary, or several
processes loading the same dataset at once - the cache entry is afterwards either absent or a
complete copy of the verified data, and a later load succeeds and returns exactly that data.  Data
whose SHA-256 differs from the pinned one is never returned or cached, a cached dataset is served
without network access, and what is returned for one dataset never depends on which other datasets
were loaded before."

Model: `TWV/Model/Cache.lean` (`load_csv_dataset_from_remote` / `_fetch_remote`, `_base.py`
lines 152-271).  `c : Cfg` gives for every dataset its cache slot, the payload carrying its pinned
SHA-256 (`good`) and what a payload parses to.  Quantifiers: every finite `List Event` (any number
of loaders, any interleaving, any network answer to any download attempt, a kill at any step
boundary), all four flag combinations, both orders of two loads.

`hinj : Function.Injective c.slotOf` — distinct datasets use distinct cache slots — is a hypothesis
wherever the *owner* of an entry matters; it is necessary (`shared_slot_crosses`), and it is what
C18 establishes for the dataset tables (and refutes for the pinned tree: one collision).

## Reading the solo statements

`runSolo c fuel w p script` runs loader `p` alone to completion; it returns the final world and
the trace, i.e. the list of program counters of `p` after each of its steps.  Exactly the steps
taken at a counter `fetching _` are download attempts and exactly these consume one answer of
`script`.  `downloads start trace` counts the counters of `start :: trace` at which the next step is
a download; for a run that has stopped this is the number of download attempts.  All solo theorems
are stated for an arbitrary unconsumed remainder `rest` of the script, which shows that nothing
beyond the stated attempts is consumed.

## Findings

* `hinj` is needed by `inv_step` (hence by everything about what is *returned*): the step
  `readCache → done x` returns whatever the slot holds.  Without it only `unverified_never_cached`
  (every entry is verified data of SOME dataset owning the slot) survives; `shared_slot_crosses`
  is the counterexample.
* `later_load_succeeds` is about a load that runs alone (`runSolo`) after an arbitrary history;
  the history itself is fully concurrent.
* Outside the model: `validate_checksum=False` (then unverified data IS parsed, cached and
  returned), negative `n_retries` (the `== 0` test never fires: unbounded retries), the reliance
  of `pickle.dump(dataset, open(…, "wb"))` on the immediate close of the unreferenced file object
  before `os.rename` (CPython reference counting), `os.rename` onto an existing file (atomic
  replace on POSIX, `FileExistsError` on Windows), power loss (no `fsync`), and cache files put
  there by something other than this function (`pickle.load` trusts them).  A kill leaves the
  temporary directory behind in the dataset folder for ever; it never collides with an entry.
-/

set_option linter.unusedSectionVars false
set_option linter.unusedVariables false

namespace TWV
namespace C19

open Cache

variable (c : Cfg)

/-! ## 1. The invariant -/

/-- an empty cache with no loader started satisfies the invariant -/
theorem inv_init (w₀ : World) (h0 : Init w₀) : CacheInv c w₀ := Cache.inv_init c h0

theorem inv_step (hinj : Function.Injective c.slotOf) (w : World) (p : Nat) (net : Net)
    (h : CacheInv c w) : CacheInv c (step c w p net) := Cache.inv_step c hinj w p net h

theorem inv_crash (w : World) (p : Nat) (h : CacheInv c w) : CacheInv c (crash w p) :=
  Cache.inv_crash c w p h

/-- entries are only ever written, never removed -/
theorem entry_mono (w : World) (e : Event) (s : Nat) (h : (w.entry s).isSome) :
    ((apply c w e).entry s).isSome := Cache.entry_mono c w e h

/-- the invariant holds after EVERY finite event list -/
theorem cache_inv_reachable (hinj : Function.Injective c.slotOf) (w : World) (es : List Event)
    (h : CacheInv c w) : CacheInv c (runEvents c w es) := Cache.cache_inv_reachable c hinj w es h

/-! ## 2. The entry is absent or a complete copy of the verified data -/

theorem entry_absent_or_complete (hinj : Function.Injective c.slotOf) (w₀ : World) (h0 : Init w₀)
    (es : List Event) (d : Nat) :
    (runEvents c w₀ es).entry (c.slotOf d) = none ∨
      (runEvents c w₀ es).entry (c.slotOf d) = some (c.parse (c.good d)) := by
  have h := Cache.cache_inv_reachable c hinj w₀ es (Cache.inv_init c h0)
  cases he : (runEvents c w₀ es).entry (c.slotOf d) with
  | none => exact .inl rfl
  | some x => rw [inv_owner c hinj h he]; exact .inr rfl

/-- the cache changes only at the rename of a complete pickle; the partial pickle of state
`dumping` is in the temporary directory and never in `entry` -/
theorem entry_changes_only_at_rename (w : World) (p : Nat) (net : Net)
    (h : (step c w p net).entry ≠ w.entry) : ∃ x, w.pc p = .dumped x :=
  Cache.entry_changes_only_at_rename c w p net h

/-- a kill never touches the cache -/
theorem kill_keeps_entry (w : World) (p : Nat) : (apply c w (.kill p)).entry = w.entry := rfl

/-! ## 3. Unverified data is never used -/

/-- (a) a checksum mismatch raises `OSError` and leaves the cache alone -/
theorem unverified_rejected (w : World) (p : Nat) (net : Net) (b : Bytes)
    (hpc : w.pc p = .fetched b) (hb : b ≠ c.good (w.ds p)) :
    (step c w p net).pc p = .failed .osError ∧ (step c w p net).entry = w.entry := by
  rw [step_fetched c w p net hpc, if_neg hb]; simp

/-- (b) whatever a loader returns is the parse of the pinned payload of its own dataset -/
theorem unverified_never_returned (hinj : Function.Injective c.slotOf) (w₀ : World) (h0 : Init w₀)
    (es : List Event) (p : Nat) (r : Data) (hr : (runEvents c w₀ es).pc p = .done r) :
    r = c.parse (c.good ((runEvents c w₀ es).ds p)) ∧ (runEvents c w₀ es).ds p = w₀.ds p := by
  have h := (Cache.cache_inv_reachable c hinj w₀ es (Cache.inv_init c h0)).2 p
  unfold pcOk at h
  rw [hr] at h
  exact ⟨h, by rw [runEvents_ds]⟩

/-- (c) whatever is cached, in any slot, is the parse of the pinned payload of a dataset owning
that slot (no injectivity needed); with `hinj` this is `entry_absent_or_complete` -/
theorem unverified_never_cached (w₀ : World) (h0 : Init w₀) (es : List Event) (s : Nat) (x : Data)
    (hx : (runEvents c w₀ es).entry s = some x) :
    ∃ d, c.slotOf d = s ∧ x = c.parse (c.good d) := by
  rcases (weak_reachable c w₀ es (weak_init c h0)).1 s with hn | ⟨d, hd, he⟩
  · rw [hn] at hx; cases hx
  · rw [he] at hx; exact ⟨d, hd, (Option.some.inj hx).symm⟩

/-- (a), (b), (c) together -/
theorem unverified_never_used (hinj : Function.Injective c.slotOf) (w₀ : World) (h0 : Init w₀)
    (es : List Event) :
    let w := runEvents c w₀ es
    (∀ p net b, w.pc p = .fetched b → b ≠ c.good (w.ds p) →
      (step c w p net).pc p = .failed .osError ∧ (step c w p net).entry = w.entry) ∧
    (∀ p r, w.pc p = .done r → r = c.parse (c.good (w.ds p))) ∧
    (∀ d x, w.entry (c.slotOf d) = some x → x = c.parse (c.good d)) := by
  intro w
  refine ⟨fun p net b h1 h2 => unverified_rejected c w p net b h1 h2,
    fun p r h => (unverified_never_returned c hinj w₀ h0 es p r h).1, fun d x h => ?_⟩
  rcases entry_absent_or_complete c hinj w₀ h0 es d with hn | hs
  · rw [show w.entry (c.slotOf d) = none from hn] at h; cases h
  · rw [show w.entry (c.slotOf d) = _ from hs] at h; exact (Option.some.inj h).symm

/-! ## 6. The flag table (first step from `init download_if_missing download_even_if_available r`) -/

/-- missing, downloads allowed: download (whatever `download_even_if_available`) -/
theorem flags_missing_download (w : World) (p : Nat) (net : Net) (even : Bool) (r : Nat)
    (hpc : w.pc p = .init true even r) (he : w.entry (c.slotOf (w.ds p)) = none) :
    step c w p net = setPC w p (.fetching r) :=
  step_init_fetch c w p net hpc (by simp [he])

/-- available, forced re-download -/
theorem flags_available_forced (w : World) (p : Nat) (net : Net) (r : Nat) (x : Data)
    (hpc : w.pc p = .init true true r) (he : w.entry (c.slotOf (w.ds p)) = some x) :
    step c w p net = setPC w p (.fetching r) :=
  step_init_fetch c w p net hpc (by simp [he])

/-- available, default flags: read the cache -/
theorem flags_available_default (w : World) (p : Nat) (net : Net) (r : Nat) (x : Data)
    (hpc : w.pc p = .init true false r) (he : w.entry (c.slotOf (w.ds p)) = some x) :
    step c w p net = setPC w p .readCache :=
  step_init_read c w p net hpc (by simp [he]) (by simp [he])

/-- available, downloads forbidden: read the cache (whatever `download_even_if_available`) -/
theorem flags_available_offline (w : World) (p : Nat) (net : Net) (even : Bool) (r : Nat) (x : Data)
    (hpc : w.pc p = .init false even r) (he : w.entry (c.slotOf (w.ds p)) = some x) :
    step c w p net = setPC w p .readCache :=
  step_init_read c w p net hpc (by simp [he]) (by simp [he])

/-- missing, downloads forbidden: `OSError` -/
theorem flags_missing_offline (w : World) (p : Nat) (net : Net) (even : Bool) (r : Nat)
    (hpc : w.pc p = .init false even r) (he : w.entry (c.slotOf (w.ds p)) = none) :
    step c w p net = setPC w p (.failed .osError) :=
  step_init_missing c w p net hpc (by simp [he]) (by simp [he])

/-- the whole table at once, on the program counter -/
theorem flags_table (w : World) (p : Nat) (net : Net) (dl even : Bool) (r : Nat)
    (hpc : w.pc p = .init dl even r) :
    (step c w p net).pc p =
      match dl, even, (w.entry (c.slotOf (w.ds p))).isSome with
      | true, _, false => .fetching r
      | true, true, true => .fetching r
      | true, false, true => .readCache
      | false, _, true => .readCache
      | false, _, false => .failed .osError := by
  cases he : w.entry (c.slotOf (w.ds p)) with
  | none =>
    cases dl
    · rw [flags_missing_offline c w p net even r hpc he]; simp
    · rw [flags_missing_download c w p net even r hpc he]; simp
  | some x =>
    cases dl
    · rw [flags_available_offline c w p net even r x hpc he]; simp
    · cases even
      · rw [flags_available_default c w p net r x hpc he]; simp
      · rw [flags_available_forced c w p net r x hpc he]; simp

/-! ## 5. A cached dataset is served without network access -/

/-- the run is `init → readCache → done`: the trace contains no `fetching` (no download attempt),
no answer of the script is consumed (the statement holds for every script, including `[]`), the
cache is unchanged and the entry's content is returned -/
theorem hit_without_network (w : World) (p : Nat) (dl : Bool) (r : Nat) (x : Data)
    (script : List Net) (fuel : Nat) (hfuel : 3 ≤ fuel)
    (he : w.entry (c.slotOf (w.ds p)) = some x) (hpc : w.pc p = .init dl false r) :
    (runSolo c fuel w p script).1.pc p = .done x ∧
    (runSolo c fuel w p script).2 = [.readCache, .done x] ∧
    downloads (w.pc p) (runSolo c fuel w p script).2 = 0 ∧
    (runSolo c fuel w p script).1.entry = w.entry ∧
    runSolo c fuel w p script = runSolo c fuel w p [] := by
  rw [solo_hit c script hpc he (by omega), solo_hit c [] hpc he (by omega)]
  simp [downloads, hpc, PC.isFetching]

/-! ## 7. A later load succeeds, whatever earlier crashes left behind -/

/-- from EVERY world satisfying the invariant: a load with `download_if_missing` whose (single)
download attempt is answered by the pinned payload returns the verified data, and afterwards the
entry is the complete copy of it -/
theorem later_load_succeeds (hinj : Function.Injective c.slotOf) (w : World) (h : CacheInv c w)
    (p : Nat) (even : Bool) (r : Nat) (rest : List Net) (fuel : Nat) (hfuel : 10 ≤ fuel)
    (hpc : w.pc p = .init true even r) :
    let w' := (runSolo c fuel w p (.payload (c.good (w.ds p)) :: rest)).1
    w'.pc p = .done (c.parse (c.good (w.ds p))) ∧
    w'.entry (c.slotOf (w.ds p)) = some (c.parse (c.good (w.ds p))) ∧
    CacheInv c w' := by
  intro w'
  have hfresh : ((true && !(w.entry (c.slotOf (w.ds p))).isSome)
      || (true && even && (w.entry (c.slotOf (w.ds p))).isSome)) = true →
      w' = commit c w p (c.parse (c.good (w.ds p))) := by
    intro hc
    show (runSolo c fuel w p _).1 = _
    rw [solo_init_fetch c _ hpc hc (by omega)]
    have := solo_fetch_good c (w := setPC w p (.fetching r)) (p := p) (f := fuel - 1) [] rest
      (setPC_pc_self _ _ _) (by simp) (by simp) (by simp; omega)
    simp only [List.nil_append, setPC_ds] at this
    rw [this]; simp
  have hinv : CacheInv c w' := by
    -- the solo run is a particular event list
    have : ∀ (f : Nat) (w : World) (s : List Net), CacheInv c w →
        CacheInv c (runSolo c f w p s).1 := by
      intro f
      induction f with
      | zero => intro w s h; exact h
      | succ f ih =>
        intro w s h
        rw [runSolo_succ]
        split
        · exact h
        · split
          · cases s with
            | nil => exact h
            | cons a rest => exact ih _ _ (Cache.inv_step c hinj w p a h)
          · exact ih _ _ (Cache.inv_step c hinj w p .other h)
    exact this _ _ _ h
  cases he : w.entry (c.slotOf (w.ds p)) with
  | none =>
    have hw := hfresh (by simp [he])
    rw [hw]; rw [hw] at hinv
    exact ⟨by simp, by simp, hinv⟩
  | some x =>
    have hx : x = c.parse (c.good (w.ds p)) := inv_owner c hinj h he
    cases even with
    | true =>
      have hw := hfresh (by simp [he])
      rw [hw]; rw [hw] at hinv
      exact ⟨by simp, by simp, hinv⟩
    | false =>
      have hw : w' = setPC w p (.done x) := by
        show (runSolo c fuel w p _).1 = _
        rw [solo_hit c _ hpc he (by omega)]
      rw [hw]; rw [hw] at hinv
      subst hx
      exact ⟨by simp, by simpa using he, hinv⟩

/-- the formulation with `n_retries + 1` good answers available (only one is consumed) -/
theorem later_load_succeeds_replicate (hinj : Function.Injective c.slotOf) (w : World)
    (h : CacheInv c w) (p : Nat) (r : Nat) (fuel : Nat) (hfuel : 10 ≤ fuel)
    (hpc : w.pc p = .init true false r) :
    let w' := (runSolo c fuel w p (List.replicate (r + 1) (.payload (c.good (w.ds p))))).1
    w'.pc p = .done (c.parse (c.good (w.ds p))) ∧
    w'.entry (c.slotOf (w.ds p)) = some (c.parse (c.good (w.ds p))) := by
  rw [List.replicate_succ]
  exact ⟨(later_load_succeeds c hinj w h p false r _ fuel hfuel hpc).1,
    (later_load_succeeds c hinj w h p false r _ fuel hfuel hpc).2.1⟩

/-- the headline: after ANY history from an empty cache (faults, kills, concurrent loaders), a
loader that has not started yet succeeds and returns exactly the verified data -/
theorem later_load_after_anything (hinj : Function.Injective c.slotOf) (w₀ : World) (h0 : Init w₀)
    (es : List Event) (p : Nat) (even : Bool) (r : Nat) (rest : List Net) (fuel : Nat)
    (hfuel : 10 ≤ fuel) (hpc : (runEvents c w₀ es).pc p = .init true even r) :
    let w := runEvents c w₀ es
    let w' := (runSolo c fuel w p (.payload (c.good (w.ds p)) :: rest)).1
    w'.pc p = .done (c.parse (c.good (w₀.ds p))) ∧
    w'.entry (c.slotOf (w₀.ds p)) = some (c.parse (c.good (w₀.ds p))) := by
  intro w w'
  have h := Cache.cache_inv_reachable c hinj w₀ es (Cache.inv_init c h0)
  have hds : w.ds p = w₀.ds p := by show (runEvents c w₀ es).ds p = _; rw [runEvents_ds]
  have := later_load_succeeds c hinj w h p even r rest fuel hfuel hpc
  refine ⟨?_, ?_⟩
  · rw [← hds]; exact this.1
  · rw [← hds]; exact this.2.1

/-! ## 4. The retry bound

`fs` is the list of transient failures (`URLError` / `TimeoutError`), `k = fs.length`.  The trace
of the retry loop is `retryTrace k left = [fetching (left-1), …, fetching (left-k)]`. -/

/-- `k ≤ left` failures are absorbed; the pinned payload that follows is cached and returned,
after exactly `k + 1` download attempts -/
theorem retry_absorbed_good (w : World) (p left : Nat) (fs rest : List Net) (fuel : Nat)
    (hpc : w.pc p = .fetching left) (hfs : ∀ a ∈ fs, a = Net.urlError ∨ a = Net.timeout)
    (hk : fs.length ≤ left) (hfuel : fs.length + 10 ≤ fuel) :
    let r := runSolo c fuel w p (fs ++ .payload (c.good (w.ds p)) :: rest)
    r.1.pc p = .done (c.parse (c.good (w.ds p))) ∧
    r.1.entry (c.slotOf (w.ds p)) = some (c.parse (c.good (w.ds p))) ∧
    r.2 = retryTrace fs.length left ++ .fetched (c.good (w.ds p)) :: goodTail c (w.ds p) ∧
    downloads (w.pc p) r.2 = fs.length + 1 := by
  intro r
  have hfs' : ∀ a ∈ fs, isFail a = true := fun a ha => by rcases hfs a ha with h | h <;> rw [h] <;> rfl
  have hr : r = _ := solo_fetch_good c fs rest hpc hfs' hk (by omega)
  rw [hr]
  refine ⟨by simp, by simp, rfl, ?_⟩
  rw [hpc]
  exact downloads_retry _ _ _ (by simp [goodTail, PC.isFetching])

/-- `k ≤ left` failures are absorbed; a payload with another SHA-256 that follows raises `OSError`
and nothing is cached -/
theorem retry_absorbed_bad (w : World) (p left : Nat) (b : Bytes) (fs rest : List Net) (fuel : Nat)
    (hpc : w.pc p = .fetching left) (hb : b ≠ c.good (w.ds p))
    (hfs : ∀ a ∈ fs, a = Net.urlError ∨ a = Net.timeout)
    (hk : fs.length ≤ left) (hfuel : fs.length + 10 ≤ fuel) :
    let r := runSolo c fuel w p (fs ++ .payload b :: rest)
    r.1.pc p = .failed .osError ∧ r.1.entry = w.entry ∧
    r.2 = retryTrace fs.length left ++ [.fetched b, .failed .osError] ∧
    downloads (w.pc p) r.2 = fs.length + 1 := by
  intro r
  have hfs' : ∀ a ∈ fs, isFail a = true := fun a ha => by rcases hfs a ha with h | h <;> rw [h] <;> rfl
  have hr : r = _ := solo_fetch_bad c fs rest hpc hb hfs' hk (by omega)
  rw [hr]
  refine ⟨by simp, by simp, rfl, ?_⟩
  rw [hpc]
  exact downloads_retry _ _ _ (by simp [PC.isFetching])

/-- `left + 1` failures: the LAST one is re-raised, after exactly `left + 1` download attempts
(every step of the run is one), and nothing is cached -/
theorem retry_exhausted (w : World) (p left : Nat) (a : Net) (fs rest : List Net) (fuel : Nat)
    (hpc : w.pc p = .fetching left) (hfs : ∀ a ∈ fs, a = Net.urlError ∨ a = Net.timeout)
    (hk : fs.length = left) (hfuel : left + 10 ≤ fuel) :
    let r := runSolo c fuel w p (fs ++ a :: rest)
    (a = .urlError → r.1.pc p = .failed .urlError) ∧
    (a = .timeout → r.1.pc p = .failed .timeoutError) ∧
    (a = .urlError ∨ a = .timeout →
      r.1.entry = w.entry ∧ r.2.length = left + 1 ∧ downloads (w.pc p) r.2 = left + 1) := by
  intro r
  have hfs' : ∀ a ∈ fs, isFail a = true := fun a ha => by rcases hfs a ha with h | h <;> rw [h] <;> rfl
  have key : isFail a = true → r = _ := fun ha =>
    solo_fetch_exhausted c fs rest hpc hfs' ha hk (by omega)
  refine ⟨fun h => ?_, fun h => ?_, fun h => ?_⟩
  · rw [key (by rw [h]; rfl), h]; simp [errOf]
  · rw [key (by rw [h]; rfl), h]; simp [errOf]
  · rw [key (by rcases h with h | h <;> rw [h] <;> rfl)]
    refine ⟨by simp, by simp, ?_⟩
    rw [hpc]
    exact downloads_retry _ _ _ (by simp [PC.isFetching])

/-- any other exception propagates at once, however many retries remain -/
theorem retry_other_immediate (w : World) (p left : Nat) (fs rest : List Net) (fuel : Nat)
    (hpc : w.pc p = .fetching left) (hfs : ∀ a ∈ fs, a = Net.urlError ∨ a = Net.timeout)
    (hk : fs.length ≤ left) (hfuel : fs.length + 10 ≤ fuel) :
    let r := runSolo c fuel w p (fs ++ .other :: rest)
    r.1.pc p = .failed .typeError ∧ r.1.entry = w.entry ∧
    downloads (w.pc p) r.2 = fs.length + 1 := by
  intro r
  have hfs' : ∀ a ∈ fs, isFail a = true := fun a ha => by rcases hfs a ha with h | h <;> rw [h] <;> rfl
  have hr : r = _ := solo_fetch_other c fs rest hpc hfs' hk (by omega)
  rw [hr]
  refine ⟨by simp, by simp, ?_⟩
  rw [hpc]
  exact downloads_retry _ _ _ (by simp [PC.isFetching])

/-- the same bound for a whole load: from `init true _ retries` with the entry absent the first
step enters `fetching retries` (it is no download attempt), then the loop above runs -/
theorem retry_bound (w : World) (p retries : Nat) (even : Bool) (fs rest : List Net) (fuel : Nat)
    (hpc : w.pc p = .init true even retries) (he : w.entry (c.slotOf (w.ds p)) = none)
    (hfs : ∀ a ∈ fs, a = Net.urlError ∨ a = Net.timeout) (hfuel : fs.length + 11 ≤ fuel) :
    -- absorbed, pinned payload
    (fs.length ≤ retries →
      let r := runSolo c fuel w p (fs ++ .payload (c.good (w.ds p)) :: rest)
      r.1.pc p = .done (c.parse (c.good (w.ds p))) ∧
      r.1.entry (c.slotOf (w.ds p)) = some (c.parse (c.good (w.ds p))) ∧
      downloads (w.pc p) r.2 = fs.length + 1) ∧
    -- absorbed, wrong payload
    (fs.length ≤ retries → ∀ b, b ≠ c.good (w.ds p) →
      let r := runSolo c fuel w p (fs ++ .payload b :: rest)
      r.1.pc p = .failed .osError ∧ r.1.entry = w.entry ∧
      downloads (w.pc p) r.2 = fs.length + 1) ∧
    -- one failure too many: the last failure is re-raised after `retries + 1` attempts
    (fs.length = retries → ∀ a,
      let r := runSolo c fuel w p (fs ++ a :: rest)
      (a = .urlError → r.1.pc p = .failed .urlError) ∧
      (a = .timeout → r.1.pc p = .failed .timeoutError) ∧
      (a = .urlError ∨ a = .timeout →
        r.1.entry = w.entry ∧ downloads (w.pc p) r.2 = retries + 1)) ∧
    -- an uncaught exception
    (fs.length ≤ retries →
      let r := runSolo c fuel w p (fs ++ .other :: rest)
      r.1.pc p = .failed .typeError ∧ r.1.entry = w.entry ∧
      downloads (w.pc p) r.2 = fs.length + 1) := by
  have hc : ((true && !(w.entry (c.slotOf (w.ds p))).isSome)
      || (true && even && (w.entry (c.slotOf (w.ds p))).isSome)) = true := by simp [he]
  have hstart : ∀ s, runSolo c fuel w p s =
      ((runSolo c (fuel - 1) (setPC w p (.fetching retries)) p s).1,
        .fetching retries :: (runSolo c (fuel - 1) (setPC w p (.fetching retries)) p s).2) :=
    fun s => solo_init_fetch c s hpc hc (by omega)
  have hdl : ∀ t : List PC, downloads (w.pc p) (.fetching retries :: t)
      = downloads (.fetching retries) t := by
    intro t; simp [downloads, hpc, PC.isFetching]
  have hp' : (setPC w p (.fetching retries)).pc p = .fetching retries := setPC_pc_self _ _ _
  refine ⟨fun hk => ?_, fun hk b hb => ?_, fun hk a => ?_, fun hk => ?_⟩
  · intro r
    have := retry_absorbed_good c (setPC w p (.fetching retries)) p retries fs rest (fuel - 1)
      hp' hfs hk (by omega)
    simp only [setPC_ds, hp'] at this
    show (runSolo c fuel w p _).1.pc p = _ ∧ (runSolo c fuel w p _).1.entry _ = _ ∧
      downloads _ (runSolo c fuel w p _).2 = _
    rw [hstart, hdl]
    exact ⟨this.1, this.2.1, this.2.2.2⟩
  · intro r
    have := retry_absorbed_bad c (setPC w p (.fetching retries)) p retries b fs rest (fuel - 1)
      hp' (by simpa using hb) hfs hk (by omega)
    simp only [hp', setPC_entry] at this
    show (runSolo c fuel w p _).1.pc p = _ ∧ (runSolo c fuel w p _).1.entry = _ ∧
      downloads _ (runSolo c fuel w p _).2 = _
    rw [hstart, hdl]
    exact ⟨this.1, this.2.1, this.2.2.2⟩
  · intro r
    have := retry_exhausted c (setPC w p (.fetching retries)) p retries a fs rest (fuel - 1)
      hp' hfs hk (by omega)
    simp only [hp', setPC_entry] at this
    show ((a = .urlError → (runSolo c fuel w p _).1.pc p = _) ∧
      (a = .timeout → (runSolo c fuel w p _).1.pc p = _) ∧
      (a = .urlError ∨ a = .timeout → (runSolo c fuel w p _).1.entry = _ ∧
        downloads _ (runSolo c fuel w p _).2 = _))
    rw [hstart, hdl]
    exact ⟨this.1, this.2.1, fun h => ⟨(this.2.2 h).1, (this.2.2 h).2.2⟩⟩
  · intro r
    have := retry_other_immediate c (setPC w p (.fetching retries)) p retries fs rest (fuel - 1)
      hp' hfs hk (by omega)
    simp only [hp', setPC_entry] at this
    show (runSolo c fuel w p _).1.pc p = _ ∧ (runSolo c fuel w p _).1.entry = _ ∧
      downloads _ (runSolo c fuel w p _).2 = _
    rw [hstart, hdl]
    exact this

/-! ## 8. What is returned for one dataset does not depend on other loads -/

/-- a step of `p` writes at most the slot of `p`'s own dataset -/
theorem step_entry_other (w : World) (p : Nat) (net : Net) (s : Nat)
    (hs : s ≠ c.slotOf (w.ds p)) : (step c w p net).entry s = w.entry s :=
  Cache.step_entry_other c w p net hs

/-- loading `p`'s dataset first changes neither the result, nor the trace (in particular the
number of download attempts), nor the resulting entry of a load of `q`'s dataset — for all flags,
scripts and fuels of both loads -/
theorem order_independent (hinj : Function.Injective c.slotOf) (w : World) (p q : Nat)
    (hpq : p ≠ q) (hd : w.ds p ≠ w.ds q) (f₁ f₂ : Nat) (s₁ s₂ : List Net) :
    let w' := (runSolo c f₁ w p s₁).1
    (runSolo c f₂ w' q s₂).1.pc q = (runSolo c f₂ w q s₂).1.pc q ∧
    (runSolo c f₂ w' q s₂).2 = (runSolo c f₂ w q s₂).2 ∧
    (runSolo c f₂ w' q s₂).1.entry (c.slotOf (w.ds q))
      = (runSolo c f₂ w q s₂).1.entry (c.slotOf (w.ds q)) := by
  intro w'
  obtain ⟨hds, hpc, hen⟩ := runSolo_frame c (p := p) f₁ w s₁
  have hsim : Sim c q w' w := by
    refine ⟨hpc q (Ne.symm hpq), by rw [hds], ?_⟩
    rw [hds]
    exact hen _ (fun h => hd (hinj h).symm)
  obtain ⟨⟨h1, h2, h3⟩, h4⟩ := runSolo_congr c (q := q) f₂ w' w s₂ hsim
  refine ⟨h1, h4, ?_⟩
  have e1 : (runSolo c f₂ w' q s₂).1.ds q = w.ds q := by
    rw [(runSolo_frame c (p := q) f₂ w' s₂).1, hds]
  have e2 : (runSolo c f₂ w q s₂).1.ds q = w.ds q := by
    rw [(runSolo_frame c (p := q) f₂ w s₂).1]
  rw [e1, e2] at h3
  exact h3

/-- both orders of the two loads give both loaders the same results -/
theorem order_independent_both (hinj : Function.Injective c.slotOf) (w : World) (p q : Nat)
    (hpq : p ≠ q) (hd : w.ds p ≠ w.ds q) (f₁ f₂ : Nat) (s₁ s₂ : List Net) :
    let pq := (runSolo c f₂ (runSolo c f₁ w p s₁).1 q s₂).1
    let qp := (runSolo c f₁ (runSolo c f₂ w q s₂).1 p s₁).1
    pq.pc p = qp.pc p ∧ pq.pc q = qp.pc q := by
  intro pq qp
  have hA := (order_independent c hinj w p q hpq hd f₁ f₂ s₁ s₂).1
  have hB := (order_independent c hinj w q p (Ne.symm hpq) (Ne.symm hd) f₂ f₁ s₂ s₁).1
  have fA := (runSolo_frame c (p := q) f₂ (runSolo c f₁ w p s₁).1 s₂).2.1 p hpq
  have fB := (runSolo_frame c (p := p) f₁ (runSolo c f₂ w q s₂).1 s₁).2.1 q (Ne.symm hpq)
  exact ⟨by show pq.pc p = qp.pc p; rw [fA, hB], by show pq.pc q = qp.pc q; rw [fB, hA]⟩

/-! ### The negative companion: with a shared slot the results cross -/

/-- every dataset in slot `0`: `slotOf` is not injective -/
def cShared : Cfg := { slotOf := fun _ => 0, good := fun d => 10 + d, parse := fun b => 100 + b }

/-- loader `0` loads dataset `1`, loader `1` loads dataset `2`; default flags, 3 retries -/
def wShared : World :=
  { entry := fun _ => none, ds := fun p => p + 1, pc := fun _ => .init true false 3 }

/-- loading dataset 1 and then dataset 2 (entry present, default flags) returns dataset 1's data
for dataset 2; loaded alone, dataset 2's own data is returned.  (The pinned package has this
defect for one pair of datasets, see C18.) -/
theorem shared_slot_crosses :
    ∃ (c : Cfg) (w : World) (p q : Nat) (s₁ s₂ : List Net) (f : Nat),
      Init w ∧ p ≠ q ∧ w.ds p ≠ w.ds q ∧ c.slotOf (w.ds p) = c.slotOf (w.ds q) ∧
      c.parse (c.good (w.ds p)) ≠ c.parse (c.good (w.ds q)) ∧
      (runSolo c f w q s₂).1.pc q = .done (c.parse (c.good (w.ds q))) ∧
      (runSolo c f (runSolo c f w p s₁).1 q s₂).1.pc q = .done (c.parse (c.good (w.ds p))) :=
  ⟨cShared, wShared, 0, 1, [.payload 11], [.payload 12], 12,
    ⟨fun _ => rfl, fun _ => ⟨_, _, _, rfl⟩⟩, by decide, by decide, rfl, by decide,
    by decide, by decide⟩

/-! ## Non-vacuity -/

/-- dataset `d` has slot `d`, pinned payload `10 + d`, parses to `100 + payload` -/
def c₀ : Cfg := { slotOf := fun d => d, good := fun d => 10 + d, parse := fun b => 100 + b }

theorem c₀_inj : Function.Injective c₀.slotOf := fun _ _ h => h

/-- loaders 0, 1 and 3 load dataset 7, every other loader `p` loads dataset `p` -/
def w₀ : World :=
  { entry := fun _ => none,
    ds := fun p => if p = 0 ∨ p = 1 ∨ p = 3 then 7 else p,
    pc := fun p => if p = 2 then .init false false 0 else .init true false 3 }

theorem w₀_init : Init w₀ := by
  refine ⟨fun _ => rfl, fun p => ?_⟩
  by_cases h : p = 2
  · exact ⟨false, false, 0, by simp [w₀, h]⟩
  · exact ⟨true, false, 3, by simp [w₀, h]⟩

/-- two concurrent loaders of dataset 7: loader 0 suffers a transient failure, downloads the
pinned payload and is killed inside `pickle.dump`; loader 1 downloads a corrupted payload -/
def history : List Event :=
  [.run 0 .other, .run 1 .other, .run 0 .urlError, .run 0 (.payload 17), .run 0 .other,
   .run 0 .other, .run 0 .other, .kill 0, .run 1 (.payload 99), .run 1 .other, .run 0 .other]

example : (runEvents c₀ w₀ (history.take 7)).pc 0 = .dumping 117 := by decide
example : (runEvents c₀ w₀ history).pc 0 = .crashed := by decide
example : (runEvents c₀ w₀ history).pc 1 = .failed .osError := by decide
example : (runEvents c₀ w₀ history).entry 7 = none := by decide
/-- offline loader 2 finds nothing -/
example : (runEvents c₀ w₀ (history ++ [.run 2 .other])).pc 2 = .failed .osError := by decide

/-- afterwards loader 3 loads dataset 7 alone: one download, verified data cached and returned -/
example : (runSolo c₀ 12 (runEvents c₀ w₀ history) 3 [.payload 17]).1.pc 3 = .done 117 := by decide
example : (runSolo c₀ 12 (runEvents c₀ w₀ history) 3 [.payload 17]).1.entry 7 = some 117 := by
  decide
/-- and loader 4 (dataset 4) then hits nothing of it -/
example :
    (runSolo c₀ 12 (runSolo c₀ 12 (runEvents c₀ w₀ history) 3 [.payload 17]).1 4 [.payload 14]).1.pc 4
      = .done 114 := by decide

/-- the hypotheses of the general theorems are satisfiable: instances on the concrete history -/
example : (runEvents c₀ w₀ history).entry (c₀.slotOf 7) = none ∨
    (runEvents c₀ w₀ history).entry (c₀.slotOf 7) = some (c₀.parse (c₀.good 7)) :=
  entry_absent_or_complete c₀ c₀_inj w₀ w₀_init history 7

example : CacheInv c₀ (runEvents c₀ w₀ history) :=
  cache_inv_reachable c₀ c₀_inj w₀ history (inv_init c₀ w₀ w₀_init)

/-- retry bound, concretely: 3 retries absorb 3 failures; a 4th one is re-raised -/
example : (runSolo c₀ 20 w₀ 0 [.urlError, .timeout, .urlError, .payload 17]).1.pc 0 = .done 117 := by
  decide
example : (runSolo c₀ 20 w₀ 0 [.urlError, .timeout, .urlError, .timeout, .payload 17]).1.pc 0
    = .failed .timeoutError := by decide
example : downloads (w₀.pc 0)
    (runSolo c₀ 20 w₀ 0 [.urlError, .timeout, .urlError, .timeout, .payload 17]).2 = 4 := by decide

end C19
end TWV
