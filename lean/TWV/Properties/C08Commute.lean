import TWV.Lemmas.Pipeline
import TWV.Lemmas.Weaver
import TWV.Properties.C07

/-!
# C08, last clause — shifting / scaling commutes with the recreate + match pipeline

"… and shifting or scaling commutes with the recreate + match pipeline."

Formalised at three levels:

1. **the stretching kernel** (`_integral_matching_stretch`): for `y ↦ a y + b` the reference
   integral of the window maps to `a I + b (x_N - x_0)` (the integral of the constant `b` over the
   window, for both rules), and `stretch` commutes (`stretch_shift_scale_y`); for `x ↦ c x + d`,
   `c > 0`, the integrals scale by `c` and `stretch` does not change (`stretch_shift_scale_x`);
2. **the interval loop** for an arbitrary list of windows (`loop_shift_scale_y`,
   `loop_shift_scale_x`);
3. **the match** under the hypotheses of C01 theorem 6 (`MatchHyp`):
   `matchRef_shift_scale_y_of_windows`, `matchRef_shift_scale_x_of_windows`, and **the pipeline**:
   on the recreated grid `gridL x n`, matching `a z + b` against the reference `(x, a y + b)`
   gives `a · (matching z against (x, y)) + b` (`pipeline_commutes_scaleY_shiftY`, every `a`, `b`);
   matching on the grid of `c x + d` against the reference `(c x + d, y)` gives the same values
   (`pipeline_commutes_scaleX_shiftX`, `c > 0`);
4. **the `Weaver` state machine**: with `C07.rfa_affine_y` / `C07.rfa_affine_x` (recreate
   commutes; `recreated_shift_scale_y`, `recreated_shift_scale_x`),
   `scale_y; shift_y; recreate; integral_match` ends in the same state as
   `recreate; integral_match; scale_y; shift_y` (`weaver_pipeline_commutes_y`), and likewise for
   `scale_x` (`c > 0`), `shift_x` (`weaver_pipeline_commutes_x`).  The `recreate` operation of
   the model carries its transition windows, so the adaptive strategies are covered for *given*
   windows; that the adaptive windows themselves are invariant for `a ≠ 0` is
   `C07.windowsAdaptive_affine_y`.

**Findings.**  `c > 0` is needed for the time axis already at the level of the weights (absolute
value; counterexample with `c = -1` in the examples).  For the values no condition on `a` is
needed at any level (given windows).  All list-level statements need that only the samples inside
the arrays are read (`loop_congr`, `loop_congr_x`, `outY_congr`, `outY_congr_x`): outside its
range a list reads as `0`, which is not mapped to `b` resp. `d`.

**Remark on denominators.**  `stretch_shift_scale_y` and `stretch_shift_scale_x` are identities
between fractions with the *same* denominator `stretchDenom` (resp. `c ·` it), like
`C03.stretch_linear`; no division is cancelled, so they hold without a hypothesis on the window.
Where the denominator matters (the pipeline statements: `matchRef` tests it and returns `none`
for a zero denominator) the hypotheses `PowLike pw`, strictly increasing `x`, `n ≥ 2` are carried
and make it positive (`stretchDenom_pos`).
-/

set_option linter.unusedSectionVars false
set_option linter.unusedVariables false

open Finset

namespace TWV.C08Commute
open TWV

variable {K : Type} [Field K] [LinearOrder K] [IsStrictOrderedRing K]

/-! ## 1. The kernel -/

section Kernel

/-- the integral of the constant `1` over a window is its width, for both rules -/
theorem integralSum_one (r : Rule) (N : ℕ) (x : ℕ → K) :
    integralSum r N x (fun _ => 1) = x N - x 0 := by
  induction N with
  | zero => simp [integralSum, sumTo]
  | succ N ih =>
    have h : integralSum r (N + 1) x (fun _ => 1)
        = integralSum r N x (fun _ => 1) + integralAt r x (fun _ => 1) N := rfl
    rw [h, ih]
    cases r <;> simp only [integralAt, two_eq] <;> ring

/-- integrals under `y ↦ a y + b` -/
theorem integralSum_affine_y (r : Rule) (N : ℕ) (x y : ℕ → K) (a b : K) :
    integralSum r N x (fun i => a * y i + b) = a * integralSum r N x y + b * (x N - x 0) := by
  have h := integralSum_lin r N x y (fun _ => 1) a b
  simp only [mul_one] at h
  rw [h, integralSum_one]

/-- `ŷ` under `y ↦ a y + b`, `I ↦ a I + b (x_N - x_0)`: scaled by `a` (the shift cancels) -/
theorem yhat_shift_scale_y (r : Rule) (pw : K → K) (N : ℕ) (x y : ℕ → K) (I a b : K) :
    yhat r pw N x (fun i => a * y i + b) (a * I + b * (x N - x 0)) = a * yhat r pw N x y I := by
  cases r <;> simp only [yhat, integralSum_affine_y, two_eq] <;> ring

/-- **the kernel commutes with `y ↦ a y + b`** when the target integral is mapped along -/
theorem stretch_shift_scale_y (r : Rule) (pw : K → K) (N : ℕ) (x y : ℕ → K) (I a b : K) (i : ℕ) :
    stretch r pw N x (fun i => a * y i + b) (a * I + b * (x N - x 0)) i
      = a * stretch r pw N x y I i + b := by
  unfold stretch
  rw [yhat_shift_scale_y]
  ring

/-- the weights only see ratios of differences of abscissae; `c > 0` because of the absolute
value (for `c < 0` the argument of `pw` changes sign) -/
theorem weight_affine_x (pw : K → K) (N : ℕ) (x : ℕ → K) (c d : K) (hc : 0 < c) (i : ℕ) :
    weight pw N (fun j => c * x j + d) i = weight pw N x i := by
  unfold weight
  split_ifs with h
  · rfl
  · simp only [two_eq, absK_eq]
    have e1 : (c * x N + d + (c * x 0 + d)) / 2 - (c * x i + d) = c * ((x N + x 0) / 2 - x i) := by
      ring
    have e2 : c * x N + d - (c * x 0 + d) = c * (x N - x 0) := by ring
    rw [e1, e2, abs_mul, abs_of_pos hc, ← mul_assoc, mul_comm 2 c, mul_assoc,
      mul_div_mul_left _ _ hc.ne']

theorem stretchDenom_affine_x (r : Rule) (pw : K → K) (N : ℕ) (x : ℕ → K) (c d : K) (hc : 0 < c) :
    stretchDenom r pw N (fun j => c * x j + d) = c * stretchDenom r pw N x := by
  cases r <;>
  · simp only [stretchDenom, sumTo_eq_sum, weight_affine_x pw N x c d hc, mul_sum]
    apply sum_congr rfl
    intro j _
    ring

theorem integralSum_affine_x (r : Rule) (N : ℕ) (x y : ℕ → K) (c d : K) :
    integralSum r N (fun j => c * x j + d) y = c * integralSum r N x y := by
  simp only [integralSum_eq_sum, mul_sum]
  apply sum_congr rfl
  intro j _
  cases r <;> simp only [integralAt, two_eq] <;> ring

theorem yhat_shift_scale_x (r : Rule) (pw : K → K) (N : ℕ) (x y : ℕ → K) (I c d : K) (hc : 0 < c) :
    yhat r pw N (fun j => c * x j + d) y (c * I) = yhat r pw N x y I := by
  cases r
  · simp only [yhat, integralSum_affine_x, stretchDenom_affine_x _ pw N x c d hc, two_eq]
    rw [show 2 * (c * I - c * integralSum .trapezoid N x y)
      = c * (2 * (I - integralSum .trapezoid N x y)) by ring, mul_div_mul_left _ _ hc.ne']
  · simp only [yhat, integralSum_affine_x, stretchDenom_affine_x _ pw N x c d hc]
    rw [show c * I - c * integralSum .rectangle N x y
      = c * (I - integralSum .rectangle N x y) by ring, mul_div_mul_left _ _ hc.ne']

/-- **the kernel is invariant under `x ↦ c x + d`, `c > 0`**, when the target integral is scaled
by `c` -/
theorem stretch_shift_scale_x (r : Rule) (pw : K → K) (N : ℕ) (x y : ℕ → K) (I c d : K)
    (hc : 0 < c) (i : ℕ) :
    stretch r pw N (fun j => c * x j + d) y (c * I) i = stretch r pw N x y I i := by
  unfold stretch
  rw [yhat_shift_scale_x r pw N x y I c d hc, weight_affine_x pw N x c d hc]

/-- in the non-degenerate case the common denominator of both sides is positive -/
theorem stretch_denominators_pos (r : Rule) (pw : K → K) (hp : PowLike pw) (N : ℕ) (x : ℕ → K)
    (hx : StrictIncr N x) (hN : 1 ≤ N) (c d : K) (hc : 0 < c) :
    0 < stretchDenom r pw N x ∧ 0 < stretchDenom r pw N (fun j => c * x j + d) := by
  have h := stretchDenom_pos r pw hp N x hx hN
  exact ⟨h, by rw [stretchDenom_affine_x r pw N x c d hc]; exact mul_pos hc h⟩

end Kernel

/-! ## 2. The interval loop -/

section Loop

/-- the windows with the target integrals mapped along `y ↦ a y + b` -/
def mapWinY (x : ℕ → K) (a b : K) (ws : List (ℕ × ℕ × K)) : List (ℕ × ℕ × K) :=
  ws.map (fun w => (w.1, w.2.1, a * w.2.2 + b * (x w.2.1 - x w.1)))

/-- the windows with the target integrals mapped along `x ↦ c x + d` -/
def mapWinX (c : K) (ws : List (ℕ × ℕ × K)) : List (ℕ × ℕ × K) :=
  ws.map (fun w => (w.1, w.2.1, c * w.2.2))

theorem upd_shift_scale_y (r : Rule) (pw : K → K) (x y : ℕ → K) (s e : ℕ) (I a b : K) :
    upd r pw x (fun j => a * y j + b) s e (a * I + b * (x e - x s))
      = fun j => a * upd r pw x y s e I j + b := by
  funext j
  unfold upd
  split_ifs with h
  · have hse : s ≤ e := by omega
    have e1 : win (fun j => a * y j + b) s = fun i => a * win y s i + b := rfl
    have e2 : x e - x s = win x s (e - s) - win x s 0 := by
      simp only [win_apply]
      rw [Nat.add_sub_cancel' hse, Nat.add_zero]
    rw [e1, e2, stretch_shift_scale_y]
  · rfl

/-- **the loop commutes with `y ↦ a y + b`** for every list of windows -/
theorem loop_shift_scale_y (r : Rule) (pw : K → K) (x : ℕ → K) (a b : K) :
    ∀ (ws : List (ℕ × ℕ × K)) (y : ℕ → K),
      loop r pw x (mapWinY x a b ws) (fun j => a * y j + b)
        = fun j => a * loop r pw x ws y j + b
  | [], y => rfl
  | (s, e, I) :: ws, y => by
    show loop r pw x (mapWinY x a b ws)
      (upd r pw x (fun j => a * y j + b) s e (a * I + b * (x e - x s))) = _
    rw [upd_shift_scale_y]
    exact loop_shift_scale_y r pw x a b ws _

theorem upd_shift_scale_x (r : Rule) (pw : K → K) (x y : ℕ → K) (s e : ℕ) (I c d : K)
    (hc : 0 < c) :
    upd r pw (fun j => c * x j + d) y s e (c * I) = upd r pw x y s e I := by
  funext j
  unfold upd
  split_ifs with h
  · have e1 : win (fun j => c * x j + d) s = fun i => c * win x s i + d := rfl
    rw [e1, stretch_shift_scale_x _ _ _ _ _ _ _ _ hc]
  · rfl

/-- **the loop is invariant under `x ↦ c x + d`, `c > 0`** (target integrals scaled by `c`) -/
theorem loop_shift_scale_x (r : Rule) (pw : K → K) (x : ℕ → K) (c d : K) (hc : 0 < c) :
    ∀ (ws : List (ℕ × ℕ × K)) (y : ℕ → K),
      loop r pw (fun j => c * x j + d) (mapWinX c ws) y = loop r pw x ws y
  | [], y => rfl
  | (s, e, I) :: ws, y => by
    show loop r pw (fun j => c * x j + d) (mapWinX c ws)
      (upd r pw (fun j => c * x j + d) y s e (c * I)) = _
    rw [upd_shift_scale_x r pw x y s e I c d hc]
    exact loop_shift_scale_x r pw x c d hc ws _

/-- the mapped windows form a chain iff the original ones do (same index pairs): the loop
statements above are used on the chains of `matchRef` -/
theorem chain_mapWinY (x : ℕ → K) (a b : K) :
    ∀ (ws : List (ℕ × ℕ × K)) (lo : ℕ), Chain x lo ws → Chain x lo (mapWinY x a b ws)
  | [], _, _ => trivial
  | (s, e, I) :: ws, lo, ⟨h1, h2, h3, h4⟩ => ⟨h1, h2, h3, chain_mapWinY x a b ws e h4⟩

/-! ### the loop only reads the samples up to the last window -/

theorem stretch_congr (r : Rule) (pw : K → K) (N : ℕ) (x y y' : ℕ → K) (I : K) (i : ℕ)
    (h : ∀ k, k ≤ N → y k = y' k) (hi : i ≤ N) :
    stretch r pw N x y I i = stretch r pw N x y' I i := by
  have hs := integralSum_congr r N x y y' h
  cases r <;> simp only [stretch, yhat, hs, h i hi]

theorem upd_congr (r : Rule) (pw : K → K) (x y y' : ℕ → K) (s e : ℕ) (I : K) (L : ℕ) (he : e < L)
    (h : ∀ j, j < L → y j = y' j) : ∀ j, j < L → upd r pw x y s e I j = upd r pw x y' s e I j := by
  intro j hj
  unfold upd
  split_ifs with hc
  · apply stretch_congr
    · intro k hk
      simp only [win_apply]
      exact h _ (by omega)
    · omega
  · exact h j hj

theorem loop_congr (r : Rule) (pw : K → K) (x : ℕ → K) (L : ℕ) :
    ∀ (ws : List (ℕ × ℕ × K)) (y y' : ℕ → K), (∀ w ∈ ws, w.2.1 < L) →
      (∀ j, j < L → y j = y' j) → ∀ j, j < L → loop r pw x ws y j = loop r pw x ws y' j
  | [], y, y', _, h => h
  | (s, e, I) :: ws, y, y', hw, h => by
    show ∀ j, j < L → loop r pw x ws (upd r pw x y s e I) j = loop r pw x ws (upd r pw x y' s e I) j
    exact loop_congr r pw x L ws _ _ (fun w hm => hw w (List.mem_cons_of_mem _ hm))
      (upd_congr r pw x y y' s e I L (hw (s, e, I) List.mem_cons_self) h)

/-! ### … and the abscissae up to the last window -/

theorem weight_congr_x (pw : K → K) (N : ℕ) (x x' : ℕ → K) (i : ℕ) (h : ∀ k, k ≤ N → x k = x' k)
    (hi : i ≤ N) : weight pw N x i = weight pw N x' i := by
  unfold weight
  rw [h N le_rfl, h 0 (Nat.zero_le _), h i hi]

theorem stretchDenom_congr_x (r : Rule) (pw : K → K) (N : ℕ) (x x' : ℕ → K)
    (h : ∀ k, k ≤ N → x k = x' k) : stretchDenom r pw N x = stretchDenom r pw N x' := by
  cases r <;>
  · simp only [stretchDenom, sumTo_eq_sum]
    apply sum_congr rfl
    intro j hj
    have hj' : j < N := mem_range.mp hj
    rw [weight_congr_x pw N x x' j h (by omega), h (j + 1) (by omega), h j (by omega)]
    try rw [weight_congr_x pw N x x' (j + 1) h (by omega)]

theorem integralSum_congr_x (r : Rule) (N : ℕ) (x x' y : ℕ → K) (h : ∀ k, k ≤ N → x k = x' k) :
    integralSum r N x y = integralSum r N x' y := by
  simp only [integralSum_eq_sum]
  apply sum_congr rfl
  intro j hj
  have hj' : j < N := mem_range.mp hj
  cases r <;> simp only [integralAt, h (j + 1) (by omega), h j (by omega)]

theorem stretch_congr_x (r : Rule) (pw : K → K) (N : ℕ) (x x' y : ℕ → K) (I : K) (i : ℕ)
    (h : ∀ k, k ≤ N → x k = x' k) (hi : i ≤ N) :
    stretch r pw N x y I i = stretch r pw N x' y I i := by
  have h1 := integralSum_congr_x r N x x' y h
  have h2 := stretchDenom_congr_x r pw N x x' h
  have h3 := weight_congr_x pw N x x' i h hi
  cases r <;> simp only [stretch, yhat, h1, h2, h3]

theorem upd_congr_x (r : Rule) (pw : K → K) (x x' y : ℕ → K) (s e : ℕ) (I : K) (L : ℕ) (he : e < L)
    (h : ∀ j, j < L → x j = x' j) : upd r pw x y s e I = upd r pw x' y s e I := by
  funext j
  unfold upd
  split_ifs with hc
  · apply stretch_congr_x
    · intro k hk
      simp only [win_apply]
      exact h _ (by omega)
    · omega
  · rfl

theorem loop_congr_x (r : Rule) (pw : K → K) (x x' : ℕ → K) (L : ℕ)
    (h : ∀ j, j < L → x j = x' j) :
    ∀ (ws : List (ℕ × ℕ × K)) (y : ℕ → K), (∀ w ∈ ws, w.2.1 < L) →
      loop r pw x ws y = loop r pw x' ws y
  | [], y, _ => rfl
  | (s, e, I) :: ws, y, hw => by
    show loop r pw x ws (upd r pw x y s e I) = loop r pw x' ws (upd r pw x' y s e I)
    rw [upd_congr_x r pw x x' y s e I L (hw (s, e, I) List.mem_cons_self) h]
    exact loop_congr_x r pw x x' L h ws _ (fun w hm => hw w (List.mem_cons_of_mem _ hm))

end Loop

/-! ## 3. The match on a reference whose values are shifted / scaled -/

section Match

theorem arrFn_map_affine (l : List K) (a b : K) (j : ℕ) (hj : j < l.length) :
    arrFn (l.map (fun v => a * v + b)).toArray j = a * arrFn l.toArray j + b := by
  rw [arrFn_toArray _ j (by simpa using hj), arrFn_toArray l j hj, List.getElem_map]

variable {x xref : List K} {fpx : Option (List K)} {fpi : Option (List ℕ)}
  {strategy target refRule : String} {fp : FixedPoints K} {tr rr : Rule}

/-- **`matchRef` commutes with `y ↦ a y + b`** as soon as the reference integrals of the windows
are mapped along (`hW`; this is a statement about the reference alone: the fixed points do not
depend on the values).  Hypotheses as in C01 theorem 6 (`MatchHyp`). -/
theorem matchRef_shift_scale_y_of_windows
    (H : MatchHyp x xref fpx fpi strategy target refRule fp tr rr) (pw : K → K) (hp : PowLike pw)
    (y yref yref' : List K) (hy : y.length = x.length) (a b : K)
    (hW : refWindows rr xref yref' fp
      = mapWinY (arrFn x.toArray) a b (refWindows rr xref yref fp)) :
    ∃ z, matchRef pw x y xref yref fpx fpi strategy target refRule = .ok (some z) ∧
      matchRef pw x (y.map (fun v => a * v + b)) xref yref' fpx fpi strategy target refRule
        = .ok (some (z.map (fun v => a * v + b))) := by
  obtain ⟨z, h1, h2, h3⟩ := H.result pw hp y yref hy
  obtain ⟨z2, g1, g2, g3⟩ := H.result pw hp (y.map (fun v => a * v + b)) yref'
    (by rw [List.length_map, hy])
  refine ⟨z, h1, ?_⟩
  rw [g1]
  congr 2
  apply list_eq_of_arrFn z2 _ (by rw [List.length_map]; omega)
  intro j
  by_cases hj : j < x.length
  · have hwin : ∀ w ∈ mapWinY (arrFn x.toArray) a b (refWindows rr xref yref fp),
        w.2.1 < x.length := by
      intro w hw
      obtain ⟨w0, hw0, rfl⟩ := List.mem_map.mp hw
      obtain ⟨k, hk, _, hk2⟩ := H.mem_iff yref w0 hw0
      simp only
      rw [hk2]
      exact fixedPoints_idxX_lt H.hfp _ (List.getElem_mem _)
    rw [g3 j, hW, arrFn_map_affine z a b j (by omega), h3 j,
      loop_congr tr pw (arrFn x.toArray) x.length _
        (arrFn (y.map (fun v => a * v + b)).toArray) (fun j => a * arrFn y.toArray j + b) hwin
        (fun j hj => arrFn_map_affine y a b j (by omega)) j hj,
      loop_shift_scale_y]
  · rw [arrFn_of_size_le _ j (by rw [List.size_toArray]; omega),
      arrFn_of_size_le _ j (by rw [List.size_toArray, List.length_map]; omega)]

/-- **`matchRef` is invariant under `x ↦ c x + d`, `c > 0`** (applied to the working and the
reference abscissae) as soon as the two runs determine the same fixed indices and the reference
integrals scale by `c` (`hW`), the working abscissae being mapped along on their range (`hX`) -/
theorem matchRef_shift_scale_x_of_windows {x' xref' : List K} {fp' : FixedPoints K}
    (H : MatchHyp x xref fpx fpi strategy target refRule fp tr rr)
    (H' : MatchHyp x' xref' fpx fpi strategy target refRule fp' tr rr)
    (pw : K → K) (hp : PowLike pw) (y yref : List K) (hy : y.length = x.length)
    (hl : x'.length = x.length) (c d : K) (hc : 0 < c)
    (hX : ∀ j, j < x.length → arrFn x'.toArray j = c * arrFn x.toArray j + d)
    (hW : refWindows rr xref' yref fp' = mapWinX c (refWindows rr xref yref fp)) :
    ∃ z, matchRef pw x y xref yref fpx fpi strategy target refRule = .ok (some z) ∧
      matchRef pw x' y xref' yref fpx fpi strategy target refRule = .ok (some z) := by
  obtain ⟨z, h1, h2, h3⟩ := H.result pw hp y yref hy
  obtain ⟨z2, g1, g2, g3⟩ := H'.result pw hp y yref (by omega)
  refine ⟨z, h1, ?_⟩
  rw [g1]
  congr 2
  apply list_eq_of_arrFn z2 z (by omega)
  intro j
  have hwin : ∀ w ∈ mapWinX c (refWindows rr xref yref fp), w.2.1 < x.length := by
    intro w hw
    obtain ⟨w0, hw0, rfl⟩ := List.mem_map.mp hw
    obtain ⟨k, hk, _, hk2⟩ := H.mem_iff yref w0 hw0
    simp only
    rw [hk2]
    exact fixedPoints_idxX_lt H.hfp _ (List.getElem_mem _)
  rw [g3 j, hW, h3 j, loop_congr_x tr pw (arrFn x'.toArray) (fun j => c * arrFn x.toArray j + d)
    x.length hX _ _ hwin, loop_shift_scale_x tr pw _ c d hc]

end Match

/-! ## 4. The pipeline: recreate, then match against the original -/

section Pipeline

/-- the fixed points of the match on the recreated grid (`fixedPoints_on_grid`) -/
def gridFp (x : List K) (n : ℕ) : FixedPoints K :=
  { inX := x, idxX := knots x.length n, idxRef := List.range x.length }

theorem gridHyp (x : List K) (n : ℕ) (s target refRule : String) (tr rr : Rule)
    (hx : x.Pairwise (· < ·)) (hn : 2 ≤ n) (hm : 2 ≤ x.length) (hs : IsStrategy s)
    (htr : Rule.ofString? target = some tr) (hrr : Rule.ofString? refRule = some rr) :
    MatchHyp (gridL x n) x none none s target refRule (gridFp x n) tr rr :=
  ⟨gridL_strictIncr x n hx hn (by omega), fixedPoints_on_grid x n hx hn (by omega) s hs, htr, hrr,
    by simp [gridFp, knots_length], knots_pairwise _ n hn, by simpa [gridFp, knots_length] using hm⟩

/-- on the grid the reference integral of original interval `k` is `integralAt rr x y k`, the
window runs between the knots `k n` and `(k + 1) n`, which carry the original abscissae; hence
shifting / scaling the reference values maps the windows along -/
theorem refWindows_shift_scale_y_on_grid (x y : List K) (n : ℕ) (s target refRule : String)
    (tr rr : Rule) (hx : x.Pairwise (· < ·)) (hn : 2 ≤ n) (hm : 2 ≤ x.length)
    (hy : y.length = x.length) (hs : IsStrategy s) (htr : Rule.ofString? target = some tr)
    (hrr : Rule.ofString? refRule = some rr) (a b : K) :
    refWindows rr x (y.map (fun v => a * v + b)) (gridFp x n)
      = mapWinY (arrFn (gridL x n).toArray) a b (refWindows rr x y (gridFp x n)) := by
  have H := gridHyp x n s target refRule tr rr hx hn hm hs htr hrr
  apply List.ext_getElem?
  intro k
  by_cases hk : k + 1 < x.length
  · have hk' : k + 1 < (gridFp x n).idxX.length := by simpa [gridFp, knots_length] using hk
    rw [H.getElem (y.map (fun v => a * v + b)) k hk', mapWinY, List.getElem?_map,
      H.getElem y k hk', Option.map_some]
    simp only [gridFp, knots_getElem, List.getElem_range, sumRange_succ_self]
    congr 3
    have hX1 : arrFn (gridL x n).toArray ((k + 1) * n) = arrFn x.toArray (k + 1) := by
      rw [arrFn_toArray _ _ (by rw [gridL_length]; exact knot_lt hk), gridL_knot x n (k + 1) hn hk,
        arrFn_toArray x (k + 1) hk]
    have hX0 : arrFn (gridL x n).toArray (k * n) = arrFn x.toArray k := by
      rw [arrFn_toArray _ _ (by rw [gridL_length]; exact knot_lt (by omega)),
        gridL_knot x n k hn (by omega), arrFn_toArray x k (by omega)]
    rw [hX1, hX0,
      integralAt_congr rr _ (arrFn (y.map (fun v => a * v + b)).toArray)
        (fun j => a * arrFn y.toArray j + b * (fun _ => (1 : K)) j) k
        (by simp only [mul_one]; exact arrFn_map_affine y a b k (by omega))
        (by simp only [mul_one]; exact arrFn_map_affine y a b (k + 1) (by omega)),
      integralAt_lin]
    cases rr <;> simp only [integralAt, two_eq] <;> ring
  · have hl1 := H.length (y.map (fun v => a * v + b))
    have hl2 := H.length y
    have hl : (gridFp x n).idxX.length = x.length := by simp [gridFp, knots_length]
    rw [hl] at hl1 hl2
    rw [List.getElem?_eq_none (by omega), List.getElem?_eq_none (by
      rw [mapWinY, List.length_map]; omega)]

/-- **shifting / scaling the values commutes with the match of the pipeline**: on the recreated
grid, for every recreated `z`, matching `a z + b` against the original `(x, a y + b)` succeeds and
gives `a z' + b`, where `z'` is the match of `z` against `(x, y)`.  (No condition on `a`: `a = 0`
is allowed.) -/
theorem pipeline_commutes_scaleY_shiftY (pw : K → K) (hp : PowLike pw) (x y z : List K) (n : ℕ)
    (s target refRule : String) (tr rr : Rule)
    (hx : x.Pairwise (· < ·)) (hn : 2 ≤ n) (hm : 2 ≤ x.length) (hy : y.length = x.length)
    (hz : z.length = (x.length - 1) * n + 1) (hs : IsStrategy s)
    (htr : Rule.ofString? target = some tr) (hrr : Rule.ofString? refRule = some rr) (a b : K) :
    ∃ z', matchRef pw (gridL x n) z x y none none s target refRule = .ok (some z') ∧
      matchRef pw (gridL x n) (z.map (fun v => a * v + b)) x (y.map (fun v => a * v + b))
        none none s target refRule = .ok (some (z'.map (fun v => a * v + b))) :=
  matchRef_shift_scale_y_of_windows (gridHyp x n s target refRule tr rr hx hn hm hs htr hrr) pw hp
    z y _ (by rw [hz, gridL_length]) a b
    (refWindows_shift_scale_y_on_grid x y n s target refRule tr rr hx hn hm hy hs htr hrr a b)

/-! ### the time axis -/

/-- `oversample_linspace` commutes with an affine map of the `m` knots it reads (the last sample
reads `a m` with the factor `0`) -/
theorem oversampleLin_affine_of (a a' : ℕ → K) (c d : K) {m n i : ℕ} (hn : 2 ≤ n) (hm : 1 ≤ m)
    (h : ∀ k, k < m → a' k = c * a k + d) (hi : i ≤ (m - 1) * n) :
    oversampleLin a' n i = c * oversampleLin a n i + d := by
  unfold oversampleLin
  rw [if_neg (by omega), if_neg (by omega)]
  rcases Nat.lt_or_ge i ((m - 1) * n) with hlt | hge
  · have hq : i / n < m - 1 := (Nat.div_lt_iff_lt_mul (by omega)).mpr hlt
    rw [h (i / n) (by omega), h (i / n + 1) (by omega)]
    ring
  · have hi' : i = (m - 1) * n + 0 := by omega
    have hq : i / n = m - 1 := by rw [hi']; exact Rfa.div_of_decomp (m - 1) (by omega)
    have hr : i % n = 0 := by rw [hi']; exact Rfa.mod_of_decomp (m - 1) (by omega)
    rw [hq, hr, h (m - 1) (by omega)]
    simp

/-- the recreated grid of the mapped abscissae is the mapped grid -/
theorem gridL_map_affine (x : List K) (n : ℕ) (hn : 2 ≤ n) (hm : 1 ≤ x.length) (c d : K) :
    gridL (x.map (fun v => c * v + d)) n = (gridL x n).map (fun v => c * v + d) := by
  unfold gridL
  rw [List.length_map, List.map_map]
  apply List.map_congr_left
  intro j hj
  have hj' : j < (x.length - 1) * n + 1 := List.mem_range.mp hj
  simp only [Function.comp_apply]
  exact oversampleLin_affine_of _ _ c d hn hm (fun k hk => arrFn_map_affine x c d k hk) (by omega)

theorem pairwise_map_affine (x : List K) (c d : K) (hc : 0 < c) (hx : x.Pairwise (· < ·)) :
    (x.map (fun v => c * v + d)).Pairwise (· < ·) := by
  rw [List.pairwise_map]
  exact hx.imp (fun hab => by nlinarith)

/-- scaling the time axis scales the reference integrals -/
theorem refWindows_shift_scale_x_on_grid (x y : List K) (n : ℕ) (s target refRule : String)
    (tr rr : Rule) (hx : x.Pairwise (· < ·)) (hn : 2 ≤ n) (hm : 2 ≤ x.length)
    (hs : IsStrategy s) (htr : Rule.ofString? target = some tr)
    (hrr : Rule.ofString? refRule = some rr) (c d : K) (hc : 0 < c) :
    refWindows rr (x.map (fun v => c * v + d)) y (gridFp (x.map (fun v => c * v + d)) n)
      = mapWinX c (refWindows rr x y (gridFp x n)) := by
  have H := gridHyp x n s target refRule tr rr hx hn hm hs htr hrr
  have H' := gridHyp (x.map (fun v => c * v + d)) n s target refRule tr rr
    (pairwise_map_affine x c d hc hx) hn (by rw [List.length_map]; exact hm) hs htr hrr
  have hl : (gridFp x n).idxX.length = x.length := by simp [gridFp, knots_length]
  have hl' : (gridFp (x.map (fun v => c * v + d)) n).idxX.length = x.length := by
    simp [gridFp, knots_length]
  apply List.ext_getElem?
  intro k
  by_cases hk : k + 1 < x.length
  · rw [H'.getElem y k (by omega), mapWinX, List.getElem?_map, H.getElem y k (by omega),
      Option.map_some]
    simp only [gridFp, knots_getElem, List.getElem_range, sumRange_succ_self]
    congr 3
    cases rr <;> simp only [integralAt, arrFn_map_affine x c d (k + 1) hk,
      arrFn_map_affine x c d k (show k < x.length by omega)] <;> ring
  · have hl1 := H'.length y
    have hl2 := H.length y
    rw [hl'] at hl1
    rw [hl] at hl2
    rw [List.getElem?_eq_none (by omega), List.getElem?_eq_none (by
      rw [mapWinX, List.length_map]; omega)]

/-- **shifting / scaling the time axis (`c > 0`) commutes with the match of the pipeline**: the
match on the grid of the mapped abscissae against the mapped reference abscissae returns the very
same values -/
theorem pipeline_commutes_scaleX_shiftX (pw : K → K) (hp : PowLike pw) (x y z : List K) (n : ℕ)
    (s target refRule : String) (tr rr : Rule)
    (hx : x.Pairwise (· < ·)) (hn : 2 ≤ n) (hm : 2 ≤ x.length)
    (hz : z.length = (x.length - 1) * n + 1) (hs : IsStrategy s)
    (htr : Rule.ofString? target = some tr) (hrr : Rule.ofString? refRule = some rr) (c d : K)
    (hc : 0 < c) :
    ∃ z', matchRef pw (gridL x n) z x y none none s target refRule = .ok (some z') ∧
      matchRef pw (gridL (x.map (fun v => c * v + d)) n) z (x.map (fun v => c * v + d)) y
        none none s target refRule = .ok (some z') := by
  have hg := gridL_map_affine x n hn (by omega) c d
  refine matchRef_shift_scale_x_of_windows
    (gridHyp x n s target refRule tr rr hx hn hm hs htr hrr)
    (gridHyp (x.map (fun v => c * v + d)) n s target refRule tr rr
      (pairwise_map_affine x c d hc hx) hn (by rw [List.length_map]; exact hm) hs htr hrr)
    pw hp z y (by rw [hz, gridL_length]) (by rw [hg, List.length_map]) c d hc ?_
    (refWindows_shift_scale_x_on_grid x y n s target refRule tr rr hx hn hm hs htr hrr c d hc)
  intro j hj
  rw [hg]
  exact arrFn_map_affine (gridL x n) c d j hj

end Pipeline

/-! ## 5. The `Weaver` state machine: `scale_y; shift_y; recreate; integral_match` ends in the same
state as `recreate; integral_match; scale_y; shift_y` -/

section WeaverLevel

open Rfa in
/-- the extended averages only read the `m` original values -/
theorem Yk_congr (y y' : ℕ → K) {m n : ℕ} (hn : 2 ≤ n) (hm : 1 ≤ m)
    (h : ∀ i, i < m → y i = y' i) : Yk y m n = Yk y' m n := by
  funext k
  rcases Nat.lt_or_ge m k with hk | hk
  · rw [Yk_beyond y hn hm hk, Yk_beyond y' hn hm hk]; exact h _ (by omega)
  · rcases Nat.eq_zero_or_pos k with rfl | h0
    · rw [Yk_zero y hn hm, Yk_zero y' hn hm]; exact h 0 (by omega)
    · rw [Yk_mid y hn h0 hk, Yk_mid y' hn h0 hk]; exact h _ (by omega)

open Rfa in
/-- … hence so does every strategy, on the `outLen m n` samples it returns -/
theorem outY_congr (s : Strategy) (pw : K → K) (x y y' : ℕ → K) {m n : ℕ} (w : Windows)
    (hn : 2 ≤ n) (hm : 2 ≤ m) (h : ∀ i, i < m → y i = y' i) {j : ℕ} (hj : j < outLen m n) :
    outY s pw x y m n w j = outY s pw x y' m n w j := by
  have hY := Yk_congr y y' hn (show 1 ≤ m by omega) h
  cases s with
  | pc =>
    show oversamplePC y n j = oversamplePC y' n j
    rw [oversamplePC_eq y hn, oversamplePC_eq y' hn]
    apply h
    have := interval_le hn hm hj
    omega
  | linFixed => show linOut _ (Yk y m n) m n w false j = linOut _ (Yk y' m n) m n w false j; rw [hY]
  | linAdaptive => show linOut _ (Yk y m n) m n w true j = linOut _ (Yk y' m n) m n w true j; rw [hY]
  | expFixed =>
    show expOut pw _ (Yk y m n) m n w false j = expOut pw _ (Yk y' m n) m n w false j; rw [hY]
  | expAdaptive =>
    show expOut pw _ (Yk y m n) m n w true j = expOut pw _ (Yk y' m n) m n w true j; rw [hY]

/-- the windows a `recreate` operation carries -/
def winOf (aL aR bL bR : List ℕ) : Rfa.Windows :=
  { aL := fun k => aL.getD k 0, aR := fun k => aR.getD k 0,
    bL := fun k => bL.getD k 0, bR := fun k => bR.getD k 0 }

/-- the values `recreate` writes -/
def recreated (stt : Rfa.Strategy) (pw' : K → K) (x y : List K) (n : ℕ) (w : Rfa.Windows) : List K :=
  Weaver.ofFn (Rfa.outLen x.length n) (Rfa.outY stt pw' (Weaver.fnOf x) (Weaver.fnOf y) x.length n w)

/-- `Pipeline.step_recreate` with the recreated values spelled out -/
theorem step_recreate_eq (s : Weaver.State K) (st : String) (stt : Rfa.Strategy)
    (hst : Rfa.Strategy.ofString? st = some stt) (pw' : K → K) (n : ℤ) (hn : 2 ≤ n)
    (aL aR bL bR : List ℕ) (hm : 2 ≤ s.x.length) :
    Weaver.step s (.recreate st pw' n aL aR bL bR)
      = Weaver.ok { s with x := gridL s.x n.toNat,
                           y := recreated stt pw' s.x s.y n.toNat (winOf aL aR bL bR) } := by
  have hn' : 2 ≤ n.toNat := by omega
  rw [← ofFn_outX_eq_gridL s.x n.toNat hn' hm]
  simp only [Weaver.step, if_neg (not_lt.mpr hn), hst, Rfa.run, if_neg (not_lt.mpr hn'), recreated,
    winOf]

/-- `scale_y(a)` then `shift_y(b)` on a list -/
theorem map_scale_shift (l : List K) (a b : K) :
    (l.map (· * a)).map (· + b) = l.map (fun v => a * v + b) := by
  rw [List.map_map]
  apply List.map_congr_left
  intro v _
  simp only [Function.comp_apply]
  ring

/-- **recreate commutes with `y ↦ a y + b`** at the list level (windows given, as the operation
carries them): `C07.rfa_affine_y` plus the fact that only the `m` original values are read -/
theorem recreated_shift_scale_y (stt : Rfa.Strategy) (pw' : K → K) (x y : List K) (n : ℕ)
    (w : Rfa.Windows) (hx : x.Pairwise (· < ·)) (hn : 2 ≤ n) (hm : 2 ≤ x.length)
    (hy : y.length = x.length) (a b : K) :
    recreated stt pw' x (y.map (fun v => a * v + b)) n w
      = (recreated stt pw' x y n w).map (fun v => a * v + b) := by
  unfold recreated Weaver.ofFn
  rw [List.map_map]
  apply List.map_congr_left
  intro j hj
  have hj' : j < Rfa.outLen x.length n := List.mem_range.mp hj
  simp only [Function.comp_apply]
  rw [outY_congr stt pw' _ (Weaver.fnOf (y.map (fun v => a * v + b)))
    (fun i => a * Weaver.fnOf y i + b) w hn hm (fun i hi => by
      rw [Weaver.fnOf_eq_arrFn, Weaver.fnOf_eq_arrFn]
      exact arrFn_map_affine y a b i (by omega)) hj']
  exact C07.rfa_affine_y stt pw' _ _ w a b hn hm (Weaver.strictIncr_fnOf x hx) j

/-- **C08, last clause, on the state machine.**  For a `Weaver` whose reference abscissae are its
working abscissae (as after construction and after any history of domain operations, `C08.domain_
history`), with strictly increasing abscissae: scaling and shifting the values *before*
`recreate_from_average` + `integral_match` ends in exactly the same state (working series,
reference, original, caller arrays) as doing it *afterwards*; both runs succeed. -/
theorem weaver_pipeline_commutes_y (pw : K → K) (hp : PowLike pw) (s : Weaver.State K)
    (st : String) (stt : Rfa.Strategy) (hst : Rfa.Strategy.ofString? st = some stt) (pw' : K → K)
    (n : ℤ) (aL aR bL bR : List ℕ) (sname target refRule : String) (tr rr : Rule)
    (hrx : s.rx = s.x) (hryl : s.ry.length = s.x.length)
    (hx : s.x.Pairwise (· < ·)) (hy : s.y.length = s.x.length) (hm : 2 ≤ s.x.length)
    (hn : 2 ≤ n) (hs : IsStrategy sname)
    (htr : Rule.ofString? target = some tr) (hrr : Rule.ofString? refRule = some rr) (a b : K) :
    ∃ sf : Weaver.State K,
      Weaver.runOps s [.scaleY a, .shiftY b, .recreate st pw' n aL aR bL bR,
        .integralMatch pw none none sname target refRule] = Weaver.ok sf ∧
      Weaver.runOps s [.recreate st pw' n aL aR bL bR,
        .integralMatch pw none none sname target refRule, .scaleY a, .shiftY b] = Weaver.ok sf := by
  have hn' : 2 ≤ n.toNat := by omega
  obtain ⟨z', g1, g2⟩ := pipeline_commutes_scaleY_shiftY pw hp s.x s.ry
    (recreated stt pw' s.x s.y n.toNat (winOf aL aR bL bR)) n.toNat sname target refRule tr rr hx hn'
    hm hryl (by simp [recreated, C04.rfa_length]) hs htr hrr a b
  -- scale and shift first
  have a1 : Weaver.step s (.scaleY a)
      = Weaver.ok { s with y := s.y.map (· * a), ry := s.ry.map (· * a) } := rfl
  have a2 : Weaver.step { s with y := s.y.map (· * a), ry := s.ry.map (· * a) } (.shiftY b)
      = Weaver.ok { s with y := s.y.map (fun v => a * v + b),
                           ry := s.ry.map (fun v => a * v + b) } := by
    simp only [Weaver.step, map_scale_shift]
  have a3 := step_recreate_eq
    { s with y := s.y.map (fun v => a * v + b), ry := s.ry.map (fun v => a * v + b) } st stt hst pw'
    n hn aL aR bL bR hm
  simp only [recreated_shift_scale_y stt pw' s.x s.y n.toNat _ hx hn' hm hy a b] at a3
  have a4 := step_integralMatch
    { s with x := gridL s.x n.toNat,
             y := (recreated stt pw' s.x s.y n.toNat (winOf aL aR bL bR)).map (fun v => a * v + b),
             ry := s.ry.map (fun v => a * v + b) }
    pw none none sname target refRule (z'.map (fun v => a * v + b)) (by simpa [hrx] using g2)
  -- recreate and match first
  have b1 := step_recreate_eq s st stt hst pw' n hn aL aR bL bR hm
  have b2 := step_integralMatch
    { s with x := gridL s.x n.toNat, y := recreated stt pw' s.x s.y n.toNat (winOf aL aR bL bR) }
    pw none none sname target refRule z' (by simpa [hrx] using g1)
  refine ⟨{ s with x := gridL s.x n.toNat, y := z'.map (fun v => a * v + b),
                   ry := s.ry.map (fun v => a * v + b) }, ?_, ?_⟩
  · simp only [Weaver.runOps, a1, a2, a3, a4, Weaver.ok]
  · have b3 : Weaver.step { s with x := gridL s.x n.toNat, y := z' } (.scaleY a)
        = Weaver.ok { s with x := gridL s.x n.toNat, y := z'.map (· * a),
                             ry := s.ry.map (· * a) } := rfl
    have b4 : Weaver.step { s with x := gridL s.x n.toNat, y := z'.map (· * a),
                                   ry := s.ry.map (· * a) } (.shiftY b)
        = Weaver.ok { s with x := gridL s.x n.toNat, y := z'.map (fun v => a * v + b),
                             ry := s.ry.map (fun v => a * v + b) } := by
      simp only [Weaver.step, map_scale_shift]
    simp only [Weaver.runOps, b1, b2, b3, b4, Weaver.ok]

/-! ### the time axis -/

open Rfa in
/-- the extended grid only reads the `m` original abscissae -/
theorem XE_congr (x x' : ℕ → K) {m n : ℕ} (hn : 2 ≤ n) (hm : 2 ≤ m)
    (h : ∀ i, i < m → x i = x' i) : XE x m n = XE x' m n := by
  funext p
  have hmn : m * n = (m - 1) * n + n := by
    obtain ⟨m', rfl⟩ : ∃ m', m = m' + 1 := ⟨m - 1, by omega⟩
    simp only [Nat.add_sub_cancel, Nat.add_mul, Nat.one_mul]
  rw [XE_eq x hn hm, XE_eq x' hn hm, h 0 (by omega), h 1 (by omega), h (m - 1) (by omega),
    h (m - 2) (by omega)]
  split_ifs with h1 h2
  · rfl
  · have := oversampleLin_affine_of x x' 1 0 (m := m) (i := p - n) hn (by omega)
      (fun k hk => by rw [h k hk]; ring) (by omega)
    rw [this]; ring
  · rfl

open Rfa in
theorem outY_congr_x (s : Strategy) (pw : K → K) (x x' y : ℕ → K) {m n : ℕ} (w : Windows)
    (hn : 2 ≤ n) (hm : 2 ≤ m) (h : ∀ i, i < m → x i = x' i) :
    outY s pw x y m n w = outY s pw x' y m n w := by
  have hX := XE_congr x x' hn hm h
  cases s with
  | pc => rfl
  | linFixed => show linOut (XE x m n) _ m n w false = linOut (XE x' m n) _ m n w false; rw [hX]
  | linAdaptive => show linOut (XE x m n) _ m n w true = linOut (XE x' m n) _ m n w true; rw [hX]
  | expFixed =>
    show expOut pw (XE x m n) _ m n w false = expOut pw (XE x' m n) _ m n w false; rw [hX]
  | expAdaptive =>
    show expOut pw (XE x m n) _ m n w true = expOut pw (XE x' m n) _ m n w true; rw [hX]

/-- **the recreated values do not change under `x ↦ c x + d`** (`C07.rfa_affine_x`; `c ≠ 0`
suffices here) -/
theorem recreated_shift_scale_x (stt : Rfa.Strategy) (pw' : K → K) (x y : List K) (n : ℕ)
    (w : Rfa.Windows) (hn : 2 ≤ n) (hm : 2 ≤ x.length) (c d : K) (hc : c ≠ 0) :
    recreated stt pw' (x.map (fun v => c * v + d)) y n w = recreated stt pw' x y n w := by
  unfold recreated
  rw [List.length_map]
  apply Weaver.ofFn_congr
  intro j _
  rw [outY_congr_x stt pw' (Weaver.fnOf (x.map (fun v => c * v + d)))
    (fun i => c * Weaver.fnOf x i + d) _ w hn hm (fun i hi => by
      rw [Weaver.fnOf_eq_arrFn, Weaver.fnOf_eq_arrFn]
      exact arrFn_map_affine x c d i hi)]
  exact C07.rfa_affine_x stt pw' _ _ _ n w c d hc j

/-- **C08, last clause, time axis.**  `scale_x(c)` (`c > 0`), `shift_x(d)` before
`recreate_from_average` + `integral_match` ends in the same state as doing it afterwards. -/
theorem weaver_pipeline_commutes_x (pw : K → K) (hp : PowLike pw) (s : Weaver.State K)
    (st : String) (stt : Rfa.Strategy) (hst : Rfa.Strategy.ofString? st = some stt) (pw' : K → K)
    (n : ℤ) (aL aR bL bR : List ℕ) (sname target refRule : String) (tr rr : Rule)
    (hrx : s.rx = s.x) (hx : s.x.Pairwise (· < ·)) (hm : 2 ≤ s.x.length)
    (hn : 2 ≤ n) (hs : IsStrategy sname)
    (htr : Rule.ofString? target = some tr) (hrr : Rule.ofString? refRule = some rr) (c d : K)
    (hc : 0 < c) :
    ∃ sf : Weaver.State K,
      Weaver.runOps s [.scaleX c, .shiftX d, .recreate st pw' n aL aR bL bR,
        .integralMatch pw none none sname target refRule] = Weaver.ok sf ∧
      Weaver.runOps s [.recreate st pw' n aL aR bL bR,
        .integralMatch pw none none sname target refRule, .scaleX c, .shiftX d] = Weaver.ok sf := by
  have hn' : 2 ≤ n.toNat := by omega
  obtain ⟨z', g1, g2⟩ := pipeline_commutes_scaleX_shiftX pw hp s.x s.ry
    (recreated stt pw' s.x s.y n.toNat (winOf aL aR bL bR)) n.toNat sname target refRule tr rr hx hn'
    hm (by simp [recreated, C04.rfa_length]) hs htr hrr c d hc
  have hg := gridL_map_affine s.x n.toNat hn' (by omega) c d
  -- scale and shift first
  have a1 : Weaver.step s (.scaleX c)
      = Weaver.ok { s with x := s.x.map (· * c), rx := s.rx.map (· * c) } := rfl
  have a2 : Weaver.step { s with x := s.x.map (· * c), rx := s.rx.map (· * c) } (.shiftX d)
      = Weaver.ok { s with x := s.x.map (fun v => c * v + d),
                           rx := s.rx.map (fun v => c * v + d) } := by
    simp only [Weaver.step, map_scale_shift]
  have a3 := step_recreate_eq
    { s with x := s.x.map (fun v => c * v + d), rx := s.rx.map (fun v => c * v + d) } st stt hst pw'
    n hn aL aR bL bR (by simpa using hm)
  simp only [recreated_shift_scale_x stt pw' s.x s.y n.toNat _ hn' hm c d hc.ne', hg] at a3
  have a4 := step_integralMatch
    { s with x := (gridL s.x n.toNat).map (fun v => c * v + d),
             y := recreated stt pw' s.x s.y n.toNat (winOf aL aR bL bR),
             rx := s.rx.map (fun v => c * v + d) }
    pw none none sname target refRule z' (by simpa [hrx, hg] using g2)
  -- recreate and match first
  have b1 := step_recreate_eq s st stt hst pw' n hn aL aR bL bR hm
  have b2 := step_integralMatch
    { s with x := gridL s.x n.toNat, y := recreated stt pw' s.x s.y n.toNat (winOf aL aR bL bR) }
    pw none none sname target refRule z' (by simpa [hrx] using g1)
  have b3 : Weaver.step { s with x := gridL s.x n.toNat, y := z' } (.scaleX c)
      = Weaver.ok { s with x := (gridL s.x n.toNat).map (· * c), y := z',
                           rx := s.rx.map (· * c) } := rfl
  have b4 : Weaver.step { s with x := (gridL s.x n.toNat).map (· * c), y := z',
                                 rx := s.rx.map (· * c) } (.shiftX d)
      = Weaver.ok { s with x := (gridL s.x n.toNat).map (fun v => c * v + d), y := z',
                           rx := s.rx.map (fun v => c * v + d) } := by
    simp only [Weaver.step, map_scale_shift]
  refine ⟨{ s with x := (gridL s.x n.toNat).map (fun v => c * v + d), y := z',
                   rx := s.rx.map (fun v => c * v + d) }, ?_, ?_⟩
  · simp only [Weaver.runOps, a1, a2, a3, a4, Weaver.ok]
  · simp only [Weaver.runOps, b1, b2, b3, b4, Weaver.ok]

end WeaverLevel

/-! ## Non-vacuity (over `ℚ`, `pw t = t ^ 2`) -/

section Examples

private def p2 : ℚ → ℚ := fun t => powN t 2
private theorem p2_powLike : PowLike p2 := powLike_powN 2 (by omega)

/-- a 5-point non-uniform window (spacing 1, 1, 3, 1) -/
private def wx : ℕ → ℚ := fun i => [0, 1, 2, 5, 6].getD i 0
private def wy : ℕ → ℚ := fun i => [2, 1, 4, 3, 5].getD i 0

/-- the kernel really moves the samples (`C03`: `ŷ ≠ 0` for the target 30), and does so
equivariantly: values in other units (`3 y + 7`), target integral `3 · 30 + 7 · (6 - 0)` -/
example : (List.range 5).map (stretch .trapezoid p2 4 wx (fun i => 3 * wy i + 7) (3 * 30 + 7 * (wx 4 - wx 0)))
    = (List.range 5).map (fun i => 3 * stretch .trapezoid p2 4 wx wy 30 i + 7) := by
  decide +kernel

example (i : ℕ) : stretch .rectangle p2 4 wx (fun i => 3 * wy i + 7) (3 * 30 + 7 * (wx 4 - wx 0)) i
    = 3 * stretch .rectangle p2 4 wx wy 30 i + 7 :=
  stretch_shift_scale_y .rectangle p2 4 wx wy 30 3 7 i

/-- minutes to seconds with an offset: `x ↦ 60 x + 5`, target integral `60 · 30` -/
example : (List.range 5).map (stretch .trapezoid p2 4 (fun i => 60 * wx i + 5) wy (60 * 30))
    = (List.range 5).map (stretch .trapezoid p2 4 wx wy 30) := by
  decide +kernel

example (i : ℕ) : stretch .trapezoid p2 4 (fun i => 60 * wx i + 5) wy (60 * 30) i
    = stretch .trapezoid p2 4 wx wy 30 i :=
  stretch_shift_scale_x .trapezoid p2 4 wx wy 30 60 5 (by norm_num) i

/-- `c > 0` cannot be weakened to `c ≠ 0`: with `c = -1` and an odd exponent the weights change
(`1 - (-1/3)^3` instead of `1 - (1/3)^3` for this window) -/
example : weight (fun t : ℚ => powN t 3) 4 (fun i => 0 - wx i) 2 ≠
    weight (fun t : ℚ => powN t 3) 4 wx 2 := by decide +kernel

/-- the pipeline of `C02`'s example: `x = [0,1,2,3]`, reference `y = [2,5,3,4]`, `n = 2`,
recreated values `z = [1,…,7]` -/
private def exX : List ℚ := [0, 1, 2, 3]
private def exY : List ℚ := [2, 5, 3, 4]
private def exZ : List ℚ := [1, 2, 3, 4, 5, 6, 7]

example : ∃ z', matchRef p2 (gridL exX 2) exZ exX exY none none "closest" "trapezoid" "rectangle"
      = .ok (some z') ∧
    matchRef p2 (gridL exX 2) (exZ.map (fun v => 3 * v + 7)) exX (exY.map (fun v => 3 * v + 7))
      none none "closest" "trapezoid" "rectangle" = .ok (some (z'.map (fun v => 3 * v + 7))) :=
  pipeline_commutes_scaleY_shiftY p2 p2_powLike exX exY exZ 2 "closest" "trapezoid" "rectangle"
    .trapezoid .rectangle (by decide +kernel) (by norm_num) (by decide) (by decide) (by decide)
    (Or.inl rfl) rfl rfl 3 7

example : ∃ z', matchRef p2 (gridL exX 2) exZ exX exY none none "lower" "rectangle" "rectangle"
      = .ok (some z') ∧
    matchRef p2 (gridL (exX.map (fun v => 60 * v + 5)) 2) exZ (exX.map (fun v => 60 * v + 5)) exY
      none none "lower" "rectangle" "rectangle" = .ok (some z') :=
  pipeline_commutes_scaleX_shiftX p2 p2_powLike exX exY exZ 2 "lower" "rectangle" "rectangle"
    .rectangle .rectangle (by decide +kernel) (by norm_num) (by decide) (by decide)
    (Or.inr (Or.inl rfl)) rfl rfl 60 5 (by norm_num)

/-- the state machine: a fresh `Weaver(exX, exY)`, `LinearFixedRFA` with windows `a_l = a_r = 1`,
`n = 2` -/
private def s0 : Weaver.State ℚ :=
  { x := exX, y := exY, rx := exX, ry := exY, ox := exX, oy := exY, callerX := exX, callerY := exY }

example : ∃ sf : Weaver.State ℚ,
    Weaver.runOps s0 [.scaleY 3, .shiftY 7, .recreate "linfixed" p2 2 [1, 1, 1, 1, 1] [1, 1, 1, 1, 1]
      [0, 0, 0, 0, 0] [0, 0, 0, 0, 0],
      .integralMatch p2 none none "closest" "trapezoid" "rectangle"] = Weaver.ok sf ∧
    Weaver.runOps s0 [.recreate "linfixed" p2 2 [1, 1, 1, 1, 1] [1, 1, 1, 1, 1]
      [0, 0, 0, 0, 0] [0, 0, 0, 0, 0],
      .integralMatch p2 none none "closest" "trapezoid" "rectangle", .scaleY 3, .shiftY 7]
        = Weaver.ok sf :=
  weaver_pipeline_commutes_y p2 p2_powLike s0 "linfixed" .linFixed rfl p2 2 _ _ _ _ "closest"
    "trapezoid" "rectangle" .trapezoid .rectangle rfl (by decide) (by decide +kernel) (by decide)
    (by decide) (by norm_num) (Or.inl rfl) rfl rfl 3 7

end Examples

end TWV.C08Commute
