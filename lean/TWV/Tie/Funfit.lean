import TWV.Generated.Funfit
import TWV.Lemmas.Basic

/-!
# Tie for `funfit.py`: the definitions regenerated from the Python AST equal the hand model

Re-proved on every run in which `TWV/Generated/Funfit.lean` changed.  A semantic edit of the source
makes one of these equalities unprovable (a broken proof obligation of C05/C06/C07/C02);
an algebraically equivalent rewrite re-proves.
-/

namespace TWV

variable {K : Type} [Field K] [LinearOrder K] [IsStrictOrderedRing K]

set_option linter.unusedSectionVars false
set_option linter.unusedTactic false
set_option linter.unreachableTactic false

theorem tie_lin_fit (x : K) (p0 p1 : K × K) (h : p0.1 ≠ p1.1) :
    Gen.lin_fit x p0 p1 = linFit x p0 p1 := by
  have hd : p1.1 - p0.1 ≠ 0 := sub_ne_zero.mpr (Ne.symm h)
  first
    | (simp only [Gen.lin_fit, linFit]; done)
    | (simp only [Gen.lin_fit, linFit]; ring1)
    | (simp only [Gen.lin_fit, linFit]; field_simp; ring1)
    | (simp only [Gen.lin_fit, linFit]; congr 2 <;> first | rfl | ring | (congr 1; field_simp; ring) | (field_simp; ring))
    | (simp only [Gen.lin_fit, linFit]; field_simp; ring_nf)

theorem tie_exp_fit (pw : K → K) (x : K) (p0 p1 : K × K) (h : p0.1 ≠ p1.1) :
    Gen.exp_fit pw x p0 p1 = expFit pw x p0 p1 := by
  have hd : p1.1 - p0.1 ≠ 0 := sub_ne_zero.mpr (Ne.symm h)
  first
    | (simp only [Gen.exp_fit, expFit]; done)
    | (simp only [Gen.exp_fit, expFit]; ring1)
    | (simp only [Gen.exp_fit, expFit]; field_simp; ring1)
    | (simp only [Gen.exp_fit, expFit]; congr 2 <;> first | rfl | ring | (congr 1; field_simp; ring) | (field_simp; ring))
    | (simp only [Gen.exp_fit, expFit]; field_simp; ring_nf)

theorem tie_exp_xy_fit (pw : K → K) (x : K) (p0 p1 : K × K) (h : p0.1 ≠ p1.1) :
    Gen.exp_xy_fit pw x p0 p1 = expXYFit pw x p0 p1 := by
  have hd : p1.1 - p0.1 ≠ 0 := sub_ne_zero.mpr (Ne.symm h)
  first
    | (simp only [Gen.exp_xy_fit, expXYFit]; done)
    | (simp only [Gen.exp_xy_fit, expXYFit]; ring1)
    | (simp only [Gen.exp_xy_fit, expXYFit]; field_simp; ring1)
    | (simp only [Gen.exp_xy_fit, expXYFit]; congr 2 <;> first | rfl | ring | (congr 1; field_simp; ring) | (field_simp; ring))
    | (simp only [Gen.exp_xy_fit, expXYFit]; field_simp; ring_nf)

theorem tie_exp_lin_fit (pw : K → K) (x : K) (p0 p1 : K × K) (h : p0.1 ≠ p1.1) :
    Gen.exp_lin_fit pw x p0 p1 = expLinFit pw x p0 p1 := by
  have hd : p1.1 - p0.1 ≠ 0 := sub_ne_zero.mpr (Ne.symm h)
  first
    | (simp only [Gen.exp_lin_fit, expLinFit, tie_lin_fit x p0 p1 h, tie_exp_fit pw x p0 p1 h]; done)
    | (simp only [Gen.exp_lin_fit, expLinFit, tie_lin_fit x p0 p1 h, tie_exp_fit pw x p0 p1 h]; ring1)
    | (simp only [Gen.exp_lin_fit, expLinFit, tie_lin_fit x p0 p1 h, tie_exp_fit pw x p0 p1 h]; field_simp; ring1)
    | (simp only [Gen.exp_lin_fit, expLinFit, tie_lin_fit x p0 p1 h, tie_exp_fit pw x p0 p1 h]; congr 2 <;> first | rfl | ring | (congr 1; field_simp; ring) | (field_simp; ring))
    | (simp only [Gen.exp_lin_fit, expLinFit, tie_lin_fit x p0 p1 h, tie_exp_fit pw x p0 p1 h]; field_simp; ring_nf)

theorem tie_lin_exp_xy_fit (pw : K → K) (x : K) (p0 p1 : K × K) (h : p0.1 ≠ p1.1) :
    Gen.lin_exp_xy_fit pw x p0 p1 = linExpXYFit pw x p0 p1 := by
  have hd : p1.1 - p0.1 ≠ 0 := sub_ne_zero.mpr (Ne.symm h)
  first
    | (simp only [Gen.lin_exp_xy_fit, linExpXYFit, tie_lin_fit x p0 p1 h, tie_exp_xy_fit pw x p0 p1 h]; done)
    | (simp only [Gen.lin_exp_xy_fit, linExpXYFit, tie_lin_fit x p0 p1 h, tie_exp_xy_fit pw x p0 p1 h]; ring1)
    | (simp only [Gen.lin_exp_xy_fit, linExpXYFit, tie_lin_fit x p0 p1 h, tie_exp_xy_fit pw x p0 p1 h]; field_simp; ring1)
    | (simp only [Gen.lin_exp_xy_fit, linExpXYFit, tie_lin_fit x p0 p1 h, tie_exp_xy_fit pw x p0 p1 h]; congr 2 <;> first | rfl | ring | (congr 1; field_simp; ring) | (field_simp; ring))
    | (simp only [Gen.lin_exp_xy_fit, linExpXYFit, tie_lin_fit x p0 p1 h, tie_exp_xy_fit pw x p0 p1 h]; field_simp; ring_nf)

end TWV
