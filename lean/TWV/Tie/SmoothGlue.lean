import TWV.Generated.SmoothGlue
import TWV.Tie.RfaParams
import TWV.Lemmas.Basic
import Mathlib.Tactic.Ring

/-!
# Tie of translator T15: the smoothing glue and the sampling-function plumbing

`TWV/Generated/SmoothGlue.lean` is regenerated from the text of `process.spline_smooth`, of the last
statement of `match.integral_matching_reference_stretch` / `_integral_matching_stretch` /
`_interval_integral_matching_stretch`, and of
`rfa.FunctionRFA.__init__`, `FunctionRFA._get_sampling_function`, `CubicSplineRFA.__init__` on every run.
The theorems below hold for **all** inputs and all oracles (`spline`, `cubicSpline`, the supplier):

* `tie_spline_smooth`: `Gen.spline_smooth = SmoothGlue.splineSmooth`.  NumPy's `np.std` is the function
  parameter `std`; the only thing assumed about it is `std y ^ 2 = Sv.npVar y` (its square is the
  population variance), and only where it is used (`s = none`).  Consequences:
  `spline_smooth_default_condition` (FITPACK receives `Process.defaultS`), `spline_smooth_passes_s`
  (a given `s` is handed on unchanged, whatever `std` is).
* `tie_match_final_smooth`, `tie_stretch_final_smooth`, `tie_interval_final_smooth`: the optional final smoothing is
  `SmoothGlue.finalSmooth`; `*_none` (no smoothing without `s`), `*_abscissae` (the oracle is consulted with
  the abscissae `x` only and evaluated at `x` only, never `x_ref`).
* `tie_FunctionRFA_init_super` (any parent constructor), `tie_FunctionRFA_init` (with T12's
  `abstractInit`): `SmoothGlue.functionInit`; `tie_FunctionRFA_get_sampling_function`:
  `SmoothGlue.samplingFunction`; `tie_CubicSplineRFA_init_default / _given`: `SmoothGlue.cubicInit`;
  `cubic_sampling_function`: a `CubicSplineRFA` built with the default samples `CubicSpline(x, y)`;
  `cubic_kwargs_empty`; `function_rfa_plumbing`: what T12's `functionRfa` takes as its `supplier` argument is
  the stored supplier applied to the stored keyword arguments.
-/

set_option linter.unusedSectionVars false
set_option linter.unusedVariables false

namespace TWV
namespace TieSmoothGlue
open SmoothGlue

variable {K : Type} [Field K] [LinearOrder K] [IsStrictOrderedRing K]

/-! ### `spline_smooth` -/

/-- normalise both sides, then compare the smoothing conditions as polynomials -/
macro "smooth_tie" "[" ts:Lean.Parser.Tactic.simpLemma,* "]" : tactic => `(tactic|
  (simp only [Gen.spline_smooth, Gen.match_final_smooth, Gen.stretch_final_smooth,
     Gen.interval_final_smooth, splineSmooth,
     smoothingCondition, finalSmooth, defaultS_variance, powN_eq_pow, $ts,*] <;>
   first
   | rfl
   | (congr 2; ring)
   | (congr 1; ring)))

theorem tie_spline_smooth_given (std : List K → K) (spline : Spline K) (x y : List K) (v : K) :
    Gen.spline_smooth std spline x y (some v) = splineSmooth spline x y (some v) := by
  smooth_tie []

theorem tie_spline_smooth_default (std : List K → K) (spline : Spline K) (x y : List K)
    (hstd : std y ^ 2 = Sv.npVar y) :
    Gen.spline_smooth std spline x y none = splineSmooth spline x y none := by
  have h2 : std y * std y = Sv.npVar y := by rw [← hstd]; ring
  have hv : variance (arrFn y.toArray) y.length = Sv.npVar y := rfl
  smooth_tie [hstd, h2, hv]

/-- the whole function; the hypothesis on `np.std` is needed only when `s` is not given -/
theorem tie_spline_smooth (std : List K → K) (spline : Spline K) (x y : List K) (s : Option K)
    (hstd : s = none → std y ^ 2 = Sv.npVar y) :
    Gen.spline_smooth std spline x y s = splineSmooth spline x y s := by
  cases s with
  | none => exact tie_spline_smooth_default std spline x y (hstd rfl)
  | some v => exact tie_spline_smooth_given std spline x y v

/-- FITPACK is called on `(x, y)` with the default condition of the hand model, `len(y) * var(y)` -/
theorem spline_smooth_default_condition (std : List K → K) (spline : Spline K) (x y : List K)
    (hstd : std y ^ 2 = Sv.npVar y) :
    Gen.spline_smooth std spline x y none
      = spline x y (some (Process.defaultS (arrFn y.toArray) y.length)) := by
  rw [tie_spline_smooth_default std spline x y hstd]; rfl

/-- a given smoothing condition reaches FITPACK unchanged -/
theorem spline_smooth_passes_s (std : List K → K) (spline : Spline K) (x y : List K) (v : K) :
    Gen.spline_smooth std spline x y (some v) = spline x y (some v) := by
  rw [tie_spline_smooth_given]; rfl

/-! ### the optional final smoothing of `match.py` -/

theorem tie_match_final_smooth (std : List K → K) (spline : Spline K) (x y x_ref y_ref res_y : List K)
    (alpha : K) (s : Option K) :
    Gen.match_final_smooth std spline x y x_ref y_ref res_y alpha s = finalSmooth spline x res_y s := by
  cases s <;> smooth_tie []

theorem tie_stretch_final_smooth (std : List K → K) (spline : Spline K) (x y res_y : List K)
    (alpha : K) (s : Option K) :
    Gen.stretch_final_smooth std spline x y res_y alpha s = finalSmooth spline x res_y s := by
  cases s <;> smooth_tie []

/-- the loop function `_interval_integral_matching_stretch`: `y` is the array the loop has filled -/
theorem tie_interval_final_smooth (std : List K → K) (spline : Spline K) (x y : List K)
    (alpha : K) (s : Option K) :
    Gen.interval_final_smooth std spline x y alpha s = finalSmooth spline x y s := by
  cases s <;> smooth_tie []

theorem match_final_smooth_none (std : List K → K) (spline : Spline K) (x y x_ref y_ref res_y : List K)
    (alpha : K) :
    Gen.match_final_smooth std spline x y x_ref y_ref res_y alpha none = res_y := by
  rw [tie_match_final_smooth]; rfl

theorem stretch_final_smooth_none (std : List K → K) (spline : Spline K) (x y res_y : List K) (alpha : K) :
    Gen.stretch_final_smooth std spline x y res_y alpha none = res_y := by
  rw [tie_stretch_final_smooth]; rfl

/-- with `s` given, the result is the spline fitted on `(x, res_y, s)` and evaluated at `x` -/
theorem match_final_smooth_some (std : List K → K) (spline : Spline K) (x y x_ref y_ref res_y : List K)
    (alpha v : K) :
    Gen.match_final_smooth std spline x y x_ref y_ref res_y alpha (some v)
      = spline x res_y (some v) x := by
  rw [tie_match_final_smooth]; rfl

/-- the oracle is consulted with the abscissae `x` (not `x_ref`) and evaluated at `x`: two oracles that
agree there give the same result -/
theorem match_final_smooth_abscissae (std : List K → K) (spline spline' : Spline K)
    (x y x_ref y_ref res_y : List K) (alpha : K) (s : Option K)
    (h : ∀ r c, spline x r c x = spline' x r c x) :
    Gen.match_final_smooth std spline x y x_ref y_ref res_y alpha s
      = Gen.match_final_smooth std spline' x y x_ref y_ref res_y alpha s := by
  rw [tie_match_final_smooth, tie_match_final_smooth]
  cases s with
  | none => rfl
  | some v => exact h res_y (some v)

theorem stretch_final_smooth_abscissae (std : List K → K) (spline spline' : Spline K)
    (x y res_y : List K) (alpha : K) (s : Option K)
    (h : ∀ r c, spline x r c x = spline' x r c x) :
    Gen.stretch_final_smooth std spline x y res_y alpha s
      = Gen.stretch_final_smooth std spline' x y res_y alpha s := by
  rw [tie_stretch_final_smooth, tie_stretch_final_smooth]
  cases s with
  | none => rfl
  | some v => exact h res_y (some v)

/-! ### `FunctionRFA`, `CubicSplineRFA` -/

macro "rfa_tie" "[" ts:Lean.Parser.Tactic.simpLemma,* "]" : tactic => `(tactic|
  (simp only [Gen.FunctionRFA_init, Gen.FunctionRFA_get_sampling_function,
     Gen.CubicSplineRFA_init_default, Gen.CubicSplineRFA_init_given, Sv.baseAttrs,
     functionInit, samplingFunction, cubicInit, cubicSupplier,
     Generated.RfaParams.tie_abstractInit, Except.bind, bind, Option.getD, if_true, if_false,
     $ts,*] <;>
   first
     | rfl
     | (split <;> first | rfl | contradiction | (simp_all; done))))

/-- for any parent constructor: it is called on `(x, y, n)`, its failure is the failure of the
constructor, and otherwise the supplier and `kwargs or {}` are stored next to what it left -/
theorem tie_FunctionRFA_init_super {A : Type} (superInit : Sv.SuperInit K) (x y : ℕ → K) (n : ℕ)
    (supplier : Option (Supplier K A)) (kwargs : Option (List A)) :
    Gen.FunctionRFA_init superInit x y n supplier kwargs
      = (superInit x y n).bind fun b =>
          .ok { x := b.1, y := b.2.1, n := b.2.2, supplier := supplier, kwargs := kwargs.getD [] } := by
  cases h : superInit x y n <;> cases kwargs <;>
    simp only [Gen.FunctionRFA_init, h, Except.bind, Sv.baseAttrs, Option.getD]

theorem tie_FunctionRFA_init {A : Type} (B : ℕ) (x y : ℕ → K) (n : ℕ)
    (supplier : Option (Supplier K A)) (kwargs : Option (List A)) :
    Gen.FunctionRFA_init (Generated.RfaParams.abstractInit B) x y n supplier kwargs
      = functionInit x y n supplier kwargs := by
  by_cases hn : n < 2 <;> cases kwargs <;> rfa_tie [hn]

theorem tie_FunctionRFA_get_sampling_function {A : Type} (a : FnAttrs K A) :
    Gen.FunctionRFA_get_sampling_function a = samplingFunction a := by
  rfa_tie []

theorem tie_CubicSplineRFA_init_default {A : Type} (cubicSpline : (ℕ → K) → (ℕ → K) → K → K) (B : ℕ)
    (x y : ℕ → K) (n : ℕ) :
    Gen.CubicSplineRFA_init_default (A := A) cubicSpline (Generated.RfaParams.abstractInit B) x y n
      = cubicInit cubicSpline x y n none := by
  by_cases hn : n < 2 <;> rfa_tie [hn]

theorem tie_CubicSplineRFA_init_given {A : Type} (cubicSpline : (ℕ → K) → (ℕ → K) → K → K) (B : ℕ)
    (x y : ℕ → K) (n : ℕ) (supplier : Option (Supplier K A)) :
    Gen.CubicSplineRFA_init_given cubicSpline (Generated.RfaParams.abstractInit B) x y n supplier
      = cubicInit cubicSpline x y n (some supplier) := by
  by_cases hn : n < 2 <;> rfa_tie [hn]

/-- a `CubicSplineRFA` built without a supplier samples `CubicSpline(x, y)` - `x` first -/
theorem cubic_sampling_function {A : Type} (cubicSpline : (ℕ → K) → (ℕ → K) → K → K) (B : ℕ)
    (x y : ℕ → K) (n : ℕ) (hn : 2 ≤ n) :
    (Gen.CubicSplineRFA_init_default (A := A) cubicSpline (Generated.RfaParams.abstractInit B) x y n).bind
        Gen.FunctionRFA_get_sampling_function = .ok (cubicSpline x y) := by
  rw [tie_CubicSplineRFA_init_default]
  have : ¬ n < 2 := by omega
  simp only [cubicInit, functionInit, this, if_false, Except.bind,
    tie_FunctionRFA_get_sampling_function, samplingFunction, cubicSupplier, Option.getD]

/-- ... and never hands keyword arguments to it -/
theorem cubic_kwargs_empty {A : Type} (cubicSpline : (ℕ → K) → (ℕ → K) → K → K) (B : ℕ)
    (x y : ℕ → K) (n : ℕ) (supplier : Option (Option (Supplier K A))) (a : FnAttrs K A)
    (h : cubicInit cubicSpline x y n supplier = .ok a) : a.kwargs = [] ∧ a.x = x ∧ a.y = y ∧ a.n = n := by
  unfold cubicInit functionInit at h
  split at h
  · cases h
  · cases h; exact ⟨rfl, rfl, rfl, rfl⟩

/-- an explicit `None` supplier (or none given to `FunctionRFA`) makes `rfa()` raise `ValueError` -/
theorem no_supplier_raises {A : Type} (a : FnAttrs K A) (h : a.supplier = none) :
    Gen.FunctionRFA_get_sampling_function a = .error .valueError := by
  rw [tie_FunctionRFA_get_sampling_function]; unfold samplingFunction; rw [h]

/-- T12 translates `FunctionRFA.rfa` over a `supplier` argument that already has the keyword arguments
applied; this is the stored supplier on the stored `kwargs` -/
theorem function_rfa_plumbing {A : Type} (a : FnAttrs K A) :
    (Gen.FunctionRFA_get_sampling_function a).bind (fun f =>
        .ok (oversampleLin a.x a.n, fun j => f (oversampleLin a.x a.n j)))
      = Generated.RfaParams.functionRfa a.x a.y a.n
          (a.supplier.map fun f x y => f x y a.kwargs) := by
  rw [tie_FunctionRFA_get_sampling_function, Generated.RfaParams.tie_functionRfa]
  unfold samplingFunction RfaParamsVocab.functionOut
  cases a.supplier <;> rfl

/-! ### Non-vacuity (ℚ) -/

section Examples

private def spl : Spline ℚ := fun x y s q => (q.zip y).map fun (a, b) => a + b + s.getD 100 + x.sum
private def stdq : List ℚ → ℚ := fun y => if y = [1, 3] then 1 else 0

/-- `std [1, 3] = 1`, variance `1`, default condition `2 * 1` -/
example : stdq [1, 3] ^ 2 = Sv.npVar [1, 3] := by decide +kernel
example : Gen.spline_smooth stdq spl [0, 1] [1, 3] none [0, 1] = [7 / 2 + 1 / 2, 7] := by decide +kernel
example : Gen.match_final_smooth stdq spl [0, 1] [9, 9] [5] [5] [1, 3] 1 none = [1, 3] := by decide +kernel
example : Gen.match_final_smooth stdq spl [0, 1] [9, 9] [5] [5] [1, 3] 1 (some 7) = [9, 12] := by
  decide +kernel
example : (Gen.FunctionRFA_init (A := ℕ) (Generated.RfaParams.abstractInit 0) (fun _ => (1 : ℚ))
    (fun _ => 2) 1 none none).toOption.isNone = true := by decide +kernel
example : ((Gen.CubicSplineRFA_init_default (A := ℕ) (fun x y t => x 0 + 10 * y 0 + t)
    (Generated.RfaParams.abstractInit 0) (fun _ => (1 : ℚ)) (fun _ => 2) 3).bind
      Gen.FunctionRFA_get_sampling_function).toOption.map (fun f => f 100) = some 121 := by decide +kernel

end Examples

end TieSmoothGlue
end TWV
