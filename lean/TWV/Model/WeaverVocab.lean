import TWV.Model.Weaver

/-!
# Vocabulary for translator T9: the *content* of the `Weaver` methods

`harness/t9_weaver.py` regenerates, from the Python AST of `class Weaver` (`weaver.py`), one Lean
definition per state-changing method (`TWV/Generated/WeaverStep.lean`), written with the vocabulary
of this file; `TWV/Tie/WeaverStep.lean` proves every one of them equal to the hand-written state
machine `Weaver.step` (`TWV/Model/Weaver.lean`).

* `Attrs K`: one field per instance attribute of the Python object (`self.x`, `self.y`,
  `self.original_x`, …, `self.x_scale`, `self.y_scale`), plus the two caller arrays the hand model
  carries along.  `Attrs.toState` forgets the scale factors.
* `Res K`: the attributes *so far* and the error raised, if any — a method is a sequence of
  statements threading `self : Attrs K`; a failing call (`bindE`) or a `raise` stops with the
  attributes assigned so far (this is how `Weaver.step` is written: `.appendOne`, `.truncV`).
* one function per library call that appears in the methods, in terms of the model functions.
  Results of external routines are *oracles*: where the hand model's `Op` carries the returned
  data (`Op.smooth ext`, `Op.noise draw`, `Op.interpN n method ext`, `Op.recreateExt n ys`), the
  generated definition takes the external routine as a function of its inputs
  (`spline x y t`, `draw a`, `scipy x y new_x`, `sample x y n`); the tie theorem then says that
  the `Op` carries the oracle *applied to the series the code hands to it*, so that a call on the
  wrong series is a different term.

This file is Mathlib-free.
-/

namespace TWV
namespace Wv

variable {K : Type} [Add K] [Sub K] [Mul K] [Div K] [Neg K] [Zero K] [One K] [NatCast K]
  [LT K] [LE K] [DecidableLT K] [DecidableLE K] [DecidableEq K]

/-- the instance attributes of a `Weaver` object -/
structure Attrs (K : Type) where
  x : List K
  y : List K
  original_x : List K
  original_y : List K
  reference_x : List K
  reference_y : List K
  x_scale : K
  y_scale : K
  callerX : List K
  callerY : List K
  deriving Repr

def Attrs.toState (a : Attrs K) : Weaver.State K :=
  { x := a.x, y := a.y, rx := a.reference_x, ry := a.reference_y, ox := a.original_x,
    oy := a.original_y, callerX := a.callerX, callerY := a.callerY }

/-- the object before `__init__` has assigned anything (the caller arrays are what was handed in) -/
def Attrs.blank (callerX callerY : List K) : Attrs K :=
  { x := [], y := [], original_x := [], original_y := [], reference_x := [], reference_y := [],
    x_scale := 0, y_scale := 0, callerX := callerX, callerY := callerY }

/-- attributes so far + the error raised, if any -/
structure Res (K : Type) where
  attrs : Attrs K
  err : Option Err

def Res.toStepResult (r : Res K) : Weaver.StepResult K := ⟨r.attrs.toState, r.err⟩

/-- for the constructor: a failing `__init__` leaves no object -/
def Res.toExceptState (r : Res K) : Except Err (Weaver.State K) :=
  match r.err with
  | some e => .error e
  | none => .ok r.attrs.toState

/-- a `Res` from a result of the hand model (used when a method cannot be translated: alias) -/
def Res.ofStep (a : Attrs K) (r : Weaver.StepResult K) : Res K :=
  ⟨{ a with x := r.state.x, y := r.state.y, reference_x := r.state.rx, reference_y := r.state.ry,
            original_x := r.state.ox, original_y := r.state.oy, callerX := r.state.callerX,
            callerY := r.state.callerY }, r.err⟩

def Res.ofExcept (a : Attrs K) (r : Except Err (Weaver.State K)) : Res K :=
  match r with
  | .error e => ⟨a, some e⟩
  | .ok s => Res.ofStep a ⟨s, none⟩

/-- `return self` -/
def done (a : Attrs K) : Res K := ⟨a, none⟩

/-- `raise E(…)` -/
def raise (a : Attrs K) (e : Err) : Res K := ⟨a, some e⟩

/-- a call that can fail: on failure the attributes assigned so far stay -/
def bindE {α : Type} (a : Attrs K) (e : Except Err α) (k : α → Res K) : Res K :=
  match e with
  | .error err => ⟨a, some err⟩
  | .ok v => k v

/-! ### expressions -/

/-- `a[k]` is defined (`IndexError` otherwise) -/
def checkIdx (a : List K) (k : Int) : Except Err Unit :=
  if -(a.length : Int) ≤ k ∧ k < (a.length : Int) then .ok () else .error .indexError

/-- `a[0]` (guarded by `checkIdx a 0`) -/
abbrev first (a : List K) : K := a.headD 0
/-- `a[-1]` (guarded by `checkIdx a (-1)`) -/
abbrev last (a : List K) : K := a.getLastD 0
/-- `a[k]` for another literal `k` -/
def idx (a : List K) (k : Int) : K :=
  if k < 0 then a.getD (a.length - k.natAbs) 0 else a.getD k.toNat 0

/-- array `op` scalar, scalar `op` array (NumPy broadcasting of a 0-d operand) -/
def mulS (a : List K) (c : K) : List K := a.map (· * c)
def smul (c : K) (a : List K) : List K := a.map (c * ·)
def addS (a : List K) (c : K) : List K := a.map (· + c)
def sadd (c : K) (a : List K) : List K := a.map (c + ·)
def subS (a : List K) (c : K) : List K := a.map (· - c)
def ssub (c : K) (a : List K) : List K := a.map (c - ·)
def divS (a : List K) (c : K) : List K := a.map (· / c)
def sdiv (c : K) (a : List K) : List K := a.map (c / ·)
def negV (a : List K) : List K := a.map (- ·)

/-- `a[start:stop]`; the translator only emits it where `0 ≤ start` is established by a preceding
`if start < 0: raise` (the domain of `Weaver.pySlice`) -/
def slice (a : List K) (start stop : Int) : List K := Weaver.pySlice a start stop

/-- `np.arange(stop=n)` -/
def arange (n : Nat) : List K := Weaver.ofFn n (fun i => ((i : Nat) : K))

/-- `np.linspace(a, b, n)` -/
def linspace (a b : K) (n : Nat) : List K := Weaver.ofFn n (Process.linspaceAt a b n)

/-! ### library calls -/

/-- `sorted_array_utils.append_one_sample(x, y, make_periodic)` -/
def append_one_sample (x y : List K) (make_periodic : Bool) : Except Err (List K × List K) :=
  Weaver.appendOne x y make_periodic

/-- `process.repeat(x, y, repeats)` -/
def «repeat» (x y : List K) (repeats : Nat) : List K × List K := Weaver.repeatS x y repeats

/-- `process.truncate(x, y, x_left, x_right, x_left_as_ratio, x_right_as_ratio)` -/
def truncate (x y : List K) (l r : K) (lr rr : Bool) : Except Err (List K × List K) :=
  Weaver.truncateS x y l r lr rr

/-- `process.normalize(a, min_val, max_val)` -/
def normalize (a : List K) (lo hi : K) : List K := Weaver.normalizeS a lo hi

/-- `process.interpolate(x, y, new_x, method=…, **kwargs)`; `scipy x y new_x` is what the SciPy
object built from `(x, y)` (with the `kwargs`) returns at `new_x` -/
def interpolate (x y newX : List K) (method : String) (scipy : List K → List K → List K → List K) :
    Except Err (List K) :=
  Process.interpolate x y newX method (scipy x y newX)

/-- `process.trend(x, y, fun=…, normalized=…)`: returns `x` itself and the shifted `y` -/
def trend (x y : List K) (f : K → K) (normalized : Bool) : List K × List K :=
  (x, Weaver.ofFn y.length (Process.trendY f normalized (Weaver.fnOf x) (Weaver.fnOf y) x.length))

/-- `process.noise_gauss(a, snr=…, **kwargs)`; `draw a` is the generator's (scaled) draw for the
signal `a` -/
def noise_gauss (a : List K) (draw : List K → List K) : List K :=
  Weaver.ofFn a.length (Process.noiseAdd (Weaver.fnOf a) (Weaver.fnOf (draw a)))

/-- `process.spline_smooth(x, y, s=…)(t)` -/
def spline_eval (spline : List K → List K → List K → List K) (x y t : List K) : List K :=
  spline x y t

/-- `rfa_class(x, y, n, **kwargs).rfa()` for a window strategy (the windows are data) -/
def rfa (x y : List K) (n : Int) (strategy : String) (pw : K → K) (aL aR bL bR : List Nat) :
    Except Err (List K × List K) :=
  if n < 2 then .error .valueError else
  match Rfa.Strategy.ofString? strategy with
  | none => .error .typeError
  | some st =>
    let w : Rfa.Windows := { aL := fun k => aL.getD k 0, aR := fun k => aR.getD k 0,
                             bL := fun k => bL.getD k 0, bR := fun k => bR.getD k 0 }
    match Rfa.run st pw (Weaver.fnOf x) (Weaver.fnOf y) x.length n.toNat w with
    | .error e => .error e
    | .ok (fx, fy) =>
      .ok (Weaver.ofFn (Rfa.outLen x.length n.toNat) fx, Weaver.ofFn (Rfa.outLen x.length n.toNat) fy)

/-- `rfa_class(x, y, n, **kwargs).rfa()` for an external sampling function (cubic spline / user
function): `sample x y n` are the returned ordinates -/
def rfa_ext (x y : List K) (n : Int) (sample : List K → List K → Int → List K) :
    Except Err (List K × List K) :=
  if n < 2 then .error .valueError else
  .ok (Weaver.ofFn (Rfa.outLen x.length n.toNat) (Rfa.outX (Weaver.fnOf x) x.length n.toNat),
       sample x y n)

/-- `match.integral_matching_reference_stretch(x, y, x_ref, y_ref, …)`; an undefined result of the
model (zero denominator) is reported as `ZeroDivisionError`, as `Weaver.step` does -/
def integral_match (x y xref yref : List K) (target refRule : String) (pw : K → K)
    (fpx : Option (List K)) (fpi : Option (List Nat)) (strategy : String) : Except Err (List K) :=
  match matchRef pw x y xref yref fpx fpi strategy target refRule with
  | .error e => .error e
  | .ok none => .error .zeroDivision
  | .ok (some y) => .ok y

/-! ### read-only queries -/

/-- `a[start:stop:step]` under the guards of `slice_by_index` -/
def sliceStep (a : List K) (start stop : Int) (step : Nat) : List K :=
  let len : Int := a.length
  let b : Int := if stop < 0 then (if len + stop < 0 then 0 else len + stop) else stop
  Weaver.sliceStep a start.toNat b.toNat step

end Wv
end TWV
