import TWV.Model.Arrays
import TWV.Model.Search
import TWV.Model.Interval

/-!
# Model of `process.py`

`repeat`, `trend`, `linear_trend`, `truncate`, `normalize`, the own code of `interpolate`
(`'constant'`, the dispatch) and NumPy's `interp` for `'linear'`, the scale of `noise_gauss`, the
default smoothing condition of `spline_smooth`.  SciPy's splines and NumPy's random generator are
external (their results are data handed to the model).
-/

namespace TWV
namespace Process

variable {K : Type} [Add K] [Sub K] [Mul K] [Div K] [Neg K] [Zero K] [One K] [NatCast K]
  [LT K] [LE K] [DecidableLT K] [DecidableLE K] [DecidableEq K]

/-! ### `repeat` (lines 112-120), for `n ≥ 2` samples -/

/-- the amount added to copy `c`: copy `c` is shifted by the span of the *already shifted* copy
`c - 1` measured from `x[0]`, plus its last step -/
def repeatOffset (x : Nat → K) (n : Nat) : Nat → K
  | 0 => 0
  | c + 1 =>
    let o := repeatOffset x n c
    (x (n - 1) + o) - x 0 + ((x (n - 1) + o) - (x (n - 2) + o))

def repeatX (x : Nat → K) (n : Nat) : Nat → K := fun j => x (j % n) + repeatOffset x n (j / n)
def repeatY (y : Nat → K) (n : Nat) : Nat → K := fun j => y (j % n)
def repeatLen (n r : Nat) : Nat := n * r

/-! ### `trend`, `linear_trend` (lines 149-181) -/

def trendY (f : K → K) (normalized : Bool) (x y : Nat → K) (n : Nat) : Nat → K := fun i =>
  y i + f (if normalized then x i / (x (n - 1) - x 0) else x i)

def linearTrendY (a : K) (normalized : Bool) (x y : Nat → K) (n : Nat) : Nat → K :=
  trendY (fun t => a * t) normalized x y n

/-! ### `truncate` (lines 354-365) -/

/-- returns the slice bounds `(left_id, right_id)`: the result is `x[left_id:right_id]` -/
def truncateBounds (x : List K) (left right : K) (leftRatio rightRatio : Bool) :
    Except Err (Nat × Nat) := do
  let x0 := x.headD 0
  let xl := x.getLastD 0
  let l := if leftRatio then left * (xl - x0) + x0 else left
  let r := if rightRatio then right * (xl - x0) + x0 else right
  if r ≤ l then throw .valueError
  let li ← Search.findLower true x [l]
  let ri ← Search.findHigher true x [r]
  match li, ri with
  | [a], [b] => pure (a.toNat, b.toNat + 1)
  | _, _ => throw .indexError

/-! ### `normalize` (lines 386-389) -/

def normalize (a : Nat → K) (n : Nat) (minVal maxVal : K) : Nat → K := fun i =>
  (a i - minTo a (n - 1)) / (maxTo a (n - 1) - minTo a (n - 1)) * (maxVal - minVal) + minVal

/-! ### `interpolate` (lines 12-87) -/

/-- `_piecewise_constant_interpolate`: the lower-or-equal scan, then the two masks -/
def interpConstant (x y newX : List K) (left : Option K) : Except Err (List K) := do
  let idx ← Search.findLower true x newX
  let x0 := x.headD 0
  let y0 := y.headD 0
  pure ((newX.zip idx).map (fun (t, i) =>
    if t < x0 then left.getD y0 else y.getD i.toNat 0))

/-- `np.interp(t, x, y)` for increasing `x` of length `n ≥ 1`: clamped piecewise linear -/
def interpLinearAt (x y : Nat → K) (n : Nat) (t : K) : K :=
  if t ≤ x 0 then y 0
  else if x (n - 1) ≤ t then y (n - 1)
  else
    -- the interval `j` with `x j ≤ t < x (j + 1)`
    let j := ((List.range (n - 1)).countP (fun i => decide (x (i + 1) ≤ t)))
    (y (j + 1) - y j) / (x (j + 1) - x j) * (t - x j) + y j

inductive Method | linear | constant | cubic | spline
  deriving DecidableEq, Repr

def Method.ofString? : String → Option Method
  | "linear" => some .linear | "constant" => some .constant | "cubic" => some .cubic
  | "spline" => some .spline | _ => none

/-- `interpolate(x, y, new_x, method)`; `ext` is what the SciPy object built from `(x, y)`
returns at `new_x` (external routine, DESIGN.md 3.8) -/
def interpolate (x y newX : List K) (method : String) (ext : List K) : Except Err (List K) :=
  match Method.ofString? method with
  | none => .error .valueError
  | some .linear =>
      .ok (newX.map (interpLinearAt (arrFn x.toArray) (arrFn y.toArray) x.length))
  | some .constant => interpConstant x y newX none
  | some .cubic => .ok ext
  | some .spline => .ok ext

/-- `np.linspace(a, b, num)[i]` -/
def linspaceAt (a b : K) (num i : Nat) : K :=
  if i + 1 = num ∧ 1 < num then b else a + ((i : Nat) : K) * ((b - a) / ((num - 1 : Nat) : K))

/-! ### `noise_gauss` (lines 283-297): the *variance* of the noise term -/

/-- `mean(a ** 2)` -/
def signalPower (a : Nat → K) (n : Nat) : K := sumTo n (fun i => a i * a i) / (n : K)

/-- `std_n ** 2` for sample `i`; `snrLin i` is the linear SNR of sample `i`
(`snr[i]`, or `10 ** (snr[i] / 10)` computed outside for decibel input) -/
def noiseVariance (a : Nat → K) (n : Nat) (snrLin : Nat → K) (i : Nat) : K :=
  signalPower a n / snrLin i

/-- what the driver evaluates (the signal power once, then one division per sample) -/
theorem noiseVariance_eq (a : Nat → K) (n : Nat) (snrLin : Nat → K) (i : Nat) :
    noiseVariance a n snrLin i = signalPower a n / snrLin i := rfl

/-- `a + noise` -/
def noiseAdd (a draw : Nat → K) : Nat → K := fun i => a i + draw i

/-! ### `spline_smooth` (lines 217-219): the default smoothing condition `len(y) * std(y) ** 2` -/

def mean (y : Nat → K) (n : Nat) : K := sumTo n y / (n : K)

def defaultS (y : Nat → K) (n : Nat) : K :=
  (n : K) * (sumTo n (fun i => (y i - mean y n) * (y i - mean y n)) / (n : K))

end Process
end TWV
