/-!
# TWV.Model.Base — shared vocabulary of the traffic-weaver model

Every model file is free of Mathlib imports and polymorphic over a carrier `K` that only has the
*core* operation classes.  The proof files instantiate `K` with an arbitrary linearly ordered
field (`[Field K] [LinearOrder K] [IsStrictOrderedRing K]`), the native driver instantiates it
with core `Rat`.  (`TWV/Tie/Instances.lean` proves by `rfl` that Mathlib's field structure on `ℚ`
uses exactly the core operations the driver runs.)
-/

namespace TWV

/-- Python exception kinds the model distinguishes. -/
inductive Err
  | valueError | indexError | typeError | attributeError | osError | urlError | timeoutError
  | stopIteration | zeroDivision
  deriving DecidableEq, Repr, Inhabited

def Err.toString : Err → String
  | .valueError => "ValueError" | .indexError => "IndexError" | .typeError => "TypeError"
  | .attributeError => "AttributeError" | .osError => "OSError" | .urlError => "URLError"
  | .timeoutError => "TimeoutError" | .stopIteration => "StopIteration"
  | .zeroDivision => "ZeroDivisionError"

instance : ToString Err := ⟨Err.toString⟩

variable {K : Type} [Add K] [Sub K] [Mul K] [Div K] [Neg K] [Zero K] [One K] [NatCast K]
  [LT K] [LE K] [DecidableLT K] [DecidableLE K] [DecidableEq K]

/-- the literal `2` (core classes have no numerals beyond `0` and `1`) -/
def two : K := 1 + 1

/-- `abs` -/
def absK (x : K) : K := if x < 0 then -x else x

def maxK (a b : K) : K := if a ≤ b then b else a
def minK (a b : K) : K := if a ≤ b then a else b

/-- `∑ i < n, f i` -/
def sumTo : Nat → (Nat → K) → K
  | 0, _ => 0
  | n + 1, f => sumTo n f + f n

/-- `t ^ k` for a natural exponent -/
def powN (t : K) : Nat → K
  | 0 => 1
  | k + 1 => powN t k * t

/-- `min ⌊x⌋ B` for `x ≥ 0` (and `0` for negative `x`): Python's `int(x)` on a non-negative real
that is known to be at most `B`.  Computable in any ordered field. -/
def natFloorUpTo (B : Nat) (x : K) : Nat :=
  (List.range B).countP (fun j => decide (((j + 1 : Nat) : K) ≤ x))

/-- read an array as a total function (0 outside) -/
def arrFn (a : Array K) : Nat → K := fun i => a.getD i 0

/-- tabulate a function -/
def tab (n : Nat) (f : Nat → K) : Array K := Array.ofFn (n := n) (fun i => f i.val)

/-- the window of a series starting at `s`, re-indexed from 0 (`a[s:]`) -/
def win (f : Nat → K) (s : Nat) : Nat → K := fun i => f (s + i)

/-- minimum / maximum of the first `n + 1` values of a series -/
def minTo (f : Nat → K) : Nat → K
  | 0 => f 0
  | n + 1 => minK (minTo f n) (f (n + 1))

def maxTo (f : Nat → K) : Nat → K
  | 0 => f 0
  | n + 1 => maxK (maxTo f n) (f (n + 1))

end TWV
