import TWV.Model.WeaverVocab
import TWV.Model.WeaverIO

/-!
# Vocabulary for translator T14: accessors, factories and value slicing of `Weaver`

`harness/t14_weaverio.py` regenerates `TWV/Generated/WeaverIO.lean` from the Python AST of the methods of
`class Weaver` that T9 does not translate (`slice_by_value`, `from_2d_array`, `from_csv`, `get`, `get_original`,
`get_reference`, `__len__`, `to_2d_array`, `to_function`).  The generated definitions are read-only or build a new
object, so they return `Except Err τ` (no attribute record is threaded); they are written with `Wv.*`
(`TWV/Model/WeaverVocab.lean`) and the primitives below.  `TWV/Tie/WeaverIO.lean` relates the primitives to the
list functions of the hand model (`List.findIdx?`, `List.zipWith`, `List.map`) and proves every generated
definition equal to its hand model.

This file is Mathlib-free.
-/

namespace TWV
namespace Wio

variable {K : Type} [Add K] [Sub K] [Mul K] [Div K] [Neg K] [Zero K] [One K] [NatCast K]
  [LT K] [LE K] [DecidableLT K] [DecidableLE K] [DecidableEq K]

/-- a call / an index that can fail, in a method that returns a value -/
def bindX {α β : Type} (e : Except Err α) (k : α → Except Err β) : Except Err β :=
  match e with
  | .error err => .error err
  | .ok v => k v

/-- `np.where(a == v)[0]` from position `i` on -/
def whereEqFrom (v : K) : List K → Nat → List Nat
  | [], _ => []
  | a :: as, i => if a = v then i :: whereEqFrom v as (i + 1) else whereEqFrom v as (i + 1)

/-- `np.where(a == v)[0]`: all indices at which `a` equals `v`, increasing -/
def whereEq (a : List K) (v : K) : List Nat := whereEqFrom v a 0

/-- `l[k]` for an array of indices / a shape tuple and a literal `k` (`IndexError` when out of range,
negative `k` from the end) -/
def getIdx (l : List Nat) (k : Int) : Except Err Nat :=
  if 0 ≤ k then
    match l[k.toNat]? with
    | some v => .ok v
    | none => .error .indexError
  else if k.natAbs ≤ l.length then
    match l[l.length - k.natAbs]? with
    | some v => .ok v
    | none => .error .indexError
  else .error .indexError

/-- `xy.shape` -/
def shape (xy : Weaver.NdArr K) : List Nat := xy.shape

/-- `xy[:, j]` for a literal `j`: `IndexError` unless `xy` is 2-D and `j` is a column of it -/
def col (xy : Weaver.NdArr K) (j : Int) : Except Err (List K) :=
  match xy with
  | .d2 rows w =>
    if 0 ≤ j ∧ j < (w : Int) then .ok (rows.map (fun r => r.getD j.toNat 0))
    else if j < 0 ∧ -(w : Int) ≤ j then .ok (rows.map (fun r => r.getD (w - j.natAbs) 0))
    else .error .indexError
  | _ => .error .indexError

/-- `np.column_stack((c0, c1, …))` of 1-D arrays: `ValueError` unless all have the same length; row `i` is
`[c0[i], c1[i], …]` -/
def column_stack (cols : List (List K)) : Except Err (List (List K)) :=
  match cols with
  | [] => .error .valueError
  | c :: cs =>
    if cs.all (fun d => d.length = c.length) then
      .ok ((List.range c.length).map (fun i => cols.map (fun d => d.getD i 0)))
    else .error .valueError

/-- `Weaver(…)` as an expression: a failing `__init__` leaves no object; the value-level content of the new
object is its `Weaver.State` (the scale factors start at 1: `TieWeaverStep.init_scales`) -/
def construct (r : Wv.Res K) : Except Err (Weaver.State K) := r.toExceptState

/-- `np.loadtxt(file, delimiter=…, dtype=…)`: external data, a function of exactly these three -/
def loadtxt (oracle : String → String → String → Except Err (Weaver.NdArr K)) (file delimiter dtype : String) :
    Except Err (Weaver.NdArr K) := oracle file delimiter dtype

/-- `process.spline_smooth(x, y, s=…)`: the callable it returns, a function of exactly these three
(`s = none`: the callee's own default) -/
def spline_smooth (oracle : List K → List K → Option K → List K → List K) (x y : List K) (s : Option K) :
    List K → List K := oracle x y s

end Wio
end TWV
