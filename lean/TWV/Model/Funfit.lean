import TWV.Model.Base

/-!
# Model of `funfit.py`: the five elementary shape functions

Hand-written; `TWV/Generated/Funfit.lean` is regenerated from the Python AST on every run and
`TWV/Tie/Funfit.lean` proves the two equal.  `** alpha` is the parameter `pw`.
-/

namespace TWV

variable {K : Type} [Add K] [Sub K] [Mul K] [Div K] [One K]

/-- `lin_fit(x, (x0, y0), (x1, y1))` -/
def linFit (x : K) (p0 p1 : K × K) : K :=
  p0.2 + (p1.2 - p0.2) * (x - p0.1) / (p1.1 - p0.1)

/-- `exp_fit` -/
def expFit (pw : K → K) (x : K) (p0 p1 : K × K) : K :=
  p0.2 + (p1.2 - p0.2) * pw ((x - p0.1) / (p1.1 - p0.1))

/-- `exp_xy_fit` -/
def expXYFit (pw : K → K) (x : K) (p0 p1 : K × K) : K :=
  p0.2 + (p1.2 - p0.2) * (1 - pw ((p1.1 - x) / (p1.1 - p0.1)))

/-- `exp_lin_fit` -/
def expLinFit (pw : K → K) (x : K) (p0 p1 : K × K) : K :=
  linFit x p0 p1 * (x - p0.1) / (p1.1 - p0.1) + expFit pw x p0 p1 * (p1.1 - x) / (p1.1 - p0.1)

/-- `lin_exp_xy_fit` -/
def linExpXYFit (pw : K → K) (x : K) (p0 p1 : K × K) : K :=
  expXYFit pw x p0 p1 * (x - p0.1) / (p1.1 - p0.1) + linFit x p0 p1 * (p1.1 - x) / (p1.1 - p0.1)

end TWV
