import TWV.Model.Arrays
import TWV.Model.Search

/-!
# Model of `match.py`

* `weight`, `yhat`, `stretch` — `_integral_matching_stretch` (lines 235-265) on a window with
  `N + 1` samples (`N` intervals);
* `upd`, `loop`, `loopA` — the `for … zip(…)` of `_interval_integral_matching_stretch`
  (lines 334-338), one window after the other on the *already updated* array;
* `fixedPoints`, `matchRef` — `integral_matching_reference_stretch` (lines 90-134).

The real exponent `** alpha` is the parameter `pw : K → K`.
-/

namespace TWV

variable {K : Type} [Add K] [Sub K] [Mul K] [Div K] [Neg K] [Zero K] [One K] [NatCast K]
  [LT K] [LE K] [DecidableLT K] [DecidableLE K] [DecidableEq K]

/-! ### the stretching kernel -/

/-- `w = 1 - (2 * |x_n2 - x| / delta_x) ** alpha`, or all ones for a two-point window -/
def weight (pw : K → K) (N : Nat) (x : Nat → K) (i : Nat) : K :=
  if N = 1 then 1 else 1 - pw (two * absK ((x N + x 0) / two - x i) / (x N - x 0))

/-- the denominator of `y_hat` -/
def stretchDenom (r : Rule) (pw : K → K) (N : Nat) (x : Nat → K) : K :=
  match r with
  | .trapezoid => sumTo N (fun j => (weight pw N x (j + 1) + weight pw N x j) * (x (j + 1) - x j))
  | .rectangle => sumTo N (fun j => weight pw N x j * (x (j + 1) - x j))

/-- `y_hat` (lines 258-262) -/
def yhat (r : Rule) (pw : K → K) (N : Nat) (x y : Nat → K) (I : K) : K :=
  match r with
  | .trapezoid => two * (I - integralSum r N x y) / stretchDenom r pw N x
  | .rectangle => (I - integralSum r N x y) / stretchDenom r pw N x

/-- `res_y = y + y_hat * w` -/
def stretch (r : Rule) (pw : K → K) (N : Nat) (x y : Nat → K) (I : K) (i : Nat) : K :=
  y i + yhat r pw N x y I * weight pw N x i

/-! ### the interval loop -/

/-- one iteration: `y[s:e+1] = stretch(x[s:e+1], y[s:e+1], I)` -/
def upd (r : Rule) (pw : K → K) (x y : Nat → K) (s e : Nat) (I : K) : Nat → K :=
  fun j => if s ≤ j ∧ j ≤ e then stretch r pw (e - s) (win x s) (win y s) I (j - s) else y j

/-- the loop on total functions (the object of the theorems) -/
def loop (r : Rule) (pw : K → K) (x : Nat → K) : List (Nat × Nat × K) → (Nat → K) → (Nat → K)
  | [], y => y
  | (s, e, I) :: ws, y => loop r pw x ws (upd r pw x y s e I)

/-- `upd` with the shift factor `y_hat` handed in (so that the driver computes it once per window) -/
def updWith (h : K) (pw : K → K) (x y : Nat → K) (s e : Nat) : Nat → K :=
  fun j => if s ≤ j ∧ j ≤ e then win y s (j - s) + h * weight pw (e - s) (win x s) (j - s) else y j

theorem updWith_eq (r : Rule) (pw : K → K) (x y : Nat → K) (s e : Nat) (I : K) :
    updWith (yhat r pw (e - s) (win x s) (win y s) I) pw x y s e = upd r pw x y s e I := rfl

/-- the loop as the driver runs it: the array is materialised after every window and `y_hat` is computed
once per window (`TWV.loopA_get` / `C01.loopA_eq_loop` show it computes `loop`) -/
def loopA (r : Rule) (pw : K → K) (x : Nat → K) : List (Nat × Nat × K) → Array K → Array K
  | [], y => y
  | (s, e, I) :: ws, y =>
    let h := yhat r pw (e - s) (win x s) (win (arrFn y) s) I
    loopA r pw x ws (tab y.size (updWith h pw x (arrFn y) s e))

/-- `zip(integral_values, F[:-1], F[1:])` -/
def windows : List K → List Nat → List (Nat × Nat × K)
  | I :: Is, s :: e :: rest => (s, e, I) :: windows Is (e :: rest)
  | _, _ => []

/-- is some window's denominator zero?  (NumPy then produces `inf`/`nan`; the driver prints `nan`) -/
def loopDefined (r : Rule) (pw : K → K) (x : Nat → K) (ws : List (Nat × Nat × K)) : Bool :=
  ws.all (fun w => decide (stretchDenom r pw (w.2.1 - w.1) (win x w.1) ≠ 0)
                    && decide (w.2.1 - w.1 = 1 ∨ x w.2.1 - x w.1 ≠ 0))

/-! ### fixed points -/

/-- remove consecutive duplicates -/
def dedupAdj {α : Type} [DecidableEq α] : List α → List α
  | [] => []
  | [a] => [a]
  | a :: b :: rest => if a = b then dedupAdj (b :: rest) else a :: dedupAdj (b :: rest)

/-- `np.unique` on values -/
def uniqueK (l : List K) : List K := dedupAdj (l.mergeSort (fun a b => decide (a ≤ b)))

/-- `np.unique` on indices -/
def uniqueN (l : List Nat) : List Nat := dedupAdj (l.mergeSort (fun a b => decide (a ≤ b)))

/-- `np.where(np.isin(a, vals))[0]` -/
def whereIsin (a vals : List K) : List Nat :=
  (List.range a.length).filter (fun i => match a[i]? with | some v => vals.contains v | none => false)

/-- `a.take(indices)` (out of range is `IndexError`; the searches never return negative values
with `fill_not_valid=True`) -/
def takeK (a : List K) : List Int → Except Err (List K)
  | [] => .ok []
  | i :: is =>
    if i < 0 then .error .indexError else
    match a[i.toNat]? with
    | none => .error .indexError
    | some v => (takeK a is).map (v :: ·)

structure FixedPoints (K : Type) where
  inX : List K          -- `fixed_points_in_x`
  idxX : List Nat       -- `fixed_points_indices_in_x`
  idxRef : List Nat     -- `fixed_points_in_x_ref_indices`

/-- lines 92-126 -/
def fixedPoints (x xref : List K) (fpx : Option (List K)) (fpi : Option (List Nat))
    (strategy : String) : Except Err (FixedPoints K) := do
  if let some v := fpx then
    if v.length > x.length then throw .valueError
  if let some v := fpi then
    if v.length > x.length then throw .valueError
  let fp : FixedPoints K ←
    match fpi with
    | some ix => do
        let ix := uniqueN ix
        let inX ← takeK x (ix.map Int.ofNat)
        let ri ← Search.find "closest" true xref inX
        let inRef ← takeK xref ri
        pure { inX := inX, idxX := ix, idxRef := whereIsin xref inRef }
    | none =>
        match fpx with
        | none => do
            let xi ← Search.find strategy true x xref
            let inX ← takeK x xi
            let inX := uniqueK inX
            pure { inX := inX, idxX := whereIsin x inX, idxRef := List.range xref.length }
        | some v => do
            let inX := uniqueK v
            let ri ← Search.find "closest" true xref inX
            let inRef ← takeK xref ri
            pure { inX := inX, idxX := whereIsin x inX, idxRef := whereIsin xref inRef }
  if fp.idxX.length ≠ fp.inX.length then throw .valueError
  pure fp

/-- `integral_matching_reference_stretch` without the optional final smoothing -/
def matchRef (pw : K → K) (x y xref yref : List K) (fpx : Option (List K))
    (fpi : Option (List Nat)) (strategy target refRule : String) : Except Err (Option (List K)) := do
  let fp ← fixedPoints x xref fpx fpi strategy
  let rr ← match Rule.ofString? refRule with
    | some r => pure r | none => throw Err.valueError
  let xr := arrFn xref.toArray
  let yr := arrFn yref.toArray
  let ivals := sumOverIndices (integralAt rr xr yr) fp.idxRef
  let ws := windows ivals fp.idxX
  if ws.isEmpty then pure (some y) else
  let tr ← match Rule.ofString? target with
    | some r => pure r | none => throw Err.valueError
  let xf := arrFn x.toArray
  if loopDefined tr pw xf ws then
    pure (some (loopA tr pw xf ws y.toArray).toList)
  else pure none

end TWV
