import TWV.Model.Arrays
import TWV.Model.Funfit

/-!
# Model of `rfa.py`: the recreate-from-average strategies

Index conventions (as in the code after `extend_linspace` / `extend_constant`): the oversampled
arrays get one virtual interval of `n` samples on each side, so *extended* interval `k`
(`1 ≤ k ≤ m - 1`) is original interval `k - 1`, extended position `(k, i)` is flat index
`k * n + i`, and the returned arrays are the cut `[n : -n]`, i.e. result index `j` is extended
position `n + j`.

Each window strategy is written once for windows *given* per extended interval
(`aL k`, `aR k`, `bL k`, `bR k`); the fixed strategies use constant windows, the adaptive ones
`windowsAdaptive`.  The value of a sample is the value its **last writer** among the loops of
the code leaves there (`rfa.py` lines 270-280, 481-500, 648-669, 817-851).
-/

namespace TWV
namespace Rfa

variable {K : Type} [Add K] [Sub K] [Mul K] [Div K] [Neg K] [Zero K] [One K] [NatCast K]
  [LT K] [LE K] [DecidableLT K] [DecidableLE K] [DecidableEq K]

/-! ### grids -/

/-- `x` after `_initial_x_oversample` and `extend_linspace(direction='both')` -/
def XE (x : Nat → K) (m n : Nat) : Nat → K :=
  extendLin (oversampleLin x n) (oversampleLen m n) n .both none none

/-- `y` after `_initial_y_oversample` and `extend_constant(direction='both')` -/
def YE (y : Nat → K) (m n : Nat) : Nat → K :=
  extendConst (oversamplePC y n) (oversampleLen m n) n .both

/-- the average of extended interval `k`: `y[k, 0]` -/
def Yk (y : Nat → K) (m n k : Nat) : K := YE y m n (k * n)

/-- length of what every strategy returns -/
def outLen (m n : Nat) : Nat := (m - 1) * n + 1

/-- the returned abscissae: `x.array[n:-n]` -/
def outX (x : Nat → K) (m n : Nat) : Nat → K := fun j => XE x m n (n + j)

/-! ### parameters -/

/-- `a = int(a or alpha * n)`, at least 2 (lines 242-246); `B` bounds `alpha * n` from above -/
def deriveA (B n : Nat) (alpha : K) (a : Option Nat) : Nat :=
  let a0 := match a with
    | some a => a
    | none => natFloorUpTo B (alpha * (n : K))
  if a0 < 2 then 2 else a0

/-- `b = int(beta * a_l)` -/
def deriveB (B : Nat) (beta : K) (aL : Nat) : Nat := natFloorUpTo B (beta * (aL : K))

structure Windows where
  aL : Nat → Nat
  aR : Nat → Nat
  bL : Nat → Nat
  bR : Nat → Nat

/-- the fixed strategies: `a_l = a_r = int(a / 2)`, `b = int(beta * a_l)` on both sides -/
def windowsFixed (a b : Nat) : Windows :=
  { aL := fun _ => a / 2, aR := fun _ => a / 2, bL := fun _ => b, bR := fun _ => b }

/-- `get_adaptive_transition_points` (lines 428-460) for extended interval `k`;
`Y` are the extended averages, `gpow` is `gamma ** adaptive_smooth`.
Returns `(a_l, a_r)`. -/
def adaptiveAt (gpow : K → K) (a : Nat) (Y : Nat → K) (k : Nat) : Nat × Nat :=
  let nom := absK (Y (k + 1) - Y k)
  let denom := absK (Y k - Y (k - 1))
  if nom = 0 ∧ denom = 0 then (0, 0)
  else if nom = 0 then (a / 2, 0)
  else if denom = 0 then (0, a / 2)
  else
    let gamma := gpow (nom / denom)
    let al := gamma * (a : K) / (1 + gamma)
    let ar := (a : K) / (1 + gamma)
    (natFloorUpTo a (minK (maxK al 1) (a : K)), natFloorUpTo a (minK (maxK ar 1) (a : K)))

/-- the adaptive windows with the `[1]` sentinels at extended intervals `0` and `m` -/
def windowsAdaptive (gpow : K → K) (a m : Nat) (Y : Nat → K) (bOf : Nat → Nat) : Windows :=
  let al : Nat → Nat := fun k => if k = 0 ∨ m ≤ k then 1 else (adaptiveAt gpow a Y k).1
  let ar : Nat → Nat := fun k => if k = 0 ∨ m ≤ k then 1 else (adaptiveAt gpow a Y k).2
  { aL := al, aR := ar, bL := fun k => bOf (al k), bR := fun k => bOf (ar k) }

/-- the un-floored, clamped shares `(min (max a_l 1) a, min (max a_r 1) a)` that `adaptiveAt`
hands to `int()` (reported to the harness: where a share is within rounding distance of an
integer, `int()` of the float computation may legitimately land on either side) -/
def adaptiveShares (gpow : K → K) (a : Nat) (Y : Nat → K) (k : Nat) : Option (K × K) :=
  let nom := absK (Y (k + 1) - Y k)
  let denom := absK (Y k - Y (k - 1))
  if nom = 0 ∨ denom = 0 then none
  else
    let gamma := gpow (nom / denom)
    let al := gamma * (a : K) / (1 + gamma)
    let ar := (a : K) / (1 + gamma)
    some (minK (maxK al 1) (a : K), minK (maxK ar 1) (a : K))

/-! ### transition values -/

/-- the border value `z_0` of extended interval `k` (`z_1` of interval `k` is `z0 (k + 1)`) -/
def z0 (X Y : Nat → K) (n : Nat) (w : Windows) (adaptive : Bool) (k : Nat) : K :=
  if adaptive ∧ w.aR (k - 1) = 0 ∧ w.aL k = 0 then Y (k - 1)
  else linFit (X (k * n)) (X (k * n - w.aR (k - 1)), Y (k - 1)) (X (k * n + w.aL k), Y k)

/-- `z_0_lb` / `z_0_bl` -/
def z0lb (X Y : Nat → K) (n : Nat) (w : Windows) (adaptive : Bool) (k : Nat) : K :=
  if adaptive ∧ w.bL k = 0 then z0 X Y n w adaptive k
  else linFit (X (k * n + w.bL k)) (X (k * n), z0 X Y n w adaptive k) (X (k * n + w.aL k), Y k)

/-- `z_0_rb` / `z_0_br` -/
def z0rb (X Y : Nat → K) (n : Nat) (w : Windows) (adaptive : Bool) (k : Nat) : K :=
  if adaptive ∧ w.bR k = 0 then z0 X Y n w adaptive (k + 1)
  else linFit (X (k * n + n - w.bR k)) (X (k * n + n - w.aR k), Y k)
         (X ((k + 1) * n), z0 X Y n w adaptive (k + 1))

/-- value written by the right loop of the linear strategies at `(k, i)` -/
def linRight (X Y : Nat → K) (n : Nat) (w : Windows) (adaptive : Bool) (k i : Nat) : K :=
  linFit (X (k * n + i)) (X (k * n + n - w.aR k), Y k) (X (k * n + n), z0 X Y n w adaptive (k + 1))

/-- `LinearFixedRFA` / `LinearAdaptiveRFA`: final value at result index `j` -/
def linOut (X Y : Nat → K) (m n : Nat) (w : Windows) (adaptive : Bool) (j : Nat) : K :=
  let k := j / n + 1
  let i := j % n
  if k ≤ m - 1 ∧ i < w.aL k then
    linFit (X (k * n + i)) (X (k * n), z0 X Y n w adaptive k) (X (k * n + w.aL k), Y k)
  else if k ≤ m - 1 ∧ n - w.aR k < i then linRight X Y n w adaptive k i
  else if i = 0 ∧ 2 ≤ k ∧ 1 ≤ w.aR (k - 1) then linRight X Y n w adaptive (k - 1) n
  else Y k

/-- `ExpFixedRFA` / `ExpAdaptiveRFA`: final value at result index `j` -/
def expOut (pw : K → K) (X Y : Nat → K) (m n : Nat) (w : Windows) (adaptive : Bool) (j : Nat) : K :=
  let k := j / n + 1
  let i := j % n
  if k ≤ m - 1 then
    if i < w.bL k then
      linFit (X (k * n + i)) (X (k * n), z0 X Y n w adaptive k)
        (X (k * n + w.bL k), z0lb X Y n w adaptive k)
    else if i < w.aL k then
      linExpXYFit pw (X (k * n + i)) (X (k * n + w.bL k), z0lb X Y n w adaptive k)
        (X (k * n + w.aL k), Y k)
    else if n - w.aR k ≤ i ∧ i < n - w.bR k then
      expLinFit pw (X (k * n + i)) (X (k * n + n - w.aR k), Y k)
        (X (k * n + n - w.bR k), z0rb X Y n w adaptive k)
    else if n - w.bR k ≤ i then
      linFit (X (k * n + i)) (X (k * n + n - w.bR k), z0rb X Y n w adaptive k)
        (X (k * n + n), z0 X Y n w adaptive (k + 1))
    else Y k
  else Y k

/-- the windows the code can run with without one loop overwriting the other:
`a_l + a_r ≤ n`, `b ≤ a` on both sides -/
def windowsOk (w : Windows) (m n : Nat) : Bool :=
  (List.range (m + 1)).all (fun k => decide (w.aL k + w.aR k ≤ n) && decide (w.bL k ≤ w.aL k)
    && decide (w.bR k ≤ w.aR k))

inductive Strategy | pc | linFixed | linAdaptive | expFixed | expAdaptive
  deriving DecidableEq, Repr

def Strategy.ofString? : String → Option Strategy
  | "pc" => some .pc | "linfixed" => some .linFixed | "linadaptive" => some .linAdaptive
  | "expfixed" => some .expFixed | "expadaptive" => some .expAdaptive | _ => none

/-- the values every (non-function) strategy returns, for windows given -/
def outY (s : Strategy) (pw : K → K) (x y : Nat → K) (m n : Nat) (w : Windows) : Nat → K :=
  let X := XE x m n
  let Y := Yk y m n
  match s with
  | .pc => oversamplePC y n
  | .linFixed => linOut X Y m n w false
  | .linAdaptive => linOut X Y m n w true
  | .expFixed => expOut pw X Y m n w false
  | .expAdaptive => expOut pw X Y m n w true

/-- `<Strategy>(x, y, n, …).rfa()` for windows given: the constructor rejects `n < 2`
(`AbstractRFA.__init__`, lines 50-55); the result is the pair of series of length `outLen m n` -/
def run (s : Strategy) (pw : K → K) (x y : Nat → K) (m n : Nat) (w : Windows) :
    Except Err ((Nat → K) × (Nat → K)) :=
  if n < 2 then .error .valueError else .ok (outX x m n, outY s pw x y m n w)

end Rfa
end TWV
