import TWV.Model.Base

/-!
# Model of the three sorted-array scans of `sorted_array_utils.py`

`find_closest_lower_equal_element_indices_to_values`,
`find_closest_higher_equal_element_indices_to_values`,
`find_closest_lower_or_higher_element_indices_to_values` and the dispatcher
`find_closest_element_indices_to_values`, written as the two-pointer scans the code runs:
a first loop for the queries below / at the first element, a second loop whose inner
`while` advances the array pointer and never moves it back.
-/

namespace TWV
namespace Search

variable {K : Type} [Add K] [Sub K] [LT K] [LE K] [DecidableLT K] [DecidableLE K]

/-! ### lower -/

/-- inner `while x_next_val is not None and x_next_val <= lookup_val` (lines 369-373):
`idx` is `x_idx`, the list holds `x_next_val` and what the iterator has not produced yet. -/
def advLower (l : K) : Nat → List K → Nat × List K
  | idx, [] => (idx, [])
  | idx, nx :: rest => if nx ≤ l then advLower l (idx + 1) rest else (idx, nx :: rest)

/-- second outer loop (lines 366-377) -/
def lowerPhase2 : Nat → List K → List K → List Int
  | _, _, [] => []
  | idx, rest, l :: ls =>
      let r := advLower l idx rest
      (r.1 : Int) :: lowerPhase2 r.1 r.2 ls

/-- first outer loop (lines 360-363): queries below the first element -/
def lowerPhase1 (fill : Bool) (x0 : K) : List K → List Int × List K
  | [] => ([], [])
  | l :: ls =>
      if l < x0 then
        let r := lowerPhase1 fill x0 ls
        ((if fill then 0 else -1) :: r.1, r.2)
      else ([], l :: ls)

def findLower (fill : Bool) : List K → List K → Except Err (List Int)
  | [], _ => .error .stopIteration            -- `next(x_it)`
  | _ :: _, [] => .error .stopIteration       -- `next(lookup_it)`
  | x0 :: xs, q :: qs =>
      let r := lowerPhase1 fill x0 (q :: qs)
      .ok (r.1 ++ lowerPhase2 0 xs r.2)

/-! ### higher -/

/-- inner `while x_next_val is not None and x_next_val < lookup_val` (lines 432-436) -/
def advHigher (l : K) : Nat → List K → Nat × List K
  | idx, [] => (idx, [])
  | idx, nx :: rest => if nx < l then advHigher l (idx + 1) rest else (idx, nx :: rest)

/-- second outer loop (lines 429-443); `len` is `len(x)` -/
def higherPhase2 (fill : Bool) (len : Nat) : Nat → List K → List K → List Int
  | _, _, [] => []
  | idx, rest, l :: ls =>
      let r := advHigher l idx rest
      (match r.2 with
        | [] => if fill then (r.1 : Int) else (len : Int)
        | _ :: _ => (r.1 : Int) + 1) :: higherPhase2 fill len r.1 r.2 ls

/-- first outer loop (lines 423-426): queries at or below the first element -/
def higherPhase1 (x0 : K) : List K → List Int × List K
  | [] => ([], [])
  | l :: ls =>
      if l ≤ x0 then
        let r := higherPhase1 x0 ls
        (0 :: r.1, r.2)
      else ([], l :: ls)

def findHigher (fill : Bool) : List K → List K → Except Err (List Int)
  | [], _ => .error .stopIteration
  | _ :: _, [] => .error .stopIteration
  | x0 :: xs, q :: qs =>
      let r := higherPhase1 x0 (q :: qs)
      .ok (r.1 ++ higherPhase2 fill (xs.length + 1) 0 xs r.2)

/-! ### closest -/

/-- inner loop of the closest variant (lines 493-498): also tracks `x_val` -/
def advClosest (l : K) : Nat → K → List K → Nat × K × List K
  | idx, xv, [] => (idx, xv, [])
  | idx, xv, nx :: rest => if nx < l then advClosest l (idx + 1) nx rest else (idx, xv, nx :: rest)

/-- second outer loop (lines 490-510) -/
def closestPhase2 : Nat → K → List K → List K → List Int
  | _, _, _, [] => []
  | idx, xv, rest, l :: ls =>
      let r := advClosest l idx xv rest
      (match r.2.2 with
        | [] => (r.1 : Int)
        | nx :: _ => if l - r.2.1 ≤ nx - l then (r.1 : Int) else (r.1 : Int) + 1)
        :: closestPhase2 r.1 r.2.1 r.2.2 ls

def findClosest : List K → List K → Except Err (List Int)
  | [], _ => .error .stopIteration
  | _ :: _, [] => .error .stopIteration
  | x0 :: xs, q :: qs =>
      let r := higherPhase1 x0 (q :: qs)         -- the first loop is the same as in `higher`
      .ok (r.1 ++ closestPhase2 0 x0 xs r.2)

/-! ### dispatcher -/

inductive Strategy | closest | lower | higher
  deriving DecidableEq, Repr

def Strategy.ofString? : String → Option Strategy
  | "closest" => some .closest | "lower" => some .lower | "higher" => some .higher | _ => none

/-- `find_closest_element_indices_to_values` (lines 543-549) -/
def find (strategy : String) (fill : Bool) (x lookup : List K) : Except Err (List Int) :=
  match Strategy.ofString? strategy with
  | some .closest => findClosest x lookup
  | some .lower => findLower fill x lookup
  | some .higher => findHigher fill x lookup
  | none => .error .valueError

end Search
end TWV
