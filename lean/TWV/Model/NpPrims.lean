import TWV.Model.Vec

/-!
# TWV.Model.NpPrims — NumPy array primitives on `Vec` (target vocabulary of translator T8)

`harness/t8_arrays.py` regenerates the array helpers of `sorted_array_utils.py`
(`oversample_linspace`, `oversample_piecewise_constant`, `extend_linspace`, `extend_constant`,
`append_one_sample`) and `process.repeat` as compositions of the primitives below.  A one-dimensional
array is a `Vec` (a length and a *total* element function, `TWV/Model/Vec.lean`); a two-dimensional
array (only the intermediate value of `np.linspace(u, v, k)` for vectors `u`, `v`) is a `Mat`.

Integers.  Python counts (`num`, `n`, `repeats`, `len(a)`, sums and products of them) are `Nat`;
anything that can be negative (an index or a slice bound such as `-num + 1`, `-n - 1`, `n * i - 1`)
is an `Int` and goes through Python's rules:

* `normIdx len k` — the position `a[k]` reads: `k` for `k ≥ 0`, `len + k` for `k < 0`
  (NumPy raises outside `-len ≤ k < len`; here the position is then some total value, the tie
  theorems assume the bounds the Python code needs);
* `clamp len k` — a slice bound: `len + k` (at least `0`) for `k < 0`, `min k len` for `k ≥ 0`;
  so `a[: -num + 1]` is the *empty* array for `num = 1`, as in Python.

All operations are total; no Mathlib import; polymorphic over the core operation classes.
The `get` / `len` lemmas are in `TWV/Lemmas/NpPrims.lean`.
-/

namespace TWV

/-- a NumPy 2-D array: `rows × cols` and a total element function -/
structure Mat (K : Type) where
  rows : Nat
  cols : Nat
  get : Nat → Nat → K

namespace Np

/-! ### Python index and slice-bound arithmetic -/

/-- the position read by `a[k]` in an array of length `len` -/
def normIdx (len : Nat) (k : Int) : Nat :=
  if k < 0 then ((len : Int) + k).toNat else k.toNat

/-- a slice bound `k` in an array of length `len` -/
def clamp (len : Nat) (k : Int) : Nat :=
  if k < 0 then ((len : Int) + k).toNat else Min.min k.toNat len

/-- lower bound of `a[lo:hi]` (`none` = omitted) -/
def loB (len : Nat) : Option Int → Nat
  | none => 0
  | some k => clamp len k

/-- upper bound of `a[lo:hi]` (`none` = omitted) -/
def hiB (len : Nat) : Option Int → Nat
  | none => len
  | some k => clamp len k

section defs

variable {K : Type} [Add K] [Sub K] [Mul K] [Div K] [Neg K] [Zero K] [One K] [NatCast K]
  [LT K] [LE K] [DecidableLT K] [DecidableLE K] [DecidableEq K]

/-! ### reading -/

/-- `a[k]` -/
def idx (a : Vec K) (k : Int) : K := a.get (normIdx a.len k)

/-- `a[lo:hi]` -/
def slice (a : Vec K) (lo hi : Option Int) : Vec K :=
  ⟨hiB a.len hi - loB a.len lo, fun i => a.get (loB a.len lo + i)⟩

/-! ### building -/

/-- `a.repeat(k)` / `np.repeat(a, k)`: every element `k` times -/
def repeatEach (a : Vec K) (k : Nat) : Vec K := ⟨a.len * k, fun i => a.get (i / k)⟩

/-- `np.tile(a, k)` (and `[c0, c1, …] * k` for a Python list): the whole array `k` times -/
def tile (a : Vec K) (k : Nat) : Vec K := ⟨a.len * k, fun i => a.get (i % a.len)⟩

/-- `np.full(k, v)`, `np.ones(k) * v` -/
def full (k : Nat) (v : K) : Vec K := ⟨k, fun _ => v⟩

/-- `np.arange(k)` -/
def arange (k : Nat) : Vec K := ⟨k, fun i => ((i : Nat) : K)⟩

/-- `np.append(a, v)` for a scalar `v` -/
def append1 (a : Vec K) (v : K) : Vec K :=
  ⟨a.len + 1, fun i => if i < a.len then a.get i else v⟩

/-- `np.append(a, b)`, `np.concatenate([a, b])`, `np.hstack` -/
def concat (a b : Vec K) : Vec K :=
  ⟨a.len + b.len, fun i => if i < a.len then a.get i else b.get (i - a.len)⟩

/-- `np.insert(a, pos, b)` for an array `b`: `b` is placed before position `pos` of `a` -/
def insertAt (a : Vec K) (pos : Int) (b : Vec K) : Vec K :=
  ⟨a.len + b.len, fun i =>
    if i < normIdx a.len pos then a.get i
    else if i < normIdx a.len pos + b.len then b.get (i - normIdx a.len pos)
    else a.get (i - b.len)⟩

/-- `np.insert(a, pos, v)` for a scalar `v` -/
def insert1 (a : Vec K) (pos : Int) (v : K) : Vec K := insertAt a pos (full 1 v)

/-- `np.linspace(start, stop, k, endpoint=…)` for scalars: `start + i * step` with
`step = (stop - start) / (k - 1)` (`/ k` without the end point); with the end point the last sample
is `stop` itself -/
def linspace (start stop : K) (k : Nat) (endpoint : Bool) : Vec K :=
  ⟨k, fun i =>
    if endpoint = true ∧ i + 1 = k ∧ 1 < k then stop
    else start + ((i : Nat) : K) * ((stop - start) / (((if endpoint then k - 1 else k) : Nat) : K))⟩

/-! ### two-dimensional intermediate values -/

/-- `np.linspace(u, v, k, endpoint=…)` for vectors: row `j` holds sample `j` of every column's
linspace, shape `(k, len u)` -/
def linspaceRows (u v : Vec K) (k : Nat) (endpoint : Bool) : Mat K :=
  ⟨k, Min.min u.len v.len, fun j c => (linspace (u.get c) (v.get c) k endpoint).get j⟩

/-- `m[lo:hi]`: a slice of the rows -/
def sliceRows (m : Mat K) (lo hi : Option Int) : Mat K :=
  ⟨hiB m.rows hi - loB m.rows lo, m.cols, fun i j => m.get (loB m.rows lo + i) j⟩

/-- `m.T` -/
def transpose (m : Mat K) : Mat K := ⟨m.cols, m.rows, fun i j => m.get j i⟩

/-- `m.flatten()`, `m.ravel()`, `m.reshape(-1)` (row-major, `order='C'`) -/
def flatten (m : Mat K) : Vec K := ⟨m.rows * m.cols, fun i => m.get (i / m.cols) (i % m.cols)⟩

/-- `m.flatten(order='F')` (column-major) -/
def flattenF (m : Mat K) : Vec K := ⟨m.rows * m.cols, fun i => m.get (i % m.rows) (i / m.rows)⟩

/-! ### in-place updates and loops -/

/-- `a[lo:hi] = f(a[lo:hi])` element-wise (`a[lo:hi] += d` is `sliceMap a lo hi (· + d)`) -/
def sliceMap (a : Vec K) (lo hi : Option Int) (f : K → K) : Vec K :=
  ⟨a.len, fun i => if loB a.len lo ≤ i ∧ i < hiB a.len hi then f (a.get i) else a.get i⟩

/-- `for i in range(lo, hi): s = f i s` -/
def forRange {σ : Type} (lo hi : Nat) (s : σ) (f : Nat → σ → σ) : σ :=
  (List.range' lo (hi - lo)).foldl (fun s i => f i s) s

end defs

end Np
end TWV
