import TWV.Model.Arrays

/-!
# Model of `interval.py` (`IntervalArray`) and of `process.average`

The wrapped array is a total function with its length; the interval size is `n`.
-/

namespace TWV
namespace Interval

variable {K : Type} [Add K] [Sub K] [Mul K] [Div K] [Neg K] [Zero K] [One K] [NatCast K]
  [LT K] [LE K] [DecidableLT K] [DecidableLE K] [DecidableEq K]

/-- Python index normalisation for an array of length `len`: negative indices count from the
end; out of range is `IndexError` -/
def pyIndex (len : Nat) (k : Int) : Except Err Nat :=
  if 0 ≤ k then (if k.toNat < len then .ok k.toNat else .error .indexError)
  else (if (-k).toNat ≤ len then .ok (len - (-k).toNat) else .error .indexError)

/-- flat index of `a[i, j]` (`__getitem__` / `__setitem__` lines 70-97): `i * n + j` -/
def flat (n : Nat) (i j : Int) : Int := i * n + j

/-- `a[i, j]` -/
def get (a : Nat → K) (len n : Nat) (i j : Int) : Except Err K :=
  (pyIndex len (flat n i j)).map a

/-- `a[i, j] = v` -/
def set (a : Nat → K) (len n : Nat) (i j : Int) (v : K) : Except Err (Nat → K) :=
  (pyIndex len (flat n i j)).map (fun p => fun q => if q = p then v else a q)

/-- `nr_of_full_intervals` -/
def nrFull (len n : Nat) : Nat := len / n

/-- number of rows of `to_2d_array` -/
def rows (len n : Nat) : Nat := if len % n = 0 then len / n else len / n + 1

/-- entry `(r, c)` of `to_2d_array` (`none` is the NaN padding) -/
def to2d (a : Nat → K) (len n : Nat) (r c : Nat) : Option K :=
  if r * n + c < len then some (a (r * n + c)) else none

/-- entry `(r, c)` of `to_2d_array_closed_intervals`, `c ≤ n`; the last column is the first
entry of the next row (NaN for the last row) -/
def to2dClosed (a : Nat → K) (len n : Nat) (r c : Nat) : Option K :=
  if c < n then to2d a len n r c
  else if r + 1 < rows len n then to2d a len n (r + 1) 0 else none

def rowsClosed (len n : Nat) (dropLast : Bool) : Nat :=
  if dropLast then rows len n - 1 else rows len n

/-! ### `process.average` (lines 319-321): `nanmean` of every row and every row's first abscissa -/

/-- number of present (non-padding) entries of row `r` -/
def rowCount (len n r : Nat) : Nat := min n (len - r * n)

/-- `np.nanmean(IntervalArray(y, k).to_2d_array(), axis=1)[r]` -/
def averageY (y : Nat → K) (len n r : Nat) : K :=
  sumTo (rowCount len n r) (win y (r * n)) / ((rowCount len n r : Nat) : K)

/-- `IntervalArray(x, k).to_2d_array()[:, 0][r]` -/
def averageX (x : Nat → K) (n r : Nat) : K := x (r * n)

end Interval
end TWV
