import TWV.Model.Base

/-!
# Model of the array helpers of `sorted_array_utils.py`

A series is a total function `Nat → K` together with a length that is passed separately.
Each helper comes as a pair: the element function and the length function.
-/

namespace TWV

variable {K : Type} [Add K] [Sub K] [Mul K] [Div K] [Neg K] [Zero K] [One K] [NatCast K]
  [LT K] [LE K] [DecidableLT K] [DecidableLE K] [DecidableEq K]

/-! ### `oversample_linspace`, `oversample_piecewise_constant` (lines 57-129) -/

/-- element `i` of `oversample_linspace(a, n)` for `n ≥ 2`:
`np.linspace(a[:-1], a[1:], num=n+1)[:-1].T.flatten()` followed by `a[-1]`;
NumPy computes `start + j * ((stop - start) / n)`. -/
def oversampleLin (a : Nat → K) (n : Nat) : Nat → K := fun i =>
  if n < 2 then a i
  else a (i / n) + ((i % n : Nat) : K) * ((a (i / n + 1) - a (i / n)) / (n : K))

/-- element `i` of `oversample_piecewise_constant(a, n)`: `a.repeat(n)[: -n + 1]` -/
def oversamplePC (a : Nat → K) (n : Nat) : Nat → K := fun i =>
  if n < 2 then a i else a (i / n)

/-- length of both oversamplings of an array of length `m ≥ 1` -/
def oversampleLen (m n : Nat) : Nat := if n < 2 then m else (m - 1) * n + 1

/-! ### `extend_linspace`, `extend_constant` (lines 132-233) -/

inductive Direction | both | left | right
  deriving DecidableEq, Repr

def Direction.ofString? : String → Option Direction
  | "both" => some .both | "left" => some .left | "right" => some .right | _ => none

def Direction.hasLeft : Direction → Bool | .both => true | .left => true | .right => false
def Direction.hasRight : Direction → Bool | .both => true | .left => false | .right => true

/-- left part: `np.insert(a, 0, np.linspace(lstart, a[0], n + 1)[:-1])` -/
def extendLinLeft (a : Nat → K) (n : Nat) (lstart : Option K) : Nat → K :=
  let ls := lstart.getD (two * a 0 - a n)
  fun i => if i < n then ls + ((i : Nat) : K) * ((a 0 - ls) / (n : K)) else a (i - n)

/-- right part on an array of length `m`: `np.insert(a, len(a), np.linspace(a[-1], rstop, n+1)[1:])` -/
def extendLinRight (a : Nat → K) (m n : Nat) (rstop : Option K) : Nat → K :=
  let rs := rstop.getD (two * a (m - 1) - a (m - 1 - n))
  fun i => if i < m then a i
           else a (m - 1) + ((i - m + 1 : Nat) : K) * ((rs - a (m - 1)) / (n : K))

/-- `extend_linspace(a, n, direction, lstart, rstop)` on an array of length `m` -/
def extendLin (a : Nat → K) (m n : Nat) (d : Direction) (lstart rstop : Option K) : Nat → K :=
  let a1 := if d.hasLeft then extendLinLeft a n lstart else a
  let m1 := if d.hasLeft then m + n else m
  if d.hasRight then extendLinRight a1 m1 n rstop else a1

def extendLen (m n : Nat) (d : Direction) : Nat :=
  (if d.hasLeft then m + n else m) + (if d.hasRight then n else 0)

/-- `extend_constant(a, n, direction)` on an array of length `m` -/
def extendConst (a : Nat → K) (m n : Nat) (d : Direction) : Nat → K :=
  let a1 : Nat → K := if d.hasLeft then (fun i => if i < n then a 0 else a (i - n)) else a
  let m1 := if d.hasLeft then m + n else m
  if d.hasRight then (fun i => if i < m1 then a1 i else a1 (m1 - 1)) else a1

/-! ### `append_one_sample` (lines 8-54) -/

def appendOneX (x : Nat → K) (m : Nat) : Nat → K := fun i =>
  if i < m then x i else two * x (m - 1) - x (m - 2)

def appendOneY (y : Nat → K) (m : Nat) (periodic : Bool) : Nat → K := fun i =>
  if i < m then y i else if periodic then y 0 else y (m - 1)

/-! ### integrals (lines 236-315) and `sum_over_indices` (lines 552-576) -/

inductive Rule | trapezoid | rectangle
  deriving DecidableEq, Repr

def Rule.ofString? : String → Option Rule
  | "trapezoid" => some .trapezoid | "rectangle" => some .rectangle | _ => none

/-- element `i` of `integral(x, y, method)`; the result has `len - 1` entries -/
def integralAt (r : Rule) (x y : Nat → K) (i : Nat) : K :=
  match r with
  | .trapezoid => (y i + y (i + 1)) / two * (x (i + 1) - x i)
  | .rectangle => y i * (x (i + 1) - x i)

/-- `integral(x, y, method).sum()` over the first `N` intervals -/
def integralSum (r : Rule) (N : Nat) (x y : Nat → K) : K := sumTo N (integralAt r x y)

/-- `a[s:e].sum()` for `e ≤ len a` (an empty slice when `e ≤ s`) -/
def sumRange (a : Nat → K) (s e : Nat) : K := sumTo (e - s) (win a s)

/-- `sum_over_indices(a, indices)` -/
def sumOverIndices (a : Nat → K) : List Nat → List K
  | [] => []
  | [_] => []
  | s :: e :: rest => sumRange a s e :: sumOverIndices a (e :: rest)

end TWV
