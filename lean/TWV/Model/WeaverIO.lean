import TWV.Model.Weaver

/-!
# Model of `weaver.py`, continued: accessors, factories, `to_function`

`TWV/Model/Weaver.lean` has the state machine (`step`), `init`, `from2d`, `sliceByIndex`, `sliceByValue`.
This file adds the hand models of the remaining public methods of `class Weaver`, which translator T14
(`harness/t14_weaverio.py`, `TWV/Generated/WeaverIO.lean`, `TWV/Tie/WeaverIO.lean`) ties to the text:

* `get`, `getOriginal`, `getReference`, `len`, `to2dArray` — read-only views of the state;
* `toFunction spline s sm` — `spline_smooth(self.x, self.y, s=sm)`: the external routine applied to the
  working series and to the smoothing value the caller gave;
* `NdArr K` — what `from_2d_array` can be handed (a NumPy array of any dimension: only 1-D, 2-D and "anything
  else" are distinguished), `from2dArr` on it, `fromCsv`.

This file is Mathlib-free.
-/

namespace TWV
namespace Weaver

variable {K : Type} [Add K] [Sub K] [Mul K] [Div K] [Neg K] [Zero K] [One K] [NatCast K]
  [LT K] [LE K] [DecidableLT K] [DecidableLE K] [DecidableEq K]

/-- `get()` -/
def get (s : State K) : List K × List K := (s.x, s.y)
/-- `get_original()` -/
def getOriginal (s : State K) : List K × List K := (s.ox, s.oy)
/-- `get_reference()` -/
def getReference (s : State K) : List K × List K := (s.rx, s.ry)
/-- `len(wv)` -/
def len (s : State K) : Nat := s.x.length
/-- `to_2d_array()` for a well-formed object (`len x = len y`): one row `[x_i, y_i]` per sample -/
def to2dArray (s : State K) : List (List K) := List.zipWith (fun a b => [a, b]) s.x s.y

/-- `to_function(s=sm)`: `spline x y s` is the callable `spline_smooth(x, y, s=s)` returns (as a function
of the evaluation points); `s = none` is `spline_smooth`'s own default -/
def toFunction (spline : List K → List K → Option K → List K → List K) (s : State K) (sm : K) :
    List K → List K := spline s.x s.y (some sm)

/-- an n-dimensional array as far as `from_2d_array` looks at it -/
inductive NdArr (K : Type)
  /-- shape `(n,)` -/
  | d1 (a : List K)
  /-- shape `(rows.length, width)`; rectangular (`NdArr.WF`): every row has `width` cells -/
  | d2 (rows : List (List K)) (width : Nat)
  /-- 0-d, or 3 and more dimensions: only the shape is looked at -/
  | other (shape : List Nat)

def NdArr.shape : NdArr K → List Nat
  | .d1 a => [a.length]
  | .d2 rows w => [rows.length, w]
  | .other sh => sh

/-- what is ASSUMED of an array: a 2-D array is rectangular, `other` is really neither 1-D nor 2-D -/
def NdArr.WF : NdArr K → Prop
  | .d1 _ => True
  | .d2 rows w => ∀ r ∈ rows, r.length = w
  | .other sh => sh.length ≠ 1 ∧ sh.length ≠ 2

/-- `Weaver.from_2d_array(xy)` for an array of any shape: refused unless the shape is `(n, 2)` -/
def from2dArr : NdArr K → Except Err (State K)
  | .d2 rows w => if w = 2 then from2d rows else .error .valueError
  | _ => .error .valueError

/-- `Weaver.from_csv(file)`: `loaded` is what `np.loadtxt(file, delimiter=',', dtype=np.float64)` returns
(or raises) -/
def fromCsv (loaded : Except Err (NdArr K)) : Except Err (State K) :=
  match loaded with
  | .error e => .error e
  | .ok a => from2dArr a

end Weaver
end TWV
