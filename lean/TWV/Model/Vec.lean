import TWV.Model.Base

/-!
# TWV.Model.Vec — a small prelude of NumPy-like vector operations

The target vocabulary of translator T3 (`harness/t3_vector.py`): a one-dimensional array is a
length together with a *total* element function (the same representation the hand models use,
there with the length passed separately).  All operations are total:

* slices / differences of an empty vector have length `0` (`Nat` subtraction);
* element-wise operations between two vectors take the common (smaller) length — NumPy raises
  for unequal lengths, the tie theorems assume equal lengths;
* `first`, `last`, `min`, `max` of an empty vector read element `0` of the element function.

No Mathlib import; polymorphic over the core operation classes like every model file.
The `@[simp]` lemmas at the end are all `rfl` and let `simp only` push `.get i` / `.len` through
the operations.
-/

namespace TWV

/-- a NumPy 1-D array: `len` and a total element function -/
structure Vec (K : Type) where
  len : Nat
  get : Nat → K

namespace Vec

section defs

variable {K : Type} [Add K] [Sub K] [Mul K] [Div K] [Neg K] [Zero K] [One K] [NatCast K]
  [LT K] [LE K] [DecidableLT K] [DecidableLE K] [DecidableEq K]

/-! ### construction and observation -/

def ofFn (n : Nat) (f : Nat → K) : Vec K := ⟨n, f⟩

/-- `np.array([c0, c1, …])` (elements past the end read `0`) -/
def ofList (l : List K) : Vec K := ⟨l.length, fun i => l.getD i 0⟩

/-- `np.full(n, c)` -/
def const (n : Nat) (c : K) : Vec K := ⟨n, fun _ => c⟩

def toList (v : Vec K) : List K := (List.range v.len).map v.get

/-- `a[0]` -/
def first (v : Vec K) : K := v.get 0

/-- `a[-1]` -/
def last (v : Vec K) : K := v.get (v.len - 1)

/-! ### slices and differences -/

/-- `a[:-1]` -/
def init (v : Vec K) : Vec K := ⟨v.len - 1, v.get⟩

/-- `a[1:]` -/
def tail (v : Vec K) : Vec K := ⟨v.len - 1, fun i => v.get (i + 1)⟩

/-- `np.diff(a)` -/
def diff (v : Vec K) : Vec K := ⟨v.len - 1, fun i => v.get (i + 1) - v.get i⟩

/-! ### element-wise maps -/

def map (f : K → K) (v : Vec K) : Vec K := ⟨v.len, fun i => f (v.get i)⟩

/-- broadcasting of two vectors of equal length -/
def zipWith (f : K → K → K) (a b : Vec K) : Vec K :=
  ⟨Min.min a.len b.len, fun i => f (a.get i) (b.get i)⟩

/-- `-a` -/
def neg (v : Vec K) : Vec K := map (fun t => -t) v

/-- `np.abs(a)` -/
def abs (v : Vec K) : Vec K := map absK v

/-- `a ** alpha` with the abstract power function `pw = (· ** alpha)` -/
def pow (pw : K → K) (v : Vec K) : Vec K := map pw v

/-! vector ∘ vector -/

def add (a b : Vec K) : Vec K := zipWith (fun s t => s + t) a b
def sub (a b : Vec K) : Vec K := zipWith (fun s t => s - t) a b
def mul (a b : Vec K) : Vec K := zipWith (fun s t => s * t) a b
def div (a b : Vec K) : Vec K := zipWith (fun s t => s / t) a b

/-! vector ∘ scalar -/

def adds (v : Vec K) (c : K) : Vec K := map (fun t => t + c) v
def subs (v : Vec K) (c : K) : Vec K := map (fun t => t - c) v
def muls (v : Vec K) (c : K) : Vec K := map (fun t => t * c) v
def divs (v : Vec K) (c : K) : Vec K := map (fun t => t / c) v

/-! scalar ∘ vector -/

def sadd (c : K) (v : Vec K) : Vec K := map (fun t => c + t) v
def ssub (c : K) (v : Vec K) : Vec K := map (fun t => c - t) v
def smul (c : K) (v : Vec K) : Vec K := map (fun t => c * t) v
def sdiv (c : K) (v : Vec K) : Vec K := map (fun t => c / t) v

/-! ### reductions -/

/-- `a.sum()` -/
def sum (v : Vec K) : K := sumTo v.len v.get

/-- `a.min()` -/
def min (v : Vec K) : K := minTo v.get (v.len - 1)

/-- `a.max()` -/
def max (v : Vec K) : K := maxTo v.get (v.len - 1)

end defs

/-! ### `rfl` lemmas: lengths and elements -/

section lemmas

variable {K : Type} (f : K → K) (g : K → K → K) (pw : K → K) (a b v : Vec K) (c : K) (n i : Nat)
  (h : Nat → K) (l : List K)

@[simp] theorem ofFn_len : (ofFn n h).len = n := rfl
@[simp] theorem ofFn_get : (ofFn n h).get i = h i := rfl
@[simp] theorem ofList_len [Zero K] : (ofList l).len = l.length := rfl
@[simp] theorem ofList_get [Zero K] : (ofList l).get i = l.getD i 0 := rfl
@[simp] theorem const_len : (const n c).len = n := rfl
@[simp] theorem const_get : (const n c).get i = c := rfl

theorem first_eq : v.first = v.get 0 := rfl
theorem last_eq : v.last = v.get (v.len - 1) := rfl
theorem sum_eq [Add K] [Zero K] : v.sum = sumTo v.len (fun j => v.get j) := rfl
theorem min_eq [LE K] [DecidableLE K] : v.min = minTo (fun j => v.get j) (v.len - 1) := rfl
theorem max_eq [LE K] [DecidableLE K] : v.max = maxTo (fun j => v.get j) (v.len - 1) := rfl

@[simp] theorem init_len : v.init.len = v.len - 1 := rfl
@[simp] theorem init_get : v.init.get i = v.get i := rfl
@[simp] theorem tail_len : v.tail.len = v.len - 1 := rfl
@[simp] theorem tail_get : v.tail.get i = v.get (i + 1) := rfl
@[simp] theorem diff_len [Sub K] : v.diff.len = v.len - 1 := rfl
@[simp] theorem diff_get [Sub K] : v.diff.get i = v.get (i + 1) - v.get i := rfl

@[simp] theorem map_len : (map f v).len = v.len := rfl
@[simp] theorem map_get : (map f v).get i = f (v.get i) := rfl
@[simp] theorem zipWith_len : (zipWith g a b).len = Min.min a.len b.len := rfl
@[simp] theorem zipWith_get : (zipWith g a b).get i = g (a.get i) (b.get i) := rfl

@[simp] theorem neg_len [Neg K] : v.neg.len = v.len := rfl
@[simp] theorem neg_get [Neg K] : v.neg.get i = -v.get i := rfl
@[simp] theorem abs_len [Neg K] [Zero K] [LT K] [DecidableLT K] : v.abs.len = v.len := rfl
@[simp] theorem abs_get [Neg K] [Zero K] [LT K] [DecidableLT K] : v.abs.get i = absK (v.get i) := rfl
@[simp] theorem pow_len : (pow pw v).len = v.len := rfl
@[simp] theorem pow_get : (pow pw v).get i = pw (v.get i) := rfl

@[simp] theorem add_len [Add K] : (add a b).len = Min.min a.len b.len := rfl
@[simp] theorem add_get [Add K] : (add a b).get i = a.get i + b.get i := rfl
@[simp] theorem sub_len [Sub K] : (sub a b).len = Min.min a.len b.len := rfl
@[simp] theorem sub_get [Sub K] : (sub a b).get i = a.get i - b.get i := rfl
@[simp] theorem mul_len [Mul K] : (mul a b).len = Min.min a.len b.len := rfl
@[simp] theorem mul_get [Mul K] : (mul a b).get i = a.get i * b.get i := rfl
@[simp] theorem div_len [Div K] : (div a b).len = Min.min a.len b.len := rfl
@[simp] theorem div_get [Div K] : (div a b).get i = a.get i / b.get i := rfl

@[simp] theorem adds_len [Add K] : (adds v c).len = v.len := rfl
@[simp] theorem adds_get [Add K] : (adds v c).get i = v.get i + c := rfl
@[simp] theorem subs_len [Sub K] : (subs v c).len = v.len := rfl
@[simp] theorem subs_get [Sub K] : (subs v c).get i = v.get i - c := rfl
@[simp] theorem muls_len [Mul K] : (muls v c).len = v.len := rfl
@[simp] theorem muls_get [Mul K] : (muls v c).get i = v.get i * c := rfl
@[simp] theorem divs_len [Div K] : (divs v c).len = v.len := rfl
@[simp] theorem divs_get [Div K] : (divs v c).get i = v.get i / c := rfl

@[simp] theorem sadd_len [Add K] : (sadd c v).len = v.len := rfl
@[simp] theorem sadd_get [Add K] : (sadd c v).get i = c + v.get i := rfl
@[simp] theorem ssub_len [Sub K] : (ssub c v).len = v.len := rfl
@[simp] theorem ssub_get [Sub K] : (ssub c v).get i = c - v.get i := rfl
@[simp] theorem smul_len [Mul K] : (smul c v).len = v.len := rfl
@[simp] theorem smul_get [Mul K] : (smul c v).get i = c * v.get i := rfl
@[simp] theorem sdiv_len [Div K] : (sdiv c v).len = v.len := rfl
@[simp] theorem sdiv_get [Div K] : (sdiv c v).get i = c / v.get i := rfl

end lemmas

end Vec
end TWV
