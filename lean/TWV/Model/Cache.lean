import TWV.Model.Base

/-!
# Protocol model of the remote-dataset cache
(`load_csv_dataset_from_remote` / `_fetch_remote`, `_base.py` lines 152-271)

Any number of loader processes, each loading one dataset, interleaved arbitrarily; the network
answers every download attempt arbitrarily; any process may be killed at any step boundary
(inside `pickle.dump` this leaves a *partial* pickle, but only in the temporary directory).
-/

namespace TWV
namespace Cache

abbrev Bytes := Nat      -- identity of a downloaded payload
abbrev Data := Nat       -- identity of a parsed array

/-- static description of the datasets: which cache slot each one uses, which payload carries
its pinned SHA-256, and what that payload parses to -/
structure Cfg where
  slotOf : Nat → Nat
  good : Nat → Bytes
  parse : Bytes → Data

/-- answer of the network to one download attempt -/
inductive Net
  | urlError | timeout | other | payload (b : Bytes)
  deriving DecidableEq, Repr

/-- program counter of one loader (the contents of its temporary directory are determined by it) -/
inductive PC
  | init (dl even : Bool) (retries : Nat)
  | fetching (left : Nat)          -- temporary directory exists; `left` retries remain
  | fetched (b : Bytes)            -- archive downloaded into the temporary directory
  | verified (b : Bytes)           -- SHA-256 compared
  | parsed (d : Data)              -- `np.loadtxt` done
  | dumping (d : Data)             -- inside `pickle.dump`: partial pickle in the temporary directory
  | dumped (d : Data)              -- complete pickle in the temporary directory
  | renamed (d : Data)             -- `os.rename` done: the cache entry is the complete pickle
  | cleaned (d : Data)             -- temporary directory removed
  | readCache                      -- will `pickle.load` the cache entry
  | done (r : Data)
  | failed (e : Err)
  | crashed
  deriving DecidableEq, Repr

structure World where
  entry : Nat → Option Data        -- cache slot ↦ complete pickle, if present
  ds : Nat → Nat                   -- process ↦ dataset it loads
  pc : Nat → PC

def setPC (w : World) (p : Nat) (q : PC) : World :=
  { w with pc := fun r => if r = p then q else w.pc r }

/-- one atomic step of loader `p`; `net` is what the network does if this step is a download -/
def step (c : Cfg) (w : World) (p : Nat) (net : Net) : World :=
  let slot := c.slotOf (w.ds p)
  match w.pc p with
  | .init dl even retries =>
      let avail := (w.entry slot).isSome
      if (dl && !avail) || (dl && even && avail) then setPC w p (.fetching retries)
      else if !avail && !dl then setPC w p (.failed .osError)
      else setPC w p .readCache
  | .fetching left =>
      match net with
      | .payload b => setPC w p (.fetched b)
      | .urlError => if left = 0 then setPC w p (.failed .urlError) else setPC w p (.fetching (left - 1))
      | .timeout => if left = 0 then setPC w p (.failed .timeoutError) else setPC w p (.fetching (left - 1))
      | .other => setPC w p (.failed .typeError)
  | .fetched b =>
      if b = c.good (w.ds p) then setPC w p (.verified b) else setPC w p (.failed .osError)
  | .verified b => setPC w p (.parsed (c.parse b))
  | .parsed d => setPC w p (.dumping d)
  | .dumping d => setPC w p (.dumped d)
  | .dumped d =>
      { w with entry := fun s => if s = slot then some d else w.entry s,
               pc := fun r => if r = p then .renamed d else w.pc r }
  | .renamed d => setPC w p (.cleaned d)
  | .cleaned d => setPC w p (.done d)
  | .readCache =>
      match w.entry slot with
      | some d => setPC w p (.done d)
      | none => setPC w p (.failed .osError)
  | .done _ => w
  | .failed _ => w
  | .crashed => w

/-- the process is killed; whatever its temporary directory holds stays there as garbage -/
def crash (w : World) (p : Nat) : World := setPC w p .crashed

inductive Event
  | run (p : Nat) (net : Net)
  | kill (p : Nat)
  deriving Repr

def apply (c : Cfg) (w : World) : Event → World
  | .run p net => step c w p net
  | .kill p => crash w p

def runEvents (c : Cfg) (w : World) (es : List Event) : World := es.foldl (apply c) w

/-- is this step of `p` a download attempt? -/
def isDownload (w : World) (p : Nat) : Bool :=
  match w.pc p with
  | .fetching _ => true
  | _ => false

/-- a single loader run to completion against a scripted network (for the driver and for
`later_load_succeeds`): answers are consumed only by download attempts; fuel bounds the run -/
def runSolo (c : Cfg) : Nat → World → Nat → List Net → World × List PC
  | 0, w, _, _ => (w, [])
  | fuel + 1, w, p, script =>
    match w.pc p with
    | .done _ => (w, [])
    | .failed _ => (w, [])
    | .crashed => (w, [])
    | .fetching _ =>
      match script with
      | [] => (w, [])
      | a :: rest =>
        let w' := step c w p a
        let r := runSolo c fuel w' p rest
        (r.1, w'.pc p :: r.2)
    | _ =>
      let w' := step c w p .other
      let r := runSolo c fuel w' p script
      (r.1, w'.pc p :: r.2)

end Cache
end TWV
