import TWV.Model.Rfa

/-!
# Imperative model of the window strategies of `rfa.py`

`TWV/Model/Rfa.lean` gives every returned sample in closed form ("the value its last writer leaves
there").  This file models what the code *does*: an array `z` that starts as the extended
piecewise-constant oversampling and is overwritten by the loops of `LinearFixedRFA.rfa`,
`LinearAdaptiveRFA.rfa` (lines 270-280, 481-500), `ExpFixedRFA.rfa`, `ExpAdaptiveRFA.rfa`
(lines 648-669, 817-851), interval after interval, sample after sample, in program order.
`TWV/Lemmas/RfaImp.lean` proves that the two models agree on every returned sample (for windows
whose loops do not overlap), so the theorems about the closed form are theorems about the loops.
-/

namespace TWV
namespace RfaImp

variable {K : Type} [Add K] [Sub K] [Mul K] [Div K] [Neg K] [Zero K] [One K] [NatCast K]
  [LT K] [LE K] [DecidableLT K] [DecidableLE K] [DecidableEq K]

open Rfa

/-- `z[p] = v` -/
def setAt (z : Nat → K) (p : Nat) (v : K) : Nat → K := fun q => if q = p then v else z q

/-- `for i in range(lo, hi): z[base + i] = f i` (the right-hand sides never read `z`) -/
def writeRange (z : Nat → K) (base lo hi : Nat) (f : Nat → K) : Nat → K :=
  (List.range' lo (hi - lo)).foldl (fun z i => setAt z (base + i) (f i)) z

/-- `z_0` as the code computes it in interval `k` -/
def z0c (X Y : Nat → K) (n : Nat) (w : Windows) (adaptive : Bool) (k : Nat) : K :=
  if adaptive ∧ w.aR (k - 1) = 0 ∧ w.aL k = 0 then Y (k - 1)
  else linFit (X (k * n)) (X (k * n - w.aR (k - 1)), Y (k - 1)) (X (k * n + w.aL k), Y k)

/-- `z_1` as the code computes it in interval `k`; in the adaptive "no right transition window"
case the code reads `y[k + 1]` — a FLAT index into the extended array (`YE (k + 1)`), a value
that no loop uses afterwards -/
def z1c (X Y YE : Nat → K) (n : Nat) (w : Windows) (adaptive : Bool) (k : Nat) : K :=
  if adaptive ∧ w.aR k = 0 ∧ w.aL (k + 1) = 0 then YE (k + 1)
  else linFit (X ((k + 1) * n)) (X (k * n + n - w.aR k), Y k) (X ((k + 1) * n + w.aL (k + 1)), Y (k + 1))

/-- one iteration of the `for k` loop of the linear strategies -/
def linIter (X Y YE : Nat → K) (n : Nat) (w : Windows) (adaptive : Bool) (z : Nat → K) (k : Nat) :
    Nat → K :=
  let z0 := z0c X Y n w adaptive k
  let z1 := z1c X Y YE n w adaptive k
  let zA := writeRange z (k * n) 0 (w.aL k)
    (fun i => linFit (X (k * n + i)) (X (k * n), z0) (X (k * n + w.aL k), Y k))
  writeRange zA (k * n) (n - w.aR k + 1) (n + 1)
    (fun i => linFit (X (k * n + i)) (X (k * n + n - w.aR k), Y k) (X (k * n + n), z1))

/-- one iteration of the `for k` loop of the exp strategies -/
def expIter (pw : K → K) (X Y YE : Nat → K) (n : Nat) (w : Windows) (adaptive : Bool)
    (z : Nat → K) (k : Nat) : Nat → K :=
  let z0 := z0c X Y n w adaptive k
  let z1 := z1c X Y YE n w adaptive k
  let zlb := if adaptive ∧ w.bL k = 0 then z0
    else linFit (X (k * n + w.bL k)) (X (k * n), z0) (X (k * n + w.aL k), Y k)
  let zrb := if adaptive ∧ w.bR k = 0 then z1
    else linFit (X (k * n + n - w.bR k)) (X (k * n + n - w.aR k), Y k) (X ((k + 1) * n), z1)
  let zA := writeRange z (k * n) 0 (w.bL k)
    (fun i => linFit (X (k * n + i)) (X (k * n), z0) (X (k * n + w.bL k), zlb))
  let zB := writeRange zA (k * n) (w.bL k) (w.aL k)
    (fun i => linExpXYFit pw (X (k * n + i)) (X (k * n + w.bL k), zlb) (X (k * n + w.aL k), Y k))
  let zC := writeRange zB (k * n) (n - w.aR k) (n - w.bR k)
    (fun i => expLinFit pw (X (k * n + i)) (X (k * n + n - w.aR k), Y k) (X (k * n + n - w.bR k), zrb))
  writeRange zC (k * n) (n - w.bR k) n
    (fun i => linFit (X (k * n + i)) (X (k * n + n - w.bR k), zrb) (X (k * n + n), z1))

/-- the whole loop `for k in range(1, nr_of_full_intervals - 1)` on the extended arrays, and the cut `[n:-n]` -/
def linRun (x y : Nat → K) (m n : Nat) (w : Windows) (adaptive : Bool) : Nat → K :=
  let X := XE x m n
  let YEx := YE y m n
  let Y := Yk y m n
  let z := (List.range' 1 (m - 1)).foldl (linIter X Y YEx n w adaptive) YEx
  fun j => z (n + j)

def expRun (pw : K → K) (x y : Nat → K) (m n : Nat) (w : Windows) (adaptive : Bool) : Nat → K :=
  let X := XE x m n
  let YEx := YE y m n
  let Y := Yk y m n
  let z := (List.range' 1 (m - 1)).foldl (expIter pw X Y YEx n w adaptive) YEx
  fun j => z (n + j)

/-- what the four window strategies return, computed the way the code computes it -/
def outYImp (s : Strategy) (pw : K → K) (x y : Nat → K) (m n : Nat) (w : Windows) : Nat → K :=
  match s with
  | .pc => oversamplePC y n
  | .linFixed => linRun x y m n w false
  | .linAdaptive => linRun x y m n w true
  | .expFixed => expRun pw x y m n w false
  | .expAdaptive => expRun pw x y m n w true

/-! ### the same loops on a real array (what the driver runs; `TWV/Properties/RfaImp.lean` shows it
computes `linRun` / `expRun`): every assignment `z[k, i] = v` is one `Array.setIfInBounds` -/

/-- length of the extended arrays -/
def extLen (m n : Nat) : Nat := (m + 1) * n + 1

/-- `for i in range(lo, hi): z[base + i] = f i` on an array -/
def writeRangeA (z : Array K) (base lo hi : Nat) (f : Nat → K) : Array K :=
  (List.range' lo (hi - lo)).foldl (fun z i => z.setIfInBounds (base + i) (f i)) z

def linIterA (X Y YE : Nat → K) (n : Nat) (w : Windows) (adaptive : Bool) (z : Array K) (k : Nat) :
    Array K :=
  let z0 := z0c X Y n w adaptive k
  let z1 := z1c X Y YE n w adaptive k
  let zA := writeRangeA z (k * n) 0 (w.aL k)
    (fun i => linFit (X (k * n + i)) (X (k * n), z0) (X (k * n + w.aL k), Y k))
  writeRangeA zA (k * n) (n - w.aR k + 1) (n + 1)
    (fun i => linFit (X (k * n + i)) (X (k * n + n - w.aR k), Y k) (X (k * n + n), z1))

def expIterA (pw : K → K) (X Y YE : Nat → K) (n : Nat) (w : Windows) (adaptive : Bool)
    (z : Array K) (k : Nat) : Array K :=
  let z0 := z0c X Y n w adaptive k
  let z1 := z1c X Y YE n w adaptive k
  let zlb := if adaptive ∧ w.bL k = 0 then z0
    else linFit (X (k * n + w.bL k)) (X (k * n), z0) (X (k * n + w.aL k), Y k)
  let zrb := if adaptive ∧ w.bR k = 0 then z1
    else linFit (X (k * n + n - w.bR k)) (X (k * n + n - w.aR k), Y k) (X ((k + 1) * n), z1)
  let zA := writeRangeA z (k * n) 0 (w.bL k)
    (fun i => linFit (X (k * n + i)) (X (k * n), z0) (X (k * n + w.bL k), zlb))
  let zB := writeRangeA zA (k * n) (w.bL k) (w.aL k)
    (fun i => linExpXYFit pw (X (k * n + i)) (X (k * n + w.bL k), zlb) (X (k * n + w.aL k), Y k))
  let zC := writeRangeA zB (k * n) (n - w.aR k) (n - w.bR k)
    (fun i => expLinFit pw (X (k * n + i)) (X (k * n + n - w.aR k), Y k) (X (k * n + n - w.bR k), zrb))
  writeRangeA zC (k * n) (n - w.bR k) n
    (fun i => linFit (X (k * n + i)) (X (k * n + n - w.bR k), zrb) (X (k * n + n), z1))

def linRunA (x y : Nat → K) (m n : Nat) (w : Windows) (adaptive : Bool) : Array K :=
  let X := XE x m n
  let YEx := YE y m n
  let Y := Yk y m n
  (List.range' 1 (m - 1)).foldl (linIterA X Y YEx n w adaptive) (tab (extLen m n) YEx)

def expRunA (pw : K → K) (x y : Nat → K) (m n : Nat) (w : Windows) (adaptive : Bool) : Array K :=
  let X := XE x m n
  let YEx := YE y m n
  let Y := Yk y m n
  (List.range' 1 (m - 1)).foldl (expIterA pw X Y YEx n w adaptive) (tab (extLen m n) YEx)

/-- the returned values `z.array[n:-n]` as a list -/
def outYImpA (s : Strategy) (pw : K → K) (x y : Nat → K) (m n : Nat) (w : Windows) : List K :=
  let cut := fun (z : Array K) => (tab (outLen m n) (fun j => arrFn z (n + j))).toList
  match s with
  | .pc => (tab (outLen m n) (oversamplePC y n)).toList
  | .linFixed => cut (linRunA x y m n w false)
  | .linAdaptive => cut (linRunA x y m n w true)
  | .expFixed => cut (expRunA pw x y m n w false)
  | .expAdaptive => cut (expRunA pw x y m n w true)

/-- the windows on which the imperative model follows the code's index arithmetic literally
(no Python negative-offset wrap-around inside an interval): every window fits in one interval -/
def windowsFit (w : Windows) (m n : Nat) : Bool :=
  (List.range (m + 1)).all (fun k => decide (w.aL k ≤ n) && decide (w.aR k ≤ n)
    && decide (w.bL k ≤ n) && decide (w.bR k ≤ n))

end RfaImp
end TWV
