import TWV.Model.SmoothGlue

/-!
# TWV.Model.SmoothVocab — target vocabulary of translator T15 (`harness/t15_smoothglue.py`)

The few primitives `TWV/Generated/SmoothGlue.lean` is written in, besides `powN`, `List.length`, `Option`,
`Except Err` and the types of `TWV/Model/SmoothGlue.lean` (`Spline`, `Supplier`, `FnAttrs`):

* `Sv.npVar`: `np.var(y)` (hand-modelled NumPy: the population variance; `np.std` is *not* modelled, it is a
  function parameter `std` of the generated definition, tied through the hypothesis `std y ^ 2 = npVar y`);
* `Sv.Base`, `Sv.baseAttrs`: what `AbstractRFA.__init__` leaves behind (`self.x`, `self.y`, `self.n`) and the
  `FunctionRFA` object right after `super().__init__(..)` returned (supplier and keyword arguments not yet
  assigned);
* `Sv.SuperInit`: the parent constructor as a function of *its arguments* (an oracle in the generated file;
  `TWV/Tie/SmoothGlue.lean` instantiates it with T12's `abstractInit`).

No Mathlib import.
-/

namespace TWV
namespace Sv

variable {K : Type} [Add K] [Sub K] [Mul K] [Div K] [Neg K] [Zero K] [One K] [NatCast K]
  [LT K] [LE K] [DecidableLT K] [DecidableLE K] [DecidableEq K]

/-- `np.var(y)` of a 1-D array -/
def npVar (y : List K) : K := SmoothGlue.variance (arrFn y.toArray) y.length

/-- `(self.x, self.y, self.n)` -/
abbrev Base (K : Type) := (Nat → K) × (Nat → K) × Nat

/-- `AbstractRFA.__init__(self, x, y, n)` as a function of its arguments -/
abbrev SuperInit (K : Type) := (Nat → K) → (Nat → K) → Nat → Except Err (Base K)

/-- the object after the parent constructor returned -/
def baseAttrs {A : Type} (b : Base K) : SmoothGlue.FnAttrs K A :=
  { x := b.1, y := b.2.1, n := b.2.2, supplier := none, kwargs := [] }

end Sv
end TWV
