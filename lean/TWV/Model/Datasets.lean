import TWV.Model.Base

/-!
# Model of `datasets/_base.py`: name resolution and the data home

Strings are lists of Unicode code points (`List Nat`), so that the kernel can decide the finite
table theorems of C18 quickly; the driver converts real strings with `String.toList`.
-/

namespace TWV
namespace Datasets

abbrev Str := List Nat

def ofString (s : String) : Str := s.toList.map Char.toNat
def toString (s : Str) : String := String.ofList (s.map Char.ofNat)

def hyphen : Nat := 45       -- '-'
def underscore : Nat := 95   -- '_'

/-- `dataset.replace('-', '_')` -/
def replaceHyphen (s : Str) : Str := s.map (fun c => if c = hyphen then underscore else c)

def sandvine : Str := [115, 97, 110, 100, 118, 105, 110, 101]          -- "sandvine"
def loadPrefix : Str := [108, 111, 97, 100, 95]                        -- "load_"
def fetchPrefix : Str := [102, 101, 116, 99, 104, 95]                  -- "fetch_"

/-- `load_dataset`, lines 56-59: the attribute looked up in `traffic_weaver.datasets._datasets` -/
def funName (name : Str) : Str :=
  (if sandvine.isPrefixOf name then loadPrefix else fetchPrefix) ++ replaceHyphen name

/-- lines 61-65: `ValueError` unless the registry module has that attribute -/
def resolve (registry : List Str) (name : Str) : Except Err Str :=
  if registry.contains (funName name) then .ok (funName name) else .error .valueError

/-- the spelling variants of a documented name: as documented, all `-` → `_`, all `_` → `-`
(after the first component for the bundled ones, whose prefix test needs `sandvine`) -/
def variants (name : Str) : List Str :=
  [name, replaceHyphen name, name.map (fun c => if c = underscore then hyphen else c)]

/-- `get_data_home` (lines 93-95) before `expanduser`: explicit argument, else the environment
variable, else the default under the home directory -/
def dataHome (arg env : Option Str) (dflt : Str) : Str :=
  match arg with
  | some a => a
  | none => match env with
    | some e => e
    | none => dflt

/-- cache path components of a remote dataset: `<data_home>/<folder>/<slot>` -/
def cachePath (home folder slot : Str) : List Str := [home, folder, slot]

/-- `unpack_dataset_columns`: the two columns, or the rows -/
def unpack (rows : List (List Int)) : List Int × List Int :=
  (rows.map (fun r => r.getD 0 0), rows.map (fun r => r.getD 1 0))

structure Remote where
  fn : Str
  filename : Str
  url : Str
  checksum : Str
  folder : Str
  slot : Str
  gzip : Bool
  validate : Bool
  deriving DecidableEq, Repr

structure Bundled where
  fn : Str
  file : Str
  scale : Nat              -- values are `entry / scale`
  rows : List (List Int)
  deriving DecidableEq, Repr

end Datasets
end TWV
