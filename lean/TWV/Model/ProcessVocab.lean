import TWV.Model.NpPrims
import TWV.Model.Search
import TWV.Model.Interval
import TWV.Model.Process

/-!
# TWV.Model.ProcessVocab — target vocabulary of translator T10 (`harness/t10_process.py`)

T10 regenerates `truncate`, `trend`, `linear_trend`, `_piecewise_constant_interpolate`, `interpolate`,
`noise_gauss` and `average` of `process.py` as compositions of the primitives of `TWV.Np` / `TWV.Vec`
and of the ones below (namespace `TWV.Pv`).

Two array representations are used, following the hand models the generated code is tied to:

* a Python sequence / 1-D array as a `List K` for the functions whose hand model runs the sorted-array
  scans of `TWV.Search` (`truncate`, `_piecewise_constant_interpolate`, `interpolate`): `lidx`, `lslice`,
  boolean masks (`List Bool`), masked reads and assignments, integer fancy indexing;
* a `Vec K` (length + total element function) for `trend`, `noise_gauss`, `average`: `setAt`
  (`y[i] = v`), `mean`, `powc` (`a ** 2`), the NaN-padded 2-D layout of `IntervalArray.to_2d_array`
  (`OMat`, entries `Option K`, `none` = NaN), `np.nanmean(.., axis=1)`, a column `[:, k]`.

Python exceptions of the own code are values of `Except Err` (`raise ValueError` is
`.error .valueError`, `r[0]` on a Python list / index array is `item`).
`Hand.*` packages each hand model in the signature of the generated definition: it is the right-hand
side of the tie theorem and the fallback T10 emits for a function it cannot translate.

No Mathlib import.
-/

namespace TWV
namespace Pv

section defs

variable {K : Type} [Add K] [Sub K] [Mul K] [Div K] [Neg K] [Zero K] [One K] [NatCast K]
  [LT K] [LE K] [DecidableLT K] [DecidableLE K] [DecidableEq K]

/-! ### sequences as lists -/

/-- `a[k]` (Python's negative-index rule; `0` outside, NumPy raises) -/
def lidx (a : List K) (k : Int) : K := a.getD (Np.normIdx a.length k) 0

/-- `a[lo:hi]` -/
def lslice {α : Type} (a : List α) (lo hi : Option Int) : List α :=
  (a.drop (Np.loB a.length lo)).take (Np.hiB a.length hi - Np.loB a.length lo)

/-- `r[k]` on an index array returned by a search function: `IndexError` outside -/
def item (r : List Int) (k : Int) : Except Err Int :=
  (Interval.pyIndex r.length k).map (fun p => r.getD p 0)

/-- `np.zeros(n)` -/
def zeros (n : Nat) : List K := List.replicate n 0

/-- `a >= c`, `a > c`, `a <= c`, `a < c` for an array `a` and a scalar `c` -/
def maskGe (a : List K) (c : K) : List Bool := a.map (fun t => decide (c ≤ t))
def maskGt (a : List K) (c : K) : List Bool := a.map (fun t => decide (c < t))
def maskLe (a : List K) (c : K) : List Bool := a.map (fun t => decide (t ≤ c))
def maskLt (a : List K) (c : K) : List Bool := a.map (fun t => decide (t < c))

/-- `a[mask]`: the elements under a true flag -/
def maskSel {α : Type} : List α → List Bool → List α
  | [], _ => []
  | _ :: _, [] => []
  | a :: as, b :: ms => if b then a :: maskSel as ms else maskSel as ms

/-- `y[idx]` for an integer index array -/
def takeIdx (y : List K) (idx : List Int) : List K := idx.map (fun k => lidx y k)

/-- `a[mask] = vals` for an array `vals` with one value per true flag (NumPy raises on a shape
mismatch; here the remaining positions keep their value) -/
def maskSet : List K → List Bool → List K → List K
  | [], _, _ => []
  | a :: as, [], _ => a :: as
  | a :: as, false :: ms, vs => a :: maskSet as ms vs
  | a :: as, true :: ms, [] => a :: maskSet as ms []
  | _ :: as, true :: ms, v :: vs => v :: maskSet as ms vs

/-- `a[mask] = v` for a scalar `v` -/
def maskFill : List K → List Bool → K → List K
  | [], _, _ => []
  | a :: as, [], _ => a :: as
  | a :: as, b :: ms, v => (if b then v else a) :: maskFill as ms v

/-- `np.interp(new_x, x, y)` (NumPy's routine, hand-modelled: `Process.interpLinearAt`) -/
def npInterp (newX x y : List K) : List K :=
  newX.map (Process.interpLinearAt (arrFn x.toArray) (arrFn y.toArray) x.length)

/-- `CubicSpline(x, y)(new_x)` / `BSpline(*splrep(x, y))(new_x)`: SciPy's result is data (`ext`) -/
def external (_x _y _newX : List K) (ext : List K) : List K := ext

/-! ### arrays as `Vec` -/

/-- `a[k] = v` -/
def setAt (a : Vec K) (k : Int) (v : K) : Vec K :=
  ⟨a.len, fun j => if j = Np.normIdx a.len k then v else a.get j⟩

/-- `np.mean(a)` -/
def mean (v : Vec K) : K := sumTo v.len v.get / ((v.len : Nat) : K)

/-- `a ** k` for a literal natural `k` -/
def powc (v : Vec K) (k : Nat) : Vec K := Vec.map (fun t => powN t k) v

/-- `np.random.normal(loc, scale, size)`: the draw is external (`normal`), only its length is known -/
def randomNormal (normal : K → (Nat → K) → Nat → Nat → K) (loc : K) (scale : Nat → K) (size : Nat) :
    Vec K := ⟨size, normal loc scale size⟩

/-- a 2-D array with NaN padding (`none`) -/
structure OMat (K : Type) where
  rows : Nat
  cols : Nat
  get : Nat → Nat → Option K

/-- `IntervalArray(a, n).to_2d_array()` -/
def to2d (a : Vec K) (n : Nat) : OMat K := ⟨Interval.rows a.len n, n, Interval.to2d a.get a.len n⟩

/-- sum / number of the present entries among the first `k` -/
def nansumTo : Nat → (Nat → Option K) → K
  | 0, _ => 0
  | k + 1, f => match f k with
    | some v => nansumTo k f + v
    | none => nansumTo k f

def nancountTo {α : Type} : Nat → (Nat → Option α) → Nat
  | 0, _ => 0
  | k + 1, f => match f k with
    | some _ => nancountTo k f + 1
    | none => nancountTo k f

/-- `np.nanmean(m, axis=1)` -/
def nanmeanRows (m : OMat K) : Vec K :=
  ⟨m.rows, fun r => nansumTo m.cols (m.get r) / ((nancountTo m.cols (m.get r) : Nat) : K)⟩

/-- `m[:, k]` (a NaN entry reads `0`: the tie theorems only read present entries) -/
def col (m : OMat K) (k : Int) : Vec K :=
  ⟨m.rows, fun r => (m.get r (Np.normIdx m.cols k)).getD 0⟩

/-! ### the hand models in the signatures of the generated definitions -/

namespace Hand

/-- `Weaver.truncateS` (`TWV/Model/Weaver.lean`; equal by `rfl`, `TWV/Tie/ProcessFns.lean`) -/
def truncate (x y : List K) (l r : K) (lr rr : Bool) : Except Err (List K × List K) := do
  let (a, b) ← Process.truncateBounds x l r lr rr
  pure ((x.drop a).take (b - a), (y.drop a).take (b - a))

def trend (x y : Vec K) (f : K → K) (normalized : Bool) : Vec K × Vec K :=
  (x, Vec.ofFn y.len (Process.trendY f normalized x.get y.get x.len))

def linearTrend (x y : Vec K) (a : K) (normalized : Bool) : Vec K × Vec K :=
  (x, Vec.ofFn y.len (Process.linearTrendY a normalized x.get y.get x.len))

/-- the linear SNR of sample `i` for a scalar `snr` -/
def snrLinS (exp10 : K → K) (snr : K) (db : Bool) : Nat → K :=
  fun _ => if db then exp10 (snr / ((10 : Nat) : K)) else snr

/-- the linear SNR of sample `i` for an array `snr` -/
def snrLinV (exp10 : K → K) (snr : Vec K) (db : Bool) : Nat → K :=
  fun i => if db then exp10 (snr.get i / ((10 : Nat) : K)) else snr.get i

/-- `a + noise`, the draw taken with scale `sqrt (noiseVariance ..)` per sample -/
def noise (sqrt : K → K) (normal : K → (Nat → K) → Nat → Nat → K) (a : Vec K) (snrLin : Nat → K) :
    Vec K :=
  Vec.ofFn a.len (Process.noiseAdd a.get
    (normal 0 (fun i => sqrt (Process.noiseVariance a.get a.len snrLin i)) a.len))

def noiseStd (normal : K → (Nat → K) → Nat → Nat → K) (a : Vec K) (std : K) : Vec K :=
  Vec.ofFn a.len (Process.noiseAdd a.get (normal 0 (fun _ => std) a.len))

def average (x y : Vec K) (n : Nat) : Vec K × Vec K :=
  (Vec.ofFn (Interval.rows x.len n) (Interval.averageX x.get n),
   Vec.ofFn (Interval.rows y.len n) (Interval.averageY y.get y.len n))

end Hand

end defs

end Pv
end TWV
