import TWV.Model.Rfa

/-!
# Vocabulary for translator T12 (`harness/t12_rfaparams.py`): parameter handling of `rfa.py`

Mathlib-free reference definitions the generated file `TWV/Generated/RfaParams.lean` is tied to, in the
terms of `TWV/Model/Rfa.lean`:

* `optNat`: the explicit window `a` as the user hands it in (any real) after `int()`;
* `gammaStep`: what one pass of the loop of `get_adaptive_transition_points` does to the list `gammas`
  (**as the code text does it**: the branch `nom == 0`, `denom != 0` appends nothing, so the list is
  shorter than `a_ls` / `a_rs` by the number of such intervals and misaligned after the first one;
  neither `rfa()` reads `gammas`);
* `stepRef`, `pointsRef`: the three lists of `get_adaptive_transition_points` built from
  `Rfa.adaptiveAt`, one interval at a time, with the `[1]` / `[None]` sentinels at both ends;
* `pcOut`, `functionOut`: what `PiecewiseConstantRFA.rfa` / `FunctionRFA.rfa` return.
-/

namespace TWV
namespace RfaParamsVocab

variable {K : Type} [Add K] [Sub K] [Mul K] [Div K] [Neg K] [Zero K] [One K] [NatCast K]
  [LT K] [LE K] [DecidableLT K] [DecidableLE K] [DecidableEq K]

/-- `int(a)` of an explicitly given window (bounded by `B`, see `natFloorUpTo`) -/
def optNat (B : Nat) (a : Option K) : Option Nat := a.map (natFloorUpTo B)

/-- the list `gammas` after the pass for extended interval `k` (lines 429-457 of `rfa.py`) -/
def gammaStep (gpow : K → K) (Y : Nat → K) (k : Nat) (g : List (Option K)) : List (Option K) :=
  let nom := absK (Y (k + 1) - Y k)
  let denom := absK (Y k - Y (k - 1))
  if nom = 0 ∧ denom = 0 then g ++ [none]
  else if nom = 0 then g
  else if denom = 0 then g ++ [none]
  else g ++ [some (gpow (nom / denom))]

abbrev Lists (K : Type) := List Nat × List Nat × List (Option K)

/-- one pass of the loop: `a_ls`, `a_rs` get the pair `Rfa.adaptiveAt` -/
def stepRef (gpow : K → K) (a : Nat) (Y : Nat → K) (k : Nat) (st : Lists K) : Lists K :=
  (st.1 ++ [(Rfa.adaptiveAt gpow a Y k).1], st.2.1 ++ [(Rfa.adaptiveAt gpow a Y k).2],
   gammaStep gpow Y k st.2.2)

/-- `get_adaptive_transition_points(x, y, a, adaptive_smooth)` for `N = x.nr_of_full_intervals()` -/
def pointsRef (gpow : K → K) (a N : Nat) (Y : Nat → K) : Lists K :=
  let st := (List.range' 1 (N - 1 - 1)).foldl (fun st k => stepRef gpow a Y k st) ([1], [1], [none])
  (st.1 ++ [1], st.2.1 ++ [1], st.2.2 ++ [none])

/-- `PiecewiseConstantRFA(x, y, n).rfa()` (after the constructor accepted `n`) -/
def pcOut (x y : Nat → K) (n : Nat) : (Nat → K) × (Nat → K) := (oversampleLin x n, oversamplePC y n)

/-- `FunctionRFA(x, y, n, supplier).rfa()`: the supplier's function on the oversampled abscissae -/
def functionOut (x y : Nat → K) (n : Nat) (supplier : Option ((Nat → K) → (Nat → K) → K → K)) :
    Except Err ((Nat → K) × (Nat → K)) :=
  match supplier with
  | none => .error .valueError
  | some s => .ok (oversampleLin x n, fun j => s x y (oversampleLin x n j))

end RfaParamsVocab
end TWV
