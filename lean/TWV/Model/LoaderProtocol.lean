/-!
# Protocol of the remote-dataset loader (`datasets/_base.py`)

`TWV/Model/Cache.lean` models `load_csv_dataset_from_remote` / `_fetch_remote` as a machine with the
program counter `Cache.PC`; its proofs (C19, and the slot table of C18) rely on the ORDER and the
PLACEMENT of the file-system and network steps of the Python text: the cache-hit test comes before
any download, everything is written below a fresh temporary directory inside the cache folder, the
checksum is verified before the parse, the cache entry appears by one `os.rename` of a finished
pickle.  This file makes these facts a *checked* object: the list of **protocol events** of every
function involved, in program order, as a hand-written table (`expected`, read off the pinned
source), which `TWV/Tie/LoaderProtocol.lean` proves equal to the table `harness/t7_loader.py`
regenerates from the Python AST (`TWV/Generated/LoaderProtocol.lean`).  On top of the table:
an inliner (`flatten`) and decidable predicates that state the facts (a)-(g).

## Roles: how a path expression is built

* `dataHome`    the result of `get_data_home(…)` (inside `get_data_home`: its parameter and the value
                of the environment variable)
* `cacheDir`    `join(dataHome, dataset_folder)`
* `cacheEntry`  `join(cacheDir, dataset_filename)` — the cache slot
* `cacheOther`  any other path made from `cacheDir` / `cacheEntry` (a FIXED path in the cache folder)
* `tmpDir`      the name bound by `with TemporaryDirectory(dir=…) as name`
* `tmpArchive`  `join(tmpDir, remote.filename)`
* `tmpPickle`   `join(tmpDir, <any other single name>)`
* `systemTmp`   made by a tempfile API without `dir=` (the system's temporary directory)
* `resource`    a file of the installed package (`importlib.resources.files(…) / name`)
* `arg p`       the parameter `p` of the function at hand
* `argFile p`   `join(<parameter p>, remote.filename)`
* `other`       anything else

## Events (one per protocol step; a compound statement is flattened, its structure is kept)

* `mkdirs r b`        `os.makedirs(r, exist_ok=b)`
* `pathExists r`      `os.path.exists(r)`
* `tmpEnter d … tmpLeave`   `with TemporaryDirectory(dir=d) as t:` (`d = systemTmp`: no `dir=`); at
                      `tmpLeave` the directory and its contents are removed
* `openFile r m h`    `open(r, m)` / `GzipFile(filename=r)` (`m = "gzip:rb"`); `h`: the object is the
                      item of a `with` (`withBlock`, closed at the matching `openLeave r`), bound to a
                      name (`bound`), or anonymous (`inline`: an argument of the enclosing call)
* `closeFile r`       `f.close()`
* `urlretrieve r`     the download into `r`
* `sha256 r`          `_sha256(r)`
* `loadtxt r gz`      `np.loadtxt` of the path / file object of `r`; `gz`: through a gzip file object
* `dump r`, `load r`  `pickle.dump(_, f)` / `pickle.load(f)`, `r` the path of `f`
* `renameTo s d`      `os.rename(s, d)`
* `moveTo api s d`    `os.replace`, `shutil.move`, `shutil.copy…` (not atomic / not `os.rename`)
* `remove r`, `rmtree r`
* `loop k h … mark "end"`       `while h:` / `for … in h:`
* `ifEnter t … [mark "else" …] mark "end"`
* `mark "try" … handler ns … [mark "orelse" …] [mark "finally" …] mark "end"`; `ns = []`: bare `except:`
* `warn`, `sleep`, `warnFilter api` (`catch_warnings`, `simplefilter`, `filterwarnings`, `resetwarnings`)
* `raise E` (`""`: bare re-raise), `ret r` (role of the returned value)
* `update n t`        `n -= 1` is `update "n" "-= 1"`; `n = e` for a parameter `n`
* `helper f rs ps`    a call of the module-level function `f`; `rs`: parameter of `f` ↦ role of the
                      actual argument, `ps`: the other arguments as text
* `call f`            any other call (not a pure built-in / path function, not logging)
* `mark s`            `"else" "end" "try" "orelse" "finally" "break" "continue" "with" "import …" "@…"`
* `unsupported s`     something the translator does not read.  Never in `expected`.

Texts (`t`, `h`, `ps`) are printed by the translator: fully parenthesised, `@role` for a path,
parameters by name, a local bound once replaced by its value, other locals `v1, v2, …`.
-/

namespace TWV
namespace LoaderProtocol

inductive Role
  | dataHome | cacheDir | cacheEntry | cacheOther | tmpDir | tmpArchive | tmpPickle | systemTmp | resource
  | arg (p : String)
  | argFile (p : String)
  | other
  deriving DecidableEq, Repr

inductive How
  | withBlock | inline | bound
  deriving DecidableEq, Repr

inductive Event
  | mkdirs (p : Role) (existOk : Bool)
  | pathExists (p : Role)
  | tmpEnter (dir : Role)
  | tmpLeave
  | openFile (p : Role) (mode : String) (how : How)
  | openLeave (p : Role)
  | closeFile (p : Role)
  | urlretrieve (target : Role)
  | sha256 (p : Role)
  | loadtxt (src : Role) (gz : Bool)
  | dump (file : Role)
  | load (file : Role)
  | renameTo (src dst : Role)
  | moveTo (api : String) (src dst : Role)
  | remove (p : Role)
  | rmtree (p : Role)
  | loop (kind hdr : String)
  | ifEnter (test : String)
  | handler (names : List String)
  | warn
  | sleep
  | warnFilter (api : String)
  | raise (exc : String)
  | ret (r : Role)
  | update (name text : String)
  | helper (name : String) (roles : List (String × Role)) (plain : List String)
  | call (name : String)
  | mark (s : String)
  | unsupported (what : String)
  deriving DecidableEq, Repr

abbrev Table := List (String × List Event)

/-- the events of a function in a table (`[]` for a name that is not there) -/
def eventsOf (t : Table) (fn : String) : List Event := (t.lookup fn).getD []

/-! ## Inlining the module-level helpers -/

/-- the role of a callee seen from the caller: `arg p` becomes the role of the actual argument
(`other` if the argument is omitted), `argFile p` = `join(p, remote.filename)` becomes `tmpArchive`
below the temporary directory, `systemTmp` below the system's, `cacheOther` below the cache folder -/
def Role.subst (actual : List (String × Role)) : Role → Role
  | .arg p => (actual.lookup p).getD .other
  | .argFile p =>
    match (actual.lookup p).getD .other with
    | .tmpDir => .tmpArchive
    | .systemTmp => .systemTmp
    | .cacheDir => .cacheOther
    | .cacheEntry => .cacheOther
    | .cacheOther => .cacheOther
    | .arg q => .argFile q
    | _ => .other
  | r => r

def Event.subst (a : List (String × Role)) : Event → Event
  | .mkdirs p b => .mkdirs (p.subst a) b
  | .pathExists p => .pathExists (p.subst a)
  | .tmpEnter d => .tmpEnter (d.subst a)
  | .openFile p m h => .openFile (p.subst a) m h
  | .openLeave p => .openLeave (p.subst a)
  | .closeFile p => .closeFile (p.subst a)
  | .urlretrieve p => .urlretrieve (p.subst a)
  | .sha256 p => .sha256 (p.subst a)
  | .loadtxt p g => .loadtxt (p.subst a) g
  | .dump p => .dump (p.subst a)
  | .load p => .load (p.subst a)
  | .renameTo s d => .renameTo (s.subst a) (d.subst a)
  | .moveTo api s d => .moveTo api (s.subst a) (d.subst a)
  | .remove p => .remove (p.subst a)
  | .rmtree p => .rmtree (p.subst a)
  | .ret r => .ret (r.subst a)
  | .helper f rs ps => .helper f (rs.map (fun x => (x.1, x.2.subst a))) ps
  | e => e

def Event.isRet : Event → Bool | .ret _ => true | _ => false

/-- the events of `l` with every call of a function of the table replaced by that function's events
(its parameters replaced by the actual roles, its `return`s dropped), between `mark "call f"` and
`mark "returned"`; `fuel` bounds the nesting.  `_sha256` stays the single step `sha256 r`. -/
def flatten (t : Table) : Nat → List Event → List Event
  | 0, l => l
  | fuel + 1, l =>
    l.flatMap (fun e =>
      match e with
      | .helper f rs _ =>
        match t.lookup f with
        | some body =>
          .mark ("call " ++ f) ::
            (flatten t fuel ((body.map (Event.subst rs)).filter (fun x => !x.isRet)) ++ [.mark "returned"])
        | none => [e]
      | e => [e])

/-- the loader with `get_data_home` and `_fetch_remote` (and anything else it calls) inlined -/
def loaderFlat (t : Table) : List Event := flatten t 4 (eventsOf t "load_csv_dataset_from_remote")

/-! ## The enclosing blocks of an event -/

inductive Frame
  | ifT (t : String)            -- inside the `if` branch of the test `t`
  | ifF (t : String)            -- inside its `else` branch
  | loop (kind hdr : String)
  | try_
  | handler (names : List String)
  | orelse
  | finally_
  | tmp (dir : Role)            -- inside `with TemporaryDirectory(dir=…)`
  | file (p : Role) (mode : String)   -- inside `with open(p, mode)`
  | with_
  deriving DecidableEq, Repr

def Frame.isFile : Frame → Bool | .file _ _ => true | _ => false

/-- the stack of enclosing blocks (innermost first) after the event -/
def next (st : List Frame) : Event → List Frame
  | .ifEnter t => .ifT t :: st
  | .loop k h => .loop k h :: st
  | .tmpEnter d => .tmp d :: st
  | .tmpLeave => st.tail
  | .openFile p m .withBlock => .file p m :: st
  | .openLeave _ => st.tail
  | .handler ns => .handler ns :: st.tail
  | .mark s =>
    if s = "else" then (match st with | .ifT t :: r => .ifF t :: r | _ => st)
    else if s = "end" then st.tail
    else if s = "try" then .try_ :: st
    else if s = "with" then .with_ :: st
    else if s = "orelse" then .orelse :: st.tail
    else if s = "finally" then .finally_ :: st.tail
    else st
  | _ => st

/-- every event with the stack of blocks it sits in (a closing event still sits in its block) -/
def annotate : List Frame → List Event → List (List Frame × Event)
  | _, [] => []
  | st, e :: l => (st, e) :: annotate (next st e) l

/-- the block stacks of the events that satisfy `p` -/
def contexts (p : Event → Bool) (l : List Event) : List (List Frame) :=
  ((annotate [] l).filter (fun x => p x.2)).map (·.1)

/-! ## Vocabulary of the predicates -/

namespace Event

def isNetwork : Event → Bool | .urlretrieve _ => true | _ => false
def isUnsupported : Event → Bool | .unsupported _ => true | _ => false
/-- a step whose effect is not known: a call outside the vocabulary, a module-level function that is
not in the table (after `flatten`), something the translator did not read -/
def isOpaque : Event → Bool
  | .call _ => true | .helper _ _ _ => true | .unsupported _ => true | _ => false
def isTmpEnter : Event → Bool | .tmpEnter _ => true | _ => false
def isRename : Event → Bool | .renameTo _ _ => true | _ => false
def isLoadtxt : Event → Bool | .loadtxt _ _ => true | _ => false
def isSha : Event → Bool | .sha256 _ => true | _ => false
def isWarn : Event → Bool | .warn => true | _ => false
def isWarnFilter : Event → Bool | .warnFilter _ => true | _ => false
def isHandler : Event → Bool | .handler _ => true | _ => false
def isUpdate : Event → Bool | .update _ _ => true | _ => false
def isMkdirs : Event → Bool | .mkdirs _ _ => true | _ => false

/-- modes that only read; every other mode (and `"?"`, a mode that is not a constant) writes -/
def readModes : List String := ["r", "rb", "rt", "gzip:r", "gzip:rb", "gzip:rt"]
def writesMode (m : String) : Bool := !readModes.contains m

/-- the path a data-writing step writes to: the download, an `open` for writing, `pickle.dump` -/
def writeTarget : Event → Option Role
  | .urlretrieve t => some t
  | .openFile p m _ => if writesMode m then some p else none
  | .dump f => some f
  | _ => none

/-- a step that deletes or moves things, or copies without `os.rename` -/
def isDestructive : Event → Bool
  | .moveTo _ _ _ => true | .remove _ => true | .rmtree _ => true | _ => false

/-- a step that can create, replace, move or remove the cache entry -/
def touchesEntry : Event → Bool
  | .urlretrieve t => t == .cacheEntry
  | .openFile p m _ => p == .cacheEntry && writesMode m
  | .dump f => f == .cacheEntry
  | .renameTo s d => s == .cacheEntry || d == .cacheEntry
  | .moveTo _ s d => s == .cacheEntry || d == .cacheEntry
  | .remove p => p == .cacheEntry
  | .rmtree p => p == .cacheEntry || p == .cacheDir || p == .dataHome
  | .mkdirs p _ => p == .cacheEntry
  | _ => false

/-- any file-system or network step -/
def isStep : Event → Bool
  | .mkdirs _ _ => true | .pathExists _ => true | .tmpEnter _ => true | .tmpLeave => true
  | .openFile _ _ _ => true | .urlretrieve _ => true | .sha256 _ => true | .loadtxt _ _ => true
  | .dump _ => true | .load _ => true | .renameTo _ _ => true | .moveTo _ _ _ => true
  | .remove _ => true | .rmtree _ => true | _ => false

end Event

open Event

def underTmp (r : Role) : Bool := r == .tmpArchive || r == .tmpPickle

/-- everything was read by the translator -/
def supported (l : List Event) : Bool := l.all (fun e => !e.isUnsupported)
/-- no step of unknown effect -/
def closed (l : List Event) : Bool := l.all (fun e => !e.isOpaque)

/-- some event satisfies `p`, and no event satisfying `q` comes before the FIRST such event:
every `q`-event is preceded by a `p`-event -/
def precedes (p q : Event → Bool) (l : List Event) : Bool :=
  l.any p && (l.takeWhile (fun e => !p e)).all (fun e => !q e)

/-- `pat` occurs in `l` as a block of consecutive events -/
def hasInfix (pat : List Event) : List Event → Bool
  | [] => pat.isEmpty
  | e :: l => pat.isPrefixOf (e :: l) || hasInfix pat l

/-- the events from the first `loop` to the `mark "end"` that closes it (both included) -/
def loopSegmentAux : Nat → List Event → List Event
  | _, [] => []
  | d, e :: l =>
    match e with
    | .loop _ _ => e :: loopSegmentAux (d + 1) l
    | .ifEnter _ => e :: loopSegmentAux (d + 1) l
    | .tmpEnter _ => e :: loopSegmentAux (d + 1) l
    | .openFile _ _ .withBlock => e :: loopSegmentAux (d + 1) l
    | .tmpLeave => if d ≤ 1 then [e] else e :: loopSegmentAux (d - 1) l
    | .openLeave _ => if d ≤ 1 then [e] else e :: loopSegmentAux (d - 1) l
    | .mark s =>
      if s = "try" ∨ s = "with" then e :: loopSegmentAux (d + 1) l
      else if s = "end" then (if d ≤ 1 then [e] else e :: loopSegmentAux (d - 1) l)
      else e :: loopSegmentAux d l
    | _ => e :: loopSegmentAux d l

def firstLoop (l : List Event) : List Event :=
  loopSegmentAux 0 (l.dropWhile (fun e => match e with | .loop _ _ => false | _ => true))

/-! ## The protocol facts

`l` is `loaderFlat t` (the loader with its helpers inlined) unless said otherwise. -/

/-- the test that decides between "download" and "use the cache" (`_base.py` l. 251) -/
def flagsTest : String :=
  "(download_if_missing and (not os.path.exists(@cacheEntry))) or (download_if_missing and download_even_if_available and os.path.exists(@cacheEntry))"

/-- **(a)** the cache-hit test `exists(cacheEntry)` precedes every network step, and every network
step sits in the `if` branch of `flagsTest` (so a hit with the default flags downloads nothing) -/
def hitTestFirst (l : List Event) : Bool :=
  closed l && precedes (· == .pathExists .cacheEntry) isNetwork l &&
    (contexts isNetwork l).all (fun c => c.contains (.ifT flagsTest))

/-- **(b)** every data-writing step (the download, an `open` for writing, `pickle.dump`) targets
`tmpArchive` / `tmpPickle`, nothing is deleted, moved or copied, no step of unknown effect -/
def writesOnlyUnderTmp (l : List Event) : Bool :=
  closed l && l.all (fun e => match e.writeTarget with | some r => underTmp r | none => true) &&
    l.all (fun e => !e.isDestructive)

/-- **(c)** there is exactly one temporary directory, created with `dir = cacheDir` (same file
system as the entry), after `makedirs(cacheDir, exist_ok=True)` -/
def tmpInCacheDir (l : List Event) : Bool :=
  supported l && l.filter isTmpEnter == [.tmpEnter .cacheDir] &&
    precedes (· == .mkdirs .cacheDir true) isTmpEnter l

/-- every `makedirs` has `exist_ok=True` and makes the data home or the cache folder -/
def mkdirsTolerant (l : List Event) : Bool :=
  l.all (fun e => match e with
    | .mkdirs p b => b && (p == .dataHome || p == .cacheDir)
    | _ => true)

/-- **(d1)** the only step that touches the cache entry is one `rename(tmpPickle → cacheEntry)` -/
def entryOnlyByRename (l : List Event) : Bool :=
  closed l && l.filter touchesEntry == [.renameTo .tmpPickle .cacheEntry]

/-- **(d2)** before the (first) rename: the checksum of the archive, the parse of the archive, the
`open(tmpPickle, "wb")` and the `pickle.dump` into it -/
def renameLast (l : List Event) : Bool :=
  precedes (· == .sha256 .tmpArchive) isRename l &&
  precedes (fun e => e == .loadtxt .tmpArchive true || e == .loadtxt .tmpArchive false) isRename l &&
  precedes (fun e => match e with | .openFile .tmpPickle "wb" _ => true | _ => false) isRename l &&
  precedes (· == .dump .tmpPickle) isRename l

/-- **(d3)** no rename sits inside a `with open(…)` block (a file that is still open) and every
rename sits inside the temporary directory's block -/
def renameOutsideOpen (l : List Event) : Bool :=
  (contexts isRename l).all (fun c => c.all (fun f => !f.isFile) && c.contains (.tmp .cacheDir))

/-- **(d4, strict)** the pickle is closed by the program text before the rename: the `with
open(tmpPickle, …)` block has been left, or `close()` has been called -/
def closedBeforeRename (l : List Event) : Bool :=
  precedes (fun e => e == .openLeave .tmpPickle || e == .closeFile .tmpPickle) isRename l

/-- **(d4, what the pinned text satisfies)** the pickle is closed by the text, OR every
`open(tmpPickle, <write mode>)` is anonymous (`inline`: its only reference is the argument of the
call it is written in, so CPython's reference counting closes it when `pickle.dump` returns) and
`pickle.dump` comes before the rename -/
def releasedBeforeRename (l : List Event) : Bool :=
  closedBeforeRename l ||
    (l.all (fun e => match e with
      | .openFile .tmpPickle m h => !writesMode m || h == .inline
      | _ => true) && precedes (· == .dump .tmpPickle) isRename l)

/-- **(e)** `sha256(tmpArchive)` precedes every parse, every parse reads `tmpArchive` (the verified
file), the only condition on the checksum step (besides being on the download branch) is the
parameter `validate_checksum`, which is never assigned -/
def checksumBeforeParse (l : List Event) : Bool :=
  supported l && precedes (· == .sha256 .tmpArchive) isLoadtxt l &&
    l.all (fun e => match e with | .loadtxt r _ => r == .tmpArchive | _ => true) &&
    contexts isSha l == [[.ifT "validate_checksum", .tmp .cacheDir, .ifT flagsTest]] &&
    l.all (fun e => match e with | .update n _ => n != "validate_checksum" | _ => true)

/-- **(e')** in `_fetch_remote`: a checksum that differs raises `OSError` right after the hash -/
def mismatchRaises (fetch : List Event) : Bool :=
  hasInfix [.sha256 (.argFile "dirname"), .ifEnter "remote.checksum != _sha256(@argFile:dirname)",
            .raise "OSError", .mark "end"] fetch

/-- the exceptions the retry loop may absorb -/
def transient : List String := ["urllib.error.URLError", "TimeoutError"]

/-- **(f1)** every `except` clause names only `URLError` / `TimeoutError` (no bare `except:`, no
`Exception`): anything else propagates -/
def catchesOnlyTransient (l : List Event) : Bool :=
  supported l && l.all (fun e => match e with
    | .handler ns => !ns.isEmpty && ns.all (fun n => transient.contains n)
    | _ => true)

/-- the retry loop of the pinned `_fetch_remote` (l. 182-192) -/
def retryLoop : List Event := [
  .loop "while" "True", .mark "try", .urlretrieve (.argFile "dirname"), .mark "break",
  .handler transient, .ifEnter "n_retries == 0", .raise "", .mark "end",
  .warn, .update "n_retries" "-= 1", .sleep, .mark "end", .mark "end"]

/-- **(f2)** (on `_fetch_remote`) the first loop is exactly `retryLoop`: one download per round,
left by `break` on success; the handler re-raises when `n_retries == 0`, otherwise warns, counts
`n_retries` down by one and sleeps — at most `n_retries + 1` downloads; `n_retries` is changed
nowhere else and there is no other loop -/
def retryBounded (fetch : List Event) : Bool :=
  firstLoop fetch == retryLoop && fetch.filter isUpdate == [.update "n_retries" "-= 1"] &&
    (fetch.filter (fun e => match e with | .loop _ _ => true | _ => false)).length == 1

/-- **(f3)** (on the loader) `_fetch_remote` is called once, into the temporary directory, with the
caller's own `n_retries`, `delay`, `validate_checksum` -/
def fetchCall : Event :=
  .helper "_fetch_remote" [("remote", .arg "remote"), ("dirname", .tmpDir), ("n_retries", .arg "n_retries"),
    ("delay", .arg "delay"), ("validate_checksum", .arg "validate_checksum")] []

def passesRetries (loader : List Event) : Bool :=
  loader.filter (fun e => match e with | .helper "_fetch_remote" _ _ => true | _ => false) == [fetchCall]

/-- **(g)** no `warnings.catch_warnings` / `simplefilter` / `filterwarnings` (the warning filter is
process-wide state), and `warnings.warn` only inside the retry handler -/
def noWarningFilter (l : List Event) : Bool :=
  supported l && l.all (fun e => !e.isWarnFilter) &&
    (contexts isWarn l).all (fun c => c.contains (.handler transient))

/-- (on `load_dataset`, inlined) nothing touches the file system or the network, and nothing of
unknown effect is called, before the name check `raise ValueError` -/
def nameCheckFirst (l : List Event) : Bool :=
  supported l && l.contains (.raise "ValueError") &&
    (l.takeWhile (· != .raise "ValueError")).all (fun e => !e.isStep && !e.isOpaque)

/-! ## The table of the pinned text
(hand-written: `git show HEAD:src/traffic_weaver/datasets/_base.py`; line numbers of that text)

Correspondence with the program counter `Cache.PC` of `TWV/Model/Cache.lean` (comments; the formal
content is the predicates above):

| events (loader, helpers inlined)                                   | step of `Cache.step`                           |
|---|---|
| `mkdirs dataHome`, `pathExists cacheEntry`, `ifEnter flagsTest`    | `init dl even retries`: `avail := entry.isSome`, the flag table |
| `mkdirs cacheDir`, `tmpEnter cacheDir`                             | → `fetching retries` (the temporary directory exists)          |
| `urlretrieve tmpArchive` inside `retryLoop`                        | `fetching left` with the network's answer: payload → `fetched b`; `URLError` / `TimeoutError` → `handler`: `left = 0` → `raise ""` = `failed`, else `update n_retries "-= 1"` = `fetching (left - 1)`; any other exception passes the handler = `failed typeError` |
| `sha256 tmpArchive`, `ifEnter "remote.checksum != …"`, `raise OSError` | `fetched b` → `verified b` / `failed osError`               |
| `loadtxt tmpArchive _`                                             | `verified b` → `parsed (parse b)`                              |
| `openFile tmpPickle "wb"`                                          | `parsed d` → `dumping d` (a partial pickle, in the temporary directory only) |
| `dump tmpPickle`                                                   | `dumping d` → `dumped d`                                       |
| `renameTo tmpPickle cacheEntry`                                    | `dumped d` → `renamed d`: the ONLY step that changes `entry`   |
| `tmpLeave`                                                         | `renamed d` → `cleaned d`                                      |
| `ret` (l. 269 / 271)                                               | `cleaned d` → `done d`;  `readCache` → `done`                  |
| `mark "else"`, `ifEnter "(not exists) and (not download_if_missing)"`, `raise OSError` | `init` → `failed osError`                |
| `ifEnter "v1 is None"`, `openFile cacheEntry "rb"`, `load cacheEntry` | `init` → `readCache` → `done x` (no network step on this path) |
| a kill between two events                                          | `crash`: everything written so far is below `tmpDir`           |
-/

namespace Expected

/-- `load_dataset(dataset, unpack_dataset_columns=False, **kwargs)` (l. 26-65): the module of the
loaders is imported, the loader's name is looked up (`getattr` is pure), an unknown name raises
`ValueError` BEFORE anything is called; then the loader found is called -/
def load_dataset : List Event := [
  .mark "import traffic_weaver.datasets._datasets",
  .ifEnter "dataset.startswith('sandvine')", .mark "else", .mark "end",
  .mark "try", .handler ["AttributeError"], .raise "ValueError", .mark "end",
  .call "getattr()", .ret .other]

/-- `get_data_home(data_home=None)` (l. 68-97): `makedirs(data_home, exist_ok=True)` -/
def get_data_home : List Event := [
  .ifEnter "data_home is None", .mark "end",
  .mkdirs .dataHome true, .ret .dataHome]

/-- `load_csv_dataset_from_resources(file_name, …)` (l. 112-136): reads a file of the package -/
def load_csv_dataset_from_resources : List Event := [
  .call "importlib.resources.files", .loadtxt .resource false,
  .ifEnter "unpack_dataset_columns", .ret .other, .mark "else", .ret .other, .mark "end"]

/-- `_sha256(path)` (l. 139-149): reads the file in chunks inside `with open(path, "rb")` -/
def sha256 : List Event := [
  .call "hashlib.sha256",
  .openFile (.arg "path") "rb" .withBlock,
  .loop "while" "True",
  .call "file(@arg:path).read",
  .ifEnter "not file(@arg:path).read(8192)", .mark "break", .mark "end",
  .call "hashlib.sha256().update",
  .mark "end",
  .openLeave (.arg "path"),
  .call "hashlib.sha256().hexdigest", .ret .other]

/-- `_fetch_remote(remote, dirname=None, n_retries=3, delay=1.0, validate_checksum=True)` (l. 152-200):
the retry loop around the download into `join(dirname, remote.filename)`, then the checksum -/
def fetch_remote : List Event :=
  retryLoop ++ [
  .ifEnter "validate_checksum",
  .sha256 (.argFile "dirname"),
  .ifEnter "remote.checksum != _sha256(@argFile:dirname)", .raise "OSError", .mark "end",
  .mark "end",
  .ret (.argFile "dirname")]

/-- `load_csv_dataset_from_remote(remote, dataset_filename, dataset_folder, data_home=None, …)`
(l. 203-271) -/
def load_csv_dataset_from_remote : List Event := [
  .helper "get_data_home" [("data_home", .arg "data_home")] [],                   -- l. 243
  .pathExists .cacheEntry,                                                        -- l. 248
  .ifEnter flagsTest,                                                             -- l. 251
  .mkdirs .cacheDir true,                                                         -- l. 252
  .tmpEnter .cacheDir,                                                            -- l. 253
  fetchCall,                                                                      -- l. 255
  .ifEnter "gzip",
  .openFile .tmpArchive "gzip:rb" .inline, .loadtxt .tmpArchive true,             -- l. 258
  .mark "else",
  .loadtxt .tmpArchive false,                                                     -- l. 260
  .mark "end",
  .openFile .tmpPickle "wb" .inline, .dump .tmpPickle,                            -- l. 262
  .renameTo .tmpPickle .cacheEntry,                                               -- l. 263
  .tmpLeave,
  .mark "else",
  .ifEnter "(not os.path.exists(@cacheEntry)) and (not download_if_missing)",     -- l. 264
  .raise "OSError", .mark "end",
  .mark "end",
  .ifEnter "v1 is None",                                                          -- l. 266
  .openFile .cacheEntry "rb" .inline, .load .cacheEntry,                          -- l. 267
  .mark "end",
  .ifEnter "unpack_dataset_columns", .ret .other, .mark "else", .ret .other, .mark "end"]

end Expected

/-- the table of the pinned text, functions in source order -/
def expected : Table := [
  ("load_dataset", Expected.load_dataset),
  ("get_data_home", Expected.get_data_home),
  ("load_csv_dataset_from_resources", Expected.load_csv_dataset_from_resources),
  ("_sha256", Expected.sha256),
  ("_fetch_remote", Expected.fetch_remote),
  ("load_csv_dataset_from_remote", Expected.load_csv_dataset_from_remote)]

end LoaderProtocol
end TWV
