/-!
# Order of effects inside the methods of `class Weaver` (`weaver.py`)

`TWV/Model/Weaver.lean` models every public method of the façade as one `step`, "in the code's
assignment order".  This file makes that order a *checked* object: the list of **effect events** of
every method, in program order, as a hand-written table (`expected`, read off the pinned source),
which `TWV/Tie/WeaverEffects.lean` proves equal to the table `harness/t6_effects.py` regenerates from
the Python AST (`TWV/Generated/WeaverEffects.lean`).  On top of the table: decidable predicates that
say in which order a method validates, computes and assigns.

Event vocabulary (one `Effect` per event; a compound statement is flattened, its structure is kept by
`mark`s):

* `assign a`    a store into the object: `self.a = …`, `self.a op= …`, `self.a[…] = …`; a tuple target
                gives one event per attribute, in target order (`self.x, self.y = …` is `assign x,
                assign y`).  A store through another name is `assign "<name>.a"` / `assign "<name>[]"`.
* `call f`      a call, emitted when the call happens (after its arguments).  `f` is the callee with
                import aliases resolved: `process.truncate`, `numpy.asarray`, `self.slice_by_index`
                (a method of the object), `self.x.copy` (a method of a field), `rfa_class` (a parameter),
                `g()` = a call of the result of calling `g`.  Pure built-ins (`len`, `isinstance`, …)
                and the exception constructor of a `raise` are not events.
* `raise E b`   an explicit `raise E(…)`; `b`: it sits under an `if` (a validation) and not on the
                straight path of the method.
* `warn`        `warnings.warn(…)` (an exception under `-W error`).
* `assert b`    an `assert`; `b`: the asserted expression contains a call (which disappears under
                `python -O`: a state update hidden in an assertion).  The calls inside are not events.
* `ret`         a `return`.
* `mark s`      structure: `"if"`, `"else"`, `"end"` (`elif` is `else` + `if`), `"for"`, `"while"`,
                `"with"`, `"try"`, `"except"`, `"finally"`, `"break"`, `"continue"`, and `"@name"` for a
                decorator of the method (first events).  No predicate below looks at marks.
* `unsupported s`  something the translator does not read (nested `def`, `yield`, `del`, `global`, …).
                Never in `expected`; every predicate below is false on a list that contains one.

What matters downstream is, per method, the sequence restricted to `assign / call / raise / warn /
assert` (`core`).
-/

namespace TWV
namespace WeaverEffects

inductive Effect
  | assign (attr : String)
  | call (name : String)
  | raise (exc : String) (underIf : Bool)
  | warn
  | assert (hasCall : Bool)
  | ret
  | mark (s : String)
  | unsupported (what : String)
  deriving DecidableEq, Repr

namespace Effect

def isAssign : Effect → Bool | .assign _ => true | _ => false
def isCall : Effect → Bool | .call _ => true | _ => false
def isRaise : Effect → Bool | .raise _ _ => true | _ => false
def isWarn : Effect → Bool | .warn => true | _ => false
/-- a `raise` that is not under an `if`: the method cannot get past it -/
def isStraightRaise : Effect → Bool | .raise _ false => true | _ => false
/-- an `assert` whose expression contains a call -/
def isAssertCall : Effect → Bool | .assert true => true | _ => false
def isUnsupported : Effect → Bool | .unsupported _ => true | _ => false
/-- not an effect: `return` and the structure marks -/
def isStructure : Effect → Bool | .ret => true | .mark _ => true | _ => false

end Effect

open Effect

/-- the sequence restricted to `assign / call / raise / warn / assert` (and `unsupported`) -/
def core (l : List Effect) : List Effect := l.filter (fun e => !e.isStructure)

/-- everything was read by the translator -/
def supported (l : List Effect) : Bool := l.all (fun e => !e.isUnsupported)

/-- the events from the first `assign` on (the first `assign` included); `[]` if nothing is assigned -/
def fromFirstAssign (l : List Effect) : List Effect := l.dropWhile (fun e => !e.isAssign)

/-- the events up to the last `assign` (included); `[]` if nothing is assigned -/
def toLastAssign (l : List Effect) : List Effect := (fromFirstAssign l.reverse).reverse

/-- the events from the first to the last `assign` of the method -/
def betweenAssigns (l : List Effect) : List Effect := toLastAssign (fromFirstAssign l)

/-- the object is mutated by the method -/
def mutates (l : List Effect) : Bool := l.any isAssign

/-- **every `raise` precedes every `assign`**: once something has been assigned, no explicit `raise`
follows (a request refused by the method's own validation leaves the object untouched) -/
def validatesFirst (l : List Effect) : Bool :=
  supported l && (fromFirstAssign l).all (fun e => !e.isRaise)

/-- **between the first and the last `assign` there is no `raise`, no `warn` and no `assert` with a
call**: once the object starts changing, only the listed `call`s can interrupt -/
def noEffectBetweenAssigns (l : List Effect) : Bool :=
  supported l && (betweenAssigns l).all (fun e => !(e.isRaise || e.isWarn || e.isAssertCall))

/-- **no `assert` whose expression contains a call** (nothing the method does disappears under `-O`) -/
def noAssignInAssert (l : List Effect) : Bool :=
  supported l && l.all (fun e => !e.isAssertCall)

/-- **every `call` precedes the first `assign`**: everything is computed (and can fail) before the
object is touched; the assignments that follow are plain stores.  The strongest form of
exception-atomicity this vocabulary can express. -/
def computesBeforeAssigning (l : List Effect) : Bool :=
  supported l && (fromFirstAssign l).all (fun e => !e.isCall)

/-- all four -/
def atomic (l : List Effect) : Bool :=
  validatesFirst l && noEffectBetweenAssigns l && noAssignInAssert l && computesBeforeAssigning l

/-- the events of a method in a table (`[]` for a name that is not there) -/
def effectsOf (t : List (String × List Effect)) (method : String) : List Effect :=
  (t.lookup method).getD []

/-! ## The table of the pinned text (hand-written: `git show HEAD:src/traffic_weaver/weaver.py`)

One definition per method, in source order.  Line numbers are those of the pinned text. -/

namespace Expected

/-- `__init__(self, x, y)` (l. 64-79): the length check, then every field is assigned once;
`np.asarray` / `.copy()` are called between the assignments (a failing constructor has no object) -/
def init : List Effect := [
  .mark "if", .raise "ValueError" true, .mark "end",
  .mark "if", .call "numpy.arange", .assign "x",
  .mark "else", .call "numpy.asarray", .assign "x", .mark "end",
  .call "numpy.asarray", .assign "y",
  .call "self.x.copy", .assign "original_x",
  .call "self.y.copy", .assign "original_y",
  .call "self.x.copy", .assign "reference_x",
  .call "self.y.copy", .assign "reference_y",
  .assign "x_scale", .assign "y_scale"]

/-- `from_2d_array(xy)` (static) -/
def from_2d_array : List Effect := [
  .mark "@staticmethod",
  .mark "if", .raise "ValueError" true, .mark "end",
  .call "Weaver", .ret]

/-- `from_dataframe(df, x_col, y_col)` (static) -/
def from_dataframe : List Effect := [.mark "@staticmethod", .call "Weaver", .ret]

/-- `from_csv(file_name)` (static) -/
def from_csv : List Effect := [
  .mark "@staticmethod", .call "numpy.loadtxt", .call "Weaver.from_2d_array", .ret]

def get : List Effect := [.ret]
def get_original : List Effect := [.ret]
def get_reference : List Effect := [.ret]

/-- `restore_original()`: four `.copy()` calls, each followed by its assignment -/
def restore_original : List Effect := [
  .call "self.original_x.copy", .assign "x",
  .call "self.original_y.copy", .assign "y",
  .call "self.original_x.copy", .assign "reference_x",
  .call "self.original_y.copy", .assign "reference_y", .ret]

/-- `append_one_sample(make_periodic)`: the working series is assigned BEFORE the reference series is
extended -/
def append_one_sample : List Effect := [
  .call "sorted_array_utils.append_one_sample", .assign "x", .assign "y",
  .call "sorted_array_utils.append_one_sample", .assign "reference_x", .assign "reference_y", .ret]

/-- `slice_by_index(start, stop, step)` (read-only) -/
def slice_by_index : List Effect := [
  .mark "if", .mark "end",
  .mark "if", .raise "ValueError" true, .mark "end",
  .mark "if", .raise "ValueError" true, .mark "end", .ret]

/-- `slice_by_value(start, stop, step)` (read-only) -/
def slice_by_value : List Effect := [
  .mark "if", .mark "else", .call "numpy.where",
    .mark "if", .raise "ValueError" true, .mark "end", .mark "end",
  .mark "if", .mark "else", .call "numpy.where",
    .mark "if", .raise "ValueError" true, .mark "end", .mark "end",
  .call "self.slice_by_index", .ret]

/-- `interpolate(n, new_x, method, **kwargs)`: both validations, the grid and the interpolation come
first; then `self.y`, then `self.x`, nothing in between -/
def interpolate : List Effect := [
  .mark "if", .raise "ValueError" true, .mark "end",
  .mark "if", .call "numpy.linspace",
  .mark "else", .call "numpy.asarray", .mark "if", .raise "ValueError" true, .mark "end", .mark "end",
  .call "process.interpolate", .assign "y", .assign "x", .ret]

/-- `recreate_from_average(n, rfa_class, **kwargs)`: `rfa_class(…)` then `.rfa()`, one tuple assignment -/
def recreate_from_average : List Effect := [
  .call "rfa_class", .call "rfa_class().rfa", .assign "x", .assign "y", .ret]

def integral_match : List Effect := [
  .call "match.integral_matching_reference_stretch", .assign "y", .ret]

def noise : List Effect := [.call "process.noise_gauss", .assign "y", .ret]

/-- `repeat(n)`: the working series is assigned BEFORE the reference series is repeated -/
def «repeat» : List Effect := [
  .call "process.repeat", .assign "x", .assign "y",
  .call "process.repeat", .assign "reference_x", .assign "reference_y", .ret]

def trend : List Effect := [.call "process.trend", .assign "x", .assign "y", .ret]

/-- `smooth(s)`: `spline_smooth(…)` and the call of the spline it returns -/
def smooth : List Effect := [
  .call "process.spline_smooth", .call "process.spline_smooth()", .assign "y", .ret]

def to_function : List Effect := [.call "process.spline_smooth", .ret]
def to_2d_array : List Effect := [.call "numpy.column_stack", .ret]

def scale_x : List Effect := [.assign "x_scale", .assign "x", .assign "reference_x", .ret]
def scale_y : List Effect := [.assign "y_scale", .assign "y", .assign "reference_y", .ret]
def shift_x : List Effect := [.assign "x", .assign "reference_x", .ret]
def shift_y : List Effect := [.assign "y", .assign "reference_y", .ret]

/-- `normalize_x(min_val, max_val)`: three `normalize` calls, each followed by its assignment -/
def normalize_x : List Effect := [
  .call "process.normalize", .assign "x",
  .call "process.normalize", .assign "original_x",
  .call "process.normalize", .assign "reference_x", .ret]

def normalize_y : List Effect := [
  .call "process.normalize", .assign "y",
  .call "process.normalize", .assign "original_y",
  .call "process.normalize", .assign "reference_y", .ret]

def len : List Effect := [.ret]

/-- `truncate_by_value(…)` (l. 943-949): BOTH truncations are computed into locals before anything is
assigned -/
def truncate_by_value : List Effect := [
  .call "process.truncate", .call "process.truncate",
  .assign "x", .assign "y", .assign "reference_x", .assign "reference_y", .ret]

/-- `truncate_by_index(start, stop)`: the default, two validations, four assignments -/
def truncate_by_index : List Effect := [
  .mark "if", .mark "end",
  .mark "if", .raise "ValueError" true, .mark "end",
  .mark "if", .raise "ValueError" true, .mark "end",
  .assign "x", .assign "y", .assign "reference_x", .assign "reference_y", .ret]

end Expected

/-- the table of the pinned text: every method of `class Weaver`, in source order -/
def expected : List (String × List Effect) := [
  ("__init__", Expected.init),
  ("from_2d_array", Expected.from_2d_array),
  ("from_dataframe", Expected.from_dataframe),
  ("from_csv", Expected.from_csv),
  ("get", Expected.get),
  ("get_original", Expected.get_original),
  ("get_reference", Expected.get_reference),
  ("restore_original", Expected.restore_original),
  ("append_one_sample", Expected.append_one_sample),
  ("slice_by_index", Expected.slice_by_index),
  ("slice_by_value", Expected.slice_by_value),
  ("interpolate", Expected.interpolate),
  ("recreate_from_average", Expected.recreate_from_average),
  ("integral_match", Expected.integral_match),
  ("noise", Expected.noise),
  ("repeat", Expected.repeat),
  ("trend", Expected.trend),
  ("smooth", Expected.smooth),
  ("to_function", Expected.to_function),
  ("to_2d_array", Expected.to_2d_array),
  ("scale_x", Expected.scale_x),
  ("scale_y", Expected.scale_y),
  ("shift_x", Expected.shift_x),
  ("shift_y", Expected.shift_y),
  ("normalize_x", Expected.normalize_x),
  ("normalize_y", Expected.normalize_y),
  ("__len__", Expected.len),
  ("truncate_by_value", Expected.truncate_by_value),
  ("truncate_by_index", Expected.truncate_by_index)]

/-- the methods of the pinned text that assign a field of the object -/
def mutatingMethods : List String :=
  (expected.filter (fun m => mutates m.2)).map (·.1)

/-- the mutating methods of the pinned text for which `computesBeforeAssigning` holds … -/
def computeFirstMethods : List String := [
  "interpolate", "recreate_from_average", "integral_match", "noise", "trend", "smooth",
  "scale_x", "scale_y", "shift_x", "shift_y", "truncate_by_value", "truncate_by_index"]

/-- … and those that interleave calls and assignments (a call that fails leaves the object half
updated: only the `call`s listed between their assignments can do that) -/
def interleavingMethods : List String := [
  "__init__", "restore_original", "append_one_sample", "repeat", "normalize_x", "normalize_y"]

end WeaverEffects
end TWV
