import TWV.Model.Process

/-!
# Hand model of the smoothing glue and of the sampling-function plumbing (translator T15)

What the library's own text does *around* the external numerical routines:

* `process.spline_smooth(x, y, s=None)`: the smoothing condition handed to FITPACK is `s` when given and
  `len(y) * std(y) ** 2` (`Process.defaultS`) otherwise; the spline is fitted on `(x, y, s)`;
* the last statement of `match.integral_matching_reference_stretch` / `integral_matching_stretch`: no smoothing
  for `s is None`, otherwise `spline_smooth(x, res_y, s)(x)`;
* `rfa.FunctionRFA.__init__`, `_get_sampling_function`, `CubicSplineRFA.__init__`: which supplier and which
  keyword arguments are stored and what the supplier is applied to.

The external routines are oracle *functions*: `Spline K` stands for `(x, y, s) ↦ BSpline(*splrep(x, y, s=s))`
(`s = none`: `splrep` called without a smoothing condition), the result being the callable evaluated on an
array; `Supplier K A` stands for a sampling-function factory called as `supplier(x, y, **kwargs)` (`A` is the
type of a keyword-argument entry, `{}` is `[]`).

No Mathlib import.
-/

set_option linter.unusedSectionVars false

namespace TWV
namespace SmoothGlue

variable {K : Type} [Add K] [Sub K] [Mul K] [Div K] [Neg K] [Zero K] [One K] [NatCast K]
  [LT K] [LE K] [DecidableLT K] [DecidableLE K] [DecidableEq K]

/-! ### `spline_smooth` -/

/-- the population variance `np.var(y)`: the mean of the squared deviations from `Process.mean` -/
def variance (y : Nat → K) (n : Nat) : K :=
  sumTo n (fun i => (y i - Process.mean y n) * (y i - Process.mean y n)) / (n : K)

theorem defaultS_variance (y : Nat → K) (n : Nat) :
    Process.defaultS y n = (n : K) * variance y n := rfl

/-- `(x, y, s) ↦ BSpline(*splrep(x, y, s=s))`, evaluated on an array -/
abbrev Spline (K : Type) := List K → List K → Option K → List K → List K

/-- the smoothing condition FITPACK receives -/
def smoothingCondition (y : List K) (s : Option K) : K :=
  match s with
  | some v => v
  | none => Process.defaultS (arrFn y.toArray) y.length

/-- `spline_smooth(x, y, s)` -/
def splineSmooth (spline : Spline K) (x y : List K) (s : Option K) : List K → List K :=
  spline x y (some (smoothingCondition y s))

/-! ### the optional final smoothing of `match.py` -/

/-- `res_y if s is None else spline_smooth(x, res_y, s)(x)` -/
def finalSmooth (spline : Spline K) (x resY : List K) (s : Option K) : List K :=
  match s with
  | none => resY
  | some v => spline x resY (some v) x

/-! ### `FunctionRFA` / `CubicSplineRFA` -/

/-- a sampling-function factory, called as `supplier(x, y, **kwargs)` -/
abbrev Supplier (K A : Type) := (Nat → K) → (Nat → K) → List A → K → K

/-- the instance attributes of a `FunctionRFA` -/
structure FnAttrs (K A : Type) where
  x : Nat → K
  y : Nat → K
  n : Nat
  supplier : Option (Supplier K A)
  kwargs : List A

/-- `FunctionRFA(x, y, n, supplier, kwargs)`: `AbstractRFA.__init__` refuses `n < 2` -/
def functionInit {A : Type} (x y : Nat → K) (n : Nat) (supplier : Option (Supplier K A))
    (kwargs : Option (List A)) : Except Err (FnAttrs K A) :=
  if n < 2 then .error .valueError
  else .ok { x := x, y := y, n := n, supplier := supplier, kwargs := kwargs.getD [] }

/-- `self._get_sampling_function()` -/
def samplingFunction {A : Type} (a : FnAttrs K A) : Except Err (K → K) :=
  match a.supplier with
  | none => .error .valueError
  | some f => .ok (f a.x a.y a.kwargs)

/-- the default supplier of `CubicSplineRFA`: `lambda x, y: CubicSpline(x, y)` -/
def cubicSupplier {A : Type} (cubicSpline : (Nat → K) → (Nat → K) → K → K) : Supplier K A :=
  fun x y _ => cubicSpline x y

/-- `CubicSplineRFA(x, y, n[, supplier])`; `supplier = none`: the argument is left to its default,
`some none`: an explicit `None` -/
def cubicInit {A : Type} (cubicSpline : (Nat → K) → (Nat → K) → K → K) (x y : Nat → K) (n : Nat)
    (supplier : Option (Option (Supplier K A))) : Except Err (FnAttrs K A) :=
  functionInit x y n (match supplier with
    | none => some (cubicSupplier cubicSpline)
    | some s => s) none

end SmoothGlue
end TWV
